import CG.Base.Bytes
/-!
Model of `/repo/src/wallet/extended_key.rs` (C08): the 78-byte `ExtendedKey` layout and its accessors,
`new_public_key`, `new_private_key`, `public_key`, `fingerprint`, `extended_public_key`,
`derive_private_key`, `derive_public_key`, `derive_extended_key` (path parser) and
`is_private_key_valid`.

External crates are PARAMETERS (`Ops`): `hmac`/`sha2` (HMAC-SHA512), `hash160`, and k256 (scalar
multiple of the generator, point addition, identity test, SEC1 compressed (de)serialisation).
k256's `SecretKey::from_slice` on a 32-byte slice is the range check `0 < x < n` (`secretKey`), and
`ScalarPrimitive::add` is addition modulo `n`.

The model exists in two variants selected by `Variant`: `pinned` is the tree as found (48332c3),
`repaired` is the tree with the three C08 patches of /verif/proposed_fixes applied:
* `ckdpubAddsParent` — C08-ckdpub-parent-point.patch (`derive_public_key` adds the parent point;
  the pinned code adds the offset point to itself);
* `mIsPublic` — C08-M-path-public.patch (`derive_extended_key` converts the master to its public
  form when the path starts with `M`);
* `strictIndex` — C08-path-strict-index.patch (one optional hardened marker, decimal digits only;
  the pinned code strips any run `H*h*'*` and `u32::from_str` accepts a leading `+`).
The correspondence run compares the real code with `repaired`.
-/
namespace CG.Model.Bip32
open CG

/-! ### integers -/

/-- big-endian value -/
def beNat (b : Bytes) : Nat := leToNat b.reverse
/-- `len`-byte big-endian encoding (truncating: `write_u32::<BigEndian>`, `to_bytes`) -/
def natBE (len x : Nat) : Bytes := (natToLEn len x).reverse

/-! ### constants of extended_key.rs -/

def HARDENED_KEY : Nat := 2147483648
def MAINNET_PUBLIC : Nat := 0x0488B21E
def MAINNET_PRIVATE : Nat := 0x0488ADE4
def TESTNET_PUBLIC : Nat := 0x043587CF
def TESTNET_PRIVATE : Nat := 0x04358394

/-- `SECP256K1_CURVE_ORDER` -/
def curveOrderBytes : Bytes :=
  [0xff, 0xff, 0xff, 0xff, 0xff, 0xff, 0xff, 0xff, 0xff, 0xff, 0xff, 0xff, 0xff, 0xff, 0xff, 0xfe,
   0xba, 0xae, 0xdc, 0xe6, 0xaf, 0x48, 0xa0, 0x3b, 0xbf, 0xd2, 0x5e, 0x8c, 0xd0, 0x36, 0x41, 0x41]

/-- order of the secp256k1 group (k256's modulus for `ScalarPrimitive`) -/
def n : Nat := 0xFFFFFFFFFFFFFFFFFFFFFFFFFFFFFFFEBAAEDCE6AF48A03BBFD25E8CD0364141

/-! ### parameters: the external crates -/

structure Ops (P : Type) where
  /-- `Hmac<Sha512>`: key, message ↦ tag -/
  hmac : Bytes → Bytes → Bytes
  hash160 : Bytes → Bytes
  /-- `SecretKey::public_key` / `PublicKey::from_secret_scalar`: `x ↦ x·G` -/
  mulG : Nat → P
  /-- `ProjectivePoint::add` -/
  add : P → P → P
  /-- identity test (`PublicKey::try_from(ProjectivePoint)` fails exactly on the identity) -/
  isId : P → Bool
  /-- `to_sec1_bytes` (compressed) -/
  ser : P → Bytes
  /-- `PublicKey::from_sec1_bytes` (on 33 bytes k256 accepts the compressed tags `02`/`03` and the
      `sec1` crate's compact tag `05`, decoded with even y; the driver instantiates exactly that) -/
  parse : Bytes → Option P

inductive KeyType | pub | priv
deriving DecidableEq, Repr

inductive Net | main | test
deriving DecidableEq, Repr

structure Variant where
  ckdpubAddsParent : Bool
  mIsPublic : Bool
  strictIndex : Bool
deriving DecidableEq, Repr

def pinned : Variant := ⟨false, false, false⟩
def repaired : Variant := ⟨true, true, true⟩

/-! ### the 78-byte layout: accessors (the key is `k : Bytes` with `k.length = 78`) -/

def version (k : Bytes) : Nat := beNat (k.take 4)
def depth (k : Bytes) : Nat := ((k.drop 4).headD 0).toNat
def parentFingerprint (k : Bytes) : Bytes := (k.drop 5).take 4
def index (k : Bytes) : Nat := beNat ((k.drop 9).take 4)
def chainCode (k : Bytes) : Bytes := (k.drop 13).take 32
/-- `&self.0[45..]` -/
def keyData (k : Bytes) : Bytes := k.drop 45
/-- `&self.0[46..]` -/
def privBytes (k : Bytes) : Bytes := k.drop 46

def network (k : Bytes) : Outcome Net :=
  let v := version k
  if v = MAINNET_PUBLIC ∨ v = MAINNET_PRIVATE then .ok .main
  else if v = TESTNET_PUBLIC ∨ v = TESTNET_PRIVATE then .ok .test
  else .err "BadData"

def keyType (k : Bytes) : Outcome KeyType :=
  let v := version k
  if v = MAINNET_PUBLIC ∨ v = TESTNET_PUBLIC then .ok .pub
  else if v = MAINNET_PRIVATE ∨ v = TESTNET_PRIVATE then .ok .priv
  else .err "BadData"

/-! ### constructors -/

def pubVersion : Net → Nat
  | .main => MAINNET_PUBLIC
  | .test => TESTNET_PUBLIC
def privVersion : Net → Nat
  | .main => MAINNET_PRIVATE
  | .test => TESTNET_PRIVATE

/-- `ExtendedKey::new_public_key` (`depth : u8`, `index : u32`) -/
def newPublicKey (net : Net) (depth : Nat) (fp : Bytes) (index : Nat) (cc pk : Bytes) : Outcome Bytes :=
  if fp.length ≠ 4 then .err "BadArgument"
  else if cc.length ≠ 32 then .err "BadArgument"
  else if pk.length ≠ 33 then .err "BadArgument"
  else .ok (natBE 4 (pubVersion net) ++ (UInt8.ofNat depth :: (fp ++ (natBE 4 index ++ (cc ++ pk)))))

/-- `ExtendedKey::new_private_key` -/
def newPrivateKey (net : Net) (depth : Nat) (fp : Bytes) (index : Nat) (cc sk : Bytes) : Outcome Bytes :=
  if fp.length ≠ 4 then .err "BadArgument"
  else if cc.length ≠ 32 then .err "BadArgument"
  else if sk.length ≠ 32 then .err "BadArgument"
  else .ok (natBE 4 (privVersion net) ++ (UInt8.ofNat depth :: (fp ++ (natBE 4 index ++ (cc ++ ((0 : UInt8) :: sk))))))

/-! ### scalars -/

/-- k256 `SecretKey::from_slice` on the slices this file passes (always 32 bytes): big-endian
    value, rejected when zero or `≥ n`.  (Slices of 24..31 bytes would be left-padded by k256; no
    call site can produce one.) -/
def secretKey (b : Bytes) : Outcome Nat :=
  if b.length = 32 ∧ 0 < beNat b ∧ beNat b < n then .ok (beNat b) else .err "K256EcError"

/-- first loop of `is_private_key_valid`: is there a position with `key[i] < ORDER[i]`
    (the loop does NOT require the earlier bytes to be equal) -/
def anyBelow : Bytes → Bytes → Bool
  | a :: as, b :: bs => if a < b then true else anyBelow as bs
  | _, _ => false

/-- `is_private_key_valid` -/
def isPrivateKeyValid (key : Bytes) : Bool :=
  if key.length ≠ 32 then false
  else if !anyBelow key curveOrderBytes then false
  else (key.take 32).any (· != 0)

/-! ### public key, fingerprint, neutering -/

/-- `ExtendedKey::public_key` -/
def publicKey {P} (o : Ops P) (k : Bytes) : Outcome Bytes :=
  match keyType k with
  | .err e => .err e
  | .panic s => .panic s
  | .ok .pub => .ok (keyData k)
  | .ok .priv =>
    match secretKey (privBytes k) with
    | .err e => .err e
    | .panic s => .panic s
    | .ok x =>
      let b := o.ser (o.mulG x)
      if b.length ≠ 33 then .panic "assert pk_vec.len() == 33" else .ok b

/-- `ExtendedKey::fingerprint` -/
def fingerprint {P} (o : Ops P) (k : Bytes) : Outcome Bytes :=
  (publicKey o k).map fun pk => (o.hash160 pk).take 4

/-- `ExtendedKey::extended_public_key` -/
def extendedPublicKey {P} (o : Ops P) (k : Bytes) : Outcome Bytes :=
  match keyType k with
  | .err e => .err e
  | .panic s => .panic s
  | .ok .pub => .ok k
  | .ok .priv =>
    match secretKey (privBytes k) with
    | .err e => .err e
    | .panic s => .panic s
    | .ok x =>
      let b := o.ser (o.mulG x)
      if b.length ≠ 33 then .panic "assert public_key.len() == 33" else
      match network k with
      | .err e => .err e
      | .panic s => .panic s
      | .ok net => newPublicKey net (depth k) (parentFingerprint k) (index k) (chainCode k) b

/-! ### single derivation steps -/

/-- the part of both derivation functions after the HMAC: length check, `is_private_key_valid`,
    `SecretKey::from_slice(&hmac[..32])` -/
def offsetScalar (I : Bytes) : Outcome Nat :=
  if I.length ≠ 64 then .err "IllegalState"
  else if !isPrivateKeyValid (I.take 32) then .err "IllegalState"
  else secretKey (I.take 32)

/-- `ExtendedKey::derive_private_key` (`i : u32`).  The Rust code recomputes the parent public key
    inside `fingerprint()`; it is a pure function of `k`, so the model shares the value `pkO`. -/
def derivePrivateKey {P} (o : Ops P) (k : Bytes) (i : Nat) : Outcome Bytes :=
  match keyType k with
  | .err e => .err e
  | .panic s => .panic s
  | .ok .pub => .err "BadData"
  | .ok .priv =>
    match network k with
    | .err e => .err e
    | .panic s => .panic s
    | .ok net =>
      if depth k = 255 then .err "BadData" else
      match secretKey (privBytes k) with
      | .err e => .err e
      | .panic s => .panic s
      | .ok par =>
        let pkO := publicKey o k
        let dataO : Outcome Bytes :=
          if i ≥ HARDENED_KEY then .ok ((0 : UInt8) :: (privBytes k ++ natBE 4 i))
          else pkO.map fun pk => pk ++ natBE 4 i
        match dataO with
        | .err e => .err e
        | .panic s => .panic s
        | .ok data =>
          let I := o.hmac (chainCode k) data
          match offsetScalar I with
          | .err e => .err e
          | .panic s => .panic s
          | .ok il =>
            let child := (il + par) % n
            match pkO with
            | .err e => .err e
            | .panic s => .panic s
            | .ok pk =>
              let fp := (o.hash160 pk).take 4
              if depth k + 1 > 255 then .panic "attempt to add with overflow" else
              newPrivateKey net (depth k + 1) fp i (I.drop 32) (natBE 32 child)

/-- the child point of `derive_public_key`: pinned `child_offset.add(child_offset)`, repaired
    `child_offset.add(PublicKey::from_sec1_bytes(&public_key)?.to_projective())` -/
def childPoint {P} (addsParent : Bool) (o : Ops P) (il : Nat) (pk : Bytes) : Outcome P :=
  if addsParent then
    match o.parse pk with
    | none => .err "K256EcError"
    | some par => .ok (o.add (o.mulG il) par)
  else .ok (o.add (o.mulG il) (o.mulG il))

/-- `ExtendedKey::derive_public_key`; `addsParent = false` is the pinned code
    (`child_offset.add(child_offset)`), `true` the repaired one
    (`child_offset.add(PublicKey::from_sec1_bytes(&public_key)?.to_projective())`). -/
def derivePublicKey {P} (addsParent : Bool) (o : Ops P) (k : Bytes) (i : Nat) : Outcome Bytes :=
  if i ≥ HARDENED_KEY then .err "BadArgument" else
  match network k with
  | .err e => .err e
  | .panic s => .panic s
  | .ok net =>
    if depth k = 255 then .err "BadData" else
    match publicKey o k with
    | .err e => .err e
    | .panic s => .panic s
    | .ok pk =>
      let I := o.hmac (chainCode k) (pk ++ natBE 4 i)
      match offsetScalar I with
      | .err e => .err e
      | .panic s => .panic s
      | .ok il =>
        match childPoint addsParent o il pk with
        | .err e => .err e
        | .panic s => .panic s
        | .ok child =>
          if o.isId child then .err "K256EcError" else
          let cb := o.ser child
          if cb.length ≠ 33 then .panic "assert pk_vec.len() == 33" else
          let fp := (o.hash160 pk).take 4
          if depth k + 1 > 255 then .panic "attempt to add with overflow" else
          newPublicKey net (depth k + 1) fp i (I.drop 32) cb

/-! ### the path parser -/

/-- `str::split(sep)`: always at least one part -/
def splitOn (sep : Char) : List Char → List (List Char)
  | [] => [[]]
  | c :: cs =>
    if c = sep then [] :: splitOn sep cs
    else match splitOn sep cs with
      | h :: t => (c :: h) :: t
      | [] => [[c]]

def endsWith (c : Char) (s : List Char) : Bool := s.getLast? == some c

/-- `str::trim_end_matches(c)` -/
def trimEnd (c : Char) (s : List Char) : List Char := (s.reverse.dropWhile (· == c)).reverse

def decimal (ds : List Char) : Nat := ds.foldl (fun a c => 10 * a + (c.toNat - 48)) 0

/-- `u32::from_str` strips one leading `+` (when more characters follow; a lone `+` is rejected below) -/
def stripPlus : List Char → List Char
  | '+' :: r => r
  | s => s

/-- `u32::from_str`: optional single leading `+`, then one or more ASCII digits, value `< 2^32` -/
def parseU32 (s : List Char) : Outcome Nat :=
  if s = [] then .err "ParseIntError"
  else if stripPlus s = [] then .err "ParseIntError"
  else if (stripPlus s).all Char.isDigit then
    (if decimal (stripPlus s) < 4294967296 then .ok (decimal (stripPlus s)) else .err "ParseIntError")
  else .err "ParseIntError"

def isMarker (c : Char) : Bool := c == '\'' || c == 'h' || c == 'H'

/-- index of one non-empty path component, pinned code -/
def parseIndexPinned (part : List Char) : Outcome Nat :=
  if endsWith '\'' part || endsWith 'h' part || endsWith 'H' part then
    match parseU32 (trimEnd 'H' (trimEnd 'h' (trimEnd '\'' part))) with
    | .err e => .err e
    | .panic s => .panic s
    | .ok v => if v ≥ HARDENED_KEY then .err "BadArgument" else .ok (v + HARDENED_KEY)
  else parseU32 part

/-- does the component end in one of the hardened markers -/
def lastIsMarker (part : List Char) : Bool :=
  match part.getLast? with
  | some c => isMarker c
  | none => false

/-- `part.strip_suffix(marker)` or the part itself -/
def indexDigits (part : List Char) : List Char := if lastIsMarker part then part.dropLast else part

/-- index of one non-empty path component, repaired code (C08-path-strict-index.patch) -/
def parseIndexStrict (part : List Char) : Outcome Nat :=
  if indexDigits part = [] || !(indexDigits part).all Char.isDigit then .err "BadArgument" else
  match parseU32 (indexDigits part) with
  | .err e => .err e
  | .panic s => .panic s
  | .ok v =>
    if lastIsMarker part then (if v ≥ HARDENED_KEY then .err "BadArgument" else .ok (v + HARDENED_KEY))
    else .ok v

def parseIndex (v : Variant) (part : List Char) : Outcome Nat :=
  if v.strictIndex then parseIndexStrict part else parseIndexPinned part

/-- `match key_type { Public => key.derive_public_key(index)?, Private => key.derive_private_key(index)? }` -/
def deriveStep {P} (v : Variant) (o : Ops P) (kt : KeyType) (key : Bytes) (idx : Nat) : Outcome Bytes :=
  match kt with
  | .pub => derivePublicKey v.ckdpubAddsParent o key idx
  | .priv => derivePrivateKey o key idx

/-- the `for part in parts[1..]` loop of `derive_extended_key` -/
def deriveLoop {P} (v : Variant) (o : Ops P) (kt : KeyType) : Bytes → List (List Char) → Outcome Bytes
  | key, [] => .ok key
  | key, part :: rest =>
    if part = [] then .err "BadArgument" else
    match parseIndex v part with
    | .err e => .err e
    | .panic s => .panic s
    | .ok idx =>
      match deriveStep v o kt key idx with
      | .err e => .err e
      | .panic s => .panic s
      | .ok key' => deriveLoop v o kt key' rest

/-- what `derive_extended_key` does with `parts[0]`: the derivation mode and the start key -/
def pathStart {P} (v : Variant) (o : Ops P) (master : Bytes) (p0 : List Char) : Outcome (KeyType × Bytes) :=
  if p0 = ['m'] then
    match keyType master with
    | .err e => .err e
    | .panic s => .panic s
    | .ok .pub => .err "BadArgument"
    | .ok .priv => .ok (.priv, master)
  else if p0 ≠ ['M'] then .err "BadArgument"
  else if v.mIsPublic then (extendedPublicKey o master).map fun k => (.pub, k)
  else .ok (.pub, master)

/-- `derive_extended_key(master, path)` -/
def deriveExtendedKey {P} (v : Variant) (o : Ops P) (master : Bytes) (path : List Char) : Outcome Bytes :=
  match splitOn '/' path with
  | [] => .panic "parts[0]"
  | p0 :: rest =>
    match pathStart v o master p0 with
    | .err e => .err e
    | .panic s => .panic s
    | .ok (kt, key) => deriveLoop v o kt key rest

/-- the purely syntactic part of `derive_extended_key`: mode and child numbers, or the first
    syntax error (used to state `C08_parse_path`; `deriveExtendedKey` interleaves it with derivation) -/
def parseParts (v : Variant) : List (List Char) → Outcome (List Nat)
  | [] => .ok []
  | part :: rest =>
    if part = [] then .err "BadArgument" else
    match parseIndex v part with
    | .err e => .err e
    | .panic s => .panic s
    | .ok idx => (parseParts v rest).map (idx :: ·)

def parsePath (v : Variant) (path : List Char) : Outcome (KeyType × List Nat) :=
  match splitOn '/' path with
  | [] => .panic "parts[0]"
  | p0 :: rest =>
    if p0 = ['m'] then (parseParts v rest).map fun l => (.priv, l)
    else if p0 = ['M'] then (parseParts v rest).map fun l => (.pub, l)
    else .err "BadArgument"

end CG.Model.Bip32

import CG.Base.Bytes
/-!
Model of `Block::merkle_root` / the root check of `Block::validate` (`src/messages/block.rs`) and of
`MerkleBlock::validate / traverse / consume_flag / consume_hash` (`src/messages/merkle_block.rs`),
one function at a time.  The hash of a 64-byte concatenation (`sha256d`) is the parameter `H`.

Machine integers: `usize` is taken to be 64 bits (the harness platform); `total_transactions` is a
`u32`.  Every index, `unwrap`, subtraction, shift and addition that can fail in Rust is a guarded step
whose failure is `Outcome.panic site`.
-/
namespace CG.Model.Merkle
open CG

/-! ## `Block::merkle_root` -/

/-- The inner `while n > 0` loop of `merkle_root`: `n` starts as `row.len()`; each round pops one
    hash, pops a second unless the first was the last (`n == 0` → `h2 = h1`), and pushes
    `sha256d(h1 ‖ h2)` at the back of the same queue. -/
def innerLoop (H : Bytes → Bytes) : Nat → List Bytes → Outcome (List Bytes)
  | 0, row => .ok row
  | 1, row =>
    -- n -= 1; h1 = pop_front().unwrap(); n == 0 → h2 = h1
    match row with
    | [] => .panic "block.rs: row.pop_front().unwrap() (h1)"
    | h1 :: row => .ok (row ++ [H (h1 ++ h1)])
  | n + 2, row =>
    match row with
    | [] => .panic "block.rs: row.pop_front().unwrap() (h1)"
    | h1 :: row =>
      match row with
      | [] => .panic "block.rs: row.pop_front().unwrap() (h2)"
      | h2 :: row => innerLoop H n (row ++ [H (h1 ++ h2)])

/-- The outer `while row.len() > 1` loop.  `fuel` bounds the number of rounds; running out of fuel
    with more than one element left would be a hang (theorem: `row.length` rounds suffice). -/
def outerLoop (H : Bytes → Bytes) : Nat → List Bytes → Outcome (List Bytes)
  | 0, row => if row.length > 1 then .panic "hang: merkle_root outer loop" else .ok row
  | fuel + 1, row =>
    if row.length > 1 then
      match innerLoop H row.length row with
      | .ok row' => outerLoop H fuel row'
      | .err e => .err e
      | .panic s => .panic s
    else .ok row

/-- `Block::merkle_root` over the transaction ids (`tx.hash()` of each transaction, in order). -/
def merkleRoot (H : Bytes → Bytes) (txids : List Bytes) : Outcome Bytes :=
  match outerLoop H txids.length txids with
  | .ok row =>
    match row with
    | [] => .panic "block.rs: row.pop_front().unwrap() (result)"
    | r :: _ => .ok r
  | .err e => .err e
  | .panic s => .panic s

/-- The first two checks of `Block::validate`: a block without transactions is `BadData`, and so is
    one whose header's Merkle root differs from the computed one.  (The remaining checks of
    `Block::validate` are about coinbases and transaction validity, not about the root.) -/
def blockRootCheck (H : Bytes → Bytes) (txids : List Bytes) (headerRoot : Bytes) : Outcome Unit :=
  if txids.isEmpty then .err "BadData"
  else
    match merkleRoot H txids with
    | .ok r => if r ≠ headerRoot then .err "BadData" else .ok ()
    | .err e => .err e
    | .panic s => .panic s

/-! ## `MerkleBlock::validate` -/

/-- the four `&mut` counters / accumulators threaded through `traverse` -/
structure St where
  node : Nat            -- preorder_node
  bits : Nat            -- flag_bits_used
  hashes : Nat          -- hashes_used
  matched : List Bytes  -- matched (push = append at the end)
deriving Repr, DecidableEq

/-- `consume_flag`: error when `flag_bits_used / 8 >= flags.len()`, otherwise
    `(flags[used / 8] >> (used % 8)) & 1`, and the counter advances. -/
def consumeFlag (flags : Bytes) (st : St) : Outcome (Nat × St) :=
  if st.bits / 8 ≥ flags.length then .err "BadData"
  else
    match flags[st.bits / 8]? with
    | none => .panic "merkle_block.rs: self.flags[flag_bits_used / 8]"
    | some b => .ok ((b.toNat >>> (st.bits % 8)) &&& 1, { st with bits := st.bits + 1 })

/-- `consume_hash`: error when `hashes_used >= hashes.len()`, otherwise `hashes[used]`. -/
def consumeHash (hashes : List Bytes) (st : St) : Outcome (Bytes × St) :=
  if st.hashes ≥ hashes.length then .err "BadData"
  else
    match hashes[st.hashes]? with
    | none => .panic "merkle_block.rs: self.hashes[hashes_used]"
    | some h => .ok (h, { st with hashes := st.hashes + 1 })

/-- `*preorder_node += k` on a 64-bit `usize` (debug profile: overflow panics) -/
def addNode (st : St) (k : Nat) : Outcome St :=
  if st.node + k ≥ 2 ^ 64 then .panic "merkle_block.rs: *preorder_node += .. (overflow)"
  else .ok { st with node := st.node + k }

/-- `traverse`.  `fuel` is the recursion budget (one unit per call frame; exhausting it would be
    unbounded recursion, i.e. a stack overflow).  `depth`, `treeDepth`, `totalNodes` as in Rust. -/
def traverse (H : Bytes → Bytes) (flags : Bytes) (hashes : List Bytes) (treeDepth totalNodes : Nat) :
    Nat → Nat → St → Outcome (Bytes × St)
  | 0, _, _ => .panic "merkle_block.rs: traverse recursion (stack overflow)"
  | fuel + 1, depth, st =>
    match consumeFlag flags st with
    | .err e => .err e
    | .panic s => .panic s
    | .ok (flag, st) =>
      if flag = 0 then
        -- *preorder_node += (1 << (tree_depth - depth + 1)) - 1;
        if depth > treeDepth then .panic "merkle_block.rs: tree_depth - depth (underflow)"
        else if treeDepth - depth + 1 ≥ 64 then .panic "merkle_block.rs: 1 << (..) (shift overflow)"
        else
          match addNode st (2 ^ (treeDepth - depth + 1) - 1) with
          | .err e => .err e
          | .panic s => .panic s
          | .ok st => consumeHash hashes st
      else if depth = treeDepth then
        match addNode st 1 with
        | .err e => .err e
        | .panic s => .panic s
        | .ok st =>
          match consumeHash hashes st with
          | .err e => .err e
          | .panic s => .panic s
          | .ok (h, st) => .ok (h, { st with matched := st.matched ++ [h] })
      else
        match addNode st 1 with
        | .err e => .err e
        | .panic s => .panic s
        | .ok st =>
          match traverse H flags hashes treeDepth totalNodes fuel (depth + 1) st with
          | .err e => .err e
          | .panic s => .panic s
          | .ok (left, st) =>
            if st.node ≥ totalNodes then .ok (H (left ++ left), st)
            else
              match traverse H flags hashes treeDepth totalNodes fuel (depth + 1) st with
              | .err e => .err e
              | .panic s => .panic s
              | .ok (right, st) =>
                if left = right then .err "BadData"
                else .ok (H (left ++ right), st)

/-- `u32::leading_zeros` -/
def clz32 (x : Nat) : Nat := if x = 0 then 32 else 31 - Nat.log2 x

/-- the repaired depth computation: `(32 - (total_transactions - 1).leading_zeros()) as usize`
    (`total_transactions ≥ 1` here, so the subtraction cannot underflow) -/
def treeDepthOf (n : Nat) : Nat := 32 - clz32 (n - 1)

/-- `while row_len > 1 { row_len = (row_len + 1) / 2; total_nodes += row_len; }`.  `fuel` bounds
    the number of rounds (theorem: `row_len` rounds suffice). -/
def totalLoop : Nat → Nat → Nat → Nat
  | 0, _, total => total
  | fuel + 1, rowLen, total =>
    if rowLen > 1 then totalLoop fuel ((rowLen + 1) / 2) (total + (rowLen + 1) / 2) else total

def totalNodes (n : Nat) : Nat := totalLoop n n n

/-- `MerkleBlock::validate` with the depth computation as a parameter (`validate` below uses the
    integer one).  `n = total_transactions`, `root = header.merkle_root`. -/
def validateWith (depthOf : Nat → Nat) (H : Bytes → Bytes) (n : Nat) (flags : Bytes)
    (hashes : List Bytes) (root : Bytes) : Outcome (List Bytes) :=
  if n = 0 then .err "BadData"
  else
    let treeDepth := depthOf n
    let total := totalNodes n
    match traverse H flags hashes treeDepth total (treeDepth + 1) 0 ⟨0, 0, 0, []⟩ with
    | .err e => .err e
    | .panic s => .panic s
    | .ok (r, st) =>
      if r ≠ root then .err "BadData"
      else if st.hashes < hashes.length then .err "BadData"
      else if st.node < total then .err "BadData"
      else if (st.bits + 7) / 8 < flags.length then .err "BadData"
      else .ok st.matched

def validate := validateWith treeDepthOf

end CG.Model.Merkle

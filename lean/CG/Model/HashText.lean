import CG.Base.Bytes
/-!
Model of the text form of a 256-bit hash (`Hash256::encode` / `Hash256::decode`, `src/util/hash256.rs`) on top of
the `hex` crate's `encode` (lower case) and `decode` (either case, even length, hex digits only): the hash is
displayed as the big-endian hex of the little-endian number its 32 bytes hold — the bytes are reversed.
Strings are lists of characters.
-/
namespace CG.Model.HashText
open CG

def nibbleChar (n : Nat) : Char :=
  if n < 10 then Char.ofNat (48 + n) else Char.ofNat (87 + n)     -- '0'..'9', 'a'..'f'

def charNibble (c : Char) : Option Nat :=
  let v := c.toNat
  if 48 ≤ v ∧ v ≤ 57 then some (v - 48)
  else if 97 ≤ v ∧ v ≤ 102 then some (v - 87)
  else if 65 ≤ v ∧ v ≤ 70 then some (v - 55)
  else none

/-- `hex::encode` -/
def hexEncode : Bytes → List Char
  | [] => []
  | b :: r => nibbleChar (b.toNat / 16) :: nibbleChar (b.toNat % 16) :: hexEncode r

/-- `hex::decode`: `none` = `HexError` (odd length or a character that is not a hex digit) -/
def hexDecode : List Char → Option Bytes
  | [] => some []
  | [_] => none
  | a :: b :: r =>
    match charNibble a, charNibble b, hexDecode r with
    | some x, some y, some t => some (UInt8.ofNat (x * 16 + y) :: t)
    | _, _, _ => none

/-- `Hash256::encode` -/
def encode (h : Bytes) : List Char := hexEncode h.reverse

/-- `Hash256::decode`: the hex crate's error, then the length check, then the reversal -/
def decode (s : List Char) : Outcome Bytes :=
  match hexDecode s with
  | none => .err "HexError"
  | some b => if b.length ≠ 32 then .err "BadArgument" else .ok b.reverse

/-- the number a byte string holds, little-endian -/
def leNat : Bytes → Nat
  | [] => 0
  | b :: r => b.toNat + 256 * leNat r

/-- the number a hex string denotes, big-endian (most significant digit first) -/
def hexNat (s : List Char) : Nat := s.foldl (fun acc c => acc * 16 + (charNibble c).getD 0) 0

end CG.Model.HashText

import CG.Model.Interp
/-!
Model of `Script::append_data`, `Script::append_num` (`src/script/mod.rs`) and of the P2PKH helpers in
`src/transaction/p2pkh.rs` (`create_lock_script`, `create_unlock_script`, `check_lock_script`,
`check_unlock_script`, `check_lock_script_addr`, `check_unlock_script_addr`, `extract_pubkey`,
`extract_pubkeyhash`).

* `len as u8`, `(len >> 8) as u8`, … are `natToLEn k len` (truncating little-endian digits); `usize` is 64 bits.
* `check_unlock_script` takes the lower bound of the accepted first push as a parameter: the pinned tree has
  `OP_PUSH + 71`, the repaired tree `OP_PUSH + 9` (`proposed_fixes/C16-unlock-script-window.patch`).
* slices that could panic (`unlock_script[i + 1..]`, `lock_script[3..23]`) are guarded: `Outcome.panic`.
-/
namespace CG.Model.ScriptBuild
open CG CG.Model.ScriptNum CG.Model.Interp

/-- `Script::append_data` -/
def appendData (s d : Bytes) : Bytes :=
  let len := d.length
  if len = 0 then s ++ [0]
  else if len ≤ 75 then s ++ UInt8.ofNat len :: d
  else if len ≤ 255 then s ++ 76 :: (natToLEn 1 len ++ d)
  else if len ≤ 65535 then s ++ 77 :: (natToLEn 2 len ++ d)
  else s ++ 78 :: (natToLEn 4 len ++ d)

/-- `Script::append_num` (the argument is an `i32`; `encode_num` rejects `i32::MIN`) -/
def appendNum (s : Bytes) (n : Int) : Outcome Bytes :=
  match encodeNum n with
  | .ok v => .ok (appendData s v)
  | .err e => .err e
  | .panic p => .panic p

def OP_DUP : UInt8 := 118
def OP_HASH160 : UInt8 := 169
def OP_EQUALVERIFY : UInt8 := 136
def OP_CHECKSIG : UInt8 := 172

/-- `create_lock_script` -/
def createLockScript (h : Bytes) : Bytes :=
  appendData [OP_DUP, OP_HASH160] h ++ [OP_EQUALVERIFY, OP_CHECKSIG]

/-- `create_unlock_script` -/
def createUnlockScript (sig pk : Bytes) : Bytes := appendData (appendData [] sig) pk

/-- `check_lock_script` (`&&` short-circuits after the length test, so no index can fail) -/
def checkLockScript (s : Bytes) : Bool :=
  s.length == 25 && s.getD 0 0 == OP_DUP && s.getD 1 0 == OP_HASH160 && s.getD 2 0 == 20
    && s.getD 23 0 == OP_EQUALVERIFY && s.getD 24 0 == OP_CHECKSIG

/-- `check_unlock_script` with the lower bound `lo` of the signature push (71 pinned, 9 repaired) -/
def checkUnlockScriptW (lo : Nat) (s : Bytes) : Bool :=
  if s.isEmpty ∨ byteAt s 0 < lo ∨ byteAt s 0 > 73 then false
  else
    let i := nextOp 0 s
    if i ≥ s.length ∨ (byteAt s i ≠ 33 ∧ byteAt s i ≠ 65) then false
    else decide (nextOp i s ≥ s.length)

/-- the repaired recogniser -/
def checkUnlockScript (s : Bytes) : Bool := checkUnlockScriptW 9 s
/-- the recogniser of the pinned tree -/
def checkUnlockScriptPinned (s : Bytes) : Bool := checkUnlockScriptW 71 s

/-- `check_lock_script_addr` -/
def checkLockScriptAddr (h s : Bytes) : Outcome Bool :=
  if checkLockScript s then
    (if 23 > s.length then .panic "lock_script[3..23]" else .ok (decide ((s.drop 3).take 20 = h)))
  else .ok false

/-- `check_unlock_script_addr` -/
def checkUnlockScriptAddrW (lo : Nat) (pk s : Bytes) : Outcome Bool :=
  if !checkUnlockScriptW lo s then .ok false
  else
    let i := nextOp 0 s
    if i + 1 > s.length then .panic "unlock_script[i + 1..]" else .ok (decide (s.drop (i + 1) = pk))

/-- `extract_pubkey` -/
def extractPubkeyW (lo : Nat) (s : Bytes) : Outcome Bytes :=
  if !checkUnlockScriptW lo s then .err "BadData"
  else
    let i := nextOp 0 s
    if i + 1 > s.length then .panic "unlock_script[i + 1..]" else .ok (s.drop (i + 1))

def checkUnlockScriptAddr (pk s : Bytes) : Outcome Bool := checkUnlockScriptAddrW 9 pk s
def extractPubkey (s : Bytes) : Outcome Bytes := extractPubkeyW 9 s

/-- `extract_pubkeyhash` -/
def extractPubkeyhash (s : Bytes) : Outcome Bytes :=
  if checkLockScript s then
    (if 23 > s.length then .panic "lock_script[3..23]" else .ok ((s.drop 3).take 20))
  else .err "BadData"

end CG.Model.ScriptBuild

import CG.Model.RxHist
/-!
C13 — model of `src/util/rx.rs` (`Subject`, `Single`, `Poller`, `Observable::poll`),
`src/util/future.rs` (`Future::get`, `FutureProvider::put`) and `src/util/latch.rs`
(`Latch::open`, `Latch::wait`) as a transition system at the granularity of individual lock and
condition-variable operations.

* One **step** of thread `t` (`step s t`) is what the real thread does between two consecutive
  `…:pre` sync points of hook H2: exactly one lock / try-lock / unlock / condvar-wait / notify
  operation (or one observer callback entry, one drop, one no-op) followed by the thread-local code up
  to the next such point.  `none` = the thread is finished or not enabled (the lock it asks for is not
  available, or it sits in a condvar wait that nobody signalled).
* Locks follow std's documented semantics: writer-exclusive, not re-entrant (a thread asking for a
  lock it already holds incompatibly is stuck like anybody else), `try_write` fails when any reader or
  writer holds the lock, `notify_one` wakes at most one current waiter, spurious wake-ups are a
  separate action (`spur`).
* Two algorithms, selected by `Sys.algo`:
  `Algo.pinned`   — the code as pinned (observer list + pending list under two `RwLock`s, callbacks
                    under the read lock, `Single` emitting under its value write lock);
  `Algo.repaired` — snapshot publication (one `Mutex`, snapshot under the lock, callbacks with no lock
                    held, `Single` releasing its value lock before emitting).
* Weak references: an observer is *physically alive* while its owner holds it or some thread holds a
  temporary strong reference (the `Arc` passed to `subscribe`, a publication's snapshot, the `Arc`
  upgraded for the callback in progress, the `Poller` of a `poll()` in progress).

Everything is computable and structurally recursive (so `decide` can run concrete schedules).
-/
namespace CG.Model.Rx

inductive Kind where | subject | single
deriving DecidableEq, Repr, Hashable

inductive Algo where | pinned | repaired
deriving DecidableEq, Repr, Hashable

/-- what a user observer's callback does besides recording the event -/
inductive Beh where
  | plain
  /-- subscribes user observer `k` (if its owner still holds it) from inside the callback -/
  | cbSub (k : Nat)
deriving DecidableEq, Repr, Hashable

inductive Op where
  | sub (o : Nat)
  | pub (e : Nat)
  | poll
  | drop (o : Nat)
deriving DecidableEq, Repr, Hashable

/-- an entry of the observer list: the observer and (ghost) which `subscribe` call pushed it -/
structure Entry where
  ob : Ob
  c : Nat
deriving DecidableEq, Repr, Hashable

/-- The instructions a thread still has to execute for its current operation.  Every constructor up to
    `pqReadV` is one step (one sync-point stop); the `m…`/`pIter` constructors are markers processed in
    the tail of the preceding step (`settle`). -/
inductive Instr where
  -- harness-level stops
  | noop
  | dropO (o : Nat)
  /-- entry of the callback of user observer `o` -/
  | deliver (o c e p : Nat)
  -- repaired `Subject`: one mutex `M`
  /-- `lock M; push` — the first lock operation of `Subject::subscribe` (allocates the subscription id) -/
  | acqPush (o : Ob)
  | relM
  /-- the same two operations inside `Single::subscribe`, which holds the value read lock around them -/
  | acqPushR (o : Ob) (c : Nat)
  | relMR
  /-- `lock M; retain live; snapshot` — the first lock operation of `Subject::next` (allocates the publication id) -/
  | acqSnap (e : Nat)
  /-- the same inside `Single::next` (publication `p` began with the value lock) -/
  | acqSnapS (e p : Nat)
  /-- `unlock M`, then the callbacks of the snapshot follow -/
  | relSnap (snap : List Entry) (e p : Nat)
  -- `Single` (value `RwLock` `V`)
  | acqRead (o : Ob)
  | relRead
  | acqWrite (e : Nat)
  | relWrite
  -- `Future::get` = `Latch::wait` then take the result  (latch / future of poller `(t, k)`)
  | getLockL (t k : Nat)
  | getWait (t k : Nat)
  | getReacq (t k : Nat)
  | getUnlockL (t k : Nat)
  | getLockR (t k : Nat)
  | getUnlockR (t k : Nat)
  -- `Poller::next` = `FutureProvider::put` = lock result, set, `Latch::open`
  | putLockR (t k c e p : Nat)
  | putLockL (t k : Nat)
  | putNotify (t k : Nat)
  | putUnlockL (t k : Nat)
  | putUnlockR (t k : Nat)
  -- pinned `Subject`: `observers` (`O`) and `pending` (`P`) under two `RwLock`s
  | pTryO (o : Ob)
  | pTryOIn (o : Ob) (c : Nat)
  | pRelO
  | pWritePPush (o : Ob) (c : Nat)
  | pRelP
  | pReadO (e : Nat)
  | pReadOIn (e p : Nat)
  | pWriteORetain
  | pReadP
  | pWriteO
  | pWritePAppend
  -- pinned `Single`
  | pqWriteV (e : Nat)
  | pqReadV (o : Ob)
  -- markers
  | mSubRet (o : Ob) (c : Nat)
  | mSnapDrop (snap : List Entry)
  | mPubEnd (e p : Nat)
  | mPollRet (k : Nat)
  /-- pinned publication loop: `cur` = the entry whose callback just ran (its upgraded `Arc` is still
      held), `rest` = entries not yet visited, `any` = a dead weak reference was seen -/
  | pIter (cur : Option Entry) (rest : List Entry) (e p : Nat) (any : Bool)
deriving DecidableEq, Repr, Hashable

/-- reader/writer lock state (a `Mutex` only ever uses the writer side) -/
structure RW where
  writer : Option Tid := none
  readers : List Tid := []
deriving DecidableEq, Repr, Hashable

namespace RW
/-- can be acquired exclusively (`lock`, `write`, successful `try_write`) -/
def free (l : RW) : Bool := l.writer.isNone && l.readers.isEmpty
/-- can be acquired shared (`read`) -/
def canRead (l : RW) : Bool := l.writer.isNone
def lockW (l : RW) (t : Tid) : RW := { l with writer := some t }
def lockR (l : RW) (t : Tid) : RW := { l with readers := t :: l.readers }
def unlock (l : RW) (t : Tid) : RW :=
  if l.writer = some t then { l with writer := none } else { l with readers := l.readers.erase t }
end RW

structure Thread where
  /-- operations after the current one -/
  prog : List Op := []
  /-- number of operations started so far (the current one has index `opIdx - 1`) -/
  opIdx : Nat := 0
  /-- what is left of the current operation -/
  cont : List Instr := []
  /-- condvar: signalled (or spuriously woken) while waiting -/
  woken : Bool := false
  /-- value taken out of the future by `get` -/
  reg : Nat := 0
deriving DecidableEq, Repr, Hashable

def upd {α : Type} (f : Nat → α) (i : Nat) (v : α) : Nat → α := fun j => if j = i then v else f j
def upd2 {α : Type} (f : Nat → Nat → α) (i k : Nat) (v : α) : Nat → Nat → α :=
  fun a b => if a = i ∧ b = k then v else f a b

structure Sys where
  algo : Algo
  kind : Kind
  /-- callback behaviour of user observer `i` (`plain` beyond the list) -/
  behs : List Beh
  /-- number of threads -/
  n : Nat
  thr : Tid → Thread
  /-- the owner still holds user observer `i` -/
  owner : Nat → Bool
  /-- `Subject::observers` -/
  observers : List Entry := []
  /-- `Subject::pending` (pinned algorithm only) -/
  pending : List Entry := []
  /-- `Single::value`: the event and (ghost) the publication that set it -/
  value : Option (Nat × Nat) := none
  lockM : RW := {}
  lockV : RW := {}
  lockO : RW := {}
  lockP : RW := {}
  /-- `Latch::open` mutex of poller `(t, k)` -/
  lockL : Nat → Nat → Option Tid := fun _ _ => none
  /-- `Future::result` mutex of poller `(t, k)` -/
  lockR : Nat → Nat → Option Tid := fun _ _ => none
  /-- the latch flag -/
  lOpen : Nat → Nat → Bool := fun _ _ => false
  /-- the future's value -/
  rVal : Nat → Nat → Option Nat := fun _ _ => none
  /-- next ghost identifier -/
  nextId : Nat := 0
  hist : Hist := []

namespace Sys

def setThr (s : Sys) (t : Tid) (th : Thread) : Sys := { s with thr := upd s.thr t th }
def setCont (s : Sys) (t : Tid) (c : List Instr) : Sys := s.setThr t { s.thr t with cont := c }
def log (s : Sys) (ev : HEv) : Sys := { s with hist := s.hist ++ [ev] }
def beh (s : Sys) (o : Nat) : Beh := s.behs.getD o .plain

/-- the event(s) recorded by the first lock operation of a `subscribe` call -/
def recBegin (s : Sys) (t : Tid) (o : Ob) (c : Nat) : Sys :=
  match o with
  | .user _ => s.log (.subBegin t o c)
  | .poller _ k => (s.log (.pollBegin t k)).log (.subBegin t o c)

end Sys

/-- strong references held by thread `t` on account of instruction `i` of its continuation -/
def refsOf (t : Tid) : Instr → List Ob
  | .mSubRet o _ => [o]
  | .acqPush o => [o]
  | .acqRead o => [o]
  | .pTryO o => [o]
  | .pqReadV o => [o]
  | .relSnap snap _ _ => snap.map (·.ob)
  | .mSnapDrop snap => snap.map (·.ob)
  | .mPollRet k => [.poller t k]
  | .pIter (some x) _ _ _ _ => [x.ob]
  | _ => []

def threadRefs (t : Tid) (c : List Instr) (o : Ob) : Bool := c.any (fun i => (refsOf t i).contains o)

/-- the strong count of `o` is non-zero: `Weak::upgrade` succeeds -/
def physAlive (s : Sys) (o : Ob) : Bool :=
  (match o with | .user i => s.owner i | .poller _ _ => false)
  || (List.range s.n).any (fun t => threadRefs t (s.thr t).cont o)

/-- the callback of an entry: a stop for a user observer, `FutureProvider::put` for a poller -/
def deliverInstrs (x : Entry) (e p : Nat) : List Instr :=
  match x.ob with
  | .user i => [.deliver i x.c e p]
  | .poller t k => [.putLockR t k x.c e p]

/-- `subscribe(o)` -/
def subInstrs (a : Algo) (kd : Kind) (o : Ob) : List Instr :=
  match a, kd with
  | .repaired, .subject => [.acqPush o]
  | .repaired, .single => [.acqRead o]
  | .pinned, .subject => [.pTryO o]
  | .pinned, .single => [.pqReadV o]

/-- `next(&e)` -/
def pubInstrs (a : Algo) (kd : Kind) (e : Nat) : List Instr :=
  match a, kd with
  | .repaired, .subject => [.acqSnap e]
  | .repaired, .single => [.acqWrite e]
  | .pinned, .subject => [.pReadO e]
  | .pinned, .single => [.pqWriteV e]

/-- pinned loop: skip dead weak references (setting `any`), stop at the first live entry -/
def splitLive (alive : Ob → Bool) : List Entry → Bool → Option Entry × List Entry × Bool
  | [], any => (none, [], any)
  | x :: xs, any => if alive x.ob then (some x, xs, any) else splitLive alive xs true

/-- The effect of one instruction `i` at the head of thread `t`'s continuation: the new state (the
    continuations untouched) and the instructions that take `i`'s place at the head.  `none` = not enabled. -/
def execE (s : Sys) (t : Tid) (i : Instr) : Option (Sys × List Instr) :=
  match i with
  | .noop => some (s.log (.noop t), [])
  | .dropO o => some ({ s with owner := upd s.owner o false }.log (.dropO t o), [])
  | .deliver o c e p =>
    let s1 := s.log (.deliver t (.user o) c e p)
    match s.beh o with
    | .plain => some (s1, [])
    | .cbSub k =>
      if s.owner k then some (s1, subInstrs s.algo s.kind (.user k)) else some (s1, [])
  -- repaired Subject
  | .acqPush o =>
    if s.lockM.free then
      let c := s.nextId
      some ({ s.recBegin t o c with
                nextId := c + 1, lockM := s.lockM.lockW t, observers := s.observers ++ [Entry.mk o c] },
        [.relM, .mSubRet o c])
    else none
  | .relM => some ({ s with lockM := s.lockM.unlock t }, [])
  | .acqPushR o c =>
    if s.lockM.free then
      some ({ s with lockM := s.lockM.lockW t, observers := s.observers ++ [Entry.mk o c] }, [.relMR])
    else none
  | .relMR => some ({ s with lockM := s.lockM.unlock t }, [.relRead])
  | .acqSnap e =>
    if s.lockM.free then
      let p := s.nextId
      let live := s.observers.filter (fun x => physAlive s x.ob)
      some ({ s.log (.pubBegin t e p) with lockM := s.lockM.lockW t, observers := live, nextId := p + 1 },
        [.relSnap live e p, .mPubEnd e p])
    else none
  | .acqSnapS e p =>
    if s.lockM.free then
      let live := s.observers.filter (fun x => physAlive s x.ob)
      some ({ s with lockM := s.lockM.lockW t, observers := live }, [.relSnap live e p])
    else none
  | .relSnap snap e p =>
    some ({ s with lockM := s.lockM.unlock t }, snap.flatMap (fun x => deliverInstrs x e p) ++ [Instr.mSnapDrop snap])
  -- Single
  | .acqRead o =>
    if s.lockV.canRead then
      let c := s.nextId
      let s1 := { s.recBegin t o c with lockV := s.lockV.lockR t, nextId := c + 1 }
      match s.value with
      | some (v, p0) => some (s1, .relRead :: deliverInstrs ⟨o, c⟩ v p0 ++ [Instr.mSubRet o c])
      | none => some (s1, [.acqPushR o c, .mSubRet o c])
    else none
  | .relRead => some ({ s with lockV := s.lockV.unlock t }, [])
  | .acqWrite e =>
    if s.lockV.free then
      let p := s.nextId
      let s1 := { s.log (.pubBegin t e p) with lockV := s.lockV.lockW t, nextId := p + 1 }
      match s.value with
      | none => some ({ s1 with value := some (e, p) }, [.relWrite, .acqSnapS e p, .mPubEnd e p])
      | some _ => some (s1, [.relWrite, .mPubEnd e p])
    else none
  | .relWrite => some ({ s with lockV := s.lockV.unlock t }, [])
  -- Future::get
  | .getLockL a k =>
    if (s.lockL a k).isNone then
      some ({ s with lockL := upd2 s.lockL a k (some t) },
        [if s.lOpen a k then Instr.getUnlockL a k else Instr.getWait a k])
    else none
  | .getWait a k =>
    some ({ s with lockL := upd2 s.lockL a k none }.setThr t { s.thr t with woken := false }, [.getReacq a k])
  | .getReacq a k =>
    if (s.thr t).woken && (s.lockL a k).isNone then
      some ({ s with lockL := upd2 s.lockL a k (some t) }.setThr t { s.thr t with woken := false },
        [if s.lOpen a k then Instr.getUnlockL a k else Instr.getWait a k])
    else none
  | .getUnlockL a k => some ({ s with lockL := upd2 s.lockL a k none }, [.getLockR a k])
  | .getLockR a k =>
    if (s.lockR a k).isNone then
      some ({ s with lockR := upd2 s.lockR a k (some t), rVal := upd2 s.rVal a k none }.setThr t
        { s.thr t with reg := (s.rVal a k).getD 0 }, [.getUnlockR a k])
    else none
  | .getUnlockR a k => some ({ s with lockR := upd2 s.lockR a k none }, [])
  -- FutureProvider::put
  | .putLockR a k c e p =>
    if (s.lockR a k).isNone then
      some ({ s with lockR := upd2 s.lockR a k (some t), rVal := upd2 s.rVal a k (some e) }.log
        (.deliver t (.poller a k) c e p), [.putLockL a k])
    else none
  | .putLockL a k =>
    if (s.lockL a k).isNone then
      some ({ s with lockL := upd2 s.lockL a k (some t), lOpen := upd2 s.lOpen a k true }, [.putNotify a k])
    else none
  | .putNotify a k =>
    -- the only thread that ever waits on latch (a, k) is thread a (inside its k-th operation)
    some (if (s.thr a).cont.head? = some (.getReacq a k) then s.setThr a { s.thr a with woken := true } else s,
      [.putUnlockL a k])
  | .putUnlockL a k => some ({ s with lockL := upd2 s.lockL a k none }, [.putUnlockR a k])
  | .putUnlockR a k => some ({ s with lockR := upd2 s.lockR a k none }, [])
  -- pinned Subject
  | .pTryO o =>
    let c := s.nextId
    let s1 := { s.recBegin t o c with nextId := c + 1 }
    if s.lockO.free then
      some ({ s1 with lockO := s.lockO.lockW t, observers := s.observers ++ [Entry.mk o c] }, [.pRelO, .mSubRet o c])
    else some (s1, [.pWritePPush o c, .pRelP, .mSubRet o c])
  | .pTryOIn o c =>
    if s.lockO.free then
      some ({ s with lockO := s.lockO.lockW t, observers := s.observers ++ [Entry.mk o c] }, [.pRelO])
    else some (s, [.pWritePPush o c, .pRelP])
  | .pRelO => some ({ s with lockO := s.lockO.unlock t }, [])
  | .pWritePPush o c =>
    if s.lockP.free then
      some ({ s with lockP := s.lockP.lockW t, pending := s.pending ++ [Entry.mk o c] }, [])
    else none
  | .pRelP => some ({ s with lockP := s.lockP.unlock t }, [])
  | .pReadO e =>
    if s.lockO.canRead then
      let p := s.nextId
      some ({ s.log (.pubBegin t e p) with lockO := s.lockO.lockR t, nextId := p + 1 },
        [.pIter none s.observers e p false, .mPubEnd e p])
    else none
  | .pReadOIn e p =>
    if s.lockO.canRead then
      some ({ s with lockO := s.lockO.lockR t }, [.pIter none s.observers e p false])
    else none
  | .pWriteORetain =>
    if s.lockO.free then
      some ({ s with lockO := s.lockO.lockW t, observers := s.observers.filter (fun x => physAlive s x.ob) }, [])
    else none
  | .pReadP =>
    if s.lockP.canRead then
      some ({ s with lockP := s.lockP.lockR t },
        Instr.pRelP :: (if s.pending.isEmpty then [] else [Instr.pWriteO, Instr.pWritePAppend, Instr.pRelP, Instr.pRelO]))
    else none
  | .pWriteO => if s.lockO.free then some ({ s with lockO := s.lockO.lockW t }, []) else none
  | .pWritePAppend =>
    if s.lockP.free then
      some ({ s with lockP := s.lockP.lockW t, observers := s.observers ++ s.pending, pending := [] }, [])
    else none
  -- pinned Single
  | .pqWriteV e =>
    if s.lockV.free then
      let p := s.nextId
      let s1 := { s.log (.pubBegin t e p) with lockV := s.lockV.lockW t, nextId := p + 1 }
      match s.value with
      | none => some ({ s1 with value := some (e, p) }, [.pReadOIn e p, .relWrite, .mPubEnd e p])
      | some _ => some (s1, [.relWrite, .mPubEnd e p])
    else none
  | .pqReadV o =>
    if s.lockV.canRead then
      let c := s.nextId
      let s1 := { s.recBegin t o c with lockV := s.lockV.lockR t, nextId := c + 1 }
      match s.value with
      | some (v, p0) => some (s1, deliverInstrs ⟨o, c⟩ v p0 ++ [Instr.relRead, Instr.mSubRet o c])
      | none => some (s1, [.pTryOIn o c, .relRead, .mSubRet o c])
    else none
  -- markers are never at the head of a settled continuation
  | .mSubRet _ _ => none
  | .mSnapDrop _ => none
  | .mPubEnd _ _ => none
  | .mPollRet _ => none
  | .pIter _ _ _ _ _ => none

/-- One instruction of thread `t` (`rest` = the continuation after it): the instructions that replace it
    are put in front of `rest`.  `none` = not enabled. -/
def exec (s : Sys) (t : Tid) (i : Instr) (rest : List Instr) : Option Sys :=
  match execE s t i with
  | none => none
  | some (s1, new) => some (s1.setCont t (new ++ rest))

/-- expansion of the next operation of thread `t` (the thread-local code that runs up to the first
    sync point of the operation; an `Arc` of the observer to subscribe is cloned here; ghost identifiers are
    handed out by the first step of the call, together with its `…Begin` event) -/
def expand (s : Sys) (t : Tid) : Sys :=
  let th := s.thr t
  match th.prog with
  | [] => s
  | op :: ops =>
    let k := th.opIdx
    let th' := { th with prog := ops, opIdx := k + 1 }
    match op with
    | .sub o =>
      if s.owner o then s.setThr t { th' with cont := subInstrs s.algo s.kind (.user o) }
      else s.setThr t { th' with cont := [.noop] }
    | .pub e => s.setThr t { th' with cont := pubInstrs s.algo s.kind e }
    | .poll =>
      s.setThr t { th' with cont := subInstrs s.algo s.kind (.poller t k) ++ [Instr.getLockL t k, Instr.mPollRet k] }
    | .drop o => s.setThr t { th' with cont := [.dropO o] }

/-- The tail of a step: process the markers at the head of the continuation (end-of-call events, release
    of temporary references, the next iteration of the pinned publication loop); when the operation is
    finished, start the next one. -/
def settle : Nat → Sys → Tid → Sys
  | 0, s, _ => s
  | fuel + 1, s, t =>
    match (s.thr t).cont with
    | [] => expand s t
    | .mSubRet o c :: k => settle fuel ((s.log (.subRet t o c)).setCont t k) t
    | .mSnapDrop _ :: k => settle fuel (s.setCont t k) t
    | .mPubEnd e p :: k => settle fuel ((s.log (.pubEnd t e p)).setCont t k) t
    | .mPollRet i :: k => settle fuel ((s.log (.pollRet t i (s.thr t).reg)).setCont t k) t
    | .pIter _ xs e p any :: k =>
      -- the `Arc` of the previous iteration is dropped before the next `upgrade`
      let s0 := s.setCont t k
      match splitLive (physAlive s0) xs any with
      | (some x, xs', any') => s0.setCont t (deliverInstrs x e p ++ .pIter (some x) xs' e p any' :: k)
      | (none, _, any') =>
        s0.setCont t (Instr.pRelO :: (if any' then [Instr.pWriteORetain, Instr.pRelO] else []) ++ Instr.pReadP :: k)
    | _ => s

/-- enough fuel for `settle`: one unit per marker, one for the expansion -/
def settleFuel (s : Sys) (t : Tid) : Nat := (s.thr t).cont.length + 2

/-- One step of thread `t`; `none` = finished or not enabled. -/
def step (s : Sys) (t : Tid) : Option Sys :=
  if t < s.n then
    match (s.thr t).cont with
    | [] => none
    | i :: rest =>
      match exec s t i rest with
      | none => none
      | some s' => some (settle (settleFuel s' t) s' t)
  else none

/-- Spurious wake-up of a thread waiting in `Condvar::wait`. -/
def spur (s : Sys) (t : Tid) : Option Sys :=
  if t < s.n then
    match (s.thr t).cont with
    | .getReacq a k :: rest => some (s.setThr t { s.thr t with cont := .getReacq a k :: rest, woken := true })
    | _ => none
  else none

/-- scheduler actions -/
inductive Act where
  | run (t : Tid)
  | spur (t : Tid)
deriving DecidableEq, Repr

def act (s : Sys) : Act → Option Sys
  | .run t => step s t
  | .spur t => spur s t

/-- an action that is not enabled is skipped -/
def runActs (s : Sys) (sched : List Act) : Sys := sched.foldl (fun s a => (act s a).getD s) s

def run (s : Sys) (sched : List Tid) : Sys := sched.foldl (fun s t => (step s t).getD s) s

/-- start the first operation of threads `0 .. n-1` -/
def startAll : Nat → Sys → Sys
  | 0, s => s
  | k + 1, s => expand (startAll k s) k

def init (a : Algo) (kd : Kind) (behs : List Beh) (progs : List (List Op)) : Sys :=
  startAll progs.length
    { algo := a, kind := kd, behs := behs, n := progs.length,
      thr := fun t => { prog := progs.getD t [] }, owner := fun _ => true }

def finished (s : Sys) (t : Tid) : Bool := (s.thr t).cont.isEmpty
def enabled (s : Sys) (t : Tid) : Bool := (step s t).isSome

/-- thread `t` waits in `Condvar::wait` of latch `(a, k)` -/
def waitingOn (s : Sys) (t : Tid) : Option (Nat × Nat) :=
  match (s.thr t).cont with
  | .getReacq a k :: _ => some (a, k)
  | _ => none

/-- a waiter that nobody has signalled and whose latch is still closed: it legitimately waits for an
    event that has not been published -/
def legitWait (s : Sys) (t : Tid) : Bool :=
  match waitingOn s t with
  | some (a, k) => !(s.thr t).woken && !s.lOpen a k
  | none => false

/-- some thread is unfinished, none is enabled, and not all of the unfinished ones merely wait for an
    event that was never published -/
def deadlocked (s : Sys) : Bool :=
  let ts := List.range s.n
  ts.all (fun t => !enabled s t) && ts.any (fun t => !finished s t && !legitWait s t)

/-- per-observer delivery log (events delivered to user observer `o`, in order) -/
def logOf (h : Hist) (o : Nat) : List Nat :=
  h.filterMap (fun ev => match ev with
    | .deliver _ (.user i) _ e _ => if i = o then some e else none
    | _ => none)

/-! ### Remark: `Latch` with several waiters

`Latch::open` uses `notify_one`.  `Observable::poll` creates one latch per call, so a latch has a single
waiter and the theorems above apply.  A latch *shared* by several waiters (possible through
`Future`/`Latch` used directly inside the crate) is a different matter: the model below — `w` waiters
already asleep in `Condvar::wait`, one opener — shows that `open` wakes only one of them. -/
namespace MultiLatch

structure St where
  flag : Bool := false
  /-- waiters asleep in `Condvar::wait` (not yet signalled) -/
  asleep : Nat
  /-- waiters signalled, about to re-check the flag and return -/
  awake : Nat := 0
  returned : Nat := 0
  /-- opener: 0 = before `lock`, 1 = flag set, 2 = notified, 3 = done -/
  opener : Nat := 0
deriving DecidableEq, Repr

inductive Act where | opener | waiter
deriving DecidableEq, Repr

def step (s : St) : Act → Option St
  | .opener =>
    if s.opener = 0 then some { s with flag := true, opener := 1 }
    else if s.opener = 1 then
      -- notify_one: at most one sleeping waiter is woken
      some (if s.asleep = 0 then { s with opener := 2 } else { s with asleep := s.asleep - 1, awake := s.awake + 1, opener := 2 })
    else if s.opener = 2 then some { s with opener := 3 }
    else none
  | .waiter =>
    -- a signalled waiter re-acquires the mutex (free once the opener is done), sees the flag, returns
    if s.awake > 0 && s.opener = 3 then some { s with awake := s.awake - 1, returned := s.returned + 1 } else none

def run (s : St) (sched : List Act) : St := sched.foldl (fun s a => (step s a).getD s) s

/-- no action is enabled -/
def stuck (s : St) : Bool := (step s .opener).isNone && (step s .waiter).isNone

end MultiLatch

end CG.Model.Rx

import CG.Model.Interp
/-!
Model of the per-input script check in `Tx::validate` (`src/messages/tx.rs`).

`validateInputPinned` is the structure of the pinned tree: the unlocking script, an
OP_CODESEPARATOR and the locking script concatenated and evaluated as ONE program.
`validateInput` is the repaired structure: the unlocking script is evaluated alone, then the
locking script runs from its first opcode on the stack that was left, with a fresh control-flow
state; the verdict is the truth of the top item after the locking script.
-/
namespace CG.Model.TxScript
open CG CG.Model.Interp CG.Model.ScriptNum

def validateInputPinned {σ : Type} (H : Hashes) (C : Checker σ) (c0 : σ) (unlock lock : Bytes)
    (flags : Nat) : Outcome Unit :=
  Model.Interp.eval H C c0 (unlock ++ [0xab] ++ lock) flags

def validateInput {σ : Type} (H : Hashes) (C : Checker σ) (c0 : σ) (unlock lock : Bytes)
    (flags : Nat) : Outcome Unit :=
  match coreEval H C c0 unlock flags none none none none with
  | .err e => .err e
  | .panic p => .panic p
  | .ok r1 =>
    match coreEval H C r1.chk lock flags none none (some r1.stack) none with
    | .err e => .err e
    | .panic p => .panic p
    | .ok r2 =>
      match r2.stack with
      | [] => scriptErr
      | t :: _ => if decodeBool t then .ok () else scriptErr

end CG.Model.TxScript

import CG.Base.Bytes
import CG.Generated.Tables
/-!
Model of `src/util/bloom_filter.rs` (`BloomFilter::add`, `contains`, `validate`, the integer tail of
`new`) and of `src/messages/filter_load.rs` (`FilterLoad::read`, `write`, `size`, `validate`) with
`src/util/var_int.rs`, one function at a time.

* The `murmur3` crate is a parameter `H : UInt32 → Bytes → UInt32` (seed, data ↦ hash).
* `debug` selects the build profile: with overflow checks `len as u32 * 8` panics when it does not
  fit in a `u32`; without, it wraps.
* `fixed = true` is the repaired code (early return on an empty bit field, as Bitcoin Core does);
  `fixed = false` is the pinned tree, where an empty bit field reaches `% 0`.
* `vec![0; n]` for an untrusted `n` inside `FilterLoad::read` (allocation size) is the subject of
  C06 and is not modelled here.
-/
namespace CG.Model.Bloom
open CG

abbrev HashFn := UInt32 → Bytes → UInt32

/-- `BLOOM_FILTER_MAX_FILTER_SIZE`, `BLOOM_FILTER_MAX_HASH_FUNCS`: regenerated from the tree. -/
def maxFilterSize : Nat := CG.Generated.BLOOM_FILTER_MAX_FILTER_SIZE
def maxHashFuncs : Nat := CG.Generated.BLOOM_FILTER_MAX_HASH_FUNCS

structure BloomFilter where
  /-- `filter: Vec<u8>` -/
  filter : Bytes
  /-- `num_hash_funcs: usize` -/
  numHashFuncs : Nat
  /-- `tweak: u32` -/
  tweak : Nat
deriving Repr, DecidableEq

/-- `Wrapping(i as u32) * Wrapping(0xFBA4C795) + Wrapping(self.tweak)` -/
def seedOf (i tweak : Nat) : Nat :=
  ((i % 2 ^ 32) * 0xFBA4C795 % 2 ^ 32 + tweak) % 2 ^ 32

/-- `self.filter.len() as u32 * 8` -/
def modulus (debug : Bool) (len : Nat) : Outcome Nat :=
  let l32 := len % 2 ^ 32
  if l32 * 8 < 2 ^ 32 then .ok (l32 * 8)
  else if debug then .panic "attempt to multiply with overflow"
  else .ok (l32 * 8 % 2 ^ 32)

/-- `murmur3_32(data, seed).expect(..) % (self.filter.len() as u32 * 8)` -/
def bitIndex (H : HashFn) (debug : Bool) (len tweak : Nat) (data : Bytes) (i : Nat) : Outcome Nat :=
  match modulus debug len with
  | .ok m =>
    if m = 0 then .panic "attempt to calculate the remainder with a divisor of zero"
    else .ok ((H (UInt32.ofNat (seedOf i tweak)) data).toNat % m)
  | .err e => .err e
  | .panic s => .panic s

/-- `1 << (c % 8)` as a `u8` -/
def bitMask (k : Nat) : UInt8 := (1 : UInt8) <<< UInt8.ofNat k
/-- `b | 1 << k` -/
def setBit (b : UInt8) (k : Nat) : UInt8 := b ||| bitMask k
/-- `b & (1 << k) == 0` -/
def bitClear (b : UInt8) (k : Nat) : Bool := (b &&& bitMask k) == 0

/-- one iteration of the loop in `add`: `self.filter[c as usize / 8] |= 1 << (c % 8)` -/
def addStep (H : HashFn) (debug : Bool) (tweak : Nat) (data : Bytes) (flt : Bytes) (i : Nat) :
    Outcome Bytes :=
  match bitIndex H debug flt.length tweak data i with
  | .ok c =>
    match flt[c / 8]? with
    | none => .panic "index out of bounds: filter[c / 8]"
    | some b => .ok (flt.set (c / 8) (setBit b (c % 8)))
  | .err e => .err e
  | .panic s => .panic s

/-- `for i in i0 .. i0 + k { … }` of `add` -/
def addLoop (H : HashFn) (debug : Bool) (tweak : Nat) (data : Bytes) : Nat → Nat → Bytes → Outcome Bytes
  | 0, _, flt => .ok flt
  | k + 1, i, flt =>
    match addStep H debug tweak data flt i with
    | .ok flt' => addLoop H debug tweak data k (i + 1) flt'
    | .err e => .err e
    | .panic s => .panic s

/-- `BloomFilter::add` -/
def addWith (fixed : Bool) (H : HashFn) (debug : Bool) (f : BloomFilter) (data : Bytes) :
    Outcome BloomFilter :=
  if fixed && f.filter.isEmpty then .ok f
  else
    match addLoop H debug f.tweak data f.numHashFuncs 0 f.filter with
    | .ok flt => .ok { f with filter := flt }
    | .err e => .err e
    | .panic s => .panic s

/-- `for i in i0 .. i0 + k { … }` of `contains` -/
def containsLoop (H : HashFn) (debug : Bool) (tweak : Nat) (data : Bytes) (flt : Bytes) :
    Nat → Nat → Outcome Bool
  | 0, _ => .ok true
  | k + 1, i =>
    match bitIndex H debug flt.length tweak data i with
    | .ok c =>
      match flt[c / 8]? with
      | none => .panic "index out of bounds: filter[c / 8]"
      | some b => if bitClear b (c % 8) then .ok false else containsLoop H debug tweak data flt k (i + 1)
    | .err e => .err e
    | .panic s => .panic s

/-- `BloomFilter::contains` -/
def containsWith (fixed : Bool) (H : HashFn) (debug : Bool) (f : BloomFilter) (data : Bytes) :
    Outcome Bool :=
  if fixed && f.filter.isEmpty then .ok true
  else containsLoop H debug f.tweak data f.filter f.numHashFuncs 0

/-- the repaired code is what the theorems are about -/
def add := addWith true
def contains := containsWith true

/-- a sequence of `add` calls -/
def addAll (H : HashFn) (debug : Bool) : BloomFilter → List Bytes → Outcome BloomFilter
  | f, [] => .ok f
  | f, d :: ds =>
    match add H debug f d with
    | .ok f' => addAll H debug f' ds
    | .err e => .err e
    | .panic s => .panic s

/-- `BloomFilter::validate` -/
def validate (f : BloomFilter) : Outcome Unit :=
  if f.filter.length > maxFilterSize then .err "BadData"
  else if f.numHashFuncs > maxHashFuncs then .err "BadData"
  else .ok ()

/-! ### the integer tail of `BloomFilter::new`

The two size formulas are IEEE-754 expressions; their *value* is an abstract input here: NaN, an
infinity, or a finite double, i.e. a rational `num / (den + 1)`. -/

inductive F64v where
  | nan
  | posInf
  | negInf
  | fin (num : Int) (den : Nat)
deriving Repr, DecidableEq

/-- `x.min(m as f64)` for an integer constant `m` (`f64::min` ignores a NaN operand). -/
def F64v.minConst (x : F64v) (m : Nat) : F64v :=
  match x with
  | .nan => .fin m 0
  | .posInf => .fin m 0
  | .negInf => .negInf
  | .fin n d => if n ≤ (m : Int) * ((d : Int) + 1) then .fin n d else .fin m 0

/-- `x.ceil()` of a finite value -/
def ceilDiv (n : Int) (d : Nat) : Int := -((-n) / ((d : Int) + 1))

/-- `x.ceil() as usize`: saturating, NaN ↦ 0 (Rust `as` semantics, 64-bit `usize`). -/
def F64v.ceilAsUsize (x : F64v) : Nat :=
  match x with
  | .nan => 0
  | .posInf => 2 ^ 64 - 1
  | .negInf => 0
  | .fin n d =>
    let c := ceilDiv n d
    if c < 0 then 0 else if c > 2 ^ 64 - 1 then 2 ^ 64 - 1 else c.toNat

/-- `BloomFilter::new`: `insertOk`/`prOk` are the results of the two argument checks
    (`is_normal() && >= 0`), `sizeRaw` the value of the first size formula, `nhRaw` the value of
    `size * 8 / insert * ln2` (computed in floating point from the clamped size). -/
def new (insertOk prOk : Bool) (sizeRaw nhRaw : F64v) (tweak : Nat) : Outcome BloomFilter :=
  if !insertOk then .err "BadArgument"
  else if !prOk then .err "BadArgument"
  else
    let size := sizeRaw.minConst maxFilterSize
    let nh := nhRaw.minConst maxHashFuncs
    .ok { filter := List.replicate size.ceilAsUsize 0, numHashFuncs := nh.ceilAsUsize, tweak := tweak }

/-! ### `var_int` and the `filterload` payload -/

/-- `var_int::size` -/
def varIntSize (n : Nat) : Nat :=
  if n ≤ 252 then 1 else if n ≤ 0xffff then 3 else if n ≤ 0xffffffff then 5 else 9

/-- `var_int::write` (argument is a `u64`) -/
def varIntWrite (n : Nat) : Bytes :=
  if n ≤ 252 then [UInt8.ofNat n]
  else if n ≤ 0xffff then 0xfd :: natToLEn 2 n
  else if n ≤ 0xffffffff then 0xfe :: natToLEn 4 n
  else 0xff :: natToLEn 8 n

/-- `read_uN::<LittleEndian>()` on the remaining input; a short read is `UnexpectedEof` -/
def readLE (n : Nat) (b : Bytes) : Outcome (Nat × Bytes) :=
  match takeExact n b with
  | some (x, r) => .ok (leToNat x, r)
  | none => .err "IoError"

/-- `var_int::read` -/
def varIntRead : Bytes → Outcome (Nat × Bytes)
  | [] => .err "IoError"
  | b :: r =>
    if b.toNat = 0xff then readLE 8 r
    else if b.toNat = 0xfe then readLE 4 r
    else if b.toNat = 0xfd then readLE 2 r
    else .ok (b.toNat, r)

structure FilterLoad where
  bloom : BloomFilter
  /-- `flags: u8` -/
  flags : Nat
deriving Repr, DecidableEq

/-- `FilterLoad::write` (`num_hash_funcs as u32` truncates) -/
def flWrite (m : FilterLoad) : Bytes :=
  varIntWrite m.bloom.filter.length ++ m.bloom.filter ++ natToLEn 4 m.bloom.numHashFuncs ++
    natToLEn 4 m.bloom.tweak ++ [UInt8.ofNat m.flags]

/-- `Payload::size` -/
def flSize (m : FilterLoad) : Nat := varIntSize m.bloom.filter.length + m.bloom.filter.length + 9

/-- `FilterLoad::read`; returns the value and the unread rest -/
def flRead (b : Bytes) : Outcome (FilterLoad × Bytes) :=
  match varIntRead b with
  | .ok (n, r1) =>
    match takeExact n r1 with
    | some (flt, r2) =>
      match readLE 4 r2 with
      | .ok (nh, r3) =>
        match readLE 4 r3 with
        | .ok (tw, r4) =>
          match r4 with
          | fl :: r5 => .ok ({ bloom := { filter := flt, numHashFuncs := nh, tweak := tw }, flags := fl.toNat }, r5)
          | [] => .err "IoError"
        | .err e => .err e
        | .panic s => .panic s
      | .err e => .err e
      | .panic s => .panic s
    | none => .err "IoError"
  | .err e => .err e
  | .panic s => .panic s

/-- `FilterLoad::validate` -/
def flValidate (m : FilterLoad) : Outcome Unit := validate m.bloom

end CG.Model.Bloom

import CG.Base.Bytes
import CG.Model.AtomicReader
/-!
Model of the receive path: `MessageHeader::read / validate / payload`
(`src/messages/message_header.rs`), `Message::read / read_partial` (`src/messages/message.rs`)
and the reader logic of the receive loop inside `Peer::connect_internal` (`src/peer/peer.rs`).

The payload codecs are abstract (`Cfg.decode`); the hash (`sha256d`) is a parameter (`Cfg.H`).
Errors are carried as canonical outcome strings (`err:BadData`, `err:IoNotConnected`, …).
-/
namespace CG.Model.Framing
open CG CG.Model.AtomicReader

/-- `MessageHeader` -/
structure Header where
  magic : Bytes
  command : Bytes
  payloadSize : Nat
  checksum : Bytes
deriving Repr, DecidableEq

/-- the three shapes of `Message::read_partial`'s per-command code -/
inductive CmdKind where
  /-- `let payload = header.payload(reader)?; X::read(&mut Cursor::new(payload))?; [validate()?]` -/
  | payload
  /-- `if header.payload_size != 0 { return Err(BadData) } return Ok(Message::X)` -/
  | bare
  /-- the final "Unknown message" case -/
  | other
deriving Repr, DecidableEq

/-- everything the framing code is parameterised by -/
structure Cfg (Msg : Type) where
  /-- network magic given to `Message::read` -/
  magic : Bytes
  /-- `MAX_PAYLOAD_SIZE` -/
  maxPayload : Nat
  /-- `commands::BLOCK` (exempt from the size limit) -/
  blockCmd : Bytes
  /-- `sha256d` -/
  H : Bytes → Bytes
  kind : Bytes → CmdKind
  /-- payload decoder of a `payload` command (incl. its `validate()`); the error is the outcome string -/
  decode : Bytes → Bytes → Except String Msg
  /-- the value of a payload-less command (`Message::Verack`, …) -/
  bare : Bytes → Msg
  /-- `Message::Other(String::from_utf8(command) or "Unknown")` -/
  other : Bytes → Msg

def HEADER_SIZE : Nat := 24

/-- the cursor part of `MessageHeader::read`: four sequential reads from the 24 bytes -/
def parseHeader (p : Bytes) : Header :=
  let magic := p.take 4
  let p := p.drop 4
  let command := p.take 12
  let p := p.drop 12
  let size := leToNat (p.take 4)
  let p := p.drop 4
  let checksum := p.take 4
  ⟨magic, command, size, checksum⟩

/-- `MessageHeader::read`: one `read_exact` of 24 bytes ("so that the stream doesn't get in a
    partially-read state"), then the cursor reads, which cannot fail on 24 bytes. -/
def headerRead (r : Rd) : Res Header × Rd :=
  match readExact r HEADER_SIZE with
  | (.ok p, r') => (.ok (parseHeader p), r')
  | (.timedOut, r') => (.timedOut, r')
  | (.err e, r') => (.err e, r')

variable {Msg : Type}

/-- `MessageHeader::validate(magic, MAX_PAYLOAD_SIZE)` -/
def validate (c : Cfg Msg) (h : Header) : Except String Unit :=
  if h.magic ≠ c.magic then .error "err:BadData"
  else if h.command ≠ c.blockCmd ∧ h.payloadSize > c.maxPayload then .error "err:BadData"
  else .ok ()

/-- `MessageHeader::payload`: `read_exact` of `payload_size` bytes, then the checksum test
    (`h[0..4]` of `sha256d(p)` against the header's four bytes). -/
def payload (c : Cfg Msg) (h : Header) (r : Rd) : Res Bytes × Rd :=
  match readExact r h.payloadSize with
  | (.ok p, r') =>
    if (c.H p).take 4 ≠ h.checksum then (.err "err:BadData", r') else (.ok p, r')
  | (.timedOut, r') => (.timedOut, r')
  | (.err e, r') => (.err e, r')

/-- `Message::read_partial(reader, header)` -/
def readPartial (c : Cfg Msg) (r : Rd) (h : Header) : Res Msg × Rd :=
  match c.kind h.command with
  | .payload =>
    match payload c h r with
    | (.ok p, r') =>
      match c.decode h.command p with
      | .ok m => (.ok m, r')
      | .error e => (.err e, r')
    | (.timedOut, r') => (.timedOut, r')
    | (.err e, r') => (.err e, r')
  | .bare =>
    if h.payloadSize ≠ 0 then (.err "err:BadData", r) else (.ok (c.bare h.command), r)
  | .other =>
    if h.payloadSize > 0 then
      match payload c h r with
      | (.ok _, r') => (.ok (c.other h.command), r')
      | (.timedOut, r') => (.timedOut, r')
      | (.err e, r') => (.err e, r')
    else (.ok (c.other h.command), r)

/-- `Ok(..)` of `Message::read`: a complete message or `Message::Partial(header)` -/
inductive ReadOk (Msg : Type) where
  | msg (m : Msg)
  | partialHdr (h : Header)

/-- `Message::read(reader, magic)` -/
def messageRead (c : Cfg Msg) (r : Rd) : Res (ReadOk Msg) × Rd :=
  match headerRead r with
  | (.timedOut, r') => (.timedOut, r')           -- `?` : IoError(TimedOut) leaves the function
  | (.err e, r') => (.err e, r')
  | (.ok h, r') =>
    match validate c h with
    | .error e => (.err e, r')
    | .ok () =>
      match readPartial c r' h with
      | (.ok m, r'') => (.ok (.msg m), r'')
      | (.timedOut, r'') => (.ok (.partialHdr h), r'')   -- TimedOut | WouldBlock → Partial(header)
      | (.err e, r'') => (.err e, r'')

/-- state of the receive loop: `partial: Option<MessageHeader>` and the `AtomicReader` -/
structure LoopState where
  partialHdr : Option Header
  r : Rd

/-- effect of one pass through the body of the receive loop -/
inductive Iter (Msg : Type) where
  /-- a complete message: `partial = None`, handled and published -/
  | emit (m : Msg) (s : LoopState)
  /-- `Partial(header)` stored, or TimedOut/WouldBlock → `continue` -/
  | cont (s : LoopState)
  /-- any other error: log, `disconnect()`, `return` -/
  | stop (e : String)

/-- one pass through `loop { … }` of `connect_internal` (peer.rs), reader logic only -/
def iter (c : Cfg Msg) (s : LoopState) : Iter Msg :=
  match s.partialHdr with
  | some h =>
    match readPartial c s.r h with
    | (.ok m, r') => .emit m ⟨none, r'⟩
    | (.timedOut, r') => .cont ⟨some h, r'⟩
    | (.err e, _) => .stop e
  | none =>
    match messageRead c s.r with
    | (.ok (.partialHdr h), r') => .cont ⟨some h, r'⟩
    | (.ok (.msg m), r') => .emit m ⟨none, r'⟩
    | (.timedOut, r') => .cont ⟨none, r'⟩
    | (.err e, _) => .stop e

/-- how a run of the loop ended -/
inductive Final where
  /-- left the loop through the error arm (`disconnect(); return`) with this error -/
  | stopped (e : String)
  /-- the fuel (number of passes granted) ran out while the loop was still waiting -/
  | waiting
deriving Repr, DecidableEq

/-- the receive loop for at most `fuel` passes: messages emitted in order, and how it ended -/
def recvLoop (c : Cfg Msg) : Nat → LoopState → List Msg × Final
  | 0, _ => ([], .waiting)
  | fuel + 1, s =>
    match iter c s with
    | .emit m s' => let r := recvLoop c fuel s'; (m :: r.1, r.2)
    | .cont s' => recvLoop c fuel s'
    | .stop e => ([], .stopped e)

/-- the loop as `connect_internal` starts it: no pending header, a fresh `AtomicReader` -/
def LoopState.init (stream : Bytes) (sched : List Nat) : LoopState :=
  ⟨none, Rd.new ⟨stream, sched⟩⟩

/-- the error string of an end-of-stream (`AtomicReader`'s `NotConnected`) -/
def DISCONNECTED : String := "err:IoNotConnected"

end CG.Model.Framing

import Std.Data.HashSet
import CG.Model.Rx
import CG.Spec.EventSpec
/-!
C13 — BOUNDED MODEL EXPLORATION (not a proof of the unbounded claim).

Executable exhaustive exploration of *all interleavings* (at the granularity of individual lock /
condvar operations) of small programs on the model: up to 3 threads × up to 2 operations
(`subscribe`, `publish`, `poll`, `drop`) on one subject, plain and single-shot, including subscription
from inside an observer callback.  At every reachable state: no deadlock, no poller asleep on an open
latch with nobody about to signal it; at every final state: the history satisfies `EventSpec`.
Evaluated by compiled code (the driver's `c13.explore` operation, run by `./check C13`) and, for a few
sample programs, by `#guard` in `CG.Props.C13` — not by the kernel: evidence of the same kind as a model
checker's, labelled as such.  The unbounded statements are theorems in `CG.Props.C13`.
-/
namespace CG.Model.Rx.Explore
open CG.Model.Rx CG.Spec.EventSpec

/-- a poller asleep although its latch is open, nobody holds the latch mutex and nobody signalled it -/
def pollBlocked (s : Sys) : Bool :=
  (List.range s.n).any fun t => match waitingOn s t with
    | some (a, k) => s.lOpen a k && !(s.thr t).woken && (s.lockL a k).isNone
    | none => false

/-- A poller still asleep although an event was published for it: its (internal) subscription had returned
    before a publication began that has ended — for a single-shot subject: the emission has ended.
    Meaningful in states where nothing can run any more. -/
def pollMissed (s : Sys) : Bool :=
  let h := s.hist
  let n := h.length
  (List.range s.n).any fun a => match waitingOn s a with
    | some (_, k) =>
      (List.range n).any fun k₀ => match h[k₀]? with
        | some (.subRet _ (.poller a' k') _) =>
          a' == a && k' == k && (List.range n).any fun i => match h[i]? with
            | some (.pubBegin t e p) =>
              (k₀ < i || s.kind == .single) && (List.range n).any fun j => i < j && h[j]? == some (.pubEnd t e p)
                && (s.kind == .subject || (List.range i).all fun i' => match h[i']? with
                      | some (.pubBegin _ _ _) => false
                      | _ => true)
            | _ => false
        | _ => false
    | none => false

def histOk (s : Sys) : Bool :=
  match s.kind with
  | .subject => (checkExactlyOnce s.hist).isNone
  | .single => (checkSingleOnce s.hist).isNone

structure Stats where
  states : Nat := 0
  finals : Nat := 0
  bad : Nat := 0
deriving Repr, DecidableEq

/-- depth-first enumeration of every maximal execution from `s` -/
def explore : Nat → Sys → Stats → Stats
  | 0, _, st => { st with bad := st.bad + 1 }          -- out of fuel counts as a failure
  | fuel + 1, s, st =>
    let st := { st with states := st.states + 1, bad := st.bad + (if deadlocked s || pollBlocked s then 1 else 0) }
    let en := (List.range s.n).filter (enabled s)
    if en.isEmpty then
      { st with finals := st.finals + 1, bad := st.bad + (if histOk s && !pollMissed s then 0 else 1) }
    else
      en.foldl (fun st t => match step s t with
        | some s' => explore fuel s' st
        | none => st) st

def run1 (a : Algo) (kd : Kind) (behs : List Beh) (progs : List (List Op)) : Stats :=
  explore 200 (init a kd behs progs) {}

/-- the operations used to build programs: two plain observers 0 and 1 (observer 2 is reserved for the
    callback variants), events 1.. -/
def opsAlphabet : List Op := [.sub 0, .sub 1, .pub 1, .poll, .drop 0]

/-- without `poll` (whose lock steps multiply the interleavings of a single-shot subject beyond what path
    enumeration can cover; polls are covered by the state-graph exploration) -/
def opsNoPoll : List Op := [.sub 0, .sub 1, .pub 1, .drop 0]

def progsOver (alpha : List Op) (len : Nat) : List (List Op) :=
  match len with
  | 0 => [[]]
  | n + 1 => (progsOver alpha n).flatMap fun p => alpha.map fun o => o :: p

def progsOf (len : Nat) : List (List Op) := progsOver opsAlphabet len

def addStats (a b : Stats) : Stats := ⟨a.states + b.states, a.finals + b.finals, a.bad + b.bad⟩

/-- all programs of two threads × two operations over the alphabet (single-shot: without `poll`) -/
def all2x2 (a : Algo) (kd : Kind) (behs : List Beh) : Stats :=
  let ps := progsOver (if kd == .single then opsNoPoll else opsAlphabet) 2
  ps.foldl (fun st p0 => ps.foldl (fun st p1 => addStats st (run1 a kd behs [p0, p1])) st) {}

/-! ### state-graph exploration (states identified up to history and ghost identifiers) -/

def eraseEntry (x : Entry) : Entry := ⟨x.ob, 0⟩

/-- ghost identifiers do not influence behaviour: erase them so that interleavings that differ only in
    the order identifiers were handed out meet in the same node -/
def eraseIds : Instr → Instr
  | .deliver o _ e _ => .deliver o 0 e 0
  | .acqPushR o _ => .acqPushR o 0
  | .acqSnapS e _ => .acqSnapS e 0
  | .relSnap snap e _ => .relSnap (snap.map eraseEntry) e 0
  | .putLockR a k _ e _ => .putLockR a k 0 e 0
  | .pTryOIn o _ => .pTryOIn o 0
  | .pWritePPush o _ => .pWritePPush o 0
  | .pReadOIn e _ => .pReadOIn e 0
  | .mSubRet o _ => .mSubRet o 0
  | .mSnapDrop snap => .mSnapDrop (snap.map eraseEntry)
  | .mPubEnd e _ => .mPubEnd e 0
  | .pIter cur rest e _ any => .pIter (cur.map eraseEntry) (rest.map eraseEntry) e 0 any
  | i => i

structure Key where
  thr : List Thread
  owner : List Bool
  observers : List Ob
  pending : List Ob
  value : Option Nat
  locks : List RW
  latch : List (Option Tid × Option Tid × Bool × Option Nat)
deriving BEq, Hashable

def keyOf (nobs maxOps : Nat) (s : Sys) : Key :=
  { thr := (List.range s.n).map fun t => { s.thr t with cont := (s.thr t).cont.map eraseIds },
    owner := (List.range nobs).map s.owner,
    observers := s.observers.map (·.ob), pending := s.pending.map (·.ob),
    value := s.value.map (·.1),
    locks := [s.lockM, s.lockV, s.lockO, s.lockP],
    latch := (List.range s.n).flatMap fun a => (List.range maxOps).map fun k =>
      (s.lockL a k, s.lockR a k, s.lOpen a k, s.rVal a k) }

/-- breadth-first exploration of the state graph; `bad` counts deadlocked / lost-wake-up states -/
def exploreStates (nobs maxOps : Nat) : Nat → List Sys → Std.HashSet Key → Stats → Stats
  | 0, _, _, st => { st with bad := st.bad + 1 }
  | _, [], _, st => st
  | fuel + 1, s :: work, seen, st =>
    let k := keyOf nobs maxOps s
    if seen.contains k then exploreStates nobs maxOps fuel work seen st
    else
      let st := { st with states := st.states + 1, bad := st.bad + (if deadlocked s || pollBlocked s then 1 else 0) }
      let succ := (List.range s.n).filterMap (step s)
      let st := if succ.isEmpty then { st with finals := st.finals + 1 } else st
      exploreStates nobs maxOps fuel (succ ++ work) (seen.insert k) st

def runStates (a : Algo) (kd : Kind) (behs : List Beh) (progs : List (List Op)) : Stats :=
  exploreStates 3 2 10000000 [init a kd behs progs] {} {}

/-- every program of three threads × two operations over the alphabet (state properties only) -/
def all3x2States (a : Algo) (kd : Kind) (behs : List Beh) (thirdFirst : Op) : Stats :=
  (progsOf 2).foldl (fun st p0 => (progsOf 2).foldl (fun st p1 => opsAlphabet.foldl (fun st o2 =>
    addStats st (runStates a kd behs [p0, p1, [thirdFirst, o2]])) st) st) {}

/-- callback variants: observer 0 subscribes observer 2 from inside its callback (legal for both kinds) -/
def behVariants : List (List Beh) := [[], [.cbSub 2, .plain, .plain], [.plain, .cbSub 2, .plain]]

/-- three threads × two operations: the first two threads over the whole alphabet restricted to programs
    whose first operation is a subscription, the third thread publishes twice / publishes and polls -/
def sel3x2 : List (List (List Op)) :=
  let subs : List Op := [.sub 0, .sub 1]
  let seconds : List Op := [.sub 1, .pub 1, .drop 0, .poll]
  let firsts : List (List Op) := subs.flatMap fun a => seconds.map fun b => [a, b]
  let thirds : List (List Op) := [[.pub 2, .pub 3], [.pub 2, .poll], [.poll, .pub 2], [.sub 1, .pub 2]]
  firsts.flatMap fun p0 => firsts.flatMap fun p1 => thirds.map fun p2 => [p0, p1, p2]

def all3x2 (a : Algo) (kd : Kind) (behs : List Beh) (cap : Nat) : Stats × Nat :=
  sel3x2.foldl (fun (st, skipped) ps =>
    if st.states > cap then (st, skipped + 1) else (addStats st (run1 a kd behs ps), skipped)) ({}, 0)

end CG.Model.Rx.Explore

import CG.Model.Wire.Header
/-!
# The wire decoders of C05, re-interpreted with allocation and iteration logging (C06)

`ADec α := Bytes → Res α`: besides the `Outcome` of the C05 decoder (`CG.Model.Wire.Codec.dec`), an
instrumented decoder reports

* `log`   — every heap allocation request the Rust code makes while decoding, in bytes
            (`Vec::with_capacity(n)`: `n * size_of::<T>()`; `vec![0; n]`: `n`; `Vec::push` beyond the
            capacity: the new capacity; `read_to_end` growth);
* `steps` — the number of loop iterations started (`for _ in 0..n { … }`).

Every allocation pattern of `src/messages/*.rs` has its own combinator here, parallel to the one in
`Wire/Codec.lean`:

| Rust                                                        | C05 combinator        | here                 |
|---|---|---|
| `read_bytes(reader, n)` (repaired) / `vec![0; n]` + `read_exact` (pinned) | `vecBytes n` | `readBytes P n` |
| `vec![0; k]` with a constant or one-byte `k`                | `vecBytes k`, `assocDec` | `fixedVec k`, `assocA` |
| `Vec::with_capacity(capped_capacity(n, size_of::<T>()))` + push loop | `listCap`    | `listCapA P sz`      |
| `Vec::new()` + push loop                                    | `listPush`, `listTry` | `listPushA sz`, `listTryA sz` |
| count checked against a maximum, then `with_capacity(n)` / `Vec::new()` | `listMax` | `listMaxCapA`, `listMaxPushA` |
| `vec![0; payload_size]` of `MessageHeader::payload`         | `payload`             | `payloadA`           |

`Policy` selects the tree: `capped L` is the REPAIRED tree (`capped_capacity` / `read_bytes` of
`util/serdes.rs` with `MAX_PREALLOC_BYTES = L`), `pinned` the tree in which counts and lengths read
from the wire are trusted (`Vec::with_capacity(n as usize)`, `vec![0; n as usize]`; a request above
`isize::MAX` bytes is the `capacity overflow` panic).  The driver picks the policy from the
regenerated constant `CG.Generated.C06_MAX_PREALLOC_BYTES` (0 when the tree has no such constant).

`Vec` growth is modelled in BYTES: state `(capacity, length)`, `push` at `length = capacity` requests
`max (2·cap) (len + sz) (4·sz)` (`RawVec::grow_amortized`, `MIN_NON_ZERO_CAP = 4` for elements of 2 to
1024 bytes).  `read_to_end` growth (only when more than `L` bytes are actually present) is logged as
its upper bound `2·(bytes read) + 32`.

Not logged: the constant-size allocations of the error paths (`format!` messages of `BadData`), the
12-byte command copy of `Message::Other` and the `Cursor` boxes — a few dozen bytes each, independent of
the input, covered by the slack of the constant.

The theorems are in `CG.Proofs.WireAlloc` / `CG.Props.C06`; 64-bit `usize` is assumed.
-/
namespace CG.Model.WireAlloc
open CG CG.Model.Wire

inductive Policy where
  | pinned
  | capped (L : Nat)
deriving Repr, DecidableEq

structure Res (α : Type) where
  out : Outcome (α × Bytes)
  log : List Nat
  steps : Nat

abbrev ADec (α : Type) := Bytes → Res α

/-- `isize::MAX + 1`: `Vec::with_capacity` / `vec![0; n]` panic (`capacity overflow`) from here on -/
def CAP_OVERFLOW : Nat := 2 ^ 63

/-! ## plumbing -/

/-- a C05 decoder that neither allocates on the heap nor loops (integers, fixed arrays, and
    structures of those) -/
def lift {α} (c : Codec α) : ADec α := fun b => ⟨c.dec b, [], 0⟩

/-- dependent sequencing (`dpair`) -/
def seq {α β} (d : ADec α) (f : α → ADec β) : ADec (α × β) := fun b =>
  let r := d b
  match r.out with
  | .ok (a, b') =>
    let s := f a b'
    ⟨s.out.bind fun y => .ok ((a, y.1), y.2), r.log ++ s.log, r.steps + s.steps⟩
  | .err e => ⟨.err e, r.log, r.steps⟩
  | .panic p => ⟨.panic p, r.log, r.steps⟩

def pairA {α β} (da : ADec α) (db : ADec β) : ADec (α × β) := seq da fun _ => db

scoped infixr:60 " ⊛ " => pairA

/-- `iso` / `inj`: change of representation -/
def amap {α β} (f : α → β) (d : ADec α) : ADec β := fun b =>
  let r := d b
  ⟨r.out.bind fun p => .ok (f p.1, p.2), r.log, r.steps⟩

/-- `refine` -/
def arefine {α} (d : ADec α) (p : α → Bool) (e : String) : ADec α := fun b =>
  let r := d b
  ⟨r.out.bind fun x => if p x.1 then .ok x else .err e, r.log, r.steps⟩

/-- `validated` -/
def avalidated {α} (d : ADec α) (v : α → Outcome Unit) : ADec α := fun b =>
  let r := d b
  ⟨r.out.bind fun x => (v x.1).bind fun _ => .ok x, r.log, r.steps⟩

/-- a heap allocation of `k` bytes made before `d` runs (`vec![0u8; SHORT_TX_ID_LEN]`) -/
def withAlloc {α} (k : Nat) (d : ADec α) : ADec α := fun b =>
  let r := d b
  ⟨r.out, k :: r.log, r.steps⟩

/-! ## byte buffers -/

/-- `vec![0; k]` + `read_exact` where `k` is a constant of the code (Reject data: 32 or nothing) -/
def fixedVec (k : Nat) : ADec Bytes := fun b => ⟨(vecBytes k).dec b, if k = 0 then [] else [k], 0⟩

/-- a length `n` read from the wire, then that many bytes.
    repaired: `read_bytes` = `Vec::with_capacity(min n L)` + `take(n).read_to_end`;
    pinned:   `vec![0; n]` + `read_exact`. -/
def readBytes : Policy → Nat → ADec Bytes
  | .pinned, n => fun b =>
    if CAP_OVERFLOW ≤ n then ⟨.panic "capacity overflow", [], 0⟩ else ⟨(vecBytes n).dec b, [n], 0⟩
  | .capped L, n => fun b =>
    let m := min n b.length
    ⟨(vecBytes n).dec b, min n L :: (if L < m then [2 * m + 32] else []), 0⟩

/-- varint length + bytes (`varBytes`) -/
def varBytesA (P : Policy) : ADec Bytes := amap (·.2) (seq (lift varint) (readBytes P))

/-- varint length + bytes + `String::from_utf8` (`varStr`) -/
def varStrA (P : Policy) : ADec Bytes := arefine (varBytesA P) validUtf8 "Utf8Error"

/-- `assocDec`: `if let Ok(n) = read_u8() { if n > 0 { vec![0; n]; read_exact } }` -/
def assocA : ADec Bytes := fun b =>
  match u8.dec b with
  | .ok (n, r) => if n > 0 then ⟨(vecBytes n).dec r, [n], 0⟩ else ⟨.ok ([], r), [], 0⟩
  | _ => ⟨.ok ([], []), [], 0⟩

/-- `policyOpt` (Createstrm): `if let Ok(n) = var_int::read(..) { read n bytes; from_utf8 }` -/
def policyA (P : Policy) : ADec Bytes := fun b =>
  match varint.dec b with
  | .ok (n, r) =>
    let s := readBytes P n r
    ⟨s.out.bind fun x => if validUtf8 x.1 then .ok x else .err "Utf8Error", s.log, s.steps⟩
  | _ => ⟨.ok ([], []), [], 0⟩

/-- `optionC` -/
def optionA {α} (present : Bool) (d : ADec α) : ADec (Option α) :=
  if present then amap some d else fun b => ⟨.ok (none, b), [], 0⟩

/-! ## vectors -/

/-- `Vec::push`: capacity and length in bytes; returns the new capacity and the request made -/
def pushGrow (sz capB lenB : Nat) : Nat × List Nat :=
  if lenB < capB then (capB, [])
  else
    let nc := max (2 * capB) (max (lenB + sz) (4 * sz))
    (nc, [nc])

/-- `for _ in 0..n { v.push(T::read(reader)?) }` with `v` at capacity `capB`, length `lenB` (bytes) -/
def loopA {α} (sz : Nat) (d : ADec α) : Nat → Nat → Nat → Bytes → Res (List α)
  | 0, _, _, b => ⟨.ok ([], b), [], 0⟩
  | n + 1, capB, lenB, b =>
    let r := d b
    match r.out with
    | .ok (a, b') =>
      let g := pushGrow sz capB lenB
      let s := loopA sz d n g.1 (lenB + sz) b'
      ⟨match s.out with
        | .ok (as, r') => .ok (a :: as, r')
        | .err e => .err e
        | .panic p => .panic p,
       r.log ++ (g.2 ++ s.log), 1 + r.steps + s.steps⟩
    | .err e => ⟨.err e, r.log, 1 + r.steps⟩
    | .panic p => ⟨.panic p, r.log, 1 + r.steps⟩

/-- what `Vec::with_capacity(..)` is asked for, in bytes, given the count `n` read from the wire;
    `none`: the `capacity overflow` panic -/
def initialCap : Policy → Nat → Nat → Option Nat
  | .pinned, sz, n => if CAP_OVERFLOW ≤ n * sz then none else some (n * sz)
  | .capped L, sz, n => some (min n (L / sz) * sz)

/-- `listCap`: varint count, `Vec::with_capacity(..)`, push loop; `sz = size_of::<T>()` -/
def listCapA {α} (P : Policy) (sz : Nat) (d : ADec α) : ADec (List α) := fun b =>
  match varint.dec b with
  | .ok (n, r) =>
    match initialCap P sz n with
    | none => ⟨.panic "capacity overflow", [], 0⟩
    | some c =>
      let s := loopA sz d n c 0 r
      ⟨s.out, c :: s.log, s.steps⟩
  | .err e => ⟨.err e, [], 0⟩
  | .panic p => ⟨.panic p, [], 0⟩

/-- `listPush`: varint count, `Vec::new()`, push loop -/
def listPushA {α} (sz : Nat) (d : ADec α) : ADec (List α) := fun b =>
  match varint.dec b with
  | .ok (n, r) => loopA sz d n 0 0 r
  | .err e => ⟨.err e, [], 0⟩
  | .panic p => ⟨.panic p, [], 0⟩

/-- `listMax` as in `Inv::read`: count checked against `max`, then `Vec::with_capacity(count)` -/
def listMaxCapA {α} (max sz : Nat) (d : ADec α) : ADec (List α) := fun b =>
  match varint.dec b with
  | .ok (n, r) =>
    if n ≤ max then
      let s := loopA sz d n (n * sz) 0 r
      ⟨s.out, (n * sz) :: s.log, s.steps⟩
    else ⟨.err "BadData", [], 0⟩
  | .err e => ⟨.err e, [], 0⟩
  | .panic p => ⟨.panic p, [], 0⟩

/-- `listMax` as in `Addr::read` / `AddrV2::read`: count checked against `max`, `Vec::new()` -/
def listMaxPushA {α} (max sz : Nat) (d : ADec α) : ADec (List α) := fun b =>
  match varint.dec b with
  | .ok (n, r) => if n ≤ max then loopA sz d n 0 0 r else ⟨.err "BadData", [], 0⟩
  | .err e => ⟨.err e, [], 0⟩
  | .panic p => ⟨.panic p, [], 0⟩

/-- `listTry`: `if let Ok(n) = var_int::read(..) { push loop }` on a default (empty) vector -/
def listTryA {α} (sz : Nat) (d : ADec α) : ADec (List α) := fun b =>
  match varint.dec b with
  | .ok (n, r) => loopA sz d n 0 0 r
  | _ => ⟨.ok ([], []), [], 0⟩

/-! ## element sizes (`size_of::<T>()`, regenerated from the harness binary) -/

def szTxIn : Nat := Generated.C06_SIZEOF_TXIN
def szTxOut : Nat := Generated.C06_SIZEOF_TXOUT
def szTx : Nat := Generated.C06_SIZEOF_TX
def szHash : Nat := Generated.C06_SIZEOF_HASH256
def szInvVect : Nat := Generated.C06_SIZEOF_INVVECT
def szNodeAddrEx : Nat := Generated.C06_SIZEOF_NODEADDREX
def szBlockHeader : Nat := Generated.C06_SIZEOF_BLOCKHEADER
def szVecU8 : Nat := Generated.C06_SIZEOF_VECU8
def szPrefilled : Nat := Generated.C06_SIZEOF_PREFILLED
def szNodeAddrExV2 : Nat := Generated.C06_SIZEOF_NODEADDREXV2
def szU64 : Nat := 8

/-! ## the payload decoders, in the order of `Wire/Messages.lean` -/

def txInA (P : Policy) : ADec TxIn :=
  amap (fun p => ⟨p.1, p.2.1, p.2.2⟩) (lift outPointC ⊛ varBytesA P ⊛ lift u32)

def txOutA (P : Policy) : ADec TxOut :=
  amap (fun p => ⟨p.1, p.2⟩) (lift i64 ⊛ varBytesA P)

def txA (P : Policy) : ADec Tx :=
  amap (fun p => ⟨p.1, p.2.1, p.2.2.1, p.2.2.2⟩)
    (lift u32 ⊛ listCapA P szTxIn (txInA P) ⊛ listCapA P szTxOut (txOutA P) ⊛ lift u32)

def invA : ADec Inv :=
  amap (fun l => ⟨l⟩) (listMaxCapA Generated.MAX_INV_ENTRIES szInvVect (lift invVectC))

def blockLocatorA : ADec BlockLocator :=
  amap (fun p => ⟨p.1, p.2.1, p.2.2⟩) (lift u32 ⊛ listPushA szHash (lift hash32) ⊛ lift hash32)

def versionA (P : Policy) : ADec Version :=
  amap (fun p => ⟨p.1, p.2.1, p.2.2.1, p.2.2.2.1, p.2.2.2.2.1, p.2.2.2.2.2.1, p.2.2.2.2.2.2.1,
      p.2.2.2.2.2.2.2.1, p.2.2.2.2.2.2.2.2.1, p.2.2.2.2.2.2.2.2.2⟩)
    (lift u32 ⊛ lift u64 ⊛ lift i64 ⊛ lift nodeAddrC ⊛ lift nodeAddrC ⊛ lift u64 ⊛ varStrA P ⊛
      lift i32 ⊛ lift boolByte ⊛ assocA)

def addrA : ADec Addr :=
  amap (fun l => ⟨l⟩) (listMaxPushA MAX_ADDR_COUNT szNodeAddrEx (lift nodeAddrExC))

def headersA : ADec Headers :=
  amap (fun l => ⟨l.map (·.1)⟩) (listPushA szBlockHeader (lift (blockHeaderC ⊗ skipByte)))

def blockA (P : Policy) : ADec Block :=
  amap (fun p => ⟨p.1, p.2⟩) (lift blockHeaderC ⊛ listCapA P szTx (txA P))

def merkleBlockA (P : Policy) : ADec MerkleBlock :=
  amap (fun p => ⟨p.1, p.2.1, p.2.2.1, p.2.2.2⟩)
    (lift blockHeaderC ⊛ lift u32 ⊛ listCapA P szHash (lift hash32) ⊛ varBytesA P)

def filterLoadA (P : Policy) : ADec FilterLoad :=
  amap (fun p => ⟨p.1, p.2.1, p.2.2.1, p.2.2.2⟩) (varBytesA P ⊛ lift u32 ⊛ lift u32 ⊛ lift u8)

def filterAddA (P : Policy) : ADec FilterAdd := amap (fun d => ⟨d⟩) (varBytesA P)

def rejectA (P : Policy) : ADec Reject :=
  amap (fun p => ⟨p.1, p.2.1, p.2.2.1, p.2.2.2⟩)
    (seq (varStrA P) fun m => lift u8 ⊛ varStrA P ⊛ fixedVec (if isBlockOrTx m then 32 else 0))

def protoconfA (P : Policy) : ADec Protoconf :=
  amap (fun p => ⟨p.1, p.2.1, p.2.2⟩)
    (seq (lift varint) fun v => lift u32 ⊛ optionA (decide (v > 1)) (varStrA P))

def authchA (P : Policy) : ADec Authch :=
  amap (fun p => ⟨p.1, p.2.1, p.2.2⟩) (lift i32 ⊛ seq (lift u32) (readBytes P))

def createstrmA (P : Policy) : ADec Createstrm :=
  amap (fun p => ⟨p.1, p.2.1, p.2.2⟩) (assocA ⊛ lift u8 ⊛ policyA P)

def streamackA : ADec Streamack := amap (fun p => ⟨p.1, p.2⟩) (assocA ⊛ lift u8)

def prefilledA (P : Policy) : ADec PrefilledTx :=
  amap (fun p => ⟨p.1, p.2⟩) (lift varint ⊛ txA P)

def cmpctblockA (P : Policy) : ADec Cmpctblock :=
  amap (fun p => ⟨p.1, p.2.1, p.2.2.1, p.2.2.2⟩)
    (lift blockHeaderC ⊛ lift u64 ⊛
      listTryA szVecU8 (withAlloc SHORT_TX_ID_LEN (lift (bytesN SHORT_TX_ID_LEN))) ⊛
      listTryA szPrefilled (prefilledA P))

def getblocktxnA : ADec Getblocktxn :=
  amap (fun p => ⟨p.1, p.2⟩) (lift hash32 ⊛ listTryA szU64 (lift varint))

def blocktxnA (P : Policy) : ADec Blocktxn :=
  amap (fun p => ⟨p.1, p.2⟩) (lift hash32 ⊛ listTryA szTx (txA P))

def addrV2A : ADec AddrV2 :=
  amap (fun l => ⟨l⟩) (listMaxPushA MAX_ADDR_COUNT szNodeAddrExV2 (lift nodeAddrExV2C))

/-- `MessageHeader::read`: `vec![0; MessageHeader::SIZE]`, `read_exact`, then fixed fields -/
def messageHeaderA : ADec MessageHeader := withAlloc HEADER_SIZE (lift messageHeaderC)

/-- `BloomFilter::read` (`util/bloom_filter.rs`; not a message of its own): filter bytes, `u64` number
    of hash functions, `u32` tweak -/
structure BloomFilterV where
  filter : Bytes
  numHashFuncs : Nat
  tweak : Nat
deriving Repr, DecidableEq, Inhabited

def bloomFilterC : Codec BloomFilterV :=
  iso (varBytes ⊗ u64 ⊗ u32) (fun p => ⟨p.1, p.2.1, p.2.2⟩) (fun f => (f.filter, f.numHashFuncs, f.tweak))

def bloomFilterA (P : Policy) : ADec BloomFilterV :=
  amap (fun p => ⟨p.1, p.2.1, p.2.2⟩) (varBytesA P ⊛ lift u64 ⊛ lift u32)

/-! ## `validate()` of the current tree

`Wire/Messages.lean` (C05) still carries the summation loop of `PrefilledTransaction::validate` as it
was before commit 5faf22a (overflow panic, one check after the loop); the code now checks every amount
and the running total inside the loop.  C06 states totality, so the loop is modelled here as it is. -/

/-- `for tx_out in outputs { <0 ? ; > MAX ? ; total += ; total > MAX ? }` — the `i64` addition cannot
    overflow: both operands are at most `MAX_SATOSHIS`; the guard is kept explicit all the same -/
def sumOutputsNow : List TxOut → Int → Outcome Unit
  | [], _ => .ok ()
  | o :: os, acc =>
    if o.satoshis < 0 then .err "BadData"
    else if o.satoshis > (Generated.MAX_SATOSHIS : Int) then .err "BadData"
    else if acc + o.satoshis > I64_MAX then .panic "total_out += tx_out.satoshis"
    else if acc + o.satoshis > (Generated.MAX_SATOSHIS : Int) then .err "BadData"
    else sumOutputsNow os (acc + o.satoshis)

def txAmountsValidate (t : Tx) : Outcome Unit :=
  if t.inputs.isEmpty then badData
  else if t.outputs.isEmpty then badData
  else sumOutputsNow t.outputs 0

def prefilledValidateNow (p : PrefilledTx) : Outcome Unit := txAmountsValidate p.tx
def cmpctblockValidateNow (c : Cmpctblock) : Outcome Unit := allValidate prefilledValidateNow c.prefilledtxn
/-- `Blocktxn::validate` (not called by `Message::read`) -/
def blocktxnValidate (c : Blocktxn) : Outcome Unit := allValidate txAmountsValidate c.transactions
/-- `BlockLocator::validate` (not called by `Message::read`) -/
def blockLocatorValidate (l : BlockLocator) : Outcome Unit :=
  if l.version < Generated.C05_MIN_SUPPORTED_PROTOCOL_VERSION then badData else .ok ()
/-- `BloomFilter::validate` -/
def bloomFilterValidate (f : BloomFilterV) : Outcome Unit :=
  if f.filter.length > Generated.BLOOM_FILTER_MAX_FILTER_SIZE then badData
  else if f.numHashFuncs > Generated.BLOOM_FILTER_MAX_HASH_FUNCS then badData
  else .ok ()

/-! ## every payload decoder, by kind (the `<type>` of a `c06.payload` request) -/

inductive Kind where
  | varint
  | outpoint
  | txin
  | txout
  | tx
  | blockheader
  | invvect
  | inv
  | blocklocator
  | ping
  | feefilter
  | sendcmpct
  | nodeaddr
  | nodeaddrex
  | version
  | addr
  | headers
  | block
  | merkleblock
  | filterload
  | filteradd
  | reject
  | protoconf
  | authch
  | createstrm
  | streamack
  | cmpctblock
  | getblocktxn
  | blocktxn
  | addrv2
  | msgheader
  | bloomfilter
deriving Repr, DecidableEq

/-- the value type of a kind -/
def Kind.Val : Kind → Type
  | .varint => Nat
  | .outpoint => OutPoint
  | .txin => TxIn
  | .txout => TxOut
  | .tx => Tx
  | .blockheader => BlockHeader
  | .invvect => InvVect
  | .inv => Inv
  | .blocklocator => BlockLocator
  | .ping => Ping
  | .feefilter => FeeFilter
  | .sendcmpct => SendCmpct
  | .nodeaddr => NodeAddr
  | .nodeaddrex => NodeAddrEx
  | .version => Version
  | .addr => Addr
  | .headers => Headers
  | .block => Block
  | .merkleblock => MerkleBlock
  | .filterload => FilterLoad
  | .filteradd => FilterAdd
  | .reject => Reject
  | .protoconf => Protoconf
  | .authch => Authch
  | .createstrm => Createstrm
  | .streamack => Streamack
  | .cmpctblock => Cmpctblock
  | .getblocktxn => Getblocktxn
  | .blocktxn => Blocktxn
  | .addrv2 => AddrV2
  | .msgheader => MessageHeader
  | .bloomfilter => BloomFilterV

/-- the C05 codec of a kind -/
def Kind.codec : (k : Kind) → Codec k.Val
  | .varint => Wire.varint
  | .outpoint => outPointC
  | .txin => txInC
  | .txout => txOutC
  | .tx => txC
  | .blockheader => blockHeaderC
  | .invvect => invVectC
  | .inv => invC
  | .blocklocator => blockLocatorC
  | .ping => pingC
  | .feefilter => feeFilterC
  | .sendcmpct => sendCmpctC
  | .nodeaddr => nodeAddrC
  | .nodeaddrex => nodeAddrExC
  | .version => versionC
  | .addr => addrC
  | .headers => headersC
  | .block => blockC
  | .merkleblock => merkleBlockC
  | .filterload => filterLoadC
  | .filteradd => filterAddC
  | .reject => rejectC
  | .protoconf => protoconfC
  | .authch => authchC
  | .createstrm => createstrmC
  | .streamack => streamackC
  | .cmpctblock => cmpctblockC
  | .getblocktxn => getblocktxnC
  | .blocktxn => blocktxnC
  | .addrv2 => addrV2C
  | .msgheader => messageHeaderC
  | .bloomfilter => bloomFilterC

/-- the instrumented decoder of a kind -/
def Kind.dec (P : Policy) : (k : Kind) → ADec k.Val
  | .varint => lift Wire.varint
  | .outpoint => lift outPointC
  | .txin => txInA P
  | .txout => txOutA P
  | .tx => txA P
  | .blockheader => lift blockHeaderC
  | .invvect => lift invVectC
  | .inv => invA
  | .blocklocator => blockLocatorA
  | .ping => lift pingC
  | .feefilter => lift feeFilterC
  | .sendcmpct => lift sendCmpctC
  | .nodeaddr => lift nodeAddrC
  | .nodeaddrex => lift nodeAddrExC
  | .version => versionA P
  | .addr => addrA
  | .headers => headersA
  | .block => blockA P
  | .merkleblock => merkleBlockA P
  | .filterload => filterLoadA P
  | .filteradd => filterAddA P
  | .reject => rejectA P
  | .protoconf => protoconfA P
  | .authch => authchA P
  | .createstrm => createstrmA P
  | .streamack => streamackA
  | .cmpctblock => cmpctblockA P
  | .getblocktxn => getblocktxnA
  | .blocktxn => blocktxnA P
  | .addrv2 => addrV2A
  | .msgheader => messageHeaderA
  | .bloomfilter => bloomFilterA P

/-- the argument-free `validate()` of the value, where the type has one that is modelled -/
def Kind.validate : (k : Kind) → Option (k.Val → Outcome Unit)
  | .varint => none
  | .outpoint => none
  | .txin => none
  | .txout => none
  | .tx => none
  | .blockheader => none
  | .invvect => none
  | .inv => none
  | .blocklocator => some blockLocatorValidate
  | .ping => none
  | .feefilter => none
  | .sendcmpct => none
  | .nodeaddr => none
  | .nodeaddrex => none
  | .version => some versionValidate
  | .addr => none
  | .headers => none
  | .block => none
  | .merkleblock => none
  | .filterload => some filterLoadValidate
  | .filteradd => some filterAddValidate
  | .reject => none
  | .protoconf => some protoconfValidate
  | .authch => some authchValidate
  | .createstrm => some createstrmValidate
  | .streamack => some streamackValidate
  | .cmpctblock => some cmpctblockValidateNow
  | .getblocktxn => none
  | .blocktxn => some blocktxnValidate
  | .addrv2 => none
  | .msgheader => none
  | .bloomfilter => some bloomFilterValidate

def Kind.ofString : String → Option Kind
  | "varint" => some .varint
  | "outpoint" => some .outpoint
  | "txin" => some .txin
  | "txout" => some .txout
  | "tx" => some .tx
  | "blockheader" => some .blockheader
  | "invvect" => some .invvect
  | "inv" => some .inv
  | "blocklocator" => some .blocklocator
  | "ping" => some .ping
  | "feefilter" => some .feefilter
  | "sendcmpct" => some .sendcmpct
  | "nodeaddr" => some .nodeaddr
  | "nodeaddrex" => some .nodeaddrex
  | "version" => some .version
  | "addr" => some .addr
  | "headers" => some .headers
  | "block" => some .block
  | "merkleblock" => some .merkleblock
  | "filterload" => some .filterload
  | "filteradd" => some .filteradd
  | "reject" => some .reject
  | "protoconf" => some .protoconf
  | "authch" => some .authch
  | "createstrm" => some .createstrm
  | "streamack" => some .streamack
  | "cmpctblock" => some .cmpctblock
  | "getblocktxn" => some .getblocktxn
  | "blocktxn" => some .blocktxn
  | "addrv2" => some .addrv2
  | "msgheader" => some .msgheader
  | "bloomfilter" => some .bloomfilter
  | _ => none

def Kind.all : List Kind :=
  [.varint, .outpoint, .txin, .txout, .tx, .blockheader, .invvect, .inv, .blocklocator, .ping, .feefilter, .sendcmpct, .nodeaddr, .nodeaddrex, .version, .addr, .headers, .block, .merkleblock, .filterload, .filteradd, .reject, .protoconf, .authch, .createstrm, .streamack, .cmpctblock, .getblocktxn, .blocktxn, .addrv2, .msgheader, .bloomfilter]

/-! ## `Message::read` -/

/-- one arm of `read_partial` -/
structure EntryA where
  cmd : Bytes
  body : Option (ADec Msg)
  unit : Msg

/-- payload decoder, then the arm's `validate()`, then the `Message` constructor -/
def armA {α} (d : ADec α) (v : α → Outcome Unit) (mk : α → Msg) : ADec Msg := amap mk (avalidated d v)

def tableA (P : Policy) : List EntryA :=
  [⟨eAddr.cmd, some (armA addrA noValidate .addr), .getAddr⟩,
   ⟨eAddrV2.cmd, some (armA addrV2A noValidate .addrV2), .getAddr⟩,
   ⟨eBlock.cmd, some (armA (blockA P) noValidate .block), .getAddr⟩,
   ⟨eFeeFilter.cmd, some (armA (lift feeFilterC) noValidate .feeFilter), .getAddr⟩,
   ⟨eFilterAdd.cmd, some (armA (filterAddA P) filterAddValidate .filterAdd), .getAddr⟩,
   ⟨eFilterClear.cmd, none, .filterClear⟩,
   ⟨eFilterLoad.cmd, some (armA (filterLoadA P) filterLoadValidate .filterLoad), .getAddr⟩,
   ⟨eGetAddr.cmd, none, .getAddr⟩,
   ⟨eGetBlocks.cmd, some (armA blockLocatorA noValidate .getBlocks), .getAddr⟩,
   ⟨eGetData.cmd, some (armA invA noValidate .getData), .getAddr⟩,
   ⟨eGetHeaders.cmd, some (armA blockLocatorA noValidate .getHeaders), .getAddr⟩,
   ⟨eHeaders.cmd, some (armA headersA noValidate .headers), .getAddr⟩,
   ⟨eInv.cmd, some (armA invA noValidate .inv), .getAddr⟩,
   ⟨eMempool.cmd, none, .mempool⟩,
   ⟨eMerkleBlock.cmd, some (armA (merkleBlockA P) noValidate .merkleBlock), .getAddr⟩,
   ⟨eNotFound.cmd, some (armA invA noValidate .notFound), .getAddr⟩,
   ⟨ePing.cmd, some (armA (lift pingC) noValidate .ping), .getAddr⟩,
   ⟨ePong.cmd, some (armA (lift pingC) noValidate .pong), .getAddr⟩,
   ⟨eReject.cmd, some (armA (rejectA P) noValidate .reject), .getAddr⟩,
   ⟨eSendCmpct.cmd, some (armA (lift sendCmpctC) noValidate .sendCmpct), .getAddr⟩,
   ⟨eSendHeaders.cmd, none, .sendHeaders⟩,
   ⟨eTx.cmd, some (armA (txA P) noValidate .tx), .getAddr⟩,
   ⟨eVersion.cmd, some (armA (versionA P) versionValidate .version), .getAddr⟩,
   ⟨eVerack.cmd, none, .verack⟩,
   ⟨eProtoconf.cmd, some (armA (protoconfA P) protoconfValidate .protoconf), .getAddr⟩,
   ⟨eAuthch.cmd, some (armA (authchA P) authchValidate .authch), .getAddr⟩,
   ⟨eCreatestrm.cmd, some (armA (createstrmA P) createstrmValidate .createstrm), .getAddr⟩,
   ⟨eStreamack.cmd, some (armA streamackA streamackValidate .streamack), .getAddr⟩,
   ⟨eCmpctblock.cmd, some (armA (cmpctblockA P) cmpctblockValidateNow .cmpctblock), .getAddr⟩,
   ⟨eGetblocktxn.cmd, some (armA getblocktxnA noValidate .getblocktxn), .getAddr⟩,
   ⟨eBlocktxn.cmd, some (armA (blocktxnA P) noValidate .blocktxn), .getAddr⟩,
   ⟨eSendAddrV2.cmd, none, .sendAddrV2⟩]

/-- `MessageHeader::payload`: `vec![0; payload_size]` (a `u32`: never a capacity overflow),
    `read_exact`, checksum.  The buffer is requested before a single payload byte has been seen:
    bounded by the header check for every command but `block`. -/
def payloadA (H : Bytes → Bytes) (hdr : MessageHeader) : ADec Bytes := fun b =>
  ⟨payload H hdr b, [hdr.payloadSize], 0⟩

/-- `Message::read_partial`; the payload decoder runs on the payload buffer (a `Cursor` of its own) -/
def readPartialA (P : Policy) (H : Bytes → Bytes) (hdr : MessageHeader) : ADec Msg := fun b =>
  match (tableA P).find? (fun e => e.cmd == hdr.command) with
  | some e =>
    match e.body with
    | none => if hdr.payloadSize ≠ 0 then ⟨.err "BadData", [], 0⟩ else ⟨.ok (e.unit, b), [], 0⟩
    | some d =>
      let p := payloadA H hdr b
      match p.out with
      | .ok (pl, rest) =>
        let r := d pl
        ⟨r.out.bind fun m => .ok (m.1, rest), p.log ++ r.log, r.steps⟩
      | .err e => ⟨.err e, p.log, 0⟩
      | .panic s => ⟨.panic s, p.log, 0⟩
  | none =>
    if hdr.payloadSize > 0 then
      let p := payloadA H hdr b
      ⟨p.out.bind fun q => .ok (.other (otherName hdr.command), q.2), p.log, 0⟩
    else ⟨.ok (.other (otherName hdr.command), b), [], 0⟩

/-- `Message::read` on a byte string -/
def readMessageA (P : Policy) (H : Bytes → Bytes) (magic : Bytes) : ADec Msg := fun b =>
  match takeExact HEADER_SIZE b with
  | none => ⟨.err "IoError", [HEADER_SIZE], 0⟩
  | some (h, r) =>
    match messageHeaderC.dec h with
    | .ok (hd, _) =>
      match headerValidate hd magic with
      | .ok _ => let s := readPartialA P H hd r; ⟨s.out, HEADER_SIZE :: s.log, s.steps⟩
      | .err e => ⟨.err e, [HEADER_SIZE], 0⟩
      | .panic s => ⟨.panic s, [HEADER_SIZE], 0⟩
    | .err e => ⟨.err e, [HEADER_SIZE], 0⟩
    | .panic s => ⟨.panic s, [HEADER_SIZE], 0⟩

/-- the payload size a byte string declares in its header (bytes 16..20, little endian) and its
    command (bytes 4..16) -/
def declaredSize (b : Bytes) : Nat := leToNat ((b.drop 16).take 4)
def declaredCommand (b : Bytes) : Bytes := (b.drop 4).take 12

/-- the property's exemption: a `block` message declaring more than `MAX_PAYLOAD_SIZE` -/
def OversizeBlock (b : Bytes) : Prop := declaredCommand b = eBlock.cmd ∧ declaredSize b > MAX_PAYLOAD_SIZE

instance (b : Bytes) : Decidable (OversizeBlock b) := inferInstanceAs (Decidable (_ ∧ _))

/-! ## the allocation rule shared with the harness (`harness/src/c06.rs`, `checks/C06.py`) -/

def RULE_K : Nat := Generated.C06_RULE_K
def RULE_C : Nat := Generated.C06_RULE_C

/-- the policy of the tree the harness is linked against -/
def treePolicy : Policy :=
  if Generated.C06_MAX_PREALLOC_BYTES = 0 then .pinned else .capped Generated.C06_MAX_PREALLOC_BYTES

def maxLog : List Nat → Nat
  | [] => 0
  | x :: xs => max x (maxLog xs)

end CG.Model.WireAlloc

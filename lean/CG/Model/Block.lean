import CG.Model.Merkle
/-!
Model of `Block::validate`, `Block::inputs` (`src/messages/block.rs`), `Tx::coinbase`
(`src/messages/tx.rs`) and of the rule-set selection by network and height that `Block::validate`
performs (`src/network/network.rs` for the seven networks, `src/util/mod.rs` for the four activation
heights).  The Merkle-root part is `CG.Model.Merkle.blockRootCheck` (C14); the per-transaction
validation `Tx::validate` is C04's subject and enters here as a function of the two rule flags.
-/
namespace CG.Model.Block
open CG CG.Model.Merkle

inductive Network where
  | bsvMainnet | bsvTestnet | bsvStn | btcMainnet | btcTestnet | bchMainnet | bchTestnet
deriving DecidableEq, Repr

def Network.all : List Network :=
  [.bsvMainnet, .bsvTestnet, .bsvStn, .btcMainnet, .btcTestnet, .bchMainnet, .bchTestnet]

/-- the four activation heights (constants of `src/util/mod.rs`, regenerated from the tree) -/
structure Heights where
  bchForkMainnet : Int
  bchForkTestnet : Int
  genesisMainnet : Int
  genesisTestnet : Int
deriving DecidableEq, Repr

/-- `require_sighash_forkid` as computed by `Block::validate` -/
def requireForkid (H : Heights) (n : Network) (height : Int) : Bool :=
  match n with
  | .bsvMainnet | .bchMainnet => decide (height ≥ H.bchForkMainnet)
  | .bsvTestnet | .bchTestnet => decide (height ≥ H.bchForkTestnet)
  | .bsvStn => true
  | .btcMainnet | .btcTestnet => false

/-- `use_genesis_rules` as computed by `Block::validate` -/
def useGenesis (H : Heights) (n : Network) (height : Int) : Bool :=
  match n with
  | .bsvMainnet => decide (height ≥ H.genesisMainnet)
  | .bsvTestnet => decide (height ≥ H.genesisTestnet)
  | .bsvStn => true
  | .btcMainnet | .btcTestnet | .bchMainnet | .bchTestnet => false

/-- an outpoint: 32-byte hash and index -/
structure OutPoint where
  hash : Bytes
  index : Nat
deriving DecidableEq, Repr

/-- what `Block::validate` / `Block::inputs` look at in a transaction: its inputs' outpoints (for
    `coinbase()` and the double-spend scan) and the verdict of `Tx::validate` under the two flags
    (`none` = `Ok(())`, `some e` = `Err(e)`) -/
structure BTx where
  inputs : List OutPoint
  verdict : Bool → Bool → Option String

/-- `Tx::coinbase`: exactly one input, which refers to the null hash with index `0xffffffff` -/
def isCoinbase (coinbaseIndex : Nat) (t : BTx) : Bool :=
  match t.inputs with
  | [i] => i.hash == List.replicate 32 0 && i.index == coinbaseIndex
  | _ => false

/-- the transaction loop of `Block::validate` (`has` = `has_coinbase`) -/
def txLoop (ci : Nat) (forkid genesis : Bool) : List BTx → Bool → Outcome Unit
  | [], has => if has then .ok () else .err "BadData:No coinbase"
  | t :: ts, has =>
    if !isCoinbase ci t then
      match t.verdict forkid genesis with
      | some e => .err e
      | none => txLoop ci forkid genesis ts has
    else if has then .err "BadData:Multiple coinbases"
    else txLoop ci forkid genesis ts true

/-- `Block::validate(height, network, utxos, pregenesis_outputs)`; `rootCheck` is the outcome of the first
    two checks (`CG.Model.Merkle.blockRootCheck` on the transaction ids and the header's root) -/
def validate (H : Heights) (ci : Nat) (height : Int) (n : Network) (rootCheck : Outcome Unit) (txs : List BTx) :
    Outcome Unit :=
  match rootCheck with
  | .ok () => txLoop ci (requireForkid H n height) (useGenesis H n height) txs false
  | .err e => .err e
  | .panic s => .panic s

/-- one `HashSet::contains` / `insert` of `Block::inputs` (`none` = "Input double spent") -/
def addStep (acc : Option (List OutPoint)) (i : OutPoint) : Option (List OutPoint) :=
  match acc with
  | none => none
  | some s => if s.contains i then none else some (s ++ [i])

/-- the inputs of one transaction added to the outpoints seen so far -/
def addInputs (seen : List OutPoint) (l : List OutPoint) : Option (List OutPoint) :=
  l.foldl addStep (some seen)

/-- `Block::inputs`: the outpoints spent by the non-coinbase transactions, in order; an outpoint seen twice
    is `BadData("Input double spent")` -/
def inputsLoop (ci : Nat) : List BTx → List OutPoint → Outcome (List OutPoint)
  | [], seen => .ok seen
  | t :: ts, seen =>
    if isCoinbase ci t then inputsLoop ci ts seen
    else
      match addInputs seen t.inputs with
      | none => .err "BadData:Input double spent"
      | some s => inputsLoop ci ts s

def inputs (ci : Nat) (txs : List BTx) : Outcome (List OutPoint) := inputsLoop ci txs []

end CG.Model.Block

import CG.Model.Interp
import CG.Model.Sighash
/-!
Model of the Python glue (`src/python/mod.rs`, `py_tx.rs`, `py_stack.rs`, `py_wallet.rs`) and of
`python/src/tx_engine/engine/context.py` — the ROUTING of Python arguments into the already-modelled
core.  Each wrapper is a thin function with outcome `Outcome α`:

* `.ok v`      – the Python call returns `v`;
* `.err k`     – an ordinary Python exception of class `k` is raised (`ChainGangError` converts to
                 `ValueError`, `src/util/errors.rs`);
* `.panic s`   – a Rust panic reaches Python as `pyo3_runtime.PanicException` (a `BaseException`).

Every wrapper with a defect on the pinned tree takes a flag `pinned : Bool`: `true` is the code as
pinned (48332c3), `false` the tree with the `C18-*.patch` repairs.

* the two checkers reachable from Python: `tless` (`TransactionlessChecker`, fails every call) and
  `zChecker` (`ZChecker { z }`; the k256 verification is the parameter `verify z der pubkey`);
* `pyScriptEval`, `pyScriptEvalPystack` (with the `(break_at, start_at)` swap of the pinned z-branch);
* `contextEvaluate` (`Context.__init__` normalisation, `evaluate_core`, the verdict);
* `hashDecode`/`asTx` (`PyTxIn::as_txin`, `PyTx::as_tx`), `pySigHash*`, `pyTxId`;
* `walletFromBytes`, `walletFromInt` (`SigningKey::from_bytes` acceptance is the parameter `validKey`);
* `decodeCombined` (`decode_number_combined`, behind `Stack.decode_element`).
-/
namespace CG.Model.PyGlue
open CG CG.Model.ScriptNum CG.Model.Interp CG.Model.TxSer

/-! ### checkers -/

/-- `TransactionlessChecker`: every call is `Err(IllegalState)` -/
def tless (σ : Type) : Checker σ :=
  { checkSig := fun c _ _ _ => (.err "IllegalState", c)
    checkLocktime := fun _ _ => .err "IllegalState"
    checkSequence := fun _ _ => .err "IllegalState" }

/-- `ZChecker { z }`: empty signature and missing FORKID bit are `ScriptError`; otherwise the DER
    signature (all but the last byte) and the SEC1 key are handed to k256 with `z` as the prehash
    (`verify z der pubkey`: parse errors are `.err`, the verification verdict is `.ok`). -/
def zChecker (σ : Type) (verify : Bytes → Bytes → Bytes → Outcome Bool) (z : Bytes) : Checker σ :=
  { checkSig := fun c sig pk _ =>
      match sig.getLast? with
      | none => (.err "ScriptError", c)
      | some ty => if ty &&& 0x40 = 0 then (.err "ScriptError", c) else (verify z sig.dropLast pk, c)
    checkLocktime := fun _ _ => .err "IllegalState"
    checkSequence := fun _ _ => .err "IllegalState" }

/-- `impl From<ChainGangError> for PyErr`: every library error becomes `ValueError` -/
def toPy {α : Type} : Outcome α → Outcome α
  | .ok a => .ok a
  | .err _ => .err "ValueError"
  | .panic s => .panic s

/-- what `py_script_eval*` hand back: main stack, alt stack, optional program counter -/
abbrev EvalOut := Stack × Stack × Option Nat

/-! ### `py_script_eval` -/

/-- `py_script_eval(py_script, break_at=None, z=None)`: `z` must be exactly 32 bytes (`ValueError`
    otherwise); with `z` the `ZChecker`, without it the `TransactionlessChecker`; `NO_FLAGS`, no start
    offset, no initial stacks. -/
def pyScriptEval (H : Hashes) (verify : Bytes → Bytes → Bytes → Outcome Bool) (script : Bytes)
    (brk : Option Nat) (z : Option Bytes) : Outcome EvalOut :=
  match z with
  | some zb =>
    if zb.length ≠ 32 then .err "ValueError"
    else (toPy (coreEval H (zChecker Unit verify zb) () script 0 none brk none none)).map
      (fun r => (r.stack, r.alt, r.pos))
  | none =>
    (toPy (coreEval H (tless Unit) () script 0 none brk none none)).map (fun r => (r.stack, r.alt, r.pos))

/-! ### `py_script_eval_pystack` -/

/-- `py_script_eval_pystack(py_script, start_at, break_at, z, stack_param, alt_stack_param)`.
    `pinned = true`: the branch taken when `z` is supplied passes `(break_at, start_at)` to
    `eval_with_stack` (swapped).  The program counter is reported only when `break_at` was given. -/
def pyScriptEvalPystack (pinned : Bool) (H : Hashes) (verify : Bytes → Bytes → Bytes → Outcome Bool)
    (script : Bytes) (start brk : Option Nat) (z : Option Bytes) (stack alt : Option Stack) :
    Outcome EvalOut :=
  let fin := fun (r : Outcome (EvalResult Unit)) =>
    (toPy r).map (fun r => (r.stack, r.alt, match brk with | some _ => r.pos | none => none))
  match z with
  | some zb =>
    if zb.length ≠ 32 then .err "ValueError"
    else if pinned then fin (coreEval H (zChecker Unit verify zb) () script 0 brk start stack alt)
    else fin (coreEval H (zChecker Unit verify zb) () script 0 start brk stack alt)
  | none => fin (coreEval H (tless Unit) () script 0 start brk stack alt)

/-! ### `Context` (context.py) -/

structure Ctx where
  script : Bytes
  ipStart : Option Nat
  ipLimit : Option Nat
  z : Option Bytes

/-- `self.ip_start = ip_start if ip_start else None` (0 becomes None) -/
def normNat : Option Nat → Option Nat
  | some 0 => none
  | o => o

/-- `self.z = z if z else None` (empty bytes become None) -/
def normZ : Option Bytes → Option Bytes
  | some [] => none
  | o => o

/-- the repaired verdict, as written in context.py: `top = bytes(stack[size-1])`;
    `len(top) == 0 → False`; `any(top[:-1]) or (top[-1] & 0x7f) != 0`.  (Stacks have their top at
    the head here.) -/
def pyTruth (t : Bytes) : Bool :=
  match t.getLast? with
  | none => false
  | some last => t.dropLast.any (· != 0) || (last &&& 0x7f != 0)

def verdictFixed (s : Stack) : Bool :=
  match s with
  | [] => false
  | t :: _ => pyTruth t

/-- the pinned verdict: `size() == 0 → False`; `size() == 1 and (stack == Stack([[]]) or
    stack == Stack([[0]])) → False`; then `stack[0] == [0] or stack[0] == []` compares the `bytes`
    returned by `Stack.__getitem__` with a `list`, which is never equal: `True`. -/
def verdictPinned (s : Stack) : Bool :=
  match s with
  | [] => false
  | [t] => !(t = [] || t = [0])
  | _ => true

/-- `Context(script, ip_start, ip_limit, z).evaluate()`: `evaluate_core` calls
    `py_script_eval_pystack(cmds, ip_start, ip_limit, z, Stack(), Stack())`; `except Exception`
    turns an ordinary exception into `False`; a `PanicException` is a `BaseException` and propagates.
    Returns the verdict and the two stacks the context holds afterwards. -/
def contextEvaluate (pinnedGlue pinnedVerdict : Bool) (H : Hashes)
    (verify : Bytes → Bytes → Bytes → Outcome Bool) (c : Ctx) : Outcome (Bool × Stack × Stack) :=
  match pyScriptEvalPystack pinnedGlue H verify c.script (normNat c.ipStart) (normNat c.ipLimit)
      (normZ c.z) (some []) (some []) with
  | .panic p => .panic p
  | .err _ => .ok (false, [], [])
  | .ok (s, a, _) => .ok ((if pinnedVerdict then verdictPinned s else verdictFixed s), s, a)

/-! ### transactions: `PyTxIn::as_txin`, `PyTx::as_tx`, `Tx.id()` -/

def hexNibble (b : UInt8) : Option Nat :=
  let n := b.toNat
  if 48 ≤ n ∧ n ≤ 57 then some (n - 48)
  else if 97 ≤ n ∧ n ≤ 102 then some (n - 87)
  else if 65 ≤ n ∧ n ≤ 70 then some (n - 55)
  else none

/-- `hex::decode` on the UTF-8 bytes of a string -/
def hexDecode : Bytes → Option Bytes
  | [] => some []
  | [_] => none
  | a :: b :: r =>
    match hexNibble a, hexNibble b, hexDecode r with
    | some x, some y, some rest => some (UInt8.ofNat (16 * x + y) :: rest)
    | _, _, _ => none

/-- `Hash256::decode`: hex, exactly 32 bytes, reversed -/
def hashDecode (txt : Bytes) : Outcome Bytes :=
  match hexDecode txt with
  | none => .err "HexError"
  | some b => if b.length ≠ 32 then .err "BadArgument" else .ok b.reverse

structure PyTxIn where
  prevTx : Bytes        -- the Python `str`, as UTF-8 bytes
  prevIndex : Nat
  scriptSig : Bytes
  sequence : Nat

structure PyTx where
  version : Nat
  txIns : List PyTxIn
  txOuts : List TxOut
  locktime : Nat

/-- `PyTxIn::as_txin`: pinned `Hash256::decode(..).expect(..)`, repaired `?` -/
def asTxIn (pinned : Bool) (i : PyTxIn) : Outcome TxIn :=
  match hashDecode i.prevTx with
  | .ok h => .ok ⟨⟨h, i.prevIndex⟩, i.scriptSig, i.sequence⟩
  | .err e => if pinned then .panic "Error decoding hexstr prev outpoint" else .err e
  | .panic p => .panic p

def asTxIns (pinned : Bool) : List PyTxIn → Outcome (List TxIn)
  | [] => .ok []
  | i :: r =>
    match asTxIn pinned i with
    | .ok t =>
      (match asTxIns pinned r with
       | .ok ts => .ok (t :: ts)
       | .err e => .err e
       | .panic p => .panic p)
    | .err e => .err e
    | .panic p => .panic p

/-- `PyTx::as_tx` -/
def asTx (pinned : Bool) (t : PyTx) : Outcome Tx :=
  match asTxIns pinned t.txIns with
  | .ok ins => .ok ⟨t.version, ins, t.txOuts, t.locktime⟩
  | .err e => .err e
  | .panic p => .panic p

/-- `Tx.id()` / `Tx.hash()` / `Tx.serialize()`: (`sha256d(ser)` reversed, `ser`) -/
def pyTxId (pinned : Bool) (H : Bytes → Bytes) (t : PyTx) : Outcome (Bytes × Bytes) :=
  toPy ((asTx pinned t).map (fun tx => ((H (serTx tx)).reverse, serTx tx)))

/-! ### `sig_hash`, `sig_hash_checksig_index`, `sig_hash_preimage`, `sig_hash_preimage_checksig_index` -/

/-- digest wrappers: `create_sighash(_checksig_index)(..)` on a fresh cache; pinned `.unwrap()`,
    repaired `?` -/
def pySigHash (pinned : Bool) (H : Bytes → Bytes) (t : PyTx) (n : Nat) (code : Bytes) (k : Nat)
    (sat : Int) (ty : UInt8) : Outcome Bytes :=
  match asTx pinned t with
  | .err _ => .err "ValueError"
  | .panic p => .panic p
  | .ok tx =>
    match (Sighash.sighash H tx n code k sat ty Sighash.Cache.empty).1 with
    | .ok d => .ok d
    | .err _ => if pinned then .panic "called `Result::unwrap()` on an `Err` value" else .err "ValueError"
    | .panic p => .panic p

/-- preimage wrappers: `sig_hash_preimage(_checksig_index)(..)` on a fresh cache -/
def pySigHashPreimage (pinned : Bool) (H : Bytes → Bytes) (t : PyTx) (n : Nat) (code : Bytes) (k : Nat)
    (sat : Int) (ty : UInt8) : Outcome Bytes :=
  match asTx pinned t with
  | .err _ => .err "ValueError"
  | .panic p => .panic p
  | .ok tx =>
    match (Sighash.preimage H tx n code k sat ty Sighash.Cache.empty).1 with
    | .ok d => .ok d
    | .err _ => if pinned then .panic "called `Result::unwrap()` on an `Err` value" else .err "ValueError"
    | .panic p => .panic p

/-! ### wallet key import -/

def knownNetworks : List String :=
  ["BSV_Mainnet", "BSV_Testnet", "BSV_STN", "BTC_Mainnet", "BTC_Testnet", "BCH_Mainnet", "BCH_Testnet"]

/-- `Wallet.from_bytes(network, key_bytes)` (and `from_hexstr` after `hex::decode`): unknown network
    and a length other than 32 are `ValueError`; `SigningKey::from_bytes` rejects zero and values
    ≥ n (`validKey`): pinned `.expect("Invalid private key")`, repaired `?`.  Returns the key. -/
def walletFromBytes (pinned : Bool) (validKey : Bytes → Bool) (network : String) (key : Bytes) :
    Outcome Bytes :=
  if ¬ knownNetworks.contains network then .err "ValueError"
  else if key.length ≠ 32 then .err "ValueError"
  else if validKey key then .ok key
  else if pinned then .panic "Invalid private key" else .err "ValueError"

/-- big-endian magnitude bytes, minimal (`BigInt::to_bytes_be().1`, `[0]` for zero) -/
def magBE (n : Nat) : Bytes := (magBytes n).reverse

/-- `Wallet.from_int(network, int)`: the magnitude of the integer (the sign is dropped), more than
    32 bytes is `ValueError`, left-padded to 32 bytes, then as `from_bytes` -/
def walletFromInt (pinned : Bool) (validKey : Bytes → Bool) (network : String) (v : Int) : Outcome Bytes :=
  if ¬ knownNetworks.contains network then .err "ValueError"
  else
    let m := magBE v.natAbs
    if m.length > 32 then .err "ValueError"
    else
      let key := List.replicate (32 - m.length) 0 ++ m
      if validKey key then .ok key
      else if pinned then .panic "Invalid private key" else .err "ValueError"

/-! ### stack numbers -/

/-- `decode_number_combined` (behind `Stack.decode_element`): the ≤ 4-byte arms are `decode_num`'s,
    longer items are sign-magnitude big integers -/
def decodeCombined (s : Bytes) : Outcome Int :=
  if s.length ≤ 4 then decodeNum s else .ok (decodeBig s)

/-! ### `Script.append_integer`, `Script.append_big_integer`, `Script.serialize`, `is_p2pkh` -/

/-- `Script.append_integer(int_val: i64)`: the bytes appended.  `-1`, `0`, `1..16` are single opcodes,
    `17..75` a one-byte push, everything else `len ‖ encode_num(v)`: pinned `encode_num(..).unwrap()`
    (panic outside ±(2^31-1)), repaired `?`. -/
def appendInteger (pinned : Bool) (v : Int) : Outcome Bytes :=
  if v < -9223372036854775808 ∨ v > 9223372036854775807 then .err "OverflowError"
  else if v = -1 then .ok [0x4f]
  else if v = 0 then .ok [0x00]
  else if 1 ≤ v ∧ v ≤ 16 then .ok [UInt8.ofNat (v.toNat + 0x50)]
  else if 17 ≤ v ∧ v ≤ 75 then .ok [1, UInt8.ofNat v.toNat]
  else
    match encodeNum v with
    | .ok b => .ok (UInt8.ofNat b.length :: b)
    | .err _ => if pinned then .panic "called `Result::unwrap()` on an `Err` value" else .err "ValueError"
    | .panic p => .panic p

/-- `Script.append_big_integer(int)`: as above with `encode_bigint`; the length byte is a `u8`:
    pinned `try_into().unwrap()` (panic above 255 bytes), repaired `?` -/
def appendBigInteger (pinned : Bool) (v : Int) : Outcome Bytes :=
  if v = -1 then .ok [0x4f]
  else if v = 0 then .ok [0x00]
  else if 1 ≤ v ∧ v ≤ 16 then .ok [UInt8.ofNat (v.toNat + 0x50)]
  else if 17 ≤ v ∧ v ≤ 75 then .ok [1, UInt8.ofNat v.toNat]
  else
    let b := encodeBig v
    if b.length > 255 then (if pinned then .panic "called `Result::unwrap()` on an `Err` value" else .err "ValueError")
    else .ok (UInt8.ofNat b.length :: b)

/-- `Script.serialize()`: var_int length prefix -/
def scriptSerialize (cmds : Bytes) : Bytes := varInt cmds.length ++ cmds

/-- `Script.is_p2pkh()` -/
def isP2pkh (cmds : Bytes) : Bool :=
  cmds.length == 25 && cmds.getD 0 0 == 0x76 && cmds.getD 1 0 == 0xa9 && cmds.getD 23 0 == 0x88 && cmds.getD 24 0 == 0xac

/-- `Tx::coinbase` -/
def isCoinbase (tx : Tx) : Bool :=
  match tx.inputs with
  | [i] => i.prevOutput.hash == List.replicate 32 0 && i.prevOutput.index == 0xffffffff
  | _ => false

end CG.Model.PyGlue

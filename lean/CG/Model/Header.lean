import CG.Base.Bytes
/-!
Model of `src/messages/block_header.rs` (`hash`, `validate`, `difficulty_target`) and of
`Hash256`'s `Ord` (`src/util/hash256.rs`), one function at a time.
-/
namespace CG.Model.Header
open CG

structure BlockHeader where
  version : Nat
  prevHash : Bytes
  merkleRoot : Bytes
  timestamp : Nat
  bits : Nat
  nonce : Nat
deriving Repr

/-- `BlockHeader::write` / the buffer built inside `BlockHeader::hash`. -/
def serialize (h : BlockHeader) : Bytes :=
  natToLEn 4 h.version ++ h.prevHash ++ h.merkleRoot ++
    natToLEn 4 h.timestamp ++ natToLEn 4 h.bits ++ natToLEn 4 h.nonce

/-- `BlockHeader::hash` with the double hash as a parameter. -/
def hash (sha256d : Bytes → Bytes) (h : BlockHeader) : Bytes := sha256d (serialize h)

/-- `Hash256::cmp`: `for i in (0..32).rev()` compare byte `i`; first difference decides.
    On lists: compare the reversed lists lexicographically. -/
def cmpFromTop : Bytes → Bytes → Ordering
  | [], _ => .eq
  | _, [] => .eq
  | a :: as, b :: bs =>
    if a.toNat > b.toNat then .gt else if a.toNat < b.toNat then .lt else cmpFromTop as bs

def hashCmp (a b : Bytes) : Ordering := cmpFromTop a.reverse b.reverse

/-- `difficulty_target`: `exp = bits >> 24`; outside `3..=32` → `BadArgument`; otherwise three
    mantissa bytes stored at `exp-1, exp-2, exp-3` of a zeroed 32-byte array. -/
def difficultyTarget (bits : Nat) : Outcome Bytes :=
  let exp := bits / 2 ^ 24
  if 3 ≤ exp ∧ exp ≤ 32 then
    let d : Bytes := List.replicate 32 0
    -- the three index expressions `exp-1`, `exp-2`, `exp-3` cannot underflow and are < 32 here
    let d := d.set (exp - 1) (UInt8.ofNat (bits / 2 ^ 16 % 256))
    let d := d.set (exp - 2) (UInt8.ofNat (bits / 2 ^ 8 % 256))
    let d := d.set (exp - 3) (UInt8.ofNat (bits % 256))
    .ok d
  else .err "BadArgument"

/-- the timestamps inspected by `validate`: those of the last `min(len, 11)` headers, sorted. -/
def window (prev : List Nat) : List Nat :=
  (prev.drop (prev.length - min prev.length 11)).mergeSort (fun a b => decide (a ≤ b))

/-- `BlockHeader::validate`.  `strictMedian = true` is the repaired comparison
    (`timestamp <= median` rejects); `false` is the comparison of the pinned tree
    (`timestamp < median` rejects).  The harness tells which one the current tree uses
    only through behaviour: the model used for the theorems is `strictMedian := true`. -/
def validateWith (strictMedian : Bool) (timestamp bits : Nat) (hash : Bytes) (prev : List Nat) :
    Outcome Unit :=
  let tsCheck : Outcome Unit :=
    if prev.isEmpty then .ok ()
    else
      let w := window prev
      match w[w.length / 2]? with
      | none => .panic "timestamps[len/2]"
      | some med =>
        if (if strictMedian then timestamp ≤ med else timestamp < med) then .err "BadData" else .ok ()
  match tsCheck with
  | .ok () =>
    match difficultyTarget bits with
    | .ok target => if hashCmp hash target = .gt then .err "BadData" else .ok ()
    | .err e => .err e
    | .panic s => .panic s
  | .err e => .err e
  | .panic s => .panic s

def validate := validateWith true

end CG.Model.Header

import CG.Base.Bytes
/-!
Model of `src/script/stack.rs`: `decode_bool`, `decode_num`, `encode_num`, `decode_bigint`,
`encode_bigint`, `pop_bool`, `pop_num`, `pop_bigint`.  `num-bigint`'s `BigInt` is `Int`
(`to_bytes_le` = minimal little-endian magnitude, `[0]` for zero; `from_bytes_le` = `leToNat`).
Byte bit-operations sit behind `setSign`/`clearSign`/`signSet` with `toNat` lemmas.
-/
namespace CG.Model.ScriptNum
open CG

def clearSign (b : UInt8) : UInt8 := b &&& 0x7f
def setSign (b : UInt8) : UInt8 := b ||| 0x80
def signSet (b : UInt8) : Bool := b &&& 0x80 != 0

theorem clearSign_toNat_fin : ∀ i : Fin 256, (clearSign (UInt8.ofNat i.val)).toNat = i.val % 128 := by
  decide +kernel
theorem clearSign_toNat (b : UInt8) : (clearSign b).toNat = b.toNat % 128 := by
  have := clearSign_toNat_fin ⟨b.toNat, b.toNat_lt⟩; simpa using this
theorem setSign_toNat_fin : ∀ i : Fin 256, i.val < 128 → (setSign (UInt8.ofNat i.val)).toNat = i.val + 128 := by
  decide +kernel
theorem setSign_toNat (b : UInt8) (h : b.toNat < 128) : (setSign b).toNat = b.toNat + 128 := by
  have := setSign_toNat_fin ⟨b.toNat, b.toNat_lt⟩ h; simpa using this
theorem signSet_iff_fin : ∀ i : Fin 256, signSet (UInt8.ofNat i.val) = decide (128 ≤ i.val) := by
  decide +kernel
theorem signSet_iff (b : UInt8) : signSet b = decide (128 ≤ b.toNat) := by
  have := signSet_iff_fin ⟨b.toNat, b.toNat_lt⟩; simpa using this

/-- `decode_bool`: false for empty; true if any byte but the last is non-zero; else last & 127 ≠ 0 -/
def decodeBool (s : Bytes) : Bool :=
  match s.getLast? with
  | none => false
  | some last => s.dropLast.any (· != 0) || (clearSign last != 0)

/-- `BigInt::to_bytes_le().1`: minimal magnitude digits, `[0]` for zero -/
def magBytes (n : Nat) : Bytes := if n = 0 then [0] else natToLE n

/-- `encode_bigint` -/
def encodeBig (z : Int) : Bytes :=
  let m := magBytes z.natAbs
  -- `result.1[result.1.len() - 1]`: `to_bytes_le` never returns an empty vector
  let last := m.getLast?.getD 0
  let r :=
    if last.toNat ≥ 128 then m ++ [if z < 0 then (0x80 : UInt8) else 0x00]
    else if z < 0 then m.dropLast ++ [setSign last] else m
  if r = [0] then [] else r

/-- `decode_bigint` -/
def decodeBig (s : Bytes) : Int :=
  match s.getLast? with
  | none => 0
  | some last =>
    let mag := leToNat (s.dropLast ++ [clearSign last])
    if signSet last then - (mag : Int) else (mag : Int)

/-- `decode_num` (any length; the ≤ 4-byte arms are the shift-and-mask formulas, which equal the
    little-endian value with the sign bit cleared). -/
def decodeNum (s : Bytes) : Outcome Int :=
  match s.getLast? with
  | none => .ok 0
  | some last =>
    if s.length ≤ 4 then
      let mag := leToNat (s.dropLast ++ [clearSign last])
      .ok (if signSet last then - (mag : Int) else (mag : Int))
    else
      -- bytes 4 .. len-2 must be zero and the last byte may only carry the sign
      if ((s.dropLast).drop 4).any (· != 0) then .err "ScriptError"
      else if clearSign last != 0 then .err "ScriptError"
      else
        let mag := leToNat (s.take 4)
        .ok (if signSet last then - (mag : Int) else (mag : Int))

/-- `encode_num` -/
def encodeNum (v : Int) : Outcome Bytes :=
  if v < -2147483647 ∨ v > 2147483647 then .err "ScriptError"
  else
    let p := v.natAbs
    let neg : Nat := if v < 0 then 128 else 0
    if p = 0 then .ok []
    else if p < 128 then .ok [UInt8.ofNat (p + neg)]
    else if p < 32768 then .ok [UInt8.ofNat (p % 256), UInt8.ofNat (p / 256 + neg)]
    else if p < 8388608 then .ok [UInt8.ofNat (p % 256), UInt8.ofNat (p / 256 % 256), UInt8.ofNat (p / 65536 + neg)]
    else .ok [UInt8.ofNat (p % 256), UInt8.ofNat (p / 256 % 256), UInt8.ofNat (p / 65536 % 256),
              UInt8.ofNat (p / 16777216 + neg)]

/-- an encoding is minimal when it is empty or its last byte is needed: not `00`/`80` unless the
    byte before it has its top bit set -/
def Minimal (s : Bytes) : Prop :=
  match s.getLast? with
  | none => True
  | some last =>
    (clearSign last).toNat ≠ 0 ∨ (∃ p, s.dropLast.getLast? = some p ∧ p.toNat ≥ 128)

end CG.Model.ScriptNum

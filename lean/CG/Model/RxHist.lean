/-!
C13 — vocabulary shared by the model of `util::rx` (`CG.Model.Rx`) and its specification
(`CG.Spec.EventSpec`): observers and the events of an execution history.

A history is the global, chronological list of the *visible* events of a run.  Subscription and
publication events carry ghost identifiers (`c` = which `subscribe` call, `p` = which `next` call) so
that "exactly once" can be stated per subscription; the identifiers are not observable on the real
code and are dropped when a history is printed for the correspondence.
-/
namespace CG.Model.Rx

abbrev Tid := Nat

/-- An observer: one of the user's observers (index into the observer table of the program), or the
    private `Poller` created by the `k`-th operation of thread `t` (`Observable::poll`). -/
inductive Ob where
  | user (i : Nat)
  | poller (t : Tid) (k : Nat)
deriving DecidableEq, Repr, Hashable

/-- Events of a history.  "Began" is the first lock operation of the call, "returned"/"ended" the last:
    the strongest reading of *"subscription returned before the publication began"*. -/
inductive HEv where
  /-- `subscribe(o)` call `c` by thread `t` performed its first lock operation -/
  | subBegin (t : Tid) (o : Ob) (c : Nat)
  /-- `subscribe(o)` call `c` returned -/
  | subRet (t : Tid) (o : Ob) (c : Nat)
  /-- publication `p` of event `e` (`next(&e)`) by thread `t` performed its first lock operation -/
  | pubBegin (t : Tid) (e p : Nat)
  /-- publication `p` returned -/
  | pubEnd (t : Tid) (e p : Nat)
  /-- thread `t` called the callback of `o` with event `e`, on behalf of subscription `c`, publication `p` -/
  | deliver (t : Tid) (o : Ob) (c e p : Nat)
  /-- the owner's reference to user observer `o` was dropped by thread `t` -/
  | dropO (t : Tid) (o : Nat)
  /-- `subscribe` of an observer that no longer exists: nothing happens -/
  | noop (t : Tid)
  /-- `poll()` number `k` of thread `t` performed its first lock operation -/
  | pollBegin (t : Tid) (k : Nat)
  /-- `poll()` number `k` of thread `t` returned event `e` -/
  | pollRet (t : Tid) (k e : Nat)
deriving DecidableEq, Repr

abbrev Hist := List HEv

end CG.Model.Rx

import CG.Model.Peer
/-!
Interleaving model of the CONNECTED phase of a peer (`src/peer/peer.rs`): the receive thread of
`connect_internal` against any number of local threads calling `Peer::send` and `Peer::disconnect`,
at the granularity of the shared accesses — the `connected: AtomicBool` (load / swap), the
`tcp_writer` mutex (one critical section = one step), `TcpStream::shutdown`, and the single-shot
`disconnected_event` (`Single`: the first `next` calls the observers, later ones do nothing —
C13's theorems).  `CG.Model.Peer` is the sequential event model in which one event is one atomic
step; this file is what that model linearises (the part `CG.Props.C12` called "partial").

Receive thread, one loop iteration (peer.rs:286-330):

    read        Message::read / read_partial returns          (blocking)
    test        if !connected.load() { return }                (peer.rs:295)
    handle      handle_message(&message)                       (ping: Peer::send(pong))
    publish     messages.next(..)                              -> `deliver m`
    on error    disconnect(); return

`disconnect()` (peer.rs:194-209) is three steps: `connected.swap(false)`; taking the `tcp_writer`
mutex and `shutdown(Both)`; `disconnected_event.next(..)` — still holding the mutex, whose guard lives to
the end of the function — and releasing it.  While one thread is between the last two steps every
other critical section on `tcp_writer` (a `send`, another `disconnect()`) waits.

`Peer::send` (peer.rs:161-191) is two steps: the flag load, then the critical section
(`message.write` + `flush`); an I/O error there calls `disconnect()` and is returned.  A write on a
socket that has been shut down fails; `Message::write` of an unserialisable message fails before
any byte is written.
-/
namespace CG.Model.PeerConc
open CG CG.Model.Peer

/-- what the next blocking read of the receive thread returns -/
inductive RemoteEv where
  | frame (m : Msg)
  /-- end of stream or a non-timeout error (bad magic / checksum / length / payload) -/
  | fail
deriving DecidableEq, Repr

/-- where the receive thread is -/
inductive RPc where
  /-- blocked in `Message::read` -/
  | read
  /-- the read returned `ev`; next: `connected.load()` (peer.rs:295) -/
  | test (ev : RemoteEv)
  /-- the flag was set; next: `handle_message` -/
  | handle (m : Msg)
  /-- next: `messages.next(..)` -/
  | publish (m : Msg)
  /-- inside `disconnect()`: `k = 0` before the swap, `1` before the shutdown, `2` before the event -/
  | disc (k : Nat)
  /-- the thread has returned -/
  | dead
deriving DecidableEq, Repr

inductive LOp where
  | send (m : Msg)
  | disconnect
deriving DecidableEq, Repr

/-- where a local thread is inside its current call -/
inductive LPc where
  | idle
  /-- `Peer::send`: the flag load returned true; next: the critical section on `tcp_writer` -/
  | write (m : Msg)
  /-- inside `disconnect()` (step `k` as for the receive thread); `ret` = the pending result of the
      `send` that called it (`none` for a direct `disconnect()` call) -/
  | disc (k : Nat) (ret : Option SendErr)
deriving DecidableEq, Repr

structure LThread where
  pc : LPc
  ops : List LOp
deriving DecidableEq, Repr

structure St where
  /-- `connected: AtomicBool` -/
  flag : Bool
  /-- the socket has been shut down (reads return, writes fail) -/
  shut : Bool
  /-- the thread holding the `tcp_writer` mutex across steps (only inside `disconnect()`); `0` = receive thread -/
  wlock : Option Nat
  /-- `disconnected_event: Single` holds its value -/
  discFired : Bool
  /-- what the remote still delivers, in order -/
  remote : List RemoteEv
  r : RPc
  locals : List LThread
  /-- the global output log (a monotone history) -/
  out : List Output
deriving DecidableEq, Repr

/-- the state right after the handshake: flag set, connected event published -/
def init (remote : List RemoteEv) (progs : List (List LOp)) : St :=
  { flag := true, shut := false, wlock := none, discFired := false, remote := remote, r := .read,
    locals := progs.map (fun p => ⟨.idle, p⟩), out := [] }

/-- effect of step `k` of a `disconnect()` in progress by thread `tid`: the new shared fields and whether
    the call has finished -/
def discEff (s : St) (tid : Nat) (k : Nat) : St × Bool :=
  match k with
  | 0 => ({ s with flag := false }, false)
  | 1 => ({ s with shut := true, wlock := some tid }, false)
  | _ => ({ s with discFired := true, wlock := none,
                   out := if s.discFired then s.out else s.out ++ [.emitDisconnected] }, true)

/-- one step of a `disconnect()` in progress; `none` = the thread waits for the `tcp_writer` mutex -/
def discStep (s : St) (tid : Nat) (k : Nat) : Option (St × Bool) :=
  if k = 1 ∧ s.wlock.isSome then none else some (discEff s tid k)

/-- the critical section of `Peer::send`: `true` = written -/
def canWrite (s : St) (writable : Bool) : Bool := writable && !s.shut

/-- one step of the receive thread; `none` = blocked (in `read` with nothing to read) or returned -/
def stepR (s : St) : Option St :=
  match s.r with
  | .read =>
    match s.remote with
    | ev :: rest => some { s with remote := rest, r := .test ev }
    | [] => if s.shut then some { s with r := .test .fail } else none
  | .test ev =>
    if !s.flag then some { s with r := .dead }
    else match ev with
      | .frame m => some { s with r := .handle m }
      | .fail => some { s with r := .disc 0 }
  | .handle m =>
    match m.kind with
    | .ping n =>
      -- Peer::send(pong): flag load, then the critical section (taken together: the receive
      -- thread's own pong is the only write it performs)
      if s.wlock.isSome then none
      else if s.flag && canWrite s true then some { s with r := .publish m, out := s.out ++ [.wrote (.pong n)] }
      else some { s with r := .disc 0 }
    | _ => some { s with r := .publish m }
  | .publish m => some { s with r := .read, out := s.out ++ [.deliver m] }
  | .disc k =>
    match discStep s 0 k with
    | none => none
    | some (s', fin) => some { s' with r := if fin then .dead else .disc (k + 1) }
  | .dead => none

/-- one step of local thread `tid`; `none` = it has finished its program or waits for the mutex -/
def stepL (s : St) (tid : Nat) (t : LThread) : Option (St × LThread) :=
  match t.pc with
  | .idle =>
    match t.ops with
    | [] => none
    | .disconnect :: rest => some (s, ⟨.disc 0 none, rest⟩)
    | .send m :: rest =>
      if !s.flag then some ({ s with out := s.out ++ [.sendResult (some .illegalState)] }, ⟨.idle, rest⟩)
      else some (s, ⟨.write m, rest⟩)
  | .write m =>
    if s.wlock.isSome then none
    else if canWrite s m.writable then
      some ({ s with out := s.out ++ [.wrote (.msg m), .sendResult none] }, ⟨.idle, t.ops⟩)
    else some (s, ⟨.disc 0 (some .io), t.ops⟩)
  | .disc k ret =>
    match discStep s tid k with
    | none => none
    | some (s', fin) =>
      if fin then
        match ret with
        | some e => some ({ s' with out := s'.out ++ [.sendResult (some e)] }, ⟨.idle, t.ops⟩)
        | none => some (s', ⟨.idle, t.ops⟩)
      else some (s', ⟨.disc (k + 1) ret, t.ops⟩)

/-- thread `0` is the receive thread, thread `i + 1` is local thread `i` -/
def step (s : St) (tid : Nat) : Option St :=
  match tid with
  | 0 => stepR s
  | i + 1 =>
    match s.locals[i]? with
    | none => none
    | some t =>
      match stepL s (i + 1) t with
      | none => none
      | some (s', t') => some { s' with locals := s'.locals.set i t' }

/-- run a schedule; a step of a thread that cannot move is skipped -/
def run (s : St) : List Nat → St
  | [] => s
  | tid :: rest =>
    match step s tid with
    | some s' => run s' rest
    | none => run s rest

/-! ### Observations on a log -/

/-- the outputs after the first `emitDisconnected` (empty if there is none) -/
def afterDisc : List Output → List Output
  | [] => []
  | .emitDisconnected :: rest => rest
  | _ :: rest => afterDisc rest

def countDisc (os : List Output) : Nat := (os.filter (· == .emitDisconnected)).length

/-- deliveries logged after the disconnected event -/
def late (os : List Output) : Nat := (delivered (afterDisc os)).length

def frames (evs : List RemoteEv) : List Msg :=
  evs.filterMap fun | .frame m => some m | .fail => none

/-- the message the receive thread holds and may still deliver -/
def pending : RPc → List Msg
  | .test (.frame m) | .handle m | .publish m => [m]
  | _ => []

/-- the receive thread is past its flag test with a message in hand -/
def inflight : RPc → Nat
  | .handle _ | .publish _ => 1
  | _ => 0

def hasDisconnectOp (s : St) : Bool :=
  s.locals.any fun t => t.ops.any (· == .disconnect) || (match t.pc with | .disc _ none => true | _ => false)


/-- a local operation that cannot make the local thread call `disconnect()` on a healthy socket -/
def quietOp : LOp → Bool
  | .send m => m.writable
  | .disconnect => false

def quietThread (t : LThread) : Bool :=
  t.ops.all quietOp &&
  (match t.pc with
   | .disc _ none => false
   | .write m => m.writable
   | _ => true)

/-- no local thread calls `Peer::disconnect`, and every message handed to `Peer::send` is serialisable:
    the only way a local thread can then enter `disconnect()` is a failed write on a socket that
    someone else has already shut down -/
def Quiet (s : St) : Prop := ∀ t ∈ s.locals, quietThread t = true

end CG.Model.PeerConc

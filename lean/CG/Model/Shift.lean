import CG.Base.Bytes
/-!
Model of `lshift` / `rshift` in `src/util/bits.rs` (used by OP_LSHIFT / OP_RSHIFT).
The Rust loops OR at most one "value" part and one "carry" part into each result byte; the model
states that per result index (same masks, same shifts, `(8 - bit_shift) % 8` for the carry).
-/
namespace CG.Model.Shift
open CG

def LSHIFT_MASK : List UInt8 := [0xff, 0x7f, 0x3f, 0x1f, 0x0f, 0x07, 0x03, 0x01]
def RSHIFT_MASK : List UInt8 := [0xff, 0xfe, 0xfc, 0xf8, 0xf0, 0xe0, 0xc0, 0x80]

def byteAt (v : Bytes) (i : Nat) : UInt8 := v.getD i 0

/-- `lshift(v, n)` -/
def lshift (v : Bytes) (n : Nat) : Bytes :=
  let s := n % 8
  let b := n / 8
  let mask := LSHIFT_MASK.getD s 0
  let omask := ~~~ mask
  (List.range v.length).map fun j =>
    let valPart : UInt8 := if j + b < v.length then ((byteAt v (j + b)) &&& mask) <<< (UInt8.ofNat s) else 0
    let carry : UInt8 :=
      if j + b + 1 < v.length then ((byteAt v (j + b + 1)) &&& omask) >>> (UInt8.ofNat ((8 - s) % 8)) else 0
    valPart ||| carry

/-- `rshift(v, n)` -/
def rshift (v : Bytes) (n : Nat) : Bytes :=
  let s := n % 8
  let b := n / 8
  let mask := RSHIFT_MASK.getD s 0
  let omask := ~~~ mask
  (List.range v.length).map fun j =>
    let valPart : UInt8 := if b ≤ j then ((byteAt v (j - b)) &&& mask) >>> (UInt8.ofNat s) else 0
    let carry : UInt8 :=
      if b + 1 ≤ j then ((byteAt v (j - b - 1)) &&& omask) <<< (UInt8.ofNat ((8 - s) % 8)) else 0
    valPart ||| carry

@[simp] theorem lshift_length (v : Bytes) (n : Nat) : (lshift v n).length = v.length := by
  simp [lshift]
@[simp] theorem rshift_length (v : Bytes) (n : Nat) : (rshift v n).length = v.length := by
  simp [rshift]

end CG.Model.Shift

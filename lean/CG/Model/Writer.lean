import CG.Base.Bytes
/-!
Model of the *destination side* of serialisation (`std::io::Write`) and of how chain-gang's
serialisers drive it.

* `Dest` — a destination that accepts a scripted number of bytes per `write` call, as a socket or a
  pipe may: `sched` holds one entry per call; an entry `k ≥ 1` is the largest number of bytes that
  call accepts, an entry `0` makes that call return `Err(ErrorKind::Interrupted)` and accept nothing.
  When the schedule is exhausted the destination behaves according to `tail`: it accepts everything
  (`accept`, the default: a memory buffer is `sched = []`, `tail = accept`), fails every further call
  with a hard error (`fail`, a closed socket: `BrokenPipe`), or returns `Ok(0)` (`zero`, a sink that
  is full for good).
* `Dest.write` — ONE raw `Write::write` call; returns the count the call reports.
* `writeAll` — `std::io::Write::write_all`, the loop of the standard library:
  ```
  while !buf.is_empty() {
      match self.write(buf) {
          Ok(0) => return Err(WriteZero),
          Ok(n) => buf = &buf[n..],
          Err(ref e) if e.is_interrupted() => {}
          Err(e) => return Err(e),
      }
  }
  Ok(())
  ```
  (byteorder's `write_u8/u16/u32/u64/i32/i64` are `write_all` of the encoded integer).
* `WOp` — one write *operation* of a serialiser: `all b` is `writer.write_all(b)`, `raw b` is a bare
  `writer.write(b)` whose returned count is thrown away (`match writer.write(..) { Ok(_size) => Ok(()),
  Err(e) => Err(e) }`), the defect pattern.  A serialiser applied to a value is the list of its
  operations, run in order with `?` after each (`runOps`).
-/
namespace CG.Model.Writer
open CG

/-- what the destination does once its schedule is used up -/
inductive Tail where
  | accept   -- accepts every request in full (memory buffer / drained socket)
  | fail     -- every further call: `Err(BrokenPipe)`
  | zero     -- every further call: `Ok(0)`
deriving Repr, DecidableEq, Inhabited

/-- result of one raw `write` call -/
inductive WRes where
  | ok (n : Nat)          -- `Ok(n)`: the first `n` bytes of the request were accepted
  | interrupted           -- `Err(e)` with `e.kind() == Interrupted`
  | fail (kind : String)  -- any other `Err(e)`
deriving Repr, DecidableEq, Inhabited

structure Dest where
  sched : List Nat := []
  tail : Tail := .accept
  /-- bytes the destination has accepted so far, in order -/
  buf : Bytes := []
  /-- instrumentation only: requested length of every raw call so far, most recent first -/
  log : List Nat := []
deriving Repr, DecidableEq, Inhabited

/-- one raw `Write::write(buf)` call -/
def Dest.write (d : Dest) (b : Bytes) : WRes × Dest :=
  let lg := b.length :: d.log
  match d.sched with
  | [] =>
    match d.tail with
    | .accept => (.ok b.length, { d with buf := d.buf ++ b, log := lg })
    | .fail => (.fail "IoBrokenPipe", { d with log := lg })
    | .zero => (.ok 0, { d with log := lg })
  | 0 :: s => (.interrupted, { d with sched := s, log := lg })
  | (k + 1) :: s =>
    let n := min (k + 1) b.length
    (.ok n, { d with sched := s, buf := d.buf ++ b.take n, log := lg })

/-- `write_all` with explicit fuel (one unit per loop iteration). -/
def writeAllFuel : Nat → Dest → Bytes → Outcome Unit × Dest
  | 0, d, b => if b.isEmpty then (.ok (), d) else (.panic "write_all: out of fuel", d)
  | f + 1, d, b =>
    if b.isEmpty then (.ok (), d)
    else
      match d.write b with
      | (.ok n, d') =>
        if n = 0 then (.err "IoWriteZero", d') else writeAllFuel f d' (b.drop n)
      | (.interrupted, d') => writeAllFuel f d' b
      | (.fail e, d') => (.err e, d')

/-- `Write::write_all`.  Every iteration but the last consumes one schedule entry, so
    `sched.length + 1` iterations always suffice (`CG.Proofs.Writer.writeAll_spec`: the fuel is
    never exhausted). -/
def writeAll (d : Dest) (b : Bytes) : Outcome Unit × Dest :=
  writeAllFuel (d.sched.length + 1) d b

/-- one write operation of a serialiser -/
inductive WOp where
  | all (b : Bytes)   -- `writer.write_all(b)?`
  | raw (b : Bytes)   -- `match writer.write(b) { Ok(_) => Ok(()), Err(e) => Err(e) }?`
deriving Repr, DecidableEq, Inhabited

def WOp.payload : WOp → Bytes
  | .all b => b
  | .raw b => b

def WOp.isAll : WOp → Bool
  | .all _ => true
  | .raw _ => false

def runOp (d : Dest) : WOp → Outcome Unit × Dest
  | .all b => writeAll d b
  | .raw b =>
    match d.write b with
    | (.ok _, d') => (.ok (), d')                  -- the count is ignored
    | (.interrupted, d') => (.err "IoInterrupted", d')  -- and an interrupted call is not retried
    | (.fail e, d') => (.err e, d')

/-- a serialiser = its operations in order, `?` after each -/
def runOps (d : Dest) : List WOp → Outcome Unit × Dest
  | [] => (.ok (), d)
  | op :: rest =>
    match runOp d op with
    | (.ok (), d') => runOps d' rest
    | (e, d') => (e, d')

/-- the bytes a serialiser asks to have written -/
def flatten (ops : List WOp) : Bytes := ops.flatMap WOp.payload

/-- a memory buffer (`Vec<u8>`): no schedule, accepts everything -/
def memory : Dest := {}

/-- a destination with the given schedule, nothing written yet -/
def limited (sched : List Nat) (tail : Tail := .accept) : Dest := { sched := sched, tail := tail }

/-- split a byte string into the `write_all` operations of a call trace (`lens` = requested length
    of each call as observed on an unlimited writer); used by the driver to replay a serialiser. -/
def opsOfTrace : List Nat → Bytes → List WOp
  | [], _ => []
  | n :: ns, b => .all (b.take n) :: opsOfTrace ns (b.drop n)

end CG.Model.Writer

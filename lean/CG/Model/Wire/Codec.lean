import CG.Base.Bytes
/-!
# Wire codec combinators

A `Codec α` packages the four things every Rust payload type has:
`write` (`enc`), `read` (`dec`), `size` and the in-range predicate of its field values (`wf`,
decidable).  Every `read`/`write`/`size` triple of `src/messages/*.rs` is ONE combinator expression
(see `Messages.lean`); the laws of the combinators are proved once in `CG.Proofs.WireCodec`.

Decoders work on the unread part of a `Cursor<Vec<u8>>`: `dec b = .ok (a, r)` means the value `a`
was read and `r` is what the cursor has not consumed.  Error classes are the `ChainGangError`
variant names: `"IoError"` (short read, `UnexpectedEof`), `"BadData"`, `"Utf8Error"`.

Cursor fact used by the `if let Ok(..) = read…` sites: `Cursor::read_exact` that fails leaves the
cursor at END OF INPUT (std ≥ 1.80), so a swallowed short read is followed by an empty rest.

Allocation patterns of the Rust code each have their own named combinator so that C06 can
re-interpret them with allocation logging:
* `vecBytes n` … `vec![0; n]` + `read_exact` (via `varBytes`, `u8Bytes`, `assocDec`, `policyOpt`,
  Authch, Reject);  `bytesN n` … fixed `[u8; n]` / `Hash256` / 6-byte short ids
* `listCap` … `Vec::with_capacity(n)` + push loop;  `listPush` … `Vec::new()` + push loop;
  `listMax` … count checked against a limit first;  `listTry` … `if let Ok(n) = var_int::read`
  (all four decode with `decN`, one element per iteration).

Laws (`CG.Proofs.WireCodec`): `Lawful c` — `dec (enc a ++ r) = ok (a, r)` for `wf a`,
`(enc a).length = size a`, `dec b = ok (a, r) → wf a`, `dec b = ok (a, r) → ∃ p, b = p ++ r`;
`LawfulEnd c` — the same with `r = []` only, for codecs whose last field is optional
(`assocOpt`, `policyOpt`).  Every combinator has a `…_lawful` lemma, so the lawfulness proof of a
message codec is the same expression as its definition with `_lawful` appended.
-/
namespace CG.Model.Wire
open CG

/-! ## Outcome plumbing -/

@[simp] theorem bind_ok {α β} (a : α) (f : α → Outcome β) : (Outcome.ok a).bind f = f a := rfl
@[simp] theorem bind_err {α β} (e : String) (f : α → Outcome β) :
    (Outcome.err e : Outcome α).bind f = .err e := rfl
@[simp] theorem bind_panic {α β} (e : String) (f : α → Outcome β) :
    (Outcome.panic e : Outcome α).bind f = .panic e := rfl

theorem bind_eq_ok {α β} {o : Outcome α} {f : α → Outcome β} {x : β} :
    o.bind f = .ok x ↔ ∃ a, o = .ok a ∧ f a = .ok x := by
  cases o <;> simp [Outcome.bind]

/-! ## single-pass `takeExact` for the compiled driver

`CG.takeExact` measures the whole rest of the input on every call (`n ≤ b.length`), which is
quadratic on long lists; the compiled code uses this equal single-pass form instead. -/

def takeExactGo : Nat → Bytes → Bytes → Option (Bytes × Bytes)
  | 0, b, acc => some (acc.reverse, b)
  | _ + 1, [], _ => none
  | n + 1, x :: b, acc => takeExactGo n b (x :: acc)

def takeExactFast (n : Nat) (b : Bytes) : Option (Bytes × Bytes) := takeExactGo n b []

theorem takeExactGo_eq (n : Nat) (b acc : Bytes) :
    takeExactGo n b acc = if n ≤ b.length then some (acc.reverse ++ b.take n, b.drop n) else none := by
  induction n generalizing b acc with
  | zero => simp [takeExactGo]
  | succ n ih =>
    cases b with
    | nil => simp [takeExactGo]
    | cons x b =>
      simp only [takeExactGo, ih, List.length_cons, Nat.add_le_add_iff_right, List.reverse_cons,
        List.take_succ_cons, List.drop_succ_cons, List.append_assoc, List.singleton_append]

@[csimp] theorem takeExact_eq_fast : @takeExact = @takeExactFast := by
  funext n b
  simp [takeExactFast, takeExactGo_eq, takeExact]

/-! ## The structure -/

structure Codec (α : Type) where
  /-- `write` -/
  enc : α → Bytes
  /-- `read` on the unread part of the cursor -/
  dec : Bytes → Outcome (α × Bytes)
  /-- `size()` -/
  size : α → Nat
  /-- the value is in wire range (what `write` can represent without truncation / panic) -/
  wf : α → Prop
  wfDec : DecidablePred wf

instance {α} (c : Codec α) (a : α) : Decidable (c.wf a) := c.wfDec a

/-- `p` on `some`, `False` on `none` -/
def optWf {α} (p : α → Prop) : Option α → Prop
  | some a => p a
  | none => False

instance {α} (p : α → Prop) [DecidablePred p] : DecidablePred (optWf p)
  | some a => inferInstanceAs (Decidable (p a))
  | none => inferInstanceAs (Decidable False)

/-! ## Integers -/

/-- `n`-byte little-endian unsigned integer (`read_u8`, `read_u16::<LittleEndian>` …). -/
def uLE (n : Nat) : Codec Nat where
  enc x := natToLEn n x
  dec b := match takeExact n b with
    | some (x, r) => .ok (leToNat x, r)
    | none => .err "IoError"
  size _ := n
  wf x := x < 256 ^ n
  wfDec _ := inferInstanceAs (Decidable (_ < _))

def u8 := uLE 1
def u16 := uLE 2
def u32 := uLE 4
def u64 := uLE 8

/-- `n`-byte big-endian unsigned integer (`read_u16::<BigEndian>` for ports). -/
def uBE (n : Nat) : Codec Nat where
  enc x := (natToLEn n x).reverse
  dec b := match takeExact n b with
    | some (x, r) => .ok (leToNat x.reverse, r)
    | none => .err "IoError"
  size _ := n
  wf x := x < 256 ^ n
  wfDec _ := inferInstanceAs (Decidable (_ < _))

def u16be := uBE 2

/-- two's complement: unsigned `u` below modulus `M` as a signed value -/
def toSigned (M u : Nat) : Int := if 2 * u < M then (u : Int) else (u : Int) - (M : Int)
/-- two's complement: signed value as its residue modulo `M` -/
def ofSigned (M : Nat) (x : Int) : Nat := (x % (M : Int)).toNat

/-- `n`-byte little-endian two's-complement integer (`read_i32`, `read_i64`). -/
def iLE (n : Nat) : Codec Int where
  enc x := natToLEn n (ofSigned (256 ^ n) x)
  dec b := ((uLE n).dec b).bind fun p => .ok (toSigned (256 ^ n) p.1, p.2)
  size _ := n
  wf x := -((256 ^ n : Nat) : Int) ≤ 2 * x ∧ 2 * x < ((256 ^ n : Nat) : Int)
  wfDec _ := inferInstanceAs (Decidable (_ ∧ _))

def i32 := iLE 4
def i64 := iLE 8

/-- a `bool` written as `u8::from(b)` and read as `read_u8()? == 0x01` (Version.relay). -/
def boolByte : Codec Bool where
  enc b := [if b then 1 else 0]
  dec b := (u8.dec b).bind fun p => .ok (p.1 == 1, p.2)
  size _ := 1
  wf _ := True
  wfDec _ := inferInstanceAs (Decidable True)

/-- `util::var_int`: `write`, `read` (accepts non-minimal encodings), `size`. -/
def varint : Codec Nat where
  enc n :=
    if n ≤ 252 then natToLEn 1 n
    else if n ≤ 0xffff then 0xfd :: natToLEn 2 n
    else if n ≤ 0xffffffff then 0xfe :: natToLEn 4 n
    else 0xff :: natToLEn 8 n
  dec b := (u8.dec b).bind fun p =>
    if p.1 = 0xff then u64.dec p.2
    else if p.1 = 0xfe then u32.dec p.2
    else if p.1 = 0xfd then u16.dec p.2
    else .ok (p.1, p.2)
  size n := if n ≤ 252 then 1 else if n ≤ 0xffff then 3 else if n ≤ 0xffffffff then 5 else 9
  wf n := n < 2 ^ 64
  wfDec _ := inferInstanceAs (Decidable (_ < _))

/-! ## Bytes -/

/-- exactly `n` raw bytes: `[u8; n]` / `vec![0; n]` followed by `read_exact`. -/
def bytesN (n : Nat) : Codec Bytes where
  enc a := a
  dec b := match takeExact n b with
    | some (x, r) => .ok (x, r)
    | none => .err "IoError"
  size _ := n
  wf a := a.length = n
  wfDec _ := inferInstanceAs (Decidable (_ = _))

/-- `vec![0; n]` + `read_exact` into a `Vec<u8>` field (allocation site for C06); `size()` of such
    a field is its `len()`. -/
def vecBytes (n : Nat) : Codec Bytes := { bytesN n with size := fun a => a.length }

/-- the ignored per-header transaction-count byte of `headers`: written as `0`, read with
    `let _ = reader.read_u8();` (any value, and its absence at end of input, are accepted). -/
def skipByte : Codec Unit where
  enc _ := [0]
  dec b := match b with
    | [] => .ok ((), [])
    | _ :: r => .ok ((), r)
  size _ := 1
  wf _ := True
  wfDec _ := inferInstanceAs (Decidable True)

/-! ## Sequencing -/

/-- dependent pair: the codec of the second component may depend on the first value
    (length prefixes, `if version > 1`, `if message == "block"` …). -/
def dpair {α β} (ca : Codec α) (cb : α → Codec β) : Codec (α × β) where
  enc p := ca.enc p.1 ++ (cb p.1).enc p.2
  dec b := (ca.dec b).bind fun x => ((cb x.1).dec x.2).bind fun y => .ok ((x.1, y.1), y.2)
  size p := ca.size p.1 + (cb p.1).size p.2
  wf p := ca.wf p.1 ∧ (cb p.1).wf p.2
  wfDec p := @instDecidableAnd _ _ (ca.wfDec p.1) ((cb p.1).wfDec p.2)

def pair {α β} (ca : Codec α) (cb : Codec β) : Codec (α × β) := dpair ca (fun _ => cb)

scoped infixr:60 " ⊗ " => pair

/-- change of representation along `f : α → β` with partial inverse `g` (structure ↔ tuple,
    `Message` variant ↔ payload, dropping a redundant length). -/
def inj {α β} (c : Codec α) (f : α → β) (g : β → Option α) (dflt : α) : Codec β where
  enc b := c.enc ((g b).getD dflt)
  dec x := (c.dec x).bind fun p => .ok (f p.1, p.2)
  size b := c.size ((g b).getD dflt)
  wf b := optWf c.wf (g b)
  wfDec b := inferInstanceAs (Decidable (optWf c.wf (g b)))

/-- total change of representation -/
def iso {α β} (c : Codec α) (f : α → β) (g : β → α) : Codec β where
  enc b := c.enc (g b)
  dec x := (c.dec x).bind fun p => .ok (f p.1, p.2)
  size b := c.size (g b)
  wf b := c.wf (g b)
  wfDec b := c.wfDec (g b)

/-- decode, then reject with error class `e` unless `p` holds (`validate()`, `from_utf8`,
    `count > MAX`). -/
def refine {α} (c : Codec α) (p : α → Bool) (e : String) : Codec α where
  enc := c.enc
  dec b := (c.dec b).bind fun x => if p x.1 then .ok x else .err e
  size := c.size
  wf a := c.wf a ∧ p a = true
  wfDec a := @instDecidableAnd _ _ (c.wfDec a) (inferInstanceAs (Decidable (_ = _)))

/-- decode, then run a `validate()` that may return an error (or panic); its verdict is returned
    in place of the value unless it is `Ok(())`. -/
def validated {α} (c : Codec α) (v : α → Outcome Unit) : Codec α where
  enc := c.enc
  dec b := (c.dec b).bind fun x => (v x.1).bind fun _ => .ok x
  size := c.size
  wf a := c.wf a ∧ v a = .ok ()
  wfDec a := @instDecidableAnd _ _ (c.wfDec a) (inferInstanceAs (Decidable (_ = _)))

/-- read with `c` (propagating its errors), then fail with `e`; nothing is ever written. -/
def failAfter {α β} (c : Codec α) (e : String) : Codec β where
  enc _ := []
  dec b := (c.dec b).bind fun _ => .err e
  size _ := 0
  wf _ := False
  wfDec _ := inferInstanceAs (Decidable False)

/-- a field whose value is determined (`k`); any other value read is error `e`. -/
def constC (c : Codec Nat) (k : Nat) (e : String) : Codec Unit where
  enc _ := c.enc k
  dec b := (c.dec b).bind fun p => if p.1 = k then .ok ((), p.2) else .err e
  size _ := c.size k
  wf _ := c.wf k
  wfDec _ := c.wfDec k

/-- `Option` field whose presence is decided by an earlier field. -/
def optionC {α} (present : Bool) (c : Codec α) (dflt : α) : Codec (Option α) :=
  if present then inj c some id dflt
  else
    { enc := fun _ => [], dec := fun b => .ok (none, b), size := fun _ => 0,
      wf := fun o => o = none,
      wfDec := fun o => match o with
        | none => isTrue rfl
        | some _ => isFalse (by simp) }

/-! ## Repetition -/

/-- `for _ in 0..n { v.push(T::read(reader)?) }` -/
def decN {α} (c : Codec α) : Nat → Bytes → Outcome (List α × Bytes)
  | 0, b => .ok ([], b)
  | n + 1, b =>
    match c.dec b with
    | .ok (a, r) =>
      match decN c n r with
      | .ok (as, r') => .ok (a :: as, r')
      | .err e => .err e
      | .panic s => .panic s
    | .err e => .err e
    | .panic s => .panic s

/-- tail-recursive form used by the compiled driver (65 536-element lists) -/
def decNTR {α} (c : Codec α) : Nat → Bytes → List α → Outcome (List α × Bytes)
  | 0, b, acc => .ok (acc.reverse, b)
  | n + 1, b, acc =>
    match c.dec b with
    | .ok (a, r) => decNTR c n r (a :: acc)
    | .err e => .err e
    | .panic s => .panic s

def decNFast {α} (c : Codec α) (n : Nat) (b : Bytes) : Outcome (List α × Bytes) := decNTR c n b []

theorem decNTR_eq {α} (c : Codec α) (n : Nat) (b : Bytes) (acc : List α) :
    decNTR c n b acc = (decN c n b).bind fun p => .ok (acc.reverse ++ p.1, p.2) := by
  induction n generalizing b acc with
  | zero => simp [decNTR, decN]
  | succ n ih =>
    simp only [decNTR, decN]
    cases h : c.dec b with
    | ok p =>
      obtain ⟨a, r⟩ := p
      simp only [ih]
      cases decN c n r with
      | ok q => simp
      | err e => simp
      | panic s => simp
    | err e => simp
    | panic s => simp

@[csimp] theorem decN_eq_decNFast : @decN = @decNFast := by
  funext α c n b
  simp only [decNFast, decNTR_eq]
  cases decN c n b <;> simp

/-- exactly `n` elements -/
def repeatN {α} (c : Codec α) (n : Nat) : Codec (List α) where
  enc l := (l.map c.enc).flatten
  dec b := decN c n b
  size l := (l.map c.size).sum
  wf l := l.length = n ∧ ∀ a ∈ l, c.wf a
  wfDec l := @instDecidableAnd _ _ (inferInstanceAs (Decidable (_ = _)))
    (@List.decidableBAll _ _ (fun a => c.wfDec a) l)

/-- a length/count field `cl` followed by a body that depends on it; the value keeps only the
    body (`len` recovers the count when writing). -/
def lenPrefixed {β} (cl : Codec Nat) (body : Nat → Codec β) (len : β → Nat) (dflt : β) : Codec β :=
  inj (dpair cl body) (fun p => p.2) (fun b => some (len b, b)) (0, dflt)

/-- varint length + bytes (`Script`, filter data, flags …): `vec![0; n]` + `read_exact`. -/
def varBytes : Codec Bytes := lenPrefixed varint vecBytes List.length []

/-- u8 length + bytes -/
def u8Bytes : Codec Bytes := lenPrefixed u8 vecBytes List.length []

/-- varint count + elements, vector built with `Vec::new()` + `push` -/
def listPush {α} (c : Codec α) : Codec (List α) := lenPrefixed varint (repeatN c) List.length []

/-- varint count + elements, vector built with `Vec::with_capacity(count)` (allocation site) -/
def listCap {α} (c : Codec α) : Codec (List α) := listPush c

/-- varint count checked against `max` BEFORE any element is read (`Addr`, `Inv`) -/
def listMax {α} (max : Nat) (c : Codec α) : Codec (List α) :=
  lenPrefixed (refine varint (fun n => decide (n ≤ max)) "BadData") (repeatN c) List.length []

/-- `if let Ok(n) = var_int::read(reader) { for _ in 0..n { push(T::read(reader)?) } }`
    (Blocktxn, Cmpctblock, Getblocktxn): a count that cannot be read is swallowed and leaves the
    cursor at end of input; the writer always writes the count. -/
def listTry {α} (c : Codec α) : Codec (List α) where
  enc l := varint.enc l.length ++ (l.map c.enc).flatten
  dec b := match varint.dec b with
    | .ok (n, r) => decN c n r
    | _ => .ok ([], [])
  size l := varint.size l.length + (l.map c.size).sum
  wf l := l.length < 2 ^ 64 ∧ ∀ a ∈ l, c.wf a
  wfDec l := @instDecidableAnd _ _ (inferInstanceAs (Decidable (_ < _)))
    (@List.decidableBAll _ _ (fun a => c.wfDec a) l)

/-! ## UTF-8 (`String::from_utf8`) -/

/-- the bytes of an ASCII string literal (`"block"`, `"tx"`, `"Unknown"`) -/
def asciiBytes (s : String) : Bytes := s.toList.map fun c => UInt8.ofNat c.toNat


def isCont (b : UInt8) : Bool := 0x80 ≤ b && b ≤ 0xBF

/-- well-formed UTF-8 (Unicode table 3-7), what `core::str::from_utf8` accepts; `fuel` bounds the
    number of scalar values (each consumes at least one byte) -/
def validUtf8Go : Nat → Bytes → Bool
  | _, [] => true
  | 0, _ :: _ => false
  | fuel + 1, b0 :: r =>
    if b0 < 0x80 then validUtf8Go fuel r
    else if b0 < 0xC2 then false
    else if b0 ≤ 0xDF then
      match r with
      | b1 :: r => isCont b1 && validUtf8Go fuel r
      | _ => false
    else if b0 ≤ 0xEF then
      match r with
      | b1 :: b2 :: r =>
        (if b0 = 0xE0 then 0xA0 ≤ b1 && b1 ≤ 0xBF
         else if b0 = 0xED then 0x80 ≤ b1 && b1 ≤ 0x9F
         else isCont b1) && isCont b2 && validUtf8Go fuel r
      | _ => false
    else if b0 ≤ 0xF4 then
      match r with
      | b1 :: b2 :: b3 :: r =>
        (if b0 = 0xF0 then 0x90 ≤ b1 && b1 ≤ 0xBF
         else if b0 = 0xF4 then 0x80 ≤ b1 && b1 ≤ 0x8F
         else isCont b1) && isCont b2 && isCont b3 && validUtf8Go fuel r
      | _ => false
    else false

def validUtf8 (b : Bytes) : Bool := validUtf8Go b.length b

/-- varint length + bytes + `String::from_utf8(..)?` (strings are modelled as their UTF-8 bytes) -/
def varStr : Codec Bytes := refine varBytes validUtf8 "Utf8Error"

/-! ## Irregular trailing fields -/

/-- the read side shared by Version / Createstrm / Streamack:
    `if let Ok(n) = reader.read_u8() { if n > 0 { id = vec![0; n]; read_exact(id)? } }` -/
def assocDec (b : Bytes) : Outcome (Bytes × Bytes) :=
  match u8.dec b with
  | .ok (n, r) => if n > 0 then (vecBytes n).dec r else .ok ([], r)
  | _ => .ok ([], [])

/-- Createstrm/Streamack association id: length byte always written
    (`len().try_into().unwrap()` panics above 255 — outside `wf`). -/
def assocAlways : Codec Bytes where
  enc a := natToLEn 1 a.length ++ a
  dec := assocDec
  size a := 1 + a.length
  wf a := a.length < 256
  wfDec _ := inferInstanceAs (Decidable (_ < _))

/-- Version association id: written only when non-empty; END-OF-PAYLOAD codec
    (an absent id is only recognisable because nothing follows). -/
def assocOpt : Codec Bytes where
  enc a := if a.isEmpty then [] else natToLEn 1 a.length ++ a
  dec := assocDec
  size a := if a.isEmpty then 0 else a.length + 1
  wf a := a.length < 256
  wfDec _ := inferInstanceAs (Decidable (_ < _))

/-- Createstrm stream policy: written only when non-empty, read with
    `if let Ok(n) = var_int::read(reader) { vec![0; n]; read_exact?; from_utf8? }`;
    END-OF-PAYLOAD codec. -/
def policyOpt : Codec Bytes where
  enc a := if a.isEmpty then [] else varint.enc a.length ++ a
  dec b := match varint.dec b with
    | .ok (n, r) => ((vecBytes n).dec r).bind fun x => if validUtf8 x.1 then .ok x else .err "Utf8Error"
    | _ => .ok ([], [])
  size a := if a.isEmpty then 0 else varint.size a.length + a.length
  wf a := a.length < 2 ^ 64 ∧ validUtf8 a = true
  wfDec _ := inferInstanceAs (Decidable (_ ∧ _))

end CG.Model.Wire

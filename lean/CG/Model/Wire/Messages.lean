import CG.Model.Wire.Codec
import CG.Model.Wire.Types
import CG.Generated.Tables
/-!
One codec per payload type of `src/messages/*.rs`: each Rust `read`/`write`/`size` triple is one
combinator expression over right-nested tuples, moved onto the structure by `iso`.
The order of the fields is the order of the reads (and so the order in which errors can arise).
-/
namespace CG.Model.Wire
open CG

/-- `MAX_ADDR_COUNT` (private constant of `addr.rs`) -/
def MAX_ADDR_COUNT : Nat := 1000
/-- `SHORT_TX_ID_LEN` -/
def SHORT_TX_ID_LEN : Nat := 6
/-- `protoconf::MIN_MAX_RECV_PAYLOAD_LENGTH` -/
def MIN_MAX_RECV_PAYLOAD_LENGTH : Nat := 1048576
/-- `authch::SUPPORTED_VERSION` -/
def AUTHCH_SUPPORTED_VERSION : Int := 1
def I64_MAX : Int := 9223372036854775807

/-- `Hash256::read/write` -/
def hash32 : Codec Bytes := bytesN 32

/-! ### transactions -/

def outPointC : Codec OutPoint :=
  iso (hash32 ⊗ u32) (fun p => ⟨p.1, p.2⟩) (fun o => (o.hash, o.index))

def txInC : Codec TxIn :=
  iso (outPointC ⊗ varBytes ⊗ u32) (fun p => ⟨p.1, p.2.1, p.2.2⟩)
    (fun t => (t.prevOutput, t.unlockScript, t.sequence))

def txOutC : Codec TxOut :=
  iso (i64 ⊗ varBytes) (fun p => ⟨p.1, p.2⟩) (fun t => (t.satoshis, t.lockScript))

/-- `Tx::read` reads the version with `read_i32` and casts `as u32`: the same four bytes, the same
    value as an unsigned read. -/
def txC : Codec Tx :=
  iso (u32 ⊗ listCap txInC ⊗ listCap txOutC ⊗ u32) (fun p => ⟨p.1, p.2.1, p.2.2.1, p.2.2.2⟩)
    (fun t => (t.version, t.inputs, t.outputs, t.lockTime))

/-! ### block header, inventory, locator -/

def blockHeaderC : Codec BlockHeader :=
  iso (u32 ⊗ hash32 ⊗ hash32 ⊗ u32 ⊗ u32 ⊗ u32)
    (fun p => ⟨p.1, p.2.1, p.2.2.1, p.2.2.2.1, p.2.2.2.2.1, p.2.2.2.2.2⟩)
    (fun h => (h.version, h.prevHash, h.merkleRoot, h.timestamp, h.bits, h.nonce))

def invVectC : Codec InvVect :=
  iso (u32 ⊗ hash32) (fun p => ⟨p.1, p.2⟩) (fun v => (v.objType, v.hash))

/-- `Inv::read`: count checked against `MAX_INV_ENTRIES` before the vector is allocated -/
def invC : Codec Inv :=
  iso (listMax Generated.MAX_INV_ENTRIES invVectC) (fun l => ⟨l⟩) (fun i => i.objects)

def blockLocatorC : Codec BlockLocator :=
  iso (u32 ⊗ listPush hash32 ⊗ hash32) (fun p => ⟨p.1, p.2.1, p.2.2⟩)
    (fun l => (l.version, l.blockLocatorHashes, l.hashStop))

/-! ### small fixed-size payloads -/

def pingC : Codec Ping := iso u64 (fun n => ⟨n⟩) (fun p => p.nonce)
def feeFilterC : Codec FeeFilter := iso u64 (fun n => ⟨n⟩) (fun p => p.minfee)
def sendCmpctC : Codec SendCmpct := iso (u8 ⊗ u64) (fun p => ⟨p.1, p.2⟩) (fun s => (s.enable, s.version))

/-! ### addresses, version -/

def nodeAddrC : Codec NodeAddr :=
  iso (u64 ⊗ bytesN 16 ⊗ u16be) (fun p => ⟨p.1, p.2.1, p.2.2⟩) (fun a => (a.services, a.ip, a.port))

def nodeAddrExC : Codec NodeAddrEx :=
  iso (u32 ⊗ nodeAddrC) (fun p => ⟨p.1, p.2⟩) (fun a => (a.lastConnectedTime, a.addr))

/-- `Version::read/write/size`; the association id is an end-of-payload field. -/
def versionC : Codec Version :=
  iso (u32 ⊗ u64 ⊗ i64 ⊗ nodeAddrC ⊗ nodeAddrC ⊗ u64 ⊗ varStr ⊗ i32 ⊗ boolByte ⊗ assocOpt)
    (fun p => ⟨p.1, p.2.1, p.2.2.1, p.2.2.2.1, p.2.2.2.2.1, p.2.2.2.2.2.1, p.2.2.2.2.2.2.1,
      p.2.2.2.2.2.2.2.1, p.2.2.2.2.2.2.2.2.1, p.2.2.2.2.2.2.2.2.2⟩)
    (fun v => (v.version, v.services, v.timestamp, v.recvAddr, v.txAddr, v.nonce, v.userAgent,
      v.startHeight, v.relay, v.associationId))

def addrC : Codec Addr :=
  iso (listMax MAX_ADDR_COUNT nodeAddrExC) (fun l => ⟨l⟩) (fun a => a.addrs)

/-! ### headers, block, merkleblock -/

/-- `Headers`: every header is followed by an ignored transaction-count byte -/
def headersC : Codec Headers :=
  iso (listPush (blockHeaderC ⊗ skipByte)) (fun l => ⟨l.map (·.1)⟩)
    (fun h => h.headers.map (fun x => (x, ())))

def blockC : Codec Block :=
  iso (blockHeaderC ⊗ listCap txC) (fun p => ⟨p.1, p.2⟩) (fun b => (b.header, b.txns))

def merkleBlockC : Codec MerkleBlock :=
  iso (blockHeaderC ⊗ u32 ⊗ listCap hash32 ⊗ varBytes) (fun p => ⟨p.1, p.2.1, p.2.2.1, p.2.2.2⟩)
    (fun m => (m.header, m.totalTransactions, m.hashes, m.flags))

/-! ### bloom filter messages -/

def filterLoadC : Codec FilterLoad :=
  iso (varBytes ⊗ u32 ⊗ u32 ⊗ u8) (fun p => ⟨p.1, p.2.1, p.2.2.1, p.2.2.2⟩)
    (fun f => (f.filter, f.numHashFuncs, f.tweak, f.flags))

def filterAddC : Codec FilterAdd := iso varBytes (fun d => ⟨d⟩) (fun f => f.data)

/-! ### reject, protoconf, authch, streams -/

def isBlockOrTx (m : Bytes) : Bool := m == asciiBytes "block" || m == asciiBytes "tx"

/-- `Reject`: the 32 data bytes are present exactly when the message is "block" or "tx" -/
def rejectC : Codec Reject :=
  iso (dpair varStr fun m => u8 ⊗ varStr ⊗ vecBytes (if isBlockOrTx m then 32 else 0))
    (fun p => ⟨p.1, p.2.1, p.2.2.1, p.2.2.2⟩) (fun r => (r.message, r.code, r.reason, r.data))

/-- `Protoconf`: stream policies are present exactly when `version > 1` -/
def protoconfC : Codec Protoconf :=
  iso (dpair varint fun v => u32 ⊗ optionC (decide (v > 1)) varStr [])
    (fun p => ⟨p.1, p.2.1, p.2.2⟩) (fun c => (c.version, c.maxRecvPayloadLength, c.streamPolicies))

/-- `Authch`: explicit u32 length then that many bytes (`vec![0; message_length]`) -/
def authchC : Codec Authch :=
  iso (i32 ⊗ dpair u32 vecBytes) (fun p => ⟨p.1, p.2.1, p.2.2⟩)
    (fun a => (a.version, a.messageLength, a.message))

/-- `Createstrm`: the stream policy is an end-of-payload field -/
def createstrmC : Codec Createstrm :=
  iso (assocAlways ⊗ u8 ⊗ policyOpt) (fun p => ⟨p.1, p.2.1, p.2.2⟩)
    (fun c => (c.associationId, c.streamType, c.streamPolicy))

def streamackC : Codec Streamack :=
  iso (assocAlways ⊗ u8) (fun p => ⟨p.1, p.2⟩) (fun c => (c.associationId, c.streamType))

/-! ### compact blocks -/

def prefilledC : Codec PrefilledTx :=
  iso (varint ⊗ txC) (fun p => ⟨p.1, p.2⟩) (fun t => (t.index, t.tx))

def cmpctblockC : Codec Cmpctblock :=
  iso (blockHeaderC ⊗ u64 ⊗ listTry (bytesN SHORT_TX_ID_LEN) ⊗ listTry prefilledC)
    (fun p => ⟨p.1, p.2.1, p.2.2.1, p.2.2.2⟩)
    (fun c => (c.header, c.nonce, c.shortids, c.prefilledtxn))

def getblocktxnC : Codec Getblocktxn :=
  iso (hash32 ⊗ listTry varint) (fun p => ⟨p.1, p.2⟩) (fun g => (g.blockhash, g.indexes))

def blocktxnC : Codec Blocktxn :=
  iso (hash32 ⊗ listTry txC) (fun p => ⟨p.1, p.2⟩) (fun g => (g.blockhash, g.transactions))

/-! ### addrv2 (BIP-155) -/

/-- address length of each BIP-155 network id -/
def bip155Len : Nat → Nat
  | 1 => 4 | 2 => 16 | 3 => 10 | 4 => 32 | 5 => 32 | 6 => 16 | _ => 0

/-- `Bip155::read`: id, varint length, `check_network_and_length`, then the address bytes.
    An id outside 1..=6 is `BadData` — after the length has been read. -/
def bip155C : Codec (Nat × Bytes) :=
  dpair u8 fun id =>
    if 1 ≤ id ∧ id ≤ 6 then
      inj (constC varint (bip155Len id) "BadData" ⊗ bytesN (bip155Len id)) (fun p => p.2)
        (fun a => some ((), a)) ((), [])
    else failAfter varint "BadData"

def nodeAddrExV2C : Codec NodeAddrExV2 :=
  iso (u32 ⊗ varint ⊗ bip155C ⊗ u16be) (fun p => ⟨p.1, p.2.1, p.2.2.1.1, p.2.2.1.2, p.2.2.2⟩)
    (fun a => (a.lastConnectedTime, a.services, (a.networkId, a.addr), a.port))

def addrV2C : Codec AddrV2 :=
  iso (listMax MAX_ADDR_COUNT nodeAddrExV2C) (fun l => ⟨l⟩) (fun a => a.addrs)

/-! ### `validate()` functions called by `Message::read_partial` -/

def badData : Outcome Unit := .err "BadData"

def filterAddValidate (f : FilterAdd) : Outcome Unit :=
  if f.data.length > Generated.C05_MAX_FILTER_ADD_DATA_SIZE then badData else .ok ()

def filterLoadValidate (f : FilterLoad) : Outcome Unit :=
  if f.filter.length > Generated.BLOOM_FILTER_MAX_FILTER_SIZE then badData
  else if f.numHashFuncs > Generated.BLOOM_FILTER_MAX_HASH_FUNCS then badData
  else .ok ()

def versionValidate (v : Version) : Outcome Unit :=
  if v.version < Generated.C05_MIN_SUPPORTED_PROTOCOL_VERSION then badData else .ok ()

def protoconfValidate (p : Protoconf) : Outcome Unit :=
  if ¬ (p.version = 1 ∨ p.version = 2) then badData
  else if p.maxRecvPayloadLength < MIN_MAX_RECV_PAYLOAD_LENGTH then badData
  else .ok ()

def authchValidate (a : Authch) : Outcome Unit :=
  if a.version ≠ AUTHCH_SUPPORTED_VERSION then badData else .ok ()

def streamValidate (streamType : Nat) (assoc : Bytes) : Outcome Unit :=
  if streamType < Generated.C05_MIN_SUPPORTED_STREAM_TYPE ∨
     streamType > Generated.C05_MAX_SUPPORTED_STREAM_TYPE then badData
  else if assoc.isEmpty then badData
  else .ok ()

def createstrmValidate (c : Createstrm) : Outcome Unit := streamValidate c.streamType c.associationId
def streamackValidate (c : Streamack) : Outcome Unit := streamValidate c.streamType c.associationId

/-- the output loop of `PrefilledTransaction::validate`: every amount must lie in
    `0 ..= MAX_SATOSHIS` and so must the running total, both checked inside the loop — so the `i64`
    addition never overflows (both operands are at most `MAX_SATOSHIS`). -/
def sumOutputs : List TxOut → Int → Outcome Int
  | [], acc => .ok acc
  | o :: os, acc =>
    if o.satoshis < 0 then .err "BadData"
    else if o.satoshis > (Generated.MAX_SATOSHIS : Int) then .err "BadData"
    else if acc + o.satoshis > I64_MAX then .panic "cmpctblock.rs:total_out += tx_out.satoshis"
    else if acc + o.satoshis > (Generated.MAX_SATOSHIS : Int) then .err "BadData"
    else sumOutputs os (acc + o.satoshis)

def prefilledValidate (p : PrefilledTx) : Outcome Unit :=
  if p.tx.inputs.isEmpty then badData
  else if p.tx.outputs.isEmpty then badData
  else (sumOutputs p.tx.outputs 0).bind fun _ => .ok ()

def allValidate {α} (v : α → Outcome Unit) : List α → Outcome Unit
  | [] => .ok ()
  | a :: as => (v a).bind fun _ => allValidate v as

def cmpctblockValidate (c : Cmpctblock) : Outcome Unit := allValidate prefilledValidate c.prefilledtxn

end CG.Model.Wire

import CG.Model.Wire.Messages
/-!
`MessageHeader` (`message_header.rs`) and `Message::read` / `read_partial` / `write` /
`write_with_payload` / `write_without_payload` (`message.rs`), with the double hash `H ∘ H`
(`Sha256::digest` twice) as a parameter `H`.

The if-chain of `read_partial` is the list `table` searched front to back; the per-kind body is the
payload codec followed by the `validate()` call the chain makes for that kind.
-/
namespace CG.Model.Wire
open CG

def ofNats (l : List Nat) : Bytes := l.map UInt8.ofNat

/-- `MessageHeader::read/write` -/
def messageHeaderC : Codec MessageHeader :=
  iso (bytesN 4 ⊗ bytesN 12 ⊗ u32 ⊗ bytesN 4) (fun p => ⟨p.1, p.2.1, p.2.2.1, p.2.2.2⟩)
    (fun h => (h.magic, h.command, h.payloadSize, h.checksum))

def HEADER_SIZE : Nat := Generated.C05_MESSAGE_HEADER_SIZE
def NO_CHECKSUM : Bytes := ofNats Generated.C05_NO_CHECKSUM
def MAX_PAYLOAD_SIZE : Nat := Generated.MAX_PAYLOAD_SIZE

/-- one arm of the `read_partial` if-chain -/
structure Entry where
  cmd : Bytes
  /-- `none`: a command without payload (`payload_size != 0` is `BadData`, the payload is not read) -/
  body : Option (Codec Msg)
  /-- the message returned by a payload-less arm (unused — `.getAddr` — when there is a body) -/
  unit : Msg

/-- lift a payload codec to `Message`, with the arm's `validate()` -/
def arm {α} (c : Codec α) (v : α → Outcome Unit) (mk : α → Msg) (un : Msg → Option α) (d : α) :
    Codec Msg := inj (validated c v) mk un d

def noValidate {α} (_ : α) : Outcome Unit := .ok ()

def unAddr : Msg → Option Addr
  | .addr p => some p
  | _ => none
def aAddr : Codec Msg := arm addrC noValidate .addr unAddr default
def eAddr : Entry := ⟨ofNats Generated.C05_CMD_ADDR, some aAddr, .getAddr⟩
def unAddrV2 : Msg → Option AddrV2
  | .addrV2 p => some p
  | _ => none
def aAddrV2 : Codec Msg := arm addrV2C noValidate .addrV2 unAddrV2 default
def eAddrV2 : Entry := ⟨ofNats Generated.C05_CMD_ADDRV2, some aAddrV2, .getAddr⟩
def unBlock : Msg → Option Block
  | .block p => some p
  | _ => none
def aBlock : Codec Msg := arm blockC noValidate .block unBlock default
def eBlock : Entry := ⟨ofNats Generated.C05_CMD_BLOCK, some aBlock, .getAddr⟩
def unFeeFilter : Msg → Option FeeFilter
  | .feeFilter p => some p
  | _ => none
def aFeeFilter : Codec Msg := arm feeFilterC noValidate .feeFilter unFeeFilter default
def eFeeFilter : Entry := ⟨ofNats Generated.C05_CMD_FEEFILTER, some aFeeFilter, .getAddr⟩
def unFilterAdd : Msg → Option FilterAdd
  | .filterAdd p => some p
  | _ => none
def aFilterAdd : Codec Msg := arm filterAddC filterAddValidate .filterAdd unFilterAdd default
def eFilterAdd : Entry := ⟨ofNats Generated.C05_CMD_FILTERADD, some aFilterAdd, .getAddr⟩
def eFilterClear : Entry := ⟨ofNats Generated.C05_CMD_FILTERCLEAR, none, .filterClear⟩
def unFilterLoad : Msg → Option FilterLoad
  | .filterLoad p => some p
  | _ => none
def aFilterLoad : Codec Msg := arm filterLoadC filterLoadValidate .filterLoad unFilterLoad default
def eFilterLoad : Entry := ⟨ofNats Generated.C05_CMD_FILTERLOAD, some aFilterLoad, .getAddr⟩
def eGetAddr : Entry := ⟨ofNats Generated.C05_CMD_GETADDR, none, .getAddr⟩
def unGetBlocks : Msg → Option BlockLocator
  | .getBlocks p => some p
  | _ => none
def aGetBlocks : Codec Msg := arm blockLocatorC noValidate .getBlocks unGetBlocks default
def eGetBlocks : Entry := ⟨ofNats Generated.C05_CMD_GETBLOCKS, some aGetBlocks, .getAddr⟩
def unGetData : Msg → Option Inv
  | .getData p => some p
  | _ => none
def aGetData : Codec Msg := arm invC noValidate .getData unGetData default
def eGetData : Entry := ⟨ofNats Generated.C05_CMD_GETDATA, some aGetData, .getAddr⟩
def unGetHeaders : Msg → Option BlockLocator
  | .getHeaders p => some p
  | _ => none
def aGetHeaders : Codec Msg := arm blockLocatorC noValidate .getHeaders unGetHeaders default
def eGetHeaders : Entry := ⟨ofNats Generated.C05_CMD_GETHEADERS, some aGetHeaders, .getAddr⟩
def unHeaders : Msg → Option Headers
  | .headers p => some p
  | _ => none
def aHeaders : Codec Msg := arm headersC noValidate .headers unHeaders default
def eHeaders : Entry := ⟨ofNats Generated.C05_CMD_HEADERS, some aHeaders, .getAddr⟩
def unInv : Msg → Option Inv
  | .inv p => some p
  | _ => none
def aInv : Codec Msg := arm invC noValidate .inv unInv default
def eInv : Entry := ⟨ofNats Generated.C05_CMD_INV, some aInv, .getAddr⟩
def eMempool : Entry := ⟨ofNats Generated.C05_CMD_MEMPOOL, none, .mempool⟩
def unMerkleBlock : Msg → Option MerkleBlock
  | .merkleBlock p => some p
  | _ => none
def aMerkleBlock : Codec Msg := arm merkleBlockC noValidate .merkleBlock unMerkleBlock default
def eMerkleBlock : Entry := ⟨ofNats Generated.C05_CMD_MERKLEBLOCK, some aMerkleBlock, .getAddr⟩
def unNotFound : Msg → Option Inv
  | .notFound p => some p
  | _ => none
def aNotFound : Codec Msg := arm invC noValidate .notFound unNotFound default
def eNotFound : Entry := ⟨ofNats Generated.C05_CMD_NOTFOUND, some aNotFound, .getAddr⟩
def unPing : Msg → Option Ping
  | .ping p => some p
  | _ => none
def aPing : Codec Msg := arm pingC noValidate .ping unPing default
def ePing : Entry := ⟨ofNats Generated.C05_CMD_PING, some aPing, .getAddr⟩
def unPong : Msg → Option Ping
  | .pong p => some p
  | _ => none
def aPong : Codec Msg := arm pingC noValidate .pong unPong default
def ePong : Entry := ⟨ofNats Generated.C05_CMD_PONG, some aPong, .getAddr⟩
def unReject : Msg → Option Reject
  | .reject p => some p
  | _ => none
def aReject : Codec Msg := arm rejectC noValidate .reject unReject default
def eReject : Entry := ⟨ofNats Generated.C05_CMD_REJECT, some aReject, .getAddr⟩
def unSendCmpct : Msg → Option SendCmpct
  | .sendCmpct p => some p
  | _ => none
def aSendCmpct : Codec Msg := arm sendCmpctC noValidate .sendCmpct unSendCmpct default
def eSendCmpct : Entry := ⟨ofNats Generated.C05_CMD_SENDCMPCT, some aSendCmpct, .getAddr⟩
def eSendHeaders : Entry := ⟨ofNats Generated.C05_CMD_SENDHEADERS, none, .sendHeaders⟩
def unTx : Msg → Option Tx
  | .tx p => some p
  | _ => none
def aTx : Codec Msg := arm txC noValidate .tx unTx default
def eTx : Entry := ⟨ofNats Generated.C05_CMD_TX, some aTx, .getAddr⟩
def unVersion : Msg → Option Version
  | .version p => some p
  | _ => none
def aVersion : Codec Msg := arm versionC versionValidate .version unVersion default
def eVersion : Entry := ⟨ofNats Generated.C05_CMD_VERSION, some aVersion, .getAddr⟩
def eVerack : Entry := ⟨ofNats Generated.C05_CMD_VERACK, none, .verack⟩
def unProtoconf : Msg → Option Protoconf
  | .protoconf p => some p
  | _ => none
def aProtoconf : Codec Msg := arm protoconfC protoconfValidate .protoconf unProtoconf default
def eProtoconf : Entry := ⟨ofNats Generated.C05_CMD_PROTOCONF, some aProtoconf, .getAddr⟩
def unAuthch : Msg → Option Authch
  | .authch p => some p
  | _ => none
def aAuthch : Codec Msg := arm authchC authchValidate .authch unAuthch default
def eAuthch : Entry := ⟨ofNats Generated.C05_CMD_AUTHCH, some aAuthch, .getAddr⟩
def unCreatestrm : Msg → Option Createstrm
  | .createstrm p => some p
  | _ => none
def aCreatestrm : Codec Msg := arm createstrmC createstrmValidate .createstrm unCreatestrm default
def eCreatestrm : Entry := ⟨ofNats Generated.C05_CMD_CREATESTRM, some aCreatestrm, .getAddr⟩
def unStreamack : Msg → Option Streamack
  | .streamack p => some p
  | _ => none
def aStreamack : Codec Msg := arm streamackC streamackValidate .streamack unStreamack default
def eStreamack : Entry := ⟨ofNats Generated.C05_CMD_STREAMACK, some aStreamack, .getAddr⟩
def unCmpctblock : Msg → Option Cmpctblock
  | .cmpctblock p => some p
  | _ => none
def aCmpctblock : Codec Msg := arm cmpctblockC cmpctblockValidate .cmpctblock unCmpctblock default
def eCmpctblock : Entry := ⟨ofNats Generated.C05_CMD_CMPCTBLOCK, some aCmpctblock, .getAddr⟩
def unGetblocktxn : Msg → Option Getblocktxn
  | .getblocktxn p => some p
  | _ => none
def aGetblocktxn : Codec Msg := arm getblocktxnC noValidate .getblocktxn unGetblocktxn default
def eGetblocktxn : Entry := ⟨ofNats Generated.C05_CMD_GETBLOCKTXN, some aGetblocktxn, .getAddr⟩
def unBlocktxn : Msg → Option Blocktxn
  | .blocktxn p => some p
  | _ => none
def aBlocktxn : Codec Msg := arm blocktxnC noValidate .blocktxn unBlocktxn default
def eBlocktxn : Entry := ⟨ofNats Generated.C05_CMD_BLOCKTXN, some aBlocktxn, .getAddr⟩
def eSendAddrV2 : Entry := ⟨ofNats Generated.C05_CMD_SENDADDRV2, none, .sendAddrV2⟩

/-- the arms of `read_partial`, in source order -/
def table : List Entry :=
  [eAddr, eAddrV2, eBlock, eFeeFilter, eFilterAdd, eFilterClear, eFilterLoad, eGetAddr, eGetBlocks,
   eGetData, eGetHeaders, eHeaders, eInv, eMempool, eMerkleBlock, eNotFound, ePing, ePong, eReject,
   eSendCmpct, eSendHeaders, eTx, eVersion, eVerack, eProtoconf, eAuthch, eCreatestrm, eStreamack,
   eCmpctblock, eGetblocktxn, eBlocktxn, eSendAddrV2]

/-- the arm `Message::write` uses for each variant (`Other` has none: `write` returns an error) -/
def entryOf : Msg → Option Entry
  | .addr _ => some eAddr | .addrV2 _ => some eAddrV2 | .block _ => some eBlock
  | .feeFilter _ => some eFeeFilter | .filterAdd _ => some eFilterAdd | .filterClear => some eFilterClear
  | .filterLoad _ => some eFilterLoad | .getAddr => some eGetAddr | .getBlocks _ => some eGetBlocks
  | .getData _ => some eGetData | .getHeaders _ => some eGetHeaders | .headers _ => some eHeaders
  | .inv _ => some eInv | .mempool => some eMempool | .merkleBlock _ => some eMerkleBlock
  | .notFound _ => some eNotFound | .other _ => none | .ping _ => some ePing | .pong _ => some ePong
  | .reject _ => some eReject | .sendHeaders => some eSendHeaders | .sendCmpct _ => some eSendCmpct
  | .tx _ => some eTx | .verack => some eVerack | .version _ => some eVersion
  | .protoconf _ => some eProtoconf | .authch _ => some eAuthch | .createstrm _ => some eCreatestrm
  | .streamack _ => some eStreamack | .cmpctblock _ => some eCmpctblock
  | .getblocktxn _ => some eGetblocktxn | .blocktxn _ => some eBlocktxn | .sendAddrV2 => some eSendAddrV2

/-- the four checksum bytes of a payload: `Sha256::digest(Sha256::digest(p))[0..4]` -/
def checksumOf (H : Bytes → Bytes) (p : Bytes) : Bytes := (H (H p)).take 4

/-- `MessageHeader::payload`: `vec![0; payload_size]`, `read_exact`, checksum comparison -/
def payload (H : Bytes → Bytes) (hdr : MessageHeader) (b : Bytes) : Outcome (Bytes × Bytes) :=
  match takeExact hdr.payloadSize b with
  | none => .err "IoError"
  | some (p, r) => if checksumOf H p = hdr.checksum then .ok (p, r) else .err "BadData"

/-- the name `Message::Other` carries: the command bytes as a string, or "Unknown" -/
def otherName (cmd : Bytes) : Bytes := if validUtf8 cmd then cmd else asciiBytes "Unknown"

/-- `Message::read_partial` -/
def readPartial (H : Bytes → Bytes) (hdr : MessageHeader) (b : Bytes) : Outcome (Msg × Bytes) :=
  match table.find? (fun e => e.cmd == hdr.command) with
  | some e =>
    match e.body with
    | none => if hdr.payloadSize ≠ 0 then .err "BadData" else .ok (e.unit, b)
    | some c => (payload H hdr b).bind fun p => (c.dec p.1).bind fun m => .ok (m.1, p.2)
  | none =>
    if hdr.payloadSize > 0 then (payload H hdr b).bind fun p => .ok (.other (otherName hdr.command), p.2)
    else .ok (.other (otherName hdr.command), b)

/-- `MessageHeader::validate(magic, MAX_PAYLOAD_SIZE)` -/
def headerValidate (hdr : MessageHeader) (magic : Bytes) : Outcome Unit :=
  if hdr.magic ≠ magic then .err "BadData"
  else if hdr.command ≠ eBlock.cmd ∧ hdr.payloadSize > MAX_PAYLOAD_SIZE then .err "BadData"
  else .ok ()

/-- `Message::read` on a byte string: 24 header bytes at once, validation, `read_partial`. -/
def readMessage (H : Bytes → Bytes) (magic : Bytes) (b : Bytes) : Outcome (Msg × Bytes) :=
  match takeExact HEADER_SIZE b with
  | none => .err "IoError"
  | some (h, r) =>
    (messageHeaderC.dec h).bind fun hd =>
      (headerValidate hd.1 magic).bind fun _ => readPartial H hd.1 r

/-- the header `write_with_payload` / `write_without_payload` build -/
def headerFor (H : Bytes → Bytes) (magic : Bytes) (e : Entry) (m : Msg) : MessageHeader :=
  match e.body with
  | none => ⟨magic, e.cmd, 0, NO_CHECKSUM⟩
  | some c => ⟨magic, e.cmd, c.size m % 2 ^ 32, checksumOf H (c.enc m)⟩

/-- `Message::write`: `none` stands for the `Err(InvalidData)` of `Other` (and `Partial`) -/
def writeMessage (H : Bytes → Bytes) (magic : Bytes) (m : Msg) : Option Bytes :=
  match entryOf m with
  | none => none
  | some e =>
    match e.body with
    | none => some (messageHeaderC.enc (headerFor H magic e m))
    | some c => some (messageHeaderC.enc (headerFor H magic e m) ++ c.enc m)

/-- in-range messages: the payload is in range for its codec (including what the `validate()` of
    its arm demands), and its size fits the header's `u32` and — except for `block` — the
    `MAX_PAYLOAD_SIZE` limit `Message::read` enforces. -/
def Msg.InRange (m : Msg) : Prop :=
  match entryOf m with
  | none => False
  | some e =>
    match e.body with
    | none => True
    | some c => c.wf m ∧ c.size m < 2 ^ 32 ∧ (e.cmd = eBlock.cmd ∨ c.size m ≤ MAX_PAYLOAD_SIZE)

end CG.Model.Wire

import CG.Base.Bytes
/-!
Value types of `src/messages/*.rs`, field for field.  Machine integers are `Nat`/`Int` (their
ranges are the `wf` predicates of the codecs), `Hash256`/`[u8; n]`/`Vec<u8>`/`Script` are `Bytes`,
`String` is its UTF-8 `Bytes`, `Ipv6Addr` its 16 octets.
-/
namespace CG.Model.Wire
open CG

structure OutPoint where
  hash : Bytes
  index : Nat
deriving Repr, DecidableEq, Inhabited

structure TxIn where
  prevOutput : OutPoint
  unlockScript : Bytes
  sequence : Nat
deriving Repr, DecidableEq, Inhabited

structure TxOut where
  satoshis : Int
  lockScript : Bytes
deriving Repr, DecidableEq, Inhabited

structure Tx where
  version : Nat
  inputs : List TxIn
  outputs : List TxOut
  lockTime : Nat
deriving Repr, DecidableEq, Inhabited

structure BlockHeader where
  version : Nat
  prevHash : Bytes
  merkleRoot : Bytes
  timestamp : Nat
  bits : Nat
  nonce : Nat
deriving Repr, DecidableEq, Inhabited

structure InvVect where
  objType : Nat
  hash : Bytes
deriving Repr, DecidableEq, Inhabited

structure Inv where
  objects : List InvVect
deriving Repr, DecidableEq, Inhabited

structure BlockLocator where
  version : Nat
  blockLocatorHashes : List Bytes
  hashStop : Bytes
deriving Repr, DecidableEq, Inhabited

structure Ping where
  nonce : Nat
deriving Repr, DecidableEq, Inhabited

structure FeeFilter where
  minfee : Nat
deriving Repr, DecidableEq, Inhabited

structure SendCmpct where
  enable : Nat
  version : Nat
deriving Repr, DecidableEq, Inhabited

structure NodeAddr where
  services : Nat
  ip : Bytes
  port : Nat
deriving Repr, DecidableEq, Inhabited

structure NodeAddrEx where
  lastConnectedTime : Nat
  addr : NodeAddr
deriving Repr, DecidableEq, Inhabited

structure Version where
  version : Nat
  services : Nat
  timestamp : Int
  recvAddr : NodeAddr
  txAddr : NodeAddr
  nonce : Nat
  userAgent : Bytes
  startHeight : Int
  relay : Bool
  associationId : Bytes
deriving Repr, DecidableEq, Inhabited

structure Addr where
  addrs : List NodeAddrEx
deriving Repr, DecidableEq, Inhabited

structure Headers where
  headers : List BlockHeader
deriving Repr, DecidableEq, Inhabited

structure Block where
  header : BlockHeader
  txns : List Tx
deriving Repr, DecidableEq, Inhabited

structure MerkleBlock where
  header : BlockHeader
  totalTransactions : Nat
  hashes : List Bytes
  flags : Bytes
deriving Repr, DecidableEq, Inhabited

/-- `FilterLoad { bloom_filter: BloomFilter { filter, num_hash_funcs, tweak }, flags }` -/
structure FilterLoad where
  filter : Bytes
  numHashFuncs : Nat
  tweak : Nat
  flags : Nat
deriving Repr, DecidableEq, Inhabited

structure FilterAdd where
  data : Bytes
deriving Repr, DecidableEq, Inhabited

structure Reject where
  message : Bytes
  code : Nat
  reason : Bytes
  data : Bytes
deriving Repr, DecidableEq, Inhabited

structure Protoconf where
  version : Nat
  maxRecvPayloadLength : Nat
  streamPolicies : Option Bytes
deriving Repr, DecidableEq, Inhabited

structure Authch where
  version : Int
  messageLength : Nat
  message : Bytes
deriving Repr, DecidableEq, Inhabited

structure Createstrm where
  associationId : Bytes
  streamType : Nat
  streamPolicy : Bytes
deriving Repr, DecidableEq, Inhabited

structure Streamack where
  associationId : Bytes
  streamType : Nat
deriving Repr, DecidableEq, Inhabited

structure PrefilledTx where
  index : Nat
  tx : Tx
deriving Repr, DecidableEq, Inhabited

structure Cmpctblock where
  header : BlockHeader
  nonce : Nat
  shortids : List Bytes
  prefilledtxn : List PrefilledTx
deriving Repr, DecidableEq, Inhabited

structure Getblocktxn where
  blockhash : Bytes
  indexes : List Nat
deriving Repr, DecidableEq, Inhabited

structure Blocktxn where
  blockhash : Bytes
  transactions : List Tx
deriving Repr, DecidableEq, Inhabited

/-- `NodeAddrExV2` with `Bip155` flattened to (network id, address bytes) -/
structure NodeAddrExV2 where
  lastConnectedTime : Nat
  services : Nat
  networkId : Nat
  addr : Bytes
  port : Nat
deriving Repr, DecidableEq, Inhabited

structure AddrV2 where
  addrs : List NodeAddrExV2
deriving Repr, DecidableEq, Inhabited

structure MessageHeader where
  magic : Bytes
  command : Bytes
  payloadSize : Nat
  checksum : Bytes
deriving Repr, DecidableEq, Inhabited

/-- `Message`, without `Partial` (only produced on a timed-out socket, never from a byte string).
    `other` carries the 12 command bytes. -/
inductive Msg where
  | addr (p : Addr)
  | addrV2 (p : AddrV2)
  | block (p : Block)
  | feeFilter (p : FeeFilter)
  | filterAdd (p : FilterAdd)
  | filterClear
  | filterLoad (p : FilterLoad)
  | getAddr
  | getBlocks (p : BlockLocator)
  | getData (p : Inv)
  | getHeaders (p : BlockLocator)
  | headers (p : Headers)
  | inv (p : Inv)
  | mempool
  | merkleBlock (p : MerkleBlock)
  | notFound (p : Inv)
  | other (cmd : Bytes)
  | ping (p : Ping)
  | pong (p : Ping)
  | reject (p : Reject)
  | sendHeaders
  | sendCmpct (p : SendCmpct)
  | tx (p : Tx)
  | verack
  | version (p : Version)
  | protoconf (p : Protoconf)
  | authch (p : Authch)
  | createstrm (p : Createstrm)
  | streamack (p : Streamack)
  | cmpctblock (p : Cmpctblock)
  | getblocktxn (p : Getblocktxn)
  | blocktxn (p : Blocktxn)
  | sendAddrV2
deriving Repr, DecidableEq, Inhabited

end CG.Model.Wire

import CG.Model.ScriptNum
import CG.Model.Shift
/-!
Model of `src/script/interpreter.rs`: `core_eval`, `eval`, `check_multisig`, `prefork`, `remove_sig`,
`check_stack_size`, `remains`, `next_op`, `skip_branch`.

* A stack is a `List Bytes` whose HEAD is the top (Rust pushes/pops at the end of a `Vec`; the
  driver reverses at the boundary).  `stack[len-1-n]` in Rust is `stack[n]` here.
* Every place where the Rust could panic (`pop().unwrap()`, indexing, slicing) is an explicit
  `Outcome.panic site`; `C07` proves they are unreachable.
* The checker is an oracle (`Checker σ`); hash functions are parameters (`Hashes`).
* All interpreter errors are `ChainGangError::ScriptError`; checker errors keep their own class.
-/
namespace CG.Model.Interp
open CG CG.Model.ScriptNum

abbrev Stack := List Bytes

structure Hashes where
  ripemd160 : Bytes → Bytes
  sha1 : Bytes → Bytes
  sha256 : Bytes → Bytes
  hash160 : Bytes → Bytes
  hash256 : Bytes → Bytes

/-- `trait Checker` as an oracle with state `σ` (the real checkers keep a cache / the harness
    checker keeps a script of outcomes and a call log). -/
structure Checker (σ : Type) where
  checkSig : σ → Bytes → Bytes → Bytes → Outcome Bool × σ      -- sig, pubkey, script
  checkLocktime : σ → Int → Outcome Bool
  checkSequence : σ → Int → Outcome Bool

inductive Op
  | pushNum (n : Int) | push (len : Nat) | pushdata1 | pushdata2 | pushdata4
  | nop | if_ | notif | else_ | endif | verify | return_
  | toalt | fromalt | ifdup | depth | drop | dup | nip | over | pick | roll | rot | swap | tuck
  | drop2 | dup2 | dup3 | over2 | rot2 | swap2
  | cat | split | size | and_ | or_ | xor_ | invert | lshift | rshift | equal | equalverify
  | add1 | sub1 | negate | abs | not_ | notequal0 | add | sub | mul | mul2 | div | div2 | mod_
  | booland | boolor | numequal | numequalverify | numnotequal | lt | gt | le | ge | min | max | within
  | num2bin | bin2num | ripemd160 | sha1 | sha256 | hash160 | hash256
  | codesep | checksig | checksigverify | checkmultisig | checkmultisigverify | cltv | csv
  | bad
deriving DecidableEq, Repr

/-- the `match script[i]` dispatch of `core_eval` (BSV byte assignments; checked against the
    constants of the current tree by `C01_opcode_table`). -/
def decodeOp (b : UInt8) : Op :=
  let n := b.toNat
  if n = 0 then .pushNum 0
  else if n ≤ 75 then .push n
  else if n = 76 then .pushdata1 else if n = 77 then .pushdata2 else if n = 78 then .pushdata4
  else if n = 79 then .pushNum (-1)
  else if 81 ≤ n ∧ n ≤ 96 then .pushNum (Int.ofNat (n - 80))
  else match n with
  | 97 => .nop | 99 => .if_ | 100 => .notif | 103 => .else_ | 104 => .endif | 105 => .verify
  | 106 => .return_ | 107 => .toalt | 108 => .fromalt | 109 => .drop2 | 110 => .dup2 | 111 => .dup3
  | 112 => .over2 | 113 => .rot2 | 114 => .swap2 | 115 => .ifdup | 116 => .depth | 117 => .drop
  | 118 => .dup | 119 => .nip | 120 => .over | 121 => .pick | 122 => .roll | 123 => .rot
  | 124 => .swap | 125 => .tuck | 126 => .cat | 127 => .split | 128 => .num2bin | 129 => .bin2num
  | 130 => .size | 131 => .invert | 132 => .and_ | 133 => .or_ | 134 => .xor_ | 135 => .equal
  | 136 => .equalverify | 139 => .add1 | 140 => .sub1 | 141 => .mul2 | 142 => .div2 | 143 => .negate
  | 144 => .abs | 145 => .not_ | 146 => .notequal0 | 147 => .add | 148 => .sub | 149 => .mul
  | 150 => .div | 151 => .mod_ | 152 => .lshift | 153 => .rshift | 154 => .booland | 155 => .boolor
  | 156 => .numequal | 157 => .numequalverify | 158 => .numnotequal | 159 => .lt | 160 => .gt
  | 161 => .le | 162 => .ge | 163 => .min | 164 => .max | 165 => .within | 166 => .ripemd160
  | 167 => .sha1 | 168 => .sha256 | 169 => .hash160 | 170 => .hash256 | 171 => .codesep
  | 172 => .checksig | 173 => .checksigverify | 174 => .checkmultisig | 175 => .checkmultisigverify
  | 176 => .nop | 177 => .cltv | 178 => .csv
  | 179 => .nop | 180 => .nop | 181 => .nop | 182 => .nop | 183 => .nop | 184 => .nop | 185 => .nop
  | _ => .bad

def byteAt (s : Bytes) (i : Nat) : Nat := (s.getD i 0).toNat

/-- `next_op` -/
def nextOp (i : Nat) (script : Bytes) : Nat :=
  if i ≥ script.length then script.length
  else
    let b := byteAt script i
    let next : Option Nat :=
      if 1 ≤ b ∧ b ≤ 75 then some (i + 1 + b)
      else if b = 76 then (if i + 2 > script.length then none else some (i + 2 + byteAt script (i + 1)))
      else if b = 77 then (if i + 3 > script.length then none
                           else some (i + 3 + byteAt script (i + 1) + byteAt script (i + 2) * 256))
      else if b = 78 then (if i + 5 > script.length then none
                           else some (i + 5 + byteAt script (i + 1) + byteAt script (i + 2) * 256
                                      + byteAt script (i + 3) * 65536 + byteAt script (i + 4) * 16777216))
      else some (i + 1)
    match next with
    | none => script.length
    | some n => if n > script.length then script.length else n

/-- `skip_branch` (the `while` loop takes fuel; `script.length + 1` always suffices). -/
def skipBranchLoop (script : Bytes) : Nat → Nat → Nat → Nat
  | 0, _, _ => script.length
  | fuel + 1, i, sub =>
    if i < script.length then
      let b := byteAt script i
      if b = 99 ∨ b = 100 then skipBranchLoop script fuel (nextOp i script) (sub + 1)
      else if b = 103 then (if sub = 0 then i else skipBranchLoop script fuel (nextOp i script) sub)
      else if b = 104 then (if sub = 0 then i else skipBranchLoop script fuel (nextOp i script) (sub - 1))
      else skipBranchLoop script fuel (nextOp i script) sub
    else script.length

def skipBranch (script : Bytes) (i : Nat) : Nat := skipBranchLoop script (script.length + 1) i 0

def scriptErr {α : Type} : Outcome α := .err "ScriptError"

/-- `check_stack_size` -/
def checkSize {α : Type} (n : Nat) (s : Stack) (k : Outcome α) : Outcome α :=
  if s.length < n then scriptErr else k

/-- `stack.pop().unwrap()` -/
def popU (s : Stack) : Outcome (Bytes × Stack) :=
  match s with
  | [] => .panic "pop().unwrap()"
  | t :: r => .ok (t, r)

/-- `pop_bool` -/
def popBool (s : Stack) : Outcome (Bool × Stack) :=
  match s with
  | [] => scriptErr
  | t :: r => if t.length > 4 then scriptErr else .ok (decodeBool t, r)

/-- `pop_num` -/
def popNum (s : Stack) : Outcome (Int × Stack) :=
  match s with
  | [] => scriptErr
  | t :: r =>
    if t.length > 4 then scriptErr
    else match decodeNum t with
      | .ok v => .ok (v, r)
      | .err e => .err e
      | .panic p => .panic p

/-- `pop_bigint` -/
def popBig (s : Stack) : Outcome (Int × Stack) :=
  match s with
  | [] => scriptErr
  | t :: r => .ok (decodeBig t, r)

def boolItem (b : Bool) : Bytes := if b then [1] else []

/-- `prefork` -/
def prefork (sig : Bytes) : Bool :=
  match sig.getLast? with
  | none => false
  | some l => l &&& 0x40 == 0

/-- `remove_sig` main loop (fuel: `script.length + 1` suffices, each turn advances `i`). -/
def removeSigLoop (sig script : Bytes) : Nat → Nat → Nat → Bytes → Bytes
  | 0, _, start, acc => acc ++ script.drop start
  | fuel + 1, i, start, acc =>
    if i + sig.length ≤ script.length then
      if (script.drop i).take sig.length = sig then
        removeSigLoop sig script fuel (i + sig.length) (i + sig.length) (acc ++ (script.drop start).take (i - start))
      else removeSigLoop sig script fuel (nextOp i script) start acc
    else acc ++ script.drop start

def removeSig (sig script : Bytes) : Bytes :=
  if sig.isEmpty then script else removeSigLoop sig script (script.length + 1) 0 0 []

/-- the script handed to `check_sig`: `script[check_index..]`, with the signature removed for
    pre-fork signatures -/
def cleaned (script : Bytes) (checkIndex : Nat) (sig : Bytes) : Bytes :=
  let sub := script.drop checkIndex
  if prefork sig then removeSig sig sub else sub

structure St (σ : Type) where
  stack : Stack
  alt : Stack
  branch : List Bool          -- head = innermost
  checkIndex : Nat
  chk : σ

/-- the signature/key matching loop of `check_multisig` (structural on the keys) -/
def msLoop {σ : Type} (C : Checker σ) (script : Bytes) : σ → List Bytes → List Bytes → Outcome Bool × σ
  | c, [], _ => (.ok true, c)
  | c, _ :: _, [] => (.ok false, c)
  | c, s :: ss, k :: ks =>
    match C.checkSig c s k script with
    | (.ok true, c') => msLoop C script c' ss ks
    | (.ok false, c') => msLoop C script c' (s :: ss) ks
    | (.err e, c') => (.err e, c')
    | (.panic p, c') => (.panic p, c')

/-- `check_multisig`; returns the verdict, the remaining stack and the checker state -/
def checkMultisig {σ : Type} (C : Checker σ) (c : σ) (stack : Stack) (sub : Bytes) :
    Outcome (Bool × Stack) × σ :=
  match popNum stack with
  | .err e => (.err e, c) | .panic p => (.panic p, c)
  | .ok (total, s1) =>
    if total < 0 then (scriptErr, c)
    else if s1.length < total.toNat then (scriptErr, c)
    else
      let keys := s1.take total.toNat
      let s2 := s1.drop total.toNat
      match popNum s2 with
      | .err e => (.err e, c) | .panic p => (.panic p, c)
      | .ok (required, s3) =>
        if required < 0 ∨ required > total then (scriptErr, c)
        else if s3.length < required.toNat then (scriptErr, c)
        else
          let sigs := s3.take required.toNat
          let s4 := s3.drop required.toNat
          if s4.length < 1 then (scriptErr, c)
          else
            let s5 := s4.drop 1
            let cl := sigs.foldl (fun acc sg => if prefork sg then removeSig sg acc else acc) sub
            match msLoop C cl c sigs keys with
            | (.ok b, c') => (.ok (b, s5), c')
            | (.err e, c') => (.err e, c')
            | (.panic p, c') => (.panic p, c')

/-- push data of length `len` found at offset `off`: `remains(off, len)?; script[off..off+len]` -/
def pushSlice {σ : Type} (script : Bytes) (off len : Nat) (st : St σ) : Outcome (Bool × St σ) :=
  if off + len > script.length then scriptErr
  else .ok (false, { st with stack := ((script.drop off).take len) :: st.stack })

def unaryBig {σ : Type} (st : St σ) (f : Int → Int) : Outcome (Bool × St σ) :=
  match popBig st.stack with
  | .ok (x, r) => .ok (false, { st with stack := encodeBig (f x) :: r })
  | .err e => .err e | .panic p => .panic p

/-- two `pop_bigint`s: `b` is popped first (top), then `a` -/
def binaryBig {σ : Type} (st : St σ) (f : Int → Int → Outcome Bytes) : Outcome (Bool × St σ) :=
  match popBig st.stack with
  | .err e => .err e | .panic p => .panic p
  | .ok (b, r1) =>
    match popBig r1 with
    | .err e => .err e | .panic p => .panic p
    | .ok (a, r2) =>
      match f a b with
      | .ok v => .ok (false, { st with stack := v :: r2 })
      | .err e => .err e | .panic p => .panic p

def bitwise {σ : Type} (st : St σ) (f : UInt8 → UInt8 → UInt8) : Outcome (Bool × St σ) :=
  checkSize 2 st.stack <|
    match popU st.stack with
    | .err e => .err e | .panic p => .panic p
    | .ok (a, r1) =>
      match popU r1 with
      | .err e => .err e | .panic p => .panic p
      | .ok (b, r2) =>
        if a.length ≠ b.length then scriptErr
        else .ok (false, { st with stack := (List.zipWith f a b) :: r2 })

def hashOp {σ : Type} (st : St σ) (h : Bytes → Bytes) : Outcome (Bool × St σ) :=
  checkSize 1 st.stack <|
    match popU st.stack with
    | .ok (v, r) => .ok (false, { st with stack := h v :: r })
    | .err e => .err e | .panic p => .panic p

/-- OP_NUM2BIN body after the operands are popped: `m` the requested size, `n` the operand -/
def num2bin (m : Int) (n : Bytes) : Outcome Bytes :=
  if m < 1 then scriptErr
  else if m < (n.length : Int) then scriptErr
  else if m > 2147483647 then scriptErr
  else
    let neg : UInt8 := match n.getLast? with | none => 0 | some l => l &&& 128
    let n' : Bytes := match n.getLast? with | none => n | some l => n.dropLast ++ [l &&& 127]
    let v := n' ++ List.replicate (m.toNat - n.length) 0
    match v with
    | [] => .panic "v[0]"
    | b0 :: rest => .ok ((b0 ||| neg) :: rest)

def sigCheck {σ : Type} (C : Checker σ) (script : Bytes) (st : St σ) (verifyOp : Bool) :
    Outcome (Bool × St σ) :=
  checkSize 2 st.stack <|
    match popU st.stack with
    | .err e => .err e | .panic p => .panic p
    | .ok (pubkey, r1) =>
      match popU r1 with
      | .err e => .err e | .panic p => .panic p
      | .ok (sig, r2) =>
        if st.checkIndex > script.length then .panic "script[check_index..]"
        else
          match C.checkSig st.chk sig pubkey (cleaned script st.checkIndex sig) with
          | (.ok b, c') =>
            if verifyOp then (if b then .ok (false, { st with stack := r2, chk := c' }) else scriptErr)
            else .ok (false, { st with stack := boolItem b :: r2, chk := c' })
          | (.err e, _) => .err e
          | (.panic p, _) => .panic p

def multisigOp {σ : Type} (C : Checker σ) (script : Bytes) (st : St σ) (verifyOp : Bool) :
    Outcome (Bool × St σ) :=
  if st.checkIndex > script.length then .panic "script[check_index..]"
  else
    match checkMultisig C st.chk st.stack (script.drop st.checkIndex) with
    | (.ok (b, s'), c') =>
      if verifyOp then (if b then .ok (false, { st with stack := s', chk := c' }) else scriptErr)
      else .ok (false, { st with stack := boolItem b :: s', chk := c' })
    | (.err e, _) => .err e
    | (.panic p, _) => .panic p

/-- one arm of the `match script[i]` in `core_eval`.  Returns `(stop, state)`; `stop = true` is the
    `break 'outer` of OP_RETURN under genesis rules. -/
def exec {σ : Type} (H : Hashes) (C : Checker σ) (pregenesis : Bool) (script : Bytes) (i : Nat)
    (op : Op) (st : St σ) : Outcome (Bool × St σ) :=
  let s := st.stack
  let cont (s' : Stack) : Outcome (Bool × St σ) := .ok (false, { st with stack := s' })
  match op with
  | .pushNum n =>
    match encodeNum n with
    | .ok v => cont (v :: s) | .err e => .err e | .panic p => .panic p
  | .push len => pushSlice script (i + 1) len st
  | .pushdata1 =>
    if i + 1 + 1 > script.length then scriptErr
    else pushSlice script (i + 2) (byteAt script (i + 1)) st
  | .pushdata2 =>
    if i + 1 + 2 > script.length then scriptErr
    else pushSlice script (i + 3) (byteAt script (i + 1) + byteAt script (i + 2) * 256) st
  | .pushdata4 =>
    if i + 1 + 4 > script.length then scriptErr
    else pushSlice script (i + 5) (byteAt script (i + 1) + byteAt script (i + 2) * 256
            + byteAt script (i + 3) * 65536 + byteAt script (i + 4) * 16777216) st
  | .nop => cont s
  | .if_ =>
    match popBool s with
    | .ok (b, r) => .ok (false, { st with stack := r, branch := b :: st.branch })
    | .err e => .err e | .panic p => .panic p
  | .notif =>
    match popBool s with
    | .ok (b, r) => .ok (false, { st with stack := r, branch := (!b) :: st.branch })
    | .err e => .err e | .panic p => .panic p
  | .else_ =>
    match st.branch with
    | [] => scriptErr
    | b :: bs => .ok (false, { st with branch := (!b) :: bs })
  | .endif =>
    match st.branch with
    | [] => scriptErr
    | _ :: bs => .ok (false, { st with branch := bs })
  | .verify =>
    match popBool s with
    | .ok (b, r) => if b then cont r else scriptErr
    | .err e => .err e | .panic p => .panic p
  | .return_ => if pregenesis then scriptErr else .ok (true, st)
  | .toalt =>
    checkSize 1 s <| match popU s with
      | .ok (t, r) => .ok (false, { st with stack := r, alt := t :: st.alt })
      | .err e => .err e | .panic p => .panic p
  | .fromalt =>
    checkSize 1 st.alt <| match popU st.alt with
      | .ok (t, r) => .ok (false, { st with stack := t :: s, alt := r })
      | .err e => .err e | .panic p => .panic p
  | .ifdup =>
    checkSize 1 s <| match s with
      | [] => .panic "stack[len-1]"
      | t :: _ => if decodeBool t then cont (t :: s) else cont s
  | .depth =>
    match encodeNum (s.length : Int) with
    | .ok v => cont (v :: s) | .err e => .err e | .panic p => .panic p
  | .drop => checkSize 1 s <| match popU s with
      | .ok (_, r) => cont r | .err e => .err e | .panic p => .panic p
  | .dup => checkSize 1 s <| match s with
      | [] => .panic "stack[len-1]" | t :: _ => cont (t :: s)
  | .nip => checkSize 2 s <| match s with
      | t :: _ :: r => cont (t :: r) | _ => .panic "remove(len-2)"
  | .over => checkSize 2 s <| match s with
      | _ :: u :: _ => cont (u :: s) | _ => .panic "stack[len-2]"
  | .pick =>
    match popNum s with
    | .err e => .err e | .panic p => .panic p
    | .ok (n, r) =>
      if n < 0 then scriptErr
      else checkSize (n.toNat + 1) r <| match r[n.toNat]? with
        | some x => cont (x :: r) | none => .panic "stack[len-n-1]"
  | .roll =>
    match popNum s with
    | .err e => .err e | .panic p => .panic p
    | .ok (n, r) =>
      if n < 0 then scriptErr
      else checkSize (n.toNat + 1) r <| match r[n.toNat]? with
        | some x => cont (x :: r.eraseIdx n.toNat) | none => .panic "remove(len-n-1)"
  | .rot => checkSize 3 s <| match s with
      | a :: b :: c :: r => cont (c :: a :: b :: r) | _ => .panic "remove(len-3)"
  | .swap => checkSize 2 s <| match s with
      | a :: b :: r => cont (b :: a :: r) | _ => .panic "remove(len-2)"
  | .tuck => checkSize 2 s <| match s with
      | a :: b :: r => cont (a :: b :: a :: r) | _ => .panic "insert(len-2)"
  | .drop2 => checkSize 2 s <| match s with
      | _ :: _ :: r => cont r | _ => .panic "pop().unwrap()"
  | .dup2 => checkSize 2 s <| match s with
      | a :: b :: r => cont (a :: b :: a :: b :: r) | _ => .panic "stack[len-2]"
  | .dup3 => checkSize 3 s <| match s with
      | a :: b :: c :: r => cont (a :: b :: c :: a :: b :: c :: r) | _ => .panic "stack[len-3]"
  | .over2 => checkSize 4 s <| match s with
      | a :: b :: c :: d :: r => cont (c :: d :: a :: b :: c :: d :: r) | _ => .panic "stack[len-4]"
  | .rot2 => checkSize 6 s <| match s with
      | a :: b :: c :: d :: e :: f :: r => cont (e :: f :: a :: b :: c :: d :: r) | _ => .panic "remove(len-6)"
  | .swap2 => checkSize 4 s <| match s with
      | a :: b :: c :: d :: r => cont (c :: d :: a :: b :: r) | _ => .panic "remove(len-4)"
  | .cat => checkSize 2 s <| match s with
      | top :: second :: r => cont ((second ++ top) :: r) | _ => .panic "pop().unwrap()"
  | .split =>
    checkSize 2 s <|
      match popNum s with
      | .err e => .err e | .panic p => .panic p
      | .ok (n, r1) =>
        match popU r1 with
        | .err e => .err e | .panic p => .panic p
        | .ok (x, r) =>
          if n < 0 then scriptErr
          else if n > (x.length : Int) then scriptErr
          else if n = 0 then cont (x :: [] :: r)
          else if n.toNat = x.length then cont ([] :: x :: r)
          else cont (x.drop n.toNat :: x.take n.toNat :: r)
  | .size => checkSize 1 s <| match s with
      | [] => .panic "stack[len-1]"
      | t :: _ => match encodeNum (t.length : Int) with
        | .ok v => cont (v :: s) | .err e => .err e | .panic p => .panic p
  | .and_ => bitwise st (· &&& ·)
  | .or_ => bitwise st (· ||| ·)
  | .xor_ => bitwise st (· ^^^ ·)
  | .invert => checkSize 1 s <| match popU s with
      | .ok (v, r) => cont (v.map (~~~ ·) :: r) | .err e => .err e | .panic p => .panic p
  | .lshift =>
    checkSize 2 s <| match popNum s with
      | .err e => .err e | .panic p => .panic p
      | .ok (n, r1) =>
        if n < 0 then scriptErr
        else match popU r1 with
          | .ok (v, r) => cont (Shift.lshift v n.toNat :: r) | .err e => .err e | .panic p => .panic p
  | .rshift =>
    checkSize 2 s <| match popNum s with
      | .err e => .err e | .panic p => .panic p
      | .ok (n, r1) =>
        if n < 0 then scriptErr
        else match popU r1 with
          | .ok (v, r) => cont (Shift.rshift v n.toNat :: r) | .err e => .err e | .panic p => .panic p
  | .equal => checkSize 2 s <| match s with
      | a :: b :: r => cont (boolItem (a = b) :: r) | _ => .panic "pop().unwrap()"
  | .equalverify => checkSize 2 s <| match s with
      | a :: b :: r => if a = b then cont r else scriptErr | _ => .panic "pop().unwrap()"
  | .add1 => unaryBig st (· + 1)
  | .sub1 => unaryBig st (· - 1)
  | .negate => unaryBig st (fun x => -x)
  | .abs => unaryBig st (fun x => if x < 0 then -x else x)
  | .not_ => unaryBig st (fun x => if x = 0 then 1 else 0)
  | .notequal0 => unaryBig st (fun x => if x = 0 then 0 else 1)
  | .add => binaryBig st (fun a b => .ok (encodeBig (a + b)))
  -- OP_SUB pops `a` first then `b` and computes `b - a`: with (second, top) = (a, b) here: a - b
  | .sub => binaryBig st (fun a b => .ok (encodeBig (a - b)))
  | .mul => binaryBig st (fun a b => .ok (encodeBig (a * b)))
  | .mul2 => unaryBig st (· * 2)
  | .div => binaryBig st (fun a b => if b = 0 then scriptErr else .ok (encodeBig (a.tdiv b)))
  | .div2 => unaryBig st (fun a => a.tdiv 2)
  | .mod_ => binaryBig st (fun a b => if b = 0 then scriptErr else .ok (encodeBig (a.tmod b)))
  | .booland => binaryBig st (fun a b => .ok (boolItem (a ≠ 0 ∧ b ≠ 0)))
  | .boolor => binaryBig st (fun a b => .ok (boolItem (a ≠ 0 ∨ b ≠ 0)))
  | .numequal => binaryBig st (fun a b => .ok (boolItem (a = b)))
  | .numequalverify =>
    match popBig s with
    | .err e => .err e | .panic p => .panic p
    | .ok (b, r1) => match popBig r1 with
      | .err e => .err e | .panic p => .panic p
      | .ok (a, r2) => if a ≠ b then scriptErr else cont r2
  | .numnotequal => binaryBig st (fun a b => .ok (boolItem (a ≠ b)))
  | .lt => binaryBig st (fun a b => .ok (boolItem (a < b)))
  | .gt => binaryBig st (fun a b => .ok (boolItem (a > b)))
  | .le => binaryBig st (fun a b => .ok (boolItem (a ≤ b)))
  | .ge => binaryBig st (fun a b => .ok (boolItem (a ≥ b)))
  | .min => binaryBig st (fun a b => .ok (encodeBig (if a < b then a else b)))
  | .max => binaryBig st (fun a b => .ok (encodeBig (if a > b then a else b)))
  | .within =>
    match popBig s with
    | .err e => .err e | .panic p => .panic p
    | .ok (mx, r1) => match popBig r1 with
      | .err e => .err e | .panic p => .panic p
      | .ok (mn, r2) => match popBig r2 with
        | .err e => .err e | .panic p => .panic p
        | .ok (x, r3) => cont (boolItem (x ≥ mn ∧ x < mx) :: r3)
  | .num2bin =>
    checkSize 2 s <| match popBig s with
      | .err e => .err e | .panic p => .panic p
      | .ok (m, r1) => match popU r1 with
        | .err e => .err e | .panic p => .panic p
        | .ok (n, r) => match num2bin m n with
          | .ok v => cont (v :: r) | .err e => .err e | .panic p => .panic p
  | .bin2num => checkSize 1 s <| match popU s with
      | .ok (v, r) => cont (encodeBig (decodeBig v) :: r) | .err e => .err e | .panic p => .panic p
  | .ripemd160 => hashOp st H.ripemd160
  | .sha1 => hashOp st H.sha1
  | .sha256 => hashOp st H.sha256
  | .hash160 => hashOp st H.hash160
  | .hash256 => hashOp st H.hash256
  | .codesep => .ok (false, { st with checkIndex := i + 1 })
  | .checksig => sigCheck C script st false
  | .checksigverify => sigCheck C script st true
  | .checkmultisig => multisigOp C script st false
  | .checkmultisigverify => multisigOp C script st true
  | .cltv =>
    if pregenesis then
      match popNum s with
      | .err e => .err e | .panic p => .panic p
      | .ok (t, r) => match C.checkLocktime st.chk t with
        | .ok b => if b then cont r else scriptErr
        | .err e => .err e | .panic p => .panic p
    else cont s
  | .csv =>
    if pregenesis then
      match popNum s with
      | .err e => .err e | .panic p => .panic p
      | .ok (t, r) => match C.checkSequence st.chk t with
        | .ok b => if b then cont r else scriptErr
        | .err e => .err e | .panic p => .panic p
    else cont s
  | .bad => scriptErr

/-- what `core_eval` returns after its loop: the "ENDIF missing" check -/
def finish {σ : Type} (st : St σ) (i : Nat) : Outcome (St σ × Nat) :=
  if st.branch.isEmpty then .ok (st, i) else scriptErr

/-- the `'outer: while i < script.len()` loop of `core_eval`, generic in the per-opcode semantics
    `ex` (so that the reference semantics can share the control skeleton); fuel `script.length + 1`
    suffices -/
def runWith {σ : Type} (ex : Nat → Op → St σ → Outcome (Bool × St σ)) (script : Bytes)
    (breakAt : Option Nat) : Nat → Nat → St σ → Outcome (St σ × Nat)
  | 0, _, _ => .panic "out of fuel"
  | fuel + 1, i, st =>
    if i < script.length then
      let i := match st.branch with
        | false :: _ => skipBranch script i
        | _ => i
      if i ≥ script.length then finish st i
      else if (match breakAt with | some v => decide (i ≥ v) | none => false) then finish st i
      else
        match ex i (decodeOp (script.getD i 0)) st with
        | .ok (true, st') => finish st' i
        | .ok (false, st') => runWith ex script breakAt fuel (nextOp i script) st'
        | .err e => .err e
        | .panic p => .panic p
    else finish st i

def run {σ : Type} (H : Hashes) (C : Checker σ) (pregenesis : Bool) (script : Bytes)
    (breakAt : Option Nat) (fuel i : Nat) (st : St σ) : Outcome (St σ × Nat) :=
  runWith (exec H C pregenesis script) script breakAt fuel i st

structure EvalResult (σ : Type) where
  stack : Stack            -- head = top
  alt : Stack
  pos : Option Nat
  chk : σ

/-- `core_eval` (`flags & PREGENESIS_RULES == PREGENESIS_RULES` is bit 0 of the flag word) -/
def coreEval {σ : Type} (H : Hashes) (C : Checker σ) (c0 : σ) (script : Bytes) (flags : Nat)
    (startAt breakAt : Option Nat) (stack alt : Option Stack) : Outcome (EvalResult σ) :=
  let st0 : St σ := { stack := stack.getD [], alt := alt.getD [], branch := [], checkIndex := 0, chk := c0 }
  match run H C (flags % 2 = 1) script breakAt (script.length + 1) (startAt.getD 0) st0 with
  | .ok (st, i) => .ok { stack := st.stack, alt := st.alt, pos := breakAt.map (fun _ => i), chk := st.chk }
  | .err e => .err e
  | .panic p => .panic p

/-- `eval`: success iff `core_eval` completes and the top item decodes to true -/
def eval {σ : Type} (H : Hashes) (C : Checker σ) (c0 : σ) (script : Bytes) (flags : Nat) : Outcome Unit :=
  match coreEval H C c0 script flags none none none none with
  | .ok r =>
    match r.stack with
    | [] => scriptErr
    | t :: _ => if decodeBool t then .ok () else scriptErr
  | .err e => .err e
  | .panic p => .panic p

end CG.Model.Interp

import CG.Base.Bytes
/-!
Model of the byte-packed bit vector `Bits` of `src/util/bits.rs`
(`new`, `from_slice`, `append`, `append_byte`, `extract`, `extract_byte`), one function at a time.

`data` holds the bits most-significant-bit first; `len` is the number of valid bits.  Nothing in the
Rust keeps `data` trimmed to `len`: `from_slice` keeps *all* bytes of the slice and masks only the
last byte of the vector, `append_byte` pushes a partial byte unmasked when the vector is byte
aligned.  The model reproduces the bytes exactly (the correspondence compares `data` and `len`).

Panic sites (`x[i]`, `len() - 1`, `usize` subtraction, shift amounts) are explicit.
`lshift`/`rshift` of the same file belong to the script interpreter and are modelled elsewhere.
-/
namespace CG.Model.Bits
open CG

structure Bits where
  data : Bytes
  len : Nat
deriving Repr, DecidableEq, Inhabited

/-- `Bits::new()` / `Bits::with_capacity(_)` -/
def Bits.new : Bits := ⟨[], 0⟩

/-- `byte >> k` on `u8` (callers guarantee `k < 8`). -/
def shr8 (x : UInt8) (k : Nat) : UInt8 := UInt8.ofNat (x.toNat >>> k)

/-- `byte << k` on `u8`: bits shifted out of the byte are lost (callers guarantee `k < 8`). -/
def shl8 (x : UInt8) (k : Nat) : UInt8 := UInt8.ofNat ((x.toNat <<< k) % 256)

/-- `x & (!((1 << (8 - rem)) - 1)) as u8`: keeps the top `rem` bits (`1 ≤ rem ≤ 7`). -/
def keepTop (x : UInt8) (rem : Nat) : UInt8 := x &&& UInt8.ofNat (255 - (2 ^ (8 - rem) - 1))

/-- `vec[vec.len() - 1] = f(vec[vec.len() - 1])` (no effect on the empty vector, where the Rust
    would panic; every caller below guards that case). -/
def modifyLast (f : UInt8 → UInt8) : Bytes → Bytes
  | [] => []
  | [x] => [f x]
  | x :: y :: r => x :: modifyLast f (y :: r)

/-- `Bits::from_slice(data, len)`.
    `len = min(data.len()*8, len)`; the `truncate` branch is dead (`len ≤ vec.len()*8` always), so the
    vector keeps every byte of the slice; if `len % 8 ≠ 0` the *last byte of the vector* (not the
    byte containing bit `len`) is masked to its top `len % 8` bits.  `vec.len() - 1` cannot
    underflow there: `len % 8 ≠ 0` forces `len > 0`, hence a non-empty slice. -/
def fromSlice (data : Bytes) (len : Nat) : Bits :=
  let len := min (data.length * 8) len
  let rem := len % 8
  if rem ≠ 0 then ⟨modifyLast (fun x => keepTop x rem) data, len⟩ else ⟨data, len⟩

/-- `Bits::append_byte(byte, len)` -/
def appendByte (self : Bits) (byte : UInt8) (len : Nat) : Outcome Bits :=
  let e := self.len % 8
  if e = 0 then .ok ⟨self.data ++ [byte], self.len + len⟩
  else if self.data = [] then .panic "bits.rs:append_byte:len-1"
  else
    let data := modifyLast (fun x => x ||| shr8 byte e) self.data
    let data := if len > 8 - e then data ++ [shl8 byte (8 - e)] else data
    .ok ⟨data, self.len + len⟩

/-- the `while i < other.len / 8` loop of `append`: `n` iterations left, next index `i`. -/
def appendFull (other : Bits) : Nat → Nat → Bits → Outcome Bits
  | 0, _, self => .ok self
  | n + 1, i, self =>
    match other.data[i]? with
    | none => .panic "bits.rs:append:index"
    | some b =>
      match appendByte self b 8 with
      | .ok s => appendFull other n (i + 1) s
      | .err e => .err e
      | .panic s => .panic s

/-- `Bits::append(other)` -/
def append (self other : Bits) : Outcome Bits :=
  match appendFull other (other.len / 8) 0 self with
  | .ok s =>
    let rem := other.len % 8
    if rem ≠ 0 then
      match other.data[other.len / 8]? with
      | none => .panic "bits.rs:append:index"
      | some b => appendByte s b rem
    else .ok s
  | .err e => .err e
  | .panic s => .panic s

/-- `Bits::extract_byte(i, len)`:
    `let b = (self.data[i / 8] >> (8 - (i % 8) - len)) as u16; (b & ((1_u16 << len) - 1)) as u8` -/
def extractByte (self : Bits) (i len : Nat) : Outcome UInt8 :=
  match self.data[i / 8]? with
  | none => .panic "bits.rs:extract_byte:index"
  | some b =>
    if 8 < i % 8 + len then .panic "bits.rs:extract_byte:sub"          -- 8 - (i % 8) - len
    else
      let sh := 8 - i % 8 - len
      if 8 ≤ sh then .panic "bits.rs:extract_byte:shr"                 -- u8 >> 8
      else .ok (UInt8.ofNat ((b.toNat >>> sh) &&& (2 ^ len - 1)))      -- len ≤ 8 here: `1_u16 << len` is fine

/-- the `for j in i/8 .. (i+len+7)/8` loop of `extract`: `n` iterations left, byte index `j`,
    bit position `i`, accumulator `curr : u64` (`curr << b_len` drops bits above 2^64). -/
def extractLoop (self : Bits) (end_ : Nat) : Nat → Nat → Nat → Nat → Outcome Nat
  | 0, _, _, curr => .ok curr
  | n + 1, j, i, curr =>
    if end_ < i then .panic "bits.rs:extract:sub"                       -- end - i
    else if i < j * 8 then .panic "bits.rs:extract:sub"                 -- i - j * 8
    else if 8 < i - j * 8 then .panic "bits.rs:extract:sub"             -- 8 - (i - j * 8)
    else
      let bLen := min (end_ - i) (8 - (i - j * 8))
      match extractByte self i bLen with
      | .ok b => extractLoop self end_ n (j + 1) (i + bLen) (((curr <<< bLen) % 2 ^ 64) ||| b.toNat)
      | .err e => .err e
      | .panic s => .panic s

/-- `Bits::extract(i, len) -> u64` -/
def extract (self : Bits) (i len : Nat) : Outcome Nat :=
  extractLoop self (i + len) ((i + len + 7) / 8 - i / 8) (i / 8) i 0

end CG.Model.Bits

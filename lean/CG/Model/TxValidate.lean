import CG.Base.Bytes
import CG.Generated.Tables
/-!
Model of `Tx::validate` (`src/messages/tx.rs`), `Blocktxn::validate` (`blocktxn.rs`) and
`PrefilledTransaction::validate` / `Cmpctblock::validate` (`cmpctblock.rs`), one function at a time,
in the code's order of checks.

* `i64` amounts are `Int`; `total += x` is `addI64`: exact when the sum fits in 64 signed bits,
  otherwise a panic in the `dev` profile (overflow-checks on) and two's-complement wrap-around in the
  `release` profile (overflow-checks off).
* `Tree.pinned` is the code as pinned (sum first, compare with `MAX_SATOSHIS` after the loop, no
  duplicate-outpoint check); `Tree.repaired` is the code after `C04-checked-sums.patch` and
  `C04-duplicate-inputs.patch` (per-amount range check and running-total check inside the loop; a
  seen-set over `prev_output`).  The theorems of `CG.Props.C04` are about `repaired`; the witness
  theorems are about `pinned`.
* The per-input script evaluation (`script.eval(&mut tx_checker, flags)`) is the oracle
  `scriptOk : input index → Outcome Bool` (`ok true` = evaluation succeeded, `ok false` = "top of
  stack is false" i.e. `Err(ScriptError)`, `err e` = any other evaluation error).  The parameters
  `require_sighash_forkid` and `pregenesis_outputs` of `Tx::validate` are used *only* inside that
  evaluation, so quantifying over every oracle covers both FORKID modes and every pre-genesis set.
* The unspent-output map (`LinkedHashMap<OutPoint, TxOut>`) is a partial function.
-/
namespace CG.Model.TxValidate
open CG

inductive Profile where
  | dev      -- overflow-checks = true: `+` panics on overflow
  | release  -- overflow-checks = false: `+` wraps
deriving DecidableEq, Repr

inductive Tree where
  | pinned
  | repaired
deriving DecidableEq, Repr

/-- `MAX_SATOSHIS` as compiled into the current tree (regenerated on every run). -/
def MAX : Int := (CG.Generated.MAX_SATOSHIS : Int)

/-- two's-complement reduction of an exact integer into the `i64` range -/
def wrapI64 (x : Int) : Int := (x + 2 ^ 63) % 2 ^ 64 - 2 ^ 63

/-- `a + b` on `i64` in the given profile. -/
def addI64 (p : Profile) (a b : Int) : Outcome Int :=
  if -(2 ^ 63) ≤ a + b ∧ a + b ≤ 2 ^ 63 - 1 then .ok (a + b)
  else match p with
    | .dev => .panic "attempt to add with overflow"
    | .release => .ok (wrapI64 (a + b))

structure OutPoint where
  hash : Bytes
  index : Nat
deriving DecidableEq, Repr

structure TxOut where
  satoshis : Int
  lockScript : Bytes
deriving DecidableEq, Repr

structure TxIn where
  prevOutput : OutPoint
  unlockScript : Bytes := []
  sequence : Nat := 0
deriving DecidableEq, Repr

structure Tx where
  version : Nat := 1
  inputs : List TxIn
  outputs : List TxOut
  lockTime : Nat
deriving DecidableEq, Repr

abbrev Utxos := OutPoint → Option TxOut

/-- The summation loop shared by the three validators and by both sums of `Tx::validate`.
    An element `none` is an input whose outpoint is not in the map (`utxo not found`); for output
    lists every element is `some`.

    pinned:    `if x < 0 {Err}; total += x;`                                   (limit checked after the loop)
    repaired:  `if x < 0 {Err}; if x > MAX {Err}; total += x; if total > MAX {Err};` -/
def sumLoop (t : Tree) (p : Profile) : Int → List (Option Int) → Outcome Int
  | acc, [] => .ok acc
  | _, none :: _ => .err "BadData"
  | acc, some x :: xs =>
    if x < 0 then .err "BadData"
    else if t = .repaired ∧ x > MAX then .err "BadData"
    else match addI64 p acc x with
      | .ok a => if t = .repaired ∧ a > MAX then .err "BadData" else sumLoop t p a xs
      | .err e => .err e
      | .panic s => .panic s

/-- loop followed by the post-loop limit check of the pinned tree (the repaired tree has none) -/
def checkedSum (t : Tree) (p : Profile) (xs : List (Option Int)) : Outcome Int :=
  match sumLoop t p 0 xs with
  | .ok total => if t = .pinned ∧ total > MAX then .err "BadData" else .ok total
  | .err e => .err e
  | .panic s => .panic s

def outAmounts (outs : List TxOut) : List (Option Int) := outs.map (fun o => some o.satoshis)

def inAmounts (utxos : Utxos) (ins : List TxIn) : List (Option Int) :=
  ins.map (fun i => (utxos i.prevOutput).map (·.satoshis))

def COINBASE_HASH : Bytes := List.replicate 32 0
def COINBASE_INDEX : Nat := 0xffffffff

def isCoinbaseRef (o : OutPoint) : Bool := o.hash = COINBASE_HASH ∧ o.index = COINBASE_INDEX

/-- the seen-set loop of the repaired tree: `if !spent.insert(&prev_output) { Err }` -/
def dupLoop : List OutPoint → List OutPoint → Bool
  | _, [] => false
  | seen, x :: xs => if seen.contains x then true else dupLoop (x :: seen) xs

/-- `lock_script.len() == 22 && lock_script[0] == OP_HASH160 && lock_script[21] == OP_EQUAL` -/
def isP2sh (s : Bytes) : Bool :=
  s.length = 22 ∧ s[0]? = some 0xa9 ∧ s[21]? = some 0x87

/-- the per-input script loop: `utxos.get(..).unwrap()` then the oracle. -/
def scriptLoop (utxos : Utxos) (scriptOk : Nat → Outcome Bool) : Nat → List TxIn → Outcome Unit
  | _, [] => .ok ()
  | i, tin :: rest =>
    match utxos tin.prevOutput with
    | none => .panic "utxos.get(prev_output).unwrap()"
    | some _ =>
      match scriptOk i with
      | .ok true => scriptLoop utxos scriptOk (i + 1) rest
      | .ok false => .err "ScriptError"
      | .err e => .err e
      | .panic s => .panic s

/-- `Tx::validate`. -/
def validateWith (t : Tree) (p : Profile) (useGenesis : Bool) (tx : Tx) (utxos : Utxos)
    (scriptOk : Nat → Outcome Bool) : Outcome Unit :=
  if tx.inputs.isEmpty then .err "BadData"
  else if tx.outputs.isEmpty then .err "BadData"
  else match checkedSum t p (outAmounts tx.outputs) with
  | .err e => .err e
  | .panic s => .panic s
  | .ok totalOut =>
    if tx.inputs.any (fun i => isCoinbaseRef i.prevOutput) then .err "BadData"
    else if t = .repaired ∧ dupLoop [] (tx.inputs.map (·.prevOutput)) then .err "BadData"
    else if tx.lockTime > 2147483647 then .err "BadData"
    else match checkedSum t p (inAmounts utxos tx.inputs) with
    | .err e => .err e
    | .panic s => .panic s
    | .ok totalIn =>
      if totalIn < totalOut then .err "BadData"
      else match scriptLoop utxos scriptOk 0 tx.inputs with
      | .err e => .err e
      | .panic s => .panic s
      | .ok () =>
        if useGenesis ∧ tx.outputs.any (fun o => isP2sh o.lockScript) then .err "BadData"
        else .ok ()

/-- the model the theorems are about: the repaired tree -/
def validate := validateWith .repaired

/-- The body shared by `Blocktxn::validate` (per transaction) and `PrefilledTransaction::validate`. -/
def payloadTxWith (t : Tree) (p : Profile) (tx : Tx) : Outcome Unit :=
  if tx.inputs.isEmpty then .err "BadData"
  else if tx.outputs.isEmpty then .err "BadData"
  else match checkedSum t p (outAmounts tx.outputs) with
  | .err e => .err e
  | .panic s => .panic s
  | .ok _ => .ok ()

/-- `for tx in &self.transactions { … return Err … }  Ok(())` and
    `for pre_tx in &self.prefilledtxn { pre_tx.validate()?; } Ok(())` -/
def payloadLoop (t : Tree) (p : Profile) : List Tx → Outcome Unit
  | [] => .ok ()
  | tx :: rest =>
    match payloadTxWith t p tx with
    | .ok () => payloadLoop t p rest
    | .err e => .err e
    | .panic s => .panic s

def blocktxnValidateWith (t : Tree) (p : Profile) (txs : List Tx) : Outcome Unit := payloadLoop t p txs
def cmpctblockValidateWith (t : Tree) (p : Profile) (prefilled : List Tx) : Outcome Unit :=
  payloadLoop t p prefilled

def blocktxnValidate := blocktxnValidateWith .repaired
def cmpctblockValidate := cmpctblockValidateWith .repaired

end CG.Model.TxValidate

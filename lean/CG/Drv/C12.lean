import CG.Drv.Hex
import CG.Model.Peer
import CG.Model.PeerConc
import CG.Spec.PeerSpec
import CG.Crypto.Sha256
import CG.Generated.Tables
/-!
Driver for C12.  `c12.session <min height> <segmentation> <tokens>` / `c12.race …`: the script of
one session (see `harness/src/c12.rs`) is turned into the event list of `CG.Model.Peer`
(segmentation, pacing, `sync` and `w:` tokens do not produce events: C11), the model is run and
its log rendered; the reference column is `CG.Spec.PeerSpec.expected` rendered the same way
(`*` where the property is silent: `disconnect()` called before the handshake is over).

Frames are classified here exactly as far as the peer's behaviour depends on them: the command
class (tables of C11, regenerated from the tree), and for `version`, `ping`, `pong`, `feefilter`,
`sendcmpct` the payload fields; other payload-carrying commands are taken as valid under an `f:`
token and as rejected by the codec under a `g:` token.
-/
namespace CG.Drv.C12
open CG CG.Drv CG.Model.Peer CG.Spec.PeerSpec

def chunks12 : Nat → List Nat → List (List Nat)
  | 0, _ => []
  | _, [] => []
  | fuel + 1, l => l.take 12 :: chunks12 fuel (l.drop 12)

def cmdTable (flat : List Nat) : List Bytes :=
  (chunks12 (flat.length + 1) flat).map (·.map UInt8.ofNat)

def payloadCmds : List Bytes := cmdTable CG.Generated.C11_CMDS_PAYLOAD
def bareCmds : List Bytes := cmdTable CG.Generated.C11_CMDS_BARE

def cmdBytes (name : String) : Bytes :=
  let b := name.toUTF8.toList
  b ++ List.replicate (12 - b.length) 0

def tagOf (name : String) (payload : Bytes) : String :=
  name ++ "/" ++ hexOf (((Crypto.sha256d payload).drop 4).take 8)

def toInt32 (n : Nat) : Int := if n < 2 ^ 31 then (n : Int) else (n : Int) - 2 ^ 32

/-- `Version::read` as far as the filter and `validate` need it: the fixed 80 bytes, the user agent
    (one-byte varint), start height, relay -/
def parseVersion (p : Bytes) : Option VersionInfo :=
  if p.length < 81 then none else
  let proto := leToNat (p.take 4)
  let services := leToNat ((p.drop 4).take 8)
  let uaLen := (p.drop 80).head!.toNat
  if uaLen ≥ 0xfd then none else
  let rest := p.drop 81
  if rest.length < uaLen + 5 then none else
  let ua := rest.take uaLen
  let height := toInt32 (leToNat ((rest.drop uaLen).take 4))
  some ⟨proto, services, height, ua⟩

inductive Cls where
  | msg (m : Msg)
  | garbage

/-- what `Message::read` makes of a well-formed frame -/
def classify (name : String) (payload : Bytes) (claimedBad : Bool) : Cls :=
  let cmd := cmdBytes name
  if bareCmds.contains cmd then
    if !payload.isEmpty then .garbage
    else
      let k : Kind := if name == "verack" then .verack else if name == "sendheaders" then .sendheaders else .plain
      .msg ⟨k, tagOf name [], true⟩
  else if payloadCmds.contains cmd then
    if name == "version" then
      match parseVersion payload with
      | some v => if v.proto < CG.Generated.C12_MIN_PROTO ∨ claimedBad then .garbage else .msg ⟨.version v, tagOf name payload, true⟩
      | none => .garbage
    else if name == "ping" then
      if payload.length < 8 then .garbage else .msg ⟨.ping (leToNat (payload.take 8)), tagOf name (payload.take 8), true⟩
    else if name == "pong" then
      if payload.length < 8 then .garbage else .msg ⟨.plain, tagOf name (payload.take 8), true⟩
    else if name == "feefilter" then
      if payload.length < 8 then .garbage else .msg ⟨.feefilter (leToNat (payload.take 8)), tagOf name (payload.take 8), true⟩
    else if name == "sendcmpct" then
      if payload.length < 9 then .garbage
      else
        let enable := (payload.take 1).head!.toNat
        let ver := leToNat ((payload.drop 1).take 8)
        .msg ⟨.sendcmpct (enable == 1 && ver == 1), tagOf name (payload.take 9), true⟩
    else if claimedBad then .garbage
    else .msg ⟨.plain, tagOf name payload, true⟩
  else
    -- unknown command: `Message::Other(String::from_utf8(command))`, payload read and dropped
    .msg ⟨.plain, "?" ++ hexOf cmd ++ "/-", false⟩

def frameEvent (name : String) (payload : Bytes) (claimedBad : Bool) : Event :=
  match classify name payload claimedBad with
  | .msg m => .remoteFrame m
  | .garbage => .remoteGarbage .badPayload

/-- a token of the script as events (none = malformed request) -/
def tokEvents (t : String) : Option (List Event) :=
  match t.splitOn ":" with
  | ["f", c, p] => (unhex p).map fun p => [frameEvent c p false]
  | ["g", c, p] => (unhex p).map fun p => [frameEvent c p true]
  | ["xm", _, p] => (unhex p).map fun _ => [.remoteGarbage .badMagic]
  | ["xc", c, p] =>
    (unhex p).map fun p =>
      -- the checksum is only inspected when a payload is read
      if p.isEmpty && !(payloadCmds.contains (cmdBytes c)) then [frameEvent c p false] else [.remoteGarbage .badChecksum]
  | ["xo", _] => some [.remoteGarbage .oversize]
  | ["xt", _, p, _] => (unhex p).map fun _ => [.remoteClose]
  | ["close"] => some [.remoteClose]
  | ["silent"] => some [.remoteSilence]
  | ["w", _] => some []
  | ["sync"] => some []
  | ["ls", c, p] =>
    (unhex p).bind fun p =>
      match classify c p false with
      | .msg m => some [.localSend m]
      | .garbage => none
  | ["lsx"] => some [.localSend ⟨.plain, "?", false⟩]
  | ["ld"] => some [.localDisconnect]
  | _ => none

def parseToks (s : String) : Option (List (List Event)) :=
  if s == "-" then some [] else (s.splitOn ",").mapM tokEvents

def svMark : Bytes := "Bitcoin SV".toUTF8.toList

def theFilter (minh : Int) : VersionInfo → Bool := svFilter svMark CG.Generated.C12_SERVICE_MASK minh

/-! ### Rendering -/

def dash (l : List String) (sep : String) : String := if l.isEmpty then "-" else sep.intercalate l

def obsStr : Obs → String
  | .connected => "C"
  | .disconnected => "D"
  | .message m => "M:" ++ m.tag

def wireStr : Wire → String
  | .version => "version"
  | .verack => "verack"
  | .hsPing => "ping"
  | .pong n => "pong:" ++ toString n
  | .msg m => m.tag

def sendStr : Option SendErr → String
  | none => "ok"
  | some .illegalState => "err:IllegalState"
  | some .io => "err:IoError"

def b01 (b : Bool) : String := if b then "1" else "0"

/-- the canonical outcome of a finished session; `hang` when the peer never closes its socket -/
def renderLog (l : Log) : String :=
  if !l.closed then "hang" else
  "ok:ev=" ++ dash (l.obs.map obsStr) ">" ++ "|rx=" ++ dash (l.rx.map wireStr) "," ++ "|sr=" ++ dash (l.sends.map sendStr) "," ++
  "|st=" ++ b01 l.connected ++ "," ++ toString l.minfee ++ "," ++ b01 l.sendheaders ++ "," ++ b01 l.sendcmpct ++
  "|late=" ++ b01 (l.obs.contains .connected) ++ "," ++ b01 (l.obs.contains .disconnected) ++ ",0" ++
  -- a send attempted from inside the disconnected-event callback: the flag is cleared before the event is published
  -- (`C12_conc_event_implies_flag_cleared`), so it is refused at once (`C12_conc_send_after_disconnect_is_error`)
  "|cb=" ++ (if l.obs.contains .disconnected then "err:IllegalState" else "-") ++
  "|after=" ++ (if l.connected then "ok" else "err:IllegalState") ++ "|panics=0"

/-! ### Racing calls: every linearisation point of the script gives the same summary -/

def insertAt (l : List Event) (i : Nat) (x : List Event) : List Event := l.take i ++ x ++ l.drop i

def isPrefixOfList (a b : List String) : Bool := a.length ≤ b.length && a == b.take a.length

def raceSummary (filter : VersionInfo → Bool) (sentTags : List String) (evs : List Event) : String :=
  let r := run filter evs
  let os := r.2
  let obs := obsOf os
  let msgs := (delivered os).map (·.tag)
  let firstC := obs.findIdx? (· == .connected)
  let firstM := obs.findIdx? (fun o => match o with | .message _ => true | _ => false)
  let cfirst := match firstC, firstM with
    | _, none => true
    | some c, some m => c < m
    | none, some _ => false
  let order := if isPrefixOfList msgs sentTags then "prefix" else dash msgs ">"
  let pong := if pongs os == (delivered os).filterMap pingNonce then "prefix" else "ne"
  let srs := sendResults os
  let oks := (srs.takeWhile (· == none)).length
  let mono := (srs.drop oks).all (· == some .illegalState)
  let wrote := ((wires os).filter fun | .msg _ => true | _ => false).length
  "ok:race|c=" ++ toString (obs.count .connected) ++ "|cfirst=" ++ b01 cfirst ++ "|order=" ++ order ++ "|pong=" ++ pong ++
  "|x=" ++ toString (obs.count .disconnected) ++ "|sends=" ++ (if mono then "mono" else dash (srs.map sendStr) ",") ++
  "|lsrx=" ++ (if wrote == oks then "le" else "ne") ++
  -- what the peer writes is a sequence of whole frames: a `send` is one critical section on the writer mutex (`CG.Model.PeerConc`)
  "|wire=ok" ++
  "|after=" ++ (if r.1.flag then "ok" else "err:IllegalState") ++ "|conn=" ++ b01 r.1.flag ++
  "|late=" ++ b01 (obs.contains .connected) ++ "," ++ b01 (obs.contains .disconnected) ++ ",0|panics=0"

def racePing (i : Nat) : Event := .localSend ⟨.ping (1000000 + i), "ping/race", true⟩

/-- racing tokens: `(position in the event list at which the call is started, the events of the call)` -/
def raceTok (t : String) : Option (List Event) :=
  match t.splitOn ":" with
  | ["rld", _] => some [.localDisconnect]
  | ["rls", n, _] => n.toNat?.map fun n => (List.range n).map racePing
  | ["rlb", n, _, _] => n.toNat?.map fun n => (List.range n).map fun _ => Event.localSend ⟨.plain, "inv/race", true⟩
  | _ => none

/-- all placements of each racing call (kept contiguous) at or after its starting point -/
def placements (base : List Event) : List (Nat × List Event) → List (List Event)
  | [] => [base]
  | (start, call) :: rest =>
    (placements base rest).flatMap fun evs =>
      -- positions are counted in `base`; earlier insertions only move later positions further back,
      -- which are placements too
      (List.range (evs.length + 1 - start)).map fun d => insertAt evs (start + d) call


/-! ### `c12.conc`: the interleaving model (`CG.Model.PeerConc`) replayed on a steered real session

Request `c12.conc <remote> <progs> <sched>`: `remote` = `f<N>` (N frames, tags `0..N-1`) optionally followed by `c`
(the node half-closes); `progs` = local thread programs separated by `/` (`s` = send a serialisable message,
`u` = send an unserialisable one, `d` = `disconnect()`, `-` = empty program); `sched` = thread ids (0 = receive thread).

The real threads are parked at the H3 sync points, which are exactly the boundaries of the model's steps, except for two
steps that have no hook because they touch no shared state: the receive thread's blocking read (it simply happens when
bytes are there) and a local thread entering `disconnect()`.  The replay performs those two eagerly — inserting steps
that commute with everything is still a schedule of the model. -/
namespace Conc
open CG.Model.PeerConc

def cmsg (i : Nat) : Msg := ⟨.plain, toString i, true⟩
def umsg : Msg := ⟨.plain, "unwritable", false⟩
def smsg : Msg := ⟨.plain, "local", true⟩

def parseRemote (s : String) : Option (List RemoteEv) :=
  let closed := s.endsWith "c"
  let body := if closed then (s.dropEnd 1).toString else s
  if !body.startsWith "f" then none else
  match (body.drop 1).toString.toNat? with
  | none => none
  | some n => some ((List.range n).map (fun i => RemoteEv.frame (cmsg i)) ++ (if closed then [RemoteEv.fail] else []))

def parseProg (s : String) : Option (List LOp) :=
  if s == "-" then some [] else
  s.toList.mapM fun c => if c == 's' then some (LOp.send smsg) else if c == 'u' then some (LOp.send umsg)
    else if c == 'd' then some LOp.disconnect else none

def parseProgs (s : String) : Option (List (List LOp)) := (s.splitOn "/").mapM parseProg

def parseSched (s : String) : Option (List Nat) :=
  if s == "-" then some [] else s.toList.mapM fun ch => if ch.isDigit then some (ch.toNat - 48) else none

/-- the invisible steps: a read that can return, a local thread entering `disconnect()` -/
def eager (fuel : Nat) (s : St) : St :=
  match fuel with
  | 0 => s
  | f + 1 =>
    let s1 := match s.r with
      | .read => (stepR s).getD s
      | _ => s
    let s2 := (List.range s1.locals.length).foldl (fun s i =>
      match s.locals[i]? with
      | some ⟨.idle, .disconnect :: _⟩ => (step s (i + 1)).getD s
      | _ => s) s1
    if s2 == s then s else eager f s2

def runH (s : St) (sched : List Nat) : St :=
  sched.foldl (fun s tid => eager 4 ((step s tid).getD s)) (eager 4 s)

/-- the observable log: deliveries, the disconnected event, send results (what the socket carries is not compared) -/
def logStr (os : List Output) : String :=
  let l := os.filterMap fun
    | .deliver m => some ("M" ++ m.tag)
    | .emitDisconnected => some "D"
    | .sendResult none => some "S:ok"
    | .sendResult (some .illegalState) => some "S:illegal"
    | .sendResult (some .io) => some "S:io"
    | _ => none
  if l.isEmpty then "-" else ",".intercalate l

/-- judgement of a log observed on the real code, by the statements proved in `CG.Props.C12conc` -/
def judgeLog (nframes : Nat) (quiet : Bool) (log : String) : String :=
  let toks := if log == "-" then [] else log.splitOn ","
  let discs := (toks.filter (· == "D")).length
  let ms := toks.filterMap fun t => if t.startsWith "M" then (t.drop 1).toString.toNat? else none
  let increasing := (ms.zip (ms.drop 1)).all fun (a, b) => a < b
  let inRange := ms.all (· < nframes)
  let afterD := (toks.dropWhile (· != "D")).drop 1
  let lateN := (afterD.filter (·.startsWith "M")).length
  let okAfterD := (afterD.filter (· == "S:ok")).length
  if discs > 1 then "viol:disconnected-twice"
  else if !(increasing && inRange) then "viol:delivery-order"
  else if quiet && lateN > 0 then "viol:delivery-after-remote-disconnect"
  else if lateN > 1 then "viol:late-deliveries"
  else if okAfterD > 1 then "viol:send-ok-after-disconnect"
  else "ok"

def handle (a : List String) : Option String :=
  match a with
  | [remote, progs, sched] =>
    match parseRemote remote, parseProgs progs, parseSched sched with
    | some r, some ps, some sc =>
      let s := runH (init r ps) sc
      some ("ok:" ++ logStr s.out ++ "\t*")
    | _, _, _ => some "bad-request\tbad-request"
  | _ => some "bad-request\tbad-request"

def handleJudge (a : List String) : Option String :=
  match a with
  | [remote, progs, log] =>
    match parseRemote remote, parseProgs progs with
    | some r, some ps => some (judgeLog (frames r).length (ps.all fun p => p.all quietOp) log ++ "\t*")
    | _, _ => some "bad-request\tbad-request"
  | _ => some "bad-request\tbad-request"

end Conc

def handle (op : String) (a : List String) : Option String :=
  match op, a with
  | "c12.conc", a => Conc.handle a
  | "c12.judgeconc", a => Conc.handleJudge a
  | "c12.session", [minh, _seg, toks] =>
    match minh.toInt?, parseToks toks with
    | some minh, some evss =>
      let evs := evss.flatten
      let filter := theFilter minh
      let model := renderLog (observe (run filter evs))
      let spec := match expected filter evs with
        | some l => renderLog l
        | none => "*"
      some (model ++ "\t" ++ spec)
    | _, _ => some "bad-request\tbad-request"
  | "c12.race", [minh, _seg, toks] =>
    match minh.toInt? with
    | none => some "bad-request\tbad-request"
    | some minh =>
      let filter := theFilter minh
      let ts := if toks == "-" then [] else toks.splitOn ","
      -- base events and the racing calls with their starting positions
      let step := fun (acc : Option (List Event × List (Nat × List Event) × List String)) (t : String) =>
        acc.bind fun (evs, calls, tags) =>
          if t == "rjoin" then some (evs, calls, tags) else   -- the node waits for the racing threads: no event of the peer
          -- bursts run while the node is silent and are joined before it goes on: whichever way their sends interleave, the
          -- sequential model sees the same multiset of successful sends, so they are appended in order (enumerating the
          -- placements of several 60-event calls inside each other would be millions of identical summaries)
          if t.startsWith "rlb:" then (raceTok t).map fun call => (evs ++ call, calls, tags) else
          match raceTok t with
          | some call => some (evs, calls ++ [(evs.length, call)], tags)
          | none =>
            (tokEvents t).map fun e =>
              let tags' := match t.splitOn ":" with
                | ["f", c, p] => match (unhex p).map (classify c · false) with
                  | some (.msg m) => tags ++ [m.tag]
                  | _ => tags ++ ["undecodable"]
                | _ => tags
              (evs ++ e, calls, tags')
      match ts.foldl step (some ([], [], [])) with
      | none => some "bad-request\tbad-request"
      | some (base, calls, tags) =>
        let sums := (placements base calls).map (raceSummary filter (tags.drop 2))
        match sums with
        | [] => some "bad-request\tbad-request"
        | s :: rest => if rest.all (· == s) then some (s ++ "\t" ++ s) else some ("nondeterministic-summary\t" ++ s)
  | _, _ => none

end CG.Drv.C12

import CG.Drv.Hex
import CG.Model.Wire.Header
import CG.Spec.WireSpec
import CG.Crypto.Sha256
/-!
Driver for C05.  Ops (see `harness/src/c05.rs` for the token grammar of values):

* `c05.enc  <kind> <magic> <tokens…>`   value → `Message::write`      → `ok:<bytes>:<size>:<readback>`
* `c05.penc <type> <tokens…>`            value → `T::write`            → `ok:<bytes>:<size>:<readback>`
* `c05.dec  <label> <magic> <hex>`       bytes → `Message::read`       → `ok|nofix:<kind>:<value>:<rewritten>:<consumed>` | `err:<class>`
* `c05.pdec <type> <hex>`                bytes → `T::read`             → `ok|nofix:<value>:<rewritten>:<consumed>` | `err:<class>`
  (`ok` = read → write → read → write is a fixpoint, `nofix` = it is not)

Long fields are replaced by `#<len>.<sha256d>` on both sides.
Model column: the codec model.  Spec column: the reference encoder (`CG.Spec.WireSpec`) applied to
the same value, read-back flag forced to `1` for in-range values; for accepted inputs that are not
the reference encoding of their value the spec demands the fixpoint only (`class:ok`).
-/
namespace CG.Drv.C05
open CG CG.Drv CG.Model.Wire

/-! ### fast hex -/

def hexNib (c : UInt8) : Option Nat :=
  if 48 ≤ c ∧ c ≤ 57 then some (c.toNat - 48)
  else if 97 ≤ c ∧ c ≤ 102 then some (c.toNat - 87)
  else if 65 ≤ c ∧ c ≤ 70 then some (c.toNat - 55)
  else none

/-- bytes of the hex digits of `a` in positions `[off, 2*k + off)`, built from the end -/
def unhexLoop (a : ByteArray) (off : Nat) : Nat → Bytes → Option Bytes
  | 0, acc => some acc
  | k + 1, acc =>
    match hexNib (a.get! (off + 2 * k)), hexNib (a.get! (off + 2 * k + 1)) with
    | some x, some y => unhexLoop a off k (UInt8.ofNat (16 * x + y) :: acc)
    | _, _ => none

def unhexFrom (s : String) (off : Nat) : Option Bytes :=
  let a := s.toUTF8
  let n := a.size - off
  if n % 2 = 1 then none else unhexLoop a off (n / 2) []

def unhexF (s : String) : Option Bytes := if s == "-" then some [] else unhexFrom s 0

def digits : ByteArray := "0123456789abcdef".toUTF8

def hexF (b : Bytes) : String :=
  let a := b.foldl (fun (acc : ByteArray) x =>
    (acc.push (digits.get! (x.toNat / 16))).push (digits.get! (x.toNat % 16))) (ByteArray.emptyWithCapacity (2 * b.length))
  (String.fromUTF8? a).getD ""

def sha256d (b : Bytes) : Bytes := Crypto.sha256 (Crypto.sha256 b)

/-- short byte strings verbatim, long ones as `#len.sha256d` -/
def digestB (b : Bytes) : String :=
  if b.length ≤ 96 then (if b.isEmpty then "-" else hexF b)
  else "#" ++ toString b.length ++ "." ++ hexF (sha256d b)

def digestS (s : String) : String :=
  if s.utf8ByteSize ≤ 200 then (if s.isEmpty then "-" else s)
  else "#" ++ toString s.utf8ByteSize ++ "." ++ hexF (sha256d s.toUTF8.toList)

/-! ### value tokens -/

structure Tok (α : Type) where
  put : α → List String
  get : List String → Option (α × List String)

def tNat : Tok Nat where
  put n := [toString n]
  get | t :: r => t.toNat?.map (·, r) | [] => none

def tInt : Tok Int where
  put n := [toString n]
  get | t :: r => t.toInt?.map (·, r) | [] => none

def tBool : Tok Bool where
  put b := [if b then "1" else "0"]
  get | "1" :: r => some (true, r) | "0" :: r => some (false, r) | _ => none

def tBytes : Tok Bytes where
  put b := ["x" ++ hexF b]
  get | t :: r => if t.startsWith "x" then (unhexFrom t 1).map (·, r) else none
      | [] => none

def tPair {α β} (a : Tok α) (b : Tok β) : Tok (α × β) where
  put p := a.put p.1 ++ b.put p.2
  get ts := match a.get ts with
    | some (x, r) => match b.get r with
      | some (y, r') => some ((x, y), r')
      | none => none
    | none => none

scoped infixr:60 " ⊕ " => tPair

def tIso {α β} (a : Tok α) (f : α → β) (g : β → α) : Tok β where
  put b := a.put (g b)
  get ts := (a.get ts).map fun p => (f p.1, p.2)

def getN {α} (a : Tok α) : Nat → List String → List α → Option (List α × List String)
  | 0, ts, acc => some (acc.reverse, ts)
  | n + 1, ts, acc => match a.get ts with
    | some (x, r) => getN a n r (x :: acc)
    | none => none

def tList {α} (a : Tok α) : Tok (List α) where
  put l := toString l.length :: l.flatMap a.put
  get | t :: r => match t.toNat? with
        | some n => getN a n r []
        | none => none
      | [] => none

def tOpt {α} (a : Tok α) : Tok (Option α) where
  put | none => ["0"] | some x => "1" :: a.put x
  get | "0" :: r => some (none, r)
      | "1" :: r => (a.get r).map fun p => (some p.1, p.2)
      | _ => none

def kOutPoint : Tok OutPoint := tIso (tBytes ⊕ tNat) (fun p => ⟨p.1, p.2⟩) (fun o => (o.hash, o.index))
def kTxIn : Tok TxIn := tIso (kOutPoint ⊕ tBytes ⊕ tNat) (fun p => ⟨p.1, p.2.1, p.2.2⟩)
  (fun t => (t.prevOutput, t.unlockScript, t.sequence))
def kTxOut : Tok TxOut := tIso (tInt ⊕ tBytes) (fun p => ⟨p.1, p.2⟩) (fun t => (t.satoshis, t.lockScript))
def kTx : Tok Tx := tIso (tNat ⊕ tList kTxIn ⊕ tList kTxOut ⊕ tNat) (fun p => ⟨p.1, p.2.1, p.2.2.1, p.2.2.2⟩)
  (fun t => (t.version, t.inputs, t.outputs, t.lockTime))
def kBlockHeader : Tok BlockHeader := tIso (tNat ⊕ tBytes ⊕ tBytes ⊕ tNat ⊕ tNat ⊕ tNat)
  (fun p => ⟨p.1, p.2.1, p.2.2.1, p.2.2.2.1, p.2.2.2.2.1, p.2.2.2.2.2⟩)
  (fun h => (h.version, h.prevHash, h.merkleRoot, h.timestamp, h.bits, h.nonce))
def kInvVect : Tok InvVect := tIso (tNat ⊕ tBytes) (fun p => ⟨p.1, p.2⟩) (fun v => (v.objType, v.hash))
def kInv : Tok Inv := tIso (tList kInvVect) (fun l => ⟨l⟩) (fun i => i.objects)
def kBlockLocator : Tok BlockLocator := tIso (tNat ⊕ tList tBytes ⊕ tBytes) (fun p => ⟨p.1, p.2.1, p.2.2⟩)
  (fun l => (l.version, l.blockLocatorHashes, l.hashStop))
def kPing : Tok Ping := tIso tNat (fun n => ⟨n⟩) (fun p => p.nonce)
def kFeeFilter : Tok FeeFilter := tIso tNat (fun n => ⟨n⟩) (fun p => p.minfee)
def kSendCmpct : Tok SendCmpct := tIso (tNat ⊕ tNat) (fun p => ⟨p.1, p.2⟩) (fun s => (s.enable, s.version))
def kNodeAddr : Tok NodeAddr := tIso (tNat ⊕ tBytes ⊕ tNat) (fun p => ⟨p.1, p.2.1, p.2.2⟩)
  (fun a => (a.services, a.ip, a.port))
def kNodeAddrEx : Tok NodeAddrEx := tIso (tNat ⊕ kNodeAddr) (fun p => ⟨p.1, p.2⟩) (fun a => (a.lastConnectedTime, a.addr))
def kVersion : Tok Version :=
  tIso (tNat ⊕ tNat ⊕ tInt ⊕ kNodeAddr ⊕ kNodeAddr ⊕ tNat ⊕ tBytes ⊕ tInt ⊕ tBool ⊕ tBytes)
    (fun p => ⟨p.1, p.2.1, p.2.2.1, p.2.2.2.1, p.2.2.2.2.1, p.2.2.2.2.2.1, p.2.2.2.2.2.2.1,
      p.2.2.2.2.2.2.2.1, p.2.2.2.2.2.2.2.2.1, p.2.2.2.2.2.2.2.2.2⟩)
    (fun v => (v.version, v.services, v.timestamp, v.recvAddr, v.txAddr, v.nonce, v.userAgent,
      v.startHeight, v.relay, v.associationId))
def kAddr : Tok Addr := tIso (tList kNodeAddrEx) (fun l => ⟨l⟩) (fun a => a.addrs)
def kHeaders : Tok Headers := tIso (tList kBlockHeader) (fun l => ⟨l⟩) (fun h => h.headers)
def kBlock : Tok Block := tIso (kBlockHeader ⊕ tList kTx) (fun p => ⟨p.1, p.2⟩) (fun b => (b.header, b.txns))
def kMerkleBlock : Tok MerkleBlock := tIso (kBlockHeader ⊕ tNat ⊕ tList tBytes ⊕ tBytes)
  (fun p => ⟨p.1, p.2.1, p.2.2.1, p.2.2.2⟩) (fun m => (m.header, m.totalTransactions, m.hashes, m.flags))
def kFilterLoad : Tok FilterLoad := tIso (tBytes ⊕ tNat ⊕ tNat ⊕ tNat) (fun p => ⟨p.1, p.2.1, p.2.2.1, p.2.2.2⟩)
  (fun f => (f.filter, f.numHashFuncs, f.tweak, f.flags))
def kFilterAdd : Tok FilterAdd := tIso tBytes (fun d => ⟨d⟩) (fun f => f.data)
def kReject : Tok Reject := tIso (tBytes ⊕ tNat ⊕ tBytes ⊕ tBytes) (fun p => ⟨p.1, p.2.1, p.2.2.1, p.2.2.2⟩)
  (fun r => (r.message, r.code, r.reason, r.data))
def kProtoconf : Tok Protoconf := tIso (tNat ⊕ tNat ⊕ tOpt tBytes) (fun p => ⟨p.1, p.2.1, p.2.2⟩)
  (fun c => (c.version, c.maxRecvPayloadLength, c.streamPolicies))
def kAuthch : Tok Authch := tIso (tInt ⊕ tNat ⊕ tBytes) (fun p => ⟨p.1, p.2.1, p.2.2⟩)
  (fun a => (a.version, a.messageLength, a.message))
def kCreatestrm : Tok Createstrm := tIso (tBytes ⊕ tNat ⊕ tBytes) (fun p => ⟨p.1, p.2.1, p.2.2⟩)
  (fun c => (c.associationId, c.streamType, c.streamPolicy))
def kStreamack : Tok Streamack := tIso (tBytes ⊕ tNat) (fun p => ⟨p.1, p.2⟩) (fun c => (c.associationId, c.streamType))
def kPrefilled : Tok PrefilledTx := tIso (tNat ⊕ kTx) (fun p => ⟨p.1, p.2⟩) (fun t => (t.index, t.tx))
def kCmpctblock : Tok Cmpctblock := tIso (kBlockHeader ⊕ tNat ⊕ tList tBytes ⊕ tList kPrefilled)
  (fun p => ⟨p.1, p.2.1, p.2.2.1, p.2.2.2⟩) (fun c => (c.header, c.nonce, c.shortids, c.prefilledtxn))
def kGetblocktxn : Tok Getblocktxn := tIso (tBytes ⊕ tList tNat) (fun p => ⟨p.1, p.2⟩) (fun g => (g.blockhash, g.indexes))
def kBlocktxn : Tok Blocktxn := tIso (tBytes ⊕ tList kTx) (fun p => ⟨p.1, p.2⟩) (fun g => (g.blockhash, g.transactions))
def kNodeAddrExV2 : Tok NodeAddrExV2 := tIso (tNat ⊕ tNat ⊕ tNat ⊕ tBytes ⊕ tNat)
  (fun p => ⟨p.1, p.2.1, p.2.2.1, p.2.2.2.1, p.2.2.2.2⟩)
  (fun a => (a.lastConnectedTime, a.services, a.networkId, a.addr, a.port))
def kAddrV2 : Tok AddrV2 := tIso (tList kNodeAddrExV2) (fun l => ⟨l⟩) (fun a => a.addrs)
def kMessageHeader : Tok MessageHeader := tIso (tBytes ⊕ tBytes ⊕ tNat ⊕ tBytes) (fun p => ⟨p.1, p.2.1, p.2.2.1, p.2.2.2⟩)
  (fun h => (h.magic, h.command, h.payloadSize, h.checksum))

def kUnit (m : Msg) : Tok Msg := ⟨fun _ => [], fun r => some (m, r)⟩

/-- value tokens of a message, by variant -/
def msgTok : Msg → String × List String
  | .addr p => ("addr", kAddr.put p) | .addrV2 p => ("addrv2", kAddrV2.put p) | .block p => ("block", kBlock.put p)
  | .feeFilter p => ("feefilter", kFeeFilter.put p) | .filterAdd p => ("filteradd", kFilterAdd.put p)
  | .filterClear => ("filterclear", []) | .filterLoad p => ("filterload", kFilterLoad.put p)
  | .getAddr => ("getaddr", []) | .getBlocks p => ("getblocks", kBlockLocator.put p)
  | .getData p => ("getdata", kInv.put p) | .getHeaders p => ("getheaders", kBlockLocator.put p)
  | .headers p => ("headers", kHeaders.put p) | .inv p => ("inv", kInv.put p) | .mempool => ("mempool", [])
  | .merkleBlock p => ("merkleblock", kMerkleBlock.put p) | .notFound p => ("notfound", kInv.put p)
  | .other c => ("other", [hexF c]) | .ping p => ("ping", kPing.put p) | .pong p => ("pong", kPing.put p)
  | .reject p => ("reject", kReject.put p) | .sendHeaders => ("sendheaders", [])
  | .sendCmpct p => ("sendcmpct", kSendCmpct.put p) | .tx p => ("tx", kTx.put p) | .verack => ("verack", [])
  | .version p => ("version", kVersion.put p) | .protoconf p => ("protoconf", kProtoconf.put p)
  | .authch p => ("authch", kAuthch.put p) | .createstrm p => ("createstrm", kCreatestrm.put p)
  | .streamack p => ("streamack", kStreamack.put p) | .cmpctblock p => ("cmpctblock", kCmpctblock.put p)
  | .getblocktxn p => ("getblocktxn", kGetblocktxn.put p) | .blocktxn p => ("blocktxn", kBlocktxn.put p)
  | .sendAddrV2 => ("sendaddrv2", [])

def liftGet {α} (t : Tok α) (mk : α → Msg) (ts : List String) : Option Msg :=
  match t.get ts with
  | some (v, []) => some (mk v)
  | _ => none

def parseMsg (kind : String) (ts : List String) : Option Msg :=
  match kind with
  | "addr" => liftGet kAddr .addr ts | "addrv2" => liftGet kAddrV2 .addrV2 ts | "block" => liftGet kBlock .block ts
  | "feefilter" => liftGet kFeeFilter .feeFilter ts | "filteradd" => liftGet kFilterAdd .filterAdd ts
  | "filterclear" => liftGet (kUnit .filterClear) id ts | "filterload" => liftGet kFilterLoad .filterLoad ts
  | "getaddr" => liftGet (kUnit .getAddr) id ts | "getblocks" => liftGet kBlockLocator .getBlocks ts
  | "getdata" => liftGet kInv .getData ts | "getheaders" => liftGet kBlockLocator .getHeaders ts
  | "headers" => liftGet kHeaders .headers ts | "inv" => liftGet kInv .inv ts
  | "mempool" => liftGet (kUnit .mempool) id ts | "merkleblock" => liftGet kMerkleBlock .merkleBlock ts
  | "notfound" => liftGet kInv .notFound ts | "ping" => liftGet kPing .ping ts | "pong" => liftGet kPing .pong ts
  | "reject" => liftGet kReject .reject ts | "sendheaders" => liftGet (kUnit .sendHeaders) id ts
  | "sendcmpct" => liftGet kSendCmpct .sendCmpct ts | "tx" => liftGet kTx .tx ts
  | "verack" => liftGet (kUnit .verack) id ts | "version" => liftGet kVersion .version ts
  | "protoconf" => liftGet kProtoconf .protoconf ts | "authch" => liftGet kAuthch .authch ts
  | "createstrm" => liftGet kCreatestrm .createstrm ts | "streamack" => liftGet kStreamack .streamack ts
  | "cmpctblock" => liftGet kCmpctblock .cmpctblock ts | "getblocktxn" => liftGet kGetblocktxn .getblocktxn ts
  | "blocktxn" => liftGet kBlocktxn .blocktxn ts | "sendaddrv2" => liftGet (kUnit .sendAddrV2) id ts
  | _ => none

def joinToks (ts : List String) : String := ",".intercalate ts

/-! ### message level -/

def errStr {α} : Outcome α → String
  | .ok _ => "ok" | .err e => "err:" ++ e | .panic s => "panic:" ++ s

/-- payload size the way `write_with_payload` computes it -/
def payloadSizeOf (m : Msg) : Nat :=
  match entryOf m with
  | some e => match e.body with
    | some c => c.size m
    | none => 0
  | none => 0

/-- read-back flag: `1` equal and fully consumed, `0` different, `e:<class>` error -/
def readBack (magic : Bytes) (m : Msg) (bytes : Bytes) : String :=
  match readMessage Crypto.sha256 magic bytes with
  | .ok (m', r) => if m' = m ∧ r = [] then "1" else "0"
  | .err e => "e:" ++ e
  | .panic _ => "p"

def bad : Option String := some "bad-request\tbad-request"

def encMsg (magic : Bytes) (m : Msg) : String :=
  match writeMessage Crypto.sha256 magic m with
  | none => "err:write\terr:write"
  | some bytes =>
    let rb := readBack magic m bytes
    let model := "ok:" ++ digestB bytes ++ ":" ++ toString (payloadSizeOf m) ++ ":" ++ rb
    match Spec.WireSpec.message Crypto.sha256 magic m, Spec.WireSpec.commandAndPayload m with
    | some sb, some (_, p) =>
      let rb' := if Spec.WireSpec.readsBack m then "1" else rb
      model ++ "\t" ++ "ok:" ++ digestB sb ++ ":" ++ toString p.length ++ ":" ++ rb'
    | _, _ => model ++ "\terr:spec"

/-- addrv2 values cannot be constructed by name in Rust: the harness lays the value out with its
    own reference encoder, frames it, and obtains the value with `Message::read`; then as `enc`. -/
def encAddrV2 (magic : Bytes) (v : AddrV2) : String :=
  match Spec.WireSpec.message Crypto.sha256 magic (.addrV2 v) with
  | none => "err:spec\terr:spec"
  | some sb =>
    match readMessage Crypto.sha256 magic sb with
    | .ok (m, _) => encMsg magic m
    | o => errStr o ++ "\t*"

/-- fixpoint flag of `Message::read` → `write` → `read` → `write` -/
def fixFlag (magic : Bytes) (m : Msg) (b2 : Bytes) : String :=
  match readMessage Crypto.sha256 magic b2 with
  | .ok (m2, r2) =>
    if m2 = m ∧ r2 = [] then
      match writeMessage Crypto.sha256 magic m2 with
      | some b3 => if b3 == b2 then "1" else "0"
      | none => "0"
    else "0"
  | _ => "0"

def decMsg (magic : Bytes) (b : Bytes) : String :=
  match readMessage Crypto.sha256 magic b with
  | .ok (m, r) =>
    let consumed := b.length - r.length
    let (kind, ts) := msgTok m
    match m with
    | .other _ => let s := "ok:other:" ++ joinToks ts ++ ":" ++ toString consumed; s ++ "\t" ++ s
    | _ =>
      match writeMessage Crypto.sha256 magic m with
      | none => "err:write\t*"
      | some b2 =>
        let post := ":" ++ kind ++ ":" ++ digestS (joinToks ts) ++ ":"
        let fix := fixFlag magic m b2
        let model := (if fix == "1" then "ok" else "nofix") ++ post ++ digestB b2 ++ ":" ++ toString consumed
        -- the reference encoder speaks about the value only when the input IS its encoding;
        -- for any other accepted input the property demands the fixpoint (class `ok`) only
        let spec := match Spec.WireSpec.message Crypto.sha256 magic m with
          | some sb => if b.take consumed == sb then "ok" ++ post ++ digestB sb ++ ":" ++ toString consumed else "class:ok"
          | none => "err:spec"
        model ++ "\t" ++ spec
  | o => errStr o ++ "\t*"

/-! ### payload level (`T::read`, `T::write`, `size`) -/

def pencH {α} [DecidableEq α] (c : Codec α) (t : Tok α) (spec : α → Bytes) (ts : List String) : Option String :=
  match t.get ts with
  | some (v, []) =>
    let bytes := c.enc v
    let rb := match c.dec bytes with
      | .ok (v', r) => if v' = v ∧ r = [] then "1" else "0"
      | .err e => "e:" ++ e
      | .panic _ => "p"
    let sb := spec v
    let rb' := if decide (c.wf v) then "1" else rb
    some ("ok:" ++ digestB bytes ++ ":" ++ toString (c.size v) ++ ":" ++ rb ++ "\t" ++
          "ok:" ++ digestB sb ++ ":" ++ toString sb.length ++ ":" ++ rb')
  | _ => bad

def pdecH {α} [DecidableEq α] (c : Codec α) (t : Tok α) (spec : α → Bytes) (b : Bytes) : Option String :=
  match c.dec b with
  | .ok (v, r) =>
    let consumed := b.length - r.length
    let b2 := c.enc v
    let fix := match c.dec b2 with
      | .ok (v2, r2) => if v2 = v ∧ r2 = [] ∧ (c.enc v2 == b2) = true then "ok" else "nofix"
      | _ => "nofix"
    let post := ":" ++ digestS (joinToks (t.put v)) ++ ":"
    let sb := spec v
    let specS := if b.take consumed == sb then "ok" ++ post ++ digestB sb ++ ":" ++ toString consumed else "class:ok"
    some (fix ++ post ++ digestB b2 ++ ":" ++ toString consumed ++ "\t" ++ specS)
  | o => some (errStr o ++ "\t*")

open Spec in
def ptype (ty : String) (enc : Bool) (ts : List String) (b : Bytes) : Option String :=
  let go {α} [DecidableEq α] (c : Codec α) (t : Tok α) (spec : α → Bytes) : Option String :=
    if enc then pencH c t spec ts else pdecH c t spec b
  match ty with
  | "varint" => go varint tNat WireSpec.compactSize
  | "outpoint" => go outPointC kOutPoint WireSpec.outPoint
  | "txin" => go txInC kTxIn WireSpec.txIn
  | "txout" => go txOutC kTxOut WireSpec.txOut
  | "tx" => go txC kTx WireSpec.tx
  | "blockheader" => go blockHeaderC kBlockHeader WireSpec.blockHeader
  | "invvect" => go invVectC kInvVect WireSpec.invVect
  | "inv" => go invC kInv WireSpec.inv
  | "blocklocator" => go blockLocatorC kBlockLocator WireSpec.blockLocator
  | "ping" => go pingC kPing WireSpec.ping
  | "feefilter" => go feeFilterC kFeeFilter WireSpec.feeFilter
  | "sendcmpct" => go sendCmpctC kSendCmpct WireSpec.sendCmpct
  | "nodeaddr" => go nodeAddrC kNodeAddr WireSpec.nodeAddr
  | "nodeaddrex" => go nodeAddrExC kNodeAddrEx WireSpec.nodeAddrEx
  | "version" => go versionC kVersion WireSpec.version
  | "addr" => go addrC kAddr WireSpec.addr
  | "headers" => go headersC kHeaders WireSpec.headers
  | "block" => go blockC kBlock WireSpec.block
  | "merkleblock" => go merkleBlockC kMerkleBlock WireSpec.merkleBlock
  | "filterload" => go filterLoadC kFilterLoad WireSpec.filterLoad
  | "filteradd" => go filterAddC kFilterAdd WireSpec.filterAdd
  | "reject" => go rejectC kReject WireSpec.reject
  | "protoconf" => go protoconfC kProtoconf WireSpec.protoconf
  | "authch" => go authchC kAuthch WireSpec.authch
  | "createstrm" => go createstrmC kCreatestrm WireSpec.createstrm
  | "streamack" => go streamackC kStreamack WireSpec.streamack
  | "cmpctblock" => go cmpctblockC kCmpctblock WireSpec.cmpctblock
  | "getblocktxn" => go getblocktxnC kGetblocktxn WireSpec.getblocktxn
  | "blocktxn" => go blocktxnC kBlocktxn WireSpec.blocktxn
  | "msgheader" => go messageHeaderC kMessageHeader
      (fun h => h.magic ++ h.command ++ WireSpec.le32 h.payloadSize ++ h.checksum)
  | _ => bad

def handle (op : String) (a : List String) : Option String :=
  match op, a with
  | "c05.enc", kind :: magic :: ts =>
    match unhexF magic with
    | some mg =>
      if kind == "addrv2" then
        match kAddrV2.get ts with
        | some (v, []) => some (encAddrV2 mg v)
        | _ => bad
      else
        match parseMsg kind ts with
        | some m => some (encMsg mg m)
        | none => bad
    | none => bad
  | "c05.penc", ty :: ts => ptype ty true ts []
  | "c05.dec", [_, magic, hex] =>
    match unhexF magic, unhexF hex with
    | some mg, some b => some (decMsg mg b)
    | _, _ => bad
  | "c05.pdec", [ty, hex] =>
    match unhexF hex with
    | some b => ptype ty false [] b
    | none => bad
  -- the same decode through a reader that returns short reads: the decoders are built on `read_exact`, the answer does not
  -- depend on how the bytes are handed out
  | "c05.pdecfrag", [ty, hex, _k] =>
    match unhexF hex with
    | some b => ptype ty false [] b
    | none => bad
  | "c05.enc", _ => bad
  | "c05.penc", _ => bad
  | "c05.dec", _ => bad
  | "c05.pdec", _ => bad
  | _, _ => none

end CG.Drv.C05

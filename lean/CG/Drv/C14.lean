import CG.Model.Block
import CG.Generated.Tables
import CG.Drv.Hex
import CG.Model.Merkle
import CG.Spec.Bip37
import CG.Crypto.Sha256
namespace CG.Drv.C14
open CG CG.Drv

def parseHexList (s : String) : Option (List Bytes) :=
  if s == "-" then some [] else (s.splitOn ",").mapM unhex

def listStr (l : List Bytes) : String :=
  if l.isEmpty then "-" else ",".intercalate (l.map hexOf)

def modelStr : Outcome (List Bytes) → String
  | .ok l => "ok:" ++ listStr l
  | .err e => "err:" ++ e
  | .panic s => "panic:" ++ s

def specStr : Option (List Bytes) → String
  | some l => "ok:" ++ listStr l
  | none => "err:BadData"

def unitStr : Outcome Unit → String
  | .ok _ => "ok" | .err e => "err:" ++ e | .panic s => "panic:" ++ s

/-- transaction ids used by `c14.built`: `sha256d(seed as 8 LE bytes ‖ index as 4 LE bytes)` -/
def seededIds (seed n : Nat) : List Bytes :=
  (List.range n).map fun i => Crypto.sha256d (natToLEn 8 seed ++ natToLEn 4 i)

def parseMask (s : String) : List Bool := if s == "-" then [] else s.toList.map (· == '1')

/-! ### whole blocks (`c14.blockv`, `c14.binputs`): `CG.Model.Block` on blocks assembled from kind letters -/
namespace Blk
open CG.Model.Block

def heights : Heights :=
  ⟨Generated.C14_BCH_FORK_HEIGHT_MAINNET, Generated.C14_BCH_FORK_HEIGHT_TESTNET,
   Generated.C14_GENESIS_HEIGHT_MAINNET, Generated.C14_GENESIS_HEIGHT_TESTNET⟩

def ci : Nat := Generated.C14_COINBASE_INDEX

/-- the transaction the harness builds for a kind letter at position `i` (`prev` = outpoint spent by the previous
    non-coinbase transaction) -/
def kindTx (k : Char) (i : Nat) (prev : Option OutPoint) : Option BTx :=
  let f1 : Bytes := List.replicate 32 1       -- stands for the id of the first funding transaction
  let f2 : Bytes := List.replicate 32 2
  if k == 'c' then some ⟨[⟨List.replicate 32 0, ci⟩], fun _ _ => some "unreachable"⟩
  else if k == 'v' then some ⟨[⟨f1, i % 700⟩], fun _ _ => none⟩
  else if k == 'x' then some ⟨[⟨List.replicate 32 0xee, i⟩], fun _ _ => some "BadData"⟩
  else if k == 'g' then some ⟨[⟨f2, 2 * (i % 32)⟩], fun _ g => if g then none else some "ScriptError"⟩
  else if k == 'l' then some ⟨[⟨f2, 2 * (i % 32) + 1⟩], fun f _ => if f then some "ScriptError" else none⟩
  else if k == 'f' then some ⟨[⟨f2, 2 * (i % 32) + 1⟩], fun _ _ => none⟩
  else if k == 'd' then prev.map fun p => ⟨[p], fun _ _ => none⟩
  else none

def kindTxs (ks : List Char) : Option (List BTx) :=
  let rec go : List Char → Nat → Option OutPoint → Option (List BTx)
    | [], _, _ => some []
    | k :: r, i, prev =>
      match kindTx k i prev with
      | none => none
      | some t =>
        let prev' := if k == 'c' then prev else t.inputs.head?
        (go r (i + 1) prev').map (t :: ·)
  go ks 0 none

def netOf (n : Nat) : Option Network := Network.all[n]?

def cls (o : Outcome Unit) : String :=
  match o with
  | .ok _ => "ok"
  | .err e => "err:" ++ (e.splitOn ":").headD e
  | .panic s => "panic:" ++ s

def handleV (a : List String) : Option String :=
  match a with
  | [n, h, rootok, kinds] =>
    match n.toNat?.bind netOf, h.toInt?, kindTxs (if kinds == "-" then [] else kinds.toList) with
    | some net, some height, some txs =>
      -- the root check of an empty block is `BadData("Txn count is zero")`; otherwise the harness computes the root itself
      let rc : Outcome Unit := if txs.isEmpty then .err "BadData" else if rootok == "1" then .ok () else .err "BadData"
      let m := validate heights ci height net rc txs
      -- reference: the characterisation proved in `CG.Props.Block.Block_validate_iff`
      let f := requireForkid heights net height
      let g := useGenesis heights net height
      let accept := rc == .ok () && (txs.filter (isCoinbase ci)).length == 1 &&
        txs.all (fun t => isCoinbase ci t || (t.verdict f g).isNone)
      some (cls m ++ "\t" ++ (if accept then "class:ok" else "class:err"))
    | _, _, _ => some "bad-request\tbad-request"
  | _ => some "bad-request\tbad-request"

def handleI (a : List String) : Option String :=
  match a with
  | [kinds] =>
    match kindTxs (if kinds == "-" then [] else kinds.toList) with
    | some txs =>
      let m := match inputs ci txs with
        | .ok l => "ok:" ++ toString l.length
        | .err e => "err:" ++ (e.splitOn ":").headD e
        | .panic s => "panic:" ++ s
      let sp := (txs.filter (fun t => !isCoinbase ci t)).flatMap (·.inputs)
      let spec := if sp.eraseDups.length == sp.length then "ok:" ++ toString sp.length else "err:BadData"
      some (m ++ "\t" ++ spec)
    | none => some "bad-request\tbad-request"
  | _ => some "bad-request\tbad-request"

end Blk

/-- returns `model<TAB>spec` -/
def handle (op : String) (a : List String) : Option String :=
  match op, a with
  | "c14.blockv", a => Blk.handleV a
  | "c14.binputs", a => Blk.handleI a
  -- c14.mb <total_transactions> <header merkle root> <flags> <hashes>
  | "c14.mb", [n, root, flags, hashes] =>
    match n.toNat?, unhex root, unhex flags, parseHexList hashes with
    | some n, some root, some flags, some hashes =>
      let m := Model.Merkle.validate Crypto.sha256d n flags hashes root
      let s := Spec.Bip37.extract Crypto.sha256d n flags hashes root
      some (modelStr m ++ "\t" ++ specStr s)
    | _, _, _, _ => some "bad-request\tbad-request"
  -- c14.built <n> <seed> <mask>: proof built by the reference builder for the seeded ids
  | "c14.built", [n, seed, mask] =>
    match n.toNat?, seed.toNat? with
    | some n, some seed =>
      let ids := seededIds seed n
      let mask := parseMask mask
      let root := (Spec.Bip37.merkleRoot Crypto.sha256d ids).getD []
      let (flags, hashes) := Spec.Bip37.build Crypto.sha256d ids mask
      let m := Model.Merkle.validate Crypto.sha256d n flags hashes root
      -- spec: accepted, and exactly the matched ids in block order
      some (modelStr m ++ "\t" ++ "ok:" ++ listStr (Spec.Bip37.matchedIds ids mask))
    | _, _ => some "bad-request\tbad-request"
  -- c14.block <claimed root> <serialised transactions>
  | "c14.block", [root, txs] =>
    match unhex root, parseHexList txs with
    | some root, some txs =>
      let ids := txs.map Crypto.sha256d
      let m := Model.Merkle.blockRootCheck Crypto.sha256d ids root
      let s : String :=
        match Spec.Bip37.merkleRoot Crypto.sha256d ids with
        | some r => if r = root then "ok" else "err:BadData"
        | none => "err:BadData"
      some (unitStr m ++ "\t" ++ s)
    | _, _ => some "bad-request\tbad-request"
  | _, _ => none

end CG.Drv.C14

import CG.Drv.Hex
import CG.Model.Merkle
import CG.Spec.Bip37
import CG.Crypto.Sha256
namespace CG.Drv.C14
open CG CG.Drv

def parseHexList (s : String) : Option (List Bytes) :=
  if s == "-" then some [] else (s.splitOn ",").mapM unhex

def listStr (l : List Bytes) : String :=
  if l.isEmpty then "-" else ",".intercalate (l.map hexOf)

def modelStr : Outcome (List Bytes) → String
  | .ok l => "ok:" ++ listStr l
  | .err e => "err:" ++ e
  | .panic s => "panic:" ++ s

def specStr : Option (List Bytes) → String
  | some l => "ok:" ++ listStr l
  | none => "err:BadData"

def unitStr : Outcome Unit → String
  | .ok _ => "ok" | .err e => "err:" ++ e | .panic s => "panic:" ++ s

/-- transaction ids used by `c14.built`: `sha256d(seed as 8 LE bytes ‖ index as 4 LE bytes)` -/
def seededIds (seed n : Nat) : List Bytes :=
  (List.range n).map fun i => Crypto.sha256d (natToLEn 8 seed ++ natToLEn 4 i)

def parseMask (s : String) : List Bool := if s == "-" then [] else s.toList.map (· == '1')

/-- returns `model<TAB>spec` -/
def handle (op : String) (a : List String) : Option String :=
  match op, a with
  -- c14.mb <total_transactions> <header merkle root> <flags> <hashes>
  | "c14.mb", [n, root, flags, hashes] =>
    match n.toNat?, unhex root, unhex flags, parseHexList hashes with
    | some n, some root, some flags, some hashes =>
      let m := Model.Merkle.validate Crypto.sha256d n flags hashes root
      let s := Spec.Bip37.extract Crypto.sha256d n flags hashes root
      some (modelStr m ++ "\t" ++ specStr s)
    | _, _, _, _ => some "bad-request\tbad-request"
  -- c14.built <n> <seed> <mask>: proof built by the reference builder for the seeded ids
  | "c14.built", [n, seed, mask] =>
    match n.toNat?, seed.toNat? with
    | some n, some seed =>
      let ids := seededIds seed n
      let mask := parseMask mask
      let root := (Spec.Bip37.merkleRoot Crypto.sha256d ids).getD []
      let (flags, hashes) := Spec.Bip37.build Crypto.sha256d ids mask
      let m := Model.Merkle.validate Crypto.sha256d n flags hashes root
      -- spec: accepted, and exactly the matched ids in block order
      some (modelStr m ++ "\t" ++ "ok:" ++ listStr (Spec.Bip37.matchedIds ids mask))
    | _, _ => some "bad-request\tbad-request"
  -- c14.block <claimed root> <serialised transactions>
  | "c14.block", [root, txs] =>
    match unhex root, parseHexList txs with
    | some root, some txs =>
      let ids := txs.map Crypto.sha256d
      let m := Model.Merkle.blockRootCheck Crypto.sha256d ids root
      let s : String :=
        match Spec.Bip37.merkleRoot Crypto.sha256d ids with
        | some r => if r = root then "ok" else "err:BadData"
        | none => "err:BadData"
      some (unitStr m ++ "\t" ++ s)
    | _, _ => some "bad-request\tbad-request"
  | _, _ => none

end CG.Drv.C14

import CG.Drv.Script
namespace CG.Drv.C01
open CG CG.Drv CG.Drv.Script CG.Model.Interp

/-- does the model execute OP_NUM2BIN on an operand where library and reference differ?
    (known finding `num2bin-sign`): decided by comparing model and spec on the NUM2BIN body. -/
def num2binDiffers (m : Int) (n : Bytes) : Bool :=
  match Model.Interp.num2bin m n, Spec.ScriptSem.num2bin m n with
  | .ok a, .ok b => a != b
  | .err _, .err _ => false
  | _, _ => true

def handle (op : String) (a : List String) : Option String :=
  match op with
  | "c01.eval" =>
    match parseEval a with
    | none => some "bad-request\tbad-request"
    | some r =>
      let m := showRes (modelEval r)
      let s := showRes (specEval r)
      -- signature: the spec and the model differ, and they agree once the spec uses the
      -- library's NUM2BIN → the difference is the recorded NUM2BIN finding
      let sig := if m != s && showRes (specLibN2BEval r) == m then "num2bin-sign" else ""
      some (m ++ "\t" ++ s ++ (if sig.isEmpty then "" else "\t" ++ sig))
  | "c01.verdict" =>
    match a with
    | [sc, fl, orc] =>
      match unhex sc, fl.toNat?, parseOracle orc with
      | some sc, some fl, some (o, lt, sq) =>
        let m := showUnit (Model.Interp.eval hashes (oracle lt sq) o sc fl)
        let s := showUnit (Spec.ScriptSem.eval hashes (oracle lt sq) o sc fl)
        let r : EvalReq := ⟨sc, fl, none, none, none, none, o, lt, sq⟩
        let viaLib := showUnit (match specLibN2BEval r with
          | .ok res => (match res.stack with
              | [] => .err "ScriptError"
              | t :: _ => if Spec.ScriptSem.truthy t then .ok () else .err "ScriptError")
          | .err e => .err e | .panic p => .panic p)
        some (m ++ "\t" ++ s ++ (if m != s && viaLib == m then "\tnum2bin-sign" else ""))
      | _, _, _ => some "bad-request\tbad-request"
    | _ => some "bad-request\tbad-request"
  | _ => none

end CG.Drv.C01

import CG.Drv.Hex
import CG.Drv.Script
import CG.Model.ScriptBuild
import CG.Model.ScriptText
import CG.Spec.ScriptBuild
import CG.Spec.ScriptSem
import CG.Crypto.Sha256
import CG.Crypto.Secp256k1
namespace CG.Drv.C16
open CG CG.Drv CG.Model.ScriptBuild CG.Model.ScriptText CG.Model.ScriptNum

/-- long byte strings travel as length + double SHA-256 (same rule in harness/src/c16.rs and checks/C16.py) -/
def compact (b : Bytes) : String :=
  if b.isEmpty then "-" else if b.length ≤ 120 then hexOf b
  else "#" ++ toString b.length ++ "." ++ hexOf (Crypto.sha256d b)

/-- `x:<hex>` | `r:<len>:<fill>:<step>` (byte i = (fill + i·step) mod 256) -/
def expand (spec : String) : Option Bytes :=
  match spec.splitOn ":" with
  | ["x", h] => unhex h
  | ["r", n, f, s] =>
    match n.toNat?, f.toNat?, s.toNat? with
    | some n, some f, some s => some ((List.range n).map fun i => UInt8.ofNat ((f + i * s) % 256))
    | _, _, _ => none
  | _ => none

def tf (b : Bool) : String := if b then "t" else "f"
def strBytes (s : Str) : Bytes := s.map fun c => UInt8.ofNat c.toNat

def orc : Model.Interp.Checker Script.OState := Script.oracle 't' 't'
def st0 : Script.OState := { sigs := [], log := [] }

def evalSummary (r : Outcome (Model.Interp.EvalResult Script.OState)) : String :=
  match r with
  | .ok r => "ok:" ++ toString r.stack.length ++ ":" ++ toString r.alt.length ++ ":" ++ compact (r.stack.headD [])
  | .err e => "err." ++ e
  | .panic p => "panic:" ++ p

def resBytes : Outcome Bytes → Option String
  | .ok v => some ("ok." ++ hexOrDash v)
  | .err e => some ("err." ++ e)
  | .panic _ => none
def resBool : Outcome Bool → Option String
  | .ok v => some (tf v)
  | .err e => some ("err." ++ e)
  | .panic _ => none

def bad : Option String := some "bad-request\tbad-request"

/-- does the script lie in the property's domain: all pushes complete, every opcode one the interpreter executes -/
def inDomain (items : List Item) : Bool :=
  items.all fun it => match it with
    | .trunc _ => false
    | .op b => Model.Interp.decodeOp b != .bad
    | _ => true

/-- the name tables with the two recorded defects repaired one at a time (only used to name the cause) -/
def fixCount (T : Tables) : Tables := { T with pd2 := 2, pd4 := 2 }
/-- the executed opcodes recorded as lacking a printer name (known finding `text-unnamed-opcode`): OP_INVERT,
    OP_LSHIFT, OP_RSHIFT, OP_NOP1, OP_NOP4..OP_NOP10.  Any other opcode losing its name is NOT covered. -/
def recordedUnnamed : List Nat := [131, 152, 153, 176, 179, 180, 181, 182, 183, 184, 185]
def fixNames (T : Tables) : Tables :=
  let unnamed := recordedUnnamed.filter fun b => !(Named T (UInt8.ofNat b))
  let nm (b : Nat) : Str := "OP_UNNAMED_".toList ++ (toString b).toList
  { T with printer := (List.range 256).map (fun b => if unnamed.contains b then nm b else T.printer.getD b []),
           parser := T.parser ++ unnamed.map (fun b => (nm b, b)) }

def outStr (t : Str) (r : Outcome Bytes) : String :=
  match r with
  | .ok b => "ok:" ++ compact (strBytes t) ++ ":" ++ compact b
  | .err e => "err:" ++ e
  | .panic p => "panic:" ++ p

def handle (op : String) (a : List String) : Option String :=
  match op, a with
  | "c16.push", [spec, fl] =>
    match expand spec, fl.toNat? with
    | some d, some fl =>
      let s := appendData [] d
      let ev := Model.Interp.coreEval Script.hashes orc st0 s fl none none none none
      let m := "ok:" ++ hexOrDash (s.take (s.length - d.length)) ++ ":" ++ toString s.length ++ ":" ++ compact s ++ ":" ++ evalSummary ev
      -- spec: shortest push of the wire format; the reference interpreter leaves exactly `d`
      let s' := Spec.ScriptBuild.minimalPush d
      let ev' := Spec.ScriptSem.coreEval Script.hashes orc st0 s' fl none none none none
      let evs := match ev' with
        | .ok r => if r.stack = [d] ∧ r.alt = [] then "ok:1:0:" ++ compact d else "spec-eval-differs"
        | _ => "spec-eval-differs"
      let sp := "ok:" ++ hexOrDash (s'.take (Spec.ScriptBuild.overhead d.length)) ++ ":" ++ toString (d.length + Spec.ScriptBuild.overhead d.length)
                  ++ ":" ++ compact s' ++ ":" ++ evs
      some (m ++ "\t" ++ sp)
    | _, _ => bad
  | "c16.pushn", fl :: specs =>
    match specs.mapM expand, fl.toNat? with
    | some ds, some fl =>
      let items (st : List Bytes) : String := ",".intercalate (st.reverse.map compact)
      let s := ds.foldl appendData []
      let evm := match Model.Interp.coreEval Script.hashes orc st0 s fl none none none none with
        | .ok r => "ok:" ++ toString r.stack.length ++ ":" ++ toString r.alt.length ++ ":" ++ items r.stack
        | .err e => "err." ++ e
        | .panic p => "panic:" ++ p
      let m := "ok:" ++ toString s.length ++ ":" ++ compact s ++ ":" ++ evm
      -- spec: the shortest push of each datum in order; the reference interpreter leaves exactly the data, first at the bottom
      let s' := (ds.map Spec.ScriptBuild.minimalPush).flatten
      let evs := match Spec.ScriptSem.coreEval Script.hashes orc st0 s' fl none none none none with
        | .ok r => if r.stack = ds.reverse ∧ r.alt = [] then "ok:" ++ toString ds.length ++ ":0:" ++ items ds.reverse else "spec-eval-differs"
        | _ => "spec-eval-differs"
      some (m ++ "\t" ++ "ok:" ++ toString s'.length ++ ":" ++ compact s' ++ ":" ++ evs)
    | _, _ => bad
  | "c16.num", [n, fl] =>
    match n.toInt?, fl.toNat? with
    | some n, some fl =>
      let m := match appendNum [] n with
        | .err e => "err:" ++ e
        | .panic p => "panic:" ++ p
        | .ok s =>
          let dec := match Model.Interp.coreEval Script.hashes orc st0 s fl none none none none with
            | .ok r => (match r.stack with
                | t :: _ => (match decodeNum t with
                    | .ok v => toString r.stack.length ++ "." ++ toString v
                    | .err e => "err." ++ e
                    | .panic p => "panic:" ++ p)
                | [] => "empty")
            | .err e => "err." ++ e
            | .panic p => "panic:" ++ p
          "ok:" ++ hexOrDash s ++ ":" ++ dec
      let sp := if n.natAbs ≤ 2147483647 then
          "ok:" ++ hexOrDash (Spec.ScriptBuild.minimalPush (Spec.ScriptSem.encodeMin n)) ++ ":1." ++ toString n
        else "class:err"
      some (m ++ "\t" ++ sp)
    | _, _ => bad
  | "c16.lock", [h, o] =>
    match unhex h, unhex o with
    | some h, some o =>
      let s := createLockScript h
      let m := match resBytes (extractPubkeyhash s), resBool (checkLockScriptAddr h s), resBool (checkLockScriptAddr o s) with
        | some e, some b1, some b2 => "ok:" ++ hexOrDash s ++ ":" ++ tf (checkLockScript s) ++ ":" ++ e ++ ":" ++ b1 ++ ":" ++ b2
        | _, _, _ => "panic:lock"
      let sp := "ok:" ++ hexOrDash (Spec.ScriptBuild.p2pkhLock h) ++ ":t:ok." ++ hexOrDash h ++ ":t:" ++ tf (o == h)
      some (m ++ "\t" ++ sp)
    | _, _ => bad
  | "c16.unlock", [sig, pk, o] | "c16.libsig", [sig, pk, o] =>
    match unhex sig, unhex pk, unhex o with
    | some sig, some pk, some o =>
      let s := createUnlockScript sig pk
      let m := match resBytes (extractPubkey s), resBool (checkUnlockScriptAddr pk s), resBool (checkUnlockScriptAddr o s) with
        | some e, some b1, some b2 => "ok:" ++ compact s ++ ":" ++ tf (checkUnlockScript s) ++ ":" ++ e ++ ":" ++ b1 ++ ":" ++ b2
        | _, _, _ => "panic:unlock"
      let inWindow := 9 ≤ sig.length ∧ sig.length ≤ 73 ∧ pk.length = 33
      let envelope := (Crypto.parseDerStrict sig.dropLast).isSome
      let sp :=
        if op == "c16.libsig" ∧ !(decide inWindow && envelope) then "err:library-signature-outside-DER-envelope"
        else if inWindow then "ok:" ++ compact (Spec.ScriptBuild.p2pkhUnlock sig pk) ++ ":t:ok." ++ hexOrDash pk ++ ":t:" ++ tf (o == pk)
        else "*"
      some (m ++ "\t" ++ sp)
    | _, _, _ => bad
  | "c16.gensig", [k, _, _] =>
    match unhex k with
    | some k =>
      let x := Crypto.beToNat k
      some ("*\t" ++ (if 0 < x ∧ x < Crypto.n then "ok:t:t:t:t" else "class:err"))
    | none => bad
  | "c16.chk", [s, pk] =>
    match unhex s, unhex pk with
    | some s, some pk =>
      let m := match resBytes (extractPubkeyhash s), resBytes (extractPubkey s), resBool (checkUnlockScriptAddr pk s) with
        | some eh, some ep, some b => "ok:" ++ tf (checkLockScript s) ++ ":" ++ eh ++ ":" ++ tf (checkUnlockScript s) ++ ":" ++ ep ++ ":" ++ b
        | _, _, _ => "panic:chk"
      some (m ++ "\t*")
    | _, _ => bad
  | "c16.print", [s] =>
    match unhex s with
    | some s => some ("ok:" ++ compact (strBytes (printString pinned s)) ++ "\t*")
    | none => bad
  | "c16.text", [s] =>
    match unhex s with
    | some s =>
      let t := printString pinned s
      let r := parseString pinned t
      let m := outStr t r
      let idS := outStr t (.ok s)
      if !(inDomain (lex s)) then some (m ++ "\t*")
      else if r = .ok s then some (m ++ "\t" ++ idS)
      else
        -- which recorded defect explains the difference?
        let viaCount := roundTrip (fixCount pinned) s = .ok s
        let viaNames := roundTrip (fixNames pinned) s = .ok s
        let viaBoth := roundTrip (fixNames (fixCount pinned)) s = .ok s
        let sig := if viaCount then "text-pushdata-token-count"
          else if viaNames then "text-unnamed-opcode"
          else if viaBoth then "text-pushdata-token-count,text-unnamed-opcode"
          else ""
        some (m ++ "\t" ++ idS ++ (if sig.isEmpty then "" else "\t" ++ sig))
    | none => bad
  | "c16.parse", [t] =>
    match unhex t with
    | some t =>
      let str : Str := t.map fun b => Char.ofNat b.toNat
      let m := match parseString pinned str with
        | .ok b => "ok:" ++ compact b
        | .err _ => "exc:ValueError"     -- every ChainGangError surfaces as ValueError (errors.rs)
        | .panic p => "panic:" ++ p
      some (m ++ "\tnopanic")
    | none => bad
  | _, _ => none

end CG.Drv.C16

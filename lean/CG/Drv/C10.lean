import CG.Drv.Hex
import CG.Model.Bits
import CG.Model.Mnemonic
import CG.Spec.Bip39
import CG.Crypto.Sha256
import CG.Generated.Wordlists
namespace CG.Drv.C10
open CG CG.Drv CG.Model.Bits

def natList (l : List Nat) : String :=
  if l.isEmpty then "-" else ",".intercalate (l.map toString)

def splitList (s : String) : List String := if s == "-" then [] else s.splitOn ","

def allSome {α} : List (Option α) → Option (List α)
  | [] => some []
  | none :: _ => none
  | some a :: r => (allSome r).map (a :: ·)

def idxStr (wl : List Bytes) (ws : List Bytes) : String :=
  if ws.isEmpty then "-" else
    ",".intercalate (ws.map fun w => match Spec.Bip39.indexOf w wl with | some i => toString i | none => "?")

def bitsStr (b : Bits) : String := hexOrDash b.data ++ "/" ++ toString b.len

/-- property outcome for a decoded sentence: accepted with that entropy, or rejected with an error
    (the property does not name the error variant) -/
def specDecode (wl : List Bytes) (ws : List Bytes) : String :=
  if ws.length > 192 then "*"      -- more than 64 checksum bits: outside the claim (the code compares 64 bits, panics beyond 256)
  else match Spec.Bip39.decode Crypto.sha256 wl ws with
    | .entropy e => "ok:" ++ hexOrDash e
    | .unknownWord => "class:err"
    | .badChecksum => "class:err"
    | .badLength => "*"            -- word count not a multiple of 3: BIP-39 defines nothing, the property claims nothing

def decodeReply (wl : List Bytes) (ws : List Bytes) : String :=
  outcomeStr hexOrDash (Model.Mnemonic.mnemonicDecode Crypto.sha256 ws wl) ++ "\t" ++ specDecode wl ws

/-- runs the append program of `c10.bits` -/
def buildBits : List String → Bits → Option (Outcome Bits)
  | [], b => some (.ok b)
  | p :: ps, b =>
    match p.splitOn "/" with
    | [h, n] =>
      match unhex h, n.toNat? with
      | some d, some n =>
        match append b (fromSlice d n) with
        | .ok b' => buildBits ps b'
        | o => some o
      | _, _ => none
    | _ => none

def query (b : Bits) (q : String) : String :=
  let body := (q.drop 1).toString
  match body.splitOn "." with
  | [i, n] =>
    match i.toNat?, n.toNat? with
    | some i, some n =>
      if q.startsWith "e" then
        match extract b i n with | .ok v => toString v | _ => "P"
      else
        match extractByte b i n with | .ok v => toString v.toNat | _ => "P"
    | _, _ => "bad-request"
  | _ => "bad-request"

def handle (op : String) (a : List String) : Option String :=
  match op, a with
  | "c10.wordlist", [lang] =>
    match Generated.Wordlists.byName lang with
    | some wl => some ("ok:" ++ ",".intercalate (wl.map hexOrDash) ++ "\t*")
    | none => some "bad-request\tbad-request"
  | "c10.encode", [lang, e] =>
    match Generated.Wordlists.byName lang, unhex e with
    | some wl, some e =>
      let m := match Model.Mnemonic.mnemonicEncode Crypto.sha256 e wl with
        | .ok ws => "ok:" ++ idxStr wl ws
        | .err x => "err:" ++ x
        | .panic s => "panic:" ++ s
      let s := match Spec.Bip39.encodeIdx Crypto.sha256 e with
        | some idx => "ok:" ++ natList idx
        | none => "*"
      some (m ++ "\t" ++ s)
    | _, _ => some "bad-request\tbad-request"
  | "c10.roundtrip", [lang, e] =>
    match Generated.Wordlists.byName lang, unhex e with
    | some wl, some e =>
      let m := match Model.Mnemonic.mnemonicEncode Crypto.sha256 e wl with
        | .ok ws => outcomeStr hexOrDash (Model.Mnemonic.mnemonicDecode Crypto.sha256 ws wl)
        | .err x => "err:" ++ x
        | .panic s => "panic:" ++ s
      let s := match Spec.Bip39.encodeIdx Crypto.sha256 e with
        | some _ => "ok:" ++ hexOrDash e
        | none => "*"
      some (m ++ "\t" ++ s)
    | _, _ => some "bad-request\tbad-request"
  | "c10.decode", [lang, idx] =>
    match Generated.Wordlists.byName lang with
    | some wl =>
      match allSome ((splitList idx).map fun s => s.toNat?.bind (wl[·]?)) with
      | some ws => some (decodeReply wl ws)
      | none => some "bad-request\tbad-request"
    | none => some "bad-request\tbad-request"
  | "c10.decodew", [lang, ws] =>
    match Generated.Wordlists.byName lang, allSome ((splitList ws).map unhex) with
    | some wl, some ws => some (decodeReply wl ws)
    | _, _ => some "bad-request\tbad-request"
  | "c10.fromslice", [d, n] =>
    match unhex d, n.toNat? with
    | some d, some n => some ("ok:" ++ bitsStr (fromSlice d n) ++ "\t*")
    | _, _ => some "bad-request\tbad-request"
  | "c10.bits", [parts, qs] =>
    match buildBits (splitList parts) Model.Bits.Bits.new with
    | some (.ok b) =>
      let ans := (splitList qs).map (query b)
      some ("ok:" ++ bitsStr b ++ "/" ++ (if ans.isEmpty then "-" else ",".intercalate ans) ++ "\t*")
    | some (.err e) => some ("err:" ++ e ++ "\t*")
    | some (.panic s) => some ("panic:" ++ s ++ "\t*")
    | none => some "bad-request\tbad-request"
  | _, _ => none

end CG.Drv.C10

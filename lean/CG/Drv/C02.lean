import CG.Drv.Hex
import CG.Model.Sighash
import CG.Spec.Bip143
import CG.Spec.LegacySighash
import CG.Crypto.Sha256
namespace CG.Drv.C02
open CG CG.Drv CG.Model.TxSer CG.Model.Sighash

def splitList (s : String) (sep : String) : List String := if s == "-" then [] else s.splitOn sep

def parseHash (s : String) : Option Bytes :=
  match unhex s with
  | some [b] => some (List.replicate 32 b)
  | some bs => if bs.length = 32 then some bs else none
  | none => none

def parseIn (s : String) : Option TxIn :=
  match s.splitOn ":" with
  | [h, i, u, q] => do
    let h ← parseHash h; let i ← i.toNat?; let u ← unhex u; let q ← q.toNat?
    pure ⟨⟨h, i⟩, u, q⟩
  | _ => none

def parseOut (s : String) : Option TxOut :=
  match s.splitOn ":" with
  | [a, l] => do let a ← a.toInt?; let l ← unhex l; pure ⟨a, l⟩
  | _ => none

def parseReq (s : String) : Option Req :=
  match s.splitOn ":" with
  | [kd, n, code, k, sat, ty] => do
    let kind ← (match kd with
      | "p" | "P" => some Kind.preimage | "h" | "H" => some Kind.digest | "w" | "W" => some Kind.wallet
      | _ => none)
    let n ← n.toNat?; let code ← unhex code; let k ← k.toNat?; let sat ← sat.toInt?; let ty ← ty.toNat?
    if ty < 256 then pure ⟨kind, n, code, k, sat, UInt8.ofNat ty⟩ else none
  | _ => none

def ansStr : Outcome Bytes → String
  | .ok b => "ok:" ++ hexOrDash b
  | .err e => "err:" ++ e
  | .panic _ => "panic"

def joinAnswers (as : List (Outcome Bytes)) : String :=
  if as.any Outcome.isPanic then "panic" else ";".intercalate (as.map ansStr)

/-- fresh computation by the specification.  `sig_hash_preimage(_checksig_index)` is the library's
    "BIP-143 preimage" entry point: it is specified by the BIP-143 layout for every type byte (the byte
    goes into field 10); the digest entry points follow the FORKID bit. -/
def specAnswer (tx : Tx) (r : Req) : Option Bytes :=
  match r.kind with
  | .preimage => Spec.Bip143.preimage Crypto.sha256d tx r.nInput r.code r.k r.sat r.ty
  | _ =>
    if Spec.Bip143.forkId r.ty then Spec.Bip143.digest Crypto.sha256d tx r.nInput r.code r.k r.sat r.ty
    else Spec.LegacySighash.digest Crypto.sha256d tx r.nInput r.code r.k r.ty

def specStr : Option Bytes → String
  | some b => "ok:" ++ hexOrDash b
  | none => "err:BadArgument"

/-- outside the claim: a BIP-143 script code with a separator after the selected check -/
def reqOutside (r : Req) : Bool :=
  (Spec.Bip143.forkId r.ty || r.kind == .preimage) && Spec.Bip143.outsideClaim r.code r.k

def optOfOutcome : Outcome Bytes → Option Bytes
  | .ok b => some b
  | _ => none

/-- known-finding signatures for one request: non-empty only when the model's selection differs from
    the specification's -/
def reqSigs (r : Req) : List String :=
  let forkid := Spec.Bip143.forkId r.ty || r.kind == .preimage
  let m := extractSubscript r.code r.k
  let s := if forkid then Spec.Bip143.scriptCode r.code r.k else Spec.LegacySighash.scriptCode r.code r.k
  if optOfOutcome m == s then []
  else
    let ops := Spec.Bip143.parseScript r.code
    let rawScan := ops.any (fun o => o.body.any (fun b => b == 0xab || b == 0xac))
    let nSep := (ops.filter Spec.Bip143.Op.isSep).length
    let singleSep := nSep == 1 && (match ops with | o :: _ => !o.isSep | [] => false)
    (if rawScan then ["subscript-raw-scan"] else []) ++ (if singleSep then ["subscript-single-sep-prefix"] else [])

def withTx (a : List String) (f : Tx → List Req → String) : String :=
  match a with
  | [ver, lt, ins, outs, reqs] =>
    let r : Option String := do
      let ver ← ver.toNat?; let lt ← lt.toNat?
      let ins ← (splitList ins ",").mapM parseIn
      let outs ← (splitList outs ",").mapM parseOut
      let reqs ← (splitList reqs ";").mapM parseReq
      pure (f ⟨ver, ins, outs, lt⟩ reqs)
    r.getD "bad-request\tbad-request"
  | _ => "bad-request\tbad-request"

def cacheStr (c : Cache) : String :=
  let f : Option Bytes → String := fun o => match o with | some b => hexOrDash b | none => "-"
  f c.hashPrevouts ++ "," ++ f c.hashSequence ++ "," ++ f c.hashOutputs

def handle (op : String) (a : List String) : Option String :=
  match op with
  | "c02.seq" => some (withTx a fun tx reqs =>
      let (_, answers) := run Crypto.sha256d tx Cache.empty reqs
      let model := joinAnswers answers
      let spec := if reqs.any reqOutside then "*" else ";".intercalate (reqs.map (fun r => specStr (specAnswer tx r)))
      let sigs := (reqs.flatMap reqSigs).eraseDups
      model ++ "\t" ++ spec ++ (if sigs.isEmpty then "" else "\t" ++ ",".intercalate sigs))
  | "c02.cache" => some (withTx a fun tx reqs =>
      let (c, answers) := run Crypto.sha256d tx Cache.empty reqs
      (if answers.any Outcome.isPanic then "panic" else "ok:" ++ cacheStr c) ++ "\t*")
  | _ => none

end CG.Drv.C02

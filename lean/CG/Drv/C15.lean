import CG.Drv.Hex
import CG.Model.Writer
import CG.Spec.Writer
/-!
Driver for C15.  Requests (fields: kind, reference bytes, call trace, schedule, tail):

  c15.w     <kind> <ref hex> <trace> <sched> <open|closed|full>
  c15.calls <kind> <ref hex> <trace> <sched> <open|closed|full>

`trace` = requested length of every `write` call the serialiser made on an unlimited writer
(comma list; `-` = unknown: the value is then treated as one `write_all`).  `sched` = comma list of
items `k` or `kxN` (`k` repeated `N` times); `0` = interrupted call.  The model replays the trace
with every call taken to be a `write_all`.
-/
namespace CG.Drv.C15
open CG CG.Drv CG.Model.Writer

def parseNats (s : String) : Option (List Nat) :=
  if s == "-" then some [] else (s.splitOn ",").mapM String.toNat?

def parseSched (s : String) : Option (List Nat) :=
  if s == "-" then some []
  else
    ((s.splitOn ",").mapM (fun (item : String) =>
      match item.splitOn "x" with
      | [k] => k.toNat?.map (fun k => [k])
      | [k, n] => match k.toNat?, n.toNat? with
        | some k, some n => some (List.replicate n k)
        | _, _ => none
      | _ => none)).map List.flatten

def parseTail : String → Option Tail
  | "open" => some .accept
  | "closed" => some .fail
  | "full" => some .zero
  | _ => none

def isPrefix : Bytes → Bytes → Bool
  | [], _ => true
  | _ :: _, [] => false
  | a :: as, b :: bs => a == b && isPrefix as bs

/-- canonical outcome of a `c15.w` case -/
def verdict (r : Outcome Unit) (got ref : Bytes) : String :=
  match r with
  | .ok _ =>
    if got == ref then "ok:same"
    else if got.length == ref.length then "ok:differs"
    else s!"ok:dropped:{got.length}/{ref.length}"
  | .err e => if isPrefix got ref then s!"err:{e}:{got.length}" else s!"err:{e}:notprefix"
  | .panic s => "panic:" ++ s

def chk (log : List Nat) : Nat := log.foldl (fun a x => (a * 31 + x) % 4294967296) 7

def callsStr (r : Outcome Unit) (log : List Nat) : String :=
  let c := match r with
    | .ok _ => "ok"
    | .err e => "err:" ++ e
    | .panic s => "panic:" ++ s
  s!"{c}:{log.length}:{log.sum}:{chk log}"

def handle (op : String) (a : List String) : Option String :=
  if op != "c15.w" && op != "c15.calls" then none
  else
    match a with
    | [_kind, ref, trace, sched, tail] =>
      match unhex ref, parseNats trace, parseSched sched, parseTail tail with
      | some ref, some trace, some sched, some tail =>
        let trace := if trace.sum == ref.length && !trace.isEmpty then trace else
          (if ref.isEmpty then [] else [ref.length])
        let ops := opsOfTrace trace ref
        let (r, d') := runOps (limited sched tail) ops
        if op == "c15.w" then
          some (verdict r d'.buf ref ++ "\t" ++ Spec.Writer.verdict (tail != .accept) trace sched)
        else
          some (callsStr r d'.log.reverse ++ "\t*")
      | _, _, _, _ => some "bad-request\tbad-request"
    | _ => some "bad-request\tbad-request"

end CG.Drv.C15

import CG.Drv.Hex
import CG.Model.Framing
import CG.Spec.Reassembly
import CG.Crypto.Sha256
import CG.Generated.Tables
/-!
Driver for C11: `c11.recv <magic> <stream> <schedule> <kinds>` — replays the schedule through the
model of the receive loop (`CG.Model.Framing.recvLoop`) and computes the reference answer
(`CG.Spec.Reassembly.parseAll`: the messages of the stream read contiguously; it never looks at
the schedule).  The payload codecs are instantiated with the identity on (command, payload); a
message is rendered `<command>/<bytes 4..12 of sha256d(payload)>`, `Message::Other` as
`?<hex of the string>` with an empty tag.
-/
namespace CG.Drv.C11
open CG CG.Drv

def chunks12 : Nat → List Nat → List (List Nat)
  | 0, _ => []
  | _, [] => []
  | fuel + 1, l => l.take 12 :: chunks12 fuel (l.drop 12)

def cmdTable (flat : List Nat) : List Bytes :=
  (chunks12 (flat.length + 1) flat).map (·.map UInt8.ofNat)

def payloadCmds : List Bytes := cmdTable CG.Generated.C11_CMDS_PAYLOAD
def bareCmds : List Bytes := cmdTable CG.Generated.C11_CMDS_BARE
def blockCmd : Bytes := CG.Generated.C11_CMD_BLOCK.map UInt8.ofNat

def asciiName (cmd : Bytes) : String :=
  String.ofList ((cmd.takeWhile (· != 0)).map fun b => Char.ofNat b.toNat)

def renderMsg (cmd payload : Bytes) : String :=
  asciiName cmd ++ "/" ++ hexOf (((Crypto.sha256d payload).drop 4).take 8)

/-- `String::from_utf8(command.to_vec()).unwrap_or("Unknown")`, shown as the hex of its bytes -/
def renderOther (cmd : Bytes) : String :=
  let ba : ByteArray := ⟨cmd.toArray⟩
  "?" ++ (if ByteArray.validateUTF8 ba then hexOf cmd else hexOf "Unknown".toUTF8.toList) ++ "/-"

def cfg (magic : Bytes) : Model.Framing.Cfg String :=
  { magic := magic, maxPayload := CG.Generated.MAX_PAYLOAD_SIZE, blockCmd := blockCmd,
    H := Crypto.sha256d,
    kind := fun c => if payloadCmds.contains c then .payload else if bareCmds.contains c then .bare else .other,
    decode := fun c p => .ok (renderMsg c p), bare := fun c => renderMsg c [], other := renderOther }

def wire (magic : Bytes) : Spec.Reassembly.Wire String :=
  { magic := magic, maxPayload := CG.Generated.MAX_PAYLOAD_SIZE, blockCmd := blockCmd,
    H := Crypto.sha256d,
    kind := fun c => if payloadCmds.contains c then .payload else if bareCmds.contains c then .bare else .other,
    decode := fun c p => .ok (renderMsg c p), bare := fun c => renderMsg c [], other := renderOther }

def parseSched (s : String) : Option (List Nat) :=
  if s == "-" then some [] else
    (s.splitOn ",").foldr (fun tok acc =>
      match acc with
      | none => none
      | some l =>
        match tok.splitOn "*" with
        | [a] => a.toNat?.map (· :: l)
        | [a, k] => match a.toNat?, k.toNat? with
          | some a, some k => some (List.replicate k a ++ l)
          | _, _ => none
        | _ => none) (some [])

def stripErr (e : String) : String := if e.startsWith "err:" then (e.drop 4).toString else e

def render (msgs : List String) (fin : String) : String :=
  fin ++ ":" ++ toString msgs.length ++ ":" ++ (if msgs.isEmpty then "-" else ",".intercalate msgs)

/-- any sequence of `AtomicReader::read` calls; per call `F<hex>`, `T`, `D` -/
def readsLoop (r : Model.AtomicReader.Rd) : List Nat → List String
  | [] => []
  | n :: ns =>
    match Model.AtomicReader.aread r n with
    | (.full bs, r') => ("F" ++ hexOf bs) :: readsLoop r' ns
    | (.timedOut, r') => "T" :: readsLoop r' ns
    | (.disconnected, r') => "D" :: readsLoop r' ns

def parseNats (s : String) : Option (List Nat) :=
  if s == "-" then some [] else (s.splitOn ",").mapM String.toNat?

def handle (op : String) (a : List String) : Option String :=
  match op, a with
  | "c11.recv", [magic, stream, sched, _kinds] =>
    match unhex magic, unhex stream, parseSched sched with
    | some magic, some stream, some sched =>
      -- enough passes for the loop to stop (theorem C11_terminates: schedule + bytes + messages + 1)
      let fuel := sched.length + stream.length + stream.length / 24 + 2
      let (msgs, fin) := Model.Framing.recvLoop (cfg magic) fuel (Model.Framing.LoopState.init stream sched)
      let m := match fin with
        | .stopped e => render msgs (stripErr e)
        | .waiting => render msgs "waiting"
      let (smsgs, se) := Spec.Reassembly.parseAll (wire magic) stream
      some (m ++ "\t" ++ render smsgs (stripErr se))
    | _, _, _ => some "bad-request\tbad-request"
  | "c11.recv", _ => some "bad-request\tbad-request"
  | "c11.reads", [stream, sched, _kinds, sizes] =>
    match unhex stream, parseSched sched, parseNats sizes with
    | some stream, some sched, some sizes =>
      let res := readsLoop (Model.AtomicReader.Rd.new ⟨stream, sched⟩) sizes
      let m := "ok:" ++ (if res.isEmpty then "-" else ",".intercalate res)
      -- reference: stream transparency and all-or-nothing, whatever the schedule — the bytes of the
      -- successful reads, in order, must be the stream's prefix of that total length, each of the
      -- requested size; the exact T/D pattern depends on the schedule and is the model's to predict
      some (m ++ "\t*")
    | _, _, _ => some "bad-request\tbad-request"
  | "c11.reads", _ => some "bad-request\tbad-request"
  | _, _ => none

end CG.Drv.C11

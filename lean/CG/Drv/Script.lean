import CG.Drv.Hex
import CG.Model.Interp
import CG.Spec.ScriptSem
import CG.Crypto.Sha256
import CG.Crypto.Sha1
import CG.Crypto.Ripemd160
import CG.Crypto.Hash160
/-! Shared driver code for the script-evaluation properties (C01, C07, C16, C17). -/
namespace CG.Drv.Script
open CG CG.Drv CG.Model.Interp

def hashes : Hashes :=
  { ripemd160 := Crypto.ripemd160, sha1 := Crypto.sha1, sha256 := Crypto.sha256,
    hash160 := Crypto.hash160, hash256 := Crypto.sha256d }

/-- scripted checker: outcomes for successive `check_sig` calls (`t`/`f`/`e`, exhausted = `f`),
    one char for `check_locktime`, one for `check_sequence` (`t`,`f`,`e`, `p` = true iff the
    argument is even); the state keeps the remaining outcomes and the call log. -/
structure OState where
  sigs : List Char
  log : List String

def oracle (lt sq : Char) : Checker OState :=
  let num (c : Char) (v : Int) : Outcome Bool :=
    if c = 't' then .ok true else if c = 'f' then .ok false
    else if c = 'p' then .ok (v % 2 = 0) else .err "IllegalState"
  { checkSig := fun st sig pk scr =>
      let entry := hexOrDash sig ++ "," ++ hexOrDash pk ++ "," ++ hexOrDash scr
      match st.sigs with
      | [] => (.ok false, { st with log := entry :: st.log })
      | c :: r =>
        let st' := { sigs := r, log := entry :: st.log }
        if c = 't' then (.ok true, st') else if c = 'f' then (.ok false, st') else (.err "IllegalState", st')
    checkLocktime := fun _ v => num lt v
    checkSequence := fun _ v => num sq v }

/-- `tfe:t:p` → (sig outcomes, locktime char, sequence char) -/
def parseOracle (s : String) : Option (OState × Char × Char) :=
  match s.splitOn ":" with
  | [a, b, c] =>
    let sigs := if a == "-" then [] else a.toList
    match b.toList, c.toList with
    | [lt], [sq] => some ({ sigs := sigs, log := [] }, lt, sq)
    | _, _ => none
  | _ => none

/-- stack syntax: `~` = None, `=` = empty list, else items bottom→top joined by `,` (`-` = empty item) -/
def parseStack (s : String) : Option (Option Stack) :=
  if s == "~" then some none
  else if s == "=" then some (some [])
  else
    let items := (s.splitOn ",").map unhex
    if items.all Option.isSome then some (some (items.filterMap id).reverse) else none

def showStack (s : Stack) : String :=
  if s.isEmpty then "=" else ",".intercalate (s.reverse.map hexOrDash)

def parseOptNat (s : String) : Option (Option Nat) :=
  if s == "~" then some none else s.toNat?.map some

def showRes (r : Outcome (EvalResult OState)) : String :=
  match r with
  | .ok r =>
    let pos := match r.pos with | none => "~" | some p => toString p
    let log := if r.chk.log.isEmpty then "=" else ";".intercalate r.chk.log.reverse
    "ok:" ++ showStack r.stack ++ "|" ++ showStack r.alt ++ "|" ++ pos ++ "|" ++ log
  | .err e => "err:" ++ e
  | .panic p => "panic:" ++ p

def showUnit : Outcome Unit → String
  | .ok _ => "ok" | .err e => "err:" ++ e | .panic p => "panic:" ++ p

structure EvalReq where
  script : Bytes
  flags : Nat
  start : Option Nat
  brk : Option Nat
  stack : Option Stack
  alt : Option Stack
  st : OState
  lt : Char
  sq : Char

/-- `<script> <flags> <start> <break> <stack> <alt> <oracle>` -/
def parseEval (a : List String) : Option EvalReq :=
  match a with
  | [sc, fl, st, br, stk, alt, orc] =>
    match unhex sc, fl.toNat?, parseOptNat st, parseOptNat br, parseStack stk, parseStack alt, parseOracle orc with
    | some sc, some fl, some st, some br, some stk, some alt, some (o, lt, sq) =>
      some ⟨sc, fl, st, br, stk, alt, o, lt, sq⟩
    | _, _, _, _, _, _, _ => none
  | _ => none

def modelEval (r : EvalReq) : Outcome (EvalResult OState) :=
  Model.Interp.coreEval hashes (oracle r.lt r.sq) r.st r.script r.flags r.start r.brk r.stack r.alt

def specEval (r : EvalReq) : Outcome (EvalResult OState) :=
  Spec.ScriptSem.coreEval hashes (oracle r.lt r.sq) r.st r.script r.flags r.start r.brk r.stack r.alt

/-- the reference semantics with the *library's* NUM2BIN: used only to recognise the recorded
    NUM2BIN finding (a case is tagged iff spec ≠ model but this variant = model). -/
def specLibN2BEval (r : EvalReq) : Outcome (EvalResult OState) :=
  let C := oracle r.lt r.sq
  let pre : Bool := r.flags % 2 = 1
  let ex := fun (i : Nat) (op : Op) (st : St OState) =>
    if op = Op.num2bin then Model.Interp.exec hashes C pre r.script i op st
    else Spec.ScriptSem.exec hashes C pre r.script i op st
  let st0 : St OState := { stack := r.stack.getD [], alt := r.alt.getD [], branch := [], checkIndex := 0, chk := r.st }
  match runWith ex r.script r.brk (r.script.length + 1) (r.start.getD 0) st0 with
  | .ok (st, i) => .ok { stack := st.stack, alt := st.alt, pos := r.brk.map (fun _ => i), chk := st.chk }
  | .err e => .err e
  | .panic p => .panic p

end CG.Drv.Script

import CG.Drv.Hex
import CG.Model.TxValidate
import CG.Spec.Conservation
import CG.Model.TxScript
import CG.Model.TxChecker
import CG.Drv.Script
namespace CG.Drv.C04
open CG CG.Drv CG.Model.TxValidate

def splitList (s : String) (sep : String) : List String := if s == "-" then [] else s.splitOn sep

def parseHash (s : String) : Option Bytes :=
  match unhex s with
  | some [b] => some (List.replicate 32 b)
  | some bs => if bs.length = 32 then some bs else none
  | none => none

def parseProfile : String → Option Profile
  | "dev" => some .dev
  | "rel" => some .release
  | _ => none

def parseIn (s : String) : Option TxIn :=
  match s.splitOn ":" with
  | [h, i, u] => do
    let h ← parseHash h; let i ← i.toNat?; let u ← unhex u
    pure { prevOutput := ⟨h, i⟩, unlockScript := u, sequence := 0xffffffff }
  | [h, i, u, q] => do
    let h ← parseHash h; let i ← i.toNat?; let u ← unhex u; let q ← q.toNat?
    pure { prevOutput := ⟨h, i⟩, unlockScript := u, sequence := q }
  | _ => none

def parseOut (s : String) : Option TxOut :=
  match s.splitOn ":" with
  | [a, l] => do let a ← a.toInt?; let l ← unhex l; pure ⟨a, l⟩
  | _ => none

def parseUtxo (s : String) : Option (OutPoint × TxOut) :=
  match s.splitOn ":" with
  | [h, i, a, l] => do
    let h ← parseHash h; let i ← i.toNat?; let a ← a.toInt?; let l ← unhex l
    pure (⟨h, i⟩, ⟨a, l⟩)
  | _ => none

/-- the map built by inserting the entries in order, keeping the first for each outpoint -/
def lookup (m : List (OutPoint × TxOut)) (o : OutPoint) : Option TxOut :=
  (m.find? (fun e => e.1 = o)).map (·.2)

/-- Script oracle for the harness's script alphabet {OP_0 = 0x00, OP_1 = 0x51}: the evaluation of
    `unlock ‖ OP_CODESEPARATOR ‖ lock` pushes one item per byte; it succeeds iff the last item pushed
    is OP_1 (an empty program leaves an empty stack → ScriptError).  Other bytes: not decided. -/
def trivialScript (unlock lock : Bytes) : Option (Outcome Bool) :=
  let prog := unlock ++ lock
  if prog.all (fun b => b == 0x00 || b == 0x51) then
    match prog.getLast? with
    | some 0x51 => some (.ok true)
    | _ => some (.ok false)
  else none

/-- the script check of one input as `Tx::validate` performs it (`CG.Model.TxScript.validateInput`: the unlocking script
    alone, then the locking script on the stack it left, fresh alt stack and control-flow state), decided here for scripts
    that contain no signature / timelock opcode byte at all (their checks need the transaction context, which C03 covers);
    `flags` = 1 for pre-genesis rules -/
def realScript (x : Model.TxChecker.Ctx) (flags : Nat) (unlock lock : Bytes) : Option (Outcome Bool) :=
  let sigop := fun (b : UInt8) => b == 0xac || b == 0xad || b == 0xae || b == 0xaf
  if (unlock ++ lock).any sigop then none
  else
    -- the timelock opcodes are answered by the model of `TransactionChecker::check_locktime/check_sequence` for this input
    let C : Model.Interp.Checker CG.Drv.Script.OState :=
      { (CG.Drv.Script.oracle 'e' 'e') with
        checkLocktime := fun _ t => Model.TxChecker.checkLocktime x t
        checkSequence := fun _ t => Model.TxChecker.checkSequence x t }
    let o : CG.Drv.Script.OState := { sigs := [], log := [] }
    match Model.TxScript.validateInput CG.Drv.Script.hashes C o unlock lock flags with
    | .ok _ => some (.ok true)
    | .err _ => some (.ok false)
    | .panic p => some (.panic p)

def unitStr : Outcome Unit → String
  | .ok _ => "ok" | .err e => "err:" ++ e | .panic _ => "panic"

def parsePayloadTx (s : String) : Option Tx :=
  match s.splitOn "/" with
  | [n, outs] => do
    let n ← n.toNat?
    let amts ← (splitList outs ",").mapM String.toInt?
    pure { inputs := (List.range n).map (fun i => { prevOutput := ⟨List.replicate 32 7, i⟩ }),
           outputs := amts.map (fun a => ⟨a, []⟩), lockTime := 0 }
  | _ => none

def payloadReply (m : Outcome Unit) (txs : List Tx) : String :=
  let okSpec := txs.all (fun tx => Spec.Conservation.payloadAcceptsB (tx.outputs.map (·.satoshis)))
  unitStr m ++ "\t" ++ (if okSpec then "nopanic" else "class:err")

def handle (op : String) (a : List String) : Option String :=
  match op, a with
  | "c04.tx", [prof, _fork, gen, lt, ins, outs, utxos, pregen] =>
    let r : Option String := do
      let p ← parseProfile prof
      let lt ← lt.toNat?
      let ins ← (splitList ins ",").mapM parseIn
      let outs ← (splitList outs ",").mapM parseOut
      let m ← (splitList utxos ",").mapM parseUtxo
      let tx : Tx := { version := 2, inputs := ins, outputs := outs, lockTime := lt }
      let ut : Utxos := lookup m
      -- the oracle: decided from the scripts actually used by input i
      let oracle : Nat → Option (Outcome Bool) := fun i =>
        match ins[i]? with
        | none => some (.ok false)
        | some tin =>
          match ut tin.prevOutput with
          | none => some (.ok false)      -- never consulted: validation fails before the script loop
          | some o =>
            match trivialScript tin.unlockScript o.lockScript with
            | some r => some r
            | none =>
              -- pre-genesis rules unless the Genesis rules are on and the spent output is not marked pre-genesis
              let pre := ((splitList pregen ",").filterMap String.toNat?).any fun k =>
                match m[k]? with | some e => e.1 == tin.prevOutput | none => false
              let stx : Model.TxSer.Tx :=
                { version := 2, lockTime := lt, outputs := [],
                  inputs := ins.map fun j => { prevOutput := ⟨j.prevOutput.hash, j.prevOutput.index⟩, unlockScript := j.unlockScript, sequence := j.sequence } }
              realScript { tx := stx, input := i, satoshis := o.satoshis, requireForkid := false }
                (if gen == "1" && !pre then 0 else 1) tin.unlockScript o.lockScript
      if (List.range ins.length).all (fun i => (oracle i).isSome) then
        let sok : Nat → Outcome Bool := fun i => (oracle i).getD (.ok false)
        let mres := validate p (gen == "1") tx ut sok
        let view : Spec.Conservation.View :=
          { inputs := ins.map (fun i => (i.prevOutput.hash, i.prevOutput.index))
            spent := fun r => (ut ⟨r.1, r.2⟩).map (·.satoshis)
            outputs := outs.map (·.satoshis)
            lockTime := lt
            scriptPass := fun i => match sok i with | .ok true => true | _ => false }
        let spec := if Spec.Conservation.acceptsB view then "nopanic" else "class:err"
        pure (unitStr mres ++ "\t" ++ spec)
      else pure "*\t*"
    some (r.getD "bad-request\tbad-request")
  | "c04.blocktxn", [prof, txs] =>
    let r : Option String := do
      let p ← parseProfile prof
      let txs ← (splitList txs ";").mapM parsePayloadTx
      pure (payloadReply (blocktxnValidate p txs) txs)
    some (r.getD "bad-request\tbad-request")
  | "c04.cmpct", [prof, _wire, txs] =>
    let r : Option String := do
      let p ← parseProfile prof
      let txs ← (splitList txs ";").mapM parsePayloadTx
      pure (payloadReply (cmpctblockValidate p txs) txs)
    some (r.getD "bad-request\tbad-request")
  | _, _ => none

end CG.Drv.C04

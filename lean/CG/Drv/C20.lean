import CG.Drv.Hex
import CG.Model.Bloom
import CG.Spec.Bip37Bloom
import CG.Crypto.Murmur3
import CG.Crypto.Sha256
namespace CG.Drv.C20
open CG CG.Drv

/-- the `murmur3` crate, instantiated with the import-free Lean MurmurHash3 -/
def H : Model.Bloom.HashFn := fun seed data => Crypto.murmur3_32 seed data

/-- filter notation: `-`, lowercase hex, `Z<len>` (zeros), `F<len>` (all ones),
    `P<len>.<a>` (byte j = (a·(j+1) + j/256) mod 256) -/
def fltOf (s : String) : Option Bytes :=
  match s.toList with
  | 'Z' :: r => (String.ofList r).toNat?.map fun n => List.replicate n 0
  | 'F' :: r => (String.ofList r).toNat?.map fun n => List.replicate n 0xff
  | 'P' :: r =>
    match (String.ofList r).splitOn "." with
    | [n, a] =>
      match n.toNat?, a.toNat? with
      | some n, some a => some ((List.range n).map fun j => UInt8.ofNat ((a * (j + 1) + j / 256) % 256))
      | _, _ => none
    | _ => none
  | _ => unhex s

/-- short byte strings in hex, long ones as `H` + double SHA-256 -/
def reprB (b : Bytes) : String :=
  if b.length ≤ 40 then hexOrDash b else "H" ++ hexOf (Crypto.sha256d b)

def hexList (s : String) : Option (List Bytes) :=
  if s == "-" then some [] else (s.splitOn ",").mapM unhex

def bit (b : Bool) : String := if b then "1" else "0"

def vStr : Outcome Unit → String
  | .ok _ => "1" | _ => "0"

/-- contains verdicts for a list of elements, or the first panic -/
def verdicts (f : Model.Bloom.BloomFilter) : List Bytes → Outcome String
  | [] => .ok ""
  | d :: ds =>
    match Model.Bloom.contains H true f d with
    | .ok b => (verdicts f ds).map (fun s => bit b ++ s)
    | .err e => .err e
    | .panic s => .panic s

def outStr : Outcome String → String
  | .ok s => "ok:" ++ s | .err e => "err:" ++ e | .panic s => "panic:" ++ s

def specVerdicts (flt : Bytes) (n tw : Nat) (ds : List Bytes) : String :=
  String.join (ds.map fun d => bit (Spec.Bip37Bloom.contains H flt n tw d))

def useElem : Bytes := [0xde, 0xad]

/-- declared filter length of a payload (guard shared with the harness: allocation is C06's subject) -/
def declaredLen (b : Bytes) : Nat :=
  match Spec.Bip37Bloom.parseCompactSize b with
  | some (n, _) => n
  | none => 0

def isNormalNonneg (bits : Nat) : Bool :=
  let e := bits / 2 ^ 52 % 2048
  decide (e ≠ 0) && decide (e ≠ 2047) && decide (bits / 2 ^ 63 % 2 = 0)

/-- returns `model<TAB>spec` -/
def handle' (op : String) (a : List String) : Option String :=
  let bad := some "bad-request\tbad-request"
  match op, a with
  | "c20.add", [flt, n, tw, elem, probes] =>
    match fltOf flt, n.toNat?, tw.toNat?, unhex elem, hexList probes with
    | some flt, some n, some tw, some elem, some probes =>
      let f : Model.Bloom.BloomFilter := ⟨flt, n, tw⟩
      let m : Outcome String :=
        match Model.Bloom.add H true f elem with
        | .ok f1 =>
          (verdicts f1 (elem :: probes)).map fun v =>
            vStr (Model.Bloom.validate f) ++ ":" ++ reprB f1.filter ++ ":" ++ v
        | .err e => .err e
        | .panic s => .panic s
      let flt' := Spec.Bip37Bloom.insert H flt n tw elem
      let s := "ok:" ++ bit (Spec.Bip37Bloom.withinLimits flt.length n) ++ ":" ++ reprB flt' ++ ":" ++
        specVerdicts flt' n tw (elem :: probes)
      some (outStr m ++ "\t" ++ s)
    | _, _, _, _, _ => bad
  | "c20.seq", [flt, n, tw, elems] =>
    match fltOf flt, n.toNat?, tw.toNat?, hexList elems with
    | some flt, some n, some tw, some elems =>
      let f : Model.Bloom.BloomFilter := ⟨flt, n, tw⟩
      let m : Outcome String :=
        match Model.Bloom.addAll H true f elems with
        | .ok f1 => (verdicts f1 elems).map fun v => reprB f1.filter ++ ":" ++ v
        | .err e => .err e
        | .panic s => .panic s
      let flt' := elems.foldl (fun x d => Spec.Bip37Bloom.insert H x n tw d) flt
      -- no false negatives: every added element is reported present
      let s := "ok:" ++ reprB flt' ++ ":" ++ String.join (elems.map fun _ => "1")
      some (outStr m ++ "\t" ++ s)
    | _, _, _, _ => bad
  | "c20.contains", [flt, n, tw, elem] =>
    match fltOf flt, n.toNat?, tw.toNat?, unhex elem with
    | some flt, some n, some tw, some elem =>
      let m := (Model.Bloom.contains H true ⟨flt, n, tw⟩ elem).map bit
      let s := "ok:" ++ bit (Spec.Bip37Bloom.contains H flt n tw elem)
      some (outStr m ++ "\t" ++ s)
    | _, _, _, _ => bad
  | "c20.new", [ib, pb] =>
    match ib.toNat?, pb.toNat? with
    | some ib, some pb =>
      -- the values of the two size formulas are unknown to the driver; by
      -- `C20_constructor_within_limits` every value gives a filter within the limits
      let m := match Model.Bloom.new (isNormalNonneg ib) (isNormalNonneg pb) .nan .nan 0 with
        | .ok _ => "ok:within" | .err e => "err:" ++ e | .panic s => "panic:" ++ s
      let s := if isNormalNonneg ib && isNormalNonneg pb then "ok:within" else "class:err"
      some (m ++ "\t" ++ s)
    | _, _ => bad
  | "c20.fl_rt", [flt, n, tw, flags] =>
    match fltOf flt, n.toNat?, tw.toNat?, flags.toNat? with
    | some flt, some n, some tw, some flags =>
      let v : Model.Bloom.FilterLoad := ⟨⟨flt, n, tw⟩, flags⟩
      let enc := Model.Bloom.flWrite v
      let rb := match Model.Bloom.flRead enc with
        | .ok (v2, r) => decide (v2 = v) && r.isEmpty
        | _ => false
      let m := "ok:" ++ reprB enc ++ ":" ++ bit (enc.length == Model.Bloom.flSize v) ++ ":" ++ bit rb
      let s := if n < 2 ^ 32 then
          "ok:" ++ reprB (Spec.Bip37Bloom.filterload flt n tw flags) ++ ":1:1"
        else "*"
      some (m ++ "\t" ++ s)
    | _, _, _, _ => bad
  | "c20.fl_read", [payload] =>
    match unhex payload with
    | some b =>
      if declaredLen b > 2 ^ 27 then some "refused:declared-length\t*" else
      let m : Outcome String :=
        match Model.Bloom.flRead b with
        | .ok (v, rest) =>
          let f := v.bloom
          let head := reprB f.filter ++ ":" ++ toString f.numHashFuncs ++ ":" ++ toString f.tweak ++ ":" ++
            toString v.flags ++ ":" ++ toString (b.length - rest.length) ++ ":" ++ vStr (Model.Bloom.flValidate v)
          if f.numHashFuncs > 1000 then .ok (head ++ ":-")
          else
            match Model.Bloom.add H true f useElem with
            | .ok f1 =>
              match Model.Bloom.contains H true f1 useElem with
              | .ok c => .ok (head ++ ":" ++ reprB f1.filter ++ "." ++ bit c)
              | .err e => .err e
              | .panic s => .panic s
            | .err e => .err e
            | .panic s => .panic s
        | .err e => .err e
        | .panic s => .panic s
      let s := match Spec.Bip37Bloom.parseFilterload b with
        | none => "class:err"
        | some d =>
          let head := reprB d.filter ++ ":" ++ toString d.nHash ++ ":" ++ toString d.tweak ++ ":" ++
            toString d.flags ++ ":" ++ toString (b.length - d.rest.length) ++ ":" ++
            bit (Spec.Bip37Bloom.withinLimits d.filter.length d.nHash)
          if d.nHash > 1000 then "ok:" ++ head ++ ":-"
          else
            let flt' := Spec.Bip37Bloom.insert H d.filter d.nHash d.tweak useElem
            -- no false negatives on decoded filters either
            "ok:" ++ head ++ ":" ++ reprB flt' ++ ".1"
      some (outStr m ++ "\t" ++ s)
    | none => bad
  | _, _ => none

/-- `c20.fl_readf <payload> <k>` is `c20.fl_read` through a reader that returns short reads: `FilterLoad::read` is built on
    `read_exact`-style reads, the answer does not depend on how the bytes are handed out -/
def handle (op : String) (a : List String) : Option String :=
  match op, a with
  | "c20.fl_readf", [payload, _k] => handle' "c20.fl_read" [payload]
  | _, _ => handle' op a

end CG.Drv.C20

import CG.Drv.Script
namespace CG.Drv.C07
open CG CG.Drv CG.Drv.Script

/-- C07: the model predicts the exact outcome for the scripted checker; the real checkers
    (transaction, z, transaction-less) are covered by the specification "no panic" only. -/
def handle (op : String) (a : List String) : Option String :=
  match op with
  | "c07.eval" =>
    match parseEval a with
    | none => some "bad-request\tbad-request"
    | some r => some (showRes (modelEval r) ++ "\tnopanic")
  | "c07.verdict" =>
    match a with
    | [sc, fl, orc] =>
      match unhex sc, fl.toNat?, parseOracle orc with
      | some sc, some fl, some (o, lt, sq) =>
        some (showUnit (Model.Interp.eval hashes (oracle lt sq) o sc fl) ++ "\tnopanic")
      | _, _, _ => some "bad-request\tbad-request"
    | _ => some "bad-request\tbad-request"
  | "c07.txeval" => some "*\tnopanic"
  | "c07.zeval" => some "*\tnopanic"
  | "c07.tleval" =>
    -- the transaction-less checker fails every call with IllegalState: scripted oracle `e…`
    match a with
    | [sc, fl, st, br, stk, alt] =>
      match parseEval [sc, fl, st, br, stk, alt, "eeeeeeeeeeeeeeeeeeeeeeeeeeeeeeeeeeeeeeeeeeeeeeeeeeeeeeeeeeeeeeee:e:e"] with
      | none => some "bad-request\tbad-request"
      | some r =>
        let m := match modelEval r with
          | .ok res =>
            let pos := match res.pos with | none => "~" | some p => toString p
            "ok:" ++ showStack res.stack ++ "|" ++ showStack res.alt ++ "|" ++ pos
          | .err e => "err:" ++ e
          | .panic p => "panic:" ++ p
        some (m ++ "\tnopanic")
    | _ => some "bad-request\tbad-request"
  | _ => none

end CG.Drv.C07

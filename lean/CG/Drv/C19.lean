import CG.Model.HashText
import CG.Drv.Hex
import CG.Model.Header
import CG.Spec.Pow
import CG.Crypto.Sha256
namespace CG.Drv.C19
open CG CG.Drv

def parseList (s : String) : List Nat :=
  if s == "-" then [] else (s.splitOn ",").filterMap String.toNat?

def ordStr : Ordering → String
  | .lt => "lt" | .eq => "eq" | .gt => "gt"

def opsStr : Ordering → String
  | .lt => "1100" | .eq => "0101" | .gt => "0011"

def unitStr : Outcome Unit → String
  | .ok _ => "ok" | .err e => "err:" ++ e | .panic s => "panic:" ++ s

/-- returns `model<TAB>spec` -/
def handle (op : String) (a : List String) : Option String :=
  match op, a with
  | "c19.hexenc", [h] =>
    match unhex h with
    | some h =>
      let m := "ok:" ++ String.ofList (Model.HashText.encode h)
      -- reference: the big-endian hex numeral of the little-endian number, 64 digits
      let n := leToNat h
      let digits := (List.range 64).reverse.map fun i => Model.HashText.nibbleChar (n / 16 ^ i % 16)
      some (m ++ "\t" ++ "ok:" ++ String.ofList digits)
    | none => some "bad-request\tbad-request"
  | "c19.hexdec", [s] =>
    match unhex s with
    | some bytes =>
      -- the string byte by byte (a byte of a multi-byte character is not a hex digit either way)
      let cs := bytes.map fun b => Char.ofNat b.toNat
      let m := match Model.HashText.decode cs with
        | .ok h => "ok:" ++ hexOrDash h
        | .err e => "err:" ++ e
        | .panic p => "panic:" ++ p
      let spec := if cs.length == 64 && cs.all (fun c => (Model.HashText.charNibble c).isSome) then "class:ok" else "class:err"
      some (m ++ "\t" ++ spec)
    | none => some "bad-request\tbad-request"
  | "c19.validate", [ts, bits, hash, prev] =>
    match ts.toNat?, bits.toNat?, unhex hash with
    | some ts, some bits, some hash =>
      let prev := parseList prev
      let m := Model.Header.validate ts bits hash prev
      let s := Spec.Pow.validate ts bits hash prev
      some (unitStr m ++ "\t" ++ s.cls)
    | _, _, _ => some "bad-request\tbad-request"
  | "c19.cmp", [x, y] =>
    match unhex x, unhex y with
    | some x, some y =>
      let m := Model.Header.hashCmp x y
      let s := compare (leToNat x) (leToNat y)
      some (ordStr m ++ ":" ++ opsStr m ++ "\t" ++ ordStr s ++ ":" ++ opsStr s)
    | _, _ => some "bad-request\tbad-request"
  | "c19.hash", [v, p, m, t, b, n] =>
    match v.toNat?, unhex p, unhex m, t.toNat?, b.toNat?, n.toNat? with
    | some v, some p, some m, some t, some b, some n =>
      let h : Model.Header.BlockHeader := ⟨v, p, m, t, b, n⟩
      let ser := Model.Header.serialize h
      let r := hexOrDash ser ++ ":" ++ hexOrDash (Model.Header.hash Crypto.sha256d h) ++ ":1"
      -- spec: the layout written out independently
      let ser' := natToLEn 4 v ++ p ++ m ++ natToLEn 4 t ++ natToLEn 4 b ++ natToLEn 4 n
      let r' := hexOrDash ser' ++ ":" ++ hexOrDash (Crypto.sha256 (Crypto.sha256 ser')) ++ ":1"
      some (r ++ "\t" ++ r')
    | _, _, _, _, _, _ => some "bad-request\tbad-request"
  | _, _ => none

end CG.Drv.C19

import CG.Drv.Hex
import CG.Model.Bip32
import CG.Spec.Bip32
import CG.Crypto.Hmac
import CG.Crypto.Hash160
import CG.Crypto.Secp256k1
namespace CG.Drv.C08
open CG CG.Drv

/-- BIP-32 `serP⁻¹`: 33 bytes, tag `02`/`03`, a point on the curve -/
def parse33 (b : Bytes) : Option Crypto.Point :=
  if b.length = 33 then Crypto.parsePubkey b else none

/-- k256 `PublicKey::from_sec1_bytes` on a `[u8; 33]`: besides the compressed tags `02`/`03` the `sec1`
    crate accepts tag `05` ("compact", x only), which k256 decodes as the point with even y -/
def k256Parse33 (b : Bytes) : Option Crypto.Point :=
  match b with
  | 0x05 :: rest => parse33 (0x02 :: rest)
  | _ => parse33 b

/-- k256 instantiated with the independent Lean secp256k1 -/
def ops : Model.Bip32.Ops Crypto.Point where
  hmac := Crypto.hmacSha512
  hash160 := Crypto.hash160
  mulG := fun k => Crypto.Point.mul k Crypto.G
  add := Crypto.Point.add
  isId := fun p => p == Crypto.Point.inf
  ser := Crypto.serCompressed
  parse := k256Parse33

def E : Spec.Bip32.Params Crypto.Point where
  hmacSha512 := Crypto.hmacSha512
  hash160 := Crypto.hash160
  point := fun k => Crypto.Point.mul k Crypto.G
  add := Crypto.Point.add
  isInfinity := fun p => p == Crypto.Point.inf
  serP := Crypto.serCompressed
  parseP := parse33

def V : Model.Bip32.Variant := Model.Bip32.repaired

def mStr : Outcome Bytes → String := outcomeStr hexOf

def sStr : Option Bytes → String
  | some b => "ok:" ++ hexOf b
  | none => "class:err"

def utf8Chars (b : Bytes) : Option (List Char) :=
  (String.fromUTF8? (ByteArray.mk b.toArray)).map String.toList

/-- spec side of a request about a serialized key: `nopanic` when the key is not a valid BIP-32
    serialization (outside the property), else `f` of the imported key -/
def withKey (key : Bytes) (f : Spec.Bip32.XKey Crypto.Point → String) : String :=
  match Spec.Bip32.deserialize E key with
  | none => "nopanic"
  | some x => f x

def cls : Outcome Bytes → String
  | .ok _ => "ok"
  | .err e => e
  | .panic s => "panic:" ++ s

def pairStr (a b : Outcome Bytes) : String :=
  match a, b with
  | .ok x, .ok y => "ok:" ++ hexOf x ++ ":" ++ hexOf y
  | .panic s, _ => "panic:" ++ s
  | _, .panic s => "panic:" ++ s
  | a, b => "err:" ++ cls a ++ "/" ++ cls b

def bad : Option String := some "bad-request\tbad-request"

/-- returns `model<TAB>spec` -/
def handle (op : String) (a : List String) : Option String :=
  match op, a with
  | "c08.path", [master, path] =>
    match unhex master, (unhex path).bind utf8Chars with
    | some mk, some p =>
      let m := Model.Bip32.deriveExtendedKey V ops mk p
      let s := withKey mk fun _ => sStr (Spec.Bip32.deriveSerialized E mk p)
      some (mStr m ++ "\t" ++ s)
    | _, _ => bad
  | "c08.vec", [master, path, expected] =>
    match unhex master, (unhex path).bind utf8Chars, unhex expected with
    | some mk, some p, some ex =>
      let m := Model.Bip32.deriveExtendedKey V ops mk p
      let s := match Spec.Bip32.deriveSerialized E mk p with
        | some b => if b = ex then "ok:" ++ hexOf ex else "vector-mismatch:" ++ hexOf b
        | none => "vector-mismatch:err"
      some (mStr m ++ "\t" ++ s)
    | _, _, _ => bad
  | "c08.priv", [key, i] =>
    match unhex key, i.toNat? with
    | some k, some i =>
      let m := Model.Bip32.derivePrivateKey ops k i
      let s := withKey k fun x => sStr ((Spec.Bip32.childPriv E x i).map (Spec.Bip32.serialize E))
      some (mStr m ++ "\t" ++ s)
    | _, _ => bad
  | "c08.pub", [key, i] =>
    match unhex key, i.toNat? with
    | some k, some i =>
      let m := Model.Bip32.derivePublicKey V.ckdpubAddsParent ops k i
      let s := withKey k fun x =>
        sStr ((Spec.Bip32.childPub E (Spec.Bip32.toPublic E x) i).map (Spec.Bip32.serialize E))
      some (mStr m ++ "\t" ++ s)
    | _, _ => bad
  | "c08.xpub", [key] =>
    match unhex key with
    | some k =>
      let m := Model.Bip32.extendedPublicKey ops k
      let s := withKey k fun x => sStr (some (Spec.Bip32.serialize E (Spec.Bip32.toPublic E x)))
      some (mStr m ++ "\t" ++ s)
    | _ => bad
  | "c08.commute", [key, i] =>
    match unhex key, i.toNat? with
    | some k, some i =>
      let ma := (Model.Bip32.derivePrivateKey ops k i).bind (Model.Bip32.extendedPublicKey ops)
      let mb := (Model.Bip32.extendedPublicKey ops k).bind fun xp => Model.Bip32.derivePublicKey V.ckdpubAddsParent ops xp i
      let s := withKey k fun x =>
        if Spec.Bip32.hardened i then "*" else
        match (Spec.Bip32.childPriv E x i).map (Spec.Bip32.toPublic E), Spec.Bip32.childPub E (Spec.Bip32.toPublic E x) i with
        | some ya, some yb => "ok:" ++ hexOf (Spec.Bip32.serialize E ya) ++ ":" ++ hexOf (Spec.Bip32.serialize E yb)
        | _, _ => "class:err"
      some (pairStr ma mb ++ "\t" ++ s)
    | _, _ => bad
  | _, _ => none

end CG.Drv.C08

import CG.Drv.Hex
import CG.Model.Base58
import CG.Spec.Base58Check
import CG.Crypto.Sha256
import CG.Crypto.Hash160
import CG.Crypto.Secp256k1
namespace CG.Drv.C09
open CG CG.Drv CG.Model.Base58

def H : Bytes → Bytes := Crypto.sha256d

/-- `SigningKey::from_slice(..)` then `.to_bytes()` (k256 0.13 / elliptic-curve 0.13): 32 bytes, or
    24..31 bytes left-padded with zeros; the scalar must be in [1, n-1]. -/
def keyOf (b : Bytes) : Option Bytes :=
  let padded : Option Bytes :=
    if b.length = 32 then some b
    else if 24 ≤ b.length ∧ b.length < 32 then some (List.replicate (32 - b.length) 0 ++ b)
    else none
  match padded with
  | none => none
  | some k => let v := Crypto.beToNat k; if 0 < v ∧ v < Crypto.n then some k else none

/-- request strings are hex of UTF-8 -/
def strOf (field : String) : Option (List Char) :=
  match unhex field with
  | none => none
  | some b => (String.fromUTF8? ⟨b.toArray⟩).map String.toList

def strHex (cs : List Char) : String := hexOrDash (String.ofList cs).toUTF8.toList

def out {α} (f : α → String) : Outcome α → String := outcomeStr f

def chkStr (o : Outcome Bytes) : String := out hexOrDash o
def addrStr (o : Outcome (Bytes × AddrType)) : String := out (fun (h, t) => hexOrDash h ++ ":" ++ t.name) o
def wifStr (o : Outcome (Net × Bytes)) : String := out (fun (n, k) => n.name ++ ":" ++ hexOrDash k) o
def xinfo (k : Bytes) : String :=
  let n := match xkeyNetwork k with | .ok n => n.name | .err e => "err=" ++ e | .panic s => "panic=" ++ s
  let t := match xkeyType k with
    | .ok .pub => "pub" | .ok .priv => "priv" | .err e => "err=" ++ e | .panic s => "panic=" ++ s
  hexOrDash k ++ ":" ++ n ++ ":" ++ t
def xkeyStr (o : Outcome Bytes) : String := out xinfo o

/-- `<string hex>:<decode outcome>` in the harness' format -/
def encdec (s : List Char) (dec : String) : String :=
  if dec.startsWith "ok:" then "ok:" ++ strHex s ++ ":" ++ (dec.drop 3).toString
  else "encdec-fail:" ++ strHex s ++ ":" ++ dec

/-- specification verdict for a decode request: an edited string (≠ the valid original) must be an
    error; strings beyond the crate's 132-character capacity are outside the property. -/
def judge (s : List Char) (strField origField : String) (spec : String) : String :=
  if origField != "-" && origField != strField then "class:err"
  else if s.length > 132 then "*"
  else spec

def isCratePanic (m : String) : String :=
  if m.startsWith "panic:base58:" then "\tb58-crate-capacity" else ""

def reply (model spec : String) : String := model ++ "\t" ++ spec ++ isCratePanic model

def bad : Option String := some "bad-request\tbad-request"

open Spec.Base58Check in
def handle (op : String) (a : List String) : Option String :=
  match op, a with
  | "c09.chk", [sf, orig] =>
    match strOf sf with
    | some s =>
      let m := chkStr (decodeChk true H s)
      let sp := match decodeCheck H s with | some p => "ok:" ++ hexOrDash p | none => "class:err"
      some (reply m (judge s sf orig sp))
    | none => bad
  | "c09.addr", [nf, sf, orig] =>
    match nf.toNat?.bind Net.ofIdx, strOf sf with
    | some n, some s =>
      let m := addrStr (addrDecode H s n)
      let sp := match decodeAddress H n.idx s with
        | some (h, p2sh) => "ok:" ++ hexOrDash h ++ ":" ++ (if p2sh then "P2SH" else "P2PKH")
        | none => "class:err"
      some (reply m (judge s sf orig sp))
    | _, _ => bad
  | "c09.wif", [sf, orig] =>
    match strOf sf with
    | some s =>
      let m := wifStr (wifDecode true H keyOf s)
      let sp := match decodeWif H s with
        | .valid t k => "ok:" ++ (if t then "BSV_Testnet" else "BSV_Mainnet") ++ ":" ++ hexOrDash k
        | .invalid => "class:err"
        | .nonstandard => "*"
      some (reply m (judge s sf orig sp))
    | none => bad
  | "c09.xkey", [sf, orig] =>
    match strOf sf with
    | some s =>
      let m := xkeyStr (xkeyDecode true H s)
      let sp := match decodeXkey H s with
        | some k =>
          let (n, t) := match xkeyVersionInfo k with
            | some (test, priv) => ((if test then "BSV_Testnet" else "BSV_Mainnet"), (if priv then "priv" else "pub"))
            | none => ("err=BadData", "err=BadData")
          "ok:" ++ hexOrDash k ++ ":" ++ n ++ ":" ++ t
        | none => "class:err"
      some (reply m (judge s sf orig sp))
    | none => bad
  | "c09.enc_chk", [pf] =>
    match unhex pf with
    | some p =>
      let s := encodeChk H p
      let m := encdec s (chkStr (decodeChk true H s))
      let s' := encodeCheck H p
      some (reply m ("ok:" ++ strHex s' ++ ":" ++ hexOrDash p))
    | none => bad
  | "c09.enc_addr", [nf, tf, hf] =>
    match nf.toNat?.bind Net.ofIdx, unhex hf with
    | some n, some h =>
      let t : AddrType := if tf == "0" then .p2pkh else .p2sh
      let s := addrEncode H h t n
      let m := encdec s (addrStr (addrDecode H s n))
      let s' := encodeAddress H n.idx (tf != "0") h
      some (reply m ("ok:" ++ strHex s' ++ ":" ++ hexOrDash h ++ ":" ++ t.name))
    | _, _ => bad
  | "c09.enc_wif", [nf, kf] =>
    match unhex kf with
    | some k =>
      let pfx := if nf == "0" then MAIN_PRIVATE_KEY else TEST_PRIVATE_KEY
      let s := bytesToWif H k pfx
      let m := encdec s (wifStr (wifDecode true H keyOf s))
      let v := beNat k
      let sp := if k.length = 32 ∧ 0 < v ∧ v < curveOrder then
          "ok:" ++ strHex (encodeWif H (nf != "0") k) ++ ":" ++
            (if nf == "0" then "BSV_Mainnet" else "BSV_Testnet") ++ ":" ++ hexOrDash k
        else "*"   -- not a valid private key: outside the property
      some (reply m sp)
    | none => bad
  | "c09.enc_xkey", [kf] =>
    match unhex kf with
    | some k =>
      let s := xkeyEncode H k
      let m := encdec s (xkeyStr (xkeyDecode true H s))
      let (n, t) := match xkeyVersionInfo k with
        | some (test, priv) => ((if test then "BSV_Testnet" else "BSV_Mainnet"), (if priv then "priv" else "pub"))
        | none => ("err=BadData", "err=BadData")
      some (reply m ("ok:" ++ strHex (encodeCheck H k) ++ ":" ++ hexOrDash k ++ ":" ++ n ++ ":" ++ t))
    | none => bad
  | "c09.xnew", [nf, tf, df, fpf, idxf, ccf, kf] =>
    match nf.toNat?.bind Net.ofIdx, df.toNat?, unhex fpf, idxf.toNat?, unhex ccf, unhex kf with
    | some n, some depth, some fp, some idx, some cc, some key =>
      let t : XType := if tf == "0" then .pub else .priv
      match xkeyNew n t (UInt8.ofNat depth) fp idx cc key with
      | .ok k =>
        let s := xkeyEncode H k
        let m := encdec s (xkeyStr (xkeyDecode true H s))
        -- spec: BIP-32 layout written out independently
        let ver : Nat := match isMain n.idx, t with
          | true, .pub => 0x0488B21E | true, .priv => 0x0488ADE4
          | false, .pub => 0x043587CF | false, .priv => 0x04358394
        let k' := (natToLEn 4 ver).reverse ++ [UInt8.ofNat depth] ++ fp ++ (natToLEn 4 idx).reverse ++ cc ++
          (if tf == "0" then key else 0 :: key)
        let sp := "ok:" ++ strHex (encodeCheck H k') ++ ":" ++ hexOrDash k' ++ ":" ++
          (if isMain n.idx then "BSV_Mainnet" else "BSV_Testnet") ++ ":" ++ (if tf == "0" then "pub" else "priv")
        some (reply m sp)
      | o => some (reply (out (fun _ => "") o) "class:err")
    | _, _, _, _, _, _ => bad
  | "c09.pk2addr", [nf, pkf] =>
    match nf.toNat?.bind Net.ofIdx, unhex pkf with
    | some n, some pk =>
      match publicKeyToAddress H Crypto.hash160 pk n with
      | .ok s =>
        let m := encdec s (addrStr (addrDecode H s n))
        let h := Crypto.hash160 pk
        some (reply m ("ok:" ++ strHex (encodeAddress H n.idx false h) ++ ":" ++ hexOrDash h ++ ":P2PKH"))
      | o => some (reply (out (fun _ => "") o) "class:err")
    | _, _ => bad
  -- ---- python-feature functions (custom stage of checks/C09.py) ----
  | "c09.py_a2pkh", [sf, orig] =>
    match strOf sf with
    | some s =>
      let m := chkStr (addressToPublicKeyHash true H s)
      let sp := match decodeCheck H s with | some (_ :: rest) => "ok:" ++ hexOrDash rest | _ => "class:err"
      some (reply m (judge s sf orig sp))
    | none => bad
  | "c09.py_wif2b", [sf, orig] =>
    match strOf sf with
    | some s =>
      let m := out (fun (_, k) => hexOrDash k) (wifDecode true H keyOf s)
      let sp := match decodeWif H s with
        | .valid _ k => "ok:" ++ hexOrDash k
        | .invalid => "class:err"
        | .nonstandard => "*"
      some (reply m (judge s sf orig sp))
    | none => bad
  | "c09.py_b2wif", [nf, kf] =>
    match unhex kf with
    | some k =>
      let m := "ok:" ++ strHex (bytesToWif H k (if nf == "0" then MAIN_PRIVATE_KEY else TEST_PRIVATE_KEY))
      let sp := if k.length = 32 then "ok:" ++ strHex (encodeWif H (nf != "0") k) else "*"
      some (reply m sp)
    | none => bad
  | _, _ => none

end CG.Drv.C09

import CG.Base.Bytes
/-! Hex and text helpers for the line-protocol driver (never used in theorems). -/
namespace CG.Drv

def hexDigits : Array Char := "0123456789abcdef".toList.toArray

def hexOf (b : Bytes) : String :=
  String.ofList (b.flatMap fun x => [hexDigits[(x.toNat / 16)]!, hexDigits[(x.toNat % 16)]!])

def hexVal (c : Char) : Option Nat :=
  if '0' ≤ c ∧ c ≤ '9' then some (c.toNat - '0'.toNat)
  else if 'a' ≤ c ∧ c ≤ 'f' then some (c.toNat - 'a'.toNat + 10)
  else if 'A' ≤ c ∧ c ≤ 'F' then some (c.toNat - 'A'.toNat + 10)
  else none

def unhexAux : List Char → Bytes → Option Bytes
  | [], acc => some acc.reverse
  | [_], _ => none
  | a :: b :: r, acc =>
    match hexVal a, hexVal b with
    | some x, some y => unhexAux r (UInt8.ofNat (16 * x + y) :: acc)
    | _, _ => none

/-- "-" denotes the empty byte string (so that fields never vanish when splitting on spaces). -/
def unhex (s : String) : Option Bytes :=
  if s == "-" then some [] else unhexAux s.toList []

def hexOrDash (b : Bytes) : String := if b.isEmpty then "-" else hexOf b

def outcomeStr {α} (f : α → String) : Outcome α → String
  | .ok a => "ok:" ++ f a
  | .err e => "err:" ++ e
  | .panic s => "panic:" ++ s

end CG.Drv

import CG.Model.Rx
import CG.Spec.EventSpec
import CG.Generated.RxAlgo
import CG.Model.RxExplore
/-!
Driver for C13: runs the request's program and schedule through the model (`Algo.repaired` or
`Algo.pinned` according to the tree the harness was built against) with the harness's scheduling
discipline, prints the history in the harness's canonical form, and judges it with `EventSpec`.
-/
namespace CG.Drv.C13
open CG.Model.Rx CG.Spec.EventSpec

def parseBeh (s : String) : Option Beh :=
  if s == "n" then some .plain
  else if s.startsWith "c" then (s.drop 1).toString.toNat?.map .cbSub else none

def parseObs (s : String) : Option (List Beh) :=
  if s == "-" then some [] else (s.splitOn ".").mapM parseBeh

def parseOp (s : String) : Option Op :=
  -- `t` = `poll_timeout` with a timeout far beyond the length of a run: the same operation as `poll`
  if s == "w" || s == "t" then some .poll
  else if s.startsWith "s" then (s.drop 1).toString.toNat?.map .sub
  else if s.startsWith "p" then (s.drop 1).toString.toNat?.map .pub
  else if s.startsWith "x" then (s.drop 1).toString.toNat?.map .drop
  else none

def parseProgs (s : String) : Option (List (List Op)) :=
  (s.splitOn "/").mapM fun th => if th == "-" then some [] else (th.splitOn ".").mapM parseOp

def parseSched (s : String) : Option (List Nat) :=
  if s == "-" then some [] else s.toList.mapM fun ch => if ch.isDigit then some (ch.toNat - 48) else none

/-- a single-shot callback that subscribes an observer of lower or equal index could recurse for ever
    (the new subscriber is served at once); such programs are rejected by both sides -/
def behsOk (kd : Kind) (behs : List Beh) : Bool :=
  kd == .subject || (behs.zipIdx.all fun (b, i) => match b with | .cbSub k => i < k | .plain => true)

/-- harness discipline: a thread inside `Condvar::wait` is never scheduled directly -/
def isWaiter (s : Sys) (t : Tid) : Bool := (waitingOn s t).isSome
def enabledR (s : Sys) (t : Tid) : Bool := !isWaiter s t && enabled s t

/-- a signalled waiter takes its mutex back as soon as it is free (all other threads are stopped) -/
def handoff (s : Sys) : Sys :=
  (List.range s.n).foldl (fun s t => if isWaiter s t then (step s t).getD s else s) s

def pickNext (en : List Tid) : List Tid → Option Tid × List Tid
  | [] => (none, [])
  | c :: r => if en.contains c then (some c, r) else pickNext en r

def replay : Nat → Sys → List Tid → Sys
  | 0, s, _ => s
  | f + 1, s, sched =>
    let en := (List.range s.n).filter (enabledR s)
    match en with
    | [] => s
    | t0 :: _ =>
      let (pick, sched') := pickNext en sched
      let t := pick.getD t0
      replay f (handoff ((step s t).getD s)) sched'

def obStr : Ob → Option String
  | .user i => some (toString i)
  | .poller _ _ => none

def evStr : HEv → Option String
  | .subBegin t (.user o) _ => some s!"S{t}.{o}"
  | .subRet t (.user o) _ => some s!"s{t}.{o}"
  | .pubBegin t e _ => some s!"P{t}.{e}"
  | .pubEnd t e _ => some s!"p{t}.{e}"
  | .deliver t (.user o) _ e _ => some s!"d{t}.{o}.{e}"
  | .dropO t o => some s!"x{t}.{o}"
  | .noop t => some s!"n{t}"
  | .pollBegin t _ => some s!"W{t}"
  | .pollRet t _ e => some s!"w{t}.{e}"
  | _ => none

def histStr (h : Hist) : String :=
  let l := h.filterMap evStr
  if l.isEmpty then "-" else ",".intercalate l

def finStr (s : Sys) : String :=
  let ts := List.range s.n
  if ts.all (finished s) then "fin"
  else if ts.all (fun t => finished s t || (isWaiter s t && !(s.thr t).woken)) then "wait"
  else "dead"

def outcomeStr (s : Sys) : String :=
  let st := String.ofList ((List.range s.n).map fun t => if finished s t then 'D' else 'B')
  (if finStr s == "dead" then "dead:" else "ok:") ++ histStr s.hist ++ "|" ++ st ++ "|" ++ finStr s

/-- a waiter asleep although its latch is open and nobody is about to signal it -/
def pollBlocked (s : Sys) : Bool :=
  (List.range s.n).any fun t => match waitingOn s t with
    | some (a, k) => s.lOpen a k && !(s.thr t).woken && (s.lockL a k).isNone
    | none => false

/-- spec verdict and the known-finding signature it corresponds to -/
def verdict (s : Sys) : Option (String × String) :=
  let hv := match s.kind with
    | .subject => checkExactlyOnce s.hist
    | .single => checkSingleOnce s.hist
  match hv with
  | some "lost" => some ("lost", "lost-subscription")
  | some "single-missing" => some ("single-missing", "single-never-delivered")
  | some v => some (v, "")
  | none =>
    if finStr s == "dead" then some ("deadlock", if s.kind == .single then "single-reentrant-deadlock" else "")
    else if pollBlocked s then some ("poll-blocked", if s.kind == .single then "single-never-delivered" else "lost-subscription")
    else if finStr s != "fin" && Explore.pollMissed s then
      some ("poll-missed", if s.kind == .single then "single-never-delivered" else "lost-subscription")
    else none


/-! ### Judging a history observed on the REAL code (`c13.judge`)

The printed form of a history has no ghost identifiers, so the judgement is by counting, and it is
sound for `ExactlyOnce` / `SingleOnce`: a verdict is returned only when no assignment of ghost
identifiers can make the history satisfy the specification.  For a publication of `e` spanning
positions `i..j` and a user observer `o` alive until `j`: fewer deliveries of `e` to `o` inside the
span than `subscribe(o)` calls that returned before `i` means some subscription lost the event; more
deliveries of `e` to `o` (anywhere) than `subscribe(o)` calls that began before `j` means a duplicate
or an invented delivery.  The harness runs one thread at a time, so a publication that passed no
synchronisation point (printed `p` without `P`) happened entirely at the position of its `p`. -/

inductive JEv where
  | sB (o : Nat) | sR (o : Nat) | pB (t e : Nat) | pE (t e : Nat) | d (o e : Nat) | x (o : Nat)
  /-- `W t`: a poll by thread `t` began; `V t`: its private observer is subscribed (the poll has reached its wait);
      `w t`: the poll returned -/
  | wB (t : Nat) | wV (t : Nat) | wR (t : Nat) | other
deriving DecidableEq

def parseJEv (tok : String) : Option JEv :=
  let tag := tok.take 1
  let fs := ((tok.drop 1).toString.splitOn ".").map String.toNat?
  match tag.toString, fs with
  | "S", [some _, some o] => some (.sB o)
  | "s", [some _, some o] => some (.sR o)
  | "P", [some t, some e] => some (.pB t e)
  | "p", [some t, some e] => some (.pE t e)
  | "d", [some _, some o, some e] => some (.d o e)
  | "x", [some _, some o] => some (.x o)
  | "n", [some _] => some .other
  | "W", [some t] => some (.wB t)
  | "V", [some t] => some (.wV t)
  | "w", [some t, some _] => some (.wR t)
  | _, _ => none

def countIn (h : List JEv) (lo hi : Nat) (p : JEv → Bool) : Nat :=
  ((List.range h.length).filter fun m => lo ≤ m && m < hi && (match h[m]? with | some ev => p ev | none => false)).length

def judgeSubject (h : List JEv) : Option String :=
  let n := h.length
  let obs := (h.filterMap fun | .sB o => some o | _ => none).eraseDups
  (List.range n).findSome? fun j => match (h[j]? : Option JEv) with
    | some (JEv.pE t e) =>
      -- the matching begin: the last `P t e` before `j`, or `j` itself when the call passed no sync point
      let i := ((List.range j).filter fun i => h[i]? == some (.pB t e)).getLast?.getD j
      obs.findSome? fun o =>
        let alive := countIn h 0 j (· == .x o) == 0
        let ret := countIn h 0 i (· == .sR o)
        let beg := countIn h 0 j (· == .sB o)
        let inSpan := countIn h i j (· == .d o e)
        let total := countIn h 0 n (· == .d o e)
        if alive && inSpan < ret then some "lost"
        else if total > beg then some "dup"
        else none
    | _ => none

def judgeSingle (h : List JEv) : Option String :=
  let n := h.length
  let obs := (h.filterMap fun | .sB o => some o | _ => none).eraseDups
  -- the emission: the first publication to begin (or to end, if it passed no sync point)
  let first := (List.range n).findSome? fun i => match (h[i]? : Option JEv) with
    | some (JEv.pB t e) => some (t, e) | some (JEv.pE t e) => some (t, e) | _ => none
  match first with
  | none => if countIn h 0 n (fun | .d _ _ => true | _ => false) > 0 then some "invent" else none
  | some (t, e) =>
    if countIn h 0 n (fun | .d _ e' => e' != e | _ => false) > 0 then some "wrong-value" else
    match (List.range n).find? fun j => h[j]? == some (.pE t e) with
    | none => none
    | some j =>
      obs.findSome? fun o =>
        let alive := countIn h 0 n (· == .x o) == 0
        let ret := countIn h 0 n (· == .sR o)
        let beg := countIn h 0 n (· == .sB o)
        let total := countIn h 0 n (· == .d o e)
        -- judged only when every subscribe(o) call that began has returned (the history is then settled)
        if alive && ret == beg && j < n && total < ret then some "single-missing"
        else if total > beg then some "dup"
        else none

/-- A poll that never returned although the run is over (no thread can move): once the poll's private observer is
    subscribed (`V t`), a publication that BEGINS afterwards and completes must make the poll return ("a blocking wait
    for the next event returns once such an event has been published").  Plain subject: any such publication; single-shot:
    the emission may even have happened earlier. -/
def judgePoll (kind : String) (h : List JEv) : Option String :=
  let n := h.length
  (List.range n).findSome? fun v => match (h[v]? : Option JEv) with
    | some (JEv.wV t) =>
      let returned := (List.range n).any fun m => v < m && h[m]? == some (JEv.wR t)
      let published := (List.range n).any fun i => match (h[i]? : Option JEv) with
        | some (JEv.pB t' e) => (kind == "single" || v < i) && (List.range n).any fun j => i < j && h[j]? == some (JEv.pE t' e)
        | _ => false
      if !returned && published then some "poll-missed" else none
    | _ => none

def judge (kind : String) (hist : String) (fin : String) : String :=
  let toks := if hist == "-" then [] else hist.splitOn ","
  match toks.mapM parseJEv with
  | none => "unparsed"
  | some h =>
    match (if kind == "single" then judgeSingle h else judgeSubject h) with
    | some v => "viol:" ++ v
    | none =>
      -- only when the run has come to rest with threads still waiting (`wait`) or blocked (`dead`)
      if fin == "wait" || fin == "dead" then
        match judgePoll kind h with
        | some v => "viol:" ++ v
        | none => "ok"
      else "ok"

def algoOf (n : Nat) : Option Algo := if n == 0 then some .pinned else if n == 1 then some .repaired else none

def runReq (a : Algo) (kd : Kind) (behs : List Beh) (progs : List (List Op)) (sched : List Nat) : Sys :=
  replay 4000 (init a kd behs progs) sched

def handle (op : String) (args : List String) : Option String :=
  match op, args with
  | "c13.algo", [] => some "*\t*"
  | "c13.judge", [kind, hist] => some (judge kind hist "fin" ++ "\t*")
  | "c13.judge", [kind, hist, fin] => some (judge kind hist fin ++ "\t*")
  -- forced-mode runs have no model counterpart: the history observed on the real code is judged by `c13.judge`
  | "c13.force", [_, _, _, _] => some "*\t*"
  | "c13.explore", [algo, kind, what, variant] =>
    -- bounded model exploration (all interleavings); `*` in the spec column: it has no counterpart on the real code
    let a : Algo := if algo == "pinned" then .pinned else .repaired
    let kd : Kind := if kind == "single" then .single else .subject
    let behs := Explore.behVariants.getD (variant.toNat?.getD 0) []
    let st : Explore.Stats × Nat :=
      if what == "2x2" then (Explore.all2x2 a kd behs, 0)
      else if what.startsWith "3x2states" then
        -- all 15 625 programs of 3 threads x 2 operations, one fifth per request (first operation of the third thread)
        (Explore.all3x2States a kd behs (Explore.opsAlphabet.getD ((what.drop 9).toString.toNat?.getD 0) (.pub 1)), 0)
      else Explore.all3x2 a kd behs ((what.drop 4).toString.toNat?.getD 3000000)
    some s!"explored:{st.1.states}:{st.1.finals}:{st.1.bad}:{st.2}\t*"
  | "c13.stress", [_, _, _, _] => some "*\tok:0:0\tlost-subscription,single-never-delivered"
  | "c13.run", [kind, obs, progs, sched] =>
    match algoOf CG.Generated.rxAlgo with
    | none => some "nohooks\t*"
    | some a =>
      let kd? : Option Kind := if kind == "subject" then some .subject else if kind == "single" then some .single else none
      match kd?, parseObs obs, parseProgs progs, parseSched sched with
      | some kd, some behs, some progs, some sched =>
        if !behsOk kd behs then some "bad-request\tbad-request" else
        let s := runReq a kd behs progs sched
        let m := outcomeStr s
        match verdict s with
        | none => some (m ++ "\t*")
        | some (v, sig) => some (m ++ "\tviol:" ++ v ++ "\t" ++ sig)
      | _, _, _, _ => some "bad-request\tbad-request"
  | _, _ => none

end CG.Drv.C13

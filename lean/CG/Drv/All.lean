import CG.Drv.C19
/-! GENERATED from the driver modules present in CG/Drv. Do not edit. -/
namespace CG.Drv
def allHandlers : List (String → List String → Option String) :=
  [C19.handle]
end CG.Drv

import CG.Drv.C01
import CG.Drv.C02
import CG.Drv.C03
import CG.Drv.C04
import CG.Drv.C05
import CG.Drv.C06
import CG.Drv.C07
import CG.Drv.C08
import CG.Drv.C09
import CG.Drv.C10
import CG.Drv.C11
import CG.Drv.C12
import CG.Drv.C13
import CG.Drv.C14
import CG.Drv.C15
import CG.Drv.C16
import CG.Drv.C17
import CG.Drv.C18
import CG.Drv.C19
import CG.Drv.C20
/-! GENERATED from the driver modules present in CG/Drv. Do not edit. -/
namespace CG.Drv
def allHandlers : List (String → List String → Option String) :=
  [C01.handle, C02.handle, C03.handle, C04.handle, C05.handle, C06.handle, C07.handle, C08.handle, C09.handle, C10.handle, C11.handle, C12.handle, C13.handle, C14.handle, C15.handle, C16.handle, C17.handle, C18.handle, C19.handle, C20.handle]
end CG.Drv

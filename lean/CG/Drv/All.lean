import CG.Drv.C01
import CG.Drv.C04
import CG.Drv.C19
import CG.Drv.C20
/-! GENERATED from the driver modules present in CG/Drv. Do not edit. -/
namespace CG.Drv
def allHandlers : List (String → List String → Option String) :=
  [C01.handle, C04.handle, C19.handle, C20.handle]
end CG.Drv

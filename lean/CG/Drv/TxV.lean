import CG.Drv.Script
import CG.Model.TxChecker
import CG.Crypto.Secp256k1
/-!
Driver for `c03.txv` (stage two of C03's correspondence): an END-TO-END independent reference for
`Tx::validate` on real signed transactions.  The model `CG.Model.TxChecker.validateTx` is
instantiated with the Lean SHA-256 / RIPEMD-160 (`CG.Drv.Script.hashes`), the Lean double SHA-256
for the signature hash, and the Lean secp256k1 (`CG.Crypto`) for the three k256 calls:

* `Signature::from_der`   = BIP-66 strict DER (`parseDerStrict`) and `0 < r, s < n` (probed: the `der`
  crate rejects negative / padded / empty integers, long-form lengths and trailing bytes exactly as
  BIP-66 does; `Signature::try_from` additionally rejects zero and values `≥ n`);
* `VerifyingKey::from_sec1_bytes` = `parsePubkey` (02/03/04) plus SEC1 tag 05 ("compact": the point
  with even y), which k256 accepts (probed); hybrid 06/07 and the identity are rejected by both;
* `verify_prehash(..).is_ok()` = low-S (k256 rejects high-S signatures) and `ecdsaVerify`.

Request: `c03.txv <tx hex> <utxos: hash:index:satoshis:lockscript,…> <forkid 0/1> <genesis 0/1>`
(`hash` is 32 bytes of hex or ONE byte standing for 32 copies of it; the pre-genesis set is empty).
Reply: model = `ok` | `err:<ChainGangError variant>`; spec = model.

Non-strict DER.  `ecdsa::der::Signature::from_bytes` (ecdsa 0.16.9 / der 0.7.10) was read and probed:
SEQUENCE tag, canonical short/long length that must cover the input exactly, two INTEGERs each
non-empty, not negative, no superfluous leading zero, nothing trailing, then `0 < r, s < n` — the same
language as BIP-66 + the range test, so `k256.parseSig` below classifies EVERY byte string as k256 does
and the verdict is predicted exactly (`err:K256EcdsaError`) also for corrupted encodings.  Should a
future k256 loosen its parser, set `lenientNonStrict := true`: when the model's verdict is a k256
parse error and some pushed item of an unlocking script that looks like a signature (first byte
0x30) is not strict DER, the verdict is then left open (`*`) and only `class:err` is demanded.
-/
namespace CG.Drv.TxV
open CG CG.Drv CG.Model.TxChecker

abbrev MTx := CG.Model.TxValidate.Tx
abbrev MIn := CG.Model.TxValidate.TxIn
abbrev MOut := CG.Model.TxValidate.TxOut
abbrev MOutPoint := CG.Model.TxValidate.OutPoint

/-! ### wire parser (driver only): `Tx::read` on a complete, well-formed encoding -/

def leNat (b : Bytes) : Nat := b.foldr (fun x acc => x.toNat + 256 * acc) 0

def takeN (n : Nat) (b : Bytes) : Option (Bytes × Bytes) :=
  if b.length < n then none else some (b.take n, b.drop n)

def rdU32 (b : Bytes) : Option (Nat × Bytes) := (takeN 4 b).map fun (x, r) => (leNat x, r)

def rdI64 (b : Bytes) : Option (Int × Bytes) :=
  (takeN 8 b).map fun (x, r) => let v := leNat x; ((if v < 2 ^ 63 then (v : Int) else (v : Int) - 2 ^ 64), r)

def rdVarInt (b : Bytes) : Option (Nat × Bytes) :=
  match b with
  | [] => none
  | x :: r =>
    if x = 0xfd then (takeN 2 r).map fun (y, r') => (leNat y, r')
    else if x = 0xfe then (takeN 4 r).map fun (y, r') => (leNat y, r')
    else if x = 0xff then (takeN 8 r).map fun (y, r') => (leNat y, r')
    else some (x.toNat, r)

def rdScript (b : Bytes) : Option (Bytes × Bytes) := do
  let (n, r) ← rdVarInt b
  takeN n r

def rdIn (b : Bytes) : Option (MIn × Bytes) := do
  let (h, r) ← takeN 32 b
  let (i, r) ← rdU32 r
  let (s, r) ← rdScript r
  let (q, r) ← rdU32 r
  pure (⟨⟨h, i⟩, s, q⟩, r)

def rdOut (b : Bytes) : Option (MOut × Bytes) := do
  let (a, r) ← rdI64 b
  let (s, r) ← rdScript r
  pure (⟨a, s⟩, r)

def rdMany {α : Type} (f : Bytes → Option (α × Bytes)) : Nat → Bytes → Option (List α × Bytes)
  | 0, b => some ([], b)
  | k + 1, b => do
    let (x, r) ← f b
    let (xs, r) ← rdMany f k r
    pure (x :: xs, r)

def rdTx (b : Bytes) : Option MTx := do
  let (ver, r) ← rdU32 b
  let (nin, r) ← rdVarInt r
  if nin > 10000 then none
  let (ins, r) ← rdMany rdIn nin r
  let (nout, r) ← rdVarInt r
  if nout > 10000 then none
  let (outs, r) ← rdMany rdOut nout r
  let (lt, r) ← rdU32 r
  if r.isEmpty then pure { version := ver, inputs := ins, outputs := outs, lockTime := lt } else none

def parseHash (s : String) : Option Bytes :=
  match unhex s with
  | some [b] => some (List.replicate 32 b)
  | some bs => if bs.length = 32 then some bs else none
  | none => none

def parseUtxo (s : String) : Option (MOutPoint × MOut) :=
  match s.splitOn ":" with
  | [h, i, a, l] => do
    let h ← parseHash h; let i ← i.toNat?; let a ← a.toInt?; let l ← unhex l
    pure (⟨h, i⟩, ⟨a, l⟩)
  | _ => none

/-- `LinkedHashMap::insert` in request order: a later entry for the same outpoint replaces the earlier -/
def utxoMap (l : List (MOutPoint × MOut)) : CG.Model.TxValidate.Utxos :=
  fun o => (l.reverse.find? (fun e => e.1 == o)).map (·.2)

/-! ### the k256 calls, by the independent Lean secp256k1 -/

def k256 : K256 (Nat × Nat) Crypto.Point where
  parseSig := fun der =>
    match Crypto.parseDerStrict der with
    | some (r, s) => if 0 < r ∧ r < Crypto.n ∧ 0 < s ∧ s < Crypto.n then some (r, s) else none
    | none => none
  parseKey := fun pk =>
    match pk with
    | 0x05 :: rest => if rest.length = 32 then Crypto.parsePubkey (0x02 :: rest) else none
    | _ => Crypto.parsePubkey pk
  verify := fun key digest sig =>
    Crypto.isLowS sig.2 && Crypto.ecdsaVerify key (Crypto.beToNat digest) sig.1 sig.2

def env (forkid genesis : Bool) : Env (Nat × Nat) Crypto.Point :=
  { H := Script.hashes, dsha := Crypto.sha256d, K := k256, requireForkid := forkid, useGenesis := genesis,
    pregenesis := fun _ => false }

/-- the items pushed by direct pushes / PUSHDATA1 of a script (enough for the generator's unlocking scripts) -/
def pushedItems : Nat → Bytes → List Bytes
  | 0, _ => []
  | _, [] => []
  | fuel + 1, b :: r =>
    let n := b.toNat
    if 1 ≤ n ∧ n ≤ 75 then r.take n :: pushedItems fuel (r.drop n)
    else if n = 76 then
      match r with
      | l :: r' => r'.take l.toNat :: pushedItems fuel (r'.drop l.toNat)
      | [] => []
    else pushedItems fuel r

/-- see the header: `false` = predict the exact verdict for non-strict DER signatures as well -/
def lenientNonStrict : Bool := false

def looksNonStrict (item : Bytes) : Bool :=
  match item with
  | 0x30 :: _ => (Crypto.parseDerStrict item.dropLast).isNone
  | _ => false

def showU : Outcome Unit → String
  | .ok _ => "ok" | .err e => "err:" ++ e | .panic p => "panic:" ++ p

def txv (a : List String) : String :=
  match a with
  | [txh, utx, fk, gen] =>
    let r : Option String := do
      let raw ← unhex txh
      let tx ← rdTx raw
      let us ← (if utx == "-" then some [] else (utx.splitOn ",").mapM parseUtxo)
      let fk ← (if fk == "1" then some true else if fk == "0" then some false else none)
      let gen ← (if gen == "1" then some true else if gen == "0" then some false else none)
      let m := showU (validateTx (env fk gen) .dev tx (utxoMap us))
      let lenient := lenientNonStrict && m == "err:K256EcdsaError" &&
        tx.inputs.any (fun i => (pushedItems i.unlockScript.length i.unlockScript).any looksNonStrict)
      pure (if lenient then "*\tclass:err" else m ++ "\t" ++ m)
    r.getD "bad-request\tbad-request"
  | _ => "bad-request\tbad-request"

end CG.Drv.TxV

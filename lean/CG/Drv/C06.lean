import CG.Drv.Hex
import CG.Drv.C05
import CG.Model.WireAlloc
import CG.Crypto.Sha256
/-!
Driver for C06.

* `c06.payload <type> <hex>`  bare payload through the instrumented decoder of `<type>` (`T::read`),
                              then the argument-free `validate()` of the value where one is modelled
* `c06.msg <magic> <hex>`     header + payload through `readMessageA` (`Message::read`)

Reply `class|alloc-ok` or `class|alloc-over:<largest request>` (`panic:<site>` alone for a panic):
the class is `ok`, `ok/<validate class>` or `err:<Variant>`; the verdict applies the allocation rule
shared with the harness — `RULE_K * len + RULE_C` (plus `MAX_PAYLOAD_SIZE` for `c06.msg`) — to the
model's allocation log.

Model column: the policy of the tree under test (`treePolicy`, from the regenerated
`C06_MAX_PREALLOC_BYTES`).  Spec column: the property — the outcome class of the decoder (which no
allocation policy changes unless it panics) with every request inside the rule; computed under the
repaired policy `capped 2^20`.
-/
namespace CG.Drv.C06
open CG CG.Drv CG.Model.Wire CG.Model.WireAlloc

def clsOf {α} (o : Outcome (α × Bytes)) (v : α → Option (Outcome Unit)) : String :=
  match o with
  | .ok (a, _) =>
    match v a with
    | none => "ok"
    | some (.ok _) => "ok/ok"
    | some (.err e) => "ok/err:" ++ e
    | some (.panic s) => "panic:" ++ s
  | .err e => "err:" ++ e
  | .panic s => "panic:" ++ s

def verdict (cls : String) (log : List Nat) (bound : Nat) : String :=
  if cls.startsWith "panic" then cls
  else
    let m := maxLog log
    if m ≤ bound then cls ++ "|alloc-ok" else cls ++ "|alloc-over:" ++ toString m

def noV {α} (_ : α) : Option (Outcome Unit) := none

/-- class and allocation log of a bare payload of the given type -/
def runKind (P : Policy) (ty : String) (b : Bytes) : Option (String × List Nat) :=
  match Kind.ofString ty with
  | some k =>
    let r := k.dec P b
    let v : k.Val → Option (Outcome Unit) := match k.validate with
      | some f => fun a => some (f a)
      | none => fun _ => none
    some (clsOf r.out v, r.log)
  | none => none

def specPolicy : Policy := .capped 1048576

def bad : Option String := some "bad-request\tbad-request"

def reply (m s : String × List Nat) (bound : Nat) : String :=
  verdict m.1 m.2 bound ++ "\t" ++ (if s.1.startsWith "panic" then "nopanic|alloc-ok" else s.1 ++ "|alloc-ok")

def handle (op : String) (a : List String) : Option String :=
  match op, a with
  | "c06.payload", [ty, hex] =>
    match C05.unhexF hex with
    | some b =>
      match runKind treePolicy ty b with
      | some m =>
        let s := if treePolicy = specPolicy then m else (runKind specPolicy ty b).getD m
        some (reply m s (RULE_K * b.length + RULE_C))
      | none => bad
    | none => bad
  | "c06.msg", [magic, hex] =>
    match C05.unhexF magic, C05.unhexF hex with
    | some mg, some b =>
      let run (P : Policy) : String × List Nat :=
        let r := readMessageA P Crypto.sha256 mg b
        (clsOf r.out noV, r.log)
      let m := run treePolicy
      let s := if treePolicy = specPolicy then m else run specPolicy
      some (reply m s (RULE_K * b.length + RULE_C + MAX_PAYLOAD_SIZE))
    | _, _ => bad
  | "c06.payload", _ => bad
  | "c06.msg", _ => bad
  | _, _ => none

end CG.Drv.C06

import CG.Drv.Script
import CG.Model.Stepping
namespace CG.Drv.C17
open CG CG.Drv CG.Drv.Script CG.Model.Interp

def parseNats (s : String) : List Nat := if s == "-" then [] else (s.splitOn ",").filterMap String.toNat?

def showNats (l : List Nat) : String := if l.isEmpty then "-" else ",".intercalate (l.map toString)

def logStr (o : OState) : String := if o.log.isEmpty then "=" else ";".intercalate o.log.reverse

/-- `c17.split <script> <flags> <breaks> <oracle>` → `ok:<stack>|<alt>|<reported offsets>|<log>`.
    model = the segmented run; spec = the single run's stacks and checker log, with the model's
    reported offsets.  When they differ only in the script argument seen by the checker the case is
    the recorded finding `codesep-not-carried`. -/
def handle (op : String) (a : List String) : Option String :=
  match op, a with
  | "c17.split", [sc, fl, brks, orc] =>
    match unhex sc, fl.toNat?, parseOracle orc with
    | some sc, some fl, some (o, lt, sq) =>
      let C := oracle lt sq
      let brks := parseNats brks
      let m := Model.Stepping.stepped hashes C o sc fl brks
      let single := Model.Interp.coreEval hashes C o sc fl none none none none
      let ms := match m with
        | .ok (r, rep) => "ok:" ++ showStack r.stack ++ "|" ++ showStack r.alt ++ "|" ++ showNats rep ++ "|" ++ logStr r.chk
        | .err e => "err:" ++ e | .panic p => "panic:" ++ p
      let rep := match m with | .ok (_, rep) => showNats rep | _ => "-"
      let ss := match single with
        | .ok r => "ok:" ++ showStack r.stack ++ "|" ++ showStack r.alt ++ "|" ++ rep ++ "|" ++ logStr r.chk
        | .err e => "err:" ++ e | .panic p => "panic:" ++ p
      let sameButLog := match m, single with
        | .ok (r, _), .ok r' => r.stack == r'.stack && r.alt == r'.alt && r.chk.log.length == r'.chk.log.length
        | _, _ => false
      let sig := if ms != ss && sameButLog then "\tcodesep-not-carried" else ""
      -- `self`: does the segmented run agree with the uninterrupted run of the same interpreter (stacks, or error class)?
      -- the property demands `same`; the model says what its own two runs do; the harness what the real ones do
      let selfSame := match m, single with
        | .ok (r, _), .ok r' => r.stack == r'.stack && r.alt == r'.alt
        | .err e, .err e' => e == e'
        | _, _ => false
      some (ms ++ (if selfSame then "|self=same" else "|self=differs") ++ "\t" ++ ss ++ "|self=same" ++ sig)
    | _, _, _ => some "bad-request\tbad-request"
  -- c17.break <script> <flags> <break> <oracle>: break at or beyond the end = no break; the reported offset
  | "c17.break", [sc, fl, brk, orc] =>
    match unhex sc, fl.toNat?, brk.toNat?, parseOracle orc with
    | some sc, some fl, some brk, some (o, lt, sq) =>
      let C := oracle lt sq
      let withB := Model.Interp.coreEval hashes C o sc fl none (some brk) none none
      let noB := Model.Interp.coreEval hashes C o sc fl none none none none
      let str := fun (r : Outcome (EvalResult OState)) (showPos : Bool) => match r with
        | .ok r => "ok:" ++ showStack r.stack ++ "|" ++ showStack r.alt ++ "|" ++
            (if showPos then (match r.pos with | some p => toString p | none => "~") else "") ++ "|" ++ logStr r.chk
        | .err e => "err:" ++ e | .panic p => "panic:" ++ p
      let m := str withB true
      -- spec: when break >= len the result is that of the unbroken run and the offset is where it stopped
      let s := if brk ≥ sc.length then
          (match noB with
           | .ok r => "ok:" ++ showStack r.stack ++ "|" ++ showStack r.alt ++ "|" ++
               (match withB with | .ok w => (match w.pos with | some p => toString p | none => "~") | _ => "?") ++ "|" ++ logStr r.chk
           | .err e => "err:" ++ e | .panic p => "panic:" ++ p)
        else "*"
      some (m ++ "\t" ++ s)
    | _, _, _, _ => some "bad-request\tbad-request"
  | _, _ => none

end CG.Drv.C17

import CG.Drv.Hex
import CG.Drv.Script
import CG.Model.PyGlue
import CG.Crypto.Sha256
import CG.Crypto.Secp256k1
/-!
C18 driver: the model's answer for each request of the Python-binding correspondence.

All ordinary errors are canonicalised to `err` (on the Rust side, the Python side and here); the
specification column is `nopanic` for every request: whatever the arguments, the outcome is a value
or an ordinary exception.  Where the operation is modelled (`CG.Model.PyGlue` on top of the
interpreter, number-codec and signature-hash models) the model column predicts the exact canonical
outcome; otherwise it is `*` and the Rust-side outcome is the oracle for the Python side.
-/
namespace CG.Drv.C18
open CG CG.Drv CG.Drv.Script CG.Model.Interp CG.Model.PyGlue CG.Model.TxSer

def bad : String := "bad-request\tbad-request"
def reply (model : String) : String := model ++ "\tnopanic"

/-- k256 is not modelled here: whenever the `ZChecker` is actually consulted the answer is `*` -/
def stubVerify : Bytes → Bytes → Bytes → Outcome Bool := fun _ _ _ => .err "Unmodelled"

def U64 : Int := 18446744073709551616
def U32 : Int := 4294967296

/-- `~` = None, else an integer (possibly outside `usize`) -/
def parseOptInt (s : String) : Option (Option Int) := if s == "~" then some none else s.toInt?.map some
def parseOptBytes (s : String) : Option (Option Bytes) := if s == "~" then some none else (unhex s).map some

def inUsize (o : Option Int) : Bool := match o with | none => true | some v => 0 ≤ v && v < U64
def toNatOpt (o : Option Int) : Option Nat := o.map Int.toNat

def showEvalOut : Outcome EvalOut → String
  | .ok (s, a, p) => "ok:" ++ showStack s ++ "|" ++ showStack a ++ "|" ++ (match p with | none => "~" | some v => toString v)
  | .err _ => "err"
  | .panic p => "panic:" ++ p

/-- did the run under the always-failing checker end in that checker's error (= a check was reached)? -/
def checkerReached (script : Bytes) (start brk : Option Nat) (stack alt : Option Stack) : Bool :=
  match coreEval hashes (tless Unit) () script 0 start brk stack alt with
  | .err "IllegalState" => true
  | _ => false

def zLive (z : Option Bytes) : Bool := match z with | some zb => zb.length == 32 | none => false

def showInt (v : Int) : String := toString v

def showIntOutcome : Outcome Int → String
  | .ok v => "ok:" ++ showInt v
  | .err _ => "err"
  | .panic p => "panic:" ++ p

def showBytesOutcome : Outcome Bytes → String
  | .ok b => "ok:" ++ hexOrDash b
  | .err _ => "err"
  | .panic p => "panic:" ++ p

/-! transactions: `<version> <locktime> <ins> <outs>`, ins = `idhex:index:unlockhex:sequence` (id = hex of
    the UTF-8 bytes of the Python string), outs = `satoshis:lockhex`; numbers may be out of range -/

def splitList (s : String) (sep : String) : List String := if s == "-" then [] else s.splitOn sep

structure RawIn where
  id : Bytes
  index : Int
  script : Bytes
  seq : Int

def parseIn (s : String) : Option RawIn :=
  match s.splitOn ":" with
  | [h, i, u, q] => do
    let h ← unhex h; let i ← i.toInt?; let u ← unhex u; let q ← q.toInt?
    pure ⟨h, i, u, q⟩
  | _ => none

def parseOut (s : String) : Option (Int × Bytes) :=
  match s.splitOn ":" with
  | [a, l] => do let a ← a.toInt?; let l ← unhex l; pure (a, l)
  | _ => none

def u32ok (v : Int) : Bool := 0 ≤ v && v < U32
def i64ok (v : Int) : Bool := -9223372036854775808 ≤ v && v ≤ 9223372036854775807

/-- `none` = request malformed; `some none` = some field does not fit its Python→Rust conversion
    (OverflowError when the object is built); `some (some tx)` = the PyTx -/
def parsePyTx (ver lt ins outs : String) : Option (Option PyTx) := do
  let ver ← ver.toInt?; let lt ← lt.toInt?
  let ins ← (splitList ins ",").mapM parseIn
  let outs ← (splitList outs ",").mapM parseOut
  if u32ok ver && u32ok lt && ins.all (fun i => u32ok i.index && u32ok i.seq) && outs.all (fun o => i64ok o.1) then
    pure (some ⟨ver.toNat, ins.map (fun i => ⟨i.id, i.index.toNat, i.script, i.seq.toNat⟩),
                outs.map (fun o => ⟨o.1, o.2⟩), lt.toNat⟩)
  else pure none

def validKey (k : Bytes) : Bool :=
  let v := Crypto.beToNat k
  0 < v && v < Crypto.n

def textOf (s : String) : Option String := (unhex s).bind (fun b => String.fromUTF8? ⟨b.toArray⟩)

def handle (op : String) (a : List String) : Option String :=
  match op with
  -- c18.eval <script> <brk> <z>
  | "c18.eval" =>
    match a with
    | [sc, br, z] =>
      match unhex sc, parseOptInt br, parseOptBytes z with
      | some sc, some br, some z =>
        if !inUsize br then some (reply "err")
        else
          let brk := toNatOpt br
          if zLive z && checkerReached sc none brk none none then some (reply "*")
          else some (reply (showEvalOut (pyScriptEval hashes stubVerify sc brk z)))
      | _, _, _ => some bad
    | _ => some bad
  -- c18.evalps <script> <start> <brk> <z> <stack> <alt>
  | "c18.evalps" =>
    match a with
    | [sc, st, br, z, stk, alt] =>
      match unhex sc, parseOptInt st, parseOptInt br, parseOptBytes z, parseStack stk, parseStack alt with
      | some sc, some st, some br, some z, some stk, some alt =>
        if !inUsize st || !inUsize br then some (reply "err")
        else
          let (start, brk) := (toNatOpt st, toNatOpt br)
          if zLive z && checkerReached sc start brk stk alt then some (reply "*")
          else some (reply (showEvalOut (pyScriptEvalPystack false hashes stubVerify sc start brk z stk alt)))
      | _, _, _, _, _, _ => some bad
    | _ => some bad
  -- c18.ctx <script> <start> <limit> <z>
  | "c18.ctx" =>
    match a with
    | [sc, st, br, z] =>
      match unhex sc, parseOptInt st, parseOptInt br, parseOptBytes z with
      | some sc, some st, some br, some z =>
        -- an offset outside usize is an OverflowError inside evaluate_core: caught, verdict False
        if !inUsize st || !inUsize br then some (reply "ok:0|=|=")
        else
          let c : Ctx := ⟨sc, toNatOpt st, toNatOpt br, z⟩
          if zLive (normZ z) && checkerReached sc (normNat c.ipStart) (normNat c.ipLimit) (some []) (some []) then some (reply "*")
          else
            match contextEvaluate false false hashes stubVerify c with
            | .ok (v, s, al) => some (reply ("ok:" ++ (if v then "1" else "0") ++ "|" ++ showStack s ++ "|" ++ showStack al))
            | .err _ => some (reply "err")
            | .panic p => some (reply ("panic:" ++ p))
      | _, _, _, _ => some bad
    | _ => some bad
  -- numbers
  | "c18.decnum" =>
    match a with
    | [h] => match unhex h with
      | some b => some (reply (showIntOutcome (Model.ScriptNum.decodeNum b)))
      | none => some bad
    | _ => some bad
  | "c18.stackseq" => some "*\tnopanic"
  | "c18.decelem" =>
    match a with
    | [h] => match unhex h with
      | some b => some (reply (showIntOutcome (decodeCombined b)))
      | none => some bad
    | _ => some bad
  | "c18.decstack" =>
    match a with
    | [items] =>
      match parseStack items with
      | some (some st) =>
        let vals := st.reverse.map Model.ScriptNum.decodeNum
        if vals.any (fun o => match o with | .ok _ => false | _ => true) then some (reply "err")
        else
          let ints := vals.filterMap (fun o => match o with | .ok v => some (showInt v) | _ => none)
          some (reply ("ok:" ++ (if ints.isEmpty then "-" else ",".intercalate ints)))
      | _ => some bad
    | _ => some bad
  | "c18.pushint" =>
    match a with
    | [v] => match v.toInt? with
      | some v => some (reply ("ok:" ++ hexOrDash (Model.ScriptNum.encodeBig v)))
      | none => some bad
    | _ => some bad
  | "c18.utilenc" =>
    match a with
    | [v] => match v.toInt? with
      | some v => some (reply ("ok:" ++ hexOrDash (Model.ScriptNum.encodeBig v)))
      | none => some bad
    | _ => some bad
  | "c18.utildec" =>
    match a with
    | [h] => match unhex h with
      | some b => some (reply ("ok:" ++ showInt (Model.ScriptNum.decodeBig b)))
      | none => some bad
    | _ => some bad
  | "c18.appint" =>
    match a with
    | [v] => match v.toInt? with
      | some v => some (reply (showBytesOutcome (appendInteger false v)))
      | none => some bad
    | _ => some bad
  | "c18.appbig" =>
    match a with
    | [v] => match v.toInt? with
      | some v => some (reply (showBytesOutcome (appendBigInteger false v)))
      | none => some bad
    | _ => some bad
  -- c18.tx <version> <locktime> <ins> <outs>
  | "c18.tx" =>
    match a with
    | [ver, lt, ins, outs] =>
      match parsePyTx ver lt ins outs with
      | none => some bad
      | some none => some (reply "err")
      | some (some t) =>
        match asTx false t with
        | .ok tx =>
          let ser := serTx tx
          some (reply ("ok:" ++ hexOf (Crypto.sha256d ser).reverse ++ "|" ++ hexOf ser ++ "|" ++ (if isCoinbase tx then "1" else "0")))
        | .err _ => some (reply "err")
        | .panic p => some (reply ("panic:" ++ p))
    | _ => some bad
  -- c18.sighash <kind> <version> <locktime> <ins> <outs> <n> <code> <k> <sat> <flags>
  | "c18.sighash" =>
    match a with
    | [kind, ver, lt, ins, outs, n, code, k, sat, ty] =>
      match parsePyTx ver lt ins outs, n.toInt?, unhex code, k.toInt?, sat.toInt?, ty.toInt? with
      | some t, some n, some code, some k, some sat, some ty =>
        match t with
        | none => some (reply "err")
        | some t =>
          let usesK := kind == "hk" || kind == "pk"
          if !(0 ≤ n && n < U64 && (!usesK || (0 ≤ k && k < U64)) && i64ok sat && 0 ≤ ty && ty < 256) then some (reply "err")
          else
            let tyb := UInt8.ofNat ty.toNat
            let kk := if usesK then k.toNat else 0
            if kind == "h" || kind == "hk" then
              some (reply (showBytesOutcome (pySigHash false Crypto.sha256d t n.toNat code kk sat tyb)))
            else if kind == "p" || kind == "pk" then
              some (reply (showBytesOutcome (pySigHashPreimage false Crypto.sha256d t n.toNat code kk sat tyb)))
            else some bad
      | _, _, _, _, _, _ => some bad
    | _ => some bad
  -- wallet key import: the error cases are modelled, the exported strings are left to the Rust side
  | "c18.wbytes" =>
    match a with
    | [net, key] =>
      match textOf net, unhex key with
      | some net, some key =>
        match walletFromBytes false validKey net key with
        | .ok _ => some (reply "*")
        | .err _ => some (reply "err")
        | .panic p => some (reply ("panic:" ++ p))
      | _, _ => some (reply "*")
    | _ => some bad
  | "c18.whex" =>
    match a with
    | [net, txt] =>
      match textOf net, unhex txt with
      | some net, some txt =>
        if ¬ knownNetworks.contains net then some (reply "err")
        else match hexDecode txt with
          | none => some (reply "err")
          | some key =>
            match walletFromBytes false validKey net key with
            | .ok _ => some (reply "*")
            | .err _ => some (reply "err")
            | .panic p => some (reply ("panic:" ++ p))
      | _, _ => some (reply "*")
    | _ => some bad
  | "c18.wint" =>
    match a with
    | [net, v] =>
      match textOf net, v.toInt? with
      | some net, some v =>
        match walletFromInt false validKey net v with
        | .ok _ => some (reply "*")
        | .err _ => some (reply "err")
        | .panic p => some (reply ("panic:" ++ p))
      | _, _ => some (reply "*")
    | _ => some bad
  -- c18.script <cmds>
  | "c18.script" =>
    match a with
    | [h] => match unhex h with
      | some b => some (reply ("ok:" ++ hexOf (scriptSerialize b) ++ "|" ++ hexOrDash b ++ "|" ++ (if isP2pkh b then "1" else "0")))
      | none => some bad
    | _ => some bad
  -- c18.txparse <bytes>: the wire decoder is C05/C06's; a count field of 2^64-1 makes `Tx::read`
  -- ask for an impossible capacity (recorded finding, repaired with C06)
  | "c18.txparse" =>
    match a with
    | [h] => match unhex h with
      | some b =>
        if (b.drop 4).take 9 == List.replicate 9 0xff then some ("*\tnopanic\ttx-parse-capacity-overflow")
        else some (reply "*")
      | none => some bad
    | _ => some bad
  | "c18.txparsehex" | "c18.validate" | "c18.wwif" | "c18.sign" | "c18.pk2addr" | "c18.p2pkh" | "c18.h160"
  | "c18.h256" | "c18.wif2b" | "c18.b2wif" | "c18.a2pkh" | "c18.scriptparse" | "c18.parsestr" | "c18.ill"
  | "c18.wifpw" => some (reply "*")
  | _ => none

end CG.Drv.C18

import CG.Drv.Script
import CG.Model.TxScript
import CG.Crypto.Secp256k1
import CG.Spec.SighashCoverage
import CG.Drv.TxV
namespace CG.Drv.C03
open CG CG.Drv CG.Drv.Script CG.Model.Interp

def cls : Outcome Unit → String
  | .ok _ => "ok" | .err _ => "err" | .panic p => "panic:" ++ p

/-- independent judgement of a signature: strict DER + sighash byte, low S, verifies under the key
    derived from the private scalar, over the given digest -/
def sigValid (priv digest : Bytes) (ty : Nat) (sig : Bytes) : Bool :=
  match sig.getLast? with
  | none => false
  | some l =>
    l.toNat == ty &&
    (match Crypto.parseDerStrict sig.dropLast with
     | none => false
     | some (r, s) =>
       Crypto.isLowS s &&
       Crypto.ecdsaVerify (Crypto.pubkeyOfScalar (Crypto.beToNat priv)) (Crypto.beToNat digest) r s)

def handle (op : String) (a : List String) : Option String :=
  match op, a with
  | "c03.spend", [lock, unlock, rules, _fk] =>
    match unhex lock, unhex unlock with
    | some lock, some unlock =>
      let flags := if rules == "g" then 0 else 1
      -- no valid signature exists in an attacker script: every check_sig answers false (or an error);
      -- the real checker's locktime / sequence checks fail for the harness transaction
      let C := oracle 'e' 'e'
      let o : OState := { sigs := [], log := [] }
      let calls := match Model.Interp.coreEval hashes C o unlock flags none none none none with
        | .ok r => r.chk.log.length
        | _ => 0
      let m := cls (Model.TxScript.validateInput hashes C o unlock lock flags)
      -- if the attacker script itself performed signature checks the real checker may answer `false`
      -- or an error (malformed encodings); the model then leaves the exact outcome open
      let m := if calls > 0 && m != "err" then "*" else m
      some (m ++ "\terr")
    | _, _ => some "bad-request\tbad-request"
  | "c03.sig", [priv, digest, ty, sig] =>
    match unhex priv, unhex digest, ty.toNat?, unhex sig with
    | some priv, some digest, some ty, some sig =>
      let pk := Crypto.serCompressed (Crypto.pubkeyOfScalar (Crypto.beToNat priv))
      let r := if sigValid priv digest ty sig && 9 ≤ sig.length && sig.length ≤ 73
               then "ok:" ++ hexOrDash pk ++ ":" ++ hexOrDash sig else "invalid-signature"
      some (r ++ "\t" ++ r)
    | _, _, _, _ => some "bad-request\tbad-request"
  | "c03.signed", _ => some "*\tok"
  -- c03.txv <tx hex> <utxos> <forkid> <genesis>: Tx::validate decided end to end by the Lean reference
  -- (interpreter + TransactionChecker + sighash + secp256k1), see CG/Drv/TxV.lean
  | "c03.txv", args => some (CG.Drv.TxV.txv args)
  -- c03.multi <seed> <nout> <types> <mutated output | ->: every input signed with its own type; after changing the amount of
  -- output j the spend must fail iff some input's type commits to output j (ALL, or SINGLE at index j)
  | "c03.multi", [_seed, _nout, tys, mutated] =>
    let types := (tys.splitOn ",").filterMap String.toNat?
    if mutated == "-" then some "*\tok"
    else match mutated.toNat? with
      | none => some "bad-request\tbad-request"
      | some j =>
        let idxs := List.range types.length
        let commits := (idxs.zip types).any fun (i, t) =>
          Spec.SighashCoverage.isAll t || (Spec.SighashCoverage.base t = 3 && i == j)
        some (if commits then "*\terr" else "*\tok")
  -- c03.mut <seed> <nin> <nout> <idx> <type> <mutation>: the verdict is decided by the coverage table alone
  | "c03.mut", [_seed, _nin, _nout, _idx, ty, m] =>
    match ty.toNat?.bind (fun t => Spec.SighashCoverage.covered t m) with
    | some true => some "*\terr"
    | some false => some "*\tok"
    | none => some "bad-request\tbad-request"
  | _, _ => none

end CG.Drv.C03

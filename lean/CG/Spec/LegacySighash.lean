import CG.Spec.Bip143
/-!
Reference semantics for the original (pre-fork) signature hash, written from the original algorithm
(`SignatureHash` of the reference client; https://en.bitcoin.it/wiki/OP_CHECKSIG):

1. the script code is the sub-script after the separator in force, with every remaining
   `OP_CODESEPARATOR` operation removed;
2. a copy of the transaction is made; the scripts of all inputs are emptied; the script of the input
   being signed is set to the script code;
3. `SIGHASH_NONE`: no outputs; the sequence numbers of the *other* inputs are set to 0;
4. `SIGHASH_SINGLE`: outputs are cut to `nIn + 1`; every output *before* `nIn` is set to
   "null" (amount -1, empty script), the output at `nIn` stays; other inputs' sequences set to 0.
   (If `nIn` is not an output index the reference client hashes the constant 1; the library documents an
   error there, "input out of tx_out range", which this specification adopts.)
5. `SIGHASH_ANYONECANPAY`: the inputs are cut to the one being signed;
6. the copy is serialised, the hash type is appended as 4 bytes little-endian, and the result is
   double-hashed.  An input index that is out of range is an error.
-/
namespace CG.Spec.LegacySighash
open CG CG.Model.TxSer CG.Spec.Bip143

/-- legacy script code: after the separator in force, all later separators removed -/
def scriptCode (script : Bytes) (k : Nat) : Option Bytes :=
  (scriptCodeOps script k).map (fun ops => flatten (ops.filter (fun o => !o.isSep)))

def txIn (i : TxIn) : Bytes :=
  outpoint i.prevOutput ++ compactSize i.unlockScript.length ++ i.unlockScript ++ le32 i.sequence

def nullOut : TxOut := ⟨-1, []⟩

/-- step 2-5 on the inputs -/
def inputsFor (tx : Tx) (nIn : Nat) (sc : Bytes) (ty : UInt8) : List TxIn :=
  let prepared : List TxIn := (List.range tx.inputs.length).zipWith (fun j i =>
      if j = nIn then { i with unlockScript := sc }
      else { i with unlockScript := [], sequence := if isNone ty || isSingle ty then 0 else i.sequence })
    tx.inputs
  if anyoneCanPay ty then (prepared.drop nIn).take 1 else prepared

/-- step 3-4 on the outputs; `none` = SINGLE with no matching output -/
def outputsFor (tx : Tx) (nIn : Nat) (ty : UInt8) : Option (List TxOut) :=
  if isNone ty then some []
  else if isSingle ty then
    if nIn < tx.outputs.length then some (List.replicate nIn nullOut ++ (tx.outputs.drop nIn).take 1)
    else none
  else some tx.outputs

def preimageOf (tx : Tx) (nIn : Nat) (sc : Bytes) (ty : UInt8) : Option Bytes :=
  if nIn < tx.inputs.length then
    match outputsFor tx nIn ty with
    | none => none
    | some outs =>
      let ins := inputsFor tx nIn sc ty
      some (le32 tx.version ++ compactSize ins.length ++ (ins.map txIn).flatten ++
            compactSize outs.length ++ (outs.map txOut).flatten ++ le32 tx.lockTime ++ le32 ty.toNat)
  else none

def preimage (tx : Tx) (nIn : Nat) (script : Bytes) (k : Nat) (ty : UInt8) : Option Bytes :=
  if nIn < tx.inputs.length then
    match scriptCode script k with
    | some sc => preimageOf tx nIn sc ty
    | none => none
  else none

def digest (dsha : Bytes → Bytes) (tx : Tx) (nIn : Nat) (script : Bytes) (k : Nat) (ty : UInt8) :
    Option Bytes := (preimage tx nIn script k ty).map dsha

end CG.Spec.LegacySighash

import CG.Base.Bytes
import CG.Model.TxSer
/-!
Reference semantics for the FORKID signature hash, written from BIP-143 ("Transaction Signature
Verification for Version 0 Witness Program", section *Specification*) as adopted by the BCH/BSV
`SIGHASH_FORKID` rules, and from the script format (push opcodes 0x01-0x4e).  Not derived from the
code.  Only the *data structures* `Tx/TxIn/TxOut/OutPoint` are shared with the model; every byte
layout below is written out again.

Script code.  A script is a sequence of *operations*; an operation is an opcode byte followed, for the
push opcodes, by a length prefix and the pushed data.  A byte inside an operation's body is data, never
an opcode.  The script code of a signature check is the part of the script that starts after the most
recent `OP_CODESEPARATOR` preceding that check and runs to the end of the script.  Under BIP-143 later
separators stay in the script code (the claim excludes script codes that have one); the legacy
algorithm removes every remaining `OP_CODESEPARATOR` operation (`LegacySighash`).

Library-level choices adopted here (they are not fixed by the BIPs): the check is selected by a number
`k` = "the k-th `OP_CHECKSIG` operation of the script"; if the script has no separator operation, or
no `OP_CHECKSIG` operation at all (nothing to select relative to), the script code is the whole script
whatever `k` is; if it has both and there is no k-th `OP_CHECKSIG` the request is an error; a push
whose announced length exceeds the script takes the rest of it.
-/
namespace CG.Spec.Bip143
open CG CG.Model.TxSer

/-! ### script format -/

structure Op where
  code : UInt8
  body : Bytes          -- length prefix and pushed data (empty for non-push opcodes)
deriving DecidableEq, Repr

def Op.bytes (o : Op) : Bytes := o.code :: o.body
def Op.isSep (o : Op) : Bool := o.code = 0xab
def Op.isCheck (o : Op) : Bool := o.code = 0xac

/-- number of bytes that belong to the operation after its opcode byte, given the bytes that follow -/
def bodyLen (opcode : UInt8) (rest : Bytes) : Nat :=
  let c := opcode.toNat
  if 0x01 ≤ c ∧ c ≤ 0x4b then c                                         -- direct push of c bytes
  else if c = 0x4c then (if rest.length < 1 then rest.length else 1 + leToNat (rest.take 1))   -- OP_PUSHDATA1
  else if c = 0x4d then (if rest.length < 2 then rest.length else 2 + leToNat (rest.take 2))   -- OP_PUSHDATA2
  else if c = 0x4e then (if rest.length < 4 then rest.length else 4 + leToNat (rest.take 4))   -- OP_PUSHDATA4
  else 0

/-- split a script into operations (`fuel` ≥ length suffices) -/
def parse : Nat → Bytes → List Op
  | 0, _ => []
  | _, [] => []
  | fuel + 1, b :: r =>
    let n := min (bodyLen b r) r.length
    ⟨b, r.take n⟩ :: parse fuel (r.drop n)

def parseScript (s : Bytes) : List Op := parse s.length s

def flatten (ops : List Op) : Bytes := ops.flatMap Op.bytes

/-- scanning the operations in order, `cur` is the script code in force (what follows the most recent
    separator); the `k`-th `OP_CHECKSIG` met returns it -/
def selectFrom (cur : List Op) : List Op → Nat → Option (List Op)
  | [], _ => none
  | op :: rest, k =>
    if op.isSep then selectFrom rest rest k
    else if op.isCheck then (match k with | 0 => some cur | k + 1 => selectFrom cur rest k)
    else selectFrom cur rest k

/-- operations of the script code for the `k`-th signature check -/
def scriptCodeOps (script : Bytes) (k : Nat) : Option (List Op) :=
  let ops := parseScript script
  if ops.all (fun o => !o.isSep) || ops.all (fun o => !o.isCheck) then some ops else selectFrom ops ops k

/-- BIP-143 script code: everything after the separator in force, later separators included -/
def scriptCode (script : Bytes) (k : Nat) : Option Bytes := (scriptCodeOps script k).map flatten

/-- the claim excludes FORKID script codes with a separator after the selected check -/
def outsideClaim (script : Bytes) (k : Nat) : Bool :=
  match scriptCodeOps script k with
  | some ops => ops.any Op.isSep
  | none => false

/-! ### integer layouts -/

def le32 (x : Nat) : Bytes := natToLEn 4 x
/-- 8-byte little-endian two's complement of a signed 64-bit amount -/
def le64s (x : Int) : Bytes := natToLEn 8 (if 0 ≤ x then x.toNat else (2 ^ 64 + x).toNat)

/-- CompactSize -/
def compactSize (n : Nat) : Bytes :=
  if n < 0xfd then [UInt8.ofNat n]
  else if n < 0x10000 then 0xfd :: natToLEn 2 n
  else if n < 0x100000000 then 0xfe :: natToLEn 4 n
  else 0xff :: natToLEn 8 n

def outpoint (o : OutPoint) : Bytes := o.hash ++ le32 o.index
/-- an output "serialized as inside CTxOut": amount, then the script with its CompactSize length -/
def txOut (o : TxOut) : Bytes := le64s o.satoshis ++ compactSize o.lockScript.length ++ o.lockScript

/-! ### hash type -/

def baseType (ty : UInt8) : Nat := ty.toNat % 32          -- nHashType & 0x1f
def anyoneCanPay (ty : UInt8) : Bool := ty.toNat / 128 % 2 = 1   -- bit 0x80
def forkId (ty : UInt8) : Bool := ty.toNat / 64 % 2 = 1          -- bit 0x40
def isSingle (ty : UInt8) : Bool := baseType ty = 3
def isNone (ty : UInt8) : Bool := baseType ty = 2

def zeros32 : Bytes := List.replicate 32 0

/-! ### the three inner hashes (`dsha` = double SHA-256) -/

def hashPrevouts (dsha : Bytes → Bytes) (tx : Tx) (ty : UInt8) : Bytes :=
  if !anyoneCanPay ty then dsha ((tx.inputs.map (fun i => outpoint i.prevOutput)).flatten) else zeros32

def hashSequence (dsha : Bytes → Bytes) (tx : Tx) (ty : UInt8) : Bytes :=
  if !anyoneCanPay ty && !isSingle ty && !isNone ty
  then dsha ((tx.inputs.map (fun i => le32 i.sequence)).flatten) else zeros32

def hashOutputs (dsha : Bytes → Bytes) (tx : Tx) (nIn : Nat) (ty : UInt8) : Bytes :=
  if !isSingle ty && !isNone ty then dsha ((tx.outputs.map txOut).flatten)
  else if isSingle ty then
    match tx.outputs[nIn]? with
    | some o => dsha (txOut o)
    | none => zeros32
  else zeros32

/-- The ten-field preimage given the script code.  `none`: the input index is out of range. -/
def preimageOf (dsha : Bytes → Bytes) (tx : Tx) (nIn : Nat) (scriptCode : Bytes) (amount : Int)
    (ty : UInt8) : Option Bytes :=
  match tx.inputs[nIn]? with
  | none => none
  | some inp =>
    some (le32 tx.version ++                                  -- 1
          hashPrevouts dsha tx ty ++                          -- 2
          hashSequence dsha tx ty ++                          -- 3
          outpoint inp.prevOutput ++                          -- 4
          (compactSize scriptCode.length ++ scriptCode) ++    -- 5
          le64s amount ++                                     -- 6
          le32 inp.sequence ++                                -- 7
          hashOutputs dsha tx nIn ty ++                       -- 8
          le32 tx.lockTime ++                                 -- 9
          le32 ty.toNat)                                      -- 10 (fork id 0 in the upper 24 bits)

/-- preimage for the `k`-th check of `script`; `none` = error (input index out of range, or no such check) -/
def preimage (dsha : Bytes → Bytes) (tx : Tx) (nIn : Nat) (script : Bytes) (k : Nat) (amount : Int)
    (ty : UInt8) : Option Bytes :=
  match tx.inputs[nIn]?, scriptCode script k with
  | some _, some sc => preimageOf dsha tx nIn sc amount ty
  | _, _ => none

def digest (dsha : Bytes → Bytes) (tx : Tx) (nIn : Nat) (script : Bytes) (k : Nat) (amount : Int)
    (ty : UInt8) : Option Bytes :=
  (preimage dsha tx nIn script k amount ty).map dsha

end CG.Spec.Bip143

import CG.Model.Interp
/-!
Reference semantics of Bitcoin SV script for C01.

Numbers are mathematical integers: `value` reads a sign-magnitude little-endian byte string,
`encodeMin` is the closed-form minimal encoding.  Numeric opcodes are `encodeMin (f (value a) …)`;
shifts are shifts of the big-endian *number* denoted by the operand, length preserved; NUM2BIN is
"the byte string of the requested length with the same numeric value"; BIN2NUM is
`encodeMin ∘ value`.  Stack, splice, bitwise and flow-control opcodes are list operations already
(their reference reading is the same list manipulation), and the control skeleton
(flag stack, skipping of unexecuted branches, OP_RETURN, break-at) is shared with the model via
`Model.Interp.runWith`.

Library choices adopted as specification (DESIGN.md §5 C01): unbounded arithmetic operands; 4-byte
limit for index/count operands and for IF/NOTIF/VERIFY; DEPTH/SIZE fail above 2^31-1; repeated ELSE
toggles; OP_RETURN under genesis rules ends execution (an open IF is then "ENDIF missing");
CLTV/CSV are NOPs under genesis rules and consume their operand under pre-genesis rules.
-/
namespace CG.Spec.ScriptSem
open CG CG.Model.Interp

/-- numeric value of a byte string: little-endian magnitude, sign in the top bit of the last byte -/
def value (s : Bytes) : Int :=
  if s.isEmpty then 0
  else
    let n := leToNat s
    let top := 2 ^ (8 * s.length - 1)
    if n ≥ top then - ((n - top : Nat) : Int) else (n : Int)

/-- number of bytes of the minimal encoding of magnitude `m > 0`: ⌊log256 (2m)⌋ + 1 … written
    as the least `k` with `m < 2^(8k-1)` -/
def minLenAux (m : Nat) : Nat → Nat → Nat
  | 0, k => k
  | fuel + 1, k => if m < 2 ^ (8 * k - 1) then k else minLenAux m fuel (k + 1)

def minLen (m : Nat) : Nat := if m = 0 then 0 else minLenAux m m 1

/-- closed-form minimal encoding -/
def encodeMin (z : Int) : Bytes :=
  let m := z.natAbs
  let k := minLen m
  if k = 0 then [] else natToLEn k (m + (if z < 0 then 2 ^ (8 * k - 1) else 0))

/-- big-endian value of a byte string (the reading OP_LSHIFT / OP_RSHIFT use) -/
def beToNat (v : Bytes) : Nat := v.foldl (fun acc b => acc * 256 + b.toNat) 0

def natToBEn (n x : Nat) : Bytes := (natToLEn n x).reverse

/-- shift of the big-endian number by `n` bits, keeping the length (bits shifted out are lost).
    Shifting by the whole width or more gives zeros; that case is split off only so that the
    executable reference never builds `2 ^ n` for a huge `n` (`shl_def`/`shr_def` in the proofs
    state the uniform formula). -/
def shl (v : Bytes) (n : Nat) : Bytes :=
  if n ≥ 8 * v.length then List.replicate v.length 0
  else natToBEn v.length ((beToNat v * 2 ^ n) % 2 ^ (8 * v.length))
def shr (v : Bytes) (n : Nat) : Bytes :=
  if n ≥ 8 * v.length then List.replicate v.length 0
  else natToBEn v.length (beToNat v / 2 ^ n)

/-- NUM2BIN: the `m`-byte string with the same numeric value; an error when the value does not fit -/
def num2bin (m : Int) (n : Bytes) : Outcome Bytes :=
  if m < 1 ∨ m > 2147483647 then .err "ScriptError"
  else
    let v := value n
    if (encodeMin v).length > m.toNat then .err "ScriptError"
    else .ok (natToLEn m.toNat (v.natAbs + (if v < 0 then 2 ^ (8 * m.toNat - 1) else 0)))

def item (b : Bool) : Bytes := if b then [1] else []

def popVal (s : Stack) : Outcome (Int × Stack) :=
  match s with
  | [] => .err "ScriptError"
  | t :: r => .ok (value t, r)

/-- small (≤ 4 byte) operand -/
def popSmall (s : Stack) : Outcome (Int × Stack) :=
  match s with
  | [] => .err "ScriptError"
  | t :: r => if t.length > 4 then .err "ScriptError" else .ok (value t, r)

def un {σ : Type} (st : St σ) (f : Int → Int) : Outcome (Bool × St σ) :=
  match popVal st.stack with
  | .ok (x, r) => .ok (false, { st with stack := encodeMin (f x) :: r })
  | .err e => .err e | .panic p => .panic p

def bin {σ : Type} (st : St σ) (f : Int → Int → Outcome Bytes) : Outcome (Bool × St σ) :=
  match popVal st.stack with
  | .err e => .err e | .panic p => .panic p
  | .ok (b, r1) =>
    match popVal r1 with
    | .err e => .err e | .panic p => .panic p
    | .ok (a, r2) =>
      match f a b with
      | .ok v => .ok (false, { st with stack := v :: r2 })
      | .err e => .err e | .panic p => .panic p

/-- truncated division and remainder (sign of the dividend), as BSV specifies for OP_DIV / OP_MOD -/
def tdiv (a b : Int) : Int := (if (a < 0) = (b < 0) then 1 else -1) * ((a.natAbs / b.natAbs : Nat) : Int)
def tmod (a b : Int) : Int := (if a < 0 then -1 else 1) * ((a.natAbs % b.natAbs : Nat) : Int)

/-- reference semantics of one opcode -/
def exec {σ : Type} (H : Hashes) (C : Checker σ) (pregenesis : Bool) (script : Bytes) (i : Nat)
    (op : Op) (st : St σ) : Outcome (Bool × St σ) :=
  let s := st.stack
  let cont (s' : Stack) : Outcome (Bool × St σ) := .ok (false, { st with stack := s' })
  match op with
  | .pushNum n => cont (encodeMin n :: s)
  | .depth => if s.length > 2147483647 then .err "ScriptError" else cont (encodeMin s.length :: s)
  | .size =>
    match s with
    | [] => .err "ScriptError"
    | t :: _ => if t.length > 2147483647 then .err "ScriptError" else cont (encodeMin t.length :: s)
  | .add1 => un st (· + 1)
  | .sub1 => un st (· - 1)
  | .negate => un st (fun x => -x)
  | .abs => un st (fun x => if x < 0 then -x else x)
  | .not_ => un st (fun x => if x = 0 then 1 else 0)
  | .notequal0 => un st (fun x => if x = 0 then 0 else 1)
  | .add => bin st (fun a b => .ok (encodeMin (a + b)))
  | .sub => bin st (fun a b => .ok (encodeMin (a - b)))
  | .mul => bin st (fun a b => .ok (encodeMin (a * b)))
  | .mul2 => un st (· * 2)
  | .div => bin st (fun a b => if b = 0 then .err "ScriptError" else .ok (encodeMin (tdiv a b)))
  | .div2 => un st (fun a => tdiv a 2)
  | .mod_ => bin st (fun a b => if b = 0 then .err "ScriptError" else .ok (encodeMin (tmod a b)))
  | .booland => bin st (fun a b => .ok (item (a ≠ 0 ∧ b ≠ 0)))
  | .boolor => bin st (fun a b => .ok (item (a ≠ 0 ∨ b ≠ 0)))
  | .numequal => bin st (fun a b => .ok (item (a = b)))
  | .numnotequal => bin st (fun a b => .ok (item (a ≠ b)))
  | .lt => bin st (fun a b => .ok (item (a < b)))
  | .gt => bin st (fun a b => .ok (item (a > b)))
  | .le => bin st (fun a b => .ok (item (a ≤ b)))
  | .ge => bin st (fun a b => .ok (item (a ≥ b)))
  | .min => bin st (fun a b => .ok (encodeMin (if a < b then a else b)))
  | .max => bin st (fun a b => .ok (encodeMin (if a > b then a else b)))
  | .lshift =>
    match s with
    | nb :: v :: r =>
      if nb.length > 4 then .err "ScriptError"
      else if value nb < 0 then .err "ScriptError" else cont (shl v (value nb).toNat :: r)
    | _ => .err "ScriptError"
  | .rshift =>
    match s with
    | nb :: v :: r =>
      if nb.length > 4 then .err "ScriptError"
      else if value nb < 0 then .err "ScriptError" else cont (shr v (value nb).toNat :: r)
    | _ => .err "ScriptError"
  | .num2bin =>
    match s with
    | mb :: n :: r =>
      match num2bin (value mb) n with
      | .ok v => cont (v :: r) | .err e => .err e | .panic p => .panic p
    | _ => .err "ScriptError"
  | .bin2num =>
    match s with
    | v :: r => cont (encodeMin (value v) :: r)
    | [] => .err "ScriptError"
  | op => Model.Interp.exec H C pregenesis script i op st

def run {σ : Type} (H : Hashes) (C : Checker σ) (pregenesis : Bool) (script : Bytes)
    (breakAt : Option Nat) (fuel i : Nat) (st : St σ) : Outcome (St σ × Nat) :=
  runWith (exec H C pregenesis script) script breakAt fuel i st

def coreEval {σ : Type} (H : Hashes) (C : Checker σ) (c0 : σ) (script : Bytes) (flags : Nat)
    (startAt breakAt : Option Nat) (stack alt : Option Stack) : Outcome (EvalResult σ) :=
  let st0 : St σ := { stack := stack.getD [], alt := alt.getD [], branch := [], checkIndex := 0, chk := c0 }
  match run H C (flags % 2 = 1) script breakAt (script.length + 1) (startAt.getD 0) st0 with
  | .ok (st, i) => .ok { stack := st.stack, alt := st.alt, pos := breakAt.map (fun _ => i), chk := st.chk }
  | .err e => .err e
  | .panic p => .panic p

/-- a script is accepted exactly when it runs to completion and leaves a true value on top:
    its numeric value is non-zero (some bit other than the sign bit is set) -/
def truthy (t : Bytes) : Bool := value t != 0

def eval {σ : Type} (H : Hashes) (C : Checker σ) (c0 : σ) (script : Bytes) (flags : Nat) : Outcome Unit :=
  match coreEval H C c0 script flags none none none none with
  | .ok r =>
    match r.stack with
    | [] => .err "ScriptError"
    | t :: _ => if truthy t then .ok () else .err "ScriptError"
  | .err e => .err e
  | .panic p => .panic p

end CG.Spec.ScriptSem

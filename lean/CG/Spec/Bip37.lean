import CG.Base.Bytes
/-!
Reference semantics for C14, written from BIP-37 ("Partial Merkle branch format", "Constructing a
partial merkle tree object", "Parsing a partial merkle tree object") and from Bitcoin Core's
`CPartialMerkleTree` (`CalcTreeWidth`, `CalcHash`, `TraverseAndBuild`, `TraverseAndExtract`,
`ExtractMatches`), NOT from chain-gang.  Nodes are addressed by tree POSITION `(height, pos)`:
height 0 is the row of transaction ids, `width n h = ⌈n / 2^h⌉` nodes in row `h`; node `(h+1, p)`
has the children `(h, 2p)` and — iff `2p+1 < width n h` — `(h, 2p+1)`; a node without a right child
hashes its left child with itself.  `H` is the hash of a 64-byte concatenation.

Decisions taken from the BIP text (each compared with chain-gang in `checks/C14.py`):
* the object is invalid if a flag bit or a hash is needed and there is none;
* "all hashes were consumed and no more", "all bits were consumed (except padding to a full byte)";
* "in two-hash-only nodes, the left and right child hashes are different" (CVE-2012-2459);
* the computed root equals the header's Merkle root; a count of 0 transactions is invalid.
Core additionally rejects counts above its block-size bound and `hashes.len() > count` before
traversing; the first is a Core consensus constant that does not apply to BSV, the second is implied
by "all hashes consumed" (each consumed hash covers at least one distinct leaf).  The block header's
own proof of work is C19's subject.
-/
namespace CG.Spec.Bip37
open CG

/-! ## Merkle root: level by level, an odd level duplicates its last node -/

/-- one level up: hash adjacent pairs; a last node without partner is paired with itself -/
def pairUp (H : Bytes → Bytes) : List Bytes → List Bytes
  | [] => []
  | [a] => [H (a ++ a)]
  | a :: b :: r => H (a ++ b) :: pairUp H r

theorem pairUp_length (H : Bytes → Bytes) (l : List Bytes) :
    (pairUp H l).length = (l.length + 1) / 2 := by
  induction l using pairUp.induct with
  | case1 => rfl
  | case2 a => simp [pairUp]
  | case3 a b r ih => simp only [pairUp, List.length_cons, ih]; omega

/-- the Merkle root of a non-empty list of ids (`none` for the empty list) -/
def merkleRoot (H : Bytes → Bytes) : List Bytes → Option Bytes
  | [] => none
  | [a] => some a
  | a :: b :: r => merkleRoot H (pairUp H (a :: b :: r))
termination_by l => l.length
decreasing_by simp only [pairUp, List.length_cons, pairUp_length]; omega

/-! ## Tree shape -/

/-- Core `CalcTreeWidth`: `(nTransactions + (1 << height) - 1) >> height` -/
def width (n h : Nat) : Nat := (n + 2 ^ h - 1) / 2 ^ h

/-- Core: `nHeight = 0; while (CalcTreeWidth(nHeight) > 1) nHeight++;` (`fuel` rounds at most) -/
def heightFrom (n : Nat) : Nat → Nat → Nat
  | 0, h => h
  | fuel + 1, h => if width n h > 1 then heightFrom n fuel (h + 1) else h

/-- height of the root row (`n` rounds always suffice since `n ≤ 2^n`) -/
def height (n : Nat) : Nat := heightFrom n n 0

/-- Core `CalcHash`: the hash of node `(h, p)` of the full tree over `txids` -/
def calcHash (H : Bytes → Bytes) (txids : List Bytes) : Nat → Nat → Bytes
  | 0, p => txids[p]?.getD []
  | h + 1, p =>
    let left := calcHash H txids h (2 * p)
    let right := if 2 * p + 1 < width txids.length h then calcHash H txids h (2 * p + 1) else left
    H (left ++ right)

/-- the root by position: node `(height, 0)` -/
def rootByPosition (H : Bytes → Bytes) (txids : List Bytes) : Bytes :=
  calcHash H txids (height txids.length) 0

/-! ## Flag bits -/

/-- BIP-37: "flag bits, packed per 8 in a byte, least significant bit first" -/
def bitsOfByte (b : UInt8) : List Bool := (List.range 8).map fun k => b.toNat.testBit k

def bitsOf (flags : Bytes) : List Bool := flags.flatMap bitsOfByte

/-- value of a bit string, least significant bit first -/
def bitsVal : List Bool → Nat
  | [] => 0
  | b :: r => (if b then 1 else 0) + 2 * bitsVal r

/-- packing, as Core's serialisation does: `vBytes[p / 8] |= vBits[p] << (p % 8)` -/
def byteOfBits (bs : List Bool) : UInt8 := UInt8.ofNat (bitsVal bs)

def packBits : Nat → List Bool → Bytes
  | 0, _ => []
  | fuel + 1, bs => if bs.isEmpty then [] else byteOfBits (bs.take 8) :: packBits fuel (bs.drop 8)

def bytesOfBits (bs : List Bool) : Bytes := packBits bs.length bs

/-! ## Parsing (Core `TraverseAndExtract` / `ExtractMatches`) -/

/-- `nBitsUsed`, `nHashUsed`, `vMatch` -/
structure PST where
  bitsUsed : Nat
  hashUsed : Nat
  matched : List Bytes
deriving Repr, DecidableEq

/-- Parse the subtree below node `(h, p)`; `none` = the object is invalid. -/
def extractAux (H : Bytes → Bytes) (n : Nat) (bits : List Bool) (hashes : List Bytes) :
    Nat → Nat → PST → Option (Bytes × PST)
  | h, p, st =>
    -- read a bit from the flag bit list
    match bits[st.bitsUsed]? with
    | none => none
    | some parentOfMatch =>
      let st := { st with bitsUsed := st.bitsUsed + 1 }
      match h, parentOfMatch with
      | h + 1, true =>
        -- internal node that is a parent of a match: descend
        match extractAux H n bits hashes h (2 * p) st with
        | none => none
        | some (left, st) =>
          if 2 * p + 1 < width n h then
            match extractAux H n bits hashes h (2 * p + 1) st with
            | none => none
            | some (right, st) =>
              if left = right then none   -- identical children: invalid (CVE-2012-2459)
              else some (H (left ++ right), st)
          else some (H (left ++ left), st)
      | h, parentOfMatch =>
        -- bit 0, or a leaf: read a hash from the hashes list and use it as this node's hash
        match hashes[st.hashUsed]? with
        | none => none
        | some x =>
          let st := { st with hashUsed := st.hashUsed + 1 }
          if h = 0 ∧ parentOfMatch = true then some (x, { st with matched := st.matched ++ [x] })
          else some (x, st)

/-- Parse a partial merkle tree object for a block of `n` transactions whose header commits to
    `root`: the matched transaction ids in block order, or `none` if the object is invalid. -/
def extract (H : Bytes → Bytes) (n : Nat) (flags : Bytes) (hashes : List Bytes) (root : Bytes) :
    Option (List Bytes) :=
  if n = 0 then none
  else
    let bits := bitsOf flags
    match extractAux H n bits hashes (height n) 0 ⟨0, 0, []⟩ with
    | none => none
    | some (r, st) =>
      -- all bits consumed except padding up to a full byte
      if (st.bitsUsed + 7) / 8 ≠ (bits.length + 7) / 8 then none
      -- all hashes consumed
      else if st.hashUsed ≠ hashes.length then none
      -- the root matches the block header
      else if r ≠ root then none
      else some st.matched

/-! ## Construction (Core `TraverseAndBuild`) -/

/-- does the subtree below `(h, p)` contain a matched transaction?  (`matched[i]` for the leaves
    `p·2^h ≤ i < min((p+1)·2^h, n)`) -/
def parentOfMatch (matched : List Bool) (h p : Nat) : Bool :=
  ((matched.drop (p * 2 ^ h)).take (2 ^ h)).any id

/-- depth-first construction: appends to the bit list and the hash list -/
def buildAux (H : Bytes → Bytes) (txids : List Bytes) (matched : List Bool) :
    Nat → Nat → List Bool × List Bytes → List Bool × List Bytes
  | h, p, (bits, hashes) =>
    let pm := parentOfMatch matched h p
    match h, pm with
    | h + 1, true =>
      let acc := buildAux H txids matched h (2 * p) (bits ++ [true], hashes)
      if 2 * p + 1 < width txids.length h then buildAux H txids matched h (2 * p + 1) acc else acc
    | h, pm => (bits ++ [pm], hashes ++ [calcHash H txids h p])

/-- the partial merkle tree object for `txids` with match mask `matched`: (flag bytes, hashes) -/
def build (H : Bytes → Bytes) (txids : List Bytes) (matched : List Bool) : Bytes × List Bytes :=
  let (bits, hashes) := buildAux H txids matched (height txids.length) 0 ([], [])
  (bytesOfBits bits, hashes)

/-- the matched ids in block order -/
def matchedIds (txids : List Bytes) (matched : List Bool) : List Bytes :=
  (txids.zip matched).filterMap fun (t, m) => if m then some t else none

end CG.Spec.Bip37

import CG.Base.Bytes
/-!
Reference statements for C16, written from the Bitcoin script wire format and the P2PKH template, not from
the code: the shortest push instruction for a byte string, its overhead, and the two template scripts.

* opcode `0x00` pushes the empty string; opcodes `0x01..0x4b` push the next that many bytes;
* `0x4c` (OP_PUSHDATA1) is followed by a 1-byte length, `0x4d` (OP_PUSHDATA2) by a 2-byte and `0x4e`
  (OP_PUSHDATA4) by a 4-byte little-endian length;
* P2PKH: `OP_DUP OP_HASH160 <20-byte hash> OP_EQUALVERIFY OP_CHECKSIG`, spent by `<signature> <public key>`.
-/
namespace CG.Spec.ScriptBuild
open CG

/-- number of bytes in front of the data in the shortest push of `n` bytes -/
def overhead (n : Nat) : Nat :=
  if n < 0x4c then 1 else if n < 0x100 then 2 else if n < 0x10000 then 3 else 5

/-- the shortest push instruction for `d` (`d` shorter than 2^32) -/
def minimalPush (d : Bytes) : Bytes :=
  let n := d.length
  if n = 0 then [0x00]
  else if n < 0x4c then UInt8.ofNat n :: d
  else if n < 0x100 then 0x4c :: UInt8.ofNat n :: d
  else if n < 0x10000 then 0x4d :: UInt8.ofNat (n % 256) :: UInt8.ofNat (n / 256) :: d
  else 0x4e :: UInt8.ofNat (n % 256) :: UInt8.ofNat (n / 256 % 256) :: UInt8.ofNat (n / 65536 % 256)
         :: UInt8.ofNat (n / 16777216) :: d

def p2pkhLock (h : Bytes) : Bytes := [0x76, 0xa9, 0x14] ++ h ++ [0x88, 0xac]
def p2pkhUnlock (sig pk : Bytes) : Bytes := minimalPush sig ++ minimalPush pk

end CG.Spec.ScriptBuild

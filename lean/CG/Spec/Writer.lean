import CG.Base.Bytes
/-!
Reference semantics for C15, written from the contract of `std::io::Write` and the property text,
not from the code: *what must a correct serialiser achieve on a destination that takes only part of
each request?*  Counting only — no byte strings, no loop over a buffer, no operations.

A correct serialiser keeps offering the unsent remainder of each request until it is taken.
`through sched n` pushes one `n`-byte request through the calls described by `sched` (an entry
`k ≥ 1` takes at most `k` bytes, an entry `0` is an interrupted call that takes nothing) and returns
the schedule that is left, or `none` if the schedule runs out with bytes still unsent.
Then: on a destination that accepts everything after its schedule the verdict is always
"all bytes, same as a memory buffer"; on one that refuses everything after its schedule (hard error
or `Ok(0)` for ever) it is the same verdict when all requests fit into the schedule, and an error
— never success — otherwise.
-/
namespace CG.Spec.Writer

def through : List Nat → Nat → Option (List Nat)
  | [], n => if n = 0 then some [] else none
  | k :: s, n => if n = 0 then some (k :: s) else through s (n - k)

/-- do all requests (sizes in order) get through before the schedule runs out? -/
def fits : List Nat → List Nat → Bool
  | [], _ => true
  | c :: cs, s =>
    match through s c with
    | some s' => fits cs s'
    | none => false

/-- the verdict the property demands, in the vocabulary of the line protocol -/
def verdict (refusesAfter : Bool) (requests sched : List Nat) : String :=
  if !refusesAfter || fits requests sched then "ok:same" else "class:err"

end CG.Spec.Writer

import CG.Base.Bytes
/-!
Reference semantics of message reassembly, written from the P2P wire layout and not from the
reader code: what a receiver that is handed the *whole* byte stream contiguously obtains.

Wire layout of one message: bytes 0-3 magic, 4-15 command (NUL padded), 16-19 payload length
(u32 little-endian), 20-23 first four bytes of `H(payload)` (`H = sha256d`), then the payload.
There is no reader, no schedule and no retained buffer here: only the bytes.

Choices adopted from the library (they are not the subject of C11): the six payload-less
commands must announce length 0 and their checksum field is not inspected; an unknown command
with length 0 likewise; `block` is exempt from the size limit.
-/
namespace CG.Spec.Reassembly
open CG

inductive Kind where
  | payload
  | bare
  | other
deriving Repr, DecidableEq

/-- protocol parameters -/
structure Wire (Msg : Type) where
  magic : Bytes
  maxPayload : Nat
  blockCmd : Bytes
  H : Bytes → Bytes
  kind : Bytes → Kind
  decode : Bytes → Bytes → Except String Msg
  bare : Bytes → Msg
  other : Bytes → Msg

/-- what the front of a byte string amounts to -/
inductive Step (Msg : Type) where
  /-- one complete message, and the bytes after it -/
  | msg (m : Msg) (rest : Bytes)
  /-- no further message: the stream ends here (`err:IoNotConnected`) or is invalid (`err:BadData`, …) -/
  | stop (e : String)

def DISCONNECTED : String := "err:IoNotConnected"
def BAD_DATA : String := "err:BadData"

/-- bytes `off .. off+len` -/
def field (X : Bytes) (off len : Nat) : Bytes := (X.drop off).take len

variable {Msg : Type}

/-- the part of a message after its (already accepted) 24-byte header, `X` = bytes after the header -/
def stepBody (w : Wire Msg) (cmd : Bytes) (size : Nat) (ck : Bytes) (X : Bytes) : Step Msg :=
  match w.kind cmd with
  | .bare => if size ≠ 0 then .stop BAD_DATA else .msg (w.bare cmd) X
  | .other =>
    if size = 0 then .msg (w.other cmd) X
    else if X.length < size then .stop DISCONNECTED
    else if (w.H (X.take size)).take 4 ≠ ck then .stop BAD_DATA
    else .msg (w.other cmd) (X.drop size)
  | .payload =>
    if X.length < size then .stop DISCONNECTED
    else if (w.H (X.take size)).take 4 ≠ ck then .stop BAD_DATA
    else
      match w.decode cmd (X.take size) with
      | .ok m => .msg m (X.drop size)
      | .error e => .stop e

/-- the first message of `X` -/
def step (w : Wire Msg) (X : Bytes) : Step Msg :=
  if X.length < 24 then .stop DISCONNECTED
  else
    let magic := field X 0 4
    let cmd := field X 4 12
    let size := leToNat (field X 16 4)
    let ck := field X 20 4
    if magic ≠ w.magic then .stop BAD_DATA
    else if cmd ≠ w.blockCmd ∧ size > w.maxPayload then .stop BAD_DATA
    else stepBody w cmd size ck (X.drop 24)

theorem stepBody_length {w : Wire Msg} {cmd size ck X m X'}
    (h : stepBody w cmd size ck X = .msg m X') : X'.length ≤ X.length := by
  unfold stepBody at h
  split at h
  · split at h
    · simp at h
    · simp at h; simp [h.2]
  · split at h
    · simp at h; simp [h.2]
    · split at h
      · simp at h
      · split at h
        · simp at h
        · simp at h; simp [← h.2]
  · split at h
    · simp at h
    · split at h
      · simp at h
      · split at h
        · simp at h; simp [← h.2]
        · simp at h

theorem step_length {w : Wire Msg} {X m X'} (h : step w X = .msg m X') : X'.length < X.length := by
  unfold step at h
  split at h
  · simp at h
  · simp only at h
    split at h
    · simp at h
    · split at h
      · simp at h
      · have := stepBody_length h
        simp at this
        omega

/-- all messages of `X` in order, and why there are no more -/
def parseAll (w : Wire Msg) (X : Bytes) : List Msg × String :=
  match _h : step w X with
  | .msg m X' => let r := parseAll w X'; (m :: r.1, r.2)
  | .stop e => ([], e)
termination_by X.length
decreasing_by exact step_length (by assumption)

/-- the same when a header has already been taken off the front of the stream -/
def parseFrom (w : Wire Msg) (hdr : Option (Bytes × Nat × Bytes)) (X : Bytes) : List Msg × String :=
  match hdr with
  | none => parseAll w X
  | some (cmd, size, ck) =>
    match stepBody w cmd size ck X with
    | .msg m X' => let r := parseAll w X'; (m :: r.1, r.2)
    | .stop e => ([], e)

/-! ### The sender's side: frames -/

/-- a message on the wire: command and payload bytes -/
structure Frame where
  cmd : Bytes
  payload : Bytes
deriving Repr, DecidableEq

/-- the bytes a sender emits for a frame -/
def Frame.bytes (w : Wire Msg) (f : Frame) : Bytes :=
  w.magic ++ f.cmd ++ natToLEn 4 f.payload.length ++ (w.H f.payload).take 4 ++ f.payload

/-- the message a frame carries -/
def Frame.msg? (w : Wire Msg) (f : Frame) : Option Msg :=
  match w.kind f.cmd with
  | .bare => some (w.bare f.cmd)
  | .other => some (w.other f.cmd)
  | .payload =>
    match w.decode f.cmd f.payload with
    | .ok m => some m
    | .error _ => none

/-- the protocol parameters make sense: 4 magic bytes, a hash of at least 4 bytes -/
structure Wire.WF (w : Wire Msg) : Prop where
  magicLen : w.magic.length = 4
  hashLen : ∀ p, 4 ≤ (w.H p).length

/-- a frame the receiver must accept -/
structure Frame.Valid (w : Wire Msg) (f : Frame) : Prop where
  cmdLen : f.cmd.length = 12
  size32 : f.payload.length < 2 ^ 32
  sizeOk : f.cmd = w.blockCmd ∨ f.payload.length ≤ w.maxPayload
  bareEmpty : w.kind f.cmd = .bare → f.payload = []
  decodes : (f.msg? w).isSome

/-- the messages a list of frames carries, in order -/
def expected (w : Wire Msg) (frames : List Frame) : List Msg := frames.filterMap (Frame.msg? w)

/-- the stream a sender produces for a list of frames -/
def streamOf (w : Wire Msg) (frames : List Frame) : Bytes := frames.flatMap (Frame.bytes w)

/-- nothing, or the beginning of a valid frame that stops before its end -/
def StrictFramePrefix (w : Wire Msg) (tail : Bytes) : Prop :=
  tail = [] ∨ ∃ f rest, Frame.Valid w f ∧ rest ≠ [] ∧ tail ++ rest = f.bytes w

end CG.Spec.Reassembly

import CG.Base.Bytes
/-!
Reference: BIP-66 "Strict DER signatures" (`IsValidSignatureEncoding`) and the low-S rule of
BIP-62 rule 5 / BIP-146, written from the BIP texts.

    Format: 0x30 [total-length] 0x02 [R-length] [R] 0x02 [S-length] [S] [sighash]
-/
namespace CG.Spec.Der
open CG

/-- `sig[i]` (every index read below is inside the signature once the size checks before it passed) -/
def at_ (sig : Bytes) (i : Nat) : UInt8 := sig.getD i 0

/-- BIP-66 `IsValidSignatureEncoding`, line by line (the signature includes the sighash byte) -/
def isValidSignatureEncoding (sig : Bytes) : Bool :=
  -- Minimum and maximum size constraints.
  if sig.length < 9 then false
  else if sig.length > 73 then false
  -- A signature is of type 0x30 (compound).
  else if at_ sig 0 ≠ 0x30 then false
  -- Make sure the length covers the entire signature.
  else if (at_ sig 1).toNat ≠ sig.length - 3 then false
  else
    -- Extract the length of the R element.
    let lenR := (at_ sig 3).toNat
    -- Make sure the length of the S element is still inside the signature.
    if 5 + lenR ≥ sig.length then false
    else
      -- Extract the length of the S element.
      let lenS := (at_ sig (5 + lenR)).toNat
      -- Verify that the length of the signature matches the sum of the length of the elements.
      if lenR + lenS + 7 ≠ sig.length then false
      -- Check whether the R element is an integer.
      else if at_ sig 2 ≠ 0x02 then false
      -- Zero-length integers are not allowed for R.
      else if lenR = 0 then false
      -- Negative numbers are not allowed for R.
      else if at_ sig 4 &&& 0x80 ≠ 0 then false
      -- Null bytes at the start of R are not allowed, unless R would otherwise be interpreted as a
      -- negative number.
      else if lenR > 1 ∧ at_ sig 4 = 0x00 ∧ at_ sig 5 &&& 0x80 = 0 then false
      -- Check whether the S element is an integer.
      else if at_ sig (lenR + 4) ≠ 0x02 then false
      -- Zero-length integers are not allowed for S.
      else if lenS = 0 then false
      -- Negative numbers are not allowed for S.
      else if at_ sig (lenR + 6) &&& 0x80 ≠ 0 then false
      -- Null bytes at the start of S are not allowed, unless S would otherwise be interpreted as a
      -- negative number.
      else if lenS > 1 ∧ at_ sig (lenR + 6) = 0x00 ∧ at_ sig (lenR + 7) &&& 0x80 = 0 then false
      else true

/-- the same predicate for the DER part alone (no trailing sighash byte): every size is one less -/
def strictDerB (der : Bytes) : Bool :=
  if der.length < 8 then false
  else if der.length > 72 then false
  else if at_ der 0 ≠ 0x30 then false
  else if (at_ der 1).toNat ≠ der.length - 2 then false
  else
    let lenR := (at_ der 3).toNat
    if 5 + lenR ≥ der.length then false
    else
      let lenS := (at_ der (5 + lenR)).toNat
      if lenR + lenS + 6 ≠ der.length then false
      else if at_ der 2 ≠ 0x02 then false
      else if lenR = 0 then false
      else if at_ der 4 &&& 0x80 ≠ 0 then false
      else if lenR > 1 ∧ at_ der 4 = 0x00 ∧ at_ der 5 &&& 0x80 = 0 then false
      else if at_ der (lenR + 4) ≠ 0x02 then false
      else if lenS = 0 then false
      else if at_ der (lenR + 6) &&& 0x80 ≠ 0 then false
      else if lenS > 1 ∧ at_ der (lenR + 6) = 0x00 ∧ at_ der (lenR + 7) &&& 0x80 = 0 then false
      else true

def StrictDer (der : Bytes) : Prop := strictDerB der = true

instance (der : Bytes) : Decidable (StrictDer der) := inferInstanceAs (Decidable (_ = true))

/-- value of a big-endian byte string -/
def beToNat (b : Bytes) : Nat := leToNat b.reverse

/-- reference parser: accepts exactly the strict-DER strings and returns the two integers -/
def derDecode (der : Bytes) : Option (Nat × Nat) :=
  if strictDerB der then
    let lenR := (at_ der 3).toNat
    let lenS := (at_ der (5 + lenR)).toNat
    some (beToNat ((der.drop 4).take lenR), beToNat ((der.drop (6 + lenR)).take lenS))
  else none

/-- the order of the secp256k1 group (SEC 2, section 2.4.1) -/
def order : Nat := 0xFFFFFFFFFFFFFFFFFFFFFFFFFFFFFFFEBAAEDCE6AF48A03BBFD25E8CD0364141

/-- BIP-62 rule 5 / BIP-146: "the S value inside ECDSA signatures must be at most the curve order
    divided by 2", i.e. between 0x1 and this constant (inclusive) -/
def halfOrder : Nat := 0x7FFFFFFFFFFFFFFFFFFFFFFFFFFFFFFF5D576E7357A4501DDFE92F46681B20A0

def LowS (s : Nat) : Prop := 1 ≤ s ∧ s ≤ halfOrder

end CG.Spec.Der

import CG.Base.Bytes
/-!
Reference semantics of BIP-37 bloom filters and of the `filterload` payload, written from the BIP
(and, for the empty bit field, from Bitcoin Core's `CBloomFilter`), not from the Rust code.

BIP-37: "the filter is a bit field `vData` of `S` bytes …; to insert/test an element, for each
`nHashNum` in `0 .. nHashFuncs-1`:
  `nIndex = MurmurHash3(seed = nHashNum * 0xFBA4C795 + nTweak, data) % (S * 8)` (32-bit arithmetic),
  bit `nIndex` is bit `nIndex & 7` of byte `vData[nIndex >> 3]`."
Limits: `S ≤ 36 000`, `nHashFuncs ≤ 50`.
`filterload` = `var_bytes filter ‖ uint32 nHashFuncs ‖ uint32 nTweak ‖ uint8 nFlags` (little-endian).

Bitcoin Core (`CBloomFilter::insert` / `contains`): an empty `vData` is never divided by — `insert`
returns at once and `contains` returns `true` (CVE-2013-5700).
-/
namespace CG.Spec.Bip37Bloom
open CG

def maxFilterSize : Nat := 36000
def maxHashFuncs : Nat := 50

/-- the seed of hash function number `i`: `i * 0xFBA4C795 + nTweak` in 32-bit arithmetic -/
def seed (i tweak : Nat) : Nat := (i * 0xFBA4C795 + tweak) % 2 ^ 32

/-- bit index selected by hash function `i` in a field of `nbits` bits -/
def position (H : UInt32 → Bytes → UInt32) (nbits tweak : Nat) (data : Bytes) (i : Nat) : Nat :=
  (H (UInt32.ofNat (seed i tweak)) data).toNat % nbits

/-- the bit indexes of an element: one per hash function `0 .. nHash-1` -/
def positions (H : UInt32 → Bytes → UInt32) (nbits nHash tweak : Nat) (data : Bytes) : List Nat :=
  (List.range nHash).map (position H nbits tweak data)

/-- bit `idx` of a bit field: bit `idx mod 8` of byte `idx / 8` (absent bytes read as zero) -/
def getBit (flt : Bytes) (idx : Nat) : Bool := (flt.getD (idx / 8) 0).toNat.testBit (idx % 8)

/-- set bit `idx`; nothing else changes -/
def setBitAt (flt : Bytes) (idx : Nat) : Bytes :=
  match flt[idx / 8]? with
  | some b => flt.set (idx / 8) (UInt8.ofNat (b.toNat ||| 2 ^ (idx % 8)))
  | none => flt

/-- insertion of an element -/
def insert (H : UInt32 → Bytes → UInt32) (flt : Bytes) (nHash tweak : Nat) (data : Bytes) : Bytes :=
  if flt.isEmpty then flt
  else (positions H (8 * flt.length) nHash tweak data).foldl setBitAt flt

/-- membership query -/
def contains (H : UInt32 → Bytes → UInt32) (flt : Bytes) (nHash tweak : Nat) (data : Bytes) : Bool :=
  if flt.isEmpty then true
  else (positions H (8 * flt.length) nHash tweak data).all (getBit flt)

/-- protocol limits -/
def withinLimits (len nHash : Nat) : Bool := decide (len ≤ maxFilterSize) && decide (nHash ≤ maxHashFuncs)

/-! ### wire layout -/

/-- CompactSize ("var_int") -/
def compactSize (n : Nat) : Bytes :=
  if n < 0xfd then [UInt8.ofNat n]
  else if n < 0x10000 then [0xfd, UInt8.ofNat (n % 256), UInt8.ofNat (n / 256)]
  else if n < 0x100000000 then
    [0xfe, UInt8.ofNat (n % 256), UInt8.ofNat (n / 256 % 256), UInt8.ofNat (n / 65536 % 256),
      UInt8.ofNat (n / 16777216)]
  else 0xff :: (List.range 8).map (fun k => UInt8.ofNat (n / 256 ^ k % 256))

def u32le (n : Nat) : Bytes :=
  [UInt8.ofNat (n % 256), UInt8.ofNat (n / 256 % 256), UInt8.ofNat (n / 65536 % 256),
    UInt8.ofNat (n / 16777216 % 256)]

/-- the `filterload` payload -/
def filterload (flt : Bytes) (nHash tweak flags : Nat) : Bytes :=
  compactSize flt.length ++ flt ++ u32le nHash ++ u32le tweak ++ [UInt8.ofNat flags]

structure Decoded where
  filter : Bytes
  nHash : Nat
  tweak : Nat
  flags : Nat
  rest : Bytes
deriving Repr, DecidableEq

def beVal (digitsLE : Bytes) : Nat := digitsLE.foldr (fun b acc => b.toNat + 256 * acc) 0

/-- parse a CompactSize: value and rest -/
def parseCompactSize : Bytes → Option (Nat × Bytes)
  | [] => none
  | b :: r =>
    let w := if b.toNat < 0xfd then 0 else if b.toNat = 0xfd then 2 else if b.toNat = 0xfe then 4 else 8
    if w = 0 then some (b.toNat, r)
    else if r.length < w then none else some (beVal (r.take w), r.drop w)

/-- parse a `filterload` payload; `none` = truncated -/
def parseFilterload (b : Bytes) : Option Decoded :=
  match parseCompactSize b with
  | none => none
  | some (n, r) =>
    if r.length < n + 9 then none
    else
      let flt := r.take n
      let t := r.drop n
      some { filter := flt, nHash := beVal (t.take 4), tweak := beVal ((t.drop 4).take 4),
             flags := (t.getD 8 0).toNat, rest := t.drop 9 }

end CG.Spec.Bip37Bloom

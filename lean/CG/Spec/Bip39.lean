import CG.Base.Bytes
/-!
BIP-39 ("Mnemonic code for generating deterministic keys"), written from the BIP, not from the code.

  *Generating the mnemonic*: the entropy has ENT bits, ENT a multiple of 32.  A checksum is the first
  ENT/32 bits of SHA-256(entropy).  The checksum is appended to the entropy; the concatenated bits
  are split into groups of 11 bits, each encoding a number 0-2047 that is an index into the word list.

  *Decoding* (the inverse): every word must be in the list; its index gives 11 bits; the sentence
  has MS = 3k words, ENT = 32k, CS = k; the first ENT bits are the entropy and the last CS bits must
  equal the first CS bits of SHA-256(entropy).

Bits are `Bool`s, most significant first.  The hash is a parameter `H`.  (The BIP restricts ENT to
128-256; the property extends the same construction to every multiple of 32 the hash can serve.)
-/
namespace CG.Spec.Bip39
open CG

/-- the `w` low bits of `n`, most significant first -/
def natToBits : Nat → Nat → List Bool
  | 0, _ => []
  | w + 1, n => n.testBit w :: natToBits w n

/-- the number written by a bit string, most significant first -/
def bitsToNat : List Bool → Nat
  | [] => 0
  | b :: r => b.toNat * 2 ^ r.length + bitsToNat r

def byteBits (x : UInt8) : List Bool := natToBits 8 x.toNat

def bytesToBits (b : Bytes) : List Bool := b.flatMap byteBits

/-- cut into consecutive groups of `k` (the last may be shorter); `fuel ≥ length` suffices -/
def groups (k : Nat) : Nat → List Bool → List (List Bool)
  | 0, _ => []
  | f + 1, l => if l.isEmpty then [] else l.take k :: groups k f (l.drop k)

def bitsToBytes (l : List Bool) : Bytes :=
  (groups 8 l.length l).map fun g => UInt8.ofNat (bitsToNat g)

/-- first ENT/32 bits of the hash of the entropy -/
def checksumBits (H : Bytes → Bytes) (e : Bytes) : List Bool :=
  (bytesToBits (H e)).take (e.length * 8 / 32)

/-- entropy ++ checksum, the bit string that is cut into words -/
def sentenceBits (H : Bytes → Bytes) (e : Bytes) : List Bool :=
  bytesToBits e ++ checksumBits H e

/-- word indexes of the mnemonic sentence of `e`; defined when ENT is a multiple of 32 and the
    hash is long enough to supply ENT/32 checksum bits -/
def encodeIdx (H : Bytes → Bytes) (e : Bytes) : Option (List Nat) :=
  if e.length * 8 % 32 ≠ 0 then none
  else if (H e).length * 8 < e.length * 8 / 32 then none
  else
    let bits := sentenceBits H e
    some ((groups 11 bits.length bits).map bitsToNat)

/-- index of a word in the list (first occurrence) -/
def indexOf (w : Bytes) : List Bytes → Option Nat
  | [] => none
  | x :: xs => if w == x then some 0 else (indexOf w xs).map Nat.succ

inductive Decoded where
  | entropy (e : Bytes)
  | unknownWord        -- some word is not in the list
  | badLength          -- the number of words is not a multiple of 3 (BIP-39 defines no decoding)
  | badChecksum
deriving Repr, DecidableEq

def allSome {α} : List (Option α) → Option (List α)
  | [] => some []
  | none :: _ => none
  | some a :: r => (allSome r).map (a :: ·)

def decode (H : Bytes → Bytes) (wl : List Bytes) (sentence : List Bytes) : Decoded :=
  match allSome (sentence.map (indexOf · wl)) with
  | none => .unknownWord
  | some idx =>
    if sentence.length % 3 ≠ 0 then .badLength
    else
      let k := sentence.length / 3
      let bits := idx.flatMap (natToBits 11)
      let e := bitsToBytes (bits.take (32 * k))
      if (bytesToBits (H e)).take k = bits.drop (32 * k) then .entropy e
      else .badChecksum

end CG.Spec.Bip39

import CG.Base.Bytes
/-!
BIP-32 (Hierarchical Deterministic Wallets), written from the BIP text — not from the code.

Conventions of the BIP: `point(p)` = `p·G`; `ser32`, `ser256` big-endian; `serP` SEC1 compressed;
`parse256` big-endian; `n` the order of secp256k1; HMAC-SHA512 and HASH160 as named there.
The curve, HMAC-SHA512 and HASH160 are parameters (`Params`); the driver instantiates them with
`CG.Crypto`.

Where the BIP is silent the following choices are made (each is the library's documented reading
and is stated in /verif/DESIGN.md, C08):
* a path is `m` or `M` followed by `/`-separated components; a component is a non-empty string of
  ASCII decimal digits optionally followed by ONE hardened marker `'`, `h` or `H`;
* an unmarked component denotes the child number itself and must be `< 2^32`; a marked component
  `i'` denotes `i + 2^31` and needs `i < 2^31`;
* `m/…` is private derivation and needs a private master; `M/…` is public derivation: the master is
  first neutered (`N`) if it is private, hardened steps are then impossible;
* a child of a key at depth 255 does not exist (the depth field is one byte).
-/
namespace CG.Spec.Bip32
open CG

/-- order of the secp256k1 group (SEC 2) -/
def n : Nat := 115792089237316195423570985008687907852837564279074904382605163141518161494337

structure Params (P : Type) where
  hmacSha512 : Bytes → Bytes → Bytes
  hash160 : Bytes → Bytes
  /-- `point(p)` -/
  point : Nat → P
  add : P → P → P
  isInfinity : P → Bool
  serP : P → Bytes
  /-- inverse of `serP`; `none` when the bytes are not the compressed form of a curve point -/
  parseP : Bytes → Option P

/-! ### conversions -/

def parse256 : Bytes → Nat
  | b => b.foldl (fun acc x => acc * 256 + x.toNat) 0

/-- `len` big-endian bytes, most significant first -/
def serN : Nat → Nat → Bytes
  | 0, _ => []
  | len + 1, x => UInt8.ofNat (x / 256 ^ len % 256) :: serN len x

def ser32 (i : Nat) : Bytes := serN 4 i
def ser256 (p : Nat) : Bytes := serN 32 p

/-! ### child key derivation functions -/

def hardened (i : Nat) : Bool := i ≥ 2 ^ 31

/-- the HMAC output `I` of `CKDpriv` -/
def privI {P} (E : Params P) (k : Nat) (c : Bytes) (i : Nat) : Bytes :=
  if hardened i then E.hmacSha512 c ((0 : UInt8) :: (ser256 k ++ ser32 i))
  else E.hmacSha512 c (E.serP (E.point k) ++ ser32 i)

/-- `CKDpriv((k_par, c_par), i) → (k_i, c_i)`; `none` = "the resulting key is invalid" -/
def ckdPriv {P} (E : Params P) (k : Nat) (c : Bytes) (i : Nat) : Option (Nat × Bytes) :=
  let I := privI E k c i
  let IL := I.take 32
  let IR := I.drop 32
  let ki := (parse256 IL + k) % n
  if parse256 IL ≥ n ∨ ki = 0 then none else some (ki, IR)

/-- the HMAC output `I` of `CKDpub` -/
def pubI {P} (E : Params P) (K : P) (c : Bytes) (i : Nat) : Bytes :=
  E.hmacSha512 c (E.serP K ++ ser32 i)

/-- `CKDpub((K_par, c_par), i) → (K_i, c_i)`; `none` for hardened `i` (failure) and for invalid keys -/
def ckdPub {P} (E : Params P) (K : P) (c : Bytes) (i : Nat) : Option (P × Bytes) :=
  if hardened i then none else
  let I := pubI E K c i
  let IL := I.take 32
  let IR := I.drop 32
  let Ki := E.add (E.point (parse256 IL)) K
  if parse256 IL ≥ n ∨ E.isInfinity Ki then none else some (Ki, IR)

/-- `N((k, c)) → (K, c)` -/
def neuter {P} (E : Params P) (k : Nat) (c : Bytes) : P × Bytes := (E.point k, c)

/-! ### extended keys with their position in the tree, and the serialization format -/

inductive Net | main | test
deriving DecidableEq, Repr

inductive KeyMat (P : Type) where
  | priv (k : Nat)
  | pub (K : P)

structure XKey (P : Type) where
  net : Net
  depth : Nat
  parentFp : Bytes
  childNum : Nat
  chain : Bytes
  key : KeyMat P

def XKey.isPrivate {P} (x : XKey P) : Bool :=
  match x.key with
  | .priv _ => true
  | .pub _ => false

def versionBytes : Net → Bool → Nat
  | .main, false => 0x0488B21E
  | .main, true => 0x0488ADE4
  | .test, false => 0x043587CF
  | .test, true => 0x04358394

/-- 4 version ‖ 1 depth ‖ 4 parent fingerprint ‖ 4 child number ‖ 32 chain code ‖ 33 key data -/
def serialize {P} (E : Params P) (x : XKey P) : Bytes :=
  ser32 (versionBytes x.net x.isPrivate) ++ (UInt8.ofNat x.depth :: (x.parentFp ++ (ser32 x.childNum ++ (x.chain ++
    (match x.key with
     | .priv k => (0 : UInt8) :: ser256 k
     | .pub K => E.serP K)))))

/-- the public point of an extended key -/
def pubPoint {P} (E : Params P) (x : XKey P) : P :=
  match x.key with
  | .priv k => E.point k
  | .pub K => K

/-- first 32 bits of the identifier `HASH160(serP(K))` -/
def fingerprint {P} (E : Params P) (x : XKey P) : Bytes := (E.hash160 (E.serP (pubPoint E x))).take 4

/-- private child `i` of a private extended key -/
def childPriv {P} (E : Params P) (x : XKey P) (i : Nat) : Option (XKey P) :=
  match x.key with
  | .pub _ => none
  | .priv k =>
    if x.depth ≥ 255 then none else
    match ckdPriv E k x.chain i with
    | none => none
    | some (ki, ci) =>
      some { net := x.net, depth := x.depth + 1, parentFp := fingerprint E x, childNum := i, chain := ci, key := .priv ki }

/-- the extended public key of an extended key (`N` keeps the position in the tree) -/
def toPublic {P} (E : Params P) (x : XKey P) : XKey P :=
  { x with key := .pub (pubPoint E x) }

/-- public child `i` of an extended public key -/
def childPub {P} (E : Params P) (x : XKey P) (i : Nat) : Option (XKey P) :=
  match x.key with
  | .priv _ => none
  | .pub K =>
    if x.depth ≥ 255 then none else
    match ckdPub E K x.chain i with
    | none => none
    | some (Ki, ci) =>
      some { net := x.net, depth := x.depth + 1, parentFp := fingerprint E x, childNum := i, chain := ci, key := .pub Ki }

/-- import of a serialized extended key, with the validity checks of the BIP -/
def deserialize {P} (E : Params P) (b : Bytes) : Option (XKey P) :=
  if b.length ≠ 78 then none else
  let ver := parse256 (b.take 4)
  let depth := (b.getD 4 0).toNat
  let fp := (b.drop 5).take 4
  let idx := parse256 ((b.drop 9).take 4)
  let chain := (b.drop 13).take 32
  let kd := b.drop 45
  let mk (net : Net) (key : KeyMat P) : XKey P := ⟨net, depth, fp, idx, chain, key⟩
  let priv (net : Net) : Option (XKey P) :=
    let k := parse256 (kd.drop 1)
    if kd.head? = some 0 ∧ 0 < k ∧ k < n then some (mk net (.priv k)) else none
  let pub (net : Net) : Option (XKey P) :=
    match E.parseP kd with
    | some K => if E.isInfinity K then none else some (mk net (.pub K))
    | none => none
  if ver = 0x0488ADE4 then priv .main
  else if ver = 0x04358394 then priv .test
  else if ver = 0x0488B21E then pub .main
  else if ver = 0x043587CF then pub .test
  else none

/-! ### path notation -/

def decimal (ds : List Char) : Nat := ds.foldl (fun a c => 10 * a + (c.toNat - 48)) 0

/-- one path component: its digits and its optional hardened marker -/
structure Comp where
  digits : List Char
  marker : Option Char

def Comp.text (c : Comp) : List Char := c.digits ++ c.marker.toList

def Comp.childNumber (c : Comp) : Nat :=
  match c.marker with
  | none => decimal c.digits
  | some _ => decimal c.digits + 2 ^ 31

def Comp.WF (c : Comp) : Prop :=
  c.digits ≠ [] ∧ (∀ d ∈ c.digits, d.isDigit = true) ∧
  (match c.marker with
   | none => decimal c.digits < 2 ^ 32
   | some m => (m = '\'' ∨ m = 'h' ∨ m = 'H') ∧ decimal c.digits < 2 ^ 31)

def pathText (pfx : Char) (cs : List Comp) : List Char := pfx :: cs.flatMap fun c => '/' :: c.text

/-- the declarative meaning of path notation: `s` is `m` (private, `isPriv`) or `M` followed by
    well-formed components, and denotes the child numbers `idxs` -/
def Denotes (s : List Char) (isPriv : Bool) (idxs : List Nat) : Prop :=
  ∃ (pfx : Char) (cs : List Comp),
    ((pfx = 'm' ∧ isPriv = true) ∨ (pfx = 'M' ∧ isPriv = false)) ∧
    (∀ c ∈ cs, c.WF) ∧ s = pathText pfx cs ∧ idxs = cs.map Comp.childNumber

/-- executable recogniser of the same notation (used by the driver) -/
def parseComponents : Nat → List Char → Option (List Nat)
  | _, [] => some []
  | 0, _ => none
  | fuel + 1, c :: r =>
    if c ≠ '/' then none else
    let ds := r.takeWhile Char.isDigit
    let r1 := r.dropWhile Char.isDigit
    if ds = [] then none else
    let v := decimal ds
    match r1 with
    | m :: r2 =>
      if m = '\'' ∨ m = 'h' ∨ m = 'H' then
        (if v < 2 ^ 31 then (parseComponents fuel r2).map (fun l => (v + 2 ^ 31) :: l) else none)
      else
        (if v < 2 ^ 32 then (parseComponents fuel r1).map (fun l => v :: l) else none)
    | [] => if v < 2 ^ 32 then some [v] else none

def parsePath (s : List Char) : Option (Bool × List Nat) :=
  match s with
  | [] => none
  | c :: r =>
    if c = 'm' then (parseComponents r.length r).map fun l => (true, l)
    else if c = 'M' then (parseComponents r.length r).map fun l => (false, l)
    else none

/-! ### derivation along a path -/

def foldPriv {P} (E : Params P) : XKey P → List Nat → Option (XKey P)
  | x, [] => some x
  | x, i :: r =>
    match childPriv E x i with
    | none => none
    | some y => foldPriv E y r

def foldPub {P} (E : Params P) : XKey P → List Nat → Option (XKey P)
  | x, [] => some x
  | x, i :: r =>
    match childPub E x i with
    | none => none
    | some y => foldPub E y r

/-- the key a path denotes relative to a master: `m/a/b` = `CKDpriv(CKDpriv(m, a), b)`,
    `M/a/b` = `CKDpub(CKDpub(M, a), b)` with `M = N(m)` -/
def derive {P} (E : Params P) (master : XKey P) (isPriv : Bool) (idxs : List Nat) : Option (XKey P) :=
  if isPriv then (if master.isPrivate then foldPriv E master idxs else none)
  else foldPub E (toPublic E master) idxs

/-- serialized master, path text ↦ serialized key; `none` = error -/
def deriveSerialized {P} (E : Params P) (master : Bytes) (path : List Char) : Option Bytes :=
  match deserialize E master, parsePath path with
  | some x, some (isPriv, idxs) => (derive E x isPriv idxs).map (serialize E)
  | _, _ => none

end CG.Spec.Bip32

import CG.Base.Bytes
/-!
Reference semantics of Base58Check and of the three text formats built on it, written from the
format descriptions (Bitcoin wiki "Base58Check encoding", "Wallet import format", "List of address
prefixes"; BIP-32 "Serialization format"), NOT from the code:

* Base58: the string is a base-58 numeral over the alphabet
  `123456789ABCDEFGHJKLMNPQRSTUVWXYZabcdefghijkmnopqrstuvwxyz`; its value written in base 256,
  most significant byte first, preceded by one zero byte per leading `'1'`.
* Base58Check: `payload ‖ first four bytes of SHA256(SHA256(payload))`, Base58-encoded.
* address: payload = version byte ‖ 20-byte hash; version 0x00 (P2PKH) / 0x05 (P2SH) on main
  networks, 0x6f / 0xc4 on test networks.
* WIF: payload = 0x80 (main) / 0xef (test) ‖ 32-byte key in [1, n-1] ‖ optional 0x01.
* extended key: payload = 78 bytes, version 0488B21E / 0488ADE4 (main pub/prv),
  043587CF / 04358394 (test pub/prv).

Executable; the hash is a parameter.
-/
namespace CG.Spec.Base58Check
open CG

def alphabet : List Char := "123456789ABCDEFGHJKLMNPQRSTUVWXYZabcdefghijkmnopqrstuvwxyz".toList

def indexOf (c : Char) : Option Nat := go alphabet 0
where
  go : List Char → Nat → Option Nat
    | [], _ => none
    | a :: r, i => if a = c then some i else go r (i + 1)

/-- value of the numeral, `none` if a character is outside the alphabet -/
def value? : List Char → Nat → Option Nat
  | [], acc => some acc
  | c :: r, acc =>
    match indexOf c with
    | none => none
    | some d => value? r (acc * 58 + d)

def countLeading {α} [BEq α] (x : α) : List α → Nat
  | [] => 0
  | a :: r => if a == x then countLeading x r + 1 else 0

def b58decode (s : List Char) : Option Bytes :=
  match value? s 0 with
  | none => none
  | some v => some (List.replicate (countLeading '1' s) 0 ++ (natToLE v).reverse)

/-- minimal little-endian base-58 digits -/
def digits58 (n : Nat) : List Nat :=
  if h : n = 0 then [] else n % 58 :: digits58 (n / 58)
termination_by n
decreasing_by omega

def b58encode (b : Bytes) : List Char :=
  List.replicate (countLeading 0 b) '1' ++
    (digits58 (leToNat b.reverse)).reverse.map (fun d => alphabet.getD d '?')

def check4 (H : Bytes → Bytes) (p : Bytes) : Bytes := (H p).take 4

def encodeCheck (H : Bytes → Bytes) (payload : Bytes) : List Char :=
  b58encode (payload ++ check4 H payload)

/-- the payload, if the string is a valid Base58Check string -/
def decodeCheck (H : Bytes → Bytes) (s : List Char) : Option Bytes :=
  match b58decode s with
  | none => none
  | some d =>
    if d.length < 4 then none
    else
      let p := d.take (d.length - 4)
      if check4 H p == d.drop (d.length - 4) then some p else none

/-- networks 0..6 = BSV main, BSV test, BSV STN, BTC main, BTC test, BCH main, BCH test -/
def isMain (net : Nat) : Bool := net == 0 || net == 3 || net == 5

def p2pkhVersion (net : Nat) : UInt8 := if isMain net then 0x00 else 0x6f
def p2shVersion (net : Nat) : UInt8 := if isMain net then 0x05 else 0xc4

/-- `(hash, isP2SH)` -/
def decodeAddress (H : Bytes → Bytes) (net : Nat) (s : List Char) : Option (Bytes × Bool) :=
  match decodeCheck H s with
  | some (v :: hash) =>
    if hash.length = 20 then
      if v == p2pkhVersion net then some (hash, false)
      else if v == p2shVersion net then some (hash, true)
      else none
    else none
  | _ => none

def encodeAddress (H : Bytes → Bytes) (net : Nat) (p2sh : Bool) (hash : Bytes) : List Char :=
  encodeCheck H ((if p2sh then p2shVersion net else p2pkhVersion net) :: hash)

def beNat (b : Bytes) : Nat := leToNat b.reverse

def curveOrder : Nat := 0xFFFFFFFFFFFFFFFFFFFFFFFFFFFFFFFEBAAEDCE6AF48A03BBFD25E8CD0364141

inductive Wif where
  | valid (testnet : Bool) (key : Bytes)
  | invalid
  /-- Base58Check-valid with a WIF prefix, but not one of the two standard shapes: the format
      documents say nothing the property relies on; left to the implementation -/
  | nonstandard

def decodeWif (H : Bytes → Bytes) (s : List Char) : Wif :=
  match decodeCheck H s with
  | some (v :: rest) =>
    if v == 0x80 || v == 0xef then
      let key? : Option Bytes :=
        if rest.length = 32 then some rest
        else if rest.length = 33 && rest.getLast? == some 1 then some (rest.take 32)
        else none
      match key? with
      | some k => if 0 < beNat k ∧ beNat k < curveOrder then .valid (v == 0xef) k else .invalid
      | none => if rest.length = 33 then .invalid else .nonstandard
    else .invalid
  | _ => .invalid

def encodeWif (H : Bytes → Bytes) (testnet : Bool) (key : Bytes) : List Char :=
  encodeCheck H ((if testnet then 0xef else 0x80) :: key ++ [1])

def decodeXkey (H : Bytes → Bytes) (s : List Char) : Option Bytes :=
  match decodeCheck H s with
  | some p => if p.length = 78 then some p else none
  | none => none

/-- `(testnet, private)` from the version word -/
def xkeyVersionInfo (k : Bytes) : Option (Bool × Bool) :=
  let v := beNat (k.take 4)
  if v == 0x0488B21E then some (false, false) else if v == 0x0488ADE4 then some (false, true)
  else if v == 0x043587CF then some (true, false) else if v == 0x04358394 then some (true, true)
  else none

end CG.Spec.Base58Check

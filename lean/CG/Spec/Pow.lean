import CG.Base.Bytes
/-!
Reference semantics for C19, written from the protocol description:
a header is valid iff `int(hash) ≤ target(bits)` and its timestamp is strictly greater than the
median of the timestamps of the last (up to) eleven predecessors.
-/
namespace CG.Spec.Pow
open CG

/-- compact difficulty → integer target; defined for exponents 3..32 only (library range),
    mantissa sign bit assumed clear (outside the claim otherwise). -/
def target (bits : Nat) : Option Nat :=
  let exp := bits / 2 ^ 24
  if 3 ≤ exp ∧ exp ≤ 32 then some ((bits % 2 ^ 24) * 256 ^ (exp - 3)) else none

/-- insertion sort: an independent way to get the sorted window -/
def insert (x : Nat) : List Nat → List Nat
  | [] => [x]
  | y :: ys => if x ≤ y then x :: y :: ys else y :: insert x ys
def isort : List Nat → List Nat
  | [] => []
  | x :: xs => insert x (isort xs)

def lastUpTo (n : Nat) (l : List Nat) : List Nat := l.drop (l.length - n)

/-- the median as the library documents it: element `len/2` of the sorted last ≤ 11 timestamps -/
def median (prev : List Nat) : Option Nat :=
  let w := isort (lastUpTo 11 prev)
  w[w.length / 2]?

inductive Verdict | ok | badTimestamp | badBits | badPow
deriving DecidableEq, Repr

def validate (timestamp bits : Nat) (hash : Bytes) (prev : List Nat) : Verdict :=
  match median prev with
  | some m => if timestamp > m then pow else .badTimestamp
  | none => pow
where pow : Verdict :=
  match target bits with
  | none => .badBits
  | some t => if leToNat hash ≤ t then .ok else .badPow

def Verdict.cls : Verdict → String
  | .ok => "ok" | .badTimestamp => "err:BadData" | .badBits => "err:BadArgument" | .badPow => "err:BadData"

end CG.Spec.Pow

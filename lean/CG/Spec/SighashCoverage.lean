import CG.Base.Bytes
/-!
Which single-field changes a BIP-143/FORKID signature commits to, per sighash type — written from
the BIP-143 text (hashPrevouts / hashSequence / hashOutputs rules), independently of the code.
`covered ty m = true`: after the change the signature must no longer validate.
-/
namespace CG.Spec.SighashCoverage

def anyoneCanPay (ty : Nat) : Bool := ty / 128 % 2 = 1
def base (ty : Nat) : Nat := ty % 32
def isAll (ty : Nat) : Bool := base ty ≠ 2 ∧ base ty ≠ 3

/-- `none` if the mutation name is unknown -/
def covered (ty : Nat) (m : String) : Option Bool :=
  match m with
  | "none" => some false
  -- always committed: version, lock time, this input's outpoint / sequence / script code / amount, the type byte
  | "version" | "locktime" | "in_seq_self" | "in_prev_self" | "amount" | "spent_script" | "sig_type" => some true
  -- the signature itself and the key it is checked under
  | "key" | "sig_flip_r" | "sig_flip_s" => some true
  -- hashPrevouts: all outpoints unless ANYONECANPAY
  | "in_prev_other" | "in_add" => some (!anyoneCanPay ty)
  -- hashSequence: all sequences only for ALL without ANYONECANPAY
  | "in_seq_other" => some (!anyoneCanPay ty && isAll ty)
  -- hashOutputs: ALL = every output; SINGLE = the output at the input's index; NONE = nothing
  | "out_amount_same" | "out_script_same" => some (isAll ty || base ty = 3)
  | "out_amount_other" | "out_script_other" | "out_add" | "out_remove_last" => some (isAll ty)
  -- another input's unlocking script is never committed to
  | "unlock_other" => some false
  | _ => none

end CG.Spec.SighashCoverage

import CG.Model.Wire.Types
/-!
# Reference encoder for the Bitcoin / BSV P2P wire format

Written from the protocol documentation (en.bitcoin.it "Protocol documentation", BIP-37, BIP-130,
BIP-133, BIP-152, BIP-155, bitcoin-sv-specs `protoconf.md`, `multistreams.md`, the `authch` release
note), NOT from the Rust code and NOT with the codec combinators: plain functions from values to
bytes.  It shares only the value types with the model.

Integers are little-endian unless stated; a port is big-endian ("network byte order");
`CompactSize`: `< 0xfd` one byte; `≤ 0xffff` `0xfd` + 2 bytes; `≤ 0xffffffff` `0xfe` + 4 bytes;
else `0xff` + 8 bytes.

Choices the documents leave open and the library fixes (adopted here and listed in the claim):
* `version`: the multistreams association id is `len:u8 ‖ id`, appended only when non-empty;
* `createstrm`: the stream policy name (`var_str`) is appended only when non-empty;
* `headers`: the per-header transaction count is the single byte `0x00`;
* `protoconf`: the first field (`numberOfFields`) is what the library calls `version`; stream
  policies are present iff it is `> 1`.
-/
namespace CG.Spec.WireSpec
open CG CG.Model.Wire

def byte (x : Nat) : UInt8 := UInt8.ofNat (x % 256)

def le16 (x : Nat) : Bytes := [byte x, byte (x / 256)]
def le32 (x : Nat) : Bytes := [byte x, byte (x / 256), byte (x / 65536), byte (x / 16777216)]
def le64 (x : Nat) : Bytes := le32 (x % 4294967296) ++ le32 (x / 4294967296)
/-- network byte order -/
def be16 (x : Nat) : Bytes := [byte (x / 256), byte x]

/-- two's complement representative of a signed integer in `bits` bits -/
def twos (bits : Nat) (x : Int) : Nat := if x < 0 then (x + (2 : Int) ^ bits).toNat else x.toNat

def sle32 (x : Int) : Bytes := le32 (twos 32 x)
def sle64 (x : Int) : Bytes := le64 (twos 64 x)

def compactSize (n : Nat) : Bytes :=
  if n < 0xfd then [byte n]
  else if n ≤ 0xffff then 0xfd :: le16 n
  else if n ≤ 0xffffffff then 0xfe :: le32 n
  else 0xff :: le64 n

/-- `var_str` / byte vector: CompactSize length followed by the bytes -/
def varBytes (b : Bytes) : Bytes := compactSize b.length ++ b

/-- CompactSize count followed by the elements -/
def vector {α} (f : α → Bytes) (l : List α) : Bytes := compactSize l.length ++ l.flatMap f

/-! ## structures -/

def outPoint (o : OutPoint) : Bytes := o.hash ++ le32 o.index
def txIn (i : TxIn) : Bytes := outPoint i.prevOutput ++ varBytes i.unlockScript ++ le32 i.sequence
def txOut (o : TxOut) : Bytes := sle64 o.satoshis ++ varBytes o.lockScript
def tx (t : Tx) : Bytes := le32 t.version ++ vector txIn t.inputs ++ vector txOut t.outputs ++ le32 t.lockTime

def blockHeader (h : BlockHeader) : Bytes :=
  le32 h.version ++ h.prevHash ++ h.merkleRoot ++ le32 h.timestamp ++ le32 h.bits ++ le32 h.nonce

def invVect (v : InvVect) : Bytes := le32 v.objType ++ v.hash
def inv (i : Inv) : Bytes := vector invVect i.objects

def blockLocator (l : BlockLocator) : Bytes :=
  le32 l.version ++ vector id l.blockLocatorHashes ++ l.hashStop

def ping (p : Ping) : Bytes := le64 p.nonce
def feeFilter (f : FeeFilter) : Bytes := le64 f.minfee
def sendCmpct (s : SendCmpct) : Bytes := [byte s.enable] ++ le64 s.version

/-- `net_addr` without the time field: services, IPv6 (or IPv4-mapped) address, port -/
def nodeAddr (a : NodeAddr) : Bytes := le64 a.services ++ a.ip ++ be16 a.port
def nodeAddrEx (a : NodeAddrEx) : Bytes := le32 a.lastConnectedTime ++ nodeAddr a.addr

def version (v : Version) : Bytes :=
  le32 v.version ++ le64 v.services ++ sle64 v.timestamp ++ nodeAddr v.recvAddr ++ nodeAddr v.txAddr ++
  le64 v.nonce ++ varBytes v.userAgent ++ sle32 v.startHeight ++ [if v.relay then 1 else 0] ++
  (if v.associationId = [] then [] else byte v.associationId.length :: v.associationId)

def addr (a : Addr) : Bytes := vector nodeAddrEx a.addrs

def headers (h : Headers) : Bytes := vector (fun x => blockHeader x ++ [0]) h.headers
def block (b : Block) : Bytes := blockHeader b.header ++ vector tx b.txns

def merkleBlock (m : MerkleBlock) : Bytes :=
  blockHeader m.header ++ le32 m.totalTransactions ++ vector id m.hashes ++ varBytes m.flags

def filterLoad (f : FilterLoad) : Bytes :=
  varBytes f.filter ++ le32 f.numHashFuncs ++ le32 f.tweak ++ [byte f.flags]
def filterAdd (f : FilterAdd) : Bytes := varBytes f.data

def reject (r : Reject) : Bytes := varBytes r.message ++ [byte r.code] ++ varBytes r.reason ++ r.data

def protoconf (p : Protoconf) : Bytes :=
  compactSize p.version ++ le32 p.maxRecvPayloadLength ++
  (match p.streamPolicies with
   | some s => if p.version > 1 then varBytes s else []
   | none => [])

def authch (a : Authch) : Bytes := sle32 a.version ++ le32 a.messageLength ++ a.message

def assocId (a : Bytes) : Bytes := byte a.length :: a

def createstrm (c : Createstrm) : Bytes :=
  assocId c.associationId ++ [byte c.streamType] ++
  (if c.streamPolicy = [] then [] else varBytes c.streamPolicy)

def streamack (c : Streamack) : Bytes := assocId c.associationId ++ [byte c.streamType]

def prefilled (p : PrefilledTx) : Bytes := compactSize p.index ++ tx p.tx

def cmpctblock (c : Cmpctblock) : Bytes :=
  blockHeader c.header ++ le64 c.nonce ++ vector id c.shortids ++ vector prefilled c.prefilledtxn

def getblocktxn (g : Getblocktxn) : Bytes := g.blockhash ++ vector compactSize g.indexes
def blocktxn (b : Blocktxn) : Bytes := b.blockhash ++ vector tx b.transactions

/-- BIP-155 address entry -/
def nodeAddrExV2 (a : NodeAddrExV2) : Bytes :=
  le32 a.lastConnectedTime ++ compactSize a.services ++ [byte a.networkId] ++ varBytes a.addr ++ be16 a.port
def addrV2 (a : AddrV2) : Bytes := vector nodeAddrExV2 a.addrs

/-! ## message framing -/

/-- the command name, NUL-padded to 12 bytes -/
def commandBytes (name : String) : Bytes :=
  let b : Bytes := name.toList.map fun c => UInt8.ofNat c.toNat
  b ++ List.replicate (12 - b.length) 0

/-- message = magic ‖ command ‖ payload length (u32) ‖ first four bytes of the payload's double
    hash ‖ payload.  `H` is SHA-256. -/
def frame (H : Bytes → Bytes) (magic : Bytes) (name : String) (payload : Bytes) : Bytes :=
  magic ++ commandBytes name ++ le32 payload.length ++ (H (H payload)).take 4 ++ payload

/-- command name and payload of every protocol message (`other` is not one) -/
def commandAndPayload : Msg → Option (String × Bytes)
  | .addr p => some ("addr", addr p)
  | .addrV2 p => some ("addrv2", addrV2 p)
  | .block p => some ("block", block p)
  | .feeFilter p => some ("feefilter", feeFilter p)
  | .filterAdd p => some ("filteradd", filterAdd p)
  | .filterClear => some ("filterclear", [])
  | .filterLoad p => some ("filterload", filterLoad p)
  | .getAddr => some ("getaddr", [])
  | .getBlocks p => some ("getblocks", blockLocator p)
  | .getData p => some ("getdata", inv p)
  | .getHeaders p => some ("getheaders", blockLocator p)
  | .headers p => some ("headers", headers p)
  | .inv p => some ("inv", inv p)
  | .mempool => some ("mempool", [])
  | .merkleBlock p => some ("merkleblock", merkleBlock p)
  | .notFound p => some ("notfound", inv p)
  | .other _ => none
  | .ping p => some ("ping", ping p)
  | .pong p => some ("pong", ping p)
  | .reject p => some ("reject", reject p)
  | .sendHeaders => some ("sendheaders", [])
  | .sendCmpct p => some ("sendcmpct", sendCmpct p)
  | .tx p => some ("tx", tx p)
  | .verack => some ("verack", [])
  | .version p => some ("version", version p)
  | .protoconf p => some ("protoconf", protoconf p)
  | .authch p => some ("authch", authch p)
  | .createstrm p => some ("createstrm", createstrm p)
  | .streamack p => some ("streamack", streamack p)
  | .cmpctblock p => some ("cmpctblock", cmpctblock p)
  | .getblocktxn p => some ("getblocktxn", getblocktxn p)
  | .blocktxn p => some ("blocktxn", blocktxn p)
  | .sendAddrV2 => some ("sendaddrv2", [])

def message (H : Bytes → Bytes) (magic : Bytes) (m : Msg) : Option Bytes :=
  (commandAndPayload m).map fun p => frame H magic p.1 p.2

/-! ## which values a conforming peer may send ("in-range" as far as a receiver checks it)

Field widths are guaranteed by the Rust types; what remains are the semantic limits a receiver
enforces.  Used by the differential run to decide when a written message MUST read back. -/

def txOutputsOk (t : Tx) : Bool :=
  !t.inputs.isEmpty && !t.outputs.isEmpty && t.outputs.all (fun o => decide (0 ≤ o.satoshis)) &&
  decide ((t.outputs.map (·.satoshis)).sum ≤ 2100000000000000)

def readsBack : Msg → Bool
  | .addr p => decide (p.addrs.length ≤ 1000)
  | .addrV2 p => decide (p.addrs.length ≤ 1000)
  | .inv p | .getData p | .notFound p => decide (p.objects.length ≤ 50000)
  | .filterAdd p => decide (p.data.length ≤ 520)
  | .filterLoad p => decide (p.filter.length ≤ 36000) && decide (p.numHashFuncs ≤ 50)
  | .version p => decide (70001 ≤ p.version) && decide (p.associationId.length ≤ 255)
  | .protoconf p => (p.version == 1 && p.streamPolicies.isNone || p.version == 2 && p.streamPolicies.isSome) &&
      decide (1048576 ≤ p.maxRecvPayloadLength)
  | .authch p => p.version == 1 && p.messageLength == p.message.length
  | .createstrm p => decide (1 ≤ p.streamType ∧ p.streamType ≤ 4) && !p.associationId.isEmpty &&
      decide (p.associationId.length ≤ 255)
  | .streamack p => decide (1 ≤ p.streamType ∧ p.streamType ≤ 4) && !p.associationId.isEmpty &&
      decide (p.associationId.length ≤ 255)
  | .reject p => if p.message = [0x62, 0x6c, 0x6f, 0x63, 0x6b] ∨ p.message = [0x74, 0x78]
      then p.data.length == 32 else p.data.isEmpty
  | .cmpctblock p => p.shortids.all (·.length == 6) && p.prefilledtxn.all (fun q => txOutputsOk q.tx)
  | .other _ => false
  | _ => true

end CG.Spec.WireSpec

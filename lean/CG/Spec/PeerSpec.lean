import CG.Model.Peer
/-!
Reference semantics of a peer session, written from the property statement and the P2P handshake
rules (version, then verack; ping is answered by pong with the same nonce; feefilter /
sendheaders / sendcmpct are announcements that set state) — not from the control flow of
`peer.rs`.  It has no state machine: a session is *cut* at the end of the handshake and at the
first terminating event, and the expected log is read off the three pieces.

Only the vocabulary (`Event`, `Msg`, `Wire`, `SendErr`) is shared with the model.

Scope: sessions in which `disconnect()` is not called locally before the handshake has ended
(the property says nothing about that case; `expected` answers `none`).
-/
namespace CG.Spec.PeerSpec
open CG CG.Model.Peer

/-- what the observers of `connected_event()`, `messages()`, `disconnected_event()` see -/
inductive Obs where
  | connected
  | message (m : Msg)
  | disconnected
deriving DecidableEq, Repr

/-- everything observable about a finished session -/
structure Log where
  /-- observer calls in order -/
  obs : List Obs
  /-- what the remote node receives, in order -/
  rx : List Wire
  /-- results of the local `send` calls, in call order -/
  sends : List (Option SendErr)
  /-- `connected()`, `minfee()`, `sendheaders()`, `sendcmpct()` afterwards -/
  connected : Bool
  minfee : Nat
  sendheaders : Bool
  sendcmpct : Bool
  /-- the peer has closed its socket (the remote sees end of stream) -/
  closed : Bool
deriving DecidableEq, Repr

/-! ### Announcements -/

/-- state = (minfee, sendheaders, sendcmpct); an announcement overwrites its component -/
def applyAnn (st : Nat × Bool × Bool) (m : Msg) : Nat × Bool × Bool :=
  match m.kind with
  | .feefilter fee => (fee, st.2.1, st.2.2)
  | .sendheaders => (st.1, true, st.2.2)
  | .sendcmpct u => (st.1, st.2.1, u)
  | _ => st

def annOf (ms : List Msg) : Nat × Bool × Bool := ms.foldl applyAnn (0, false, false)

/-! ### The handshake -/

/-- the first remote event and everything after it (local calls before it are skipped) -/
def nextRemote : List Event → Option (Event × List Event)
  | [] => none
  | e :: es => if e.isLocal then nextRemote es else some (e, es)

def isVerack (m : Msg) : Bool :=
  match m.kind with
  | .verack => true
  | _ => false

def acceptable (filter : VersionInfo → Bool) (m : Msg) : Bool :=
  match m.kind with
  | .version v => filter v
  | _ => false

/-- the remote's first message is a version the filter accepts -/
def versionAccepted (filter : VersionInfo → Bool) (evs : List Event) : Option (List Event) :=
  match nextRemote evs with
  | some (.remoteFrame m, rest) => if acceptable filter m then some rest else none
  | _ => none

/-- … and its second message is a verack: what follows the handshake -/
def afterHandshake (filter : VersionInfo → Bool) (evs : List Event) : Option (List Event) :=
  match versionAccepted filter evs with
  | some rest =>
    match nextRemote rest with
    | some (.remoteFrame m, live) => if isVerack m then some live else none
    | _ => none
  | none => none

def handshakeCompletes (filter : VersionInfo → Bool) (evs : List Event) : Bool :=
  (afterHandshake filter evs).isSome

/-- the handshake is still waiting for the remote: nothing (or only an accepted version) has arrived -/
def handshakePending (filter : VersionInfo → Bool) (evs : List Event) : Bool :=
  match nextRemote evs with
  | none => true
  | some (.remoteFrame m, rest) => acceptable filter m && (nextRemote rest).isNone
  | _ => false

/-- the remote's side of a session: the local calls removed -/
def remoteOnly (evs : List Event) : List Event := evs.filter fun e => !e.isLocal

/-! ### After the handshake -/

/-- events that end a connected session: the remote closes or sends something that is not a
    message, `disconnect()` is called, or `send` is given a message that cannot be written -/
def terminates : Event → Bool
  | .remoteClose | .remoteGarbage _ | .localDisconnect => true
  | .localSend m => !m.writable
  | _ => false

def frameOf : Event → Option Msg
  | .remoteFrame m => some m
  | _ => none

/-- the peer's writes caused by one event of a live session -/
def wireOf : Event → Option Wire
  | .remoteFrame m => (pingNonce m).map .pong
  | .localSend m => if m.writable then some (.msg m) else none
  | _ => none

def sendCalls (evs : List Event) : Nat := (evs.filter fun | .localSend _ => true | _ => false).length

def hasLocalDisconnect (evs : List Event) : Bool := evs.any fun | .localDisconnect => true | _ => false

/-- the events of the handshake itself: `evs` without the part `live` that follows it -/
def handshakePart (evs live : List Event) : List Event := evs.take (evs.length - live.length)

def illegal (n : Nat) : List (Option SendErr) := List.replicate n (some .illegalState)

/-- the handshake completed (`hs` = its events, `live` = what follows): connected; every message
    up to the first terminating event delivered in order; pongs and local messages written;
    disconnected once iff something terminates the session; `send` fails before the handshake is
    over and after the session is terminated -/
def connectedLog (hs live : List Event) : Log :=
  let before := live.takeWhile (fun e => !terminates e)
  let rest := live.dropWhile (fun e => !terminates e)
  let msgs := before.filterMap frameOf
  let termSend : List (Option SendErr) :=
    match rest with
    | .localSend _ :: _ => [some .io]
    | _ => []
  { obs := .connected :: msgs.map .message ++ (if rest.isEmpty then [] else [.disconnected])
    rx := [.version, .verack, .hsPing] ++ before.filterMap wireOf
    sends := illegal (sendCalls hs) ++ List.replicate (sendCalls before) none ++ termSend ++ illegal (sendCalls (rest.drop 1))
    connected := rest.isEmpty
    minfee := (annOf msgs).1, sendheaders := (annOf msgs).2.1, sendcmpct := (annOf msgs).2.2
    closed := !rest.isEmpty }

/-- the remote broke the handshake (`broken = true`: wrong order, malformed, closed, silent,
    filtered out) or has not finished it yet: nothing is delivered, every `send` fails -/
def unconnectedLog (evs : List Event) (broken : Bool) : Log :=
  { obs := if broken then [.disconnected] else [], rx := [.version], sends := illegal (sendCalls evs),
    connected := false, minfee := 0, sendheaders := false, sendcmpct := false, closed := broken }

/-- the events up to and including the one that broke the handshake -/
def brokenPart (filter : VersionInfo → Bool) (evs : List Event) : List Event :=
  match versionAccepted filter evs with
  | some rest => handshakePart evs (((nextRemote rest).map (·.2)).getD [])
  | none => handshakePart evs (((nextRemote evs).map (·.2)).getD [])

/-- the expected log; `none` = outside the property's scope -/
def expected (filter : VersionInfo → Bool) (evs : List Event) : Option Log :=
  match afterHandshake filter evs with
  | some live =>
    if hasLocalDisconnect (handshakePart evs live) then none else some (connectedLog (handshakePart evs live) live)
  | none =>
    if handshakePending filter evs then
      if hasLocalDisconnect evs then none else some (unconnectedLog evs false)
    else
      if hasLocalDisconnect (brokenPart filter evs) then none else some (unconnectedLog evs true)

/-! ### Reading the same observables off a run of the model -/

def obsOf (os : List Output) : List Obs :=
  os.filterMap fun
    | .emitConnected => some .connected
    | .emitDisconnected => some .disconnected
    | .deliver m => some (.message m)
    | _ => none

def observe (r : State × List Output) : Log :=
  { obs := obsOf r.2, rx := wires r.2, sends := sendResults r.2,
    connected := r.1.flag, minfee := r.1.minfee, sendheaders := r.1.sendheaders, sendcmpct := r.1.sendcmpct,
    closed := r.1.closed }

end CG.Spec.PeerSpec

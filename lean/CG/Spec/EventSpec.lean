import CG.Model.RxHist
/-!
C13 — what the property demands of an execution history, written from the property statement (not
from the code).  A history is the chronological list of visible events (`CG.Model.Rx.HEv`).

* `ExactlyOnce` (plain subject): an observer whose `subscribe` call returned before a publication began,
  and which is alive until the publication ended, receives that publication exactly once — per
  subscription (`neverLost`), never twice for one subscription (`neverDup`), and nothing is delivered
  that was not subscribed and published (`noInvention`).
* `SingleOnce` (single-shot subject): only the first publication's value is ever delivered, at most once
  per subscription, and every subscription that has returned has received it once the emission is over —
  whether it subscribed before, during or after the emission.
* "a blocking wait returns once an event has been published" and "no interleaving deadlocks" are
  statements about reachable *states* (a waiter is never left asleep with its latch open; some thread
  can always move); they are stated over the model's states in `CG.Props.C13`, using `PollWait` below.

`check…` are the executable versions used by the driver on the (short) histories of the
correspondence runs.
-/
namespace CG.Spec.EventSpec
open CG.Model.Rx

/-- user observer `o` is not dropped before position `j` -/
def AliveUntil (h : Hist) (o : Nat) (j : Nat) : Prop :=
  ∀ (m t : Nat), m < j → h[m]? ≠ some (HEv.dropO t o)

structure ExactlyOnce (h : Hist) : Prop where
  /-- never loses -/
  neverLost : ∀ (i j t e p : Nat), h[i]? = some (HEv.pubBegin t e p) → h[j]? = some (HEv.pubEnd t e p) → i < j →
    ∀ (k t' o c : Nat), k < i → h[k]? = some (HEv.subRet t' (Ob.user o) c) → AliveUntil h o j →
    ∃ (m t'' : Nat), i < m ∧ m < j ∧ h[m]? = some (HEv.deliver t'' (Ob.user o) c e p)
  /-- never duplicates: one delivery per (subscription, publication) -/
  neverDup : ∀ (m₁ m₂ t₁ t₂ : Nat) (o : Ob) (c e₁ e₂ p : Nat), h[m₁]? = some (HEv.deliver t₁ o c e₁ p) →
    h[m₂]? = some (HEv.deliver t₂ o c e₂ p) → m₁ = m₂
  /-- a delivery belongs to a subscription that began and to a publication in progress -/
  noInvention : ∀ (m t : Nat) (o : Ob) (c e p : Nat), h[m]? = some (HEv.deliver t o c e p) →
    (∃ (k t' : Nat), k < m ∧ h[k]? = some (HEv.subBegin t' o c)) ∧
    (∃ (i : Nat), i < m ∧ h[i]? = some (HEv.pubBegin t e p)) ∧
    (∀ (j : Nat), j < m → h[j]? ≠ some (HEv.pubEnd t e p))
  /-- well-formedness: a publication ends after it began -/
  endAfterBegin : ∀ (j t e p : Nat), h[j]? = some (HEv.pubEnd t e p) →
    ∃ (i : Nat), i < j ∧ h[i]? = some (HEv.pubBegin t e p)

/-- position `i` holds the first publication of the history -/
def FirstPub (h : Hist) (i : Nat) (t e p : Nat) : Prop :=
  h[i]? = some (HEv.pubBegin t e p) ∧ ∀ (i' t' e' p' : Nat), i' < i → h[i']? ≠ some (HEv.pubBegin t' e' p')

structure SingleOnce (h : Hist) : Prop where
  /-- only the value of the first publication is ever delivered -/
  oneValue : ∀ (m t : Nat) (o : Ob) (c e p : Nat), h[m]? = some (HEv.deliver t o c e p) →
    ∃ (i t₀ : Nat), i < m ∧ FirstPub h i t₀ e p
  /-- at most once per subscription -/
  atMostOnce : ∀ (m₁ m₂ t₁ t₂ : Nat) (o : Ob) (c e₁ e₂ p₁ p₂ : Nat), h[m₁]? = some (HEv.deliver t₁ o c e₁ p₁) →
    h[m₂]? = some (HEv.deliver t₂ o c e₂ p₂) → m₁ = m₂
  /-- every subscriber: once the emission is over and the subscription has returned, it has been served
      (the observer being alive up to that point) -/
  everySubscriber : ∀ (i j t e p : Nat), FirstPub h i t e p → h[j]? = some (HEv.pubEnd t e p) →
    ∀ (k t' o c : Nat), h[k]? = some (HEv.subRet t' (Ob.user o) c) → AliveUntil h o (max j k) →
    ∃ (m t'' : Nat), (m < j ∨ m < k) ∧ h[m]? = some (HEv.deliver t'' (Ob.user o) c e p)
  /-- a delivery belongs to a subscription that began -/
  subscribed : ∀ (m t : Nat) (o : Ob) (c e p : Nat), h[m]? = some (HEv.deliver t o c e p) →
    ∃ (k t' : Nat), k < m ∧ h[k]? = some (HEv.subBegin t' o c)

/-! ### executable checkers (driver) -/

def idxs (h : Hist) : List Nat := List.range h.length

def aliveUntilB (h : Hist) (o j : Nat) : Bool :=
  (List.range j).all fun m => match h[m]? with
    | some (HEv.dropO _ o') => o' != o
    | _ => true

def isDeliver (o : Ob) (c e p : Nat) : Option HEv → Bool
  | some (HEv.deliver _ o' c' e' p') => o' == o && c' == c && e' == e && p' == p
  | _ => false

/-- first violation of `ExactlyOnce`, as a short tag -/
def checkExactlyOnce (h : Hist) : Option String :=
  let n := h.length
  let lost := (List.range n).any fun i => match h[i]? with
    | some (HEv.pubBegin t e p) => (List.range n).any fun j =>
        i < j && h[j]? == some (HEv.pubEnd t e p) && (List.range i).any fun k => match h[k]? with
          | some (HEv.subRet _ (Ob.user o) c) =>
              aliveUntilB h o j && !((List.range j).any fun m => i < m && isDeliver (Ob.user o) c e p h[m]?)
          | _ => false
    | _ => false
  let dup := (List.range n).any fun m₁ => match h[m₁]? with
    | some (HEv.deliver _ o c _ p) => (List.range m₁).any fun m₂ => match h[m₂]? with
        | some (HEv.deliver _ o' c' _ p') => o' == o && c' == c && p' == p
        | _ => false
    | _ => false
  let invent := (List.range n).any fun m => match h[m]? with
    | some (HEv.deliver t o c e p) =>
        !(((List.range m).any fun k => match h[k]? with | some (HEv.subBegin _ o' c') => o' == o && c' == c | _ => false)
          && ((List.range m).any fun i => h[i]? == some (HEv.pubBegin t e p))
          && ((List.range m).all fun j => h[j]? != some (HEv.pubEnd t e p)))
    | _ => false
  let illformed := (List.range n).any fun j => match h[j]? with
    | some (HEv.pubEnd t e p) => !((List.range j).any fun i => h[i]? == some (HEv.pubBegin t e p))
    | _ => false
  if lost then some "lost" else if dup then some "dup" else if invent then some "invent"
  else if illformed then some "illformed" else none

def firstPub (h : Hist) : Option (Nat × Nat × Nat × Nat) :=
  (List.range h.length).findSome? fun i => match h[i]? with
    | some (HEv.pubBegin t e p) => some (i, t, e, p)
    | _ => none

def checkSingleOnce (h : Hist) : Option String :=
  let n := h.length
  let fp := firstPub h
  let wrong := (List.range n).any fun m => match h[m]?, fp with
    | some (HEv.deliver _ _ _ e p), some (i, _, e₀, p₀) => !(i < m && e == e₀ && p == p₀)
    | some (HEv.deliver _ _ _ _ _), none => true
    | _, _ => false
  let dup := (List.range n).any fun m₁ => match h[m₁]? with
    | some (HEv.deliver _ o c _ _) => (List.range m₁).any fun m₂ => match h[m₂]? with
        | some (HEv.deliver _ o' c' _ _) => o' == o && c' == c
        | _ => false
    | _ => false
  let missing := match fp with
    | some (_, t, e, p) => (List.range n).any fun j => h[j]? == some (HEv.pubEnd t e p) &&
        (List.range n).any fun k => match h[k]? with
          | some (HEv.subRet _ (Ob.user o) c) =>
              aliveUntilB h o (max j k) && !((List.range n).any fun m => (m < j || m < k) && isDeliver (Ob.user o) c e p h[m]?)
          | _ => false
    | none => false
  let unsub := (List.range n).any fun m => match h[m]? with
    | some (HEv.deliver _ o c _ _) =>
        !((List.range m).any fun k => match h[k]? with | some (HEv.subBegin _ o' c') => o' == o && c' == c | _ => false)
    | _ => false
  if wrong then some "wrong-value" else if dup then some "dup" else if missing then some "single-missing"
  else if unsub then some "invent" else none

end CG.Spec.EventSpec

import CG.Base.Bytes
/-!
Specification for C04, written from the property statement and the protocol's money rules (Bitcoin
`CheckTransaction` / `CheckTxInputs`), not from the code: exact mathematical integers, no machine
arithmetic, no order of checks.

A transaction is viewed as: the list of outpoints its inputs refer to, the supplied unspent-output
amounts (a partial function), the list of output amounts, the lock time and a per-input script verdict.
-/
namespace CG.Spec.Conservation
open CG

/-- 21 million coins of 10^8 base units. -/
def MAX_MONEY : Int := 21000000 * 100000000

/-- an outpoint: (transaction id, output index) -/
abbrev Ref := Bytes × Nat

/-- the null reference used by coinbase inputs: 32 zero bytes, index 2^32 - 1 -/
def coinbaseRef : Ref := (List.replicate 32 0, 2 ^ 32 - 1)

structure View where
  inputs : List Ref
  spent : Ref → Option Int
  outputs : List Int
  lockTime : Nat
  scriptPass : Nat → Bool

/-- exact integer sum -/
def total : List Int → Int
  | [] => 0
  | a :: r => a + total r

/-- amounts of the inputs that are present in the supplied map -/
def inputAmounts (v : View) : List Int := v.inputs.filterMap v.spent

/-- The conditions under which a non-coinbase transaction may be accepted. -/
structure Accepts (v : View) : Prop where
  present : ∀ r ∈ v.inputs, (v.spent r).isSome = true
  distinct : v.inputs.Pairwise (· ≠ ·)
  outNonneg : ∀ a ∈ v.outputs, 0 ≤ a
  inNonneg : ∀ a ∈ inputAmounts v, 0 ≤ a
  inSum : total (inputAmounts v) ≤ MAX_MONEY
  outSum : total v.outputs ≤ MAX_MONEY
  conserve : total v.outputs ≤ total (inputAmounts v)
  lockTime : v.lockTime ≤ 2 ^ 31 - 1
  noCoinbase : ∀ r ∈ v.inputs, r ≠ coinbaseRef
  scripts : ∀ i, i < v.inputs.length → v.scriptPass i = true

def pairwiseDistinct : List Ref → Bool
  | [] => true
  | r :: rest => !rest.contains r && pairwiseDistinct rest

/-- executable form (the differential oracle) -/
def acceptsB (v : View) : Bool :=
  v.inputs.all (fun r => (v.spent r).isSome) &&
  pairwiseDistinct v.inputs &&
  v.outputs.all (fun a => decide (0 ≤ a)) &&
  (inputAmounts v).all (fun a => decide (0 ≤ a)) &&
  decide (total (inputAmounts v) ≤ MAX_MONEY) &&
  decide (total v.outputs ≤ MAX_MONEY) &&
  decide (total v.outputs ≤ total (inputAmounts v)) &&
  decide (v.lockTime ≤ 2 ^ 31 - 1) &&
  v.inputs.all (fun r => decide (r ≠ coinbaseRef)) &&
  (List.range v.inputs.length).all v.scriptPass

theorem pairwiseDistinct_iff (l : List Ref) : pairwiseDistinct l = true ↔ l.Pairwise (· ≠ ·) := by
  induction l with
  | nil => simp [pairwiseDistinct]
  | cons r rest ih =>
    simp only [pairwiseDistinct, Bool.and_eq_true, Bool.not_eq_true', List.pairwise_cons, ih]
    constructor
    · rintro ⟨h1, h2⟩
      refine ⟨?_, h2⟩
      intro a ha hra
      subst hra
      simp [ha] at h1
    · rintro ⟨h1, h2⟩
      refine ⟨?_, h2⟩
      cases hc : rest.contains r with
      | false => rfl
      | true =>
        have : r ∈ rest := by simpa using hc
        exact absurd rfl (h1 r this)

theorem accepts_iff (v : View) : acceptsB v = true ↔ Accepts v := by
  unfold acceptsB
  simp only [Bool.and_eq_true, List.all_eq_true, decide_eq_true_eq, pairwiseDistinct_iff,
    List.mem_range]
  constructor
  · rintro ⟨⟨⟨⟨⟨⟨⟨⟨⟨h1, h2⟩, h3⟩, h4⟩, h5⟩, h6⟩, h7⟩, h8⟩, h9⟩, h10⟩
    exact ⟨h1, h2, h3, h4, h5, h6, h7, h8, h9, h10⟩
  · rintro ⟨h1, h2, h3, h4, h5, h6, h7, h8, h9, h10⟩
    exact ⟨⟨⟨⟨⟨⟨⟨⟨⟨h1, h2⟩, h3⟩, h4⟩, h5⟩, h6⟩, h7⟩, h8⟩, h9⟩, h10⟩

/-- Money rules for a transaction carried in a compact-block or block-transactions payload
    (no unspent-output map is available there): no negative output, exact total within the limit. -/
structure PayloadAccepts (outputs : List Int) : Prop where
  outNonneg : ∀ a ∈ outputs, 0 ≤ a
  outSum : total outputs ≤ MAX_MONEY

def payloadAcceptsB (outputs : List Int) : Bool :=
  outputs.all (fun a => decide (0 ≤ a)) && decide (total outputs ≤ MAX_MONEY)

theorem payloadAccepts_iff (o : List Int) : payloadAcceptsB o = true ↔ PayloadAccepts o := by
  unfold payloadAcceptsB
  simp only [Bool.and_eq_true, List.all_eq_true, decide_eq_true_eq]
  exact ⟨fun ⟨a, b⟩ => ⟨a, b⟩, fun ⟨a, b⟩ => ⟨a, b⟩⟩

end CG.Spec.Conservation

import CG.Model.WireLock
/-!
# C12 (wire level) — whole frames under the writer mutex, for every schedule

Property theorems for `CG.Model.WireLock`.
-/
namespace CG.Props.C12wire
open CG.Model.WireLock

variable {α : Type}

/-- the invariant: the wire is the finished messages followed by what the lock holder has written of its current one -/
def Inv (s : St α) : Prop :=
  match s.lock with
  | none => s.wire = s.done.flatten ∧ ∀ (j : Nat) (t : Th α), s.ths[j]? = some t → t.cur = none
  | some i => (∃ (t : Th α) (w r : List α), s.ths[i]? = some t ∧ t.cur = some (w, r) ∧ s.wire = s.done.flatten ++ w) ∧
              ∀ (j : Nat) (t : Th α), j ≠ i → s.ths[j]? = some t → t.cur = none

theorem inv_init (progs : List (List (List α))) : Inv (init progs) := by
  refine ⟨by simp [init], ?_⟩
  intro j t h
  simp only [init, List.getElem?_map, Option.map_eq_some_iff] at h
  obtain ⟨p, _, rfl⟩ := h
  rfl

theorem inv_step (s s' : St α) (i : Nat) (h : Inv s) (hs : step true s i = some s') : Inv s' := by
  unfold step at hs
  cases hti : s.ths[i]? with
  | none => simp [hti] at hs
  | some t =>
    have hlen : i < s.ths.length := by
      have := List.getElem?_eq_some_iff.mp hti
      exact this.1
    simp only [hti] at hs
    cases hc : t.cur with
    | none =>
      simp only [hc] at hs
      cases htd : t.todo with
      | nil => simp [htd] at hs
      | cons m rest =>
        simp only [htd] at hs
        cases hl : s.lock with
        | some k => simp [hl] at hs
        | none =>
          simp only [hl, Option.isSome_none, Bool.and_false, Bool.false_eq_true, if_false, Option.some.injEq] at hs
          subst hs
          unfold Inv at h ⊢
          rw [hl] at h
          obtain ⟨hw, hnone⟩ := h
          dsimp only
          refine ⟨⟨⟨some ([], m), rest⟩, [], m, by simp [hlen], rfl, by simpa using hw⟩, ?_⟩
          intro j tj hji hj
          rw [List.getElem?_set_ne (by omega)] at hj
          exact hnone j tj hj
    | some wr =>
      obtain ⟨w, r⟩ := wr
      simp only [hc] at hs
      -- the thread is inside the critical section: it is the lock holder
      have hold : s.lock = some i := by
        unfold Inv at h
        cases hl : s.lock with
        | none => rw [hl] at h; have := h.2 i t hti; rw [hc] at this; cases this
        | some k =>
          rw [hl] at h
          by_cases hik : i = k
          · rw [hik]
          · have := h.2 i t hik hti; rw [hc] at this; cases this
      unfold Inv at h
      rw [hold] at h
      obtain ⟨⟨t0, w0, r0, ht0, hc0, hw⟩, hoth⟩ := h
      rw [hti] at ht0
      cases ht0
      rw [hc] at hc0
      cases hc0
      cases r with
      | nil =>
        simp only [Option.some.injEq] at hs
        subst hs
        unfold Inv
        dsimp only
        refine ⟨by simp [hw], ?_⟩
        intro j tj hj
        by_cases hji : j = i
        · subst hji
          rw [List.getElem?_set_self hlen] at hj
          cases hj; rfl
        · rw [List.getElem?_set_ne (by omega)] at hj
          exact hoth j tj hji hj
      | cons c cs =>
        simp only [Option.some.injEq] at hs
        subst hs
        unfold Inv
        dsimp only
        rw [hold]
        dsimp only
        refine ⟨⟨⟨some (w ++ [c], cs), t.todo⟩, w ++ [c], cs, by simp [hlen], rfl, by simp [hw]⟩, ?_⟩
        intro j tj hji hj
        rw [List.getElem?_set_ne (by omega)] at hj
        exact hoth j tj hji hj

theorem inv_run (sched : List Nat) : ∀ (s : St α), Inv s → Inv (run true s sched) := by
  induction sched with
  | nil => intro s h; exact h
  | cons i rest ih =>
    intro s h
    simp only [run]
    cases hs : step true s i with
    | none => exact ih s h
    | some s' => exact ih s' (inv_step s s' i h hs)

/-- membership invariant: nothing is invented — finished messages, the message in progress and the messages still to send
    are messages of the programs -/
def Mem (A : List (List α)) (s : St α) : Prop :=
  (∀ m ∈ s.done, m ∈ A) ∧
  ∀ (j : Nat) (t : Th α), s.ths[j]? = some t → (∀ m ∈ t.todo, m ∈ A) ∧ (∀ w r, t.cur = some (w, r) → w ++ r ∈ A)

theorem mem_init (progs : List (List (List α))) : Mem progs.flatten (init progs) := by
  refine ⟨by simp [init], ?_⟩
  intro j t h
  simp only [init, List.getElem?_map, Option.map_eq_some_iff] at h
  obtain ⟨p, hp, rfl⟩ := h
  refine ⟨fun m hm => ?_, fun w r hc => by cases hc⟩
  exact List.mem_flatten.mpr ⟨p, List.mem_of_getElem? hp, hm⟩

theorem mem_step (b : Bool) (A : List (List α)) (s s' : St α) (i : Nat) (h : Mem A s) (hs : step b s i = some s') : Mem A s' := by
  unfold step at hs
  cases hti : s.ths[i]? with
  | none => simp [hti] at hs
  | some t =>
    have hlen : i < s.ths.length := (List.getElem?_eq_some_iff.mp hti).1
    obtain ⟨hd, ht⟩ := h
    have hti' := ht i t hti
    simp only [hti] at hs
    cases hc : t.cur with
    | none =>
      simp only [hc] at hs
      cases htd : t.todo with
      | nil => simp [htd] at hs
      | cons m rest =>
        simp only [htd] at hs
        split at hs
        · cases hs
        · simp only [Option.some.injEq] at hs
          subst hs
          refine ⟨hd, ?_⟩
          intro j tj hj
          dsimp only at hj
          by_cases hji : j = i
          · subst hji
            rw [List.getElem?_set_self hlen] at hj
            cases hj
            have := hti'.1
            rw [htd] at this
            refine ⟨fun x hx => this x (by simp [hx]), fun w r hwr => ?_⟩
            cases hwr
            simpa using this m (by simp)
          · rw [List.getElem?_set_ne (by omega)] at hj
            exact ht j tj hj
    | some wr =>
      obtain ⟨w, r⟩ := wr
      simp only [hc] at hs
      have hwr := hti'.2 w r hc
      cases r with
      | nil =>
        simp only [Option.some.injEq] at hs
        subst hs
        refine ⟨?_, ?_⟩
        · intro m hm
          dsimp only at hm
          rcases List.mem_append.mp hm with h1 | h1
          · exact hd m h1
          · simp only [List.mem_singleton] at h1
            subst h1
            simpa using hwr
        · intro j tj hj
          dsimp only at hj
          by_cases hji : j = i
          · subst hji
            rw [List.getElem?_set_self hlen] at hj
            cases hj
            exact ⟨hti'.1, fun w r hx => by cases hx⟩
          · rw [List.getElem?_set_ne (by omega)] at hj
            exact ht j tj hj
      | cons c cs =>
        simp only [Option.some.injEq] at hs
        subst hs
        refine ⟨hd, ?_⟩
        intro j tj hj
        dsimp only at hj
        by_cases hji : j = i
        · subst hji
          rw [List.getElem?_set_self hlen] at hj
          cases hj
          refine ⟨hti'.1, fun w' r' hx => ?_⟩
          cases hx
          simpa using hwr
        · rw [List.getElem?_set_ne (by omega)] at hj
          exact ht j tj hj

theorem mem_run (b : Bool) (A : List (List α)) (sched : List Nat) : ∀ (s : St α), Mem A s → Mem A (run b s sched) := by
  induction sched with
  | nil => intro s h; exact h
  | cons i rest ih =>
    intro s h
    simp only [run]
    cases hs : step b s i with
    | none => exact ih s h
    | some s' => exact ih s' (mem_step b A s s' i h hs)

/-! ## Property theorems -/

/-- **Whole frames, for every schedule.**  Whatever the number of threads, their messages, the chunking of each message into
    write calls and the schedule: at every moment the wire is a concatenation of WHOLE messages of the programs, followed —
    only while some thread is inside its critical section — by the chunks that thread has written of its current message.
    No chunk of one message ever lands inside another. -/
theorem C12_wire_whole_frames (progs : List (List (List α))) (sched : List Nat) :
    let s := run true (init progs) sched
    ∃ (ms : List (List α)) (part : List α),
      s.wire = ms.flatten ++ part ∧ (∀ m ∈ ms, m ∈ progs.flatten) ∧
      (s.lock = none → part = []) ∧
      (∀ i, s.lock = some i → ∃ rest, part ++ rest ∈ progs.flatten) := by
  intro s
  have hi : Inv s := inv_run sched _ (inv_init progs)
  have hm : Mem progs.flatten s := mem_run true _ sched _ (mem_init progs)
  unfold Inv at hi
  cases hl : s.lock with
  | none =>
    rw [hl] at hi
    exact ⟨s.done, [], by simpa using hi.1, hm.1, fun _ => rfl, fun i h => by cases h⟩
  | some k =>
    rw [hl] at hi
    obtain ⟨⟨t, w, r, ht, hc, hw⟩, _⟩ := hi
    refine ⟨s.done, w, hw, hm.1, (fun h => by cases h), fun i _ => ⟨r, (hm.2 k t ht).2 w r hc⟩⟩

/-- when every thread has finished, the wire is exactly a concatenation of whole messages -/
theorem C12_wire_finished (progs : List (List (List α))) (sched : List Nat)
    (hf : (run true (init progs) sched).lock = none) :
    ∃ ms : List (List α), (run true (init progs) sched).wire = ms.flatten ∧ ∀ m ∈ ms, m ∈ progs.flatten := by
  obtain ⟨ms, part, hw, hmem, hn, _⟩ := C12_wire_whole_frames progs sched
  exact ⟨ms, by rw [hw, hn hf]; simp, hmem⟩

/-- the mutex never deadlocks: its holder can always take a step -/
theorem C12_wire_holder_moves (progs : List (List (List α))) (sched : List Nat) (i : Nat)
    (hl : (run true (init progs) sched).lock = some i) :
    (step true (run true (init progs) sched) i).isSome = true := by
  have hi : Inv (run true (init progs) sched) := inv_run sched _ (inv_init progs)
  unfold Inv at hi
  rw [hl] at hi
  obtain ⟨⟨t, w, r, ht, hc, _⟩, _⟩ := hi
  unfold step
  simp only [ht, hc]
  cases r <;> simp

/-- **Without the mutex the claim is false**: two threads, one two-chunk message each, alternating schedule — the wire is
    `a1 b1 a2 b2`, which is no concatenation of `[a1, a2]` and `[b1, b2]` (kernel-evaluated). -/
theorem C12_wire_unlocked_interleaves :
    (run false (init [[[1, 2]], [[3, 4]]]) [0, 1, 0, 1, 0, 1, 0, 1]).wire = [1, 3, 2, 4] := by decide

/-- … and the same programs under the mutex, same schedule: whole frames -/
example : (run true (init [[[1, 2]], [[3, 4]]]) [0, 1, 0, 1, 0, 1, 0, 1, 1, 1, 1]).wire = [1, 2, 3, 4] := by decide


end CG.Props.C12wire

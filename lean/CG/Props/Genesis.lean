import CG.Model.Header
import CG.Crypto.Sha256
import CG.Generated.Tables
/-!
# The genesis blocks declared by `src/network/network.rs` are what they claim to be

For each of the seven networks the harness prints, from the tree under test, the header fields of
`Network::genesis_block()`, the value of `Network::genesis_hash()` and the serialised transactions of the
block (`CG.Generated.C19_GENESIS_0 … 6`, rewritten on every run).  The theorem below is evaluated by the
kernel with the Lean SHA-256 of `CG.Crypto` (no axioms beyond the usual three): for every network

* the double SHA-256 of the 80-byte serialisation of the declared header (`CG.Model.Header.serialize`,
  C19) is the declared genesis hash,
* the block has one transaction whose double SHA-256 is the header's Merkle root (so the root check of
  `Block::validate` passes — C14), and
* `BlockHeader::validate` (C19's model: proof of work against the compact target, no predecessors)
  accepts the header with that hash.

It ties three things that are otherwise only compared at run time: the tree's constants, the header
serialisation model and the independent SHA-256 used as the reference in the correspondence runs.
-/
namespace CG.Props.Genesis
open CG CG.Model

def bytesOf (l : List Nat) : Bytes := l.map UInt8.ofNat

structure G where
  header : Header.BlockHeader
  ghash : Bytes
  ntx : Nat
  txs : Bytes

def parse (l : List Nat) : Option G :=
  match l with
  | v :: t :: b :: n :: rest =>
    if rest.length < 97 then none
    else some ⟨⟨v, bytesOf (rest.take 32), bytesOf ((rest.drop 32).take 32), t, b, n⟩,
               bytesOf ((rest.drop 64).take 32), (rest.drop 96).headD 0, bytesOf (rest.drop 97)⟩
  | _ => none

def okGenesis (l : List Nat) : Bool :=
  match parse l with
  | none => false
  | some g =>
    let hh := Header.hash Crypto.sha256d g.header
    hh == g.ghash && g.ntx == 1 && Crypto.sha256d g.txs == g.header.merkleRoot &&
    (match Header.validate g.header.timestamp g.header.bits hh [] with
     | .ok _ => true
     | _ => false)

/-- what the seven networks declare, in the order of `Network` -/
def declared : List (List Nat) :=
  [Generated.C19_GENESIS_0, Generated.C19_GENESIS_1, Generated.C19_GENESIS_2, Generated.C19_GENESIS_3,
   Generated.C19_GENESIS_4, Generated.C19_GENESIS_5, Generated.C19_GENESIS_6]

/-- the distinct declarations (two: mainnets and testnets), so that each block is hashed once -/
def distinct : List (List Nat) := declared.eraseDups

set_option maxRecDepth 200000 in
theorem distinct_ok : distinct.all okGenesis = true := by decide +kernel

theorem declared_subset : declared.all (fun g => distinct.contains g) = true := by decide +kernel

/-- **Every network's genesis block hashes to its declared genesis hash, carries the Merkle root of its
    one transaction, and satisfies its own proof of work.** -/
theorem C19_genesis_blocks_consistent : ∀ g ∈ declared, okGenesis g = true := by
  intro g hg
  have h1 := List.all_eq_true.mp declared_subset g hg
  have h2 : g ∈ distinct := by simpa using h1
  exact List.all_eq_true.mp distinct_ok g h2

example : declared.length = 7 ∧ distinct.length = 2 := by decide +kernel

end CG.Props.Genesis

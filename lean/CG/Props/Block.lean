import CG.Model.Block
import CG.Props.C14
import CG.Generated.Tables
/-!
# `Block::validate`, `Block::inputs`, rule-set selection — property theorems

Model: `CG.Model.Block`.  Registered under C14 (whose first clause is about `Block::validate`'s root
check) and composed with it: the whole of `Block::validate` is characterised, for every block, height
and network, with `Tx::validate` as an arbitrary function of the two rule flags (C04's subject).
-/
namespace CG.Props.Block
open CG CG.Model.Block
open CG.Model.Merkle (blockRootCheck)

/-- number of coinbase transactions -/
def coinbases (ci : Nat) (txs : List BTx) : Nat := (txs.filter (isCoinbase ci)).length

theorem txLoop_ok_iff (ci : Nat) (f g : Bool) (txs : List BTx) (has : Bool) :
    txLoop ci f g txs has = .ok () ↔
      coinbases ci txs + (if has then 1 else 0) = 1 ∧
      ∀ t ∈ txs, isCoinbase ci t = false → t.verdict f g = none := by
  induction txs generalizing has with
  | nil => cases has <;> simp [txLoop, coinbases]
  | cons t ts ih =>
    by_cases hc : isCoinbase ci t = true
    · cases has with
      | true =>
        simp only [txLoop, hc, Bool.not_true, Bool.false_eq_true, if_false, if_true]
        constructor
        · intro h; cases h
        · intro ⟨h, _⟩
          simp [coinbases, List.filter_cons, hc] at h
      | false =>
        simp only [txLoop, hc, Bool.not_true, Bool.false_eq_true, if_false]
        rw [ih true]
        have e : coinbases ci (t :: ts) = coinbases ci ts + 1 := by simp [coinbases, hc]
        rw [e]
        simp only [if_true, Bool.false_eq_true, if_false, Nat.add_zero]
        constructor
        · intro ⟨h1, h2⟩
          refine ⟨h1, ?_⟩
          intro u hu hcu
          rcases List.mem_cons.mp hu with rfl | hu
          · rw [hc] at hcu; cases hcu
          · exact h2 u hu hcu
        · intro ⟨h1, h2⟩
          exact ⟨h1, fun u hu hcu => h2 u (List.mem_cons_of_mem _ hu) hcu⟩
    · have hc' : isCoinbase ci t = false := by simpa using hc
      simp only [txLoop, hc', Bool.not_false, if_true]
      cases hv : t.verdict f g with
      | some e =>
        simp only
        constructor
        · intro h; cases h
        · intro ⟨_, h⟩
          have := h t (List.mem_cons_self) hc'
          rw [hv] at this; cases this
      | none =>
        simp only
        rw [ih has]
        have e : coinbases ci (t :: ts) = coinbases ci ts := by simp [coinbases, List.filter_cons, hc']
        rw [e]
        constructor
        · intro ⟨h1, h2⟩
          refine ⟨h1, ?_⟩
          intro u hu hcu
          rcases List.mem_cons.mp hu with rfl | hu
          · exact hv
          · exact h2 u hu hcu
        · intro ⟨h1, h2⟩
          exact ⟨h1, fun u hu hcu => h2 u (List.mem_cons_of_mem _ hu) hcu⟩

/-- **`Block::validate` characterised.**  For every block, height, network and `Tx::validate` behaviour:
    the block is accepted exactly when the root check passes (C14: there is at least one transaction and
    the header carries the Bitcoin Merkle root of the transaction ids), exactly ONE transaction is a
    coinbase (at any position), and every other transaction validates under the rule flags selected by
    network and height. -/
theorem Block_validate_iff (H : Heights) (ci : Nat) (height : Int) (n : Network) (rc : Outcome Unit)
    (txs : List BTx) :
    validate H ci height n rc txs = .ok () ↔
      rc = .ok () ∧ coinbases ci txs = 1 ∧
      ∀ t ∈ txs, isCoinbase ci t = false →
        t.verdict (requireForkid H n height) (useGenesis H n height) = none := by
  unfold validate
  cases rc with
  | ok u =>
    simp only [txLoop_ok_iff, Bool.false_eq_true, if_false, Nat.add_zero, true_and]
  | err e => simp
  | panic s => simp

/-- … composed with C14: acceptance implies the header's root is the Bitcoin Merkle root. -/
theorem Block_validate_accepts_only_merkle_root (Hs : Heights) (ci : Nat) (height : Int) (n : Network)
    (H : Bytes → Bytes) (txids : List Bytes) (headerRoot : Bytes) (txs : List BTx)
    (h : validate Hs ci height n (blockRootCheck H txids headerRoot) txs = .ok ()) :
    Spec.Bip37.merkleRoot H txids = some headerRoot ∧ coinbases ci txs = 1 := by
  have hv := (Block_validate_iff Hs ci height n _ txs).mp h
  refine ⟨?_, hv.2.1⟩
  have := hv.1
  rw [CG.Props.C14.C14_block_root_check] at this
  by_cases hm : Spec.Bip37.merkleRoot H txids = some headerRoot
  · exact hm
  · simp [hm] at this

theorem txLoop_no_panic (ci : Nat) (f g : Bool) (txs : List BTx) (has : Bool) (s : String) :
    txLoop ci f g txs has ≠ .panic s := by
  induction txs generalizing has with
  | nil => cases has <;> simp [txLoop]
  | cons t ts ih =>
    simp only [txLoop]
    split
    · split
      · simp
      · exact ih has
    · split
      · simp
      · exact ih true

/-- **`Block::validate` never panics** (given that the root check does not — C14), and every rejection is
    one of: the root check's error, "No coinbase", "Multiple coinbases", or the error `Tx::validate`
    returned for a non-coinbase transaction of the block. -/
theorem Block_validate_total (H : Heights) (ci : Nat) (height : Int) (n : Network) (rc : Outcome Unit)
    (txs : List BTx) (hrc : ∀ s, rc ≠ .panic s) :
    (∀ s, validate H ci height n rc txs ≠ .panic s) := by
  intro s
  unfold validate
  cases rc with
  | ok u => exact txLoop_no_panic ci _ _ txs false s
  | err e => simp
  | panic s' => exact absurd rfl (hrc s')

theorem txLoop_err_source (ci : Nat) (f g : Bool) (txs : List BTx) (has : Bool) (e : String)
    (h : txLoop ci f g txs has = .err e) :
    e = "BadData:No coinbase" ∨ e = "BadData:Multiple coinbases" ∨
    ∃ t ∈ txs, isCoinbase ci t = false ∧ t.verdict f g = some e := by
  induction txs generalizing has with
  | nil =>
    cases has <;> simp [txLoop] at h
    exact Or.inl h.symm
  | cons t ts ih =>
    simp only [txLoop] at h
    split at h
    · rename_i hc
      have hc' : isCoinbase ci t = false := by simpa using hc
      split at h
      · rename_i e' hv
        cases h
        exact Or.inr (Or.inr ⟨t, List.mem_cons_self, hc', hv⟩)
      · rcases ih has h with h1 | h1 | ⟨u, hu, h2⟩
        · exact Or.inl h1
        · exact Or.inr (Or.inl h1)
        · exact Or.inr (Or.inr ⟨u, List.mem_cons_of_mem _ hu, h2⟩)
    · split at h
      · cases h; exact Or.inr (Or.inl rfl)
      · rcases ih true h with h1 | h1 | ⟨u, hu, h2⟩
        · exact Or.inl h1
        · exact Or.inr (Or.inl h1)
        · exact Or.inr (Or.inr ⟨u, List.mem_cons_of_mem _ hu, h2⟩)

theorem Block_validate_error_sources (H : Heights) (ci : Nat) (height : Int) (n : Network)
    (txs : List BTx) (e : String) (h : validate H ci height n (.ok ()) txs = .err e) :
    e = "BadData:No coinbase" ∨ e = "BadData:Multiple coinbases" ∨
    ∃ t ∈ txs, isCoinbase ci t = false ∧
      t.verdict (requireForkid H n height) (useGenesis H n height) = some e :=
  txLoop_err_source ci _ _ txs false e h

/-! ### Rule-set selection -/

/-- the activation heights of the tree under test (regenerated on every run) -/
def treeHeights : Heights :=
  ⟨Generated.C14_BCH_FORK_HEIGHT_MAINNET, Generated.C14_BCH_FORK_HEIGHT_TESTNET,
   Generated.C14_GENESIS_HEIGHT_MAINNET, Generated.C14_GENESIS_HEIGHT_TESTNET⟩

/-- the tree's constants are the published activation heights (UAHF 478 558 / 1 155 875; Genesis
    620 538 / 1 344 302) and the coinbase index is `0xffffffff` -/
theorem Block_heights_table :
    treeHeights = ⟨478558, 1155875, 620538, 1344302⟩ ∧ Generated.C14_COINBASE_INDEX = 0xffffffff := by
  decide

/-- **Rule-set selection is monotone in the height and ordered**: once required, FORKID stays required;
    once active, the Genesis rules stay active; Genesis rules are never selected without FORKID being
    required; BTC never requires FORKID and only BSV networks ever use Genesis rules; the STN always
    uses both. -/
theorem Block_rule_selection (n : Network) (h h' : Int) (hle : h ≤ h') :
    (requireForkid treeHeights n h = true → requireForkid treeHeights n h' = true) ∧
    (useGenesis treeHeights n h = true → useGenesis treeHeights n h' = true) ∧
    (useGenesis treeHeights n h = true → requireForkid treeHeights n h = true) ∧
    requireForkid treeHeights .btcMainnet h = false ∧ requireForkid treeHeights .btcTestnet h = false ∧
    useGenesis treeHeights .bchMainnet h = false ∧ useGenesis treeHeights .bchTestnet h = false ∧
    requireForkid treeHeights .bsvStn h = true ∧ useGenesis treeHeights .bsvStn h = true := by
  have ht := Block_heights_table.1
  rw [ht]
  cases n <;> simp [requireForkid, useGenesis] <;> omega

/-! ### `Block::inputs` -/

theorem foldl_addStep_none (l : List OutPoint) : l.foldl addStep none = none := by
  induction l with
  | nil => rfl
  | cons a r ih => simpa [addStep] using ih

/-- one transaction's inputs added to a duplicate-free set: succeeds exactly when the result is still
    duplicate-free, and then yields `seen ++ inputs` -/
theorem addInputs_spec (l seen : List OutPoint) (hs : seen.Nodup) :
    addInputs seen l = if (seen ++ l).Nodup then some (seen ++ l) else none := by
  unfold addInputs
  induction l generalizing seen with
  | nil => simp [hs]
  | cons a r ih =>
    simp only [List.foldl_cons, addStep]
    by_cases hc : seen.contains a = true
    · simp only [hc, if_true, foldl_addStep_none]
      have hmem : a ∈ seen := by simpa using hc
      have hnd : ¬ (seen ++ a :: r).Nodup := by
        intro h
        have := List.nodup_append.mp h
        exact this.2.2 a hmem a (List.mem_cons_self) rfl
      simp [hnd]
    · have hc' : seen.contains a = false := by simpa using hc
      simp only [hc', Bool.false_eq_true, if_false]
      have hnm : a ∉ seen := by simpa using hc'
      have hsa : (seen ++ [a]).Nodup := by
        rw [List.nodup_append]; refine ⟨hs, by simp, ?_⟩
        intro x hx y hy hxy; simp at hy; subst hy; subst hxy; exact hnm hx
      rw [ih (seen ++ [a]) hsa]
      have e1 : seen ++ [a] ++ r = seen ++ a :: r := by simp
      rw [e1]

/-- all outpoints spent by the non-coinbase transactions of a block, in order -/
def spent (ci : Nat) (txs : List BTx) : List OutPoint :=
  (txs.filter (fun t => !isCoinbase ci t)).flatMap (·.inputs)

theorem inputsLoop_spec (ci : Nat) (txs : List BTx) (seen : List OutPoint) (hs : seen.Nodup) :
    inputsLoop ci txs seen =
      if (seen ++ spent ci txs).Nodup then .ok (seen ++ spent ci txs) else .err "BadData:Input double spent" := by
  induction txs generalizing seen with
  | nil => simp [inputsLoop, spent, hs]
  | cons t ts ih =>
    by_cases hc : isCoinbase ci t = true
    · simp only [inputsLoop, hc, if_true]
      rw [ih seen hs]
      have e : spent ci (t :: ts) = spent ci ts := by simp [spent, List.filter_cons, hc]
      rw [e]
    · have hc' : isCoinbase ci t = false := by simpa using hc
      simp only [inputsLoop, hc', Bool.false_eq_true, if_false]
      rw [addInputs_spec _ _ hs]
      have e : spent ci (t :: ts) = t.inputs ++ spent ci ts := by
        simp [spent, List.filter_cons, hc']
      by_cases h1 : (seen ++ t.inputs).Nodup
      · simp only [h1, if_true]
        rw [ih _ h1, e]
        simp [List.append_assoc]
      · simp only [h1, if_false]
        have : ¬ (seen ++ spent ci (t :: ts)).Nodup := by
          rw [e, ← List.append_assoc]
          intro h; exact h1 (List.nodup_append.mp h).1
        simp [this]

/-- **`Block::inputs` = "no outpoint is spent twice within the block"**: it returns the outpoints spent by
    the non-coinbase transactions, in order, exactly when they are pairwise distinct, and
    `BadData("Input double spent")` otherwise — across transactions and within one. -/
theorem Block_inputs_spec (ci : Nat) (txs : List BTx) :
    inputs ci txs =
      if (spent ci txs).Nodup then .ok (spent ci txs) else .err "BadData:Input double spent" := by
  have := inputsLoop_spec ci txs [] List.nodup_nil
  simpa [inputs] using this

/-! Non-vacuity -/
def cb : BTx := ⟨[⟨List.replicate 32 0, 0xffffffff⟩], fun _ _ => some "never asked"⟩
def okTx (k : Nat) : BTx := ⟨[⟨List.replicate 32 7, k⟩], fun _ _ => none⟩
def genesisOnly : BTx := ⟨[⟨List.replicate 32 7, 9⟩], fun _ g => if g then none else some "ScriptError"⟩

example : validate treeHeights 0xffffffff 700000 .bsvMainnet (.ok ()) [okTx 1, cb, genesisOnly] = .ok () := by decide
example : validate treeHeights 0xffffffff 600000 .bsvMainnet (.ok ()) [okTx 1, cb, genesisOnly] = .err "ScriptError" := by decide
example : validate treeHeights 0xffffffff 700000 .bchMainnet (.ok ()) [cb, genesisOnly] = .err "ScriptError" := by decide
example : validate treeHeights 0xffffffff 1 .bsvMainnet (.ok ()) [cb, cb] = .err "BadData:Multiple coinbases" := by decide
example : inputs 0xffffffff [cb, okTx 1, okTx 2] = .ok [⟨List.replicate 32 7, 1⟩, ⟨List.replicate 32 7, 2⟩] := by decide
example : inputs 0xffffffff [okTx 1, cb, okTx 1] = .err "BadData:Input double spent" := by decide

end CG.Props.Block

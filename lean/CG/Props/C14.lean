import CG.Proofs.Merkle
/-!
# C14 — Merkle roots and filtered-block proofs: validation complete and sound

Property theorems only.  Model: `CG.Model.Merkle` (mirrors `Block::merkle_root`, the root check of
`Block::validate`, and `MerkleBlock::validate/traverse/consume_flag/consume_hash`); specification:
`CG.Spec.Bip37` (level-by-level Merkle root; position-based BIP-37 extractor and builder).  The hash of a
64-byte concatenation is the parameter `H`: every theorem holds for whatever `sha256d` computes.
-/
namespace CG.Props.C14
open CG CG.Model.Merkle CG.Proofs.Merkle

/-! ## Merkle root -/

/-- The queue reduction of `Block::merkle_root` computes exactly the level-by-level Bitcoin Merkle
    root (odd levels duplicate their last node), for every non-empty list of ids; it never panics
    and never hangs. -/
theorem C14_root_eq_spec (H : Bytes → Bytes) (txids : List Bytes) (hne : txids ≠ []) :
    ∃ r, Spec.Bip37.merkleRoot H txids = some r ∧ merkleRoot H txids = .ok r := by
  have hs := merkleRoot_isSome H txids.length txids (Nat.le_refl _) hne
  obtain ⟨r, hr⟩ := Option.isSome_iff_exists.mp hs
  refine ⟨r, hr, ?_⟩
  unfold merkleRoot
  rw [outerLoop_eq H txids.length txids (by omega), hr]

/-- `Block::validate`'s root check accepts exactly the Bitcoin Merkle root of the transaction ids:
    `ok` iff the header's root equals it; every other root (and the empty block) is `BadData`. -/
theorem C14_block_root_check (H : Bytes → Bytes) (txids : List Bytes) (headerRoot : Bytes) :
    blockRootCheck H txids headerRoot =
      if Spec.Bip37.merkleRoot H txids = some headerRoot then .ok () else .err "BadData" := by
  unfold blockRootCheck
  by_cases hne : txids = []
  · subst hne; simp [Spec.Bip37.merkleRoot]
  · obtain ⟨r, hr, hm⟩ := C14_root_eq_spec H txids hne
    have : txids.isEmpty = false := by simp [hne]
    rw [this, hm, hr]
    by_cases h : r = headerRoot <;> simp [h]

/-- The level-by-level root is the root by tree position (Core's `CalcHash` at `(height, 0)`): the two
    readings of "the Bitcoin Merkle root" coincide. -/
theorem C14_root_by_position (H : Bytes → Bytes) (txids : List Bytes) (hne : txids ≠ []) :
    Spec.Bip37.merkleRoot H txids = some (Spec.Bip37.rootByPosition H txids) :=
  merkleRoot_eq_rootByPosition H txids hne

/-- small cases written out: one id is its own root; two ids hash together; three ids duplicate the last -/
theorem C14_root_small (H : Bytes → Bytes) (a b c : Bytes) :
    merkleRoot H [a] = .ok a ∧ merkleRoot H [a, b] = .ok (H (a ++ b)) ∧
    merkleRoot H [a, b, c] = .ok (H (H (a ++ b) ++ H (c ++ c))) := by
  refine ⟨?_, ?_, ?_⟩
  · obtain ⟨r, hr, hm⟩ := C14_root_eq_spec H [a] (by simp)
    rw [hm]; congr 1
    have : Spec.Bip37.merkleRoot H [a] = some a := by simp [Spec.Bip37.merkleRoot]
    rw [this] at hr; injection hr with hr; exact hr.symm
  · obtain ⟨r, hr, hm⟩ := C14_root_eq_spec H [a, b] (by simp)
    rw [hm]; congr 1
    have : Spec.Bip37.merkleRoot H [a, b] = some (H (a ++ b)) := by
      simp [Spec.Bip37.merkleRoot, Spec.Bip37.pairUp]
    rw [this] at hr; injection hr with hr; exact hr.symm
  · obtain ⟨r, hr, hm⟩ := C14_root_eq_spec H [a, b, c] (by simp)
    rw [hm]; congr 1
    have : Spec.Bip37.merkleRoot H [a, b, c] = some (H (H (a ++ b) ++ H (c ++ c))) := by
      simp [Spec.Bip37.merkleRoot, Spec.Bip37.pairUp]
    rw [this] at hr; injection hr with hr; exact hr.symm

/-! ## Depth -/

/-- The integer depth computation `32 - (n-1).leading_zeros()` is `⌈log2 n⌉` — the least `d` with
    `n ≤ 2^d` — and equals the height Core's width loop finds, for all `1 ≤ n < 2^32`. -/
theorem C14_depth_exact (n : Nat) (h1 : 1 ≤ n) (h32 : n < 2 ^ 32) :
    n ≤ 2 ^ treeDepthOf n ∧ (∀ d, d < treeDepthOf n → 2 ^ d < n) ∧
    treeDepthOf n = Spec.Bip37.height n ∧ treeDepthOf n ≤ 32 := by
  have hc := treeDepthOf_isClog n h1 h32
  refine ⟨hc.1, hc.2, hc.unique (height_isClog n), ?_⟩
  unfold treeDepthOf; omega

/-! ## Filtered-block proofs -/

/-- **The counter-based traversal is the position-based BIP-37 extractor.**  For every declared count
    (`0` included), every flag byte string, every hash list and every header root,
    `MerkleBlock::validate` returns exactly what the reference extractor returns: the same matched
    ids in the same order, or `BadData` where the reference rejects. -/
theorem C14_traverse_eq_extract (H : Bytes → Bytes) (n : Nat) (h32 : n < 2 ^ 32)
    (flags : Bytes) (hashes : List Bytes) (root : Bytes) :
    validate H n flags hashes root =
      match Spec.Bip37.extract H n flags hashes root with
      | some m => .ok m
      | none => .err "BadData" := by
  apply validateWith_eq_extract
  intro h1
  have := C14_depth_exact n h1 h32
  exact ⟨treeDepthOf_isClog n h1 h32, by omega⟩

/-- the same for any depth function that yields `⌈log2 n⌉` (the theorem does not depend on how the
    depth is computed, only on its value) -/
theorem C14_traverse_eq_extract_any_depth (depthOf : Nat → Nat) (H : Bytes → Bytes) (n : Nat)
    (hdep : 1 ≤ n → (n ≤ 2 ^ depthOf n ∧ ∀ d, d < depthOf n → 2 ^ d < n) ∧ depthOf n ≤ 62)
    (flags : Bytes) (hashes : List Bytes) (root : Bytes) :
    validateWith depthOf H n flags hashes root =
      match Spec.Bip37.extract H n flags hashes root with
      | some m => .ok m
      | none => .err "BadData" :=
  validateWith_eq_extract depthOf H n flags hashes root hdep

/-- Soundness: whatever is accepted is accepted by the reference extractor with the same result —
    so an object the reference rejects, or for which it returns a different match list (an altered
    hash, flag bit or count, missing or surplus data), is not accepted with that result. -/
theorem C14_sound (H : Bytes → Bytes) (n : Nat) (h32 : n < 2 ^ 32)
    (flags : Bytes) (hashes : List Bytes) (root : Bytes) (m : List Bytes)
    (h : validate H n flags hashes root = .ok m) :
    Spec.Bip37.extract H n flags hashes root = some m := by
  rw [C14_traverse_eq_extract H n h32] at h
  cases he : Spec.Bip37.extract H n flags hashes root with
  | none => simp [he] at h
  | some m' => simp [he] at h; rw [h]

/-- Completeness: whatever the reference extractor accepts is accepted, with the same result. -/
theorem C14_complete (H : Bytes → Bytes) (n : Nat) (h32 : n < 2 ^ 32)
    (flags : Bytes) (hashes : List Bytes) (root : Bytes) (m : List Bytes)
    (h : Spec.Bip37.extract H n flags hashes root = some m) :
    validate H n flags hashes root = .ok m := by
  rw [C14_traverse_eq_extract H n h32, h]

/-- **Built proofs are accepted.**  For any block (any count ≥ 1) and any matched subset, the partial
    merkle tree object produced by the standard BIP-37 construction is accepted against the block's
    Merkle root and returns exactly the matched ids in block order — provided no two sibling
    subtrees of the block's tree hash equal (with equal siblings BIP-37 itself declares the object
    invalid; for distinct transaction ids that would be a SHA-256d collision). -/
theorem C14_built_proof_accepted (H : Bytes → Bytes) (txids : List Bytes) (matched : List Bool)
    (hne : txids ≠ []) (h32 : txids.length < 2 ^ 32) (hm : matched.length = txids.length)
    (hsib : ∀ h p, 2 * p + 1 < Spec.Bip37.width txids.length h →
      Spec.Bip37.calcHash H txids h (2 * p) ≠ Spec.Bip37.calcHash H txids h (2 * p + 1)) :
    ∃ root, Spec.Bip37.merkleRoot H txids = some root ∧
      validate H txids.length (Spec.Bip37.build H txids matched).1 (Spec.Bip37.build H txids matched).2 root
        = .ok (Spec.Bip37.matchedIds txids matched) := by
  refine ⟨_, C14_root_by_position H txids hne, ?_⟩
  exact C14_complete H _ h32 _ _ _ _ (built_extract_top H txids matched hne hm hsib)

/-- `MerkleBlock::validate` WITHOUT its third guard (`preorder_node < total_nodes` → "Not all nodes consumed") -/
def validateNoNodeGuard (H : Bytes → Bytes) (n : Nat) (flags : Bytes) (hashes : List Bytes) (root : Bytes) :
    Outcome (List Bytes) :=
  if n = 0 then .err "BadData"
  else
    match traverse H flags hashes (treeDepthOf n) (totalNodes n) (treeDepthOf n + 1) 0 ⟨0, 0, 0, []⟩ with
    | .err e => .err e
    | .panic s => .panic s
    | .ok (r, st) =>
      if r ≠ root then .err "BadData"
      else if st.hashes < hashes.length then .err "BadData"
      else if (st.bits + 7) / 8 < flags.length then .err "BadData"
      else .ok st.matched

/-- **The "Not all nodes consumed" guard can never fire**: whenever the traversal of the root returns at
    all, its pre-order counter has reached `total_nodes` — for every declared count, flag string and hash
    list.  (The correspondence never reaches that line either; this says no input can.) -/
theorem C14_node_counter_reaches_total (H : Bytes → Bytes) (n : Nat) (h1 : 1 ≤ n) (h32 : n < 2 ^ 32)
    (flags : Bytes) (hashes : List Bytes) (r : Bytes) (st : St)
    (ht : traverse H flags hashes (treeDepthOf n) (totalNodes n) (treeDepthOf n + 1) 0 ⟨0, 0, 0, []⟩ = .ok (r, st)) :
    totalNodes n ≤ st.node := by
  have := C14_depth_exact n h1 h32
  exact root_counter_reaches_total treeDepthOf H n h1 flags hashes (treeDepthOf_isClog n h1 h32) (by omega) r st ht

/-- hence the function is equal to the one without that guard -/
theorem C14_node_guard_is_dead (H : Bytes → Bytes) (n : Nat) (h32 : n < 2 ^ 32)
    (flags : Bytes) (hashes : List Bytes) (root : Bytes) :
    validate H n flags hashes root = validateNoNodeGuard H n flags hashes root := by
  unfold validate validateWith validateNoNodeGuard
  by_cases h0 : n = 0
  · simp [h0]
  · rw [if_neg h0, if_neg h0]
    dsimp only
    cases ht : traverse H flags hashes (treeDepthOf n) (totalNodes n) (treeDepthOf n + 1) 0 ⟨0, 0, 0, []⟩ with
    | err e => rfl
    | panic s => rfl
    | ok v =>
      obtain ⟨r, st⟩ := v
      have hge := C14_node_counter_reaches_total H n (by omega) h32 flags hashes r st ht
      have : ¬ st.node < totalNodes n := by omega
      simp [this]

/-- No input panics: not the two index expressions, not `tree_depth - depth`, not the shift, not the
    counter addition (64-bit `usize`), not the recursion budget `tree_depth + 1`. -/
theorem C14_no_panic (H : Bytes → Bytes) (n : Nat) (h32 : n < 2 ^ 32)
    (flags : Bytes) (hashes : List Bytes) (root : Bytes) (s : String) :
    validate H n flags hashes root ≠ .panic s := by
  rw [C14_traverse_eq_extract H n h32]
  cases Spec.Bip37.extract H n flags hashes root <;> simp

/-- a declared count of zero is an error (not a panic) -/
theorem C14_zero_count (H : Bytes → Bytes) (flags : Bytes) (hashes : List Bytes) (root : Bytes) :
    validate H 0 flags hashes root = .err "BadData" := rfl

/-! ## Non-vacuity and the defect of the pinned tree

A toy "hash" (`H x = x`, so node hashes are concatenations) makes the examples decidable. -/

/-- three transactions `[1] [2] [3]`, the third matched: flags `1,0,1,1` = 0x0d, hashes `[1,2]`, `[3]` -/
example : validate id 3 [0x0d] [[1, 2], [3]] [1, 2, 3, 3] = .ok [[3]] := by decide
example : Spec.Bip37.extract id 3 [0x0d] [[1, 2], [3]] [1, 2, 3, 3] = some [[3]] := by decide
/-- surplus hash / surplus flag byte / wrong count / wrong root are rejected -/
example : validate id 3 [0x0d] [[1, 2], [3], [4]] [1, 2, 3, 3] = .err "BadData" := by decide
example : validate id 3 [0x0d, 0] [[1, 2], [3]] [1, 2, 3, 3] = .err "BadData" := by decide
example : validate id 4 [0x0d] [[1, 2], [3]] [1, 2, 3, 3] = .err "BadData" := by decide
example : validate id 3 [0x0d] [[1, 2], [3]] [1, 2, 3, 4] = .err "BadData" := by decide
/-- equal siblings (CVE-2012-2459 shape) are rejected by both -/
example : validate id 4 [0x1d] [[1, 2], [3], [3]] [1, 2, 3, 3] = .err "BadData" := by decide
example : treeDepthOf 1 = 0 ∧ treeDepthOf 2 = 1 ∧ treeDepthOf 5 = 3 ∧ treeDepthOf 2097153 = 22 ∧
    treeDepthOf (2 ^ 31 + 1) = 32 ∧ treeDepthOf (2 ^ 32 - 1) = 32 := by decide

/-- the builder on the same example: ids `[1] [2] [3]`, third matched -/
example : Spec.Bip37.build id [[1], [2], [3]] [false, false, true] = ([0x0d], [[1, 2], [3]]) := by decide +kernel
example : Spec.Bip37.matchedIds [[1], [2], [3]] [false, false, true] = [[3]] := by decide

/-- The defect of the pinned tree: the depth came from `(n as f32).log(2.).ceil()`, which is one too
    small for counts just above `2^k`, `k ≥ 21`.  With a depth one too small a valid proof is
    misread — the full statement fails for such a depth function (witness: 3 transactions read with
    depth 1 instead of 2; the reference accepts, the traversal rejects). -/
theorem C14_short_depth_misreads :
    Spec.Bip37.extract id 3 [0x0d] [[1, 2], [3]] [1, 2, 3, 3] = some [[3]] ∧
    validateWith (fun n => treeDepthOf n - 1) id 3 [0x0d] [[1, 2], [3]] [1, 2, 3, 3] = .err "BadData" := by
  decide

end CG.Props.C14

import CG.Proofs.InterpTotal
/-!
C07 — script evaluation is total.

"Evaluating an arbitrary byte string as a script - under any flag value, with or without a
spending-transaction context, and with any debugger start offset, break offset and initial stacks -
always terminates with success or an error value.  It never panics, indexes out of bounds, overflows
an integer, or loops without making progress through the script."

The theorems are about `CG.Model.Interp` (every Rust panic site is an explicit `Outcome.panic`, every
loop takes fuel and answers `.panic "out of fuel"` when it runs dry).  The transaction context is the
checker oracle `C : Checker σ`; the only thing assumed about it is that it does not panic itself
(`Checker.NeverPanics`).

Modelling assumptions, stated once:
* positions, lengths and script numbers are `Nat` / `Int` in the model, so no `script.length < 2^31`
  hypothesis is needed here; the Rust `as i32` / `as usize` casts on lengths are outside the model
  (they are exact for every script that fits the property's 2 GiB memory cap, and the correspondence
  run compares the model with the code on that range);
* hash functions are arbitrary total functions (`Hashes`).
-/
namespace CG.Props.C07
open CG CG.Model.ScriptNum CG.Model.Interp

/-! ### 1. `next_op` makes progress and stays inside the script -/

theorem C07_next_op_progress (script : Bytes) (i : Nat) (h : i < script.length) :
    i < nextOp i script ∧ nextOp i script ≤ script.length :=
  nextOp_bounds h

theorem C07_next_op_at_end (script : Bytes) (i : Nat) (h : i ≥ script.length) :
    nextOp i script = script.length :=
  nextOp_of_ge h

/-! ### 2. `skip_branch` is monotone, bounded, and its fuel is never what stops it -/

/-- from a position inside the script (or at its end) `skip_branch` never moves backwards and never
    leaves the script -/
theorem C07_skip_branch_bounded (script : Bytes) (i : Nat) (h : i ≤ script.length) :
    i ≤ skipBranch script i ∧ skipBranch script i ≤ script.length :=
  ⟨skipBranch_ge script i h, skipBranch_le script i⟩

/-- from a position at or past the end it answers `script.length` (so it is `≤ script.length` for
    every `i`, and `< i` exactly when `i > script.length`) -/
theorem C07_skip_branch_past_end (script : Bytes) (i : Nat) (h : script.length ≤ i) :
    skipBranch script i = script.length :=
  skipBranch_of_ge script i h

/-- fuel-independence: any two fuels `≥ script.length - i + 1` give the same answer, for every nesting
    depth `sub`; the fuel `script.length + 1` used by `skipBranch` is one of them -/
theorem C07_skip_branch_fuel_independent (script : Bytes) (f1 f2 i sub : Nat)
    (h1 : script.length - i + 1 ≤ f1) (h2 : script.length - i + 1 ≤ f2) :
    skipBranchLoop script f1 i sub = skipBranchLoop script f2 i sub :=
  skipBranchLoop_fuel_indep script f1 f2 i sub (by omega) (by omega)

theorem C07_skip_branch_fuel_suffices (script : Bytes) (k i sub : Nat) :
    skipBranchLoop script (script.length + 1 + k) i sub = skipBranchLoop script (script.length + 1) i sub :=
  skipBranchLoop_fuel_add script _ k i sub (by omega)

/-! ### 3. `remove_sig` terminates -/

/-- fuel-independence of the `remove_sig` loop for a non-empty signature: any two fuels
    `≥ script.length + 1 - i` give the same bytes (each turn advances `i` by `sig.length ≥ 1` or by
    `next_op`) -/
theorem C07_remove_sig_terminates (sig script : Bytes) (hs : sig ≠ []) (f1 f2 i start : Nat) (acc : Bytes)
    (h1 : script.length + 1 - i ≤ f1) (h2 : script.length + 1 - i ≤ f2) :
    removeSigLoop sig script f1 i start acc = removeSigLoop sig script f2 i start acc :=
  removeSigLoop_fuel_indep sig script hs f1 f2 i start acc (by omega) (by omega)

/-- in particular the fuel `script.length + 1` that `removeSig` passes is never the reason it stops
    (for the empty signature `removeSig` does not enter the loop at all) -/
theorem C07_remove_sig_fuel_suffices (sig script : Bytes) (k : Nat) :
    removeSig sig script
      = if sig.isEmpty then script else removeSigLoop sig script (script.length + 1 + k) 0 0 [] := by
  unfold removeSig
  split
  · rfl
  · rename_i h
    have hs : sig ≠ [] := by simpa using h
    exact (removeSigLoop_fuel_add sig script hs _ k 0 0 [] (by omega)).symm

/-! ### 4. no opcode arm panics, and the `check_index` invariant is preserved -/

/-- every arm of the opcode dispatch, in any state satisfying the invariant
    `checkIndex ≤ script.length`, at any position, with any checker that does not itself panic -/
theorem C07_exec_no_panic {σ : Type} (H : Hashes) (C : Checker σ) (hC : C.NeverPanics) (pregenesis : Bool)
    (script : Bytes) (i : Nat) (op : Op) (st : St σ) (hinv : st.checkIndex ≤ script.length) (s : String) :
    exec H C pregenesis script i op st ≠ .panic s :=
  (good_exec (n := max script.length (i + 1)) H C hC pregenesis script i op st
    (by omega) (by omega) hinv).ne_panic s

/-- the invariant is preserved at every position inside the script (`checkIndex` only changes at
    OP_CODESEPARATOR, to `i + 1 ≤ script.length`) -/
theorem C07_exec_check_index_invariant {σ : Type} (H : Hashes) (C : Checker σ) (hC : C.NeverPanics)
    (pregenesis : Bool) (script : Bytes) (i : Nat) (hi : i < script.length) (op : Op) (st st' : St σ)
    (stop : Bool) (hinv : st.checkIndex ≤ script.length)
    (h : exec H C pregenesis script i op st = .ok (stop, st')) : st'.checkIndex ≤ script.length :=
  (good_exec (n := script.length) H C hC pregenesis script i op st hinv (by omega) hinv).checkIndex_le h

/-- without the invariant the `script[check_index..]` slice does panic: the hypothesis of
    `C07_exec_no_panic` is needed -/
theorem C07_exec_invariant_needed :
    exec (σ := Unit) ⟨id, id, id, id, id⟩ ⟨fun c _ _ _ => (.ok true, c), fun _ _ => .ok true, fun _ _ => .ok true⟩
        false [0xac] 0 .checksig ⟨[[], []], [], [], 2, ()⟩
      = .panic "script[check_index..]" := by
  rfl

/-! ### 5. the main loop has enough fuel and never panics -/

/-- the main loop needs at most `script.length - start + 1` iterations: every fuel at least that large
    gives the same result as the fuel `script.length + 1` used by `core_eval` — for ANY per-opcode
    semantics and checker (so "out of fuel" is never produced by the loop with that fuel) -/
theorem C07_fuel_suffices {σ : Type} (H : Hashes) (C : Checker σ) (pregenesis : Bool) (script : Bytes)
    (breakAt : Option Nat) (fuel start : Nat) (st : St σ) (h : script.length - start + 1 ≤ fuel) :
    run H C pregenesis script breakAt fuel start st
      = run H C pregenesis script breakAt (script.length + 1) start st :=
  runWith_fuel_indep _ script breakAt fuel (script.length + 1) start st h (by omega)

/-- the loop itself, from any position and any state satisfying the invariant, with any sufficient
    fuel: no panic, in particular not "out of fuel" -/
theorem C07_run_no_panic {σ : Type} (H : Hashes) (C : Checker σ) (hC : C.NeverPanics) (pregenesis : Bool)
    (script : Bytes) (breakAt : Option Nat) (fuel start : Nat) (st : St σ)
    (hf : script.length - start + 1 ≤ fuel) (hinv : st.checkIndex ≤ script.length) (s : String) :
    run H C pregenesis script breakAt fuel start st ≠ .panic s :=
  runWith_ne_panic _ script breakAt
    (fun i op st' hi hs => good_exec H C hC pregenesis script i op st' hs (by omega) hs)
    fuel start st (by omega) (by omega) hinv s

/-- `core_eval` on any bytes, flag word, start offset, break offset and initial stacks, with any
    checker oracle that does not panic -/
theorem C07_no_panic {σ : Type} (H : Hashes) (C : Checker σ) (hC : C.NeverPanics) (c0 : σ) (script : Bytes)
    (flags : Nat) (startAt breakAt : Option Nat) (stack alt : Option Stack) (s : String) :
    coreEval H C c0 script flags startAt breakAt stack alt ≠ .panic s := by
  unfold coreEval
  simp only []
  split
  · simp
  · simp
  · rename_i p heq
    exact absurd heq (C07_run_no_panic H C hC _ script breakAt _ _ _ (by omega) (Nat.zero_le _) p)

/-- in particular the fuel `script.length + 1` is never exhausted -/
theorem C07_never_out_of_fuel {σ : Type} (H : Hashes) (C : Checker σ) (hC : C.NeverPanics) (c0 : σ)
    (script : Bytes) (flags : Nat) (startAt breakAt : Option Nat) (stack alt : Option Stack) :
    coreEval H C c0 script flags startAt breakAt stack alt ≠ .panic "out of fuel" :=
  C07_no_panic H C hC c0 script flags startAt breakAt stack alt _

theorem C07_eval_no_panic {σ : Type} (H : Hashes) (C : Checker σ) (hC : C.NeverPanics) (c0 : σ)
    (script : Bytes) (flags : Nat) (s : String) : eval H C c0 script flags ≠ .panic s := by
  unfold eval
  split
  · repeat' split
    all_goals simp [scriptErr]
  · simp
  · rename_i p heq
    exact absurd heq (C07_no_panic H C hC c0 script flags none none none none p)

/-! ### 6. evaluation always ends with a value -/

theorem C07_always_terminates_with_value {σ : Type} (H : Hashes) (C : Checker σ) (hC : C.NeverPanics)
    (c0 : σ) (script : Bytes) (flags : Nat) (startAt breakAt : Option Nat) (stack alt : Option Stack) :
    (∃ r, coreEval H C c0 script flags startAt breakAt stack alt = .ok r) ∨
    (∃ e, coreEval H C c0 script flags startAt breakAt stack alt = .err e) := by
  cases h : coreEval H C c0 script flags startAt breakAt stack alt with
  | ok r => exact .inl ⟨r, rfl⟩
  | err e => exact .inr ⟨e, rfl⟩
  | panic p => exact absurd h (C07_no_panic H C hC c0 script flags startAt breakAt stack alt p)

theorem C07_eval_always_terminates_with_value {σ : Type} (H : Hashes) (C : Checker σ) (hC : C.NeverPanics)
    (c0 : σ) (script : Bytes) (flags : Nat) :
    eval H C c0 script flags = .ok () ∨ ∃ e, eval H C c0 script flags = .err e := by
  cases h : eval H C c0 script flags with
  | ok r => exact .inl rfl
  | err e => exact .inr ⟨e, rfl⟩
  | panic p => exact absurd h (C07_eval_no_panic H C hC c0 script flags p)

/-! ### the hypotheses are satisfiable, the corner cases are reached -/

/-- identity "hashes" and a checker that accepts everything -/
def H0 : Hashes := ⟨id, id, id, id, id⟩
def yes : Checker Unit := ⟨fun c _ _ _ => (.ok true, c), fun _ _ => .ok true, fun _ _ => .ok true⟩
/-- a checker whose answers are errors (as the transactionless checker's are) -/
def refuse : Checker Nat :=
  ⟨fun c _ _ _ => (.err "IllegalState", c + 1), fun _ _ => .err "IllegalState", fun _ _ => .err "IllegalState"⟩

example : yes.NeverPanics := ⟨by simp [yes], by simp [yes], by simp [yes]⟩
example : refuse.NeverPanics := ⟨by simp [refuse], by simp [refuse], by simp [refuse]⟩

/-- a truncated PUSHDATA4 (`4e 01 00`): an error, not a slice panic -/
example : (coreEval H0 yes () [0x4e, 0x01, 0x00] 0 none none none none).isPanic = false ∧
          (coreEval H0 yes () [0x4e, 0x01, 0x00] 0 none none none none).isOk = false := by decide
/-- PUSHDATA4 announcing 4 GiB - 1 bytes -/
example : (coreEval H0 yes () [0x4e, 0xff, 0xff, 0xff, 0xff, 0x00] 1 none none none none).isOk = false := by
  decide
/-- start offset beyond the end, break offset beyond the end: immediate success with the given stacks -/
example : (coreEval H0 yes () [0x51] 0 (some 7) (some 9) (some [[1]]) none).isOk = true := by decide
/-- stack underflow in every shuffling opcode is an error -/
example : (coreEval H0 yes () [0x71] 0 none none (some [[1], [2], [3], [4], [5]]) none).isOk = false ∧
          (coreEval H0 yes () [0x71] 0 none none (some [[1], [2], [3], [4], [5]]) none).isPanic = false := by
  decide
/-- OP_1 OP_1 OP_CHECKSIGVERIFY OP_CODESEPARATOR OP_1 runs to success with the accepting checker, and
    to a (non-panic) error with the refusing one -/
example : (eval H0 yes () [0x51, 0x51, 0xad, 0xab, 0x51] 0) = .ok () := by decide
example : (eval H0 refuse 0 [0x51, 0x51, 0xad, 0xab, 0x51] 0) = .err "IllegalState" := by decide
/-- `next_op` on a truncated PUSHDATA2 lands exactly on the end -/
example : nextOp 0 [0x4d, 0x05] = 2 := by decide
/-- an unterminated skipped branch: `skip_branch` runs to the end, the script fails with an error -/
example : skipBranch [0x00, 0x63, 0x51, 0x63] 2 = 4 := by decide
example : (eval H0 yes () [0x00, 0x63, 0x51, 0x63] 0) = .err "ScriptError" := by decide

end CG.Props.C07

import CG.Proofs.Compose
import CG.Props.C05
import CG.Props.C11
/-!
# Composition and coherence theorems

Property theorems only; they tie separately built models and property theorems together.

**A. End-to-end receive path (C05 ∘ C11).**  C11 proves that the receive loop emits exactly the
framed messages for an ABSTRACT payload decoder; C05 proves the decode∘encode law for the REAL
codecs and has its own model of `message_header.rs` / `Message::read`.  Here the abstract
configuration is instantiated with the real command table and codecs (`realCfg`), the two models
of `Message::read` are proved to agree on EVERY byte string (`Compose_header_models_agree`), and
the two property theorems are composed (`Compose_receive_real_messages`).

**B. Coherence of duplicate models** (see the section headers below).
-/
namespace CG.Props.Compose
open CG CG.Model.Wire CG.Proofs.Framing CG.Proofs.Compose
open CG.Model.Framing (recvLoop LoopState DISCONNECTED)
open CG.Spec.Reassembly (Step step parseAll Frame)

/-! ## A. C05 ∘ C11 -/

/-- **The two models of `message_header.rs` + `Message::read` agree on every byte string.**
    For any hash, any magic and ANY input (valid, truncated, corrupted, unknown command, oversize,
    payload-less command with a non-zero length, …): C05's `readMessage` returns `(m, rest)` exactly
    when C11's reference step (which C11 proves the receive loop refines) yields message `m` and
    rest `rest`; an `Err`/panic of one is a stop of the other with the same class, where the only
    renaming is that a short read of the 24 header bytes or of the announced payload is
    `IoError` (UnexpectedEof on a byte string) in C05 and `err:IoNotConnected` (end of the socket
    stream) in C11.  Same 24-byte layout, same magic test, same size limit with the `block`
    exemption, same checksum rule `H(H(p))[0..4]`, same treatment of payload-less and unknown
    commands (checksum not inspected when no payload is read). -/
theorem Compose_header_models_agree (H : Bytes → Bytes) (magic : Bytes) (X : Bytes) :
    Agree (readMessage H magic X) (step (toWire (realCfg H magic)) X) :=
  read_step H magic X

/-- the success parts coincide exactly -/
theorem Compose_read_ok_iff_step_msg (H : Bytes → Bytes) (magic : Bytes) (X : Bytes) (m : Msg) (r : Bytes) :
    readMessage H magic X = .ok (m, r) ↔ step (toWire (realCfg H magic)) X = .msg m r :=
  ⟨fun h => Agree_ok (read_step H magic X) h, fun h => Agree_msg (read_step H magic X) h⟩

/-- C11's abstract configuration instantiated with C05's table is well-formed for every 4-byte
    magic and every hash with 32-byte output -/
theorem Compose_realCfg_wf (H : Bytes → Bytes) (hH : ∀ x, (H x).length = 32) (magic : Bytes)
    (hm : magic.length = 4) : (toWire (realCfg H magic)).WF :=
  ⟨hm, fun p => by show 4 ≤ (H (H p)).length; rw [hH]; omega⟩

/-- The command classification C11's driver regenerates from the tree on every run
    (`C11_CMDS_PAYLOAD`, `C11_CMDS_BARE`, `C11_CMD_BLOCK`, `C11_HEADER_SIZE`) is the one of C05's
    `table` (regenerated from `C05_CMD_*`): the same payload-carrying commands, the same six
    payload-less ones, the same `block`, the same size limit and header size. -/
theorem Compose_command_tables_agree :
    (∀ e ∈ table, (e.body.isSome = true ↔
        e.cmd ∈ (CG.Props.C11.chunks12 100 CG.Generated.C11_CMDS_PAYLOAD).map ofNats) ∧
      (e.body.isSome = false ↔
        e.cmd ∈ (CG.Props.C11.chunks12 100 CG.Generated.C11_CMDS_BARE).map ofNats)) ∧
    (∀ c ∈ (CG.Props.C11.chunks12 100 CG.Generated.C11_CMDS_PAYLOAD ++
            CG.Props.C11.chunks12 100 CG.Generated.C11_CMDS_BARE).map ofNats,
        c ∈ table.map (·.cmd)) ∧
    eBlock.cmd = ofNats CG.Generated.C11_CMD_BLOCK ∧
    CG.Model.Wire.HEADER_SIZE = CG.Model.Framing.HEADER_SIZE ∧
    CG.Model.Framing.HEADER_SIZE = CG.Generated.C11_HEADER_SIZE := by
  decide +kernel

/-- every in-range message, written by C05's `writeMessage` and followed by anything, is one step
    of C11's reference: C05's law transported along the agreement of the two header models -/
theorem Compose_written_message_steps (H : Bytes → Bytes) (hH : ∀ x, (H x).length = 32) (magic : Bytes)
    (hm : magic.length = 4) (m : Msg) (hr : Msg.InRange m) (Y : Bytes) :
    step (toWire (realCfg H magic)) (wireBytes H magic m ++ Y) = .msg m Y := by
  obtain ⟨bytes, hw⟩ := CG.Props.C05.C05_message_write_total H magic m hr
  have := CG.Props.C05.C05_message_dec_enc H hH magic hm m hr bytes hw Y
  rw [wireBytes, hw]
  exact (Compose_read_ok_iff_step_msg H magic _ m Y).mp this

/-- `wireBytes` is what `Message::write` produces, for every in-range message -/
theorem Compose_wireBytes_is_write (H : Bytes → Bytes) (magic : Bytes) (m : Msg) (hr : Msg.InRange m) :
    writeMessage H magic m = some (wireBytes H magic m) := by
  obtain ⟨bytes, hw⟩ := CG.Props.C05.C05_message_write_total H magic m hr
  rw [wireBytes, hw]; rfl

/-- A strict prefix of a written in-range message (what a stream cut in the middle of a message
    ends with), or nothing. -/
def TruncatedMessage (H : Bytes → Bytes) (magic : Bytes) (tail : Bytes) : Prop :=
  tail = [] ∨ ∃ m rest, Msg.InRange m ∧ rest ≠ [] ∧ tail ++ rest = wireBytes H magic m

/-- in-range messages followed by bytes at which the reference stops with `e`: given time to use
    up the schedule, the loop emits exactly the messages and stops with `e` -/
theorem Compose_receive_then_stop (H : Bytes → Bytes) (hH : ∀ x, (H x).length = 32)
    (magic : Bytes) (hm : magic.length = 4) (ms : List Msg) (hr : ∀ m ∈ ms, Msg.InRange m)
    (tail : Bytes) (e : String) (htail : step (toWire (realCfg H magic)) tail = .stop e)
    (sched : List Nat) (fuel : Nat)
    (hf : sched.length + (ms.flatMap (wireBytes H magic) ++ tail).length + ms.length < fuel) :
    recvLoop (realCfg H magic) fuel (LoopState.init (ms.flatMap (wireBytes H magic) ++ tail) sched) =
      (ms, .stopped e) := by
  have hp : parseAll (toWire (realCfg H magic)) (ms.flatMap (wireBytes H magic) ++ tail) = (ms, e) := by
    rw [parseAll_msgs _ (wireBytes H magic) ms
      (fun m hmem Y => Compose_written_message_steps H hH magic hm m (hr m hmem) Y) tail,
      parseAll_stop htail]
    simp
  have hterm := CG.Props.C11.C11_terminates (realCfg H magic) _ sched fuel (by rw [hp]; exact hf)
  cases hfin : (recvLoop (realCfg H magic) fuel
      (LoopState.init (ms.flatMap (wireBytes H magic) ++ tail) sched)).2 with
  | waiting => exact absurd hfin hterm
  | stopped e' => rw [(CG.Props.C11.C11_refines_contiguous _ _ sched fuel).2 e' hfin, hp]

/-- **End-to-end receive path with the real codecs.**  For every list `ms` of in-range protocol
    messages (C05's `Msg.InRange`: field values in wire range, arm `validate()` passes, size within
    the limit `read` enforces), every 4-byte network magic and every hash with 32-byte output, the
    byte stream `ms.flatMap (Message::write)` followed by a truncated message (possibly nothing),
    delivered under ANY schedule (any fragmentation, any placement of timeouts / would-blocks),
    is received by the loop of `Peer::connect_internal` as exactly `ms`, in order — nothing lost,
    duplicated, reordered or altered, nothing from the incomplete tail — and the loop then ends in
    `disconnected` at end of stream.  `fuel` is the number of loop passes granted; the bound says
    only that the loop has been given time to consume the schedule. -/
theorem Compose_receive_real_messages (H : Bytes → Bytes) (hH : ∀ x, (H x).length = 32)
    (magic : Bytes) (hm : magic.length = 4) (ms : List Msg) (hr : ∀ m ∈ ms, Msg.InRange m)
    (tail : Bytes) (ht : TruncatedMessage H magic tail) (sched : List Nat) (fuel : Nat)
    (hf : sched.length + (ms.flatMap (wireBytes H magic) ++ tail).length + ms.length < fuel) :
    recvLoop (realCfg H magic) fuel (LoopState.init (ms.flatMap (wireBytes H magic) ++ tail) sched) =
      (ms, .stopped DISCONNECTED) := by
  have htail : step (toWire (realCfg H magic)) tail = .stop DISCONNECTED := by
    rcases ht with ht | ⟨m, rest, hmr, hrest, hb⟩
    · subst ht; exact step_short _ [] (by simp)
    · have := Compose_written_message_steps H hH magic hm m hmr []
      rw [List.append_nil, ← hb] at this
      exact step_strict_prefix _ tail rest m this hrest
  exact Compose_receive_then_stop H hH magic hm ms hr tail _ htail sched fuel hf

/-- **Error path with the real codecs.**  If what follows the messages is something C05's
    `Message::read` rejects with error class `e` (bad magic, oversize, bad checksum, a payload its
    codec or `validate()` rejects, a payload-less command announcing a payload, …), the loop emits
    exactly `ms` and leaves through its error arm with that class (`IoError` of a short read of
    header or payload being the socket's `NotConnected`). -/
theorem Compose_receive_then_rejects (H : Bytes → Bytes) (hH : ∀ x, (H x).length = 32)
    (magic : Bytes) (hm : magic.length = 4) (ms : List Msg) (hr : ∀ m ∈ ms, Msg.InRange m)
    (junk : Bytes) (e : String) (hj : readMessage H magic junk = .err e) (sched : List Nat) (fuel : Nat)
    (hf : sched.length + (ms.flatMap (wireBytes H magic) ++ junk).length + ms.length < fuel) :
    ∃ e', recvLoop (realCfg H magic) fuel (LoopState.init (ms.flatMap (wireBytes H magic) ++ junk) sched) =
        (ms, .stopped e') ∧ (e' = "err:" ++ e ∨ (e = "IoError" ∧ e' = DISCONNECTED)) := by
  have h := Compose_header_models_agree H magic junk
  rw [hj] at h
  obtain ⟨e', hs, hc⟩ := h
  exact ⟨e', Compose_receive_then_stop H hH magic hm ms hr junk e' hs sched fuel hf, hc⟩

/-- the same for the un-truncated stream: exactly `ms`, then disconnected at EOF -/
theorem Compose_receive_real_messages_complete (H : Bytes → Bytes) (hH : ∀ x, (H x).length = 32)
    (magic : Bytes) (hm : magic.length = 4) (ms : List Msg) (hr : ∀ m ∈ ms, Msg.InRange m)
    (sched : List Nat) (fuel : Nat)
    (hf : sched.length + (ms.flatMap (wireBytes H magic)).length + ms.length < fuel) :
    recvLoop (realCfg H magic) fuel (LoopState.init (ms.flatMap (wireBytes H magic)) sched) =
      (ms, .stopped DISCONNECTED) := by
  have := Compose_receive_real_messages H hH magic hm ms hr [] (Or.inl rfl) sched fuel (by simpa using hf)
  simpa using this

/-- before the schedule is used up: whatever has been emitted so far is a prefix of `ms` — for
    every amount of fuel -/
theorem Compose_receive_real_messages_prefix (H : Bytes → Bytes) (hH : ∀ x, (H x).length = 32)
    (magic : Bytes) (hm : magic.length = 4) (ms : List Msg) (hr : ∀ m ∈ ms, Msg.InRange m)
    (tail : Bytes) (ht : TruncatedMessage H magic tail) (sched : List Nat) (fuel : Nat) :
    (recvLoop (realCfg H magic) fuel (LoopState.init (ms.flatMap (wireBytes H magic) ++ tail) sched)).1
      <+: ms := by
  have htail : step (toWire (realCfg H magic)) tail = .stop CG.Spec.Reassembly.DISCONNECTED := by
    rcases ht with ht | ⟨m, rest, hmr, hrest, hb⟩
    · subst ht; exact step_short _ [] (by simp)
    · have := Compose_written_message_steps H hH magic hm m hmr []
      rw [List.append_nil, ← hb] at this
      exact step_strict_prefix _ tail rest m this hrest
  have h := (CG.Props.C11.C11_refines_contiguous (realCfg H magic)
    (ms.flatMap (wireBytes H magic) ++ tail) sched fuel).1
  rw [parseAll_msgs _ (wireBytes H magic) ms
      (fun m hmem Y => Compose_written_message_steps H hH magic hm m (hr m hmem) Y) tail,
      parseAll_stop htail] at h
  simpa using h

/-- **Where the sender sides of the two models differ.**  For a payload-carrying message C05's
    `writeMessage` IS C11's `Frame.bytes` of (command, encoded payload), for every `H`.  For the six
    payload-less commands `write_without_payload` emits the CONSTANT `NO_CHECKSUM`, whereas C11's
    `Frame.bytes` puts `H(H([]))[0..4]`; the two coincide exactly when `H(H([]))[0..4] = NO_CHECKSUM`
    (true of SHA-256, not of an arbitrary `H`).  The receiver never inspects that field, which is
    why `Compose_receive_real_messages` needs no such hypothesis. -/
theorem Compose_write_vs_frame (H : Bytes → Bytes) (magic : Bytes) (m : Msg) (hr : Msg.InRange m) :
    (∀ e c, entryOf m = some e → e.body = some c →
      writeMessage H magic m = some (Frame.bytes (toWire (realCfg H magic)) (frameOf m))) ∧
    (∀ e, entryOf m = some e → e.body = none →
      (writeMessage H magic m = some (Frame.bytes (toWire (realCfg H magic)) (frameOf m)) ↔
        (H (H [])).take 4 = NO_CHECKSUM)) := by
  refine ⟨fun e c he hb => write_eq_frame_payload H magic m e c he hb hr, fun e he hb => ?_⟩
  obtain ⟨h1, h2⟩ := write_bare H magic m e he hb
  rw [h1, h2]
  simp only [Option.some.injEq, List.append_cancel_left_eq]
  exact eq_comm

/-- a hash for which the payload-less frames of the two models differ (and the receive theorem
    still applies) -/
example : writeMessage (fun _ => List.replicate 32 0) [1, 2, 3, 4] .verack ≠
    some (Frame.bytes (toWire (realCfg (fun _ => List.replicate 32 0) [1, 2, 3, 4])) (frameOf .verack)) := by
  decide


/-! ## B. Coherence of duplicate models -/

open CG.Model

/-! ### B5. var-int: six encoders, two decoders, two size functions — one function -/

/-- All var-int / CompactSize ENCODERS of the framework are the same function on ALL naturals
    (also above `2^64`, where all truncate alike): C02's `TxSer.varInt` (also used by C18's
    `PyGlue.scriptSerialize`), C05's `Wire.varint.enc`, C20's `Bloom.varIntWrite`, and the
    independently written references `Spec.Bip143.compactSize`, `Spec.WireSpec.compactSize`,
    `Spec.Bip37Bloom.compactSize`. -/
theorem Compose_varint_encoders_agree (n : Nat) :
    TxSer.varInt n = Wire.varint.enc n ∧
    Bloom.varIntWrite n = Wire.varint.enc n ∧
    CG.Spec.Bip143.compactSize n = Wire.varint.enc n ∧
    CG.Spec.WireSpec.compactSize n = Wire.varint.enc n ∧
    CG.Spec.Bip37Bloom.compactSize n = Wire.varint.enc n :=
  ⟨txser_varInt_eq n, bloom_varIntWrite_eq n, bip143_compactSize_eq n, (Wire.varint_enc n).symm,
    bip37_compactSize_eq n⟩

/-- the two models of `var_int::read` (C20's and C05's) agree on every byte string, errors
    included; the two models of `var_int::size` agree on every natural -/
theorem Compose_varint_decoders_agree (b : Bytes) (n : Nat) :
    Bloom.varIntRead b = Wire.varint.dec b ∧ Bloom.varIntSize n = Wire.varint.size n :=
  ⟨bloom_varIntRead_eq b, rfl⟩

/-! ### B1. transaction serialisation: C02's `TxSer` = C05's `Wire` -/

theorem Compose_outpoint_ser_eq_wire (o : Wire.OutPoint) :
    TxSer.serOutPoint (Conv.serOutPoint o) = Wire.outPointC.enc o := by
  simp [Wire.outPointC, TxSer.serOutPoint, TxSer.u32LE, Conv.serOutPoint, Wire.u32, Wire.uLE]

theorem Compose_txin_ser_eq_wire (i : Wire.TxIn) :
    TxSer.serTxIn (Conv.serTxIn i) = Wire.txInC.enc i := by
  simp [Wire.txInC, Wire.varBytes, TxSer.serTxIn, TxSer.u32LE, Conv.serTxIn, Wire.u32, Wire.uLE,
    Compose_outpoint_ser_eq_wire, txser_varInt_eq]

theorem Compose_txout_ser_eq_wire (o : Wire.TxOut) :
    TxSer.serTxOut (Conv.serTxOut o) = Wire.txOutC.enc o := by
  have e : TxSer.i64LE o.satoshis = Wire.i64.enc o.satoshis := by
    simp [TxSer.i64LE, Wire.i64, Wire.iLE, Wire.ofSigned]
  simp [Wire.txOutC, Wire.varBytes, TxSer.serTxOut, Conv.serTxOut, e, txser_varInt_eq]

/-- **`Tx::write`, modelled twice.**  C02's `serTx` and C05's `txC.enc` are the same function on
    corresponding values, for EVERY transaction (no range hypotheses: out-of-range integers are
    truncated identically). -/
theorem Compose_serTx_eq_wire (t : Wire.Tx) : TxSer.serTx (Conv.serTx t) = Wire.txC.enc t := by
  have e1 : (t.inputs.map Conv.serTxIn).flatMap TxSer.serTxIn = (t.inputs.map Wire.txInC.enc).flatten := by
    rw [List.flatMap_def, List.map_map]
    congr 1
    exact List.map_congr_left (fun a _ => Compose_txin_ser_eq_wire a)
  have e2 : (t.outputs.map Conv.serTxOut).flatMap TxSer.serTxOut = (t.outputs.map Wire.txOutC.enc).flatten := by
    rw [List.flatMap_def, List.map_map]
    congr 1
    exact List.map_congr_left (fun a _ => Compose_txout_ser_eq_wire a)
  simp [Wire.txC, Wire.listCap, Wire.listPush, TxSer.serTx, TxSer.u32LE, Conv.serTx, Wire.u32, Wire.uLE,
    e1, e2, txser_varInt_eq]

/-- the same read from C02's side: the conversion is a bijection -/
theorem Compose_serTx_eq_wire' (t : TxSer.Tx) : TxSer.serTx t = Wire.txC.enc (Conv.wireTx t) := by
  rw [← Compose_serTx_eq_wire, Conv.ser_wire]

theorem Compose_tx_conversion_bijective :
    (∀ t, Conv.wireTx (Conv.serTx t) = t) ∧ (∀ t, Conv.serTx (Conv.wireTx t) = t) :=
  ⟨Conv.wire_ser, Conv.ser_wire⟩

/-- C03/C04's transaction, serialised for the signature hash through C03's `toSer`, is the wire
    encoding of the same transaction -/
theorem Compose_validate_tx_ser_eq_wire (t : TxValidate.Tx) :
    TxSer.serTx (TxChecker.toSer t) = Wire.txC.enc (Conv.vTx t) := by
  rw [← Compose_serTx_eq_wire]
  congr 1
  obtain ⟨v, ins, outs, lt⟩ := t
  simp [TxChecker.toSer, Conv.vTx, Conv.serTx, List.map_map]
  constructor
  · intro a _; rfl
  · intro a _; rfl

/-- consequently C02's BIP-143 reference (which shares `TxSer`'s structures) lays outputs out as
    the wire codec does, for every amount in the `i64` range (below `-2^64` the reference's
    `le64s` clamps where the codec wraps: outside the type, no finding) -/
theorem Compose_bip143_txout_eq_wire (o : Wire.TxOut)
    (hs : -(2 : Int) ^ 63 ≤ o.satoshis ∧ o.satoshis < 2 ^ 63) :
    CG.Spec.Bip143.txOut (Conv.serTxOut o) = Wire.txOutC.enc o := by
  rw [← Compose_txout_ser_eq_wire]
  have e : CG.Spec.Bip143.le64s o.satoshis = TxSer.i64LE o.satoshis := by
    simp only [CG.Spec.Bip143.le64s, TxSer.i64LE]
    congr 1
    split <;> omega
  simp [CG.Spec.Bip143.txOut, TxSer.serTxOut, Conv.serTxOut, e, bip143_compactSize_eq, txser_varInt_eq]

/-! ### B2. block header: C19's `Header.serialize` = C05's `blockHeaderC.enc` -/

theorem Compose_header_serialize_eq_wire (h : Wire.BlockHeader) :
    Header.serialize (Conv.hdr h) = Wire.blockHeaderC.enc h := by
  simp [Wire.blockHeaderC, Header.serialize, Conv.hdr, Wire.u32, Wire.uLE]

theorem Compose_header_serialize_eq_wire' (h : Header.BlockHeader) :
    Header.serialize h = Wire.blockHeaderC.enc (Conv.wireHdr h) := by
  simp [Wire.blockHeaderC, Header.serialize, Conv.wireHdr, Wire.u32, Wire.uLE]

/-- so the block hash C19 reasons about is the hash of the 80 bytes C05 puts on the wire -/
theorem Compose_header_hash_eq_wire (sha256d : Bytes → Bytes) (h : Wire.BlockHeader) :
    Header.hash sha256d (Conv.hdr h) = sha256d (Wire.blockHeaderC.enc h) := by
  rw [Header.hash, Compose_header_serialize_eq_wire]


/-! ### B3. `filterload`: C20's `flWrite` / `flRead` / `flSize` / `flValidate` = C05's codec -/

theorem Compose_filterload_write_eq_wire (f : Wire.FilterLoad) :
    Bloom.flWrite (Conv.fl f) = Wire.filterLoadC.enc f := by
  simp [Wire.filterLoadC, Wire.varBytes, Bloom.flWrite, Conv.fl, Wire.u32, Wire.u8, Wire.uLE,
    bloom_varIntWrite_eq, natToLEn, ofNat_mod]

theorem Compose_filterload_write_eq_wire' (f : Bloom.FilterLoad) :
    Bloom.flWrite f = Wire.filterLoadC.enc (Conv.wireFl f) := by
  simp [Wire.filterLoadC, Wire.varBytes, Bloom.flWrite, Conv.wireFl, Wire.u32, Wire.u8, Wire.uLE,
    bloom_varIntWrite_eq, natToLEn, ofNat_mod]

/-- **`FilterLoad::read`, modelled twice**: the same value, the same unread rest, the same error
    class, on EVERY byte string. -/
theorem Compose_filterload_read_eq_wire (b : Bytes) :
    Bloom.flRead b = (Wire.filterLoadC.dec b).bind fun p => .ok (Conv.fl p.1, p.2) := by
  simp only [Bloom.flRead, Wire.filterLoadC, Wire.iso, Wire.pair, Wire.dpair, Wire.varBytes,
    Wire.lenPrefixed, Wire.inj, bloom_varIntRead_eq, bloom_readLE_eq, Wire.u32, Wire.u8]
  cases h1 : Wire.varint.dec b with
  | err e => simp
  | panic s => simp
  | ok p1 =>
    obtain ⟨n, r1⟩ := p1
    simp only [Wire.bind_ok, Wire.vecBytes, Wire.bytesN]
    cases h2 : takeExact n r1 with
    | none => simp
    | some p2 =>
      obtain ⟨flt, r2⟩ := p2
      simp only [Wire.bind_ok]
      cases h3 : (Wire.uLE 4).dec r2 with
      | err e => simp
      | panic s => simp
      | ok p3 =>
        obtain ⟨nh, r3⟩ := p3
        simp only [Wire.bind_ok]
        cases h4 : (Wire.uLE 4).dec r3 with
        | err e => simp
        | panic s => simp
        | ok p4 =>
          obtain ⟨tw, r4⟩ := p4
          simp only [Wire.bind_ok]
          cases r4 with
          | nil => simp [Wire.uLE, takeExact]
          | cons x r5 => simp [Wire.uLE, takeExact, leToNat, Conv.fl]

theorem Compose_filterload_size_validate_eq_wire (f : Wire.FilterLoad) :
    Bloom.flSize (Conv.fl f) = Wire.filterLoadC.size f ∧
    Bloom.flValidate (Conv.fl f) = Wire.filterLoadValidate f := by
  constructor
  · have e : Wire.filterLoadC.size f =
        Wire.varint.size f.filter.length + f.filter.length + (4 + (4 + 1)) := rfl
    have e2 : Bloom.flSize (Conv.fl f) = Wire.varint.size f.filter.length + f.filter.length + 9 := rfl
    rw [e, e2]
  · rfl

/-! ### B4. `Cmpctblock::validate` / `PrefilledTransaction::validate`: C04's model = C05's -/

/-- the output-sum loops: C05's `sumOutputs` and C04's repaired `sumLoop` agree from every
    accumulator in `0 ..= MAX_SATOSHIS`, in BOTH build profiles (the `i64` addition cannot overflow
    there, so neither C05's panic arm nor C04's dev-panic / release-wrap arm is reachable) -/
theorem Compose_sumOutputs_eq (p : TxValidate.Profile) (outs : List Wire.TxOut) (acc : Int)
    (h0 : 0 ≤ acc) (h1 : acc ≤ TxValidate.MAX) :
    Wire.sumOutputs outs acc =
      TxValidate.sumLoop .repaired p acc (TxValidate.outAmounts (outs.map Conv.toVTxOut)) := by
  have hM : TxValidate.MAX = 2100000000000000 := by decide
  have hG : (CG.Generated.MAX_SATOSHIS : Int) = 2100000000000000 := by decide
  have hI : Wire.I64_MAX = 9223372036854775807 := rfl
  induction outs generalizing acc with
  | nil => simp [Wire.sumOutputs, TxValidate.sumLoop, TxValidate.outAmounts]
  | cons o os ih =>
    simp only [Wire.sumOutputs, List.map_cons, TxValidate.outAmounts, TxValidate.sumLoop, Conv.toVTxOut,
      true_and]
    by_cases a : o.satoshis < 0
    · simp [a]
    · simp only [a, if_false]
      by_cases b : o.satoshis > (CG.Generated.MAX_SATOSHIS : Int)
      · have b' : o.satoshis > TxValidate.MAX := by rw [hM]; rw [hG] at b; exact b
        simp [b, b']
      · have b' : ¬ o.satoshis > TxValidate.MAX := by rw [hM]; rw [hG] at b; exact b
        have c : ¬ acc + o.satoshis > Wire.I64_MAX := by rw [hI]; rw [hG] at b; omega
        have d : -(2 ^ 63) ≤ acc + o.satoshis ∧ acc + o.satoshis ≤ 2 ^ 63 - 1 := by
          rw [hG] at b; omega
        simp only [b, b', c, if_false, TxValidate.addI64, d, and_self, if_true]
        by_cases e : acc + o.satoshis > (CG.Generated.MAX_SATOSHIS : Int)
        · have e' : acc + o.satoshis > TxValidate.MAX := by rw [hM]; rw [hG] at e; exact e
          simp [e, e']
        · have e' : ¬ acc + o.satoshis > TxValidate.MAX := by rw [hM]; rw [hG] at e; exact e
          simp only [e, e', if_false]
          have := ih (acc + o.satoshis) (by omega) (by rw [hM]; rw [hG] at e; omega)
          simpa [TxValidate.outAmounts] using this

/-- **`PrefilledTransaction::validate`, modelled twice** (repaired tree, either profile) -/
theorem Compose_prefilled_validate_eq (p : TxValidate.Profile) (x : Wire.PrefilledTx) :
    Wire.prefilledValidate x = TxValidate.payloadTxWith .repaired p (Conv.toVTx x.tx) := by
  simp only [Wire.prefilledValidate, TxValidate.payloadTxWith, Conv.toVTx, List.isEmpty_map, Wire.badData]
  by_cases a : x.tx.inputs.isEmpty
  · simp [a]
  · by_cases b : x.tx.outputs.isEmpty
    · simp [a, b]
    · simp only [a, b, if_false, Bool.false_eq_true, TxValidate.checkedSum]
      rw [← Compose_sumOutputs_eq p x.tx.outputs 0 (by decide) (by decide)]
      cases Wire.sumOutputs x.tx.outputs 0 <;> simp

/-- **`Cmpctblock::validate`, modelled twice**: C05's `cmpctblockValidate` (run by the `cmpctblock`
    arm of `read_partial`) is C04's repaired `cmpctblockValidate` on the prefilled transactions, for
    every compact block and both build profiles. -/
theorem Compose_cmpctblock_validate_eq (p : TxValidate.Profile) (c : Wire.Cmpctblock) :
    Wire.cmpctblockValidate c =
      TxValidate.cmpctblockValidate p (c.prefilledtxn.map fun x => Conv.toVTx x.tx) := by
  unfold Wire.cmpctblockValidate TxValidate.cmpctblockValidate TxValidate.cmpctblockValidateWith
  induction c.prefilledtxn with
  | nil => rfl
  | cons x xs ih =>
    simp only [Wire.allValidate, List.map_cons, TxValidate.payloadLoop, ← Compose_prefilled_validate_eq p x]
    cases Wire.prefilledValidate x with
    | ok u => simpa using ih
    | err e => simp
    | panic s => simp


/-! ### B6. Merkle (C14) against the wire `merkleblock` (C05)

`CG.Model.Wire` has only the CODEC of `merkleblock` (fields, no hashing) and `CG.Model.Merkle` only
the tree functions over those fields: no function of the Rust code is modelled twice, so there is
nothing to equate.  What can be said is the composition: validating what was read back from the
wire is validating what was sent. -/

/-- `MerkleBlock::validate` on a C05 `merkleblock` value -/
def merkleBlockValidate (H : Bytes → Bytes) (mb : Wire.MerkleBlock) : Outcome (List Bytes) :=
  Merkle.validate H mb.totalTransactions mb.flags mb.hashes mb.header.merkleRoot

theorem Compose_merkleblock_wire_then_validate (H : Bytes → Bytes) (mb : Wire.MerkleBlock)
    (h : Wire.merkleBlockC.wf mb) :
    ((Wire.merkleBlockC.dec (Wire.merkleBlockC.enc mb)).bind fun p => merkleBlockValidate H p.1) =
      merkleBlockValidate H mb := by
  rw [CG.Props.C05.C05_merkleblock_dec_enc mb h]; rfl

/-! ### B7. script numbers: `decode_num` (C07/C16), `decode_number_combined` (C18), the reference -/

/-- `decode_num` is modelled ONCE (`ScriptNum.decodeNum`; `Interp` and `PyGlue` import it).  The
    related decoders are coherent: C18's `decodeCombined` is total and equals the sign-magnitude
    value (`decodeBig` = the reference `ScriptSem.value`) on EVERY byte string; `decodeNum` returns
    that same value wherever it succeeds, and succeeds on every string of at most 4 bytes. -/
theorem Compose_script_number_decoders_agree (s : Bytes) :
    PyGlue.decodeCombined s = .ok (ScriptNum.decodeBig s) ∧
    ScriptNum.decodeBig s = CG.Spec.ScriptSem.value s ∧
    (s.length ≤ 4 → ScriptNum.decodeNum s = .ok (ScriptNum.decodeBig s)) ∧
    (∀ v, ScriptNum.decodeNum s = .ok v → v = ScriptNum.decodeBig s) := by
  refine ⟨?_, CG.Proofs.ScriptNum.decodeBig_eq_value s, CG.Proofs.ScriptNum.decodeNum_small s, ?_⟩
  · unfold PyGlue.decodeCombined
    split
    · exact CG.Proofs.ScriptNum.decodeNum_small s (by assumption)
    · rfl
  · intro v hv
    by_cases hl : s.length ≤ 4
    · rw [CG.Proofs.ScriptNum.decodeNum_small s hl] at hv; injection hv with hv; exact hv.symm
    · unfold ScriptNum.decodeNum at hv
      unfold ScriptNum.decodeBig
      cases hlast : s.getLast? with
      | none => simp [hlast] at hv; exact hv.symm
      | some last =>
        simp only [hlast, hl, if_false] at hv ⊢
        split at hv
        · simp at hv
        · rename_i hz
          split at hv
          · simp at hv
          · rename_i hc
            injection hv with hv
            subst hv
            have hc0 : ScriptNum.clearSign last = 0 := by simpa using hc
            have hzero : ∀ b ∈ (s.dropLast).drop 4, b = 0 := by simpa using hz
            have e1 : s.dropLast = s.take 4 ++ (s.dropLast).drop 4 := by
              have : s.dropLast.take 4 = s.take 4 := by
                rw [List.dropLast_eq_take, List.take_take]
                congr 1; omega
              rw [← this, List.take_append_drop]
            have e2 : leToNat (s.dropLast ++ [ScriptNum.clearSign last]) = leToNat (s.take 4) := by
              rw [hc0, e1, List.append_assoc, leToNat_append]
              have : leToNat ((s.dropLast).drop 4 ++ [0]) = 0 := by
                rw [CG.Proofs.ScriptNum.leToNat_eq_zero_iff]
                intro b hb
                rcases List.mem_append.mp hb with hb | hb
                · exact hzero b hb
                · simpa using hb
              rw [this]; simp
            rw [e2]

/-- the two decoders are different Rust functions and differ above 4 bytes: `decode_num` refuses
    what `decode_number_combined` reads as `2^32` -/
example : ScriptNum.decodeNum [0, 0, 0, 0, 1] = .err "ScriptError" ∧
    PyGlue.decodeCombined [0, 0, 0, 0, 1] = .ok 4294967296 := by decide

/-! ## Non-vacuity -/

example : Msg.InRange (.ping ⟨7⟩) := by
  unfold Msg.InRange; simp only [entryOf, ePing]; decide
example : Msg.InRange .verack := by
  unfold Msg.InRange; simp only [entryOf, eVerack]

/-- a toy 32-byte "hash" -/
def toyH (x : Bytes) : Bytes := UInt8.ofNat x.length :: List.replicate 31 7

example : ∀ x, (toyH x).length = 32 := fun x => by simp [toyH]

/-- the first 30 bytes of a `ping` are a truncated message -/
example : TruncatedMessage toyH [1, 2, 3, 4] ((wireBytes toyH [1, 2, 3, 4] (.ping ⟨7⟩)).take 30) :=
  Or.inr ⟨.ping ⟨7⟩, (wireBytes toyH [1, 2, 3, 4] (.ping ⟨7⟩)).drop 30,
    by unfold Msg.InRange; simp only [entryOf, ePing]; decide, by decide, List.take_append_drop _ _⟩

/-- `verack`, `ping 7`, then 30 bytes of another ping, delivered as 5 bytes, a timeout, 1 byte, a
    would-block, 30, 2, 2 bytes, a timeout, then the rest: both messages, then `disconnected` —
    the model computes what the theorem says. -/
example :
    recvLoop (realCfg toyH [1, 2, 3, 4]) 40
      (LoopState.init ([Msg.verack, .ping ⟨7⟩].flatMap (wireBytes toyH [1, 2, 3, 4]) ++
        (wireBytes toyH [1, 2, 3, 4] (.ping ⟨7⟩)).take 30) [5, 0, 1, 0, 30, 2, 2, 0]) =
      ([.verack, .ping ⟨7⟩], .stopped DISCONNECTED) := by
  decide +kernel

example : Wire.txC.wf CG.Props.C05.sampleTx := by decide
example : TxSer.serTx (Conv.serTx CG.Props.C05.sampleTx) = Wire.txC.enc CG.Props.C05.sampleTx := by decide

end CG.Props.Compose

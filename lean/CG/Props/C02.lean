import CG.Proofs.Sighash
import CG.Proofs.Subscript
import CG.Proofs.Bip143Inj
/-!
# C02 — Signature-hash digests conform to BIP-143/FORKID and legacy algorithms

Property theorems only.  Model: `CG.Model.Sighash` (+ `CG.Model.TxSer`), mirroring
`src/transaction/sighash.rs` and `wallet::create_sighash`; the double hash is the parameter `H`, the
cache is explicit state.  Specification: `CG.Spec.Bip143`, `CG.Spec.LegacySighash`.

The theorems about the *layout* (`C02_bip143_eq_spec`, `C02_legacy_eq_spec`) hold for every
transaction, index, amount in `Int64`, all 256 type bytes and every script code on which the sub-script
selections agree.  The selection itself (`extract_subscript`) is NOT correct for all script codes in the
pinned code: `C02_subscript_eq_spec_partial` proves it under explicit hypotheses and the witness
theorems refute the unrestricted statement (two known findings).  `legacyPreimage` is the model of the
tree with `C02-legacy-single-outputs.patch`; the pinned behaviour (`legacyPreimageWith false`) is refuted by
`C02_witness_pinned_legacy_single`.
-/
namespace CG.Props.C02
open CG CG.Model.TxSer CG.Model.Sighash CG.Proofs.Sighash CG.Proofs.Subscript
open CG.Spec.Bip143 (Op parseScript scriptCodeOps flatten)

/-- **BIP-143 layout**: for every transaction, input index (in range or not), amount in `Int64`, type
    byte, any valid cache state and any hash function: if the model's sub-script selection and the
    specification's script code agree (`sc`), the model's preimage is the specification's preimage and
    the digests are equal. -/
theorem C02_bip143_eq_spec (H : Bytes → Bytes) (tx : Tx) (n : Nat) (code : Bytes) (k : Nat) (sat : Int)
    (ty : UInt8) (c : Cache) (hc : CacheOk H tx c) (hsat : InI64 sat) (hout : AmountsInRange tx)
    (sc : Bytes) (hm : extractSubscript code k = .ok sc) (hs : Spec.Bip143.scriptCode code k = some sc) :
    (preimage H tx n code k sat ty c).1 = ofSpec (Spec.Bip143.preimage H tx n code k sat ty) ∧
    (bip143Sighash H tx n code k sat ty c).1 = ofSpec (Spec.Bip143.digest H tx n code k sat ty) := by
  have hspec : Spec.Bip143.preimage H tx n code k sat ty = Spec.Bip143.preimageOf H tx n sc sat ty := by
    unfold Spec.Bip143.preimage Spec.Bip143.preimageOf
    rw [hs]
    cases tx.inputs[n]? <;> rfl
  have h1 := (preimage_cache H tx n code k sat ty c hc).1
  have h2 := preimage_eq_specOf H tx n code k sat ty hsat hout sc hm
  have hp : (preimage H tx n code k sat ty c).1 = ofSpec (Spec.Bip143.preimage H tx n code k sat ty) := by
    rw [h1, h2, hspec]
  refine ⟨hp, ?_⟩
  unfold bip143Sighash Spec.Bip143.digest
  rcases hq : preimage H tx n code k sat ty c with ⟨o, c'⟩
  rw [hq] at hp
  simp only at hp
  cases hsp : Spec.Bip143.preimage H tx n code k sat ty with
  | none => rw [hsp] at hp; subst hp; rfl
  | some p => rw [hsp] at hp; subst hp; rfl

/-- **legacy layout**: likewise for the original algorithm (blanked scripts, zeroed sequences,
    truncated / nulled outputs, ANYONECANPAY), for any hash function. -/
theorem C02_legacy_eq_spec (H : Bytes → Bytes) (tx : Tx) (n : Nat) (code : Bytes) (k : Nat) (ty : UInt8)
    (hout : AmountsInRange tx) (sc : Bytes) (hm : extractSubscript code k = .ok sc)
    (hs : Spec.LegacySighash.scriptCode code k = some sc) :
    legacyPreimage tx n code k ty = ofSpec (Spec.LegacySighash.preimage tx n code k ty) ∧
    legacySighashWith true H tx n code k ty = ofSpec (Spec.LegacySighash.digest H tx n code k ty) := by
  have hspec : Spec.LegacySighash.preimage tx n code k ty = Spec.LegacySighash.preimageOf tx n sc ty := by
    unfold Spec.LegacySighash.preimage Spec.LegacySighash.preimageOf
    rw [hs]
    by_cases h : n < tx.inputs.length <;> simp [h]
  have hp := legacyPreimage_eq_specOf tx n code k ty hout sc hm
  rw [← hspec] at hp
  refine ⟨hp, ?_⟩
  unfold legacySighashWith Spec.LegacySighash.digest
  have hp' : legacyPreimageWith true tx n code k ty = ofSpec (Spec.LegacySighash.preimage tx n code k ty) := hp
  rw [hp']
  cases Spec.LegacySighash.preimage tx n code k ty <;> rfl

/-- the dispatching entry point `sighash_checksig_index`: FORKID bit set → BIP-143, otherwise legacy -/
theorem C02_sighash_eq_spec (H : Bytes → Bytes) (tx : Tx) (n : Nat) (code : Bytes) (k : Nat) (sat : Int)
    (ty : UInt8) (c : Cache) (hc : CacheOk H tx c) (hsat : InI64 sat) (hout : AmountsInRange tx)
    (sc : Bytes) (hm : extractSubscript code k = .ok sc)
    (hs : (if Spec.Bip143.forkId ty then Spec.Bip143.scriptCode code k
           else Spec.LegacySighash.scriptCode code k) = some sc) :
    (sighash H tx n code k sat ty c).1 =
      ofSpec (if Spec.Bip143.forkId ty then Spec.Bip143.digest H tx n code k sat ty
              else Spec.LegacySighash.digest H tx n code k ty) := by
  unfold sighash sighashWith
  by_cases hf : ty &&& SIGHASH_FORKID ≠ 0
  · have hf' := (forkid_iff ty).mp hf
    simp only [hf'] at hs ⊢
    rw [if_pos hf]
    exact (C02_bip143_eq_spec H tx n code k sat ty c hc hsat hout sc hm hs).2
  · have hf' : Spec.Bip143.forkId ty = false := by
      cases h : Spec.Bip143.forkId ty with
      | false => rfl
      | true => exact absurd ((forkid_iff ty).mpr h) hf
    simp only [hf', Bool.false_eq_true, if_false] at hs ⊢
    rw [if_neg hf]
    exact (C02_legacy_eq_spec H tx n code k ty hout sc hm hs).2

/-- **an out-of-range input index is an error** — for every entry point, cache and flag; the cache is
    left untouched. -/
theorem C02_oob_index_is_error (H : Bytes → Bytes) (tx : Tx) (n : Nat) (code : Bytes) (k : Nat) (sat : Int)
    (ty : UInt8) (c : Cache) (h : tx.inputs.length ≤ n) :
    preimage H tx n code k sat ty c = (.err "BadArgument", c) ∧
    sighash H tx n code k sat ty c = (.err "BadArgument", c) ∧
    Spec.Bip143.preimage H tx n code k sat ty = none ∧
    Spec.LegacySighash.preimage tx n code k ty = none := by
  have hp := preimage_oob H tx n code k sat ty c h
  refine ⟨hp, ?_, ?_, ?_⟩
  · unfold sighash sighashWith bip143Sighash legacySighashWith
    rw [hp, legacy_oob true tx n code k ty h]
    split <;> rfl
  · unfold Spec.Bip143.preimage
    rw [List.getElem?_eq_none h]
  · unfold Spec.LegacySighash.preimage
    have : ¬ n < tx.inputs.length := by omega
    simp [this]

/-- **cache transparency**: for any LIST of requests (any mix of preimage / digest / wallet calls, any
    flags, indexes, script codes, amounts) against one transaction sharing one cache, every answer
    equals the fresh computation. -/
theorem C02_cache_transparent (H : Bytes → Bytes) (tx : Tx) (reqs : List Req) :
    (run H tx Cache.empty reqs).2 = reqs.map (fun r => (answer H tx Cache.empty r).2) :=
  (run_cache true H tx reqs Cache.empty (cacheOk_empty H tx)).1

/-- the invariant behind it: a valid cache stays valid through any request list, and answers do not
    depend on which valid cache the sequence starts from -/
theorem C02_cache_invariant (H : Bytes → Bytes) (tx : Tx) (reqs : List Req) (c : Cache) (hc : CacheOk H tx c) :
    (run H tx c reqs).2 = (run H tx Cache.empty reqs).2 ∧ CacheOk H tx (run H tx c reqs).1 := by
  obtain ⟨h1, h2⟩ := run_cache true H tx reqs c hc
  have h1' : (run H tx c reqs).2 = reqs.map (fun r => (answer H tx Cache.empty r).2) := h1
  exact ⟨by rw [h1', C02_cache_transparent], h2⟩

/-! ### sub-script selection -/

/-- the full-strength statement — FALSE of the pinned code (witnesses below) -/
def C02_subscript_eq_spec : Prop :=
  ∀ (code : Bytes) (k : Nat) (sc : Bytes), Spec.LegacySighash.scriptCode code k = some sc →
    extractSubscript code k = .ok sc

/-- **partial**: the model's selection is the specification's legacy script code whenever
    (1) no byte of any push data / length prefix has the value 0xab or 0xac, and
    (2) the script does not have exactly one separator that is not its first operation (unless the
        selection is the whole script anyway).  No hypothesis on well-formedness: truncated pushes are
        cut identically by `next_op` and by the specification's parser. -/
theorem C02_subscript_eq_spec_partial (code : Bytes) (k : Nat) (sc : Bytes)
    (hs : Spec.LegacySighash.scriptCode code k = some sc)
    (hab : NoRaw OP_CODESEPARATOR (parseScript code)) (hac : NoRaw OP_CHECKSIG (parseScript code))
    (hsingle : ((parseScript code).filter Op.isSep).length = 1 →
      (∃ s t, parseScript code = s :: t ∧ s.isSep = true) ∨ scriptCodeOps code k = some (parseScript code)) :
    extractSubscript code k = .ok sc := by
  unfold Spec.LegacySighash.scriptCode at hs
  cases hsel : scriptCodeOps code k with
  | none => rw [hsel] at hs; simp at hs
  | some sel =>
    rw [hsel] at hs hsingle
    simp only [Option.map_some, Option.some.injEq] at hs
    have := extractSubscript_eq_spec code k sel hsel hab hac (by
      intro h1
      rcases hsingle h1 with h | h
      · exact Or.inl h
      · exact Or.inr (Option.some.inj h))
    rw [this, ← hs]; rfl

/-- under FORKID the same, for script codes inside the claim (no separator after the selected check) -/
theorem C02_subscript_eq_spec_partial_forkid (code : Bytes) (k : Nat) (sc : Bytes)
    (hs : Spec.Bip143.scriptCode code k = some sc) (hin : Spec.Bip143.outsideClaim code k = false)
    (hab : NoRaw OP_CODESEPARATOR (parseScript code)) (hac : NoRaw OP_CHECKSIG (parseScript code))
    (hsingle : ((parseScript code).filter Op.isSep).length = 1 →
      (∃ s t, parseScript code = s :: t ∧ s.isSep = true) ∨ scriptCodeOps code k = some (parseScript code)) :
    extractSubscript code k = .ok sc := by
  apply C02_subscript_eq_spec_partial code k sc ?_ hab hac hsingle
  unfold Spec.Bip143.scriptCode at hs
  unfold Spec.Bip143.outsideClaim at hin
  unfold Spec.LegacySighash.scriptCode
  cases hsel : scriptCodeOps code k with
  | none => rw [hsel] at hs; simp at hs
  | some sel =>
    rw [hsel] at hs hin
    simp only [Option.map_some, Option.some.injEq] at hs ⊢
    have hfree : ∀ o ∈ sel, o.isSep = false := by
      intro o ho
      cases h : o.isSep with
      | false => rfl
      | true =>
        have : sel.any Op.isSep = true := List.any_eq_true.mpr ⟨o, ho, h⟩
        simp only at hin
        rw [this] at hin; simp at hin
    have := filter_notSep_of_free sel hfree
    unfold notSep at this
    rw [this, hs]

/-- when the specification has no script code (separators and `OP_CHECKSIG`s exist but there is no
    `k`-th one) the model has none either: `BadArgument` -/
theorem C02_subscript_none (code : Bytes) (k : Nat) (hs : Spec.LegacySighash.scriptCode code k = none)
    (hab : NoRaw OP_CODESEPARATOR (parseScript code)) (hac : NoRaw OP_CHECKSIG (parseScript code)) :
    extractSubscript code k = .err "BadArgument" := by
  apply extractSubscript_none code k ?_ hab hac
  unfold Spec.LegacySighash.scriptCode at hs
  cases h : scriptCodeOps code k with
  | none => rfl
  | some s => rw [h] at hs; simp at hs

/-- no entry point panics, for any transaction, index, script code, check index, amount, type byte
    and cache (with the guarded `checksig_positions.len() - 1` of commit 0252e8b) -/
theorem C02_never_panics (H : Bytes → Bytes) (tx : Tx) (n : Nat) (code : Bytes) (k : Nat) (sat : Int)
    (ty : UInt8) (c : Cache) :
    (∀ s, extractSubscript code k ≠ .panic s) ∧
    (∀ s, (preimage H tx n code k sat ty c).1 ≠ .panic s) ∧
    (∀ s, (sighash H tx n code k sat ty c).1 ≠ .panic s) := by
  have hx := extractSubscript_no_panic code k
  have hp : ∀ s, (preimage H tx n code k sat ty c).1 ≠ .panic s := by
    intro s
    unfold preimage
    cases tx.inputs[n]? with
    | none => simp
    | some txIn =>
      cases hxx : extractSubscript code k with
      | ok sub => simp
      | err e => simp
      | panic s' => exact absurd hxx (hx s')
  refine ⟨hx, hp, ?_⟩
  intro s
  unfold sighash sighashWith
  split
  · unfold bip143Sighash
    rcases hq : preimage H tx n code k sat ty c with ⟨o, c'⟩
    have := hp
    rw [hq] at this
    cases o with
    | ok b => simp
    | err e => simp
    | panic s' => exact absurd rfl (this s')
  · simp only [legacySighashWith, legacyPreimageWith]
    split
    · simp [Outcome.map]
    · cases hxx : extractSubscript code k with
      | err e => simp [Outcome.map]
      | panic s' => exact absurd hxx (hx s')
      | ok sub =>
        have hne : ¬ (SIGHASH_SINGLE = SIGHASH_NONE) := by decide
        by_cases c1 : ty &&& 31 = SIGHASH_NONE
        · simp [c1, Outcome.map]
        · by_cases c2 : ty &&& 31 = SIGHASH_SINGLE
          · by_cases c3 : n ≥ tx.outputs.length <;> simp [c2, c3, hne, Outcome.map]
          · simp [c1, c2, Outcome.map]

/-- end to end under the partial hypotheses: the digest computed through any valid cache is the
    specification's digest, for every hash function -/
theorem C02_digest_eq_spec_partial (H : Bytes → Bytes) (tx : Tx) (n : Nat) (code : Bytes) (k : Nat)
    (sat : Int) (ty : UInt8) (c : Cache) (hc : CacheOk H tx c) (hsat : InI64 sat) (hout : AmountsInRange tx)
    (sc : Bytes)
    (hs : (if Spec.Bip143.forkId ty then Spec.Bip143.scriptCode code k
           else Spec.LegacySighash.scriptCode code k) = some sc)
    (hin : Spec.Bip143.forkId ty = true → Spec.Bip143.outsideClaim code k = false)
    (hab : NoRaw OP_CODESEPARATOR (parseScript code)) (hac : NoRaw OP_CHECKSIG (parseScript code))
    (hsingle : ((parseScript code).filter Op.isSep).length = 1 →
      (∃ s t, parseScript code = s :: t ∧ s.isSep = true) ∨ scriptCodeOps code k = some (parseScript code)) :
    (sighash H tx n code k sat ty c).1 =
      ofSpec (if Spec.Bip143.forkId ty then Spec.Bip143.digest H tx n code k sat ty
              else Spec.LegacySighash.digest H tx n code k ty) := by
  have hm : extractSubscript code k = .ok sc := by
    cases hf : Spec.Bip143.forkId ty with
    | true =>
      rw [hf] at hs
      exact C02_subscript_eq_spec_partial_forkid code k sc hs (hin hf) hab hac hsingle
    | false =>
      rw [hf] at hs
      exact C02_subscript_eq_spec_partial code k sc hs hab hac hsingle
  exact C02_sighash_eq_spec H tx n code k sat ty c hc hsat hout sc hm hs

/-! ### non-vacuity -/

/-- `OP_CODESEPARATOR OP_DUP OP_HASH160 <20 bytes> OP_EQUALVERIFY OP_CHECKSIG` -/
def codeSepP2pkh : Bytes :=
  [0xab, 0x76, 0xa9, 0x14, 1, 2, 3, 4, 5, 6, 7, 8, 9, 10, 11, 12, 13, 14, 15, 16, 17, 18, 19, 20, 0x88, 0xac]

example : NoRaw OP_CODESEPARATOR (parseScript codeSepP2pkh) ∧ NoRaw OP_CHECKSIG (parseScript codeSepP2pkh) := by
  unfold NoRaw; decide
example : extractSubscript codeSepP2pkh 0 = .ok codeSepP2pkh.tail ∧
    Spec.Bip143.scriptCode codeSepP2pkh 0 = some codeSepP2pkh.tail ∧
    Spec.Bip143.outsideClaim codeSepP2pkh 0 = false := by decide

/-! ### witnesses: the pinned code's model violates the full statement (known findings) -/

/-- (a) raw-byte scanning: a pay-to-public-key-hash script whose hash contains 0xab twice
    (`76a914 2a17924c60bc12ab9cafb44ef0a9f39bab898da0 88ac`): the script code is cut inside the push -/
def p2pkhTwoAb : Bytes :=
  [0x76, 0xa9, 0x14, 0x2a, 0x17, 0x92, 0x4c, 0x60, 0xbc, 0x12, 0xab, 0x9c, 0xaf, 0xb4, 0x4e, 0xf0, 0xa9,
   0xf3, 0x9b, 0xab, 0x89, 0x8d, 0xa0, 0x88, 0xac]

theorem C02_witness_raw_scan :
    extractSubscript p2pkhTwoAb 0 = .ok [0x89, 0x8d, 0xa0, 0x88, 0xac] ∧
    Spec.Bip143.scriptCode p2pkhTwoAb 0 = some p2pkhTwoAb ∧
    Spec.LegacySighash.scriptCode p2pkhTwoAb 0 = some p2pkhTwoAb := by decide

/-- (b) exactly one separator at a non-zero offset before the check:
    `OP_1 OP_DROP OP_CODESEPARATOR OP_DUP OP_CHECKSIG` → `51 75 76 ac`; BIP-143: `76 ac` -/
theorem C02_witness_single_sep_prefix :
    extractSubscript [0x51, 0x75, 0xab, 0x76, 0xac] 0 = .ok [0x51, 0x75, 0x76, 0xac] ∧
    Spec.Bip143.scriptCode [0x51, 0x75, 0xab, 0x76, 0xac] 0 = some [0x76, 0xac] ∧
    Spec.LegacySighash.scriptCode [0x51, 0x75, 0xab, 0x76, 0xac] 0 = some [0x76, 0xac] := by decide

/-- (c) a separator byte but no 0xac byte (`OP_CODESEPARATOR OP_DUP OP_CHECKSIGVERIFY`): no
    underflow any more — the whole script without its separators, as the legacy specification says -/
theorem C02_no_checksig_byte :
    extractSubscript [0xab, 0x76, 0xad] 0 = .ok [0x76, 0xad] ∧
    Spec.LegacySighash.scriptCode [0xab, 0x76, 0xad] 0 = some [0x76, 0xad] := by decide

theorem C02_subscript_eq_spec_false : ¬ C02_subscript_eq_spec := by
  intro h
  have := h [0x51, 0x75, 0xab, 0x76, 0xac] 0 [0x76, 0xac] C02_witness_single_sep_prefix.2.2
  rw [C02_witness_single_sep_prefix.1] at this
  exact absurd this (by decide)

/-- (d) the pinned `legacy_sighash` blanks the output AT `n_input` under SIGHASH_SINGLE and keeps the
    ones before it; the original algorithm does the opposite.  One input, one output, type 0x03. -/
def txOneOne : Tx :=
  { version := 1, inputs := [⟨⟨List.replicate 32 5, 0⟩, [], 0xffffffff⟩], outputs := [⟨100, [0x51]⟩], lockTime := 0 }

theorem C02_witness_pinned_legacy_single :
    legacyPreimageWith false txOneOne 0 [0x51] 0 0x03 ≠ ofSpec (Spec.LegacySighash.preimage txOneOne 0 [0x51] 0 0x03) ∧
    legacyPreimageWith true txOneOne 0 [0x51] 0 0x03 = ofSpec (Spec.LegacySighash.preimage txOneOne 0 [0x51] 0 0x03) := by
  decide

/-! ### unique decodability of the BIP-143 preimage (used by C03's coverage theorems) -/

/-- **preimage injective**: two BIP-143 preimages that are equal as byte strings were built from
    equal version, inner-hash values, outpoint, script code, amount, sequence, lock time and type —
    for every hash function with 32-byte output, field values in their wire ranges. -/
theorem C02_preimage_injective (dsha : Bytes → Bytes) (hl : ∀ b, (dsha b).length = 32)
    (tx1 tx2 : Tx) (n1 n2 : Nat) (i1 i2 : TxIn) (sc1 sc2 : Bytes) (a1 a2 : Int) (ty1 ty2 : UInt8) (p : Bytes)
    (hi1 : tx1.inputs[n1]? = some i1) (hi2 : tx2.inputs[n2]? = some i2)
    (hv : tx1.version < 2 ^ 32 ∧ tx2.version < 2 ^ 32) (hlt : tx1.lockTime < 2 ^ 32 ∧ tx2.lockTime < 2 ^ 32)
    (hh : i1.prevOutput.hash.length = 32 ∧ i2.prevOutput.hash.length = 32)
    (hx : i1.prevOutput.index < 2 ^ 32 ∧ i2.prevOutput.index < 2 ^ 32)
    (hq : i1.sequence < 2 ^ 32 ∧ i2.sequence < 2 ^ 32)
    (hsc : sc1.length < 2 ^ 64 ∧ sc2.length < 2 ^ 64) (ha : InI64 a1 ∧ InI64 a2)
    (h1 : Spec.Bip143.preimageOf dsha tx1 n1 sc1 a1 ty1 = some p)
    (h2 : Spec.Bip143.preimageOf dsha tx2 n2 sc2 a2 ty2 = some p) :
    tx1.version = tx2.version ∧
    Spec.Bip143.hashPrevouts dsha tx1 ty1 = Spec.Bip143.hashPrevouts dsha tx2 ty2 ∧
    Spec.Bip143.hashSequence dsha tx1 ty1 = Spec.Bip143.hashSequence dsha tx2 ty2 ∧
    i1.prevOutput = i2.prevOutput ∧ sc1 = sc2 ∧ a1 = a2 ∧ i1.sequence = i2.sequence ∧
    Spec.Bip143.hashOutputs dsha tx1 n1 ty1 = Spec.Bip143.hashOutputs dsha tx2 n2 ty2 ∧
    tx1.lockTime = tx2.lockTime ∧ ty1 = ty2 := by
  rw [CG.Proofs.Bip143Inj.preimageOf_eq_ser dsha tx1 n1 i1 sc1 a1 ty1 hi1] at h1
  rw [CG.Proofs.Bip143Inj.preimageOf_eq_ser dsha tx2 n2 i2 sc2 a2 ty2 hi2] at h2
  have hser := (Option.some.inj h1).trans (Option.some.inj h2).symm
  have ok1 : (CG.Proofs.Bip143Inj.fieldsOf dsha tx1 n1 i1 sc1 a1 ty1).Ok :=
    ⟨hv.1, CG.Proofs.Bip143Inj.hashPrevouts_len dsha hl _ _, CG.Proofs.Bip143Inj.hashSequence_len dsha hl _ _, hh.1, hx.1, hsc.1,
      ha.1, hq.1, CG.Proofs.Bip143Inj.hashOutputs_len dsha hl _ _ _, hlt.1⟩
  have ok2 : (CG.Proofs.Bip143Inj.fieldsOf dsha tx2 n2 i2 sc2 a2 ty2).Ok :=
    ⟨hv.2, CG.Proofs.Bip143Inj.hashPrevouts_len dsha hl _ _, CG.Proofs.Bip143Inj.hashSequence_len dsha hl _ _, hh.2, hx.2, hsc.2,
      ha.2, hq.2, CG.Proofs.Bip143Inj.hashOutputs_len dsha hl _ _ _, hlt.2⟩
  have := CG.Proofs.Bip143Inj.ser_inj _ _ ok1 ok2 hser
  simp only [CG.Proofs.Bip143Inj.fieldsOf, CG.Proofs.Bip143Inj.Fields.mk.injEq] at this
  exact this

end CG.Props.C02

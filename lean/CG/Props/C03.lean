import CG.Model.TxScript
import CG.Proofs.Templates
import CG.Proofs.Der
/-!
# C03 — Spends are authorised only by valid, canonical signatures
Property theorems only.  Model of the per-input script check: `CG.Model.TxScript`.
-/
namespace CG.Props.C03
open CG CG.Model.Interp CG.Model.ScriptNum CG.Model.TxScript
open CG.Proofs.Templates CG.Proofs.InterpFlow

/-- **the locking script always runs** (repaired structure): if validation of an input succeeds
    then the unlocking script ran to completion, and the locking script was executed from its
    first opcode, with a fresh control-flow state, on exactly the stack the unlocking script left,
    ran to completion and left a true top item.  Whatever bytes the unlocking script contains. -/
theorem C03_lock_always_runs {σ : Type} (H : Hashes) (C : Checker σ) (c0 : σ) (unlock lock : Bytes)
    (flags : Nat) (h : validateInput H C c0 unlock lock flags = .ok ()) :
    ∃ r1 r2, coreEval H C c0 unlock flags none none none none = .ok r1 ∧
      coreEval H C r1.chk lock flags none none (some r1.stack) none = .ok r2 ∧
      ∃ t rest, r2.stack = t :: rest ∧ decodeBool t = true := by
  unfold validateInput at h
  cases h1 : coreEval H C c0 unlock flags none none none none with
  | err e => simp [h1] at h
  | panic p => simp [h1] at h
  | ok r1 =>
    simp only [h1] at h
    cases h2 : coreEval H C r1.chk lock flags none none (some r1.stack) none with
    | err e => simp [h2] at h
    | panic p => simp [h2] at h
    | ok r2 =>
      simp only [h2] at h
      refine ⟨r1, r2, rfl, h2, ?_⟩
      obtain ⟨stack, alt, pos, chk⟩ := r2
      cases stack with
      | nil => simp [scriptErr] at h
      | cons t rest =>
        by_cases hb : decodeBool t = true
        · exact ⟨t, rest, rfl, hb⟩
        · simp [hb, scriptErr] at h

/-- a locking script that fails on the stack left by the unlocking script is never accepted -/
theorem C03_lock_verdict_not_ignored {σ : Type} (H : Hashes) (C : Checker σ) (c0 : σ)
    (unlock lock : Bytes) (flags : Nat) (r1 : EvalResult σ) (e : String)
    (h1 : coreEval H C c0 unlock flags none none none none = .ok r1)
    (h2 : coreEval H C r1.chk lock flags none none (some r1.stack) none = .err e) :
    validateInput H C c0 unlock lock flags = .err e := by
  simp [validateInput, h1, h2]

def noHashes : Hashes := ⟨id, id, id, id, id⟩

/-- a checker that rejects every signature (the attacker has none) -/
def rejectAll : Checker Unit :=
  { checkSig := fun _ _ _ _ => (.ok false, ())
    checkLocktime := fun _ _ => .err "ScriptError"
    checkSequence := fun _ _ => .err "ScriptError" }

/-- a P2PKH-shaped locking script (hash left abstract as 20 zero bytes) -/
def p2pkh0 : Bytes := [0x76, 0xa9, 0x14] ++ List.replicate 20 0 ++ [0x88, 0xac]

/-- the structure of the pinned tree (one concatenated program) accepted `OP_1 OP_RETURN` under
    genesis rules without the locking script ever running, with a checker that rejects everything … -/
theorem C03_pinned_bypass_op_return :
    validateInputPinned noHashes rejectAll () [0x51, 0x6a] p2pkh0 0 = .ok () := by decide

/-- … and a push whose length swallows the separator and the whole locking script, under either
    rule set -/
theorem C03_pinned_bypass_swallowing_push :
    validateInputPinned noHashes rejectAll () [0x51, 0x4c, 0x1a] p2pkh0 0 = .ok () ∧
    validateInputPinned noHashes rejectAll () [0x51, 0x4c, 0x1a] p2pkh0 1 = .ok () ∧
    validateInputPinned noHashes rejectAll () [0x1a] p2pkh0 1 = .ok () := by
  refine ⟨?_, ?_, ?_⟩ <;> decide

/-- the repaired structure rejects all three -/
theorem C03_repaired_rejects_bypasses :
    validateInput noHashes rejectAll () [0x51, 0x6a] p2pkh0 0 = .err "ScriptError" ∧
    validateInput noHashes rejectAll () [0x51, 0x4c, 0x1a] p2pkh0 0 = .err "ScriptError" ∧
    validateInput noHashes rejectAll () [0x51, 0x4c, 0x1a] p2pkh0 1 = .err "ScriptError" ∧
    validateInput noHashes rejectAll () [0x1a] p2pkh0 1 = .err "ScriptError" := by
  refine ⟨?_, ?_, ?_, ?_⟩ <;> decide


/-! ## The three key-locked templates: soundness for EVERY initial stack, checker and rule set

`p2pkhLock h = 76 a9 14 ‖ h ‖ 88 ac`, `p2pkLock pk = |pk| ‖ pk ‖ ac` (`21 ‖ pk ‖ ac` for a compressed,
`41 ‖ pk ‖ ac` for an uncompressed key), `multisigLock m keys = OP_m ‖ (|k| ‖ k)* ‖ OP_n ‖ ae`
(definitions in `CG.Proofs.Templates`).  Stacks have their top at the head. -/

theorem decodeBool_boolItem (b : Bool) : decodeBool (boolItem b) = b := by cases b <;> decide

/-- the top item of an evaluation result is true -/
def TopTrue {σ : Type} (r : EvalResult σ) : Prop := ∃ t rest, r.stack = t :: rest ∧ decodeBool t = true

/-- a template ending in OP_CHECKSIG left a true top item: the checker said `Ok(true)` -/
theorem sigResult_sound {σ : Type} (C : Checker σ) (c0 : σ) (script sig pk : Bytes) (rest alt : Stack)
    (stop : Nat) (r : EvalResult σ) (he : pack (sigResult C c0 script sig pk rest alt stop) = .ok r)
    (ht : TopTrue r) :
    (C.checkSig c0 sig pk (cleaned script 0 sig)).1 = .ok true ∧ r.stack = [1] :: rest ∧
      r.chk = (C.checkSig c0 sig pk (cleaned script 0 sig)).2 := by
  unfold sigResult at he
  rcases hc : C.checkSig c0 sig pk (cleaned script 0 sig) with ⟨o, c'⟩
  rw [hc] at he
  cases o with
  | ok b =>
    simp only [pack, Outcome.ok.injEq] at he
    subst he
    obtain ⟨t, rest', hst, hb⟩ := ht
    simp only [List.cons.injEq] at hst
    rw [← hst.1, decodeBool_boolItem] at hb
    subst hb
    exact ⟨rfl, rfl, rfl⟩
  | err e => simp [pack] at he
  | panic p => simp [pack] at he

/-- **P2PKH is sound**: whatever the initial stack, alt stack, checker, checker state, hash functions
    and rule set, if `OP_DUP OP_HASH160 <h> OP_EQUALVERIFY OP_CHECKSIG` completes with a true top
    item then the stack held a public key hashing to `h` with a signature under it, and `check_sig`
    answered `Ok(true)` for exactly that pair with the whole locking script as script code. -/
theorem C03_p2pkh_sound {σ : Type} (H : Hashes) (C : Checker σ) (c0 : σ) (h : Bytes) (hh : h.length = 20)
    (flags : Nat) (s0 : Stack) (alt : Option Stack) (r : EvalResult σ)
    (he : coreEval H C c0 (p2pkhLock h) flags none none (some s0) alt = .ok r) (ht : TopTrue r) :
    ∃ pk sig rest, s0 = pk :: sig :: rest ∧ H.hash160 pk = h ∧
      (C.checkSig c0 sig pk (cleaned (p2pkhLock h) 0 sig)).1 = .ok true ∧
      r.stack = [1] :: rest ∧ r.chk = (C.checkSig c0 sig pk (cleaned (p2pkhLock h) 0 sig)).2 := by
  rw [coreEval_eq] at he
  simp only [Option.getD_some] at he
  rw [p2pkh_run H C _ h hh] at he
  match s0, he with
  | [], he => simp [pack, scriptErr] at he
  | [_], he => simp [pack, scriptErr] at he
  | pk :: sig :: rest, he =>
    simp only [] at he
    by_cases heq : h = H.hash160 pk
    · rw [if_pos heq] at he
      obtain ⟨h1, h2, h3⟩ := sigResult_sound C c0 _ sig pk rest _ _ r he ht
      exact ⟨pk, sig, rest, rfl, heq.symm, h1, h2, h3⟩
    · rw [if_neg heq] at he
      simp [pack, scriptErr] at he

/-- **P2PK is sound** (any direct push of 1..75 key bytes; `C03_p2pk_sound_33/65` are the two
    standard forms): acceptance implies `check_sig` answered `Ok(true)` for the locked key and the
    item that was on top of the stack. -/
theorem C03_p2pk_sound {σ : Type} (H : Hashes) (C : Checker σ) (c0 : σ) (pk : Bytes)
    (h1 : 1 ≤ pk.length) (h2 : pk.length ≤ 75)
    (flags : Nat) (s0 : Stack) (alt : Option Stack) (r : EvalResult σ)
    (he : coreEval H C c0 (p2pkLock pk) flags none none (some s0) alt = .ok r) (ht : TopTrue r) :
    ∃ sig rest, s0 = sig :: rest ∧
      (C.checkSig c0 sig pk (cleaned (p2pkLock pk) 0 sig)).1 = .ok true ∧
      r.stack = [1] :: rest ∧ r.chk = (C.checkSig c0 sig pk (cleaned (p2pkLock pk) 0 sig)).2 := by
  rw [coreEval_eq] at he
  simp only [Option.getD_some] at he
  rw [p2pk_run H C _ pk h1 h2] at he
  match s0, he with
  | [], he => simp [pack, scriptErr] at he
  | sig :: rest, he =>
    obtain ⟨h1, h2, h3⟩ := sigResult_sound C c0 _ sig pk rest _ _ r he ht
    exact ⟨sig, rest, rfl, h1, h2, h3⟩

theorem p2pkLock_33 (pk : Bytes) (h : pk.length = 33) : p2pkLock pk = [33] ++ pk ++ [0xac] := by
  simp [p2pkLock, pushOf, h]

theorem p2pkLock_65 (pk : Bytes) (h : pk.length = 65) : p2pkLock pk = [65] ++ pk ++ [0xac] := by
  simp [p2pkLock, pushOf, h]

theorem C03_p2pk_sound_33 {σ : Type} (H : Hashes) (C : Checker σ) (c0 : σ) (pk : Bytes) (hpk : pk.length = 33)
    (flags : Nat) (s0 : Stack) (alt : Option Stack) (r : EvalResult σ)
    (he : coreEval H C c0 ([33] ++ pk ++ [0xac]) flags none none (some s0) alt = .ok r) (ht : TopTrue r) :
    ∃ sig rest, s0 = sig :: rest ∧
      (C.checkSig c0 sig pk (cleaned ([33] ++ pk ++ [0xac]) 0 sig)).1 = .ok true := by
  rw [← p2pkLock_33 pk hpk] at he ⊢
  obtain ⟨sig, rest, h1, h2, -⟩ := C03_p2pk_sound H C c0 pk (by omega) (by omega) flags s0 alt r he ht
  exact ⟨sig, rest, h1, h2⟩

theorem C03_p2pk_sound_65 {σ : Type} (H : Hashes) (C : Checker σ) (c0 : σ) (pk : Bytes) (hpk : pk.length = 65)
    (flags : Nat) (s0 : Stack) (alt : Option Stack) (r : EvalResult σ)
    (he : coreEval H C c0 ([65] ++ pk ++ [0xac]) flags none none (some s0) alt = .ok r) (ht : TopTrue r) :
    ∃ sig rest, s0 = sig :: rest ∧
      (C.checkSig c0 sig pk (cleaned ([65] ++ pk ++ [0xac]) 0 sig)).1 = .ok true := by
  rw [← p2pkLock_65 pk hpk] at he ⊢
  obtain ⟨sig, rest, h1, h2, -⟩ := C03_p2pk_sound H C c0 pk (by omega) (by omega) flags s0 alt r he ht
  exact ⟨sig, rest, h1, h2⟩

/-! ### multisig -/

/-- **the matching loop of `check_multisig`** answers `Ok(true)` exactly when every signature, in
    order, is accepted (`check_sig = Ok(true)`, at the checker state reached at that point) under a
    key strictly later in the list than the key that accepted the previous signature
    (`Matches`, an inductive relation defined in `CG.Proofs.Templates`); there are then at most as
    many signatures as keys. -/
theorem C03_msloop_sound {σ : Type} (C : Checker σ) (scr : Bytes) (c c' : σ) (sigs keys : List Bytes)
    (h : msLoop C scr c sigs keys = (.ok true, c')) :
    Matches C scr c sigs keys c' ∧ sigs.length ≤ keys.length :=
  ⟨(msLoop_true_iff C scr c c' sigs keys).mp h, ((msLoop_true_iff C scr c c' sigs keys).mp h).length_le⟩

/-- and conversely (so `Matches` is exactly the loop's acceptance condition) -/
theorem C03_msloop_complete {σ : Type} (C : Checker σ) (scr : Bytes) (c c' : σ) (sigs keys : List Bytes)
    (h : Matches C scr c sigs keys c') : msLoop C scr c sigs keys = (.ok true, c') :=
  (msLoop_true_iff C scr c c' sigs keys).mpr h

/-- `Matches` read as an assignment: the accepting keys are a subsequence of the key list (strictly
    increasing positions, hence pairwise distinct positions), one per signature, in order -/
theorem C03_matches_increasing {σ : Type} (C : Checker σ) (scr : Bytes) (c c' : σ) (sigs keys : List Bytes)
    (h : Matches C scr c sigs keys c') :
    ∃ used : List Bytes, used.Sublist keys ∧ used.length = sigs.length ∧
      ∀ p ∈ sigs.zip used, ∃ c1, (C.checkSig c1 p.1 p.2 scr).1 = .ok true :=
  h.sublist

/-- **m-of-n multisig is sound**, for every `1 ≤ m ≤ n ≤ 16` and every list of `n` keys pushed
    directly (1..75 bytes each; 33 for compressed keys): if
    `OP_m <k1> … <kn> OP_n OP_CHECKMULTISIG` completes with a true top item on ANY initial stack, then
    that stack was `sig_m … sig_1 dummy …` (top first) with exactly `m` signatures, each accepted by
    `check_sig` under its own, strictly earlier-and-earlier locked key (the loop walks the keys from
    `kn` down to `k1`), with the locking script (minus pre-fork signatures) as script code. -/
theorem C03_multisig_sound {σ : Type} (H : Hashes) (C : Checker σ) (c0 : σ) (m : Nat) (keys : List Bytes)
    (h1 : 1 ≤ m) (h2 : m ≤ keys.length) (h3 : keys.length ≤ 16)
    (hk : ∀ k ∈ keys, 1 ≤ k.length ∧ k.length ≤ 75)
    (flags : Nat) (s0 : Stack) (alt : Option Stack) (r : EvalResult σ)
    (he : coreEval H C c0 (multisigLock m keys) flags none none (some s0) alt = .ok r) (ht : TopTrue r) :
    ∃ sigs dummy rest, s0 = sigs ++ dummy :: rest ∧ sigs.length = m ∧
      Matches C (msCleaned (multisigLock m keys) sigs) c0 sigs keys.reverse r.chk ∧
      r.stack = [1] :: rest := by
  rw [coreEval_eq] at he
  simp only [Option.getD_some] at he
  rw [multisig_run H C _ m keys h1 h2 h3 hk] at he
  by_cases hs : s0.length < m + 1
  · rw [if_pos hs] at he; simp [pack, scriptErr] at he
  · rw [if_neg hs] at he
    rcases hl : msLoop C (msCleaned (multisigLock m keys) (s0.take m)) c0 (s0.take m) keys.reverse
      with ⟨o, c'⟩
    rw [hl] at he
    cases o with
    | ok b =>
      simp only [msOutcome, pack, Outcome.ok.injEq] at he
      subst he
      obtain ⟨t, rest', hst, hb⟩ := ht
      simp only [List.cons.injEq] at hst
      rw [← hst.1, decodeBool_boolItem] at hb
      subst hb
      have hm : m < s0.length := by omega
      refine ⟨s0.take m, s0[m], s0.drop (m + 1), ?_, by simp; omega,
        (msLoop_true_iff _ _ _ _ _ _).mp hl, rfl⟩
      rw [← List.drop_eq_getElem_cons hm, List.take_append_drop]
    | err e => simp [msOutcome, pack] at he
    | panic p => simp [msOutcome, pack] at he

/-- the same, read as "m signatures, each valid under a distinct locked key": -/
theorem C03_multisig_m_valid_signatures {σ : Type} (H : Hashes) (C : Checker σ) (c0 : σ) (m : Nat)
    (keys : List Bytes) (h1 : 1 ≤ m) (h2 : m ≤ keys.length) (h3 : keys.length ≤ 16)
    (hk : ∀ k ∈ keys, 1 ≤ k.length ∧ k.length ≤ 75)
    (flags : Nat) (s0 : Stack) (alt : Option Stack) (r : EvalResult σ)
    (he : coreEval H C c0 (multisigLock m keys) flags none none (some s0) alt = .ok r) (ht : TopTrue r) :
    ∃ sigs dummy rest used, s0 = sigs ++ dummy :: rest ∧ sigs.length = m ∧ used.length = m ∧
      used.Sublist keys.reverse ∧
      ∀ p ∈ sigs.zip used, ∃ c1,
        (C.checkSig c1 p.1 p.2 (msCleaned (multisigLock m keys) sigs)).1 = .ok true := by
  obtain ⟨sigs, dummy, rest, e, hl, hm, -⟩ :=
    C03_multisig_sound H C c0 m keys h1 h2 h3 hk flags s0 alt r he ht
  obtain ⟨used, hsub, hlen, hall⟩ := hm.sublist
  exact ⟨sigs, dummy, rest, used, e, hl, by omega, hsub, hall⟩

/-! ## Authorisation: the three soundness theorems behind `C03_lock_always_runs`

For EVERY unlocking script (any bytes): a spend of a key-locked output that validates went through
the locking script's `check_sig` call(s), on the stack and checker state the unlocking script left,
and they answered `Ok(true)` for the locked key(s). -/

theorem C03_authorisation_p2pkh {σ : Type} (H : Hashes) (C : Checker σ) (c0 : σ) (unlock h : Bytes)
    (hh : h.length = 20) (flags : Nat)
    (hv : validateInput H C c0 unlock (p2pkhLock h) flags = .ok ()) :
    ∃ r1 pk sig rest, coreEval H C c0 unlock flags none none none none = .ok r1 ∧
      r1.stack = pk :: sig :: rest ∧ H.hash160 pk = h ∧
      (C.checkSig r1.chk sig pk (cleaned (p2pkhLock h) 0 sig)).1 = .ok true := by
  obtain ⟨r1, r2, e1, e2, ht⟩ := C03_lock_always_runs H C c0 unlock _ flags hv
  obtain ⟨pk, sig, rest, hs, hp, hc, -⟩ := C03_p2pkh_sound H C r1.chk h hh flags r1.stack none r2 e2 ht
  exact ⟨r1, pk, sig, rest, e1, hs, hp, hc⟩

theorem C03_authorisation_p2pk {σ : Type} (H : Hashes) (C : Checker σ) (c0 : σ) (unlock pk : Bytes)
    (h1 : 1 ≤ pk.length) (h2 : pk.length ≤ 75) (flags : Nat)
    (hv : validateInput H C c0 unlock (p2pkLock pk) flags = .ok ()) :
    ∃ r1 sig rest, coreEval H C c0 unlock flags none none none none = .ok r1 ∧
      r1.stack = sig :: rest ∧
      (C.checkSig r1.chk sig pk (cleaned (p2pkLock pk) 0 sig)).1 = .ok true := by
  obtain ⟨r1, r2, e1, e2, ht⟩ := C03_lock_always_runs H C c0 unlock _ flags hv
  obtain ⟨sig, rest, hs, hc, -⟩ := C03_p2pk_sound H C r1.chk pk h1 h2 flags r1.stack none r2 e2 ht
  exact ⟨r1, sig, rest, e1, hs, hc⟩

theorem C03_authorisation_multisig {σ : Type} (H : Hashes) (C : Checker σ) (c0 : σ) (unlock : Bytes)
    (m : Nat) (keys : List Bytes) (h1 : 1 ≤ m) (h2 : m ≤ keys.length) (h3 : keys.length ≤ 16)
    (hk : ∀ k ∈ keys, 1 ≤ k.length ∧ k.length ≤ 75) (flags : Nat)
    (hv : validateInput H C c0 unlock (multisigLock m keys) flags = .ok ()) :
    ∃ r1 sigs dummy rest c2, coreEval H C c0 unlock flags none none none none = .ok r1 ∧
      r1.stack = sigs ++ dummy :: rest ∧ sigs.length = m ∧
      Matches C (msCleaned (multisigLock m keys) sigs) r1.chk sigs keys.reverse c2 := by
  obtain ⟨r1, r2, e1, e2, ht⟩ := C03_lock_always_runs H C c0 unlock _ flags hv
  obtain ⟨sigs, dummy, rest, hs, hl, hm, -⟩ :=
    C03_multisig_sound H C r1.chk m keys h1 h2 h3 hk flags r1.stack none r2 e2 ht
  exact ⟨r1, sigs, dummy, rest, r2.chk, e1, hs, hl, hm⟩

/-- **authorisation**: the three statements together, each for every unlocking script, checker,
    checker state, hash functions and rule set. -/
theorem C03_authorisation {σ : Type} (H : Hashes) (C : Checker σ) (c0 : σ) (unlock : Bytes) (flags : Nat) :
    (∀ h : Bytes, h.length = 20 → validateInput H C c0 unlock (p2pkhLock h) flags = .ok () →
      ∃ r1 pk sig rest, coreEval H C c0 unlock flags none none none none = .ok r1 ∧
        r1.stack = pk :: sig :: rest ∧ H.hash160 pk = h ∧
        (C.checkSig r1.chk sig pk (cleaned (p2pkhLock h) 0 sig)).1 = .ok true) ∧
    (∀ pk : Bytes, 1 ≤ pk.length → pk.length ≤ 75 →
      validateInput H C c0 unlock (p2pkLock pk) flags = .ok () →
      ∃ r1 sig rest, coreEval H C c0 unlock flags none none none none = .ok r1 ∧
        r1.stack = sig :: rest ∧
        (C.checkSig r1.chk sig pk (cleaned (p2pkLock pk) 0 sig)).1 = .ok true) ∧
    (∀ (m : Nat) (keys : List Bytes), 1 ≤ m → m ≤ keys.length → keys.length ≤ 16 →
      (∀ k ∈ keys, 1 ≤ k.length ∧ k.length ≤ 75) →
      validateInput H C c0 unlock (multisigLock m keys) flags = .ok () →
      ∃ r1 sigs dummy rest c2, coreEval H C c0 unlock flags none none none none = .ok r1 ∧
        r1.stack = sigs ++ dummy :: rest ∧ sigs.length = m ∧
        Matches C (msCleaned (multisigLock m keys) sigs) r1.chk sigs keys.reverse c2) :=
  ⟨fun h hh hv => C03_authorisation_p2pkh H C c0 unlock h hh flags hv,
   fun pk h1 h2 hv => C03_authorisation_p2pk H C c0 unlock pk h1 h2 flags hv,
   fun m keys h1 h2 h3 hk hv => C03_authorisation_multisig H C c0 unlock m keys h1 h2 h3 hk flags hv⟩

/-- **no valid signature, no spend** (contrapositive form, P2PKH): if the checker never answers
    `Ok(true)` for a key hashing to `h`, no unlocking script whatsoever spends the output. -/
theorem C03_no_signature_no_spend_p2pkh {σ : Type} (H : Hashes) (C : Checker σ) (c0 : σ) (unlock h : Bytes)
    (hh : h.length = 20) (flags : Nat)
    (hno : ∀ c sig pk scr, H.hash160 pk = h → (C.checkSig c sig pk scr).1 ≠ .ok true) :
    validateInput H C c0 unlock (p2pkhLock h) flags ≠ .ok () := by
  intro hv
  obtain ⟨r1, pk, sig, rest, -, -, hp, hc⟩ := C03_authorisation_p2pkh H C c0 unlock h hh flags hv
  exact hno _ _ _ _ hp hc

theorem C03_no_signature_no_spend_p2pk {σ : Type} (H : Hashes) (C : Checker σ) (c0 : σ) (unlock pk : Bytes)
    (h1 : 1 ≤ pk.length) (h2 : pk.length ≤ 75) (flags : Nat)
    (hno : ∀ c sig scr, (C.checkSig c sig pk scr).1 ≠ .ok true) :
    validateInput H C c0 unlock (p2pkLock pk) flags ≠ .ok () := by
  intro hv
  obtain ⟨r1, sig, rest, -, -, hc⟩ := C03_authorisation_p2pk H C c0 unlock pk h1 h2 flags hv
  exact hno _ _ _ hc

/-- multisig: if the checker never accepts anything under any of the locked keys, no unlocking
    script spends the output -/
theorem C03_no_signature_no_spend_multisig {σ : Type} (H : Hashes) (C : Checker σ) (c0 : σ) (unlock : Bytes)
    (m : Nat) (keys : List Bytes) (h1 : 1 ≤ m) (h2 : m ≤ keys.length) (h3 : keys.length ≤ 16)
    (hk : ∀ k ∈ keys, 1 ≤ k.length ∧ k.length ≤ 75) (flags : Nat)
    (hno : ∀ c sig k scr, k ∈ keys → (C.checkSig c sig k scr).1 ≠ .ok true) :
    validateInput H C c0 unlock (multisigLock m keys) flags ≠ .ok () := by
  intro hv
  obtain ⟨r1, sigs, dummy, rest, c2, -, -, hl, hm⟩ :=
    C03_authorisation_multisig H C c0 unlock m keys h1 h2 h3 hk flags hv
  obtain ⟨used, hsub, hlen, hall⟩ := hm.sublist
  match sigs, used, hl, hlen, hsub, hall with
  | [], _, hl, _, _, _ => simp at hl; omega
  | _ :: _, [], _, hlen, _, _ => simp at hlen
  | sg :: _, k :: _, _, _, hsub, hall =>
    obtain ⟨c1, hc⟩ := hall (sg, k) (by simp)
    have hmem : k ∈ keys := by
      have := hsub.subset (List.mem_cons_self)
      simpa using this
    exact hno _ _ _ _ hmem hc

/-! ### the hypotheses are satisfiable: a genuine spend of each template is accepted -/

/-- a checker that accepts exactly the listed (signature, key) pairs -/
def acceptOnly (ok : List (Bytes × Bytes)) : Checker Unit :=
  { checkSig := fun _ sig pk _ => (.ok (ok.contains (sig, pk)), ())
    checkLocktime := fun _ _ => .err "ScriptError"
    checkSequence := fun _ _ => .err "ScriptError" }

def sigA : Bytes := [0x30, 0x06, 0x02, 0x01, 0x01, 0x02, 0x01, 0x01, 0x41]
def sigB : Bytes := [0x30, 0x06, 0x02, 0x01, 0x02, 0x02, 0x01, 0x02, 0x41]
def key20 : Bytes := List.replicate 20 7
def keyA : Bytes := 2 :: List.replicate 32 0xaa
def keyB : Bytes := 3 :: List.replicate 32 0xbb
def keyC : Bytes := 2 :: List.replicate 32 0xcc

/-- P2PKH (`hash160 = id` in `noHashes`, so the 20-byte "key" is its own hash): `<sig> <key>` spends -/
example : validateInput noHashes (acceptOnly [(sigA, key20)]) () (pushOf sigA ++ pushOf key20)
    (p2pkhLock key20) 0 = .ok () := by decide +kernel
/-- … under pre-genesis rules too, and not with the other signature -/
example : validateInput noHashes (acceptOnly [(sigA, key20)]) () (pushOf sigA ++ pushOf key20)
    (p2pkhLock key20) 1 = .ok () := by decide +kernel
example : validateInput noHashes (acceptOnly [(sigA, key20)]) () (pushOf sigB ++ pushOf key20)
    (p2pkhLock key20) 0 = .err "ScriptError" := by decide +kernel

/-- P2PK: `<sig>` spends -/
example : validateInput noHashes (acceptOnly [(sigA, keyA)]) () (pushOf sigA) (p2pkLock keyA) 0 = .ok () := by
  decide +kernel
example : validateInput noHashes (acceptOnly [(sigA, keyA)]) () (pushOf sigB) (p2pkLock keyA) 0
    = .err "ScriptError" := by decide +kernel

/-- 2-of-3 multisig: `OP_0 <sig under k1> <sig under k3>` spends; the same signatures in the wrong
    order do not -/
example : validateInput noHashes (acceptOnly [(sigA, keyA), (sigB, keyC)]) ()
    ([0x00] ++ pushOf sigA ++ pushOf sigB) (multisigLock 2 [keyA, keyB, keyC]) 0 = .ok () := by
  decide +kernel
example : validateInput noHashes (acceptOnly [(sigA, keyA), (sigB, keyC)]) ()
    ([0x00] ++ pushOf sigB ++ pushOf sigA) (multisigLock 2 [keyA, keyB, keyC]) 0 = .err "ScriptError" := by
  decide +kernel


/-! ## Signature form: strict DER, low S, 9..73 bytes

`CG.Model.Der` models what `generate_signature` does around the k256 signer (normalise S, DER
framing, sighash byte); the signer's output is any pair `0 < r, s < n`.  `CG.Spec.Der` is BIP-66's
`IsValidSignatureEncoding` and the BIP-62/146 low-S bound, from the BIP texts. -/

section der
open CG.Model.Der CG.Spec.Der CG.Proofs.Der

/-- the DER framing of any `0 < r, s < 2^256` passes BIP-66's checks (DER part, without the sighash
    byte) and is 8 to 72 bytes long -/
theorem C03_der_strict (r s : Nat) (hr0 : 0 < r) (hr : r < 2 ^ 256) (hs0 : 0 < s) (hs : s < 2 ^ 256) :
    StrictDer (derEncode r s) ∧ 8 ≤ (derEncode r s).length ∧ (derEncode r s).length ≤ 72 := by
  have gR := uintContent_good r hr0 hr
  have gS := uintContent_good s hs0 hs
  rw [derEncode_eq_frame r s rfl rfl gR.len33 gS.len33]
  refine ⟨frame_strict gR gS, ?_, ?_⟩
  · rw [frame_length]; have := gR.len1; have := gS.len1; simp; omega
  · rw [frame_length]; have := gR.len33; have := gS.len33; simp; omega

/-- a parser for strict DER recovers exactly `(r, s)` … -/
theorem C03_der_roundtrip (r s : Nat) (hr0 : 0 < r) (hr : r < 2 ^ 256) (hs0 : 0 < s) (hs : s < 2 ^ 256) :
    derDecode (derEncode r s) = some (r, s) := by
  have gR := uintContent_good r hr0 hr
  have gS := uintContent_good s hs0 hs
  rw [derEncode_eq_frame r s rfl rfl gR.len33 gS.len33]
  exact frame_decode gR gS

/-- … so the framing is injective: two different `(r, s)` never share an encoding -/
theorem C03_der_injective (r s r' s' : Nat) (hr0 : 0 < r) (hr : r < 2 ^ 256) (hs0 : 0 < s) (hs : s < 2 ^ 256)
    (hr0' : 0 < r') (hr' : r' < 2 ^ 256) (hs0' : 0 < s') (hs' : s' < 2 ^ 256)
    (h : derEncode r s = derEncode r' s') : r = r' ∧ s = s' := by
  have h1 := C03_der_roundtrip r s hr0 hr hs0 hs
  have h2 := C03_der_roundtrip r' s' hr0' hr' hs0' hs'
  rw [h, h2] at h1
  simp only [Option.some.injEq, Prod.mk.injEq] at h1
  exact ⟨h1.1.symm, h1.2.symm⟩

theorem n_eq_order : CG.Model.Der.n = order := rfl
theorem halfOrder_eq : halfOrder = order / 2 := by decide +kernel
theorem order_odd : order = 2 * halfOrder + 1 := by decide +kernel
theorem order_lt : order < 2 ^ 256 := by decide +kernel

/-- normalisation yields a low S: `0 < normalizeS s ≤ n / 2` for every `0 < s < n` (and it is `s` or
    `n - s`, the two values under which an ECDSA signature verifies) -/
theorem C03_low_s (s : Nat) (hs0 : 0 < s) (hs : s < CG.Model.Der.n) :
    0 < normalizeS s ∧ normalizeS s ≤ CG.Model.Der.n / 2 ∧ LowS (normalizeS s) ∧
      (normalizeS s = s ∨ normalizeS s = CG.Model.Der.n - s) := by
  have e1 : CG.Model.Der.n = 2 * halfOrder + 1 := order_odd
  unfold LowS normalizeS
  generalize halfOrder = hf at *
  generalize CG.Model.Der.n = nn at *
  subst e1
  split <;> omega

/-- already-low values are left alone -/
theorem C03_low_s_idempotent (s : Nat) (h : s ≤ CG.Model.Der.n / 2) : normalizeS s = s := by
  unfold normalizeS; rw [if_neg (by omega)]

/-- every signature the library produces (for any signer output `0 < r, s < n` and any sighash
    byte) passes BIP-66 `IsValidSignatureEncoding` as a whole … -/
theorem C03_sig_bip66 (r s : Nat) (t : UInt8) (hr0 : 0 < r) (hr : r < CG.Model.Der.n) (hs0 : 0 < s)
    (hs : s < CG.Model.Der.n) : isValidSignatureEncoding (generateSignature r s t) = true := by
  obtain ⟨l0, l1, -, -⟩ := C03_low_s s hs0 hs
  have hlt := order_lt
  rw [← n_eq_order] at hlt
  have hs' : normalizeS s < 2 ^ 256 := by
    have : CG.Model.Der.n / 2 ≤ CG.Model.Der.n := Nat.div_le_self _ _
    omega
  have gR := uintContent_good r hr0 (by omega)
  have gS := uintContent_good (normalizeS s) l0 hs'
  unfold generateSignature
  rw [derEncode_eq_frame r _ rfl rfl gR.len33 gS.len33, ← frame_append]
  exact frame_bip66 gR gS t

/-- … and is 9 to 73 bytes long, of the form `der ‖ type` with `der` strict DER encoding
    `(r, normalizeS s)` with a low S -/
theorem C03_sig_length (r s : Nat) (t : UInt8) (hr0 : 0 < r) (hr : r < CG.Model.Der.n) (hs0 : 0 < s)
    (hs : s < CG.Model.Der.n) :
    9 ≤ (generateSignature r s t).length ∧ (generateSignature r s t).length ≤ 73 ∧
    ∃ der, generateSignature r s t = der ++ [t] ∧ StrictDer der ∧
      derDecode der = some (r, normalizeS s) ∧ LowS (normalizeS s) := by
  obtain ⟨l0, l1, l2, -⟩ := C03_low_s s hs0 hs
  have hlt := order_lt
  rw [← n_eq_order] at hlt
  have hs' : normalizeS s < 2 ^ 256 := by
    have : CG.Model.Der.n / 2 ≤ CG.Model.Der.n := Nat.div_le_self _ _
    omega
  obtain ⟨d1, d2, d3⟩ := C03_der_strict r (normalizeS s) hr0 (by omega) l0 hs'
  refine ⟨by simp [generateSignature]; omega, by simp [generateSignature]; omega,
    derEncode r (normalizeS s), rfl, d1, C03_der_roundtrip r _ hr0 (by omega) l0 hs', l2⟩

/-- the length bounds are attained: the shortest and a longest signature -/
example : generateSignature 1 1 0x41 = [0x30, 6, 2, 1, 1, 2, 1, 1, 0x41] := by decide +kernel
example : (generateSignature (CG.Model.Der.n - 1) (CG.Model.Der.n / 2) 0x41).length = 72 := by decide +kernel
example : (derEncode (2 ^ 255) (2 ^ 255)).length = 72 := by decide +kernel
/-- `s = n - 1` is high and becomes `1` -/
example : normalizeS (CG.Model.Der.n - 1) = 1 := by decide +kernel
/-- BIP-66 rejects what the framing never produces: a negative R, a padded R, a wrong length -/
example : strictDerB [0x30, 6, 2, 1, 0x80, 2, 1, 1] = false ∧ strictDerB [0x30, 7, 2, 2, 0, 1, 2, 1, 1] = false ∧
    strictDerB [0x30, 7, 2, 1, 1, 2, 1, 1] = false ∧ strictDerB [0x30, 7, 2, 2, 0, 0x80, 2, 1, 1] = true := by
  decide +kernel

end der

end CG.Props.C03

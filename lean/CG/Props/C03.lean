import CG.Model.TxScript
/-!
# C03 — Spends are authorised only by valid, canonical signatures
Property theorems only.  Model of the per-input script check: `CG.Model.TxScript`.
-/
namespace CG.Props.C03
open CG CG.Model.Interp CG.Model.ScriptNum CG.Model.TxScript

/-- **the locking script always runs** (repaired structure): if validation of an input succeeds
    then the unlocking script ran to completion, and the locking script was executed from its
    first opcode, with a fresh control-flow state, on exactly the stack the unlocking script left,
    ran to completion and left a true top item.  Whatever bytes the unlocking script contains. -/
theorem C03_lock_always_runs {σ : Type} (H : Hashes) (C : Checker σ) (c0 : σ) (unlock lock : Bytes)
    (flags : Nat) (h : validateInput H C c0 unlock lock flags = .ok ()) :
    ∃ r1 r2, coreEval H C c0 unlock flags none none none none = .ok r1 ∧
      coreEval H C r1.chk lock flags none none (some r1.stack) none = .ok r2 ∧
      ∃ t rest, r2.stack = t :: rest ∧ decodeBool t = true := by
  unfold validateInput at h
  cases h1 : coreEval H C c0 unlock flags none none none none with
  | err e => simp [h1] at h
  | panic p => simp [h1] at h
  | ok r1 =>
    simp only [h1] at h
    cases h2 : coreEval H C r1.chk lock flags none none (some r1.stack) none with
    | err e => simp [h2] at h
    | panic p => simp [h2] at h
    | ok r2 =>
      simp only [h2] at h
      refine ⟨r1, r2, rfl, h2, ?_⟩
      obtain ⟨stack, alt, pos, chk⟩ := r2
      cases stack with
      | nil => simp [scriptErr] at h
      | cons t rest =>
        by_cases hb : decodeBool t = true
        · exact ⟨t, rest, rfl, hb⟩
        · simp [hb, scriptErr] at h

/-- a locking script that fails on the stack left by the unlocking script is never accepted -/
theorem C03_lock_verdict_not_ignored {σ : Type} (H : Hashes) (C : Checker σ) (c0 : σ)
    (unlock lock : Bytes) (flags : Nat) (r1 : EvalResult σ) (e : String)
    (h1 : coreEval H C c0 unlock flags none none none none = .ok r1)
    (h2 : coreEval H C r1.chk lock flags none none (some r1.stack) none = .err e) :
    validateInput H C c0 unlock lock flags = .err e := by
  simp [validateInput, h1, h2]

def noHashes : Hashes := ⟨id, id, id, id, id⟩

/-- a checker that rejects every signature (the attacker has none) -/
def rejectAll : Checker Unit :=
  { checkSig := fun _ _ _ _ => (.ok false, ())
    checkLocktime := fun _ _ => .err "ScriptError"
    checkSequence := fun _ _ => .err "ScriptError" }

/-- a P2PKH-shaped locking script (hash left abstract as 20 zero bytes) -/
def p2pkh0 : Bytes := [0x76, 0xa9, 0x14] ++ List.replicate 20 0 ++ [0x88, 0xac]

/-- the structure of the pinned tree (one concatenated program) accepted `OP_1 OP_RETURN` under
    genesis rules without the locking script ever running, with a checker that rejects everything … -/
theorem C03_pinned_bypass_op_return :
    validateInputPinned noHashes rejectAll () [0x51, 0x6a] p2pkh0 0 = .ok () := by decide

/-- … and a push whose length swallows the separator and the whole locking script, under either
    rule set -/
theorem C03_pinned_bypass_swallowing_push :
    validateInputPinned noHashes rejectAll () [0x51, 0x4c, 0x1a] p2pkh0 0 = .ok () ∧
    validateInputPinned noHashes rejectAll () [0x51, 0x4c, 0x1a] p2pkh0 1 = .ok () ∧
    validateInputPinned noHashes rejectAll () [0x1a] p2pkh0 1 = .ok () := by
  refine ⟨?_, ?_, ?_⟩ <;> decide

/-- the repaired structure rejects all three -/
theorem C03_repaired_rejects_bypasses :
    validateInput noHashes rejectAll () [0x51, 0x6a] p2pkh0 0 = .err "ScriptError" ∧
    validateInput noHashes rejectAll () [0x51, 0x4c, 0x1a] p2pkh0 0 = .err "ScriptError" ∧
    validateInput noHashes rejectAll () [0x51, 0x4c, 0x1a] p2pkh0 1 = .err "ScriptError" ∧
    validateInput noHashes rejectAll () [0x1a] p2pkh0 1 = .err "ScriptError" := by
  refine ⟨?_, ?_, ?_, ?_⟩ <;> decide

end CG.Props.C03

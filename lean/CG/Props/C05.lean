import CG.Proofs.WireHeader
/-!
# C05 — P2P wire format: encode/decode round-trip and header consistency

Property theorems only.  Model: `CG.Model.Wire.*` (one codec per Rust `read`/`write`/`size`
triple; `Message::read/read_partial/write` in `Header.lean`); reference layout:
`CG.Spec.WireSpec`; combinator laws: `CG.Proofs.WireCodec`.

For every payload type `T` with codec `c` (`c.wf` is the explicit, decidable in-range predicate):
* `C05_T_dec_enc`      decoding the encoding of an in-range value returns it and consumes everything;
* `C05_T_size_exact`   `size()` is the number of bytes written;
* `C05_T_enc_eq_spec`  the bytes are the reference layout;
* `C05_T_fixpoint`     whatever decodes (canonical or not) re-encodes to bytes that decode to the same
                       value and re-encode to themselves; the decoder consumed a prefix of its input.
Then the same for `Message` with its header, for any hash function `H` in place of SHA-256.
`Message::Other` / `Message::Partial` are not protocol messages and are excluded (`Msg.InRange`).
-/
namespace CG.Props.C05
open CG CG.Model.Wire CG.Spec

/-! ### var_int -/

theorem C05_var_int_dec_enc (v : Nat) (h : varint.wf v) : varint.dec (varint.enc v) = .ok (v, []) :=
  (varint_lawful.toEnd).dec_enc v h

theorem C05_var_int_size_exact (v : Nat) (h : varint.wf v) : (varint.enc v).length = varint.size v :=
  (varint_lawful.toEnd).size_eq v h

theorem C05_var_int_enc_eq_spec (v : Nat) (_h : varint.wf v) : varint.enc v = WireSpec.compactSize v :=
  varint_enc v

theorem C05_var_int_fixpoint (b : Bytes) (v : Nat) (r : Bytes) (h : varint.dec b = .ok (v, r)) :
    varint.wf v ∧ varint.dec (varint.enc v) = .ok (v, []) ∧
    (∀ v' r', varint.dec (varint.enc v) = .ok (v', r') → varint.enc v' = varint.enc v) ∧ ∃ p, b = p ++ r := by
  have hl := varint_lawful.toEnd
  refine ⟨hl.dec_wf b v r h, hl.fixpoint h, ?_, hl.dec_suffix b v r h⟩
  intro v' r' h'
  rw [hl.fixpoint h] at h'
  injection h' with h'
  injection h' with h1 _
  rw [h1]

/-! ### outpoint -/

theorem C05_outpoint_dec_enc (v : OutPoint) (h : outPointC.wf v) : outPointC.dec (outPointC.enc v) = .ok (v, []) :=
  (outPointC_lawful.toEnd).dec_enc v h

theorem C05_outpoint_size_exact (v : OutPoint) (h : outPointC.wf v) : (outPointC.enc v).length = outPointC.size v :=
  (outPointC_lawful.toEnd).size_eq v h

theorem C05_outpoint_enc_eq_spec (v : OutPoint) (_h : outPointC.wf v) : outPointC.enc v = WireSpec.outPoint v :=
  outPoint_enc v

theorem C05_outpoint_fixpoint (b : Bytes) (v : OutPoint) (r : Bytes) (h : outPointC.dec b = .ok (v, r)) :
    outPointC.wf v ∧ outPointC.dec (outPointC.enc v) = .ok (v, []) ∧
    (∀ v' r', outPointC.dec (outPointC.enc v) = .ok (v', r') → outPointC.enc v' = outPointC.enc v) ∧ ∃ p, b = p ++ r := by
  have hl := outPointC_lawful.toEnd
  refine ⟨hl.dec_wf b v r h, hl.fixpoint h, ?_, hl.dec_suffix b v r h⟩
  intro v' r' h'
  rw [hl.fixpoint h] at h'
  injection h' with h'
  injection h' with h1 _
  rw [h1]

/-! ### txin -/

theorem C05_txin_dec_enc (v : TxIn) (h : txInC.wf v) : txInC.dec (txInC.enc v) = .ok (v, []) :=
  (txInC_lawful.toEnd).dec_enc v h

theorem C05_txin_size_exact (v : TxIn) (h : txInC.wf v) : (txInC.enc v).length = txInC.size v :=
  (txInC_lawful.toEnd).size_eq v h

theorem C05_txin_enc_eq_spec (v : TxIn) (_h : txInC.wf v) : txInC.enc v = WireSpec.txIn v :=
  txIn_enc v

theorem C05_txin_fixpoint (b : Bytes) (v : TxIn) (r : Bytes) (h : txInC.dec b = .ok (v, r)) :
    txInC.wf v ∧ txInC.dec (txInC.enc v) = .ok (v, []) ∧
    (∀ v' r', txInC.dec (txInC.enc v) = .ok (v', r') → txInC.enc v' = txInC.enc v) ∧ ∃ p, b = p ++ r := by
  have hl := txInC_lawful.toEnd
  refine ⟨hl.dec_wf b v r h, hl.fixpoint h, ?_, hl.dec_suffix b v r h⟩
  intro v' r' h'
  rw [hl.fixpoint h] at h'
  injection h' with h'
  injection h' with h1 _
  rw [h1]

/-! ### txout -/

theorem C05_txout_dec_enc (v : TxOut) (h : txOutC.wf v) : txOutC.dec (txOutC.enc v) = .ok (v, []) :=
  (txOutC_lawful.toEnd).dec_enc v h

theorem C05_txout_size_exact (v : TxOut) (h : txOutC.wf v) : (txOutC.enc v).length = txOutC.size v :=
  (txOutC_lawful.toEnd).size_eq v h

theorem C05_txout_enc_eq_spec (v : TxOut) (h : txOutC.wf v) : txOutC.enc v = WireSpec.txOut v :=
  txOut_enc v h

theorem C05_txout_fixpoint (b : Bytes) (v : TxOut) (r : Bytes) (h : txOutC.dec b = .ok (v, r)) :
    txOutC.wf v ∧ txOutC.dec (txOutC.enc v) = .ok (v, []) ∧
    (∀ v' r', txOutC.dec (txOutC.enc v) = .ok (v', r') → txOutC.enc v' = txOutC.enc v) ∧ ∃ p, b = p ++ r := by
  have hl := txOutC_lawful.toEnd
  refine ⟨hl.dec_wf b v r h, hl.fixpoint h, ?_, hl.dec_suffix b v r h⟩
  intro v' r' h'
  rw [hl.fixpoint h] at h'
  injection h' with h'
  injection h' with h1 _
  rw [h1]

/-! ### tx -/

theorem C05_tx_dec_enc (v : Tx) (h : txC.wf v) : txC.dec (txC.enc v) = .ok (v, []) :=
  (txC_lawful.toEnd).dec_enc v h

theorem C05_tx_size_exact (v : Tx) (h : txC.wf v) : (txC.enc v).length = txC.size v :=
  (txC_lawful.toEnd).size_eq v h

theorem C05_tx_enc_eq_spec (v : Tx) (h : txC.wf v) : txC.enc v = WireSpec.tx v :=
  tx_enc v h

theorem C05_tx_fixpoint (b : Bytes) (v : Tx) (r : Bytes) (h : txC.dec b = .ok (v, r)) :
    txC.wf v ∧ txC.dec (txC.enc v) = .ok (v, []) ∧
    (∀ v' r', txC.dec (txC.enc v) = .ok (v', r') → txC.enc v' = txC.enc v) ∧ ∃ p, b = p ++ r := by
  have hl := txC_lawful.toEnd
  refine ⟨hl.dec_wf b v r h, hl.fixpoint h, ?_, hl.dec_suffix b v r h⟩
  intro v' r' h'
  rw [hl.fixpoint h] at h'
  injection h' with h'
  injection h' with h1 _
  rw [h1]

/-! ### blockheader -/

theorem C05_blockheader_dec_enc (v : BlockHeader) (h : blockHeaderC.wf v) : blockHeaderC.dec (blockHeaderC.enc v) = .ok (v, []) :=
  (blockHeaderC_lawful.toEnd).dec_enc v h

theorem C05_blockheader_size_exact (v : BlockHeader) (h : blockHeaderC.wf v) : (blockHeaderC.enc v).length = blockHeaderC.size v :=
  (blockHeaderC_lawful.toEnd).size_eq v h

theorem C05_blockheader_enc_eq_spec (v : BlockHeader) (_h : blockHeaderC.wf v) : blockHeaderC.enc v = WireSpec.blockHeader v :=
  blockHeader_enc v

theorem C05_blockheader_fixpoint (b : Bytes) (v : BlockHeader) (r : Bytes) (h : blockHeaderC.dec b = .ok (v, r)) :
    blockHeaderC.wf v ∧ blockHeaderC.dec (blockHeaderC.enc v) = .ok (v, []) ∧
    (∀ v' r', blockHeaderC.dec (blockHeaderC.enc v) = .ok (v', r') → blockHeaderC.enc v' = blockHeaderC.enc v) ∧ ∃ p, b = p ++ r := by
  have hl := blockHeaderC_lawful.toEnd
  refine ⟨hl.dec_wf b v r h, hl.fixpoint h, ?_, hl.dec_suffix b v r h⟩
  intro v' r' h'
  rw [hl.fixpoint h] at h'
  injection h' with h'
  injection h' with h1 _
  rw [h1]

/-! ### invvect -/

theorem C05_invvect_dec_enc (v : InvVect) (h : invVectC.wf v) : invVectC.dec (invVectC.enc v) = .ok (v, []) :=
  (invVectC_lawful.toEnd).dec_enc v h

theorem C05_invvect_size_exact (v : InvVect) (h : invVectC.wf v) : (invVectC.enc v).length = invVectC.size v :=
  (invVectC_lawful.toEnd).size_eq v h

theorem C05_invvect_enc_eq_spec (v : InvVect) (_h : invVectC.wf v) : invVectC.enc v = WireSpec.invVect v :=
  invVect_enc v

theorem C05_invvect_fixpoint (b : Bytes) (v : InvVect) (r : Bytes) (h : invVectC.dec b = .ok (v, r)) :
    invVectC.wf v ∧ invVectC.dec (invVectC.enc v) = .ok (v, []) ∧
    (∀ v' r', invVectC.dec (invVectC.enc v) = .ok (v', r') → invVectC.enc v' = invVectC.enc v) ∧ ∃ p, b = p ++ r := by
  have hl := invVectC_lawful.toEnd
  refine ⟨hl.dec_wf b v r h, hl.fixpoint h, ?_, hl.dec_suffix b v r h⟩
  intro v' r' h'
  rw [hl.fixpoint h] at h'
  injection h' with h'
  injection h' with h1 _
  rw [h1]

/-! ### inv -/

theorem C05_inv_dec_enc (v : Inv) (h : invC.wf v) : invC.dec (invC.enc v) = .ok (v, []) :=
  (invC_lawful.toEnd).dec_enc v h

theorem C05_inv_size_exact (v : Inv) (h : invC.wf v) : (invC.enc v).length = invC.size v :=
  (invC_lawful.toEnd).size_eq v h

theorem C05_inv_enc_eq_spec (v : Inv) (_h : invC.wf v) : invC.enc v = WireSpec.inv v :=
  inv_enc v

theorem C05_inv_fixpoint (b : Bytes) (v : Inv) (r : Bytes) (h : invC.dec b = .ok (v, r)) :
    invC.wf v ∧ invC.dec (invC.enc v) = .ok (v, []) ∧
    (∀ v' r', invC.dec (invC.enc v) = .ok (v', r') → invC.enc v' = invC.enc v) ∧ ∃ p, b = p ++ r := by
  have hl := invC_lawful.toEnd
  refine ⟨hl.dec_wf b v r h, hl.fixpoint h, ?_, hl.dec_suffix b v r h⟩
  intro v' r' h'
  rw [hl.fixpoint h] at h'
  injection h' with h'
  injection h' with h1 _
  rw [h1]

/-! ### blocklocator -/

theorem C05_blocklocator_dec_enc (v : BlockLocator) (h : blockLocatorC.wf v) : blockLocatorC.dec (blockLocatorC.enc v) = .ok (v, []) :=
  (blockLocatorC_lawful.toEnd).dec_enc v h

theorem C05_blocklocator_size_exact (v : BlockLocator) (h : blockLocatorC.wf v) : (blockLocatorC.enc v).length = blockLocatorC.size v :=
  (blockLocatorC_lawful.toEnd).size_eq v h

theorem C05_blocklocator_enc_eq_spec (v : BlockLocator) (_h : blockLocatorC.wf v) : blockLocatorC.enc v = WireSpec.blockLocator v :=
  blockLocator_enc v

theorem C05_blocklocator_fixpoint (b : Bytes) (v : BlockLocator) (r : Bytes) (h : blockLocatorC.dec b = .ok (v, r)) :
    blockLocatorC.wf v ∧ blockLocatorC.dec (blockLocatorC.enc v) = .ok (v, []) ∧
    (∀ v' r', blockLocatorC.dec (blockLocatorC.enc v) = .ok (v', r') → blockLocatorC.enc v' = blockLocatorC.enc v) ∧ ∃ p, b = p ++ r := by
  have hl := blockLocatorC_lawful.toEnd
  refine ⟨hl.dec_wf b v r h, hl.fixpoint h, ?_, hl.dec_suffix b v r h⟩
  intro v' r' h'
  rw [hl.fixpoint h] at h'
  injection h' with h'
  injection h' with h1 _
  rw [h1]

/-! ### ping -/

theorem C05_ping_dec_enc (v : Ping) (h : pingC.wf v) : pingC.dec (pingC.enc v) = .ok (v, []) :=
  (pingC_lawful.toEnd).dec_enc v h

theorem C05_ping_size_exact (v : Ping) (h : pingC.wf v) : (pingC.enc v).length = pingC.size v :=
  (pingC_lawful.toEnd).size_eq v h

theorem C05_ping_enc_eq_spec (v : Ping) (_h : pingC.wf v) : pingC.enc v = WireSpec.ping v :=
  ping_enc v

theorem C05_ping_fixpoint (b : Bytes) (v : Ping) (r : Bytes) (h : pingC.dec b = .ok (v, r)) :
    pingC.wf v ∧ pingC.dec (pingC.enc v) = .ok (v, []) ∧
    (∀ v' r', pingC.dec (pingC.enc v) = .ok (v', r') → pingC.enc v' = pingC.enc v) ∧ ∃ p, b = p ++ r := by
  have hl := pingC_lawful.toEnd
  refine ⟨hl.dec_wf b v r h, hl.fixpoint h, ?_, hl.dec_suffix b v r h⟩
  intro v' r' h'
  rw [hl.fixpoint h] at h'
  injection h' with h'
  injection h' with h1 _
  rw [h1]

/-! ### feefilter -/

theorem C05_feefilter_dec_enc (v : FeeFilter) (h : feeFilterC.wf v) : feeFilterC.dec (feeFilterC.enc v) = .ok (v, []) :=
  (feeFilterC_lawful.toEnd).dec_enc v h

theorem C05_feefilter_size_exact (v : FeeFilter) (h : feeFilterC.wf v) : (feeFilterC.enc v).length = feeFilterC.size v :=
  (feeFilterC_lawful.toEnd).size_eq v h

theorem C05_feefilter_enc_eq_spec (v : FeeFilter) (_h : feeFilterC.wf v) : feeFilterC.enc v = WireSpec.feeFilter v :=
  feeFilter_enc v

theorem C05_feefilter_fixpoint (b : Bytes) (v : FeeFilter) (r : Bytes) (h : feeFilterC.dec b = .ok (v, r)) :
    feeFilterC.wf v ∧ feeFilterC.dec (feeFilterC.enc v) = .ok (v, []) ∧
    (∀ v' r', feeFilterC.dec (feeFilterC.enc v) = .ok (v', r') → feeFilterC.enc v' = feeFilterC.enc v) ∧ ∃ p, b = p ++ r := by
  have hl := feeFilterC_lawful.toEnd
  refine ⟨hl.dec_wf b v r h, hl.fixpoint h, ?_, hl.dec_suffix b v r h⟩
  intro v' r' h'
  rw [hl.fixpoint h] at h'
  injection h' with h'
  injection h' with h1 _
  rw [h1]

/-! ### sendcmpct -/

theorem C05_sendcmpct_dec_enc (v : SendCmpct) (h : sendCmpctC.wf v) : sendCmpctC.dec (sendCmpctC.enc v) = .ok (v, []) :=
  (sendCmpctC_lawful.toEnd).dec_enc v h

theorem C05_sendcmpct_size_exact (v : SendCmpct) (h : sendCmpctC.wf v) : (sendCmpctC.enc v).length = sendCmpctC.size v :=
  (sendCmpctC_lawful.toEnd).size_eq v h

theorem C05_sendcmpct_enc_eq_spec (v : SendCmpct) (_h : sendCmpctC.wf v) : sendCmpctC.enc v = WireSpec.sendCmpct v :=
  sendCmpct_enc v

theorem C05_sendcmpct_fixpoint (b : Bytes) (v : SendCmpct) (r : Bytes) (h : sendCmpctC.dec b = .ok (v, r)) :
    sendCmpctC.wf v ∧ sendCmpctC.dec (sendCmpctC.enc v) = .ok (v, []) ∧
    (∀ v' r', sendCmpctC.dec (sendCmpctC.enc v) = .ok (v', r') → sendCmpctC.enc v' = sendCmpctC.enc v) ∧ ∃ p, b = p ++ r := by
  have hl := sendCmpctC_lawful.toEnd
  refine ⟨hl.dec_wf b v r h, hl.fixpoint h, ?_, hl.dec_suffix b v r h⟩
  intro v' r' h'
  rw [hl.fixpoint h] at h'
  injection h' with h'
  injection h' with h1 _
  rw [h1]

/-! ### nodeaddr -/

theorem C05_nodeaddr_dec_enc (v : NodeAddr) (h : nodeAddrC.wf v) : nodeAddrC.dec (nodeAddrC.enc v) = .ok (v, []) :=
  (nodeAddrC_lawful.toEnd).dec_enc v h

theorem C05_nodeaddr_size_exact (v : NodeAddr) (h : nodeAddrC.wf v) : (nodeAddrC.enc v).length = nodeAddrC.size v :=
  (nodeAddrC_lawful.toEnd).size_eq v h

theorem C05_nodeaddr_enc_eq_spec (v : NodeAddr) (_h : nodeAddrC.wf v) : nodeAddrC.enc v = WireSpec.nodeAddr v :=
  nodeAddr_enc v

theorem C05_nodeaddr_fixpoint (b : Bytes) (v : NodeAddr) (r : Bytes) (h : nodeAddrC.dec b = .ok (v, r)) :
    nodeAddrC.wf v ∧ nodeAddrC.dec (nodeAddrC.enc v) = .ok (v, []) ∧
    (∀ v' r', nodeAddrC.dec (nodeAddrC.enc v) = .ok (v', r') → nodeAddrC.enc v' = nodeAddrC.enc v) ∧ ∃ p, b = p ++ r := by
  have hl := nodeAddrC_lawful.toEnd
  refine ⟨hl.dec_wf b v r h, hl.fixpoint h, ?_, hl.dec_suffix b v r h⟩
  intro v' r' h'
  rw [hl.fixpoint h] at h'
  injection h' with h'
  injection h' with h1 _
  rw [h1]

/-! ### nodeaddrex -/

theorem C05_nodeaddrex_dec_enc (v : NodeAddrEx) (h : nodeAddrExC.wf v) : nodeAddrExC.dec (nodeAddrExC.enc v) = .ok (v, []) :=
  (nodeAddrExC_lawful.toEnd).dec_enc v h

theorem C05_nodeaddrex_size_exact (v : NodeAddrEx) (h : nodeAddrExC.wf v) : (nodeAddrExC.enc v).length = nodeAddrExC.size v :=
  (nodeAddrExC_lawful.toEnd).size_eq v h

theorem C05_nodeaddrex_enc_eq_spec (v : NodeAddrEx) (_h : nodeAddrExC.wf v) : nodeAddrExC.enc v = WireSpec.nodeAddrEx v :=
  nodeAddrEx_enc v

theorem C05_nodeaddrex_fixpoint (b : Bytes) (v : NodeAddrEx) (r : Bytes) (h : nodeAddrExC.dec b = .ok (v, r)) :
    nodeAddrExC.wf v ∧ nodeAddrExC.dec (nodeAddrExC.enc v) = .ok (v, []) ∧
    (∀ v' r', nodeAddrExC.dec (nodeAddrExC.enc v) = .ok (v', r') → nodeAddrExC.enc v' = nodeAddrExC.enc v) ∧ ∃ p, b = p ++ r := by
  have hl := nodeAddrExC_lawful.toEnd
  refine ⟨hl.dec_wf b v r h, hl.fixpoint h, ?_, hl.dec_suffix b v r h⟩
  intro v' r' h'
  rw [hl.fixpoint h] at h'
  injection h' with h'
  injection h' with h1 _
  rw [h1]

/-! ### version -/

theorem C05_version_dec_enc (v : Version) (h : versionC.wf v) : versionC.dec (versionC.enc v) = .ok (v, []) :=
  (versionC_lawfulEnd).dec_enc v h

theorem C05_version_size_exact (v : Version) (h : versionC.wf v) : (versionC.enc v).length = versionC.size v :=
  (versionC_lawfulEnd).size_eq v h

theorem C05_version_enc_eq_spec (v : Version) (h : versionC.wf v) : versionC.enc v = WireSpec.version v :=
  version_enc v h

theorem C05_version_fixpoint (b : Bytes) (v : Version) (r : Bytes) (h : versionC.dec b = .ok (v, r)) :
    versionC.wf v ∧ versionC.dec (versionC.enc v) = .ok (v, []) ∧
    (∀ v' r', versionC.dec (versionC.enc v) = .ok (v', r') → versionC.enc v' = versionC.enc v) ∧ ∃ p, b = p ++ r := by
  have hl := versionC_lawfulEnd
  refine ⟨hl.dec_wf b v r h, hl.fixpoint h, ?_, hl.dec_suffix b v r h⟩
  intro v' r' h'
  rw [hl.fixpoint h] at h'
  injection h' with h'
  injection h' with h1 _
  rw [h1]

/-! ### addr -/

theorem C05_addr_dec_enc (v : Addr) (h : addrC.wf v) : addrC.dec (addrC.enc v) = .ok (v, []) :=
  (addrC_lawful.toEnd).dec_enc v h

theorem C05_addr_size_exact (v : Addr) (h : addrC.wf v) : (addrC.enc v).length = addrC.size v :=
  (addrC_lawful.toEnd).size_eq v h

theorem C05_addr_enc_eq_spec (v : Addr) (_h : addrC.wf v) : addrC.enc v = WireSpec.addr v :=
  addr_enc v

theorem C05_addr_fixpoint (b : Bytes) (v : Addr) (r : Bytes) (h : addrC.dec b = .ok (v, r)) :
    addrC.wf v ∧ addrC.dec (addrC.enc v) = .ok (v, []) ∧
    (∀ v' r', addrC.dec (addrC.enc v) = .ok (v', r') → addrC.enc v' = addrC.enc v) ∧ ∃ p, b = p ++ r := by
  have hl := addrC_lawful.toEnd
  refine ⟨hl.dec_wf b v r h, hl.fixpoint h, ?_, hl.dec_suffix b v r h⟩
  intro v' r' h'
  rw [hl.fixpoint h] at h'
  injection h' with h'
  injection h' with h1 _
  rw [h1]

/-! ### headers -/

theorem C05_headers_dec_enc (v : Headers) (h : headersC.wf v) : headersC.dec (headersC.enc v) = .ok (v, []) :=
  (headersC_lawful.toEnd).dec_enc v h

theorem C05_headers_size_exact (v : Headers) (h : headersC.wf v) : (headersC.enc v).length = headersC.size v :=
  (headersC_lawful.toEnd).size_eq v h

theorem C05_headers_enc_eq_spec (v : Headers) (_h : headersC.wf v) : headersC.enc v = WireSpec.headers v :=
  headers_enc v

theorem C05_headers_fixpoint (b : Bytes) (v : Headers) (r : Bytes) (h : headersC.dec b = .ok (v, r)) :
    headersC.wf v ∧ headersC.dec (headersC.enc v) = .ok (v, []) ∧
    (∀ v' r', headersC.dec (headersC.enc v) = .ok (v', r') → headersC.enc v' = headersC.enc v) ∧ ∃ p, b = p ++ r := by
  have hl := headersC_lawful.toEnd
  refine ⟨hl.dec_wf b v r h, hl.fixpoint h, ?_, hl.dec_suffix b v r h⟩
  intro v' r' h'
  rw [hl.fixpoint h] at h'
  injection h' with h'
  injection h' with h1 _
  rw [h1]

/-! ### block -/

theorem C05_block_dec_enc (v : Block) (h : blockC.wf v) : blockC.dec (blockC.enc v) = .ok (v, []) :=
  (blockC_lawful.toEnd).dec_enc v h

theorem C05_block_size_exact (v : Block) (h : blockC.wf v) : (blockC.enc v).length = blockC.size v :=
  (blockC_lawful.toEnd).size_eq v h

theorem C05_block_enc_eq_spec (v : Block) (h : blockC.wf v) : blockC.enc v = WireSpec.block v :=
  block_enc v h

theorem C05_block_fixpoint (b : Bytes) (v : Block) (r : Bytes) (h : blockC.dec b = .ok (v, r)) :
    blockC.wf v ∧ blockC.dec (blockC.enc v) = .ok (v, []) ∧
    (∀ v' r', blockC.dec (blockC.enc v) = .ok (v', r') → blockC.enc v' = blockC.enc v) ∧ ∃ p, b = p ++ r := by
  have hl := blockC_lawful.toEnd
  refine ⟨hl.dec_wf b v r h, hl.fixpoint h, ?_, hl.dec_suffix b v r h⟩
  intro v' r' h'
  rw [hl.fixpoint h] at h'
  injection h' with h'
  injection h' with h1 _
  rw [h1]

/-! ### merkleblock -/

theorem C05_merkleblock_dec_enc (v : MerkleBlock) (h : merkleBlockC.wf v) : merkleBlockC.dec (merkleBlockC.enc v) = .ok (v, []) :=
  (merkleBlockC_lawful.toEnd).dec_enc v h

theorem C05_merkleblock_size_exact (v : MerkleBlock) (h : merkleBlockC.wf v) : (merkleBlockC.enc v).length = merkleBlockC.size v :=
  (merkleBlockC_lawful.toEnd).size_eq v h

theorem C05_merkleblock_enc_eq_spec (v : MerkleBlock) (_h : merkleBlockC.wf v) : merkleBlockC.enc v = WireSpec.merkleBlock v :=
  merkleBlock_enc v

theorem C05_merkleblock_fixpoint (b : Bytes) (v : MerkleBlock) (r : Bytes) (h : merkleBlockC.dec b = .ok (v, r)) :
    merkleBlockC.wf v ∧ merkleBlockC.dec (merkleBlockC.enc v) = .ok (v, []) ∧
    (∀ v' r', merkleBlockC.dec (merkleBlockC.enc v) = .ok (v', r') → merkleBlockC.enc v' = merkleBlockC.enc v) ∧ ∃ p, b = p ++ r := by
  have hl := merkleBlockC_lawful.toEnd
  refine ⟨hl.dec_wf b v r h, hl.fixpoint h, ?_, hl.dec_suffix b v r h⟩
  intro v' r' h'
  rw [hl.fixpoint h] at h'
  injection h' with h'
  injection h' with h1 _
  rw [h1]

/-! ### filterload -/

theorem C05_filterload_dec_enc (v : FilterLoad) (h : filterLoadC.wf v) : filterLoadC.dec (filterLoadC.enc v) = .ok (v, []) :=
  (filterLoadC_lawful.toEnd).dec_enc v h

theorem C05_filterload_size_exact (v : FilterLoad) (h : filterLoadC.wf v) : (filterLoadC.enc v).length = filterLoadC.size v :=
  (filterLoadC_lawful.toEnd).size_eq v h

theorem C05_filterload_enc_eq_spec (v : FilterLoad) (_h : filterLoadC.wf v) : filterLoadC.enc v = WireSpec.filterLoad v :=
  filterLoad_enc v

theorem C05_filterload_fixpoint (b : Bytes) (v : FilterLoad) (r : Bytes) (h : filterLoadC.dec b = .ok (v, r)) :
    filterLoadC.wf v ∧ filterLoadC.dec (filterLoadC.enc v) = .ok (v, []) ∧
    (∀ v' r', filterLoadC.dec (filterLoadC.enc v) = .ok (v', r') → filterLoadC.enc v' = filterLoadC.enc v) ∧ ∃ p, b = p ++ r := by
  have hl := filterLoadC_lawful.toEnd
  refine ⟨hl.dec_wf b v r h, hl.fixpoint h, ?_, hl.dec_suffix b v r h⟩
  intro v' r' h'
  rw [hl.fixpoint h] at h'
  injection h' with h'
  injection h' with h1 _
  rw [h1]

/-! ### filteradd -/

theorem C05_filteradd_dec_enc (v : FilterAdd) (h : filterAddC.wf v) : filterAddC.dec (filterAddC.enc v) = .ok (v, []) :=
  (filterAddC_lawful.toEnd).dec_enc v h

theorem C05_filteradd_size_exact (v : FilterAdd) (h : filterAddC.wf v) : (filterAddC.enc v).length = filterAddC.size v :=
  (filterAddC_lawful.toEnd).size_eq v h

theorem C05_filteradd_enc_eq_spec (v : FilterAdd) (_h : filterAddC.wf v) : filterAddC.enc v = WireSpec.filterAdd v :=
  filterAdd_enc v

theorem C05_filteradd_fixpoint (b : Bytes) (v : FilterAdd) (r : Bytes) (h : filterAddC.dec b = .ok (v, r)) :
    filterAddC.wf v ∧ filterAddC.dec (filterAddC.enc v) = .ok (v, []) ∧
    (∀ v' r', filterAddC.dec (filterAddC.enc v) = .ok (v', r') → filterAddC.enc v' = filterAddC.enc v) ∧ ∃ p, b = p ++ r := by
  have hl := filterAddC_lawful.toEnd
  refine ⟨hl.dec_wf b v r h, hl.fixpoint h, ?_, hl.dec_suffix b v r h⟩
  intro v' r' h'
  rw [hl.fixpoint h] at h'
  injection h' with h'
  injection h' with h1 _
  rw [h1]

/-! ### reject -/

theorem C05_reject_dec_enc (v : Reject) (h : rejectC.wf v) : rejectC.dec (rejectC.enc v) = .ok (v, []) :=
  (rejectC_lawful.toEnd).dec_enc v h

theorem C05_reject_size_exact (v : Reject) (h : rejectC.wf v) : (rejectC.enc v).length = rejectC.size v :=
  (rejectC_lawful.toEnd).size_eq v h

theorem C05_reject_enc_eq_spec (v : Reject) (_h : rejectC.wf v) : rejectC.enc v = WireSpec.reject v :=
  reject_enc v

theorem C05_reject_fixpoint (b : Bytes) (v : Reject) (r : Bytes) (h : rejectC.dec b = .ok (v, r)) :
    rejectC.wf v ∧ rejectC.dec (rejectC.enc v) = .ok (v, []) ∧
    (∀ v' r', rejectC.dec (rejectC.enc v) = .ok (v', r') → rejectC.enc v' = rejectC.enc v) ∧ ∃ p, b = p ++ r := by
  have hl := rejectC_lawful.toEnd
  refine ⟨hl.dec_wf b v r h, hl.fixpoint h, ?_, hl.dec_suffix b v r h⟩
  intro v' r' h'
  rw [hl.fixpoint h] at h'
  injection h' with h'
  injection h' with h1 _
  rw [h1]

/-! ### protoconf -/

theorem C05_protoconf_dec_enc (v : Protoconf) (h : protoconfC.wf v) : protoconfC.dec (protoconfC.enc v) = .ok (v, []) :=
  (protoconfC_lawful.toEnd).dec_enc v h

theorem C05_protoconf_size_exact (v : Protoconf) (h : protoconfC.wf v) : (protoconfC.enc v).length = protoconfC.size v :=
  (protoconfC_lawful.toEnd).size_eq v h

theorem C05_protoconf_enc_eq_spec (v : Protoconf) (h : protoconfC.wf v) : protoconfC.enc v = WireSpec.protoconf v :=
  protoconf_enc v h

theorem C05_protoconf_fixpoint (b : Bytes) (v : Protoconf) (r : Bytes) (h : protoconfC.dec b = .ok (v, r)) :
    protoconfC.wf v ∧ protoconfC.dec (protoconfC.enc v) = .ok (v, []) ∧
    (∀ v' r', protoconfC.dec (protoconfC.enc v) = .ok (v', r') → protoconfC.enc v' = protoconfC.enc v) ∧ ∃ p, b = p ++ r := by
  have hl := protoconfC_lawful.toEnd
  refine ⟨hl.dec_wf b v r h, hl.fixpoint h, ?_, hl.dec_suffix b v r h⟩
  intro v' r' h'
  rw [hl.fixpoint h] at h'
  injection h' with h'
  injection h' with h1 _
  rw [h1]

/-! ### authch -/

theorem C05_authch_dec_enc (v : Authch) (h : authchC.wf v) : authchC.dec (authchC.enc v) = .ok (v, []) :=
  (authchC_lawful.toEnd).dec_enc v h

theorem C05_authch_size_exact (v : Authch) (h : authchC.wf v) : (authchC.enc v).length = authchC.size v :=
  (authchC_lawful.toEnd).size_eq v h

theorem C05_authch_enc_eq_spec (v : Authch) (h : authchC.wf v) : authchC.enc v = WireSpec.authch v :=
  authch_enc v h

theorem C05_authch_fixpoint (b : Bytes) (v : Authch) (r : Bytes) (h : authchC.dec b = .ok (v, r)) :
    authchC.wf v ∧ authchC.dec (authchC.enc v) = .ok (v, []) ∧
    (∀ v' r', authchC.dec (authchC.enc v) = .ok (v', r') → authchC.enc v' = authchC.enc v) ∧ ∃ p, b = p ++ r := by
  have hl := authchC_lawful.toEnd
  refine ⟨hl.dec_wf b v r h, hl.fixpoint h, ?_, hl.dec_suffix b v r h⟩
  intro v' r' h'
  rw [hl.fixpoint h] at h'
  injection h' with h'
  injection h' with h1 _
  rw [h1]

/-! ### createstrm -/

theorem C05_createstrm_dec_enc (v : Createstrm) (h : createstrmC.wf v) : createstrmC.dec (createstrmC.enc v) = .ok (v, []) :=
  (createstrmC_lawfulEnd).dec_enc v h

theorem C05_createstrm_size_exact (v : Createstrm) (h : createstrmC.wf v) : (createstrmC.enc v).length = createstrmC.size v :=
  (createstrmC_lawfulEnd).size_eq v h

theorem C05_createstrm_enc_eq_spec (v : Createstrm) (_h : createstrmC.wf v) : createstrmC.enc v = WireSpec.createstrm v :=
  createstrm_enc v

theorem C05_createstrm_fixpoint (b : Bytes) (v : Createstrm) (r : Bytes) (h : createstrmC.dec b = .ok (v, r)) :
    createstrmC.wf v ∧ createstrmC.dec (createstrmC.enc v) = .ok (v, []) ∧
    (∀ v' r', createstrmC.dec (createstrmC.enc v) = .ok (v', r') → createstrmC.enc v' = createstrmC.enc v) ∧ ∃ p, b = p ++ r := by
  have hl := createstrmC_lawfulEnd
  refine ⟨hl.dec_wf b v r h, hl.fixpoint h, ?_, hl.dec_suffix b v r h⟩
  intro v' r' h'
  rw [hl.fixpoint h] at h'
  injection h' with h'
  injection h' with h1 _
  rw [h1]

/-! ### streamack -/

theorem C05_streamack_dec_enc (v : Streamack) (h : streamackC.wf v) : streamackC.dec (streamackC.enc v) = .ok (v, []) :=
  (streamackC_lawful.toEnd).dec_enc v h

theorem C05_streamack_size_exact (v : Streamack) (h : streamackC.wf v) : (streamackC.enc v).length = streamackC.size v :=
  (streamackC_lawful.toEnd).size_eq v h

theorem C05_streamack_enc_eq_spec (v : Streamack) (_h : streamackC.wf v) : streamackC.enc v = WireSpec.streamack v :=
  streamack_enc v

theorem C05_streamack_fixpoint (b : Bytes) (v : Streamack) (r : Bytes) (h : streamackC.dec b = .ok (v, r)) :
    streamackC.wf v ∧ streamackC.dec (streamackC.enc v) = .ok (v, []) ∧
    (∀ v' r', streamackC.dec (streamackC.enc v) = .ok (v', r') → streamackC.enc v' = streamackC.enc v) ∧ ∃ p, b = p ++ r := by
  have hl := streamackC_lawful.toEnd
  refine ⟨hl.dec_wf b v r h, hl.fixpoint h, ?_, hl.dec_suffix b v r h⟩
  intro v' r' h'
  rw [hl.fixpoint h] at h'
  injection h' with h'
  injection h' with h1 _
  rw [h1]

/-! ### cmpctblock -/

theorem C05_cmpctblock_dec_enc (v : Cmpctblock) (h : cmpctblockC.wf v) : cmpctblockC.dec (cmpctblockC.enc v) = .ok (v, []) :=
  (cmpctblockC_lawful.toEnd).dec_enc v h

theorem C05_cmpctblock_size_exact (v : Cmpctblock) (h : cmpctblockC.wf v) : (cmpctblockC.enc v).length = cmpctblockC.size v :=
  (cmpctblockC_lawful.toEnd).size_eq v h

theorem C05_cmpctblock_enc_eq_spec (v : Cmpctblock) (h : cmpctblockC.wf v) : cmpctblockC.enc v = WireSpec.cmpctblock v :=
  cmpctblock_enc v h

theorem C05_cmpctblock_fixpoint (b : Bytes) (v : Cmpctblock) (r : Bytes) (h : cmpctblockC.dec b = .ok (v, r)) :
    cmpctblockC.wf v ∧ cmpctblockC.dec (cmpctblockC.enc v) = .ok (v, []) ∧
    (∀ v' r', cmpctblockC.dec (cmpctblockC.enc v) = .ok (v', r') → cmpctblockC.enc v' = cmpctblockC.enc v) ∧ ∃ p, b = p ++ r := by
  have hl := cmpctblockC_lawful.toEnd
  refine ⟨hl.dec_wf b v r h, hl.fixpoint h, ?_, hl.dec_suffix b v r h⟩
  intro v' r' h'
  rw [hl.fixpoint h] at h'
  injection h' with h'
  injection h' with h1 _
  rw [h1]

/-! ### getblocktxn -/

theorem C05_getblocktxn_dec_enc (v : Getblocktxn) (h : getblocktxnC.wf v) : getblocktxnC.dec (getblocktxnC.enc v) = .ok (v, []) :=
  (getblocktxnC_lawful.toEnd).dec_enc v h

theorem C05_getblocktxn_size_exact (v : Getblocktxn) (h : getblocktxnC.wf v) : (getblocktxnC.enc v).length = getblocktxnC.size v :=
  (getblocktxnC_lawful.toEnd).size_eq v h

theorem C05_getblocktxn_enc_eq_spec (v : Getblocktxn) (_h : getblocktxnC.wf v) : getblocktxnC.enc v = WireSpec.getblocktxn v :=
  getblocktxn_enc v

theorem C05_getblocktxn_fixpoint (b : Bytes) (v : Getblocktxn) (r : Bytes) (h : getblocktxnC.dec b = .ok (v, r)) :
    getblocktxnC.wf v ∧ getblocktxnC.dec (getblocktxnC.enc v) = .ok (v, []) ∧
    (∀ v' r', getblocktxnC.dec (getblocktxnC.enc v) = .ok (v', r') → getblocktxnC.enc v' = getblocktxnC.enc v) ∧ ∃ p, b = p ++ r := by
  have hl := getblocktxnC_lawful.toEnd
  refine ⟨hl.dec_wf b v r h, hl.fixpoint h, ?_, hl.dec_suffix b v r h⟩
  intro v' r' h'
  rw [hl.fixpoint h] at h'
  injection h' with h'
  injection h' with h1 _
  rw [h1]

/-! ### blocktxn -/

theorem C05_blocktxn_dec_enc (v : Blocktxn) (h : blocktxnC.wf v) : blocktxnC.dec (blocktxnC.enc v) = .ok (v, []) :=
  (blocktxnC_lawful.toEnd).dec_enc v h

theorem C05_blocktxn_size_exact (v : Blocktxn) (h : blocktxnC.wf v) : (blocktxnC.enc v).length = blocktxnC.size v :=
  (blocktxnC_lawful.toEnd).size_eq v h

theorem C05_blocktxn_enc_eq_spec (v : Blocktxn) (h : blocktxnC.wf v) : blocktxnC.enc v = WireSpec.blocktxn v :=
  blocktxn_enc v h

theorem C05_blocktxn_fixpoint (b : Bytes) (v : Blocktxn) (r : Bytes) (h : blocktxnC.dec b = .ok (v, r)) :
    blocktxnC.wf v ∧ blocktxnC.dec (blocktxnC.enc v) = .ok (v, []) ∧
    (∀ v' r', blocktxnC.dec (blocktxnC.enc v) = .ok (v', r') → blocktxnC.enc v' = blocktxnC.enc v) ∧ ∃ p, b = p ++ r := by
  have hl := blocktxnC_lawful.toEnd
  refine ⟨hl.dec_wf b v r h, hl.fixpoint h, ?_, hl.dec_suffix b v r h⟩
  intro v' r' h'
  rw [hl.fixpoint h] at h'
  injection h' with h'
  injection h' with h1 _
  rw [h1]

/-! ### addrv2 -/

theorem C05_addrv2_dec_enc (v : AddrV2) (h : addrV2C.wf v) : addrV2C.dec (addrV2C.enc v) = .ok (v, []) :=
  (addrV2C_lawful.toEnd).dec_enc v h

theorem C05_addrv2_size_exact (v : AddrV2) (h : addrV2C.wf v) : (addrV2C.enc v).length = addrV2C.size v :=
  (addrV2C_lawful.toEnd).size_eq v h

theorem C05_addrv2_enc_eq_spec (v : AddrV2) (h : addrV2C.wf v) : addrV2C.enc v = WireSpec.addrV2 v :=
  addrV2_enc v h

theorem C05_addrv2_fixpoint (b : Bytes) (v : AddrV2) (r : Bytes) (h : addrV2C.dec b = .ok (v, r)) :
    addrV2C.wf v ∧ addrV2C.dec (addrV2C.enc v) = .ok (v, []) ∧
    (∀ v' r', addrV2C.dec (addrV2C.enc v) = .ok (v', r') → addrV2C.enc v' = addrV2C.enc v) ∧ ∃ p, b = p ++ r := by
  have hl := addrV2C_lawful.toEnd
  refine ⟨hl.dec_wf b v r h, hl.fixpoint h, ?_, hl.dec_suffix b v r h⟩
  intro v' r' h'
  rw [hl.fixpoint h] at h'
  injection h' with h'
  injection h' with h1 _
  rw [h1]
/-! ### var_int: the size classes and non-canonical inputs -/

/-- `var_int::size` is 1, 3, 5 or 9 with the class boundaries at 252/253, 65535/65536, 2³²−1/2³² -/
theorem C05_var_int_size_classes (n : Nat) :
    varint.size n = if n ≤ 252 then 1 else if n ≤ 65535 then 3 else if n ≤ 4294967295 then 5 else 9 :=
  varint_size_classes n

/-- a non-minimal encoding decodes to the same number as the minimal one and re-encodes minimally -/
example : varint.dec [0xfd, 0x05, 0x00] = .ok (5, []) ∧ varint.enc 5 = [0x05] := by decide
example : varint.dec [0xff, 0xfc, 0, 0, 0, 0, 0, 0, 0, 0x77] = .ok (252, [0x77]) := by decide

/-! ### in-range predicates, spelled out for the transaction family -/

theorem C05_var_int_inrange_iff (n : Nat) : varint.wf n ↔ n < 2 ^ 64 := Iff.rfl

theorem C05_outpoint_inrange_iff (o : OutPoint) :
    outPointC.wf o ↔ o.hash.length = 32 ∧ o.index < 2 ^ 32 := Iff.rfl

theorem C05_txin_inrange_iff (t : TxIn) :
    txInC.wf t ↔ (t.prevOutput.hash.length = 32 ∧ t.prevOutput.index < 2 ^ 32) ∧
      (t.unlockScript.length < 2 ^ 64 ∧ t.unlockScript.length = t.unlockScript.length) ∧
      t.sequence < 2 ^ 32 := Iff.rfl

theorem C05_txout_inrange_iff (t : TxOut) :
    txOutC.wf t ↔ (-(2 ^ 63 : Int) ≤ t.satoshis ∧ t.satoshis < 2 ^ 63) ∧
      (t.lockScript.length < 2 ^ 64 ∧ t.lockScript.length = t.lockScript.length) := by
  show ((-((256 ^ 8 : Nat) : Int) ≤ 2 * t.satoshis ∧ 2 * t.satoshis < ((256 ^ 8 : Nat) : Int)) ∧ _) ↔ _
  have e : ((256 ^ 8 : Nat) : Int) = 18446744073709551616 := by decide
  have e2 : (2 : Int) ^ 63 = 9223372036854775808 := by decide
  rw [e, e2]
  constructor
  · rintro ⟨⟨h1, h2⟩, h3⟩
    exact ⟨⟨by omega, by omega⟩, h3⟩
  · rintro ⟨⟨h1, h2⟩, h3⟩
    exact ⟨⟨by omega, by omega⟩, h3⟩

theorem C05_tx_inrange_iff (t : Tx) :
    txC.wf t ↔ t.version < 2 ^ 32 ∧
      (t.inputs.length < 2 ^ 64 ∧ t.inputs.length = t.inputs.length ∧ ∀ i ∈ t.inputs, txInC.wf i) ∧
      (t.outputs.length < 2 ^ 64 ∧ t.outputs.length = t.outputs.length ∧ ∀ o ∈ t.outputs, txOutC.wf o) ∧
      t.lockTime < 2 ^ 32 := Iff.rfl

theorem C05_blockheader_inrange_iff (h : BlockHeader) :
    blockHeaderC.wf h ↔ h.version < 2 ^ 32 ∧ h.prevHash.length = 32 ∧ h.merkleRoot.length = 32 ∧
      h.timestamp < 2 ^ 32 ∧ h.bits < 2 ^ 32 ∧ h.nonce < 2 ^ 32 := Iff.rfl

/-- Authch is in range only when its explicit length field equals the message length -/
theorem C05_authch_inrange_length (a : Authch) (h : authchC.wf a) : a.message.length = a.messageLength :=
  h.2.2

/-- Protoconf is in range only when the stream policies are present exactly for `version > 1` -/
theorem C05_protoconf_inrange_policies (p : Protoconf) (h : protoconfC.wf p) :
    (p.version > 1 ↔ p.streamPolicies.isSome) := by
  obtain ⟨_, _, hp⟩ := h
  cases p with
  | mk ver mx pol =>
    simp only at hp ⊢
    by_cases hv : ver > 1
    · simp only [optionC, hv, decide_true, if_true] at hp
      obtain ⟨s, hs, _⟩ := optWf_some hp
      have hs : pol = some s := hs
      simp [hv, hs]
    · simp only [optionC, hv, decide_false, Bool.false_eq_true, if_false] at hp
      have hp : pol = none := hp
      simp [hv, hp]

/-- Reject carries 32 data bytes exactly when the rejected message is "block" or "tx" -/
theorem C05_reject_inrange_data (r : Reject) (h : rejectC.wf r) :
    r.data.length = if isBlockOrTx r.message then 32 else 0 := h.2.2.2

/-- the `validate()` that `Message::read` runs on a decoded `cmpctblock` never panics: amounts and
    the running total are checked inside the loop, so the `i64` sum cannot overflow -/
theorem C05_cmpctblock_validate_no_panic (c : Cmpctblock) (s : String) :
    cmpctblockValidate c ≠ .panic s := by
  have hsum : ∀ (l : List TxOut) (acc : Int), acc ≤ (Generated.MAX_SATOSHIS : Int) →
      ∀ s, sumOutputs l acc ≠ .panic s := by
    intro l
    induction l with
    | nil => intro acc _ s h; simp [sumOutputs] at h
    | cons o os ih =>
      intro acc hacc s
      simp only [sumOutputs]
      have hM : (Generated.MAX_SATOSHIS : Int) = 2100000000000000 := by decide
      have hI : I64_MAX = 9223372036854775807 := rfl
      split
      · simp
      · split
        · simp
        · split
          · rename_i h1 h2 h3
            omega
          · split
            · simp
            · rename_i h1 h2 h3 h4
              exact ih _ (by omega) s
  have hp : ∀ p : PrefilledTx, ∀ s, prefilledValidate p ≠ .panic s := by
    intro p s
    unfold prefilledValidate badData
    split
    · simp
    · split
      · simp
      · cases h : sumOutputs p.tx.outputs 0 with
        | ok a => simp
        | err e => simp
        | panic t => exact absurd h (hsum _ 0 (by decide) t)
  unfold cmpctblockValidate
  generalize c.prefilledtxn = l
  induction l with
  | nil => simp [allValidate]
  | cons p ps ih =>
    simp only [allValidate]
    cases h : prefilledValidate p with
    | ok a => simpa using ih
    | err e => simp
    | panic t => exact absurd h (hp p t)

/-! ### satisfiability of the hypotheses -/

def sampleTx : Tx :=
  { version := 2,
    inputs := [{ prevOutput := { hash := List.replicate 32 7, index := 4294967295 },
                 unlockScript := [0x51, 0x52], sequence := 0 }],
    outputs := [{ satoshis := 5000000000, lockScript := [0x6a] }, { satoshis := -1, lockScript := [] }],
    lockTime := 0 }

example : txC.wf sampleTx := by decide
example : txC.dec (txC.enc sampleTx) = .ok (sampleTx, []) := C05_tx_dec_enc sampleTx (by decide)
example : varint.wf 65536 := by decide
example : pingC.wf ⟨18446744073709551615⟩ := by decide
example : authchC.wf ⟨1, 3, [1, 2, 3]⟩ := by decide
example : ¬ authchC.wf ⟨1, 5, [1, 2, 3]⟩ := by decide
example : protoconfC.wf ⟨2, 2000000, some [0x44]⟩ := by decide
example : ¬ protoconfC.wf ⟨1, 2000000, some [0x44]⟩ := by decide
example : streamackC.wf ⟨[1, 2, 3], 1⟩ := by decide
example : getblocktxnC.wf ⟨List.replicate 32 0, [0, 253, 65536]⟩ := by decide

/-! ### `Message` with its header -/

/-- **decode ∘ encode** for messages: a written in-range message of any kind, under any network
    magic, followed by anything, is read back as the same message and the reader stops exactly at
    the end of the payload.  `H` is any function with 32-byte output (SHA-256 in the code). -/
theorem C05_message_dec_enc (H : Bytes → Bytes) (hH : ∀ x, (H x).length = 32) (magic : Bytes)
    (hm : magic.length = 4) (m : Msg) (hr : Msg.InRange m) (bytes : Bytes)
    (hw : writeMessage H magic m = some bytes) (r : Bytes) :
    readMessage H magic (bytes ++ r) = .ok (m, r) :=
  readMessage_writeMessage H hH magic hm (by decide) m hr bytes hw r

/-- every in-range message can be written (`write` refuses only `Other`/`Partial`) -/
theorem C05_message_write_total (H : Bytes → Bytes) (magic : Bytes) (m : Msg) (hr : Msg.InRange m) :
    ∃ bytes, writeMessage H magic m = some bytes := by
  unfold Msg.InRange at hr
  unfold writeMessage
  cases he : entryOf m with
  | none => simp [he] at hr
  | some e =>
    cases hb : e.body with
    | none => simp only [hb]; exact ⟨_, rfl⟩
    | some c => simp only [hb]; exact ⟨_, rfl⟩

/-- **layout**: the written bytes are the reference framing of the reference payload. -/
theorem C05_message_enc_eq_spec (H : Bytes → Bytes) (hH0 : (H (H [])).take 4 = NO_CHECKSUM) (magic : Bytes)
    (m : Msg) (hr : Msg.InRange m) : writeMessage H magic m = WireSpec.message H magic m :=
  writeMessage_eq_spec H hH0 magic m hr

/-- the 12 command bytes of every protocol message are its NUL-padded name -/
theorem C05_command_is_padded_name (m : Msg) (name : String) (pl : Bytes)
    (h : WireSpec.commandAndPayload m = some (name, pl)) : (WireSpec.commandBytes name).length = 12 := by
  cases m <;> simp only [WireSpec.commandAndPayload, Option.some.injEq, Prod.mk.injEq, reduceCtorEq] at h <;>
    obtain ⟨h1, _⟩ := h <;> subst h1 <;> decide

/-- **header consistency**: a written message is `magic ‖ command ‖ length ‖ checksum ‖ payload`
    where the command is the 12-byte NUL-padded name, the length field is the number of payload
    bytes written, and the checksum is the first four bytes of `H (H payload)` — for any `H`
    (for payload-less commands the constant `NO_CHECKSUM` must be that value for the empty string,
    hypothesis `hH0`, checked against SHA-256 by the differential run). -/
theorem C05_header_consistent (H : Bytes → Bytes) (hH0 : (H (H [])).take 4 = NO_CHECKSUM) (magic : Bytes)
    (m : Msg) (hr : Msg.InRange m) (bytes : Bytes) (hw : writeMessage H magic m = some bytes) :
    ∃ name payload, WireSpec.commandAndPayload m = some (name, payload) ∧
      (WireSpec.commandBytes name).length = 12 ∧
      bytes = magic ++ WireSpec.commandBytes name ++ WireSpec.le32 payload.length ++
        (H (H payload)).take 4 ++ payload := by
  rw [writeMessage_eq_spec H hH0 magic m hr] at hw
  unfold WireSpec.message at hw
  cases hc : WireSpec.commandAndPayload m with
  | none => simp [hc] at hw
  | some p =>
    obtain ⟨name, pl⟩ := p
    simp only [hc, Option.map_some, Option.some.injEq] at hw
    exact ⟨name, pl, rfl, C05_command_is_padded_name m name pl hc, hw.symm⟩

/-- the length field is a faithful `u32`: it decodes to the payload length -/
theorem C05_header_length_field (n : Nat) (h : n < 2 ^ 32) (r : Bytes) :
    u32.dec (WireSpec.le32 n ++ r) = .ok (n, r) := by
  rw [← u32_enc]
  exact u32_lawful.dec_enc n r h

/-- **fixpoint** for messages: whatever `Message::read` accepts (any bytes, canonical or not, any
    kind but `Other`) is a message of the arm that decoded it and in range for it; if its
    re-encoding respects the size limit `read` enforces, writing it and reading again returns the
    same message, and writing that again returns the same bytes. -/
theorem C05_message_fixpoint (H : Bytes → Bytes) (hH : ∀ x, (H x).length = 32) (magic b : Bytes)
    (hm : magic.length = 4) (m : Msg) (r : Bytes) (h : readMessage H magic b = .ok (m, r))
    (hno : ∀ c, m ≠ .other c)
    (hsize : ∀ e c, entryOf m = some e → e.body = some c →
      c.size m < 2 ^ 32 ∧ (e.cmd = eBlock.cmd ∨ c.size m ≤ MAX_PAYLOAD_SIZE)) :
    Msg.InRange m ∧ (∃ p, b = p ++ r) ∧
    ∃ b2, writeMessage H magic m = some b2 ∧ ∀ r', readMessage H magic (b2 ++ r') = .ok (m, r') := by
  obtain ⟨e, he, hwf, hp⟩ := readMessage_ok H magic b m r h hno
  have hr : Msg.InRange m := by
    unfold Msg.InRange
    cases hb : e.body with
    | none => simp only [he, hb]
    | some c =>
      simp only [he, hb]
      exact ⟨hwf c hb, hsize e c he hb⟩
  obtain ⟨b2, hw⟩ := C05_message_write_total H magic m hr
  exact ⟨hr, hp, b2, hw, fun r' => C05_message_dec_enc H hH magic hm m hr b2 hw r'⟩

/-- every network magic is four bytes (the table is regenerated from `Network::magic()`) -/
theorem C05_magics_are_four_bytes :
    ∀ x ∈ Generated.C05_MAGICS, x < 2 ^ 32 ∧ (natToLEn 4 x).reverse.length = 4 := by decide

example : Msg.InRange (.ping ⟨7⟩) := by
  unfold Msg.InRange
  simp only [entryOf, ePing]
  decide

example : Msg.InRange .verack := by
  unfold Msg.InRange
  simp only [entryOf, eVerack]

example : ¬ Msg.InRange (.other []) := by
  unfold Msg.InRange
  simp [entryOf]

end CG.Props.C05

import CG.Proofs.TxCheckerCache
import CG.Props.C02
import CG.Props.C03
import CG.Props.C04
import CG.Props.C07
/-!
# The real `TransactionChecker` and the whole of `Tx::validate` inside the model (strengthens C03, C07)

Property theorems only.  Model: `CG.Model.TxChecker` (`TransactionChecker::check_sig / check_locktime /
check_sequence`, `ZChecker`, `TransactionlessChecker`, and `validateTx` = C04's checks before the script
loop + for every input the two-phase script check of C03 with the real checker, all inputs sharing ONE
signature-hash cache as the Rust does + the P2SH sunset check).

In C03's and C07's theorems the checker is an abstract oracle.  Here it is the model of the real one:

* `C07_transaction_checker_no_panic` — the model of the real checker satisfies the hypothesis
  `NeverPanics` of `C07_no_panic` (from `C02_never_panics`), for every transaction, `input <
  tx.inputs.length`, amount, FORKID mode and k256 behaviour; corollaries for script evaluation and for
  the whole of `Tx::validate`; likewise `ZChecker`, `TransactionlessChecker`.
* `C03_check_sig_iff` — `check_sig` answers `Ok(true)` exactly when the signature is `der ‖ type`, the
  FORKID requirement is met, the digest of THIS transaction / input / amount / script code under `type`
  is computed without error, `der` and the key parse, and `verify key digest sig` holds; the digest is
  C02's model digest, which is the BIP-143 / legacy reference digest under C02's hypotheses
  (`C03_check_sig_iff_spec`, from `C02_sighash_eq_spec`).
* `C03_validate_tx_cache_transparent` — the verdict of `Tx::validate` with its one shared cache is the
  verdict of C04's model with every input judged from a FRESH cache (from `C02_cache_invariant` /
  `C02_cache_transparent`).
* `C03_validate_tx_sound` — an accepted transaction satisfies C04's conservation specification, and
  every input that spends a P2PKH / P2PK / m-of-n multisig output carries, on the stack its unlocking
  script leaves, signature(s) that `verify` under the locked key(s) over the digest of THIS
  transaction, input index, spent amount and locking script (`C03_authorisation` composed with
  `C03_check_sig_iff`).

The three k256 calls are parameters (`K256`): the theorems hold for whatever `Signature::from_der`,
`VerifyingKey::from_sec1_bytes` and `verify_prehash` compute; `dsha` (double SHA-256) and the hash
opcodes (`Hashes`) likewise.  ECDSA unforgeability and collision resistance are not proved or used.
-/
namespace CG.Props.TxChecker
open CG CG.Model.Interp CG.Model.ScriptNum CG.Model.TxChecker CG.Proofs.TxChecker
open CG.Model.Sighash (Cache sighash SIGHASH_FORKID extractSubscript)
open CG.Proofs.Sighash (CacheOk cacheOk_empty InI64 AmountsInRange ofSpec)
open CG.Proofs.Templates (p2pkhLock p2pkLock multisigLock msCleaned Matches)
open CG.Props.C07 (C07_no_panic)

variable {Sig Key : Type}

/-! ## (i) C07: the concrete checkers never panic, hence evaluation with them never panics -/

/-- **the real transaction checker satisfies `NeverPanics`**: for every transaction, input index
    inside the transaction, spent amount, FORKID mode, hash function and k256 behaviour, none of
    `check_sig`, `check_locktime`, `check_sequence` panics, in any cache state. -/
theorem C07_transaction_checker_no_panic (dsha : Bytes → Bytes) (K : K256 Sig Key) (tx : CG.Model.TxSer.Tx)
    (input : Nat) (satoshis : Int) (requireForkid : Bool) (hin : input < tx.inputs.length) :
    (txChecker dsha K ⟨tx, input, satoshis, requireForkid⟩).NeverPanics :=
  txChecker_neverPanics dsha K ⟨tx, input, satoshis, requireForkid⟩ hin

/-- **corollary (by `C07_no_panic`)**: `core_eval` on any bytes, flag word, start / break offset and
    initial stacks WITH THE REAL TRANSACTION CHECKER never panics. -/
theorem C07_eval_transaction_checker_no_panic (H : Hashes) (dsha : Bytes → Bytes) (K : K256 Sig Key)
    (tx : CG.Model.TxSer.Tx) (input : Nat) (satoshis : Int) (requireForkid : Bool)
    (hin : input < tx.inputs.length) (c0 : Cache) (script : Bytes) (flags : Nat)
    (startAt breakAt : Option Nat) (stack alt : Option Stack) (s : String) :
    coreEval H (txChecker dsha K ⟨tx, input, satoshis, requireForkid⟩) c0 script flags startAt breakAt stack alt
      ≠ .panic s :=
  C07_no_panic H _ (C07_transaction_checker_no_panic dsha K tx input satoshis requireForkid hin)
    c0 script flags startAt breakAt stack alt s

/-- the index hypothesis is needed: with `input ≥ tx.inputs.length` the `self.tx.inputs[self.input]` of
    `check_locktime` is reached by `OP_0 OP_CHECKLOCKTIMEVERIFY` under pre-genesis rules -/
theorem C07_transaction_checker_index_needed :
    (match coreEval CG.Props.C07.H0
        (txChecker id (⟨fun _ => none, fun _ => none, fun _ _ _ => false⟩ : K256 Unit Unit)
          ⟨⟨1, [], [], 0⟩, 0, 0, true⟩) Cache.empty [0x00, 0xb1] 1 none none none none with
     | .panic site => site
     | _ => "") = "self.tx.inputs[self.input]" := by decide

theorem C07_z_checker_no_panic (K : K256 Sig Key) (z : Bytes) : (zChecker K z).NeverPanics := by
  refine ⟨?_, ?_, ?_⟩
  · intro c sg pk scr s
    show zCheckSig K z sg pk ≠ .panic s
    unfold zCheckSig
    repeat' split
    all_goals simp [scriptErr, k256Err]
  · intro c t s; simp [zChecker, illegalState]
  · intro c t s; simp [zChecker, illegalState]

theorem C07_transactionless_checker_no_panic : tlessChecker.NeverPanics :=
  ⟨by intro c sg pk scr s; simp [tlessChecker, illegalState],
   by intro c t s; simp [tlessChecker, illegalState],
   by intro c t s; simp [tlessChecker, illegalState]⟩

theorem C07_eval_z_checker_no_panic (H : Hashes) (K : K256 Sig Key) (z : Bytes) (script : Bytes) (flags : Nat)
    (startAt breakAt : Option Nat) (stack alt : Option Stack) (s : String) :
    coreEval H (zChecker K z) () script flags startAt breakAt stack alt ≠ .panic s :=
  C07_no_panic H _ (C07_z_checker_no_panic K z) () script flags startAt breakAt stack alt s

theorem C07_eval_transactionless_checker_no_panic (H : Hashes) (script : Bytes) (flags : Nat)
    (startAt breakAt : Option Nat) (stack alt : Option Stack) (s : String) :
    coreEval H tlessChecker () script flags startAt breakAt stack alt ≠ .panic s :=
  C07_no_panic H _ C07_transactionless_checker_no_panic () script flags startAt breakAt stack alt s

/-! ## (ii) C03: what `check_sig = Ok(true)` means -/

/-- `sig` is a valid signature for `pk` over the digest of transaction `x.tx`, input `x.input`, amount
    `x.satoshis` and script code `script` — the digest computed from cache state `c` -/
def SigValidAt (dsha : Bytes → Bytes) (K : K256 Sig Key) (x : Ctx) (c : Cache) (sig pk script : Bytes) : Prop :=
  ∃ der ty digest s k, sig = der ++ [ty] ∧
    (x.requireForkid = true → ty &&& SIGHASH_FORKID ≠ 0) ∧
    (sighash dsha x.tx x.input script 0 x.satoshis ty c).1 = .ok digest ∧
    K.parseSig der = some s ∧ K.parseKey pk = some k ∧ K.verify k digest s = true

/-- the same with the digest computed afresh (empty cache) -/
def SigValid (dsha : Bytes → Bytes) (K : K256 Sig Key) (x : Ctx) (sig pk script : Bytes) : Prop :=
  SigValidAt dsha K x Cache.empty sig pk script

/-- **`check_sig` returns `Ok(true)` iff** the signature is non-empty (`der ‖ type`), the FORKID
    requirement is met, the signature hash is computed without error, both `der` and the key parse,
    and `verify key digest sig` holds, `digest` being C02's model digest for THIS transaction, input,
    amount, script code and type byte.  For every cache state. -/
theorem C03_check_sig_iff (dsha : Bytes → Bytes) (K : K256 Sig Key) (x : Ctx) (c : Cache)
    (sig pk script : Bytes) :
    (checkSig dsha K x c sig pk script).1 = .ok true ↔ SigValidAt dsha K x c sig pk script := by
  obtain ⟨a1, a2, a3⟩ := checkSig_fst_snd dsha K x c sig pk script
  unfold SigValidAt
  cases hl : sig.getLast? with
  | none =>
    rw [a2 hl]
    constructor
    · intro h; simp [scriptErr] at h
    · rintro ⟨der, ty, digest, s, k, rfl, -⟩
      simp at hl
  | some ty =>
    have hsig : sig = sig.dropLast ++ [ty] := by
      have hne : sig ≠ [] := by intro h0; rw [h0] at hl; simp at hl
      have hg : sig.getLast hne = ty := by
        have := List.getLast?_eq_some_getLast hne
        rw [hl] at this
        exact (Option.some.inj this).symm
      rw [← hg]
      exact (List.dropLast_concat_getLast hne).symm
    by_cases hf : x.requireForkid = true ∧ ty &&& SIGHASH_FORKID = 0
    · rw [a3 ty hl hf]
      constructor
      · intro h; simp [scriptErr] at h
      · rintro ⟨der, ty', digest, s, k, hs, hfk, -⟩
        rw [hs] at hl
        simp only [List.getLast?_append, List.getLast?_singleton, Option.some_or, Option.some.injEq] at hl
        subst hl
        exact absurd hf.2 (hfk hf.1)
    · rw [(a1 ty hl hf).2]
      have hfk : x.requireForkid = true → ty &&& SIGHASH_FORKID ≠ 0 := fun h1 h2 => hf ⟨h1, h2⟩
      constructor
      · intro h
        cases hd : (sighash dsha x.tx x.input script 0 x.satoshis ty c).1 with
        | err e => rw [hd] at h; simp at h
        | panic p => rw [hd] at h; simp at h
        | ok d =>
          rw [hd] at h
          simp only [] at h
          cases hp : K.parseSig sig.dropLast with
          | none => rw [hp] at h; simp [k256Err] at h
          | some s =>
            rw [hp] at h
            simp only [] at h
            cases hk : K.parseKey pk with
            | none => rw [hk] at h; simp [k256Err] at h
            | some k =>
              rw [hk] at h
              simp only [Outcome.ok.injEq] at h
              exact ⟨sig.dropLast, ty, d, s, k, hsig, hfk, hd, hp, rfl, h⟩
      · rintro ⟨der, ty', digest, s, k, hs, -, hd, hp, hk, hv⟩
        have hty : ty' = ty := by
          rw [hs] at hl
          simpa [List.getLast?_append] using hl
        subst hty
        have hder : sig.dropLast = der := by rw [hs]; simp
        rw [hd]
        simp only [hder, hp, hk, hv]

/-- through any VALID cache the digest is the fresh one: the verdict of `check_sig` does not depend on
    the history of the shared cache -/
theorem C03_check_sig_iff_fresh (dsha : Bytes → Bytes) (K : K256 Sig Key) (x : Ctx) (c : Cache)
    (hc : CacheOk dsha x.tx c) (sig pk script : Bytes) :
    (checkSig dsha K x c sig pk script).1 = .ok true ↔ SigValid dsha K x sig pk script := by
  rw [C03_check_sig_iff]
  unfold SigValid SigValidAt
  constructor
  · rintro ⟨der, ty, digest, s, k, h1, h2, h3, h4⟩
    exact ⟨der, ty, digest, s, k, h1, h2,
      by rw [← (sighash_cache dsha x.tx x.input script 0 x.satoshis ty c hc).1]; exact h3, h4⟩
  · rintro ⟨der, ty, digest, s, k, h1, h2, h3, h4⟩
    exact ⟨der, ty, digest, s, k, h1, h2,
      by rw [(sighash_cache dsha x.tx x.input script 0 x.satoshis ty c hc).1]; exact h3, h4⟩

/-- **the digest is the reference digest**: under C02's hypotheses (valid cache, amounts in `i64`, the
    model's sub-script selection agreeing with the specification's script code — see
    `C02_subscript_eq_spec_partial` for when it does) the digest in `C03_check_sig_iff` is the BIP-143
    digest (FORKID bit set) resp. the legacy digest of the specification (`C02_sighash_eq_spec`). -/
theorem C03_check_sig_iff_spec (dsha : Bytes → Bytes) (K : K256 Sig Key) (x : Ctx) (c : Cache)
    (hc : CacheOk dsha x.tx c) (hsat : InI64 x.satoshis) (hout : AmountsInRange x.tx)
    (sig pk script sc : Bytes) (hm : extractSubscript script 0 = .ok sc)
    (hs143 : Spec.Bip143.scriptCode script 0 = some sc) (hsleg : Spec.LegacySighash.scriptCode script 0 = some sc) :
    (checkSig dsha K x c sig pk script).1 = .ok true ↔
      ∃ der ty digest s k, sig = der ++ [ty] ∧
        (x.requireForkid = true → ty &&& SIGHASH_FORKID ≠ 0) ∧
        (if Spec.Bip143.forkId ty then Spec.Bip143.digest dsha x.tx x.input script 0 x.satoshis ty
         else Spec.LegacySighash.digest dsha x.tx x.input script 0 ty) = some digest ∧
        K.parseSig der = some s ∧ K.parseKey pk = some k ∧ K.verify k digest s = true := by
  rw [C03_check_sig_iff]
  unfold SigValidAt
  have key : ∀ ty digest, (sighash dsha x.tx x.input script 0 x.satoshis ty c).1 = .ok digest ↔
      (if Spec.Bip143.forkId ty then Spec.Bip143.digest dsha x.tx x.input script 0 x.satoshis ty
       else Spec.LegacySighash.digest dsha x.tx x.input script 0 ty) = some digest := by
    intro ty digest
    rw [CG.Props.C02.C02_sighash_eq_spec dsha x.tx x.input script 0 x.satoshis ty c hc hsat hout sc hm
      (by cases Spec.Bip143.forkId ty <;> simp [hs143, hsleg])]
    cases (if Spec.Bip143.forkId ty then Spec.Bip143.digest dsha x.tx x.input script 0 x.satoshis ty
       else Spec.LegacySighash.digest dsha x.tx x.input script 0 ty) <;> simp [ofSpec]
  constructor
  · rintro ⟨der, ty, digest, s, k, h1, h2, h3, h4⟩
    exact ⟨der, ty, digest, s, k, h1, h2, (key ty digest).mp h3, h4⟩
  · rintro ⟨der, ty, digest, s, k, h1, h2, h3, h4⟩
    exact ⟨der, ty, digest, s, k, h1, h2, (key ty digest).mpr h3, h4⟩

/-! ## (iv) cache transparency at the level of `Tx::validate` -/

/-- **one shared cache = a fresh cache per input**: `Tx::validate` (all inputs evaluated through the
    ONE `SigHashCache` created before the loop) computes exactly the verdict of C04's model with the
    per-input script verdicts computed from a fresh, empty cache each — for every transaction, map,
    profile, rule set, FORKID mode, pre-genesis set, hash functions and k256 behaviour. -/
theorem C03_validate_tx_cache_transparent (E : Env Sig Key) (p : CG.Model.TxValidate.Profile)
    (tx : CG.Model.TxValidate.Tx) (utxos : CG.Model.TxValidate.Utxos) :
    validateTx E p tx utxos
      = CG.Model.TxValidate.validate p E.useGenesis tx utxos (freshInput E tx utxos) := by
  unfold validateTx CG.Model.TxValidate.validate CG.Model.TxValidate.validateWith
  rw [scriptLoopSt_eq E tx utxos tx.inputs 0 Cache.empty (by simp) (cacheOk_empty _ _)]
  rfl

/-- the loop itself, from any valid cache and any position -/
theorem C03_script_loop_cache_transparent (E : Env Sig Key) (tx : CG.Model.TxValidate.Tx)
    (utxos : CG.Model.TxValidate.Utxos) (i : Nat) (c : Cache) (hc : CacheOk E.dsha (toSer tx) c) :
    scriptLoopSt E tx utxos i (tx.inputs.drop i) c
      = CG.Model.TxValidate.scriptLoop utxos (freshInput E tx utxos) i (tx.inputs.drop i) :=
  scriptLoopSt_eq E tx utxos _ i c rfl hc

/-! ## (i, continued) the whole of `Tx::validate` never panics -/

theorem C07_fresh_input_no_panic (E : Env Sig Key) (tx : CG.Model.TxValidate.Tx)
    (utxos : CG.Model.TxValidate.Utxos) (j : Nat) (s : String) : freshInput E tx utxos j ≠ .panic s := by
  unfold freshInput
  cases hi : tx.inputs[j]? with
  | none => simp
  | some tin =>
    simp only []
    cases hu : utxos tin.prevOutput with
    | none => simp
    | some out =>
      simp only []
      have hj : j < (toSer tx).inputs.length := by
        rw [toSer_inputs_length]
        exact (List.getElem?_eq_some_iff.mp hi).1
      have hnp := txChecker_neverPanics E.dsha E.K (ctxOf E tx j out) hj
      cases hv : CG.Model.TxScript.validateInput E.H (txChecker E.dsha E.K (ctxOf E tx j out)) Cache.empty
          tin.unlockScript out.lockScript (flagsFor E.useGenesis (E.pregenesis tin.prevOutput)) with
      | ok u => simp
      | err e => simp
      | panic p =>
        exfalso
        unfold CG.Model.TxScript.validateInput at hv
        cases h1 : coreEval E.H (txChecker E.dsha E.K (ctxOf E tx j out)) Cache.empty tin.unlockScript
            (flagsFor E.useGenesis (E.pregenesis tin.prevOutput)) none none none none with
        | err e => rw [h1] at hv; simp at hv
        | panic q => exact C07_no_panic _ _ hnp _ _ _ _ _ _ _ q h1
        | ok r1 =>
          rw [h1] at hv
          simp only [] at hv
          cases h2 : coreEval E.H (txChecker E.dsha E.K (ctxOf E tx j out)) r1.chk out.lockScript
              (flagsFor E.useGenesis (E.pregenesis tin.prevOutput)) none none (some r1.stack) none with
          | err e => rw [h2] at hv; simp at hv
          | panic q => exact C07_no_panic _ _ hnp _ _ _ _ _ _ _ q h2
          | ok r2 =>
            rw [h2] at hv
            simp only [] at hv
            cases hst : r2.stack with
            | nil => rw [hst] at hv; simp [scriptErr] at hv
            | cons t rest =>
              rw [hst] at hv
              simp only [] at hv
              split at hv <;> simp [scriptErr] at hv

/-- **`Tx::validate` never panics** — the checks before the loop (C04), the `unwrap` of the unspent
    output, every script evaluation with the real checker (C07), the signature hash (C02): for every
    transaction, map, profile, rule set, FORKID mode, hash functions and k256 behaviour. -/
theorem C07_validate_tx_no_panic (E : Env Sig Key) (p : CG.Model.TxValidate.Profile)
    (tx : CG.Model.TxValidate.Tx) (utxos : CG.Model.TxValidate.Utxos) (s : String) :
    validateTx E p tx utxos ≠ .panic s := by
  rw [C03_validate_tx_cache_transparent]
  exact CG.Props.C04.C04_never_panics p E.useGenesis tx utxos _ (C07_fresh_input_no_panic E tx utxos) s

/-! ## (iii) soundness of the composed validation -/

/-- what acceptance of input `j` means for the three key-locked templates, with the REAL checker -/
def InputAuthorised (E : Env Sig Key) (tx : CG.Model.TxValidate.Tx) (j : Nat) (tin : CG.Model.TxValidate.TxIn)
    (out : CG.Model.TxValidate.TxOut) : Prop :=
  let x := ctxOf E tx j out
  let flags := flagsFor E.useGenesis (E.pregenesis tin.prevOutput)
  let run := coreEval E.H (txChecker E.dsha E.K x) Cache.empty tin.unlockScript flags none none none none
  (∀ h : Bytes, h.length = 20 → out.lockScript = p2pkhLock h →
    ∃ r1 pk sig rest, run = .ok r1 ∧ r1.stack = pk :: sig :: rest ∧ E.H.hash160 pk = h ∧
      SigValid E.dsha E.K x sig pk (cleaned (p2pkhLock h) 0 sig)) ∧
  (∀ pk : Bytes, 1 ≤ pk.length → pk.length ≤ 75 → out.lockScript = p2pkLock pk →
    ∃ r1 sig rest, run = .ok r1 ∧ r1.stack = sig :: rest ∧
      SigValid E.dsha E.K x sig pk (cleaned (p2pkLock pk) 0 sig)) ∧
  (∀ (m : Nat) (keys : List Bytes), 1 ≤ m → m ≤ keys.length → keys.length ≤ 16 →
    (∀ k ∈ keys, 1 ≤ k.length ∧ k.length ≤ 75) → out.lockScript = multisigLock m keys →
    ∃ r1 sigs dummy rest used, run = .ok r1 ∧ r1.stack = sigs ++ dummy :: rest ∧ sigs.length = m ∧
      used.length = m ∧ used.Sublist keys.reverse ∧
      ∀ q ∈ sigs.zip used, SigValid E.dsha E.K x q.1 q.2 (msCleaned (multisigLock m keys) sigs))

/-- acceptance of ONE input by the two-phase check with the real checker (fresh cache) authorises it -/
theorem C03_input_authorised (E : Env Sig Key) (tx : CG.Model.TxValidate.Tx) (j : Nat)
    (tin : CG.Model.TxValidate.TxIn) (out : CG.Model.TxValidate.TxOut)
    (hv : CG.Model.TxScript.validateInput E.H (txChecker E.dsha E.K (ctxOf E tx j out)) Cache.empty
      tin.unlockScript out.lockScript (flagsFor E.useGenesis (E.pregenesis tin.prevOutput)) = .ok ()) :
    InputAuthorised E tx j tin out := by
  have hI := txChecker_insensitive E.dsha E.K (ctxOf E tx j out)
  have h0 := cacheOk_empty E.dsha (ctxOf E tx j out).tx
  refine ⟨?_, ?_, ?_⟩
  · intro h hh hl
    rw [hl] at hv
    obtain ⟨r1, pk, sig, rest, e1, e2, e3, e4⟩ :=
      CG.Props.C03.C03_authorisation_p2pkh E.H _ Cache.empty tin.unlockScript h hh _ hv
    have hc1 := coreEval_inv hI E.H Cache.empty h0 _ _ _ _ _ _ r1 e1
    exact ⟨r1, pk, sig, rest, e1, e2, e3,
      (C03_check_sig_iff_fresh E.dsha E.K _ r1.chk hc1 sig pk _).mp e4⟩
  · intro pk h1 h2 hl
    rw [hl] at hv
    obtain ⟨r1, sig, rest, e1, e2, e4⟩ :=
      CG.Props.C03.C03_authorisation_p2pk E.H _ Cache.empty tin.unlockScript pk h1 h2 _ hv
    have hc1 := coreEval_inv hI E.H Cache.empty h0 _ _ _ _ _ _ r1 e1
    exact ⟨r1, sig, rest, e1, e2, (C03_check_sig_iff_fresh E.dsha E.K _ r1.chk hc1 sig pk _).mp e4⟩
  · intro m keys h1 h2 h3 hk hl
    rw [hl] at hv
    obtain ⟨r1, sigs, dummy, rest, c2, e1, e2, e3, e4⟩ :=
      CG.Props.C03.C03_authorisation_multisig E.H _ Cache.empty tin.unlockScript m keys h1 h2 h3 hk _ hv
    have hc1 := coreEval_inv hI E.H Cache.empty h0 _ _ _ _ _ _ r1 e1
    obtain ⟨used, hsub, hlen, hall⟩ := matches_sublist_inv hI e4 hc1
    refine ⟨r1, sigs, dummy, rest, used, e1, e2, e3, by omega, hsub, ?_⟩
    intro q hq
    obtain ⟨c1, hi1, hq1⟩ := hall q hq
    exact (C03_check_sig_iff_fresh E.dsha E.K _ c1 hi1 q.1 q.2 _).mp hq1

/-- **soundness of `Tx::validate`**: if the transaction is accepted then
    (1) C04's conservation specification holds (inputs present and pairwise distinct, exact sums in
        range, outputs ≤ inputs, lock time, no coinbase reference, every script check passes), and
    (2) every input spending a P2PKH, P2PK or m-of-n multisig output is authorised: on the stack left
        by its unlocking script there is a signature (resp. `m` signatures under distinct keys, in key
        order) that parses, whose key is (hashes to) the locked one, and that `verify`s over the digest
        of THIS transaction, THIS input index, the spent amount and the locking script as script code,
        under the signature's own type byte, with the FORKID requirement met. -/
theorem C03_validate_tx_sound (E : Env Sig Key) (p : CG.Model.TxValidate.Profile)
    (tx : CG.Model.TxValidate.Tx) (utxos : CG.Model.TxValidate.Utxos)
    (h : validateTx E p tx utxos = .ok ()) :
    CG.Spec.Conservation.Accepts (CG.Proofs.TxValidate.viewOf tx utxos (freshInput E tx utxos)) ∧
    ∀ (j : Nat) (tin : CG.Model.TxValidate.TxIn), tx.inputs[j]? = some tin →
      ∃ out, utxos tin.prevOutput = some out ∧ InputAuthorised E tx j tin out := by
  rw [C03_validate_tx_cache_transparent] at h
  have hacc := CG.Props.C04.C04_accept_implies_spec p E.useGenesis tx utxos _ h
  refine ⟨hacc, ?_⟩
  intro j tin hj
  have hjl : j < tx.inputs.length := (List.getElem?_eq_some_iff.mp hj).1
  have hpass := hacc.scripts j (by simpa [CG.Proofs.TxValidate.viewOf] using hjl)
  have hok : freshInput E tx utxos j = .ok true :=
    (CG.Proofs.TxValidate.passes_iff _).mp hpass
  unfold freshInput at hok
  rw [hj] at hok
  simp only [] at hok
  cases hu : utxos tin.prevOutput with
  | none => rw [hu] at hok; simp at hok
  | some out =>
    rw [hu] at hok
    simp only [] at hok
    refine ⟨out, rfl, C03_input_authorised E tx j tin out ?_⟩
    cases hv : CG.Model.TxScript.validateInput E.H (txChecker E.dsha E.K (ctxOf E tx j out)) Cache.empty
        tin.unlockScript out.lockScript (flagsFor E.useGenesis (E.pregenesis tin.prevOutput)) with
    | ok u => rfl
    | err e => rw [hv] at hok; simp at hok
    | panic q => rw [hv] at hok; simp at hok

/-- **no valid signature, no spend**: if no signature `verify`s under any key hashing to `h` over any
    digest, no transaction whatsoever that spends a P2PKH output locked to `h` is accepted. -/
theorem C03_validate_tx_no_signature_no_spend_p2pkh (E : Env Sig Key) (p : CG.Model.TxValidate.Profile)
    (tx : CG.Model.TxValidate.Tx) (utxos : CG.Model.TxValidate.Utxos) (j : Nat)
    (tin : CG.Model.TxValidate.TxIn) (out : CG.Model.TxValidate.TxOut) (h : Bytes) (hh : h.length = 20)
    (hj : tx.inputs[j]? = some tin) (hu : utxos tin.prevOutput = some out) (hl : out.lockScript = p2pkhLock h)
    (hno : ∀ pk k d s, E.H.hash160 pk = h → E.K.parseKey pk = some k → E.K.verify k d s = false) :
    validateTx E p tx utxos ≠ .ok () := by
  intro hv
  obtain ⟨-, hall⟩ := C03_validate_tx_sound E p tx utxos hv
  obtain ⟨out', hu', ha⟩ := hall j tin hj
  rw [hu] at hu'
  cases hu'
  obtain ⟨r1, pk, sig, rest, -, -, hp, der, ty, digest, s, k, -, -, -, -, hk, hvf⟩ := ha.1 h hh hl
  rw [hno pk k digest s hp hk] at hvf
  exact absurd hvf (by simp)

/-! ## the hypotheses are satisfiable -/

/-- stand-ins for the k256 calls: everything parses (to itself); `verify` accepts exactly when the
    "signature" equals the key's first byte repeated … enough to exercise both verdicts -/
def K1 : K256 Bytes Bytes := ⟨fun b => some b, fun b => some b, fun k _ s => s == k⟩

def env1 : Env Bytes Bytes :=
  { H := CG.Props.C03.noHashes, dsha := id, K := K1, requireForkid := true, useGenesis := true,
    pregenesis := fun _ => false }

def op1 : CG.Model.TxValidate.OutPoint := ⟨List.replicate 32 5, 0⟩
/-- spends a pay-to-public-key output `<07> OP_CHECKSIG` with the "signature" `07 41` (type ALL|FORKID) -/
def tx1 : CG.Model.TxValidate.Tx :=
  { version := 2, inputs := [⟨op1, [2, 0x07, 0x41], 0xffffffff⟩], outputs := [⟨90, [0x51]⟩], lockTime := 0 }
def utxo1 : CG.Model.TxValidate.Utxos := fun o => if o = op1 then some ⟨100, [1, 0x07, 0xac]⟩ else none

example : validateTx env1 .dev tx1 utxo1 = .ok () := by decide +kernel
/-- without the FORKID bit the same spend is refused by the checker (`ScriptError`) … -/
example : validateTx env1 .dev { tx1 with inputs := [⟨op1, [2, 0x07, 0x01], 0xffffffff⟩] } utxo1
    = .err "ScriptError" := by decide +kernel
/-- … a signature that does not verify leaves `false` on the stack … -/
example : validateTx env1 .dev { tx1 with inputs := [⟨op1, [2, 0x08, 0x41], 0xffffffff⟩] } utxo1
    = .err "ScriptError" := by decide +kernel
/-- … and creating value is refused before any script runs -/
example : validateTx env1 .dev { tx1 with outputs := [⟨101, [0x51]⟩] } utxo1 = .err "BadData" := by
  decide +kernel
example : (0 : Nat) < (toSer tx1).inputs.length := by decide

end CG.Props.TxChecker

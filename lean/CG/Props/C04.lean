import CG.Proofs.TxValidate
/-!
# C04 — Transaction validation conserves value using exact arithmetic

Property theorems only.  Model: `CG.Model.TxValidate` (mirrors `Tx::validate`, `Blocktxn::validate`,
`PrefilledTransaction::validate`/`Cmpctblock::validate`; `i64` sums per build profile; the per-input
script evaluation is an oracle).  Specification: `CG.Spec.Conservation` (exact integers).
`validate`, `blocktxnValidate`, `cmpctblockValidate` are the model of the tree with
`C04-checked-sums.patch` and `C04-duplicate-inputs.patch` applied; `validateWith .pinned` is the
model of the tree as pinned, for which the property is refuted by the witnesses at the end.

Every theorem quantifies over: all transactions (any number of inputs and outputs, amounts over all
integers — in particular all of `Int64`), all unspent-output maps (arbitrary partial functions), all
script oracles (which covers both FORKID-requirement modes and every pre-genesis set), both rule sets
(`g`) and both build profiles (`p`).
-/
namespace CG.Props.C04
open CG CG.Model.TxValidate CG.Proofs.TxValidate
open CG.Spec.Conservation (Accepts PayloadAccepts acceptsB accepts_iff)

/-- table obligation: the limit compiled into the current tree is 21 million coins -/
theorem C04_max_satoshis_is_21M : CG.Generated.MAX_SATOSHIS = 2100000000000000 := by decide

theorem C04_max_satoshis_is_spec_limit : MAX = CG.Spec.Conservation.MAX_MONEY := MAX_eq_spec

/-- **accept ⇒ spec**: whatever is accepted satisfies every clause of the conservation
    specification (inputs present and pairwise distinct, no negative amount, both exact sums within the
    limit, outputs ≤ inputs, lock time ≤ 2^31-1, no coinbase reference, every script passes). -/
theorem C04_accept_implies_spec (p : Profile) (g : Bool) (tx : Tx) (utxos : Utxos)
    (scriptOk : Nat → Outcome Bool) (h : validate p g tx utxos scriptOk = .ok ()) :
    Accepts (viewOf tx utxos scriptOk) :=
  ((validate_ok_iff p g tx utxos scriptOk).mp h).2.2.1

/-- exact characterisation: acceptance = specification ∧ the two non-emptiness rules ∧ the
    P2SH-sunset rule (so the specification is not vacuously strong: everything it admits and the
    extra rules admit is accepted). -/
theorem C04_accept_iff (p : Profile) (g : Bool) (tx : Tx) (utxos : Utxos)
    (scriptOk : Nat → Outcome Bool) :
    validate p g tx utxos scriptOk = .ok () ↔
      (tx.inputs ≠ [] ∧ tx.outputs ≠ [] ∧ Accepts (viewOf tx utxos scriptOk) ∧
        ¬ (g = true ∧ tx.outputs.any (fun o => isP2sh o.lockScript) = true)) :=
  validate_ok_iff p g tx utxos scriptOk

/-- **never panics**: for no combination of amounts, map, lock time or profile does validation
    panic — provided the script interpreter itself does not (that is property C07). -/
theorem C04_never_panics (p : Profile) (g : Bool) (tx : Tx) (utxos : Utxos)
    (scriptOk : Nat → Outcome Bool) (hs : ∀ j s, scriptOk j ≠ .panic s) :
    ∀ s, validate p g tx utxos scriptOk ≠ .panic s :=
  validate_no_panic p g tx utxos scriptOk hs

/-- **never wraps**: the two build profiles compute the same verdict on every input — the `i64`
    additions that are reached are exact. -/
theorem C04_profile_independent (g : Bool) (tx : Tx) (utxos : Utxos) (scriptOk : Nat → Outcome Bool) :
    validate .dev g tx utxos scriptOk = validate .release g tx utxos scriptOk :=
  validate_profile g tx utxos scriptOk

/-- **every other case is an error**: a transaction that does not satisfy the specification is
    rejected with `Err`, not accepted and not a panic. -/
theorem C04_reject_is_error (p : Profile) (g : Bool) (tx : Tx) (utxos : Utxos)
    (scriptOk : Nat → Outcome Bool) (hs : ∀ j s, scriptOk j ≠ .panic s)
    (hn : ¬ Accepts (viewOf tx utxos scriptOk)) :
    ∃ e, validate p g tx utxos scriptOk = .err e := by
  cases h : validate p g tx utxos scriptOk with
  | ok u => cases u; exact absurd (C04_accept_implies_spec p g tx utxos scriptOk h) hn
  | err e => exact ⟨e, rfl⟩
  | panic s => exact absurd h (C04_never_panics p g tx utxos scriptOk hs s)

/-! ### the same for the block-transactions and compact-block payload validators -/

theorem C04_blocktxn_accept_implies_spec (p : Profile) (txs : List Tx)
    (h : blocktxnValidate p txs = .ok ()) :
    ∀ tx ∈ txs, PayloadAccepts (tx.outputs.map (·.satoshis)) :=
  fun tx ht => ((payloadLoop_spec p txs).2.mp h tx ht).2.2

theorem C04_blocktxn_never_panics (p : Profile) (txs : List Tx) :
    ∀ s, blocktxnValidate p txs ≠ .panic s := (payloadLoop_spec p txs).1

theorem C04_blocktxn_reject_is_error (p : Profile) (txs : List Tx)
    (hn : ¬ ∀ tx ∈ txs, PayloadAccepts (tx.outputs.map (·.satoshis))) :
    ∃ e, blocktxnValidate p txs = .err e := by
  cases h : blocktxnValidate p txs with
  | ok u => cases u; exact absurd (C04_blocktxn_accept_implies_spec p txs h) hn
  | err e => exact ⟨e, rfl⟩
  | panic s => exact absurd h (C04_blocktxn_never_panics p txs s)

theorem C04_cmpctblock_accept_implies_spec (p : Profile) (prefilled : List Tx)
    (h : cmpctblockValidate p prefilled = .ok ()) :
    ∀ tx ∈ prefilled, PayloadAccepts (tx.outputs.map (·.satoshis)) :=
  fun tx ht => ((payloadLoop_spec p prefilled).2.mp h tx ht).2.2

theorem C04_cmpctblock_never_panics (p : Profile) (prefilled : List Tx) :
    ∀ s, cmpctblockValidate p prefilled ≠ .panic s := (payloadLoop_spec p prefilled).1

theorem C04_cmpctblock_reject_is_error (p : Profile) (prefilled : List Tx)
    (hn : ¬ ∀ tx ∈ prefilled, PayloadAccepts (tx.outputs.map (·.satoshis))) :
    ∃ e, cmpctblockValidate p prefilled = .err e := by
  cases h : cmpctblockValidate p prefilled with
  | ok u => cases u; exact absurd (C04_cmpctblock_accept_implies_spec p prefilled h) hn
  | err e => exact ⟨e, rfl⟩
  | panic s => exact absurd h (C04_cmpctblock_never_panics p prefilled s)

theorem C04_payload_profile_independent (txs : List Tx) :
    blocktxnValidate .dev txs = blocktxnValidate .release txs ∧
    cmpctblockValidate .dev txs = cmpctblockValidate .release txs :=
  ⟨payloadLoop_profile txs, payloadLoop_profile txs⟩

/-! ### the loop invariant, stated on its own (`acc = Σ prefix ∧ 0 ≤ acc ≤ bound`) -/

theorem C04_sum_invariant (p : Profile) (xs : List (Option Int)) (acc : Int) (h0 : 0 ≤ acc)
    (hM : acc ≤ MAX) (tot : Int) (h : sumLoop .repaired p acc xs = .ok tot) :
    ∃ ys : List Int, xs = ys.map some ∧ (∀ y ∈ ys, 0 ≤ y) ∧
      tot = acc + CG.Spec.Conservation.total ys ∧ 0 ≤ tot ∧ tot ≤ MAX :=
  (sumLoop_repaired p xs acc h0 hM).2 tot h

/-! ### non-vacuity: the hypotheses are satisfiable and the accepting case exists -/

def opA : OutPoint := ⟨List.replicate 32 5, 3⟩
def opB : OutPoint := ⟨List.replicate 32 6, 0⟩
def utxoAB : Utxos := fun o => if o = opA then some ⟨100, [0x51]⟩ else if o = opB then some ⟨50, [0x51]⟩ else none
def txGood : Tx := { inputs := [⟨opA, [], 0⟩, ⟨opB, [], 0⟩], outputs := [⟨10, []⟩, ⟨140, []⟩], lockTime := 0 }

example : validate .dev true txGood utxoAB (fun _ => .ok true) = .ok () := by decide
example : validate .release false txGood utxoAB (fun _ => .ok true) = .ok () := by decide
example : Accepts (viewOf txGood utxoAB (fun _ => .ok true)) :=
  C04_accept_implies_spec .dev true txGood utxoAB _ (by decide)
example : ∃ e, validate .dev true { txGood with lockTime := 2 ^ 31 } utxoAB (fun _ => .ok true) = .err e :=
  ⟨"BadData", by decide⟩

/-! ### witnesses: the PINNED code's model violates the property

The full-strength statements about the pinned tree are kept as `Prop`s and refuted. -/

def I64_MAX : Int := 2 ^ 63 - 1

/-- two outputs of `i64::MAX` each, spending one 0-satoshi output -/
def txOverflow : Tx := { inputs := [⟨opA, [], 0⟩], outputs := [⟨I64_MAX, []⟩, ⟨I64_MAX, []⟩], lockTime := 0 }
def utxoZero : Utxos := fun o => if o = opA then some ⟨0, [0x51]⟩ else none

/-- two inputs spending the same 100-satoshi output, 200 satoshis out -/
def txDouble : Tx := { inputs := [⟨opA, [], 0⟩, ⟨opA, [], 1⟩], outputs := [⟨200, []⟩], lockTime := 0 }

def C04_accept_implies_spec_pinned : Prop :=
  ∀ (p : Profile) (g : Bool) (tx : Tx) (utxos : Utxos) (scriptOk : Nat → Outcome Bool),
    validateWith .pinned p g tx utxos scriptOk = .ok () → Accepts (viewOf tx utxos scriptOk)

def C04_never_panics_pinned : Prop :=
  ∀ (p : Profile) (g : Bool) (tx : Tx) (utxos : Utxos) (scriptOk : Nat → Outcome Bool),
    (∀ j s, scriptOk j ≠ .panic s) → ∀ s, validateWith .pinned p g tx utxos scriptOk ≠ .panic s

/-- release profile: the output sum wraps to -2 and the transaction — which creates
    2·(2^63-1) satoshis out of nothing — passes every check. -/
theorem C04_witness_pinned_release_wraps :
    validateWith .pinned .release true txOverflow utxoZero (fun _ => .ok true) = .ok () ∧
    checkedSum .pinned .release (outAmounts txOverflow.outputs) = .ok (-2) ∧
    acceptsB (viewOf txOverflow utxoZero (fun _ => .ok true)) = false := by decide

/-- dev profile: the same transaction panics -/
theorem C04_witness_pinned_dev_panics :
    validateWith .pinned .dev true txOverflow utxoZero (fun _ => .ok true)
      = .panic "attempt to add with overflow" := by decide

/-- both profiles: an output spent by two inputs of one transaction is accepted (200 out of 100) -/
theorem C04_witness_pinned_duplicate_inputs (p : Profile) :
    validateWith .pinned p true txDouble utxoAB (fun _ => .ok true) = .ok () ∧
    acceptsB (viewOf txDouble utxoAB (fun _ => .ok true)) = false := by
  cases p <;> decide

/-- the payload validators of the pinned tree: wrap in release, panic in dev -/
theorem C04_witness_pinned_payload :
    blocktxnValidateWith .pinned .release [txOverflow] = .ok () ∧
    cmpctblockValidateWith .pinned .release [txOverflow] = .ok () ∧
    blocktxnValidateWith .pinned .dev [txOverflow] = .panic "attempt to add with overflow" ∧
    cmpctblockValidateWith .pinned .dev [txOverflow] = .panic "attempt to add with overflow" ∧
    CG.Spec.Conservation.payloadAcceptsB (txOverflow.outputs.map (·.satoshis)) = false := by decide

theorem C04_pinned_violates_accept_implies_spec : ¬ C04_accept_implies_spec_pinned := by
  intro h
  have := h .release true txOverflow utxoZero (fun _ => .ok true) C04_witness_pinned_release_wraps.1
  rw [← accepts_iff, C04_witness_pinned_release_wraps.2.2] at this
  exact absurd this (by decide)

theorem C04_pinned_violates_distinct_inputs :
    ¬ ∀ (p : Profile) (tx : Tx) (utxos : Utxos),
      validateWith .pinned p true tx utxos (fun _ => .ok true) = .ok () →
      (tx.inputs.map (·.prevOutput)).Pairwise (· ≠ ·) := by
  intro h
  have := h .dev txDouble utxoAB (C04_witness_pinned_duplicate_inputs .dev).1
  revert this
  decide

theorem C04_pinned_violates_never_panics : ¬ C04_never_panics_pinned := by
  intro h
  exact h .dev true txOverflow utxoZero (fun _ => .ok true) (by simp) _ C04_witness_pinned_dev_panics

/-- the repaired model rejects all three witnesses with an error, in both profiles -/
theorem C04_repaired_rejects_witnesses (p : Profile) :
    validate p true txOverflow utxoZero (fun _ => .ok true) = .err "BadData" ∧
    validate p true txDouble utxoAB (fun _ => .ok true) = .err "BadData" ∧
    blocktxnValidate p [txOverflow] = .err "BadData" ∧
    cmpctblockValidate p [txOverflow] = .err "BadData" := by
  cases p <;> decide

end CG.Props.C04

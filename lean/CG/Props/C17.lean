import CG.Model.Stepping
/-!
# C17 — Stepping a script through the debugger interface preserves its meaning
Property theorems only (model: `CG.Model.Interp` + `CG.Model.Stepping`).
-/
namespace CG.Props.C17
open CG CG.Model.Interp CG.Model.Stepping

def noHashes : Hashes := ⟨id, id, id, id, id⟩

/-- a checker that records the script argument it is given (as the real `TransactionChecker`
    inspects it) -/
def recorder : Checker (List Bytes) :=
  { checkSig := fun log _ _ scr => (.ok true, scr :: log)
    checkLocktime := fun _ _ => .ok true
    checkSequence := fun _ _ => .ok true }

/-- **the separator position is not carried across segments**: for
    `OP_1 OP_1 OP_CODESEPARATOR OP_NOP OP_CHECKSIG` the checker receives `61 ac` in a single run
    and the whole script `51 51 ab 61 ac` when the run is split at offset 4 (known finding
    `codesep-not-carried`; both checkers reachable from Python ignore the script argument). -/
theorem C17_codesep_not_carried :
    (coreEval noHashes recorder [] [0x51, 0x51, 0xab, 0x61, 0xac] 0 none none none none).map (·.chk)
      = .ok [[0x61, 0xac]] ∧
    (stepped noHashes recorder [] [0x51, 0x51, 0xab, 0x61, 0xac] 0 [4]).map (·.1.chk)
      = .ok [[0x51, 0x51, 0xab, 0x61, 0xac]] := by
  constructor <;> decide

end CG.Props.C17

import CG.Model.Stepping
import CG.Proofs.Stepping
/-!
# C17 — Stepping a script through the debugger interface preserves its meaning
Property theorems only (model: `CG.Model.Interp` + `CG.Model.Stepping`; lemmas: `CG.Proofs.Stepping`).

Vocabulary (all defined in `CG.Proofs.Stepping`):
* `Reaches script i p` — `p` is reached from `i` by walking over whole instructions with `next_op`;
* `Executes ex script i st q` — the unbroken loop started at offset `i` in state `st` gets to execute
  the opcode at offset `q` (skipped conditional branches are not executed);
* `stopWith` — `core_eval`'s loop without the "ENDIF missing" check that follows it, i.e. the state
  and offset with which the loop is left (`runWith_eq_stop`: the model's loop is `stopWith` + that check);
* `Checker.IgnoresScript C` — `check_sig`'s answer and new checker state do not depend on the script
  argument (the only consumer of `check_index`, the one piece of state the interface cannot carry).

Every theorem is for all scripts, flag words, hash functions, checkers, initial stacks and — for the
split theorems — every list of break offsets (any number of segments).
-/
namespace CG.Props.C17
open CG CG.Model.Interp CG.Model.Stepping CG.Model.ScriptNum CG.Proofs.Stepping

/-! ### 1. breaking at or beyond the end is the same as not breaking -/

/-- where a run without (effective) break stops: at `start` when there is nothing to run, else at the
    end of the script, else at an OP_RETURN executed under genesis rules -/
def StopsAt (script : Bytes) (flags start p : Nat) : Prop :=
  (script.length ≤ start ∧ p = start) ∨
  (start < script.length ∧ p = script.length) ∨
  (start < script.length ∧ p < script.length ∧ Reaches script start p ∧
    script.getD p 0 = 0x6a ∧ flags % 2 ≠ 1)

/-- **break ≥ length ≡ no break.**  For every start offset and initial stacks, `core_eval` with a
    break offset at or beyond the end returns exactly what it returns without a break — same stacks,
    same checker state, same error, same panic — except that the `pos` field is filled in; and the
    offset it reports is the one at which the unbroken loop stopped, classified by `StopsAt`. -/
theorem C17_break_beyond_end {σ : Type} (H : Hashes) (C : Checker σ) (c0 : σ) (script : Bytes) (flags : Nat)
    (startAt : Option Nat) (brk : Nat) (stack alt : Option Stack) (hb : script.length ≤ brk) :
    (coreEval H C c0 script flags startAt (some brk) stack alt).map (fun r => { r with pos := none })
      = coreEval H C c0 script flags startAt none stack alt ∧
    ∀ r, coreEval H C c0 script flags startAt (some brk) stack alt = .ok r →
      ∃ p st, r.pos = some p ∧ StopsAt script flags (startAt.getD 0) p ∧
        run H C (flags % 2 = 1) script none (script.length + 1) (startAt.getD 0)
          { stack := stack.getD [], alt := alt.getD [], branch := [], checkIndex := 0, chk := c0 }
          = .ok (st, p) := by
  have hrun := run_break_beyond script (exF H C script flags) brk hb (script.length + 1) (startAt.getD 0)
    { stack := stack.getD [], alt := alt.getD [], branch := [], checkIndex := 0, chk := c0 }
  constructor
  · rw [coreEval_eq, coreEval_eq, hrun]
    cases runWith (exF H C script flags) script none (script.length + 1) (startAt.getD 0)
      { stack := stack.getD [], alt := alt.getD [], branch := [], checkIndex := 0, chk := c0 } with
    | ok x => rfl
    | err e => rfl
    | panic q => rfl
  · intro r hr
    rw [coreEval_eq, hrun] at hr
    cases hn : runWith (exF H C script flags) script none (script.length + 1) (startAt.getD 0)
      { stack := stack.getD [], alt := alt.getD [], branch := [], checkIndex := 0, chk := c0 } with
    | ok x =>
      obtain ⟨st1, p⟩ := x
      rw [hn] at hr
      simp only [resOf, Outcome.ok.injEq] at hr
      subst hr
      refine ⟨p, st1, rfl, ?_, hn⟩
      obtain ⟨hs, _⟩ := run_ok_stop script _ _ _ _ _ _ _ hn
      have hreach := stop_reaches _ script _ _ _ _ _ _ hs
      rcases stop_class _ script _ _ _ _ _ _ hs with ⟨a, b⟩ | ⟨a, b⟩ | ⟨a, b, c⟩ | ⟨a, b, c, s, d⟩
      · exact .inl ⟨a, b⟩
      · exact .inr (.inl ⟨a, b⟩)
      · simp [brkHit] at c
      · obtain ⟨_, h2, h3⟩ := exec_stop H C _ script _ _ _ _ d
        have h4 := decodeOp_return _ h2
        refine .inr (.inr ⟨a, b, hreach, ?_, by simpa using h3⟩)
        exact UInt8.toNat_inj.mp h4
    | err e => rw [hn] at hr; simp [resOf] at hr
    | panic q => rw [hn] at hr; simp [resOf] at hr

/-! ### 2. the offset a segment reports -/

/-- **reported offset.**  When `core_eval` with break offset `b` returns `ok`, it reports an offset
    `p` that is an instruction boundary reached from the start offset (`Reaches`), and
    * either there was nothing to run (`start ≥ length`, `p = start`),
    * or the script ended first (`p = length`),
    * or the break fired: `p` is inside the script and `p ≥ b`,
    * or an OP_RETURN under genesis rules at `p < b` ended the run first;
    and in every case each opcode executed before `p` lies below `b` — so when the break fires, `p` is
    the requested boundary rounded up to the next instruction boundary on the execution path. -/
theorem C17_reported_offset {σ : Type} (H : Hashes) (C : Checker σ) (c0 : σ) (script : Bytes) (flags : Nat)
    (startAt : Option Nat) (b : Nat) (stack alt : Option Stack) (r : EvalResult σ)
    (h : coreEval H C c0 script flags startAt (some b) stack alt = .ok r) :
    ∃ p, r.pos = some p ∧ Reaches script (startAt.getD 0) p ∧
      ((script.length ≤ startAt.getD 0 ∧ p = startAt.getD 0) ∨
       (startAt.getD 0 < script.length ∧ p = script.length) ∨
       (p < script.length ∧ b ≤ p) ∨
       (p < script.length ∧ p < b ∧ script.getD p 0 = 0x6a ∧ flags % 2 ≠ 1)) ∧
      ∀ q, Executes (exec H C (flags % 2 = 1) script) script (startAt.getD 0)
            { stack := stack.getD [], alt := alt.getD [], branch := [], checkIndex := 0, chk := c0 } q →
          q < p → q < b := by
  obtain ⟨st1, p, hs, _, rfl⟩ := coreEval_ok H C script flags c0 startAt (some b) stack alt r h
  refine ⟨p, rfl, stop_reaches _ script _ _ _ _ _ _ hs, ?_, ?_⟩
  · rcases stop_class _ script _ _ _ _ _ _ hs with ⟨a, b'⟩ | ⟨a, b'⟩ | ⟨a, b', c⟩ | ⟨a, b', c, s, d⟩
    · exact .inl ⟨a, b'⟩
    · exact .inr (.inl ⟨a, b'⟩)
    · exact .inr (.inr (.inl ⟨b', by simpa [brkHit] using c⟩))
    · obtain ⟨_, h2, h3⟩ := exec_stop H C _ script _ _ _ _ d
      have h4 := decodeOp_return _ h2
      exact .inr (.inr (.inr ⟨b', by simpa [brkHit] using c, UInt8.toNat_inj.mp h4, by simpa using h3⟩))
  · intro q hq hlt
    have := stop_minimal _ script _ _ _ _ _ _ hs q hq hlt
    simpa [brkHit] using this

/-- the offsets reported by a successful segmented run: one per requested break, in order, never
    decreasing (each segment starts where the previous one stopped) -/
theorem C17_reported_list {σ : Type} (H : Hashes) (C : Checker σ) (c0 : σ) (script : Bytes) (flags : Nat)
    (brks : List Nat) (r : EvalResult σ) (reported : List Nat)
    (h : stepped H C c0 script flags brks = .ok (r, reported)) :
    reported.length = brks.length ∧ reported.Pairwise (· ≤ ·) :=
  stepped_reported H C script flags c0 brks r reported h

/-! ### 3. split = single run -/

/-- the unqualified statement: whatever a successful segmented run returns, the single run returns.
    It is FALSE of the current interface (`C17_split_eq_single_false`): `check_index` is not carried. -/
def C17_split_eq_single : Prop :=
  ∀ (σ : Type) (H : Hashes) (C : Checker σ) (c0 : σ) (script : Bytes) (flags : Nat) (brks : List Nat)
    (r : EvalResult σ) (reported : List Nat),
    stepped H C c0 script flags brks = .ok (r, reported) →
    ∃ r', coreEval H C c0 script flags none none none none = .ok r' ∧
      r'.stack = r.stack ∧ r'.alt = r.alt ∧ r'.chk = r.chk

/-- **split = single run (forward), any number of segments.**  If the checker ignores its script
    argument and the segmented run — any list of break offsets, each segment starting at the offset the
    previous one reported and carrying both stacks and the checker — succeeds with result `r`, then
    the single run succeeds with exactly the same result: same main stack, same alternate stack, same
    checker state (and `pos = none` on both sides).  No hypothesis about where the breaks fall is
    needed: a segmented run that succeeds had all its breaks outside conditional blocks
    (`C17_ok_breaks_depth_zero`). -/
theorem C17_split_eq_single_partial {σ : Type} (H : Hashes) (C : Checker σ) (hC : Checker.IgnoresScript C)
    (c0 : σ) (script : Bytes) (flags : Nat) (brks : List Nat) (r : EvalResult σ) (reported : List Nat)
    (h : stepped H C c0 script flags brks = .ok (r, reported)) :
    coreEval H C c0 script flags none none none none = .ok r := by
  rw [coreEval_single]
  exact (chain H C script flags hC brks (initSeg c0)).1 r reported h

/-- some break of the segmented run fires while a conditional block is open (in the machine: the
    loop of that segment is left at an offset `p ≥ b` inside the script in a state whose conditional
    stack is not empty) -/
def OpenConditionalAtBreak {σ : Type} (H : Hashes) (C : Checker σ) (c0 : σ) (script : Bytes) (flags : Nat)
    (brks : List Nat) : Prop :=
  OpenSomewhere H C script flags (initSeg c0) brks

/-- every break that fires, fires at conditional depth zero on the execution path -/
def DepthZeroBreaks {σ : Type} (H : Hashes) (C : Checker σ) (c0 : σ) (script : Bytes) (flags : Nat)
    (brks : List Nat) : Prop :=
  ¬ OpenConditionalAtBreak H C c0 script flags brks

/-- a successful segmented run had all its breaks at depth zero -/
theorem C17_ok_breaks_depth_zero {σ : Type} (H : Hashes) (C : Checker σ) (c0 : σ) (script : Bytes)
    (flags : Nat) (brks : List Nat) (x : EvalResult σ × List Nat)
    (h : stepped H C c0 script flags brks = .ok x) : DepthZeroBreaks H C c0 script flags brks :=
  not_open_of_ok H C script flags brks (initSeg c0) x h

/-- **converse, errors.**  If the segmented run fails with error `e`, then either the single run fails
    with the same error, or a break fired inside an open conditional and `e` is the "ENDIF missing"
    script error.  A panic of the segmented run is a panic of the single run. -/
theorem C17_split_failure {σ : Type} (H : Hashes) (C : Checker σ) (hC : Checker.IgnoresScript C)
    (c0 : σ) (script : Bytes) (flags : Nat) (brks : List Nat) :
    (∀ e, stepped H C c0 script flags brks = .err e →
      coreEval H C c0 script flags none none none none = .err e ∨
      (OpenConditionalAtBreak H C c0 script flags brks ∧ e = "ScriptError")) ∧
    (∀ q, stepped H C c0 script flags brks = .panic q →
      coreEval H C c0 script flags none none none none = .panic q) := by
  rw [coreEval_single]
  exact (chain H C script flags hC brks (initSeg c0)).2

/-- **split = single run, both directions.**  With a checker that ignores its script argument and
    breaks that fire at conditional depth zero, the segmented run and the single run have the same
    outcome in every case: the same result, the same error, or the same panic. -/
theorem C17_split_eq_single_depth_zero {σ : Type} (H : Hashes) (C : Checker σ)
    (hC : Checker.IgnoresScript C) (c0 : σ) (script : Bytes) (flags : Nat) (brks : List Nat)
    (hd : DepthZeroBreaks H C c0 script flags brks) :
    (stepped H C c0 script flags brks).map (·.1) = coreEval H C c0 script flags none none none none := by
  obtain ⟨h1, h2, h3⟩ := chain H C script flags hC brks (initSeg c0)
  rw [coreEval_single]
  rw [stepped_eq] at *
  cases hs : steppedFrom H C script flags (initSeg c0) brks with
  | ok x => obtain ⟨r, rep⟩ := x; exact (h1 r rep hs).symm
  | err e =>
    rcases h2 e hs with h | ⟨h, _⟩
    · exact h.symm
    · exact absurd h hd
  | panic q => exact (h3 q hs).symm

/-- in particular: if the single run succeeds and the breaks fire at depth zero, the segmented run
    succeeds with the same stacks and checker state -/
theorem C17_single_ok_split_ok {σ : Type} (H : Hashes) (C : Checker σ) (hC : Checker.IgnoresScript C)
    (c0 : σ) (script : Bytes) (flags : Nat) (brks : List Nat)
    (hd : DepthZeroBreaks H C c0 script flags brks) (r : EvalResult σ)
    (h : coreEval H C c0 script flags none none none none = .ok r) :
    ∃ reported, stepped H C c0 script flags brks = .ok (r, reported) := by
  have := C17_split_eq_single_depth_zero H C hC c0 script flags brks hd
  rw [h] at this
  cases hs : stepped H C c0 script flags brks with
  | ok x =>
    obtain ⟨r', rep⟩ := x
    rw [hs] at this
    simp only [Outcome.map, Outcome.ok.injEq] at this
    exact ⟨rep, by rw [this]⟩
  | err e => rw [hs] at this; simp [Outcome.map] at this
  | panic q => rw [hs] at this; simp [Outcome.map] at this

/-- no OP_CODESEPARATOR has been executed when a break fires (each segment leaves its loop with
    `check_index = 0`, the value the next segment starts with) -/
def NoSeparatorBeforeBreak {σ : Type} (H : Hashes) (C : Checker σ) (c0 : σ) (script : Bytes) (flags : Nat)
    (brks : List Nat) : Prop :=
  SeparatorFree H C script flags (initSeg c0) brks

/-- **split = single run for ANY checker** (also one that inspects the script it is handed, like the
    real `TransactionChecker`), provided no separator was executed before a break: then nothing is
    lost at the interface. -/
theorem C17_split_eq_single_no_separator {σ : Type} (H : Hashes) (C : Checker σ) (c0 : σ) (script : Bytes)
    (flags : Nat) (brks : List Nat) (hs : NoSeparatorBeforeBreak H C c0 script flags brks)
    (r : EvalResult σ) (reported : List Nat)
    (h : stepped H C c0 script flags brks = .ok (r, reported)) :
    coreEval H C c0 script flags none none none none = .ok r := by
  rw [coreEval_single]
  exact (chain_sepfree H C script flags brks (initSeg c0) hs).1 r reported h

/-! ### 4. verdicts -/

/-- the verdict `eval` draws from a result: the top item of the main stack decodes to true -/
def verdict {σ : Type} (r : EvalResult σ) : Outcome Unit :=
  match r.stack with
  | [] => scriptErr
  | t :: _ => if decodeBool t then .ok () else scriptErr

/-- **verdict preserved.**  `eval` on the whole script gives the verdict drawn from the result of any
    successful segmented run ... -/
theorem C17_verdict_preserved {σ : Type} (H : Hashes) (C : Checker σ) (hC : Checker.IgnoresScript C)
    (c0 : σ) (script : Bytes) (flags : Nat) (brks : List Nat) (r : EvalResult σ) (reported : List Nat)
    (h : stepped H C c0 script flags brks = .ok (r, reported)) :
    eval H C c0 script flags = verdict r := by
  unfold eval
  rw [C17_split_eq_single_partial H C hC c0 script flags brks r reported h]
  rfl

/-- ... and with breaks at depth zero the two verdicts agree in every case, failures included -/
theorem C17_verdict_preserved_depth_zero {σ : Type} (H : Hashes) (C : Checker σ)
    (hC : Checker.IgnoresScript C) (c0 : σ) (script : Bytes) (flags : Nat) (brks : List Nat)
    (hd : DepthZeroBreaks H C c0 script flags brks) :
    eval H C c0 script flags = ((stepped H C c0 script flags brks).map (·.1)).bind verdict := by
  rw [C17_split_eq_single_depth_zero H C hC c0 script flags brks hd]
  unfold eval
  cases coreEval H C c0 script flags none none none none <;> rfl

/-! ### 5. the excluded case really differs -/

def noHashes : Hashes := ⟨id, id, id, id, id⟩

/-- a checker that records the script argument it is given (as the real `TransactionChecker`
    inspects it) -/
def recorder : Checker (List Bytes) :=
  { checkSig := fun log _ _ scr => (.ok true, scr :: log)
    checkLocktime := fun _ _ => .ok true
    checkSequence := fun _ _ => .ok true }

/-- **the separator position is not carried across segments**: for
    `OP_1 OP_1 OP_CODESEPARATOR OP_NOP OP_CHECKSIG` the checker receives `61 ac` in a single run
    and the whole script `51 51 ab 61 ac` when the run is split at offset 4 (known finding
    `codesep-not-carried`; both checkers reachable from Python ignore the script argument). -/
theorem C17_codesep_not_carried :
    (coreEval noHashes recorder [] [0x51, 0x51, 0xab, 0x61, 0xac] 0 none none none none).map (·.chk)
      = .ok [[0x61, 0xac]] ∧
    (stepped noHashes recorder [] [0x51, 0x51, 0xab, 0x61, 0xac] 0 [4]).map (·.1.chk)
      = .ok [[0x51, 0x51, 0xab, 0x61, 0xac]] := by
  constructor <;> decide

/-- hence the unqualified statement is false -/
theorem C17_split_eq_single_false : ¬ C17_split_eq_single := by
  intro h
  obtain ⟨h1, h2⟩ := C17_codesep_not_carried
  cases hs : stepped noHashes recorder [] [0x51, 0x51, 0xab, 0x61, 0xac] 0 [4] with
  | ok x =>
    obtain ⟨r, rep⟩ := x
    obtain ⟨r', e1, _, _, e4⟩ := h _ noHashes recorder [] [0x51, 0x51, 0xab, 0x61, 0xac] 0 [4] r rep hs
    rw [hs] at h2
    rw [e1] at h1
    simp only [Outcome.map, Outcome.ok.injEq] at h1 h2
    rw [e4, h2] at h1
    revert h1
    decide
  | err e => rw [hs] at h2; simp [Outcome.map] at h2
  | panic q => rw [hs] at h2; simp [Outcome.map] at h2

/-- a checker whose ANSWER depends on the script it is handed -/
def lengthTwo : Checker Unit :=
  { checkSig := fun c _ _ scr => (.ok (scr.length == 2), c)
    checkLocktime := fun _ _ => .ok true
    checkSequence := fun _ _ => .ok true }

/-- with such a checker the final stacks differ too: the same script and split leave `true` on the
    stack in a single run and `false` in the segmented run -/
theorem C17_codesep_changes_stack :
    (coreEval noHashes lengthTwo () [0x51, 0x51, 0xab, 0x61, 0xac] 0 none none none none).map (·.stack)
      = .ok [[1]] ∧
    (stepped noHashes lengthTwo () [0x51, 0x51, 0xab, 0x61, 0xac] 0 [4]).map (·.1.stack)
      = .ok [[]] := by
  constructor <;> decide

/-! ### the hypotheses are satisfiable -/

/-- a checker that ignores its script argument (its answer depends on the signature only; it counts
    its calls) -/
def sigOnly : Checker Nat :=
  { checkSig := fun n sig _ _ => (.ok (sig == [1]), n + 1)
    checkLocktime := fun _ _ => .ok true
    checkSequence := fun _ _ => .ok true }

example : Checker.IgnoresScript sigOnly := fun _ _ _ _ _ => rfl

/-- `OP_1 OP_IF OP_2 OP_ENDIF <01> <02> OP_CODESEPARATOR OP_CHECKSIG OP_VERIFY OP_2 OP_EQUAL` cut into four segments at
    depth-zero boundaries (one request inside the push at 4..5, rounded up to 6; one beyond the
    end): the segmented run succeeds, reports `[1, 6, 9, 13]`, and leaves the stack of the single run -/
example :
    (stepped noHashes sigOnly 0 [0x51, 0x63, 0x52, 0x68, 0x01, 0x01, 0x01, 0x02, 0xab, 0xac, 0x69, 0x52, 0x87] 0
        [1, 5, 9, 40]).map (fun x => (x.1.stack, x.1.alt, x.1.chk, x.2))
      = .ok ([[1]], [], 1, [1, 6, 9, 13]) ∧
    (coreEval noHashes sigOnly 0 [0x51, 0x63, 0x52, 0x68, 0x01, 0x01, 0x01, 0x02, 0xab, 0xac, 0x69, 0x52, 0x87] 0
        none none none none).map (fun r => (r.stack, r.alt, r.chk))
      = .ok ([[1]], [], 1) := by
  constructor <;> decide

/-- the depth-zero hypothesis holds for that split (it succeeds) ... -/
example : DepthZeroBreaks noHashes sigOnly 0
    [0x51, 0x63, 0x52, 0x68, 0x01, 0x01, 0x01, 0x02, 0xab, 0xac, 0x69, 0x52, 0x87] 0 [1, 5, 9, 40] := by
  cases h : stepped noHashes sigOnly 0
      [0x51, 0x63, 0x52, 0x68, 0x01, 0x01, 0x01, 0x02, 0xab, 0xac, 0x69, 0x52, 0x87] 0 [1, 5, 9, 40] with
  | ok x => exact C17_ok_breaks_depth_zero _ _ _ _ _ _ x h
  | err e =>
    have : (stepped noHashes sigOnly 0
      [0x51, 0x63, 0x52, 0x68, 0x01, 0x01, 0x01, 0x02, 0xab, 0xac, 0x69, 0x52, 0x87] 0 [1, 5, 9, 40]).isOk = true := by
      decide
    rw [h] at this; simp [Outcome.isOk] at this
  | panic q =>
    have : (stepped noHashes sigOnly 0
      [0x51, 0x63, 0x52, 0x68, 0x01, 0x01, 0x01, 0x02, 0xab, 0xac, 0x69, 0x52, 0x87] 0 [1, 5, 9, 40]).isOk = true := by
      decide
    rw [h] at this; simp [Outcome.isOk] at this

/-- ... and it is needed: `OP_1 OP_IF OP_1 OP_ENDIF` evaluates to true in one run, but a break at
    offset 2 fires inside the open IF and `core_eval` answers "ENDIF missing" -/
example :
    (coreEval noHashes sigOnly 0 [0x51, 0x63, 0x51, 0x68] 0 none none none none).map (·.stack) = .ok [[1]] ∧
    (stepped noHashes sigOnly 0 [0x51, 0x63, 0x51, 0x68] 0 [2]).map (·.1.stack) = .err "ScriptError" ∧
    OpenConditionalAtBreak noHashes sigOnly 0 [0x51, 0x63, 0x51, 0x68] 0 [2] := by
  refine ⟨by decide, by decide, ?_⟩
  exact .inl ⟨⟨[], [], [true], 0, 0⟩, 2, rfl, by decide, by decide, by simp⟩

/-- a split before any separator is executed satisfies `NoSeparatorBeforeBreak` even for the
    recording checker, and the checker then sees the same script in both runs -/
example :
    NoSeparatorBeforeBreak noHashes recorder [] [0x51, 0x51, 0xab, 0x61, 0xac] 0 [2] ∧
    (stepped noHashes recorder [] [0x51, 0x51, 0xab, 0x61, 0xac] 0 [2]).map (·.1.chk) = .ok [[0x61, 0xac]] := by
  refine ⟨⟨?_, fun _ _ => trivial⟩, by decide⟩
  intro st1 p h
  have e : segStop noHashes recorder [0x51, 0x51, 0xab, 0x61, 0xac] 0 (initSeg []) 2
      = .ok (⟨[[1], [1]], [], [], 0, []⟩, 2) := rfl
  rw [e] at h
  simp only [Outcome.ok.injEq, Prod.mk.injEq] at h
  rw [← h.1]

end CG.Props.C17

import CG.Proofs.Header
/-!
# C19 — Block header hashing, proof-of-work and timestamp validation

Property theorems only.  Model: `CG.Model.Header` (mirrors `block_header.rs`, `hash256.rs`);
specification: `CG.Spec.Pow`.  The double hash is a parameter.
-/
namespace CG.Props.C19
open CG CG.Model.Header CG.Proofs.Header

/-- A header's hash is the double hash of an 80-byte serialisation, for every field value. -/
theorem C19_serialisation_80 (h : BlockHeader) (hp : h.prevHash.length = 32)
    (hm : h.merkleRoot.length = 32) : (serialize h).length = 80 := by
  simp [serialize, hp, hm]

theorem C19_hash_is_double_hash_of_serialisation (H : Bytes → Bytes) (h : BlockHeader) :
    hash H h = H (serialize h) := rfl

/-- the serialisation is injective field by field: the hash commits to every field -/
theorem C19_serialisation_injective (h1 h2 : BlockHeader)
    (hp : h1.prevHash.length = h2.prevHash.length)
    (hm : h1.merkleRoot.length = h2.merkleRoot.length)
    (h : serialize h1 = serialize h2) :
    natToLEn 4 h1.version = natToLEn 4 h2.version ∧ h1.prevHash = h2.prevHash ∧
    h1.merkleRoot = h2.merkleRoot ∧ natToLEn 4 h1.timestamp = natToLEn 4 h2.timestamp ∧
    natToLEn 4 h1.bits = natToLEn 4 h2.bits ∧ natToLEn 4 h1.nonce = natToLEn 4 h2.nonce := by
  unfold serialize at h
  obtain ⟨h, e6⟩ := List.append_inj' h (by simp)
  obtain ⟨h, e5⟩ := List.append_inj' h (by simp)
  obtain ⟨h, e4⟩ := List.append_inj' h (by simp)
  obtain ⟨h, e3⟩ := List.append_inj' h hm
  obtain ⟨e1, e2⟩ := List.append_inj' h hp
  exact ⟨e1, e2, e3, e4, e5, e6⟩

/-- Ordering of hashes is numeric: `Hash256::cmp` = comparison of the little-endian integers. -/
theorem C19_ord_numeric (a b : Bytes) (h : a.length = b.length) :
    hashCmp a b = compare (leToNat a) (leToNat b) :=
  cmpFromTop_reverse a b h

/-- For exponents 3..32 the target's integer value is `mantissa · 256^(exp-3)`; it has 32 bytes. -/
theorem C19_target_value (bits : Nat) (_hb : bits < 2 ^ 32) (d : Bytes)
    (h : difficultyTarget bits = .ok d) :
    Spec.Pow.target bits = some (leToNat d) ∧ d.length = 32 := by
  unfold difficultyTarget at h
  simp only at h
  split at h
  · rename_i he
    injection h with h
    subst h
    constructor
    · simp only [Spec.Pow.target, he, and_self, if_true]
      rw [target_value 32 _ he.1 he.2]
      congr 1
      simp only [UInt8.toNat_ofNat']
      congr 1
      omega
    · simp
  · simp at h

/-- Every exponent outside 3..32 is an error — never a panic — and inside it is never an error. -/
theorem C19_target_total (bits : Nat) :
    (Spec.Pow.target bits = none → difficultyTarget bits = .err "BadArgument") ∧
    (∀ s, difficultyTarget bits ≠ .panic s) ∧
    (Spec.Pow.target bits ≠ none → ∃ d, difficultyTarget bits = .ok d) := by
  unfold difficultyTarget Spec.Pow.target
  simp only
  split <;> simp

theorem window_eq_spec (prev : List Nat) :
    window prev = Spec.Pow.isort (Spec.Pow.lastUpTo 11 prev) := by
  unfold window Spec.Pow.lastUpTo
  rw [mergeSort_eq_isort]
  congr 2
  omega

/-- **validate iff**: validation succeeds exactly when `int(hash) ≤ target` and (there are no
    predecessors or the timestamp is strictly greater than the median of the last ≤ 11);
    every other case is an error of the class the specification names; no input panics. -/
theorem C19_validate_eq_spec (ts bits : Nat) (hash : Bytes) (prev : List Nat)
    (hb : bits < 2 ^ 32) (hh : hash.length = 32) :
    validate ts bits hash prev =
      match Spec.Pow.validate ts bits hash prev with
      | .ok => .ok ()
      | .badTimestamp => .err "BadData"
      | .badBits => .err "BadArgument"
      | .badPow => .err "BadData" := by
  have hpow : (match difficultyTarget bits with
      | .ok target => if hashCmp hash target = .gt then Outcome.err "BadData" else .ok ()
      | .err e => .err e
      | .panic s => .panic s) =
      (match Spec.Pow.validate.pow bits hash with
      | .ok => Outcome.ok ()
      | .badTimestamp => .err "BadData"
      | .badBits => .err "BadArgument"
      | .badPow => .err "BadData") := by
    cases hd : difficultyTarget bits with
    | ok d =>
      obtain ⟨ht, hl⟩ := C19_target_value bits hb d hd
      simp only [Spec.Pow.validate.pow, ht]
      rw [C19_ord_numeric hash d (by omega)]
      by_cases hle : leToNat hash ≤ leToNat d
      · have : compare (leToNat hash) (leToNat d) ≠ .gt := by
          rw [Ne, Nat.compare_eq_gt]; omega
        simp [hle, this]
      · have : compare (leToNat hash) (leToNat d) = .gt := by
          rw [Nat.compare_eq_gt]; omega
        simp [hle, this]
    | err e =>
      have h2 := (C19_target_total bits).2.2
      have h1 := (C19_target_total bits).1
      cases ht : Spec.Pow.target bits with
      | none =>
        have := h1 ht; rw [hd] at this; injection this with this; subst this
        simp [Spec.Pow.validate.pow, ht]
      | some t =>
        obtain ⟨d, hd'⟩ := h2 (by simp [ht]); rw [hd] at hd'; cases hd'
    | panic s => exact absurd hd ((C19_target_total bits).2.1 s)
  unfold validate validateWith Spec.Pow.validate Spec.Pow.median
  simp only [← window_eq_spec]
  by_cases hp : prev = []
  · subst hp
    simp only [List.isEmpty_nil, if_true]
    have : (window [])[(window []).length / 2]? = none := by simp [window]
    rw [this]
    exact hpow
  · have hne : prev.isEmpty = false := by simp [hp]
    simp only [hne]
    have hwl : (window prev).length = min prev.length 11 := by
      unfold window; rw [List.length_mergeSort]; simp; omega
    have hpos : 0 < prev.length := List.length_pos_iff.mpr hp
    have hlt : (window prev).length / 2 < (window prev).length := by
      have : 0 < (window prev).length := by rw [hwl]; omega
      omega
    rw [List.getElem?_eq_getElem hlt]
    simp only [if_true, Bool.false_eq_true, if_false]
    by_cases hts : ts ≤ (window prev)[(window prev).length / 2]
    · have : ¬ ts > (window prev)[(window prev).length / 2] := by omega
      simp [hts, this]
    · have : ts > (window prev)[(window prev).length / 2] := by omega
      simp only [hts, this, if_true, if_false]
      exact hpow

/-- corollary in the "exactly when" form of the property statement -/
theorem C19_validate_iff (ts bits : Nat) (hash : Bytes) (prev : List Nat)
    (hb : bits < 2 ^ 32) (hh : hash.length = 32) :
    validate ts bits hash prev = .ok () ↔
      (∃ t, Spec.Pow.target bits = some t ∧ leToNat hash ≤ t) ∧
      (∀ m, Spec.Pow.median prev = some m → ts > m) := by
  rw [C19_validate_eq_spec ts bits hash prev hb hh]
  unfold Spec.Pow.validate Spec.Pow.validate.pow
  cases hm : Spec.Pow.median prev with
  | none =>
    cases ht : Spec.Pow.target bits with
    | none => simp
    | some t => by_cases hle : leToNat hash ≤ t <;> simp [hle]
  | some m =>
    by_cases hgt : ts > m
    · cases ht : Spec.Pow.target bits with
      | none => simp [hgt]
      | some t => by_cases hle : leToNat hash ≤ t <;> simp [hle, hgt]
    · simp [hgt]

/-- **Monotone in the timestamp**: a header accepted with timestamp `ts` is accepted with any later one
    (same bits, hash and predecessors) — the rule has a lower bound (the median) and no upper bound. -/
theorem C19_validate_mono_timestamp (ts ts' bits : Nat) (hash : Bytes) (prev : List Nat)
    (hb : bits < 2 ^ 32) (hh : hash.length = 32) (hle : ts ≤ ts')
    (h : validate ts bits hash prev = .ok ()) : validate ts' bits hash prev = .ok () := by
  rw [C19_validate_iff ts bits hash prev hb hh] at h
  rw [C19_validate_iff ts' bits hash prev hb hh]
  exact ⟨h.1, fun m hm => by have := h.2 m hm; omega⟩

/-- **Monotone in the hash**: with the same bits, timestamp and predecessors, a numerically smaller (or
    equal) 32-byte hash is accepted whenever a larger one is — proof-of-work is "hash ≤ target". -/
theorem C19_validate_mono_hash (ts bits : Nat) (hash hash' : Bytes) (prev : List Nat)
    (hb : bits < 2 ^ 32) (hh : hash.length = 32) (hh' : hash'.length = 32)
    (hle : leToNat hash' ≤ leToNat hash)
    (h : validate ts bits hash prev = .ok ()) : validate ts bits hash' prev = .ok () := by
  rw [C19_validate_iff ts bits hash prev hb hh] at h
  rw [C19_validate_iff ts bits hash' prev hb hh']
  obtain ⟨⟨t, ht, hlt⟩, h2⟩ := h
  exact ⟨⟨t, ht, by omega⟩, h2⟩

/-- validation never panics (any field values, any predecessor list, duplicates allowed) -/
theorem C19_validate_no_panic (ts bits : Nat) (hash : Bytes) (prev : List Nat)
    (hb : bits < 2 ^ 32) (hh : hash.length = 32) (s : String) :
    validate ts bits hash prev ≠ .panic s := by
  rw [C19_validate_eq_spec ts bits hash prev hb hh]
  cases Spec.Pow.validate ts bits hash prev <;> simp

/-- the median is the middle element of a sorted permutation of the window (sorting-algorithm
    independent reading of the specification) -/
theorem C19_median_is_sorted_middle (prev : List Nat) :
    ∃ w : List Nat, w.Perm (Spec.Pow.lastUpTo 11 prev) ∧ w.Pairwise (· ≤ ·) ∧
      Spec.Pow.median prev = w[w.length / 2]? :=
  ⟨_, isort_perm _, isort_sorted _, rfl⟩

/-! Non-vacuity: concrete inputs satisfying the hypotheses, on both sides of each boundary. -/
example : validate 5 0x207fffff (List.replicate 32 0) [1, 9, 4] = .ok () := by
  rw [C19_validate_eq_spec _ _ _ _ (by decide) (by decide)]; decide
example : validate 4 0x207fffff (List.replicate 32 0) [1, 9, 4] = .err "BadData" := by
  rw [C19_validate_eq_spec _ _ _ _ (by decide) (by decide)]; decide
example : validate 3 0x207fffff (List.replicate 32 0) [1, 9, 4] = .err "BadData" := by
  rw [C19_validate_eq_spec _ _ _ _ (by decide) (by decide)]; decide
example : validate 3 0x027fffff (List.replicate 32 0) [] = .err "BadArgument" := by
  rw [C19_validate_eq_spec _ _ _ _ (by decide) (by decide)]; decide
/-- the comparison of the pinned tree (`timestamp < median` rejects) accepted a timestamp equal to
    the median: the property's "strictly greater" fails there. -/
theorem C19_pinned_comparison_accepts_equal :
    validateWith false 4 0x207fffff (List.replicate 32 0) [1, 9, 4] = .ok () ∧
    Spec.Pow.validate 4 0x207fffff (List.replicate 32 0) [1, 9, 4] = .badTimestamp := by
  constructor
  · simp only [validateWith, window_eq_spec]; decide
  · decide

end CG.Props.C19

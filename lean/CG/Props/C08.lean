import Mathlib.Algebra.Group.Defs
import CG.Proofs.Bip32
/-!
# C08 — BIP-32 derivation matches the standard; public and private paths commute

Model: `CG.Model.Bip32` (`/repo/src/wallet/extended_key.rs`); `repaired` = the tree with the three
C08 patches of /verif/proposed_fixes, `pinned` = the tree as found.  Spec: `CG.Spec.Bip32` (BIP-32 text).
HMAC-SHA512, HASH160 and the secp256k1 group are parameters (`Ops`): every theorem holds for whatever
those crates compute, given only the facts collected in `OpsOK` (output lengths, the public key of a
scalar in `(0, n)` is not the identity, SEC1 parse inverts SEC1 serialise) and — for the commutation —
the group laws `(a+b)·G = a·G + b·G`, `n·G = 0`.

Two events of probability ≈ 2⁻²⁵⁶ per step separate the code from the letter of the BIP and appear as
explicit side conditions (`PrivEdge`, `PubEdge`, `NoEdge`): `I_L = 0` (the code rejects it, the BIP
accepts it) and `k_i = 0` (the BIP rejects it, the code returns the zero key).  They cannot be reached
without inverting HMAC-SHA512; `C08_eq_spec_full_false` shows (with an artificial HMAC) that the
side condition cannot be dropped.
-/
namespace CG.Props.C08
open CG CG.Model.Bip32 CG.Proofs.Bip32
open CG.Spec.Bip32 (Params XKey KeyMat serialize childPriv childPub toPublic ckdPriv ckdPub neuter derive Denotes pubPoint)

/-! ## public and private derivation commute -/

/-- the group laws in the form used by the proofs, from Mathlib's additive-monoid laws: `G` of order
    exactly `n` in any additive (commutative) group / monoid `E` -/
theorem groupLaws_of_addMonoid {E : Type} [AddMonoid E] (G : E)
    (hn : Spec.Bip32.n • G = 0) (hord : ∀ m : Nat, 0 < m → m < Spec.Bip32.n → m • G ≠ 0)
    (P : Params E) (hpoint : ∀ a, P.point a = a • G) (hadd : ∀ x y, P.add x y = x + y)
    (hinf : ∀ x, P.isInfinity x = true ↔ x = 0) : GroupLaws P where
  point_add := by intro a b; rw [hpoint, hpoint, hpoint, hadd, add_nsmul]
  point_n := by rw [hpoint, hpoint, hn, zero_nsmul]
  inf_iff := by
    intro m hm
    rw [hinf, hpoint]
    constructor
    · intro h
      rcases Nat.eq_zero_or_pos m with h0 | h0
      · exact h0
      · exact absurd h (hord m h0 hm)
    · rintro rfl; exact zero_nsmul G

/-- **N(CKDpriv(k, i)) = CKDpub(N(k), i)** for every parent `(k, c)`, every non-hardened `i`, every
    HMAC and point serialisation, in any additive commutative group in which `G` has order `n`
    (`add_nsmul` is `(a + b) • G = a • G + b • G`).  Equality of `Option`s: the two sides are invalid
    together. -/
theorem C08_commute {E : Type} [AddCommGroup E] (G : E)
    (hn : Spec.Bip32.n • G = 0) (hord : ∀ m : Nat, 0 < m → m < Spec.Bip32.n → m • G ≠ 0)
    (P : Params E) (hpoint : ∀ a, P.point a = a • G) (hadd : ∀ x y, P.add x y = x + y)
    (hinf : ∀ x, P.isInfinity x = true ↔ x = 0)
    (k : Nat) (c : Bytes) (i : Nat) (hi : i < 2 ^ 31) :
    (ckdPriv P k c i).map (fun r => neuter P r.1 r.2) = ckdPub P (P.point k) c i :=
  ckd_commute P (groupLaws_of_addMonoid G hn hord P hpoint hadd hinf) k c i
    (by simpa [Spec.Bip32.hardened] using hi)

/-- the same for extended keys with their position in the tree (depth, parent fingerprint, child
    number, chain code all agree) -/
theorem C08_commute_tree {P : Type} (E : Params P) (L : GroupLaws E) (x : XKey P) (k : Nat) (hk : x.key = .priv k)
    (i : Nat) (hi : i < 2 ^ 31) :
    (childPriv E x i).map (toPublic E) = childPub E (toPublic E x) i :=
  child_commute E L x k hk i (by simpa [Spec.Bip32.hardened] using hi)

/-- … and on the model of the repaired code: `derive_private_key(i)` then `extended_public_key()`
    returns the same 78 bytes as `extended_public_key()` then `derive_public_key(i)`; if one side is an
    error so is the other; neither panics. -/
theorem C08_commute_model {P : Type} (o : Ops P) (ok : OpsOK o) (L : GroupLaws (toParams o)) (x : XKey P) (hx : XWF o x)
    (k : Nat) (hk : x.key = .priv k) (i : Nat) (hi : i < 2 ^ 31) (hne : ¬ PrivEdge (toParams o) k x.chain i) :
    (derivePrivateKey o (serialize (toParams o) x) i).bind (extendedPublicKey o) =
      (extendedPublicKey o (serialize (toParams o) x)).bind (fun xp => derivePublicKey true o xp i) ∨
    (∃ e e', (derivePrivateKey o (serialize (toParams o) x) i).bind (extendedPublicKey o) = .err e ∧
      (extendedPublicKey o (serialize (toParams o) x)).bind (fun xp => derivePublicKey true o xp i) = .err e') :=
  model_commute o ok L x hx k hk i (by simpa [HARDENED_KEY] using hi) hne

/-! ## each step equals BIP-32 -/

/-- `derive_private_key` on the serialization of a private extended key returns the serialization of
    the BIP-32 child (`CKDpriv`, depth + 1, fingerprint of the parent, child number, chain code) or an
    error exactly when BIP-32 says the child is invalid / does not exist; it never panics. -/
theorem C08_priv_eq_spec {P : Type} (o : Ops P) (ok : OpsOK o) (x : XKey P) (hx : XWF o x) (k : Nat)
    (hk : x.key = .priv k) (i : Nat) (hne : ¬ PrivEdge (toParams o) k x.chain i) :
    okOf (derivePrivateKey o (serialize (toParams o) x) i) = (childPriv (toParams o) x i).map (serialize (toParams o)) ∧
    ∀ st, derivePrivateKey o (serialize (toParams o) x) i ≠ .panic st :=
  ⟨priv_step o ok x hx k hk i hne, derivePrivateKey_not_panic o ok _ _⟩

/-- the REPAIRED `derive_public_key` equals `CKDpub` of the key's public form (for a private parent
    the code first takes its public key), with the same tree fields. -/
theorem C08_pub_eq_spec {P : Type} (o : Ops P) (ok : OpsOK o) (x : XKey P) (hx : XWF o x) (i : Nat)
    (hne : ¬ PubEdge (toParams o) (pubPoint (toParams o) x) x.chain i) :
    okOf (derivePublicKey true o (serialize (toParams o) x) i) =
      (childPub (toParams o) (toPublic (toParams o) x) i).map (serialize (toParams o)) ∧
    ∀ st, derivePublicKey true o (serialize (toParams o) x) i ≠ .panic st :=
  ⟨pub_step o ok x hx i hne, derivePublicKey_not_panic o true ok _ _⟩

/-- `extended_public_key` is `N`, keeping network, depth, fingerprint, child number and chain code -/
theorem C08_xpub_eq_spec {P : Type} (o : Ops P) (ok : OpsOK o) (x : XKey P) (hx : XWF o x) :
    extendedPublicKey o (serialize (toParams o) x) = .ok (serialize (toParams o) (toPublic (toParams o) x)) :=
  extendedPublicKey_serialize o ok x hx

/-- the 78-byte layout: every accessor reads back the field the constructor wrote -/
theorem C08_layout (v d idx : Nat) (fp cc kd : Bytes) (hfp : fp.length = 4) (hcc : cc.length = 32) (hkd : kd.length = 33) :
    (lay v d fp idx cc kd).length = 78 ∧ version (lay v d fp idx cc kd) = v % 2 ^ 32 ∧
    depth (lay v d fp idx cc kd) = d % 256 ∧ parentFingerprint (lay v d fp idx cc kd) = fp ∧
    index (lay v d fp idx cc kd) = idx % 2 ^ 32 ∧ chainCode (lay v d fp idx cc kd) = cc ∧
    keyData (lay v d fp idx cc kd) = kd :=
  ⟨lay_length v d idx fp cc kd hfp hcc hkd, version_lay .., depth_lay .., parentFingerprint_lay _ _ _ _ _ _ hfp,
   index_lay _ _ _ _ _ _ hfp, chainCode_lay _ _ _ _ _ _ hfp hcc, keyData_lay _ _ _ _ _ _ hfp hcc⟩

/-! ## paths -/

/-- the repaired parser accepts exactly `m|M (/ digits+ ['|h|H]?)*` with an unmarked number `< 2^32`
    and a marked number `< 2^31`, and maps each component to the right child number -/
theorem C08_parse_path (s : List Char) (kt : KeyType) (idxs : List Nat) :
    parsePath repaired s = .ok (kt, idxs) ↔ Denotes s (decide (kt = .priv)) idxs :=
  parsePath_ok_iff s kt idxs

/-- `derive_extended_key` = the fold of `CKDpriv` (for `m/…`) or of `CKDpub` from `N(master)` (for
    `M/…`) over the parsed child numbers — any depth, any master that has a serialization. -/
theorem C08_path_eq_spec {P : Type} (o : Ops P) (ok : OpsOK o) (x : XKey P) (hx : XWF o x) (path : List Char)
    (kt : KeyType) (idxs : List Nat) (hp : parsePath repaired path = .ok (kt, idxs))
    (hne : NoEdge (toParams o) x kt idxs) :
    okOf (deriveExtendedKey repaired o (serialize (toParams o) x) path) =
      (derive (toParams o) x (decide (kt = .priv)) idxs).map (serialize (toParams o)) :=
  path_eq_spec o ok x hx path kt idxs hp hne

/-! ## rejections, never a panic -/

/-- hardened derivation from a public key, derivation past depth 255, private derivation from a public
    key and malformed paths are errors; nothing ever panics — for both variants of the code, every
    master (any bytes) and every path text. -/
theorem C08_errors {P : Type} (o : Ops P) (ok : OpsOK o) (v : Variant) :
    (∀ a k i, i ≥ 2 ^ 31 → derivePublicKey a o k i = .err "BadArgument") ∧
    (∀ master path idxs, parsePath v path = .ok (.pub, idxs) → (∃ i ∈ idxs, i ≥ 2 ^ 31) →
        ∃ e, deriveExtendedKey v o master path = .err e) ∧
    (∀ k i, keyType k = .ok .pub → derivePrivateKey o k i = .err "BadData") ∧
    (∀ a k i, depth k = 255 → (∃ e, derivePrivateKey o k i = .err e) ∧ (∃ e, derivePublicKey a o k i = .err e)) ∧
    (∀ master path e, parsePath v path = .err e → ∃ e', deriveExtendedKey v o master path = .err e') ∧
    (∀ master path st, deriveExtendedKey v o master path ≠ .panic st) ∧
    (∀ a k i st, derivePrivateKey o k i ≠ .panic st ∧ derivePublicKey a o k i ≠ .panic st ∧ extendedPublicKey o k ≠ .panic st) := by
  refine ⟨?_, ?_, ?_, ?_, ?_, ?_, ?_⟩
  · intro a k i hi; exact derivePublicKey_hardened o a k i (by simpa [HARDENED_KEY] using hi)
  · intro master path idxs hp hh
    unfold parsePath at hp
    unfold deriveExtendedKey
    rcases hsp : splitOn '/' path with _ | ⟨p0, rest⟩
    · exact absurd hsp (splitOn_ne_nil _ _)
    · rw [hsp] at hp
      simp only at hp ⊢
      split at hp
      · obtain ⟨l, -, heq⟩ := (map_ok_iff _ _ _).mp hp
        simp at heq
      · rename_i h1
        split at hp
        · rename_i h2
          obtain ⟨l, hl, heq⟩ := (map_ok_iff _ _ _).mp hp
          simp only [Prod.mk.injEq, true_and] at heq
          subst heq
          rcases outcome_cases (pathStart v o master p0) with ⟨⟨kt, key⟩, hx⟩ | ⟨e1, he⟩ | ⟨s', hs⟩
          · rw [hx]; simp only
            have : kt = .pub := by
              subst h2
              unfold pathStart at hx
              have hm : ¬ (['M'] : List Char) = ['m'] := by decide
              simp only [hm, ↓reduceIte, ne_eq, not_true_eq_false] at hx
              split at hx
              · obtain ⟨a, -, heq⟩ := (map_ok_iff _ _ _).mp hx
                simp only [Prod.mk.injEq] at heq; exact heq.1
              · simp only [Outcome.ok.injEq, Prod.mk.injEq] at hx; exact hx.1.symm
            subst this
            exact deriveLoop_pub_hardened o ok v rest idxs key hl hh
          · rw [he]; exact ⟨_, rfl⟩
          · exact absurd hs (pathStart_not_panic o v ok _ _ _)
        · simp at hp
  · intro k i h; exact derivePrivateKey_public o k i h
  · intro a k i h; exact ⟨derivePrivateKey_depth255 o k i h, derivePublicKey_depth255 o a k i h⟩
  · intro master path e h; exact deriveExtendedKey_err_of_syntax o v ok master path e h
  · intro master path st; exact deriveExtendedKey_not_panic o v ok master path st
  · intro a k i st
    exact ⟨derivePrivateKey_not_panic o ok k i st, derivePublicKey_not_panic o a ok k i st, extendedPublicKey_not_panic o ok k st⟩

/-! ## `is_private_key_valid` -/

/-- the statement one would like: `is_private_key_valid k ↔ 0 < k < n`.  FALSE of the code — see below. -/
def C08_key_range_full : Prop :=
  ∀ key : Bytes, isPrivateKeyValid key = true ↔ (key.length = 32 ∧ 0 < beNat key ∧ beNat key < n)

/-- witness: `ff…ff 00…00` (16 + 16 bytes) is `≥ n` but accepted, because the first loop looks for ANY
    position with `key[i] < ORDER[i]` without requiring the earlier bytes to be equal.  Not reachable
    through derivation (needs `I_L ≥ n`, probability 2⁻¹²⁸) and harmless there: `SecretKey::from_slice`
    rejects the value right after (`C08_key_range`). -/
theorem C08_key_range_full_false : ¬ C08_key_range_full := by
  intro h
  have := (h (List.replicate 16 0xff ++ List.replicate 16 0x00)).mp (by decide)
  exact absurd this.2.2 (by decide)

/-- what does hold of `is_private_key_valid` alone: no key in range is rejected; an accepted key has 32
    bytes and is non-zero -/
theorem C08_key_range_partial (key : Bytes) :
    (key.length = 32 → 0 < beNat key → beNat key < n → isPrivateKeyValid key = true) ∧
    (isPrivateKeyValid key = true → key.length = 32 ∧ 0 < beNat key) :=
  ⟨isPrivateKeyValid_of_range key, isPrivateKeyValid_nonzero key⟩

/-- the check the derivation functions actually perform on `I_L` (`is_private_key_valid` followed by
    `SecretKey::from_slice`) is exactly `0 < I_L < n`, and yields that scalar -/
theorem C08_key_range (I : Bytes) (hI : I.length = 64) (v : Nat) :
    offsetScalar I = .ok v ↔ (0 < beNat (I.take 32) ∧ beNat (I.take 32) < n ∧ v = beNat (I.take 32)) :=
  offsetScalar_ok_iff I hI v

/-! ## the defects of the pinned tree, as theorems about the `pinned` model -/

/-- (a) the pinned `derive_public_key` adds the offset point to itself: with parent `K = 5·G` and
    `I_L = 1` it returns `2·G` where CKDpub is `6·G` (the repaired model returns `6·G`). -/
theorem C08_pinned_ckdpub_differs :
    keyData <$> okOf (derivePublicKey false (toyOps 1) (serialize (toParams (toyOps 1)) (toyKey (.pub (toyPoint 5)))) 0) = some (2 :: natBE 32 2) ∧
    keyData <$> (childPub (toParams (toyOps 1)) (toyKey (.pub (toyPoint 5))) 0).map (serialize (toParams (toyOps 1))) = some (2 :: natBE 32 6) ∧
    keyData <$> okOf (derivePublicKey true (toyOps 1) (serialize (toParams (toyOps 1)) (toyKey (.pub (toyPoint 5)))) 0) = some (2 :: natBE 32 6) := by
  decide

/-- (b) for every master and all parameters the pinned `derive_extended_key(master, "M")` returns the
    master unchanged — for a private master, its private serialization, which is not `N(master)` -/
theorem C08_pinned_M_returns_private {P : Type} (o : Ops P) (x : XKey P) (k : Nat) (hk : x.key = .priv k) :
    deriveExtendedKey pinned o (serialize (toParams o) x) ['M'] = .ok (serialize (toParams o) x) ∧
    serialize (toParams o) x ≠ serialize (toParams o) (toPublic (toParams o) x) := by
  refine ⟨by simp [deriveExtendedKey, splitOn, pathStart, pinned, deriveLoop], ?_⟩
  intro h
  have hv := congrArg version h
  rw [serialize_eq_lay, serialize_eq_lay, version_lay, version_lay] at hv
  have h1 : x.isPrivate = true := by simp [XKey.isPrivate, hk]
  have h2 : (toPublic (toParams o) x).isPrivate = false := by simp [XKey.isPrivate, toPublic]
  rw [h1, h2] at hv
  have hn : (toPublic (toParams o) x).net = x.net := rfl
  rw [hn] at hv
  cases hnet : x.net <;> rw [hnet] at hv <;> simp [Spec.Bip32.versionBytes] at hv

/-- (c) the pinned parser accepts malformed components that the repaired one rejects -/
theorem C08_pinned_parser_lenient :
    parsePath pinned "m/1''".toList = .ok (.priv, [2147483649]) ∧
    parsePath pinned "m/1Hh'".toList = .ok (.priv, [2147483649]) ∧
    parsePath pinned "m/+1".toList = .ok (.priv, [1]) ∧
    (∃ e, parsePath repaired "m/1''".toList = .err e) ∧ (∃ e, parsePath repaired "m/1Hh'".toList = .err e) ∧
    (∃ e, parsePath repaired "m/+1".toList = .err e) := by
  refine ⟨by decide, by decide, by decide, ⟨"BadArgument", by decide⟩, ⟨"BadArgument", by decide⟩, ⟨"BadArgument", by decide⟩⟩

/-- model = BIP-32 WITHOUT the side condition is false: with an HMAC whose `I_L` is 0 the code
    rejects (`Invalid key. Try next index.`) a child that BIP-32 defines (`k_i = k_par`) -/
def C08_eq_spec_full : Prop :=
  ∀ (o : Ops (Fin n)) (_ : OpsOK o) (x : XKey (Fin n)) (_ : XWF o x) (k : Nat) (_ : x.key = .priv k) (i : Nat),
    okOf (derivePrivateKey o (serialize (toParams o) x) i) = (childPriv (toParams o) x i).map (serialize (toParams o))

/-! ## the side conditions cannot be dropped; the hypotheses are satisfiable -/

/-- the side condition of the step and path theorems cannot be dropped: `C08_eq_spec_full` is false
    (artificial HMAC with `I_L = 0`; no such input is known for HMAC-SHA512) -/
theorem C08_eq_spec_full_false : ¬ C08_eq_spec_full := by
  intro h
  have := h (toyOps 0) (toyOps_ok 0) (toyKey (.priv 5))
    (toyKey_wf 0 _ (by intro k hk; cases hk; decide) (by intro K hK; cases hK)) 5 rfl 0
  exact absurd this (by decide)

-- non-vacuity: the hypotheses of the step / path / commutation theorems hold for the toy parameters
example : ¬ PrivEdge (toParams (toyOps 1)) 5 (toyKey (.priv 5)).chain 0 := by unfold PrivEdge; decide
example : ¬ PubEdge (toParams (toyOps 1)) (toyPoint 5) (toyKey (.pub (toyPoint 5))).chain 0 := by unfold PubEdge; decide
example : NoEdge (toParams (toyOps 1)) (toyKey (.priv 5)) .priv [] := trivial
example : (deriveExtendedKey repaired (toyOps 1) (serialize (toParams (toyOps 1)) (toyKey (.priv 5))) "m/0/1'".toList).isOk = true := by
  decide
example : (deriveExtendedKey repaired (toyOps 1) (serialize (toParams (toyOps 1)) (toyKey (.priv 5))) "M/0/1".toList).isOk = true := by
  decide
example : Denotes "m/0/1'/2h/3H".toList true [0, 2147483649, 2147483650, 2147483651] :=
  (C08_parse_path _ .priv _).mp (by decide)
example : ∃ e, deriveExtendedKey repaired (toyOps 1) (serialize (toParams (toyOps 1)) (toyKey (.pub (toyPoint 5)))) "M/0'".toList = .err e :=
  ⟨"BadArgument", by decide⟩
-- the commutation square on the toy group, computed: both sides are the same 78 bytes
example : (derivePrivateKey (toyOps 1) (serialize (toParams (toyOps 1)) (toyKey (.priv 5))) 7).bind (extendedPublicKey (toyOps 1)) =
    (extendedPublicKey (toyOps 1) (serialize (toParams (toyOps 1)) (toyKey (.priv 5)))).bind
      (fun xp => derivePublicKey true (toyOps 1) xp 7) := by decide

end CG.Props.C08

import CG.Proofs.RxOnce
import CG.Proofs.RxSingle
import CG.Model.RxExplore
/-!
# C13 — Event publication never loses or duplicates events under concurrency

Model: `CG.Model.Rx` — a transition system at the granularity of individual lock / condvar
operations of `util::rx` (`Subject`, `Single`, `Poller`, `Observable::poll`), `util::future`,
`util::latch`, in two instances: `Algo.pinned` (the code as pinned) and `Algo.repaired` (snapshot
publication, `/verif/proposed_fixes/C13-rx-snapshot-publication.patch`).
Spec: `CG.Spec.EventSpec` (histories).  Tie to the code: schedule replay through the H2 sync-point
hooks (`harness/src/c13.rs`, `CG.Drv.C13`).

* On the pinned algorithm the property is **false**; three concrete schedules are refuted by `decide`.
* On the repaired algorithm the positive theorems hold for **any number of threads, any programs, any
  schedule** (including spurious condvar wake-ups): they are proved by invariants over all reachable
  states, not by exploration.
* `CG.Model.RxExplore` additionally explores the stated bound (≤ 3 threads × ≤ 2 operations)
  exhaustively by evaluation — bounded model exploration, labelled as such, not a proof.
-/
namespace CG.Props.C13
open CG.Model.Rx CG.Spec.EventSpec

/-- the state reached from the initial state of `progs` (thread `t` runs `progs[t]`) under `sched` -/
def reach (a : Algo) (kd : Kind) (behs : List Beh) (progs : List (List Op)) (sched : List Act) : Sys :=
  runActs (init a kd behs progs) sched

/-! ## The full statements, for either algorithm -/

/-- plain subject: every history satisfies `ExactlyOnce` -/
def ExactlyOnceStmt (a : Algo) : Prop :=
  ∀ (behs : List Beh) (progs : List (List Op)) (sched : List Act), ExactlyOnce (reach a .subject behs progs sched).hist

/-- single-shot subject: every history satisfies `SingleOnce` -/
def SingleOnceStmt (a : Algo) : Prop :=
  ∀ (behs : List Beh) (progs : List (List Op)) (sched : List Act), SingleOnce (reach a .single behs progs sched).hist

/-- no interleaving deadlocks: in every reachable state some thread can move, unless every unfinished
    thread is a poller waiting (un-signalled, latch closed) for an event that has not been published -/
def DeadlockFreeStmt (a : Algo) : Prop :=
  ∀ (kd : Kind) (behs : List Beh) (progs : List (List Op)) (sched : List Act),
    let s := reach a kd behs progs sched
    (∃ t, t < s.n ∧ enabled s t = true) ∨ (∀ t, finished s t = true ∨ legitWait s t = true)

/-! ## The code as pinned: the property is refuted -/

theorem run_eq_runActs (s : Sys) (sched : List Tid) : run s sched = runActs s (sched.map Act.run) := by
  unfold run runActs
  induction sched generalizing s with
  | nil => rfl
  | cons t ts ih => simp only [List.foldl_cons, List.map_cons]; exact ih _

/-- Thread 0: `subscribe(o0); publish(7)`, thread 1: `subscribe(o1)`.  Thread 0 takes the write lock of
    `observers`; thread 1's `try_write` fails *because of the other subscriber*, o1 is parked in `pending`
    and `subscribe(o1)` returns; thread 0 returns and publishes: o1 is not in `observers` yet. -/
def lostProgs : List (List Op) := [[.sub 0, .pub 7], [.sub 1]]
def lostSched : List Tid := [0, 1, 1, 1, 0, 0, 0, 0, 0, 0, 0, 0, 0, 0, 0, 0]
/-- the history of that run: o1's subscription returned (position 2) before the publication began
    (position 4), the publication ended (position 6), o1 got nothing -/
def lostHist : Hist :=
  [.subBegin 0 (.user 0) 0, .subBegin 1 (.user 1) 1, .subRet 1 (.user 1) 1, .subRet 0 (.user 0) 0,
   .pubBegin 0 7 2, .deliver 0 (.user 0) 0 7 2, .pubEnd 0 7 2]

theorem lost_run : (run (init .pinned .subject [] lostProgs) lostSched).hist = lostHist := by decide

theorem lostHist_not_exactlyOnce : ¬ ExactlyOnce lostHist := by
  intro H
  obtain ⟨m, t'', h1, h2, h3⟩ := H.neverLost 4 6 0 7 2 (by decide) (by decide) (by decide) 2 1 1 1 (by decide) (by decide)
    (by
      intro m t hm heq
      have : m = 0 ∨ m = 1 ∨ m = 2 ∨ m = 3 ∨ m = 4 ∨ m = 5 := by omega
      rcases this with rfl | rfl | rfl | rfl | rfl | rfl <;> simp [lostHist] at heq)
  have : m = 5 := by omega
  subst this
  simp [lostHist] at h3

/-- **Lost subscription** (pinned algorithm): an observer whose `subscribe` had returned misses an event
    whose publication began afterwards. -/
theorem C13_lost_subscription : ¬ ExactlyOnceStmt .pinned := by
  intro H
  have := H [] lostProgs (lostSched.map Act.run)
  unfold reach at this
  rw [← run_eq_runActs, lost_run] at this
  exact lostHist_not_exactlyOnce this

/-- the same program on a single-shot subject; schedule: both take the value read lock, thread 0 pushes
    first, thread 1 is parked in `pending`, thread 0 emits -/
def singleSched : List Tid := [0, 1, 0, 1, 1, 1, 1] ++ List.replicate 20 0

set_option maxRecDepth 4000 in
theorem single_run : (run (init .pinned .single [] lostProgs) singleSched).hist = lostHist := by decide

theorem lostHist_not_singleOnce : ¬ SingleOnce lostHist := by
  intro H
  obtain ⟨m, t'', h1, h2⟩ := H.everySubscriber 4 6 0 7 2 ⟨by decide, by
      intro i' t' e' p' hi heq
      have : i' = 0 ∨ i' = 1 ∨ i' = 2 ∨ i' = 3 := by omega
      rcases this with rfl | rfl | rfl | rfl <;> simp [lostHist] at heq⟩ (by decide) 2 1 1 1 (by decide)
    (by
      intro m t hm heq
      have : m = 0 ∨ m = 1 ∨ m = 2 ∨ m = 3 ∨ m = 4 ∨ m = 5 := by omega
      rcases this with rfl | rfl | rfl | rfl | rfl | rfl <;> simp [lostHist] at heq)
  have : m = 0 ∨ m = 1 ∨ m = 2 ∨ m = 3 ∨ m = 4 ∨ m = 5 := by omega
  rcases this with rfl | rfl | rfl | rfl | rfl | rfl <;> simp [lostHist] at h2

/-- **Single-shot value never delivered** (pinned algorithm): the parked subscriber of a `Single` never
    receives its one value (and a `poll()` parked that way would block for ever). -/
theorem C13_single_never_delivered : ¬ SingleOnceStmt .pinned := by
  intro H
  have := H [] lostProgs (singleSched.map Act.run)
  unfold reach at this
  rw [← run_eq_runActs, single_run] at this
  exact lostHist_not_singleOnce this

/-- one thread: `subscribe(o0); publish(7)` on a `Single`, o0's callback subscribes o1 -/
def deadProgs : List (List Op) := [[.sub 0, .pub 7]]
def deadBehs : List Beh := [.cbSub 1, .plain]
def deadSched : List Tid := List.replicate 8 0

theorem dead_run :
    let s := run (init .pinned .single deadBehs deadProgs) deadSched
    s.n = 1 ∧ enabled s 0 = false ∧ finished s 0 = false ∧ legitWait s 0 = false ∧
    hd s 0 = some (.pqReadV (.user 1)) ∧ s.lockV.writer = some 0 := by decide

/-- **Re-entrant deadlock** (pinned algorithm): `Single::next` emits while holding `value.write()`; a
    subscription made from inside an observer callback asks for `value.read()` on the same thread. -/
theorem C13_single_reentrant_deadlock : ¬ DeadlockFreeStmt .pinned := by
  intro H
  have := H .single deadBehs deadProgs (deadSched.map Act.run)
  simp only [reach, ← run_eq_runActs] at this
  obtain ⟨hn, he, hf, hl, -, -⟩ := dead_run
  rcases this with ⟨t, ht, hte⟩ | hall
  · rw [hn] at ht
    have : t = 0 := by omega
    subst this; rw [he] at hte; cases hte
  · rcases hall 0 with h | h
    · rw [hf] at h; cases h
    · rw [hl] at h; cases h

/-! ## The repaired algorithm: any number of threads, any programs, any schedule -/

/-- **Exactly once** (plain subject): an observer whose `subscribe` call returned before a publication
    began, and which is alive until the publication ended, receives that event — once per subscription,
    never twice, and nothing is delivered that was not subscribed and published.  Subscriptions made from
    inside a callback are ordinary subscriptions of the publishing thread and are covered. -/
theorem C13_exactly_once : ExactlyOnceStmt .repaired := by
  intro behs progs sched
  exact exactlyOnce_reach behs progs sched

/-- **Single-shot exactly once**: only the first publication's value is ever delivered, at most once per
    subscription, and every subscription that has returned has been served once the emission is over —
    whether it subscribed before, during or after the emission (including from inside a callback of the
    emission). -/
theorem C13_single_exactly_once : SingleOnceStmt .repaired := by
  intro behs progs sched
  exact singleOnce_reach behs progs sched

/-- **No interleaving deadlocks.** -/
theorem C13_deadlock_free : DeadlockFreeStmt .repaired := by
  intro kd behs progs sched
  exact enabled_or_legit (Inv3_reach kd behs progs sched)

/-- **No lost wake-up** (one waiter per latch, as `poll` creates them): a thread asleep in
    `Condvar::wait` on a latch whose flag is set has been signalled, or the thread that set the flag still
    holds the latch mutex and its very next operation is the `notify_one` — and that operation is enabled.
    The flag is checked under the mutex that `open` holds. -/
theorem C13_latch_no_lost_wakeup (kd : Kind) (behs : List Beh) (progs : List (List Op)) (sched : List Act)
    (t : Tid) (a k : Nat) :
    let s := reach .repaired kd behs progs sched
    waitingOn s t = some (a, k) → s.lOpen a k = true →
      a = t ∧ ((s.thr t).woken = true ∨ ∃ u, u < s.n ∧ hd s u = some (.putNotify a k) ∧ enabled s u = true) := by
  intro s hw ho
  have I : Inv3 s := Inv3_reach kd behs progs sched
  have hh : hd s t = some (.getReacq a k) := by
    unfold waitingOn at hw
    split at hw
    · rename_i a' k' r hc; simp at hw; obtain ⟨rfl, rfl⟩ := hw; simp [hd, hc]
    · cases hw
  refine ⟨I.g.a.go t _ (List.mem_of_mem_head? hh) a rfl, ?_⟩
  cases hwk : (s.thr t).woken with
  | true => exact .inl rfl
  | false =>
    right
    obtain ⟨u, hu⟩ := I.g.l.hw t a k hh ho hwk
    have hun := lt_n_of_cont I.g.a hu
    refine ⟨u, hun, hu, ?_⟩
    cases hc : (s.thr u).cont with
    | nil => simp [hd, hc] at hu
    | cons j r =>
      have : j = .putNotify a k := by simpa [hd, hc] using hu
      subst this
      exact enabled_of_execE hun hc (execE_alwaysOn s u rfl)

/-- **A blocking wait is never blocked with the flag set**: a thread asleep in `poll()` whose latch has been
    opened (the event it waits for has been put into its future) can move, or the thread holding the latch
    mutex can — with `C13_deadlock_free`: the only way for a `poll()` to wait for ever is that no event is
    published.  ("Returns once published" as a safety statement; no fairness is assumed.) -/
theorem C13_poll_returns (kd : Kind) (behs : List Beh) (progs : List (List Op)) (sched : List Act) (t : Tid) (a k : Nat) :
    let s := reach .repaired kd behs progs sched
    waitingOn s t = some (a, k) → s.lOpen a k = true →
      enabled s t = true ∨ ∃ u, u < s.n ∧ s.lockL a k = some u ∧ enabled s u = true := by
  intro s hw ho
  exact waiter_not_blocked (Inv3_reach kd behs progs sched) hw ho

/-- a signalled waiter whose latch mutex is free can move -/
theorem C13_woken_waiter_enabled (kd : Kind) (behs : List Beh) (progs : List (List Op)) (sched : List Act)
    (t : Tid) (a k : Nat) :
    let s := reach .repaired kd behs progs sched
    waitingOn s t = some (a, k) → (s.thr t).woken = true → s.lockL a k = none → enabled s t = true := by
  intro s hw hwk hl
  have I : Inv3 s := Inv3_reach kd behs progs sched
  unfold waitingOn at hw
  split at hw
  · rename_i a' k' r hc
    simp at hw; obtain ⟨rfl, rfl⟩ := hw
    have ht : t < s.n := lt_n_of_cont I.g.a (by simp [hd, hc] : hd s t = some (.getReacq a' k'))
    exact enabled_of_execE ht hc (by simp [execE, hwk, hl])
  · cases hw

/-- **Remark (multi-waiter caveat of `notify_one`).** With two waiters asleep on one shared latch, `open`
    sets the flag and wakes one of them; the other stays asleep with the flag set and nothing left to run.
    `poll()` never shares a latch, so this does not arise through the `Observable` API. -/
theorem C13_remark_notify_one_wakes_one :
    let s := MultiLatch.run { asleep := 2 } [.opener, .opener, .opener, .waiter]
    s.flag = true ∧ s.asleep = 1 ∧ s.returned = 1 ∧ MultiLatch.stuck s = true := by decide

/-! ## Non-vacuity: the hypotheses are satisfiable, the statements have content -/

/-- a repaired run in which a subscription returns before a publication begins — and is served -/
example : (run (init .repaired .subject [] lostProgs) [0, 0, 1, 1, 0, 0, 0, 0, 0, 0]).hist =
    [.subBegin 0 (.user 0) 0, .subRet 0 (.user 0) 0, .subBegin 1 (.user 1) 1, .subRet 1 (.user 1) 1,
     .pubBegin 0 7 2, .deliver 0 (.user 0) 0 7 2, .deliver 0 (.user 1) 1 7 2, .pubEnd 0 7 2] := by decide

/-- a reachable state of the repaired algorithm in which a poller legitimately waits (nothing published) -/
example : let s := run (init .repaired .subject [] [[.poll]]) [0, 0, 0, 0]
    waitingOn s 0 = some (0, 0) ∧ legitWait s 0 = true ∧ enabled s 0 = false := by decide

/-- and one in which it has been signalled and can move -/
example : let s := run (init .repaired .subject [] [[.poll], [.pub 5]]) [0, 0, 0, 0, 1, 1, 1, 1, 1, 1]
    waitingOn s 0 = some (0, 0) ∧ s.lOpen 0 0 = true ∧ (s.thr 0).woken = true := by decide

/-! ## Bounded model exploration (NOT a proof): sample programs, all interleavings -/

#guard (Explore.run1 .repaired .subject [] [[.sub 0, .pub 1], [.sub 1, .pub 2]]) == ⟨305, 74, 0⟩
#guard (Explore.run1 .repaired .single [] [[.sub 0, .pub 1], [.sub 1, .pub 2]]) == ⟨4365, 1132, 0⟩
#guard (Explore.run1 .repaired .single [.cbSub 1, .plain] [[.sub 0, .pub 7]]).bad == 0
#guard (Explore.run1 .pinned .subject [] [[.sub 0, .pub 1], [.sub 1, .pub 2]]).bad != 0

end CG.Props.C13

import CG.Proofs.WireAlloc
/-!
# C06 — decoding hostile bytes never panics, aborts, hangs or over-allocates

Subject: `CG.Model.WireAlloc` — the C05 wire decoders instrumented with an allocation log and an
iteration counter, under the allocation policy of the REPAIRED tree (`Policy.capped L`:
`capped_capacity` / `read_bytes` of `util/serdes.rs` with `MAX_PREALLOC_BYTES = L`).  Every theorem
quantifies over ALL byte strings `b` (complete, truncated, random), over every payload decoder
(`Kind`, 32 of them: all of `src/messages/*.rs` plus `var_int`, `MessageHeader`, `BloomFilter`) and,
for `Message::read`, over every hash function `H` and every network magic.

* `C06_decoder_is_C05`      the instrumented decoder returns what the C05 decoder returns
* `C06_no_panic…`           decoding is `ok` or `err`, never `panic`
* `C06_steps_le_input…`     loop iterations ≤ input length + 3 (no hang); `C06_ok_consumes`: one byte per iteration
* `C06_alloc_bounded…`      every allocation request ≤ 16·|input| + C  (C = `bigC L`; + `MAX_PAYLOAD_SIZE`
                            for `Message::read`, `block` messages declaring more than that exempt)
* `C06_validate_total…`     the `validate()` methods never panic
* `C06_tree_…`, `C06_within_rule…`  the constants of the tree under test, and the verdict the driver prints
* `C06_pinned_…`            witnesses: under the pinned policy the same statements are false
-/
namespace CG.Props.C06
open CG CG.Model.Wire CG.Model.WireAlloc

/-! ## the instrumented decoders are the C05 decoders -/

theorem C06_decoder_is_C05 (L : Nat) (k : Kind) (b : Bytes) :
    (k.dec (.capped L) b).out = k.codec.dec b := (Kind.cert k).erase b

/-! ## never a panic -/

theorem C06_no_panic (L : Nat) (k : Kind) (b : Bytes) (s : String) :
    (k.dec (.capped L) b).out ≠ .panic s := (Kind.cert k).nopanic b s

/-- so the C05 decoders themselves never panic, on any input -/
theorem C06_no_panic_C05 (k : Kind) (b : Bytes) (s : String) : k.codec.dec b ≠ .panic s := by
  rw [← C06_decoder_is_C05 0 k b]; exact C06_no_panic 0 k b s

theorem C06_no_panic_message (L : Nat) (H : Bytes → Bytes) (magic b : Bytes) (s : String) :
    (readMessageA (.capped L) H magic b).out ≠ .panic s := (readMessageA_facts H magic b).2.2 s

/-! ## never a hang: iterations are bounded by the input -/

theorem C06_steps_le_input (L : Nat) (k : Kind) (b : Bytes) :
    (k.dec (.capped L) b).steps ≤ b.length + 3 := (Kind.cert k).steps b

/-- on success every iteration has consumed at least one byte of its own -/
theorem C06_ok_consumes (L : Nat) (k : Kind) (b : Bytes) (a : k.Val) (r : Bytes)
    (h : (k.dec (.capped L) b).out = .ok (a, r)) : r.length + (k.dec (.capped L) b).steps ≤ b.length := by
  have := (Kind.cert (L := L) k).consume b a r h; omega

theorem C06_steps_le_input_message (L : Nat) (H : Bytes → Bytes) (magic b : Bytes) :
    (readMessageA (.capped L) H magic b).steps ≤ b.length + 3 := (readMessageA_facts H magic b).1

/-! ## never an allocation beyond a multiple of the input plus a constant -/

theorem C06_alloc_bounded (L : Nat) (k : Kind) (b : Bytes) :
    ∀ r ∈ (k.dec (.capped L) b).log, r ≤ 16 * b.length + bigC L := (Kind.cert k).alloc b

/-- `Message::read`: additionally the payload buffer the header check allows.  A `block` message
    declaring more than `MAX_PAYLOAD_SIZE` is exempt from the size cap by design. -/
theorem C06_alloc_bounded_message (L : Nat) (H : Bytes → Bytes) (magic b : Bytes) (h : ¬ OversizeBlock b) :
    ∀ r ∈ (readMessageA (.capped L) H magic b).log, r ≤ 16 * b.length + bigC L + MAX_PAYLOAD_SIZE :=
  (readMessageA_facts H magic b).2.1 h

/-! ## the tree under test -/

/-- the regenerated `MAX_PREALLOC_BYTES`: the tree is repaired, with a cap of 1 MiB -/
theorem C06_tree_policy : treePolicy = .capped 1048576 := by decide

/-- the constant of the bound for this tree: the `Inv` vector (50 000 × 36 bytes) dominates the cap -/
theorem C06_tree_constant : bigC 1048576 = 1800512 := by decide

/-- the rule shared with the harness (`RULE_K · len + RULE_C`) is implied by the theorem's bound -/
theorem C06_rule_covers : 16 ≤ RULE_K ∧ bigC 1048576 ≤ RULE_C := by decide

/-- the verdict the driver prints for a payload is always `alloc-ok` -/
theorem C06_within_rule (k : Kind) (b : Bytes) :
    maxLog (k.dec treePolicy b).log ≤ RULE_K * b.length + RULE_C := by
  rw [C06_tree_policy]
  apply maxLog_le
  intro x hx
  have h1 := C06_alloc_bounded 1048576 k b x hx
  have ⟨h2, h3⟩ := C06_rule_covers
  have h4 : 16 * b.length ≤ RULE_K * b.length := Nat.mul_le_mul_right _ h2
  omega

theorem C06_within_rule_message (H : Bytes → Bytes) (magic b : Bytes) (h : ¬ OversizeBlock b) :
    maxLog (readMessageA treePolicy H magic b).log ≤ RULE_K * b.length + RULE_C + MAX_PAYLOAD_SIZE := by
  rw [C06_tree_policy]
  apply maxLog_le
  intro x hx
  have h1 := C06_alloc_bounded_message 1048576 H magic b h x hx
  have ⟨h2, h3⟩ := C06_rule_covers
  have h4 : 16 * b.length ≤ RULE_K * b.length := Nat.mul_le_mul_right _ h2
  omega

/-! ## `validate()` -/

/-- every modelled argument-free validator, on every value of its type -/
theorem C06_validate_total (k : Kind) (v : k.Val → Outcome Unit) (hv : k.validate = some v) (a : k.Val)
    (s : String) : v a ≠ .panic s := Kind.validate_total k v hv a s

/-- the eight `validate()` calls of `Message::read_partial`, by name -/
theorem C06_validate_total_read_partial (s : String) :
    (∀ v, filterAddValidate v ≠ .panic s) ∧ (∀ v, filterLoadValidate v ≠ .panic s) ∧
    (∀ v, versionValidate v ≠ .panic s) ∧ (∀ v, protoconfValidate v ≠ .panic s) ∧
    (∀ v, authchValidate v ≠ .panic s) ∧ (∀ v, createstrmValidate v ≠ .panic s) ∧
    (∀ v, streamackValidate v ≠ .panic s) ∧ (∀ v, cmpctblockValidateNow v ≠ .panic s) :=
  ⟨fun v => filterAddValidate_total v s, fun v => filterLoadValidate_total v s,
   fun v => versionValidate_total v s, fun v => protoconfValidate_total v s,
   fun v => authchValidate_total v s, fun v => createstrmValidate_total v s,
   fun v => streamackValidate_total v s, fun v => cmpctblockValidateNow_total v s⟩

/-- the amount loop of `PrefilledTransaction::validate` / `Blocktxn::validate` cannot overflow `i64`:
    the running total never exceeds `MAX_SATOSHIS` -/
theorem C06_amount_sum_no_overflow (outs : List TxOut) (s : String) : sumOutputsNow outs 0 ≠ .panic s :=
  sumOutputsNow_total outs 0 (by decide) s

/-! ## the pinned tree violates the property (witnesses)

`Tx::read` on ten bytes: version 1, input count `0xfe ffffff0f` = 2^28 − 1. -/

def hostileTx : Bytes := [1, 0, 0, 0, 0xfe, 0xff, 0xff, 0xff, 0x0f, 0]
/-- the same with a count of 2^64 − 1 -/
def hostileTxMax : Bytes := [1, 0, 0, 0, 0xff, 0xff, 0xff, 0xff, 0xff, 0xff, 0xff, 0xff, 0xff, 0]

/-- pinned: `Vec::with_capacity(2^28 − 1)` of 64-byte inputs is a 17 GB request for a 10-byte payload -/
theorem C06_pinned_tx_over_allocates :
    (txA .pinned hostileTx).log = [17179869120] ∧ ¬ (17179869120 ≤ 16 * hostileTx.length + bigC 1048576) := by
  decide

/-- pinned: a count of 2^64 − 1 is the `capacity overflow` panic -/
theorem C06_pinned_tx_panics : (txA .pinned hostileTxMax).out = .panic "capacity overflow" := by decide

/-- pinned: `vec![0; n]` with a 4 GiB length in a 9-byte `filteradd` payload -/
theorem C06_pinned_filteradd_over_allocates :
    (filterAddA .pinned [0xff, 0, 0, 0, 0, 1, 0, 0, 0]).log = [4294967296] := by decide

/-- repaired: the same inputs are an I/O error, with at most the cap requested -/
theorem C06_repaired_tx_witness :
    (txA (.capped 1048576) hostileTx).out = .err "IoError" ∧ (txA (.capped 1048576) hostileTx).log = [1048576] ∧
    (txA (.capped 1048576) hostileTxMax).out = .err "IoError" := by decide

/-- the full statement, as a predicate of the policy -/
def AllocBounded (P : Policy) : Prop :=
  ∀ (k : Kind) (b : Bytes), ∀ r ∈ (k.dec P b).log, r ≤ 16 * b.length + bigC 1048576
def NoPanic (P : Policy) : Prop := ∀ (k : Kind) (b : Bytes) (s : String), (k.dec P b).out ≠ .panic s

theorem C06_repaired_holds : AllocBounded (.capped 1048576) ∧ NoPanic (.capped 1048576) :=
  ⟨C06_alloc_bounded 1048576, C06_no_panic 1048576⟩

theorem C06_pinned_fails : ¬ AllocBounded .pinned ∧ ¬ NoPanic .pinned := by
  refine ⟨fun h => ?_, fun h => ?_⟩
  · exact C06_pinned_tx_over_allocates.2 (h .tx hostileTx 17179869120 (by rw [show Kind.dec .pinned .tx = txA .pinned from rfl, C06_pinned_tx_over_allocates.1]; simp))
  · exact h .tx hostileTxMax "capacity overflow" C06_pinned_tx_panics

/-! ## the hypotheses are satisfiable, the statements not vacuous -/

/-- a well-formed `tx` decodes, its log is not empty, its loops ran -/
example :
    let b : Bytes := [1, 0, 0, 0, 1] ++ List.replicate 36 7 ++ [2, 0xaa, 0xbb, 9, 0, 0, 0, 1, 5, 0, 0, 0, 0, 0, 0, 0, 0, 0, 0, 0, 0]
    (txA (.capped 1048576) b).out.isOk = true ∧ (txA (.capped 1048576) b).log = [64, 2, 32, 0] ∧
      (txA (.capped 1048576) b).steps = 2 := by decide

/-- an ordinary message is not an oversize block; an oversize block exists -/
example : ¬ OversizeBlock ([0xe3, 0xe1, 0xf3, 0xe8] ++ [118, 101, 114, 97, 99, 107, 0, 0, 0, 0, 0, 0] ++ [0, 0, 0, 0, 0x5d, 0xf6, 0xe0, 0xe2]) := by
  decide
example : OversizeBlock ([0, 0, 0, 0] ++ ofNats Generated.C05_CMD_BLOCK ++ [1, 0, 0, 2, 0, 0, 0, 0]) := by decide

end CG.Props.C06

import CG.Proofs.Bloom
/-!
# C20 — Bloom filters: no false negatives, BIP-37 bit positions, no panic, limits, filterload

Property theorems only.  Model: `CG.Model.Bloom` (mirrors `util/bloom_filter.rs`,
`messages/filter_load.rs`, `util/var_int.rs`); specification: `CG.Spec.Bip37Bloom`.
The MurmurHash3 crate is a parameter `H : UInt32 → Bytes → UInt32` (seed, data): every theorem holds
for whatever it computes.  `dbg` ranges over the two build profiles (overflow checks on / off).
The bound `len < 2^29` is where `len as u32 * 8` stops fitting in a `u32`; it is 14 913 times the
protocol limit of 36 000 bytes and 16 times `MAX_PAYLOAD_SIZE`.
-/
namespace CG.Props.C20
open CG CG.Model.Bloom CG.Proofs.Bloom
open CG.Spec.Bip37Bloom (getBit setBitAt position positions seed)

/-- the limits compiled into the current tree are BIP-37's (36 000 bytes, 50 functions) -/
theorem C20_limits_are_bip37 :
    maxFilterSize = Spec.Bip37Bloom.maxFilterSize ∧ maxHashFuncs = Spec.Bip37Bloom.maxHashFuncs := by
  decide

/-! ## no false negatives -/

/-- **No false negatives.**  After `add f data` — for every filter (empty ones included), every
    number of hash functions, every tweak, every hash function, both profiles — and after *any*
    list of further `add`s of other elements, `contains data` is `true`.  Nothing panics on the way. -/
theorem C20_add_then_contains (H : HashFn) (dbg : Bool) (f : BloomFilter) (data : Bytes)
    (others : List Bytes) (hl : f.filter.length < 2 ^ 29) :
    ∃ f1 f2, add H dbg f data = .ok f1 ∧ addAll H dbg f1 others = .ok f2 ∧
      contains H dbg f2 data = .ok true := by
  have hlen1 := insert_length H f.filter f.numHashFuncs f.tweak data
  obtain ⟨f2, h1, h2, h3, h4, h5⟩ := addAll_spec H dbg
    { f with filter := Spec.Bip37Bloom.insert H f.filter f.numHashFuncs f.tweak data } others
    (by simp only [hlen1]; exact hl)
  simp only at h2 h3 h4 h5
  refine ⟨_, f2, add_eq_spec H dbg f data hl, h1, ?_⟩
  rw [contains_eq_spec H dbg f2 data (by rw [h2, hlen1]; exact hl)]
  congr 1
  unfold Spec.Bip37Bloom.contains
  by_cases he : f2.filter.isEmpty
  · simp [he]
  · simp only [he, Bool.false_eq_true, if_false, List.all_eq_true]
    have h0 : 0 < f.filter.length := by
      rw [← hlen1, ← h2]
      cases hf : f2.filter with
      | nil => simp [hf] at he
      | cons _ _ => simp
    rw [h2, hlen1, h3, h4]
    intro p hp
    apply h5
    rw [getBit_insert H f.filter _ _ data p h0]
    simp [hp]

/-- bits are only ever set: an `add` never clears a bit of the field -/
theorem C20_add_monotone (H : HashFn) (dbg : Bool) (f f' : BloomFilter) (data : Bytes)
    (hl : f.filter.length < 2 ^ 29) (h : add H dbg f data = .ok f') (j : Nat)
    (hj : getBit f.filter j = true) : getBit f'.filter j = true := by
  rw [add_eq_spec H dbg f data hl] at h
  injection h with h
  subst h
  exact getBit_insert_mono H _ _ _ data j hj

/-! ## BIP-37 bit positions -/

/-- the set of bit indexes of an element is
    `{ murmur3(seed = (i·0xFBA4C795 + tweak) mod 2^32, data) mod nbits | i < nHash }` -/
theorem C20_positions_formula (H : HashFn) (nbits nHash tweak : Nat) (data : Bytes) (j : Nat) :
    j ∈ positions H nbits nHash tweak data ↔
      ∃ i, i < nHash ∧
        j = (H (UInt32.ofNat ((i * 0xFBA4C795 + tweak) % 2 ^ 32)) data).toNat % nbits := by
  simp only [positions, position, seed, List.mem_map, List.mem_range]
  constructor
  · rintro ⟨i, hi, rfl⟩; exact ⟨i, hi, rfl⟩
  · rintro ⟨i, hi, rfl⟩; exact ⟨i, hi, rfl⟩

/-- bit `idx` lives in byte `idx / 8` at bit `idx mod 8` (`vData[idx >> 3] & (1 << (idx & 7))`) -/
theorem C20_bit_layout (flt : Bytes) (idx : Nat) :
    getBit flt idx = (flt.getD (idx / 8) 0).toNat.testBit (idx % 8) := rfl

/-- **Bit positions.**  `add` on a non-empty filter succeeds, keeps length, function count and tweak,
    and afterwards bit `j` is set iff it was set before or `j` is one of the element's BIP-37
    positions over `8·len` bits — no other bit changes. -/
theorem C20_bit_positions (H : HashFn) (dbg : Bool) (f : BloomFilter) (data : Bytes)
    (h0 : 0 < f.filter.length) (hl : f.filter.length < 2 ^ 29) :
    ∃ f', add H dbg f data = .ok f' ∧ f'.filter.length = f.filter.length ∧
      f'.numHashFuncs = f.numHashFuncs ∧ f'.tweak = f.tweak ∧
      ∀ j, getBit f'.filter j =
        (getBit f.filter j ||
          decide (j ∈ positions H (8 * f.filter.length) f.numHashFuncs f.tweak data)) :=
  ⟨_, add_eq_spec H dbg f data hl, insert_length .., rfl, rfl,
    fun j => getBit_insert H f.filter _ _ data j h0⟩

/-- `add` and `contains` are the BIP-37 reference insertion / query (Bitcoin Core's behaviour on
    an empty bit field: insertion is a no-op, the query answers `true`). -/
theorem C20_add_contains_eq_spec (H : HashFn) (dbg : Bool) (f : BloomFilter) (data : Bytes)
    (hl : f.filter.length < 2 ^ 29) :
    add H dbg f data =
      .ok { f with filter := Spec.Bip37Bloom.insert H f.filter f.numHashFuncs f.tweak data } ∧
    contains H dbg f data = .ok (Spec.Bip37Bloom.contains H f.filter f.numHashFuncs f.tweak data) :=
  ⟨add_eq_spec H dbg f data hl, contains_eq_spec H dbg f data hl⟩

/-- the query answers `true` exactly when every one of the element's positions is set -/
theorem C20_contains_iff (H : HashFn) (dbg : Bool) (f : BloomFilter) (data : Bytes)
    (h0 : 0 < f.filter.length) (hl : f.filter.length < 2 ^ 29) :
    contains H dbg f data = .ok true ↔
      ∀ i, i < f.numHashFuncs →
        getBit f.filter (position H (8 * f.filter.length) f.tweak data i) = true := by
  rw [contains_eq_spec H dbg f data hl]
  have : f.filter.isEmpty = false := by
    cases hf : f.filter with
    | nil => simp [hf] at h0
    | cons _ _ => rfl
  simp [Spec.Bip37Bloom.contains, this, positions]

/-! ## order of insertion is irrelevant -/

/-- **Insertion order is irrelevant.**  Adding `a` then `b`, or `b` then `a`, succeeds either way and
    yields filters of the same length, function count and tweak whose bit fields agree at every bit
    index — for every filter, hash function, tweak and profile. -/
theorem C20_add_commutes (H : HashFn) (dbg : Bool) (f : BloomFilter) (a b : Bytes)
    (hl : f.filter.length < 2 ^ 29) :
    ∃ fab fba, addAll H dbg f [a, b] = .ok fab ∧ addAll H dbg f [b, a] = .ok fba ∧
      fab.filter.length = fba.filter.length ∧ fab.numHashFuncs = fba.numHashFuncs ∧
      fab.tweak = fba.tweak ∧ ∀ j, getBit fab.filter j = getBit fba.filter j := by
  have la := insert_length H f.filter f.numHashFuncs f.tweak a
  have lb := insert_length H f.filter f.numHashFuncs f.tweak b
  refine ⟨{ f with filter := (Spec.Bip37Bloom.insert H (Spec.Bip37Bloom.insert H f.filter f.numHashFuncs f.tweak a) f.numHashFuncs f.tweak b) },
          { f with filter := (Spec.Bip37Bloom.insert H (Spec.Bip37Bloom.insert H f.filter f.numHashFuncs f.tweak b) f.numHashFuncs f.tweak a) },
          ?_, ?_, ?_, rfl, rfl, ?_⟩
  · simp only [addAll]
    rw [add_eq_spec H dbg f a hl]
    simp only
    rw [add_eq_spec H dbg _ b (by simp only [la]; exact hl)]
  · simp only [addAll]
    rw [add_eq_spec H dbg f b hl]
    simp only
    rw [add_eq_spec H dbg _ a (by simp only [lb]; exact hl)]
  · simp only [insert_length]
  · intro j
    by_cases h0 : 0 < f.filter.length
    · simp only
      rw [getBit_insert H _ _ _ b j (by rw [la]; exact h0), getBit_insert H _ _ _ a j h0,
          getBit_insert H _ _ _ a j (by rw [lb]; exact h0), getBit_insert H _ _ _ b j h0, la, lb]
      cases getBit f.filter j <;> cases decide (j ∈ positions H (8 * f.filter.length) f.numHashFuncs f.tweak a)
        <;> cases decide (j ∈ positions H (8 * f.filter.length) f.numHashFuncs f.tweak b) <;> rfl
    · have : f.filter = [] := by
        cases hf : f.filter with
        | nil => rfl
        | cons _ _ => simp [hf] at h0
      obtain ⟨flt, n, t⟩ := f
      simp only at this
      subst this
      simp [Spec.Bip37Bloom.insert]

/-- consequently no query can tell the two insertion orders apart -/
theorem C20_add_commutes_queries (H : HashFn) (dbg : Bool) (f fab fba : BloomFilter) (a b q : Bytes)
    (hl : f.filter.length < 2 ^ 29)
    (hab : addAll H dbg f [a, b] = .ok fab) (hba : addAll H dbg f [b, a] = .ok fba) :
    contains H dbg fab q = contains H dbg fba q := by
  obtain ⟨x, y, hx, hy, h1, h2, h3, h4⟩ := C20_add_commutes H dbg f a b hl
  rw [hab] at hx; rw [hba] at hy
  injection hx with hx; injection hy with hy
  subst hx; subst hy
  have lab : fab.filter.length < 2 ^ 29 := by
    have : fab.filter.length = f.filter.length := by
      simp only [addAll] at hab
      rw [add_eq_spec H dbg f a hl] at hab
      simp only at hab
      rw [add_eq_spec H dbg _ b (by simp only [insert_length]; exact hl)] at hab
      injection hab with hab
      subst hab
      simp only [insert_length]
    omega
  rw [contains_eq_spec H dbg fab q lab, contains_eq_spec H dbg fba q (by rw [← h1]; exact lab)]
  congr 1
  unfold Spec.Bip37Bloom.contains
  have he : fab.filter.isEmpty = fba.filter.isEmpty := by
    cases h5 : fab.filter <;> cases h6 : fba.filter <;> simp [h5, h6] at h1 ⊢
  rw [he, h1, h2, h3]
  split
  · rfl
  · apply List.all_congr rfl
    intro p
    exact h4 p

/-- **The bit field after any list of insertions**, exactly: bit `j` is set iff it was set before or
    `j` is a BIP-37 position of one of the elements.  Length, function count and tweak are kept.
    (The right-hand side does not depend on the order of `ds`: any permutation, and any repetition,
    of the elements gives the same bits.) -/
theorem C20_addAll_bits (H : HashFn) (dbg : Bool) (ds : List Bytes) (f : BloomFilter)
    (h0 : 0 < f.filter.length) (hl : f.filter.length < 2 ^ 29) :
    ∃ f2, addAll H dbg f ds = .ok f2 ∧ f2.filter.length = f.filter.length ∧
      f2.numHashFuncs = f.numHashFuncs ∧ f2.tweak = f.tweak ∧
      ∀ j, getBit f2.filter j =
        (getBit f.filter j ||
          ds.any (fun d => decide (j ∈ positions H (8 * f.filter.length) f.numHashFuncs f.tweak d))) := by
  induction ds generalizing f with
  | nil => exact ⟨f, rfl, rfl, rfl, rfl, by simp⟩
  | cons d ds ih =>
    have ld := insert_length H f.filter f.numHashFuncs f.tweak d
    obtain ⟨f2, e, l2, n2, t2, b2⟩ :=
      ih { f with filter := Spec.Bip37Bloom.insert H f.filter f.numHashFuncs f.tweak d }
        (by simp only [ld]; exact h0) (by simp only [ld]; exact hl)
    simp only at l2 n2 t2 b2
    refine ⟨f2, ?_, by rw [l2, ld], n2, t2, ?_⟩
    · simp only [addAll]
      rw [add_eq_spec H dbg f d hl]
      exact e
    · intro j
      rw [b2 j, getBit_insert H _ _ _ d j h0, ld, List.any_cons, Bool.or_assoc]

/-- order and multiplicity of insertions are irrelevant: two lists with the same elements give the same bits -/
theorem C20_addAll_order_irrelevant (H : HashFn) (dbg : Bool) (ds es : List Bytes) (f f1 f2 : BloomFilter)
    (h0 : 0 < f.filter.length) (hl : f.filter.length < 2 ^ 29) (hse : ∀ d, d ∈ ds ↔ d ∈ es)
    (h1 : addAll H dbg f ds = .ok f1) (h2 : addAll H dbg f es = .ok f2) (j : Nat) :
    getBit f1.filter j = getBit f2.filter j := by
  obtain ⟨x, ex, _, _, _, bx⟩ := C20_addAll_bits H dbg ds f h0 hl
  obtain ⟨y, ey, _, _, _, by'⟩ := C20_addAll_bits H dbg es f h0 hl
  rw [h1] at ex; rw [h2] at ey
  injection ex with ex; injection ey with ey
  subst ex; subst ey
  rw [bx j, by' j]
  congr 1
  rw [Bool.eq_iff_iff]
  simp only [List.any_eq_true, decide_eq_true_eq]
  constructor
  · rintro ⟨d, hd, hp⟩; exact ⟨d, (hse d).mp hd, hp⟩
  · rintro ⟨d, hd, hp⟩; exact ⟨d, (hse d).mpr hd, hp⟩

/-- **When exactly a query answers `true` after a list of insertions** (the false-positive condition,
    stated outright): every one of the queried element's positions was set in the original field or is
    a position of one of the inserted elements. -/
theorem C20_contains_after_addAll_iff (H : HashFn) (dbg : Bool) (ds : List Bytes) (f f2 : BloomFilter)
    (q : Bytes) (h0 : 0 < f.filter.length) (hl : f.filter.length < 2 ^ 29)
    (h : addAll H dbg f ds = .ok f2) :
    contains H dbg f2 q = .ok true ↔
      ∀ i, i < f.numHashFuncs →
        (getBit f.filter (position H (8 * f.filter.length) f.tweak q i) = true ∨
         ∃ d ∈ ds, position H (8 * f.filter.length) f.tweak q i ∈
            positions H (8 * f.filter.length) f.numHashFuncs f.tweak d) := by
  obtain ⟨x, ex, l2, n2, t2, b2⟩ := C20_addAll_bits H dbg ds f h0 hl
  rw [h] at ex
  injection ex with ex
  subst ex
  rw [C20_contains_iff H dbg f2 q (by rw [l2]; exact h0) (by rw [l2]; exact hl), l2, n2, t2]
  constructor
  · intro hh i hi
    have := hh i hi
    rw [b2] at this
    simpa [List.any_eq_true] using this
  · intro hh i hi
    rw [b2]
    simpa [List.any_eq_true] using hh i hi

/-! ## no panic -/

/-- **No panic** in `add`, `contains`, `validate` for every filter (empty ones included), every
    function count, tweak, element, hash function, in both profiles. -/
theorem C20_no_panic (H : HashFn) (dbg : Bool) (f : BloomFilter) (data : Bytes)
    (hl : f.filter.length < 2 ^ 29) (s : String) :
    add H dbg f data ≠ .panic s ∧ contains H dbg f data ≠ .panic s ∧ validate f ≠ .panic s := by
  refine ⟨?_, ?_, ?_⟩
  · rw [add_eq_spec H dbg f data hl]; simp
  · rw [contains_eq_spec H dbg f data hl]; simp
  · unfold validate; split
    · simp
    · split <;> simp

/-- `validate` never panics, whatever the size -/
theorem C20_validate_total (f : BloomFilter) :
    validate f = .ok () ∨ validate f = .err "BadData" := by
  unfold validate; split
  · exact .inr rfl
  · split
    · exact .inr rfl
    · exact .inl rfl

/-- `validate` accepts exactly the protocol limits -/
theorem C20_validate_iff (f : BloomFilter) :
    validate f = .ok () ↔ f.filter.length ≤ 36000 ∧ f.numHashFuncs ≤ 50 := by
  unfold validate
  have h1 : maxFilterSize = 36000 := by decide
  have h2 : maxHashFuncs = 50 := by decide
  rw [h1, h2]
  split
  · simp; omega
  · split
    · simp; omega
    · simp; omega

/-- decoding a `filterload` payload never panics; a filter decoded from any payload a peer can send
    (`≤ MAX_PAYLOAD_SIZE` bytes) never panics when used. -/
theorem C20_no_panic_decoded (H : HashFn) (dbg : Bool) (b : Bytes) (data : Bytes) (s : String) :
    flRead b ≠ .panic s ∧
    ∀ m r, flRead b = .ok (m, r) → b.length ≤ CG.Generated.MAX_PAYLOAD_SIZE →
      add H dbg m.bloom data ≠ .panic s ∧ contains H dbg m.bloom data ≠ .panic s ∧
      flValidate m ≠ .panic s := by
  constructor
  · exact flRead_ne_panic b s
  · intro m r h hb
    have hlen := (flRead_ok h).1
    have : CG.Generated.MAX_PAYLOAD_SIZE < 2 ^ 29 := by decide
    exact C20_no_panic H dbg m.bloom data (by omega) s

/-- the repair changes nothing on a non-empty bit field -/
theorem C20_fix_conservative (H : HashFn) (dbg : Bool) (f : BloomFilter) (data : Bytes)
    (h0 : 0 < f.filter.length) :
    addWith false H dbg f data = add H dbg f data ∧
    containsWith false H dbg f data = contains H dbg f data := by
  have : f.filter.isEmpty = false := by
    cases hf : f.filter with
    | nil => simp [hf] at h0
    | cons _ _ => rfl
  simp [add, contains, addWith, containsWith, this]

/-- the full statement for the pinned tree (no early return) … -/
def C20_no_panic_pinned : Prop :=
  ∀ (H : HashFn) (dbg : Bool) (f : BloomFilter) (data : Bytes) (s : String),
    f.filter.length < 2 ^ 29 →
    addWith false H dbg f data ≠ .panic s ∧ containsWith false H dbg f data ≠ .panic s

/-- … is false: the ten-byte payload `00 01000000 00000000 00` decodes, passes `validate`, and the
    decoded filter (empty bit field, one hash function) panics in `add` and in `contains` (`% 0`),
    for every hash function, element and profile. -/
theorem C20_pinned_empty_filter_panics (H : HashFn) (dbg : Bool) (data : Bytes) :
    let f : BloomFilter := { filter := [], numHashFuncs := 1, tweak := 0 }
    flRead [0, 1, 0, 0, 0, 0, 0, 0, 0, 0] = .ok ({ bloom := f, flags := 0 }, []) ∧
    validate f = .ok () ∧
    addWith false H dbg f data = .panic "attempt to calculate the remainder with a divisor of zero" ∧
    containsWith false H dbg f data = .panic "attempt to calculate the remainder with a divisor of zero" := by
  refine ⟨by decide, by decide, ?_, ?_⟩
  · simp [addWith, addLoop, addStep, bitIndex, modulus]
  · simp [containsWith, containsLoop, bitIndex, modulus]

theorem C20_no_panic_pinned_false : ¬ C20_no_panic_pinned := by
  intro h
  have := (h (fun _ _ => 0) true { filter := [], numHashFuncs := 1, tweak := 0 } []
    "attempt to calculate the remainder with a divisor of zero" (by decide)).1
  exact this (C20_pinned_empty_filter_panics (fun _ _ => 0) true []).2.2.1

/-! ## the constructor stays within the protocol limits -/

/-- **Constructor.**  Whatever the two floating-point size formulas evaluate to — any finite double
    (a rational), `+∞`, `-∞`, NaN — the filter built by `new` has at most 36 000 bytes (all zero) and
    at most 50 hash functions, passes `validate`, and `new` never panics. -/
theorem C20_constructor_within_limits (insertOk prOk : Bool) (sizeRaw nhRaw : F64v) (tweak : Nat) :
    (∀ s, new insertOk prOk sizeRaw nhRaw tweak ≠ .panic s) ∧
    ∀ f, new insertOk prOk sizeRaw nhRaw tweak = .ok f →
      f.filter.length ≤ 36000 ∧ f.numHashFuncs ≤ 50 ∧ validate f = .ok () ∧
      (∀ b ∈ f.filter, b = 0) ∧ f.tweak = tweak := by
  have h1 : maxFilterSize = 36000 := by decide
  have h2 : maxHashFuncs = 50 := by decide
  constructor
  · intro s; unfold new; split
    · simp
    · split <;> simp
  · intro f hf
    unfold new at hf
    split at hf
    · simp at hf
    · split at hf
      · simp at hf
      · injection hf with hf
        subst hf
        have a := minConst_ceil_le sizeRaw maxFilterSize (by decide)
        have b := minConst_ceil_le nhRaw maxHashFuncs (by decide)
        rw [h1] at a; rw [h2] at b
        have hv := (C20_validate_iff
          { filter := List.replicate (sizeRaw.minConst maxFilterSize).ceilAsUsize 0,
            numHashFuncs := (nhRaw.minConst maxHashFuncs).ceilAsUsize, tweak := tweak }).2
        simp only [List.length_replicate, h1, h2] at hv ⊢
        refine ⟨a, b, hv ⟨a, b⟩, ?_, by trivial⟩
        intro x hx
        exact (List.mem_replicate.mp hx).2

/-- the model's `ceil` is the mathematical ceiling of `num / (den+1)` -/
theorem C20_ceil_is_ceiling (n : Int) (d : Nat) :
    n ≤ ceilDiv n d * ((d : Int) + 1) ∧ (ceilDiv n d - 1) * ((d : Int) + 1) < n :=
  ceilDiv_spec n d

/-! ## filterload encoding -/

/-- **Round trip.**  A filter within the protocol limits passes through the `filterload` encoding
    unchanged (any trailing bytes are left unread), and the encoding has `size()` bytes. -/
theorem C20_filterload_roundtrip (m : FilterLoad) (rest : Bytes) (hv : flValidate m = .ok ())
    (ht : m.bloom.tweak < 2 ^ 32) (hf : m.flags < 256) :
    flRead (flWrite m ++ rest) = .ok (m, rest) ∧ (flWrite m).length = flSize m := by
  have ⟨a, b⟩ := (C20_validate_iff m.bloom).1 hv
  exact ⟨flRead_write m rest (by omega) (by omega) ht hf, flSize_eq m⟩

/-- the round trip holds for every filter whose fields fit their wire types -/
theorem C20_filterload_roundtrip_any (m : FilterLoad) (rest : Bytes)
    (hlen : m.bloom.filter.length < 2 ^ 64) (hn : m.bloom.numHashFuncs < 2 ^ 32)
    (ht : m.bloom.tweak < 2 ^ 32) (hf : m.flags < 256) :
    flRead (flWrite m ++ rest) = .ok (m, rest) := flRead_write m rest hlen hn ht hf

/-- a decoded value re-encodes to what was consumed: decode → encode → decode is a fixpoint -/
theorem C20_filterload_decode_fixpoint (b r : Bytes) (m : FilterLoad) (hb : b.length < 2 ^ 64)
    (h : flRead b = .ok (m, r)) : flRead (flWrite m ++ r) = .ok (m, r) := by
  have ⟨a, b', c, d⟩ := flRead_ok h
  exact flRead_write m r (by omega) b' c d

/-- the bytes written are the BIP-37 `filterload` layout -/
theorem C20_filterload_layout (m : FilterLoad) (hv : flValidate m = .ok ()) :
    flWrite m =
      Spec.Bip37Bloom.filterload m.bloom.filter m.bloom.numHashFuncs m.bloom.tweak m.flags := by
  have ⟨a, _⟩ := (C20_validate_iff m.bloom).1 hv
  unfold flWrite Spec.Bip37Bloom.filterload
  congr 3
  · unfold varIntWrite Spec.Bip37Bloom.compactSize
    by_cases h1 : m.bloom.filter.length ≤ 252
    · rw [if_pos h1, if_pos (by omega)]
    · rw [if_neg h1, if_pos (by omega), if_neg (by omega), if_pos (by omega)]
      have : m.bloom.filter.length / 256 % 256 = m.bloom.filter.length / 256 := by omega
      simp [natToLEn, this]
  · simp [natToLEn, Spec.Bip37Bloom.u32le, Nat.div_div_eq_div_mul]
  · simp [natToLEn, Spec.Bip37Bloom.u32le, Nat.div_div_eq_div_mul]

/-! ## Non-vacuity: the hypotheses are satisfiable, on both sides of each boundary -/

/-- a toy hash function (the seed itself) to make the examples computable by the kernel -/
private def toyH : HashFn := fun seed _ => seed

example : add toyH true ⟨[0, 0], 2, 3⟩ [7] = .ok ⟨[0x08, 0x01], 2, 3⟩ := by decide
example : contains toyH true ⟨[0x08, 0x01], 2, 3⟩ [7] = .ok true := by decide
example : contains toyH true ⟨[0x08, 0x00], 2, 3⟩ [7] = .ok false := by decide
example : add toyH false ⟨[], 1, 0⟩ [] = .ok ⟨[], 1, 0⟩ := by decide
example : addAll toyH true ⟨[0, 0], 2, 3⟩ [[7], [9]] = addAll toyH true ⟨[0, 0], 2, 3⟩ [[9], [7], [9]] := by decide
example : (0 : Nat) < ([0, 0] : Bytes).length ∧ ([0, 0] : Bytes).length < 2 ^ 29 := by decide
example : contains toyH false ⟨[], 1, 0⟩ [] = .ok true := by decide
example (flt : Bytes) (h : flt.length = 36000) : validate ⟨flt, 50, 0⟩ = .ok () :=
  (C20_validate_iff _).2 ⟨by simp [h], by simp⟩
example (flt : Bytes) (h : flt.length = 36001) : validate ⟨flt, 50, 0⟩ ≠ .ok () := by
  rw [Ne, C20_validate_iff]; simp [h]
example : validate ⟨[], 51, 0⟩ = .err "BadData" := by decide
example : new true true (.fin 7 1) (.fin 11 2) 9 = .ok ⟨[0, 0, 0, 0], 4, 9⟩ := by decide
example : (F64v.posInf.minConst maxFilterSize).ceilAsUsize = 36000 := by decide
example : (F64v.nan.minConst maxHashFuncs).ceilAsUsize = 50 := by decide
example : ((F64v.fin 36000001 999).minConst maxFilterSize).ceilAsUsize = 36000 := by decide
example : ((F64v.fin 35999001 999).minConst maxFilterSize).ceilAsUsize = 36000 := by decide
example : ((F64v.fin 35999000 999).minConst maxFilterSize).ceilAsUsize = 35999 := by decide
example : (new true true .negInf (.fin (-5) 0) 9).map (fun f => (f.filter.length, f.numHashFuncs)) =
    .ok (0, 0) := by decide
example : new false true .nan .nan 0 = .err "BadArgument" := by decide
example : flWrite ⟨⟨[0xb5, 0x0f], 11, 0⟩, 1⟩ = [2, 0xb5, 0x0f, 11, 0, 0, 0, 0, 0, 0, 0, 1] := by decide
example : flRead [2, 0xb5, 0x0f, 11, 0, 0, 0, 0, 0, 0, 0, 1] = .ok (⟨⟨[0xb5, 0x0f], 11, 0⟩, 1⟩, []) := by
  decide
example : flRead [2, 0xb5, 0x0f, 11, 0, 0, 0, 0, 0, 0, 0] = .err "IoError" := by decide

end CG.Props.C20

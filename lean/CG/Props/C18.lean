import CG.Proofs.PyGlue
import CG.Props.C01
import CG.Props.C02
import CG.Props.C07
/-!
# C18 — Python bindings are a faithful, panic-free view of the Rust core

"Every operation exposed to Python … returns the same result as the corresponding Rust operation on
the same data, and the Python-level evaluation verdict equals the core's top-of-stack rule.  Invalid
arguments raise ordinary Python exceptions and never surface a Rust panic, and supplying a
signature-hash value does not change the evaluation of scripts that perform no signature checks."

What can be PROVED is the routing logic of the glue (`CG.Model.PyGlue`) on top of the interpreter and
signature-hash models; "same result as the Rust operation" is a statement about two implementations
of one function and is decided differentially on every run (Rust API vs the built extension).

* `C18_checker_irrelevant` — a run under the checker that fails every call (the
  `TransactionlessChecker`) which does not end in that checker's own error never consulted the checker:
  every checker, started in the same state, gives the identical result (stacks, position, state).
* `C18_z_does_not_change_eval` — hence `py_script_eval` and the repaired `py_script_eval_pystack`
  return the same thing with and without `z` on every script that performs no signature check.
  The pinned `py_script_eval_pystack` does not (`C18_z_changes_eval_pinned`: the swapped
  `(break_at, start_at)`), so the full statement for the pinned routing is refuted.
* `C18_verdict_is_top_of_stack` — the repaired `Context.evaluate` is `decode_bool` of the top item,
  i.e. "the numeric value of the top item is non-zero", and coincides with `Script::eval`'s verdict;
  the pinned one inspects the bottom with a comparison that never matches
  (`C18_verdict_pinned_bottom_of_stack`).
* `C18_wrappers_no_panic` — every modelled wrapper of the repaired glue maps every argument to a
  value or an ordinary exception; the pinned `unwrap`/`expect` sites are witnessed
  (`C18_pinned_unwrap_panics`).
-/
namespace CG.Props.C18
open CG CG.Model.ScriptNum CG.Model.Interp CG.Model.PyGlue CG.Model.TxSer

/-! ### 1. checker irrelevance -/

/-- **Checker irrelevance.**  For every script, flag word, start/break offsets and initial stacks:
    if the evaluation under the checker that fails every call does not end in that checker's error,
    then every checker `C` (any behaviour whatsoever, same state type and initial state) produces
    exactly the same outcome — same stacks, same reported position, same (untouched) checker state,
    or the same error. -/
theorem C18_checker_irrelevant {σ : Type} (H : Hashes) (C : Checker σ) (c0 : σ) (script : Bytes)
    (flags : Nat) (start brk : Option Nat) (stack alt : Option Stack)
    (h : coreEval H (tless σ) c0 script flags start brk stack alt ≠ .err "IllegalState") :
    coreEval H C c0 script flags start brk stack alt
      = coreEval H (tless σ) c0 script flags start brk stack alt :=
  coreEval_tless H C c0 script flags start brk stack alt h

/-- the form quoted in the design: a *successful* run under the always-failing checker is the run
    under every checker -/
theorem C18_checker_irrelevant_ok {σ : Type} (H : Hashes) (C : Checker σ) (c0 : σ) (script : Bytes)
    (flags : Nat) (start brk : Option Nat) (stack alt : Option Stack) (r : EvalResult σ)
    (h : coreEval H (tless σ) c0 script flags start brk stack alt = .ok r) :
    coreEval H C c0 script flags start brk stack alt = .ok r := by
  rw [C18_checker_irrelevant H C c0 script flags start brk stack alt (by rw [h]; simp), h]

/-- two arbitrary checkers agree on every script whose failing-checker run performs no check -/
theorem C18_any_two_checkers_agree {σ : Type} (H : Hashes) (C C' : Checker σ) (c0 : σ) (script : Bytes)
    (flags : Nat) (start brk : Option Nat) (stack alt : Option Stack)
    (h : coreEval H (tless σ) c0 script flags start brk stack alt ≠ .err "IllegalState") :
    coreEval H C c0 script flags start brk stack alt = coreEval H C' c0 script flags start brk stack alt := by
  rw [C18_checker_irrelevant H C _ _ _ _ _ _ _ h, C18_checker_irrelevant H C' _ _ _ _ _ _ _ h]

/-- the hypothesis is necessary: a script that does reach a signature check depends on the checker -/
theorem C18_checker_relevant_when_called :
    coreEval ⟨id, id, id, id, id⟩ (tless Unit) () [0x51, 0x51, 0xac] 0 none none none none
      = .err "IllegalState" ∧
    (coreEval ⟨id, id, id, id, id⟩
        (⟨fun c _ _ _ => (.ok true, c), fun _ _ => .ok true, fun _ _ => .ok true⟩ : Checker Unit) ()
        [0x51, 0x51, 0xac] 0 none none none none).map (·.stack) = .ok [[1]] := by
  constructor
  · rfl
  · decide

/-! ### 2. supplying `z` does not change scripts without signature checks -/

/-- **`py_script_eval`**: with any 32-byte `z` the result equals the result without `z`, for every
    script, break offset and k256 behaviour, provided the script performs no signature check. -/
theorem C18_z_does_not_change_eval_simple (H : Hashes) (verify : Bytes → Bytes → Bytes → Outcome Bool)
    (script : Bytes) (brk : Option Nat) (z : Bytes) (hz : z.length = 32)
    (hno : coreEval H (tless Unit) () script 0 none brk none none ≠ .err "IllegalState") :
    pyScriptEval H verify script brk (some z) = pyScriptEval H verify script brk none := by
  unfold pyScriptEval
  simp only [hz, ne_eq, not_true_eq_false, if_false]
  rw [C18_checker_irrelevant H (zChecker Unit verify z) () script 0 none brk none none hno]

/-- **`py_script_eval_pystack` (repaired)**: with any 32-byte `z` the result equals the result
    without `z`, for every script, start and break offset, initial stacks and k256 behaviour,
    provided the script performs no signature check. -/
theorem C18_z_does_not_change_eval (H : Hashes) (verify : Bytes → Bytes → Bytes → Outcome Bool)
    (script : Bytes) (start brk : Option Nat) (z : Bytes) (hz : z.length = 32) (stack alt : Option Stack)
    (hno : coreEval H (tless Unit) () script 0 start brk stack alt ≠ .err "IllegalState") :
    pyScriptEvalPystack false H verify script start brk (some z) stack alt
      = pyScriptEvalPystack false H verify script start brk none stack alt := by
  unfold pyScriptEvalPystack
  simp only [hz, ne_eq, not_true_eq_false, if_false, Bool.false_eq_true]
  rw [C18_checker_irrelevant H (zChecker Unit verify z) () script 0 start brk stack alt hno]

/-- the same through `Context`: the verdict and the stacks do not depend on `z` -/
theorem C18_context_z_irrelevant (H : Hashes) (verify : Bytes → Bytes → Bytes → Outcome Bool)
    (script : Bytes) (s l : Option Nat) (z : Bytes) (hz : z.length = 32)
    (hno : coreEval H (tless Unit) () script 0 (normNat s) (normNat l) (some []) (some [])
            ≠ .err "IllegalState") :
    contextEvaluate false false H verify ⟨script, s, l, some z⟩
      = contextEvaluate false false H verify ⟨script, s, l, none⟩ := by
  have hzn : normZ (some z) = some z := by
    cases z with
    | nil => simp at hz
    | cons a r => rfl
  unfold contextEvaluate
  simp only [hzn]
  rw [C18_z_does_not_change_eval H verify script (normNat s) (normNat l) z hz _ _ hno]
  rfl

def noHashes : Hashes := ⟨id, id, id, id, id⟩
def z32 : Bytes := List.replicate 32 0

theorem ne_err_of_map_ok {α β : Type} {o : Outcome α} {f : α → β} {x : β} (h : o.map f = .ok x) (e : String) :
    o ≠ .err e := by
  intro hc
  rw [hc] at h
  simp [Outcome.map] at h

theorem add_example_no_check :
    coreEval noHashes (tless Unit) () [0x51, 0x52, 0x93] 0 (some 1) (some 2) none none ≠ .err "IllegalState" :=
  ne_err_of_map_ok (f := (·.stack)) (x := [[2]]) (by decide) _

/-- non-vacuity: `OP_1 OP_2 OP_ADD` from offset 1 to offset 2 satisfies the hypothesis and evaluates
    to `[2]` at position 2, with and without `z` -/
example (verify : Bytes → Bytes → Bytes → Outcome Bool) :
    coreEval noHashes (tless Unit) () [0x51, 0x52, 0x93] 0 (some 1) (some 2) none none ≠ .err "IllegalState" ∧
    pyScriptEvalPystack false noHashes verify [0x51, 0x52, 0x93] (some 1) (some 2) (some z32) none none
      = .ok ([[2]], [], some 2) := by
  constructor
  · exact add_example_no_check
  · rfl

/-- the statement for the PINNED routing (swapped offsets in the `z` branch) -/
def C18_z_does_not_change_eval_pinned : Prop :=
  ∀ (H : Hashes) (verify : Bytes → Bytes → Bytes → Outcome Bool) (script : Bytes) (start brk : Option Nat)
    (z : Bytes) (stack alt : Option Stack), z.length = 32 →
    coreEval H (tless Unit) () script 0 start brk stack alt ≠ .err "IllegalState" →
    pyScriptEvalPystack true H verify script start brk (some z) stack alt
      = pyScriptEvalPystack true H verify script start brk none stack alt

/-- **pinned defect**: `py_script_eval_pystack(OP_1 OP_2 OP_ADD, start_at=1, break_at=2, z)` returns
    an empty stack, without `z` it returns `[2]` -/
theorem C18_z_changes_eval_pinned (verify : Bytes → Bytes → Bytes → Outcome Bool) :
    pyScriptEvalPystack true noHashes verify [0x51, 0x52, 0x93] (some 1) (some 2) (some z32) none none
      = .ok ([], [], some 2) ∧
    pyScriptEvalPystack true noHashes verify [0x51, 0x52, 0x93] (some 1) (some 2) none none none
      = .ok ([[2]], [], some 2) := by
  constructor <;> rfl

theorem C18_z_does_not_change_eval_pinned_false : ¬ C18_z_does_not_change_eval_pinned := by
  intro h
  have h1 := h noHashes (fun _ _ _ => .ok true) [0x51, 0x52, 0x93] (some 1) (some 2) z32 none none rfl
    add_example_no_check
  have h2 := C18_z_changes_eval_pinned (fun _ _ _ => .ok true)
  rw [h2.1, h2.2] at h1
  exact absurd h1 (by decide)

/-! ### 3. the Python-level verdict is the core's top-of-stack rule -/

/-- the rule written in the repaired context.py is `decode_bool` -/
theorem C18_pyTruth_is_decode_bool (t : Bytes) : pyTruth t = decodeBool t := rfl

/-- **Verdict.**  The repaired `Context.evaluate` answers `True` exactly when the evaluation
    completed, the stack is non-empty and the numeric value of its TOP item is non-zero (negative
    zero, `00`, `00 00` are false) — `decode_bool` of the top item, the rule of `Script::eval`. -/
theorem C18_verdict_is_top_of_stack (H : Hashes) (verify : Bytes → Bytes → Bytes → Outcome Bool) (c : Ctx)
    (v : Bool) (s a : Stack) (h : contextEvaluate false false H verify c = .ok (v, s, a)) :
    v = true ↔
      ∃ t r p, pyScriptEvalPystack false H verify c.script (normNat c.ipStart) (normNat c.ipLimit)
                (normZ c.z) (some []) (some []) = .ok (t :: r, a, p) ∧ s = t :: r ∧ decodeBool t = true
              ∧ decodeBig t ≠ 0 := by
  unfold contextEvaluate at h
  cases hp : pyScriptEvalPystack false H verify c.script (normNat c.ipStart) (normNat c.ipLimit)
      (normZ c.z) (some []) (some []) with
  | panic p => rw [hp] at h; simp at h
  | err e =>
    rw [hp] at h
    simp only [Outcome.ok.injEq, Prod.mk.injEq] at h
    obtain ⟨hv, _, _⟩ := h
    subst hv
    simp
  | ok o =>
    obtain ⟨s', a', p'⟩ := o
    rw [hp] at h
    simp only [Bool.false_eq_true, if_false, Outcome.ok.injEq, Prod.mk.injEq] at h
    obtain ⟨hv, hs, ha⟩ := h
    subst hs ha
    cases s' with
    | nil =>
      simp only [verdictFixed] at hv
      subst hv
      simp
    | cons t r =>
      simp only [verdictFixed, C18_pyTruth_is_decode_bool] at hv
      subst hv
      constructor
      · intro ht
        exact ⟨t, r, p', rfl, rfl, ht, (CG.Props.C01.C01_decodeBool_iff t).mp ht⟩
      · rintro ⟨t', r', _, heq, _, _, _⟩
        simp only [Outcome.ok.injEq, Prod.mk.injEq, List.cons.injEq] at heq
        obtain ⟨⟨ht, _⟩, _, _⟩ := heq
        subst ht
        assumption

/-- with no offsets and no `z`, `Context.evaluate` (repaired) and `Script::eval` under the
    `TransactionlessChecker` give the same verdict for every script -/
theorem C18_verdict_eq_core_eval (H : Hashes) (verify : Bytes → Bytes → Bytes → Outcome Bool) (script : Bytes) :
    ((contextEvaluate false false H verify ⟨script, none, none, none⟩).map (·.1) = .ok true) ↔
      (Model.Interp.eval H (tless Unit) () script 0 = .ok ()) := by
  have hc : coreEval H (tless Unit) () script 0 none none (some []) (some [])
      = coreEval H (tless Unit) () script 0 none none none none := rfl
  unfold contextEvaluate pyScriptEvalPystack Model.Interp.eval
  simp only [normNat, normZ, hc]
  cases coreEval H (tless Unit) () script 0 none none none none with
  | panic p => simp [toPy, Outcome.map]
  | err e => simp [toPy, Outcome.map]
  | ok r =>
    cases hs : r.stack with
    | nil => simp [toPy, Outcome.map, hs, verdictFixed, scriptErr]
    | cons t rest =>
      cases hb : decodeBool t <;>
        simp [toPy, Outcome.map, hs, verdictFixed, C18_pyTruth_is_decode_bool, hb, scriptErr]

/-- **pinned defect**: the pinned verdict looks at the bottom with a comparison that never matches —
    `OP_1 OP_0` (top false), a lone negative zero and a lone `00 00` are reported true while the
    repaired verdict and the core say false -/
theorem C18_verdict_pinned_bottom_of_stack (verify : Bytes → Bytes → Bytes → Outcome Bool) :
    (contextEvaluate false true noHashes verify ⟨[0x51, 0x00], none, none, none⟩).map (·.1) = .ok true ∧
    (contextEvaluate false false noHashes verify ⟨[0x51, 0x00], none, none, none⟩).map (·.1) = .ok false ∧
    Model.Interp.eval noHashes (tless Unit) () [0x51, 0x00] 0 = .err "ScriptError" ∧
    (contextEvaluate false true noHashes verify ⟨[0x01, 0x80], none, none, none⟩).map (·.1) = .ok true ∧
    (contextEvaluate false false noHashes verify ⟨[0x01, 0x80], none, none, none⟩).map (·.1) = .ok false ∧
    (contextEvaluate false true noHashes verify ⟨[0x02, 0x00, 0x00], none, none, none⟩).map (·.1) = .ok true ∧
    (contextEvaluate false false noHashes verify ⟨[0x02, 0x00, 0x00], none, none, none⟩).map (·.1) = .ok false := by
  refine ⟨rfl, rfl, by decide, rfl, rfl, rfl, rfl⟩

/-- the pinned verdict is true on EVERY stack of two or more items and on every single item other
    than `[]` and `[0]`, whatever the top is -/
theorem C18_verdict_pinned_ignores_top (t u : Bytes) (r : Stack) : verdictPinned (t :: u :: r) = true := rfl

/-! ### 4. the wrappers never panic (repaired glue); the pinned sites do -/

theorem toPy_ne_panic {α : Type} (o : Outcome α) (h : ∀ p, o ≠ .panic p) (p : String) : toPy o ≠ .panic p := by
  cases o with
  | ok a => simp [toPy]
  | err e => simp [toPy]
  | panic q => exact absurd rfl (h q)

theorem map_ne_panic {α β : Type} (f : α → β) (o : Outcome α) (h : ∀ p, o ≠ .panic p) (p : String) :
    o.map f ≠ .panic p := by
  cases o with
  | ok a => simp [Outcome.map]
  | err e => simp [Outcome.map]
  | panic q => exact absurd rfl (h q)

theorem tless_never_panics (σ : Type) : (tless σ).NeverPanics := by
  refine ⟨?_, ?_, ?_⟩ <;> intros <;> simp [tless]

theorem zChecker_never_panics (σ : Type) (verify : Bytes → Bytes → Bytes → Outcome Bool)
    (hv : ∀ z d k p, verify z d k ≠ .panic p) (z : Bytes) : (zChecker σ verify z).NeverPanics := by
  refine ⟨?_, ?_, ?_⟩
  · intro c sig pk scr s
    simp only [zChecker]
    split
    · simp
    · split
      · simp
      · exact hv _ _ _ _
  · intros; simp [zChecker]
  · intros; simp [zChecker]

theorem asTxIns_fixed_no_panic (l : List PyTxIn) : ∀ p : String, asTxIns false l ≠ .panic p := by
  induction l with
  | nil => simp [asTxIns]
  | cons i r ih =>
    intro p
    unfold asTxIns asTxIn hashDecode
    cases hexDecode i.prevTx with
    | none => simp
    | some b =>
      by_cases hl : b.length ≠ 32
      · simp [hl]
      · simp only [hl, if_false]
        cases hr : asTxIns false r with
        | ok ts => simp
        | err e => simp
        | panic q => exact absurd hr (ih q)

theorem asTx_fixed_no_panic (t : PyTx) (p : String) : asTx false t ≠ .panic p := by
  unfold asTx
  cases h : asTxIns false t.txIns with
  | ok ins => simp
  | err e => simp
  | panic q => exact absurd h (asTxIns_fixed_no_panic _ _)

/-- **No wrapper panics** (repaired glue).  For every script, offsets, `z` of any length, initial
    stacks, context, transaction (any id strings), input index, script code, check index, amount,
    type byte, network name, key bytes and integer — and for every hash function, every k256
    verification behaviour that does not itself panic and every key-acceptance predicate — each
    modelled wrapper returns a value or raises an ordinary exception.  (`py_script_eval*` and
    `Context.evaluate` are panic-free in the pinned routing as well.) -/
theorem C18_wrappers_no_panic (H : Hashes) (verify : Bytes → Bytes → Bytes → Outcome Bool)
    (hv : ∀ z d k p, verify z d k ≠ .panic p) (D : Bytes → Bytes) (validKey : Bytes → Bool) (p : String) :
    (∀ script brk z, pyScriptEval H verify script brk z ≠ .panic p) ∧
    (∀ pinned script start brk z stack alt,
        pyScriptEvalPystack pinned H verify script start brk z stack alt ≠ .panic p) ∧
    (∀ pg pv c, contextEvaluate pg pv H verify c ≠ .panic p) ∧
    (∀ t, pyTxId false D t ≠ .panic p) ∧
    (∀ t n code k sat ty, pySigHash false D t n code k sat ty ≠ .panic p) ∧
    (∀ t n code k sat ty, pySigHashPreimage false D t n code k sat ty ≠ .panic p) ∧
    (∀ net key, walletFromBytes false validKey net key ≠ .panic p) ∧
    (∀ net v, walletFromInt false validKey net v ≠ .panic p) ∧
    (∀ s, decodeCombined s ≠ .panic p) := by
  have hcore : ∀ (C : Checker Unit), C.NeverPanics → ∀ script start brk stack alt q,
      coreEval H C () script 0 start brk stack alt ≠ .panic q :=
    fun C hC script start brk stack alt q => CG.Props.C07.C07_no_panic H C hC () script 0 start brk stack alt q
  have hps : ∀ pinned script start brk z stack alt,
      pyScriptEvalPystack pinned H verify script start brk z stack alt ≠ .panic p := by
    intro pinned script start brk z stack alt
    unfold pyScriptEvalPystack
    cases z with
    | none =>
      exact map_ne_panic _ _ (toPy_ne_panic _ (hcore _ (tless_never_panics Unit) _ _ _ _ _)) p
    | some zb =>
      simp only []
      split
      · simp
      · split
        · exact map_ne_panic _ _ (toPy_ne_panic _ (hcore _ (zChecker_never_panics Unit verify hv zb) _ _ _ _ _)) p
        · exact map_ne_panic _ _ (toPy_ne_panic _ (hcore _ (zChecker_never_panics Unit verify hv zb) _ _ _ _ _)) p
  refine ⟨?_, hps, ?_, ?_, ?_, ?_, ?_, ?_, ?_⟩
  · intro script brk z
    unfold pyScriptEval
    cases z with
    | none => exact map_ne_panic _ _ (toPy_ne_panic _ (hcore _ (tless_never_panics Unit) _ _ _ _ _)) p
    | some zb =>
      simp only []
      split
      · simp
      · exact map_ne_panic _ _ (toPy_ne_panic _ (hcore _ (zChecker_never_panics Unit verify hv zb) _ _ _ _ _)) p
  · intro pg pv c
    unfold contextEvaluate
    cases h : pyScriptEvalPystack pg H verify c.script (normNat c.ipStart) (normNat c.ipLimit) (normZ c.z)
        (some []) (some []) with
    | ok o => obtain ⟨s, a, q⟩ := o; simp
    | err e => simp
    | panic q =>
      intro hc
      simp only [Outcome.panic.injEq] at hc
      subst hc
      exact absurd h (hps _ _ _ _ _ _ _)
  · intro t
    unfold pyTxId
    exact toPy_ne_panic _ (fun q => map_ne_panic _ _ (fun q' => asTx_fixed_no_panic t q') q) p
  · intro t n code k sat ty
    unfold pySigHash
    cases h : asTx false t with
    | err e => simp
    | panic q => exact absurd h (asTx_fixed_no_panic _ _)
    | ok tx =>
      simp only []
      have := (CG.Props.C02.C02_never_panics D tx n code k sat ty Model.Sighash.Cache.empty).2.2
      cases hs : (Model.Sighash.sighash D tx n code k sat ty Model.Sighash.Cache.empty).1 with
      | ok d => simp
      | err e => simp
      | panic q => exact absurd hs (this q)
  · intro t n code k sat ty
    unfold pySigHashPreimage
    cases h : asTx false t with
    | err e => simp
    | panic q => exact absurd h (asTx_fixed_no_panic _ _)
    | ok tx =>
      simp only []
      have := (CG.Props.C02.C02_never_panics D tx n code k sat ty Model.Sighash.Cache.empty).2.1
      cases hs : (Model.Sighash.preimage D tx n code k sat ty Model.Sighash.Cache.empty).1 with
      | ok d => simp
      | err e => simp
      | panic q => exact absurd hs (this q)
  · intro net key
    unfold walletFromBytes
    repeat' split
    all_goals simp_all
  · intro net v
    unfold walletFromInt
    simp only []
    repeat' split
    all_goals simp_all
  · intro s
    unfold decodeCombined
    split
    · exact CG.Model.Interp.decodeNum_ne_panic s p
    · simp

/-- the statement for the PINNED glue -/
def C18_wrappers_no_panic_pinned : Prop :=
  ∀ (D : Bytes → Bytes) (validKey : Bytes → Bool) (p : String),
    (∀ t, pyTxId true D t ≠ .panic p) ∧
    (∀ t n code k sat ty, pySigHash true D t n code k sat ty ≠ .panic p) ∧
    (∀ t n code k sat ty, pySigHashPreimage true D t n code k sat ty ≠ .panic p) ∧
    (∀ net key, walletFromBytes true validKey net key ≠ .panic p) ∧
    (∀ net v, walletFromInt true validKey net v ≠ .panic p)

def zeroId : Bytes := List.replicate 64 0x30     -- the string "00…0" (64 characters)

/-- **pinned defects**: `sig_hash` / `sig_hash_preimage` on an out-of-range input index, `Tx.id()`
    with the input id `"zz"`, `Wallet.from_bytes` / `from_int` with the zero key — each is a panic in
    the pinned glue and an ordinary exception in the repaired one -/
theorem C18_pinned_unwrap_panics (D : Bytes → Bytes) :
    let tx : PyTx := ⟨1, [⟨zeroId, 0, [], 0xffffffff⟩], [], 0⟩
    let bad : PyTx := ⟨1, [⟨[0x7a, 0x7a], 0, [], 0xffffffff⟩], [], 0⟩
    let nonZero : Bytes → Bool := fun k => k.any (· != 0)
    pySigHash true D tx 5 [0x51] 0 0 0x41 = .panic "called `Result::unwrap()` on an `Err` value" ∧
    pySigHash false D tx 5 [0x51] 0 0 0x41 = .err "ValueError" ∧
    pySigHashPreimage true D tx 5 [0x51] 0 0 0x41 = .panic "called `Result::unwrap()` on an `Err` value" ∧
    pySigHashPreimage false D tx 5 [0x51] 0 0 0x41 = .err "ValueError" ∧
    pyTxId true D bad = .panic "Error decoding hexstr prev outpoint" ∧
    pyTxId false D bad = .err "ValueError" ∧
    walletFromBytes true nonZero "BSV_Mainnet" (List.replicate 32 0) = .panic "Invalid private key" ∧
    walletFromBytes false nonZero "BSV_Mainnet" (List.replicate 32 0) = .err "ValueError" ∧
    walletFromInt true nonZero "BSV_Mainnet" 0 = .panic "Invalid private key" ∧
    walletFromInt false nonZero "BSV_Mainnet" 0 = .err "ValueError" := by
  refine ⟨rfl, rfl, rfl, rfl, rfl, rfl, by decide, by decide, by decide, by decide⟩

theorem C18_wrappers_no_panic_pinned_false : ¬ C18_wrappers_no_panic_pinned := by
  intro h
  have h1 := (h id (fun k => k.any (· != 0)) "Invalid private key").2.2.2.1 "BSV_Mainnet" (List.replicate 32 0)
  exact h1 (C18_pinned_unwrap_panics id).2.2.2.2.2.2.1

/-! ### 5. stack number conversion -/

/-- `Stack.decode_element` (`decode_number_combined`) is the sign-magnitude value for every length -/
theorem C18_decode_element_eq_bigint (s : Bytes) : decodeCombined s = .ok (decodeBig s) := by
  unfold decodeCombined
  split
  · exact CG.Props.C01.C01_small_num_agree s (by assumption)
  · rfl

/-- pushing an integer (`push_bytes_integer` = `encode_bigint`) and decoding the element returns it -/
theorem C18_push_decode_roundtrip (z : Int) : decodeCombined (encodeBig z) = .ok z := by
  rw [C18_decode_element_eq_bigint, CG.Props.C01.C01_num_roundtrip]

end CG.Props.C18

import CG.Proofs.ScriptBuild
import CG.Proofs.ScriptBuildMulti
import CG.Proofs.ScriptText
import CG.Generated.Tables
/-!
# C16 — Script construction, templates and text form are mutually consistent

Property theorems only.  Models: `CG.Model.ScriptBuild` (`append_data`, `append_num`, `p2pkh.rs`),
`CG.Model.ScriptText` (printer `string_representation(false)`, parser `parse_string`), the interpreter
model `CG.Model.Interp`; reference statements: `CG.Spec.ScriptBuild`.  Hash functions and the checker are
parameters.  The name tables of printer and parser are regenerated from the tree (`CG.Generated.OpNames`).
-/
namespace CG.Props.C16
open CG CG.Model.ScriptNum CG.Model.Interp CG.Model.ScriptBuild CG.Model.ScriptText
open CG.Proofs.ScriptBuild CG.Proofs.ScriptText

/-! ## pushes -/

/-- `append_data` uses OP_0 for the empty string, a direct push up to 75 bytes, PUSHDATA1 up to 255,
    PUSHDATA2 up to 65535 and PUSHDATA4 beyond; the length field is the little-endian length. -/
theorem C16_push_shortest_class (s d : Bytes) (h : d.length < 2 ^ 32) :
    (d.length = 0 → appendData s d = s ++ [0]) ∧
    (1 ≤ d.length ∧ d.length ≤ 75 → appendData s d = s ++ UInt8.ofNat d.length :: d ∧ (UInt8.ofNat d.length).toNat = d.length) ∧
    (76 ≤ d.length ∧ d.length ≤ 255 →
      ∃ f, appendData s d = s ++ 76 :: (f ++ d) ∧ f.length = 1 ∧ leToNat f = d.length) ∧
    (256 ≤ d.length ∧ d.length ≤ 65535 →
      ∃ f, appendData s d = s ++ 77 :: (f ++ d) ∧ f.length = 2 ∧ leToNat f = d.length) ∧
    (65536 ≤ d.length →
      ∃ f, appendData s d = s ++ 78 :: (f ++ d) ∧ f.length = 4 ∧ leToNat f = d.length) := by
  have hp : (2 : Nat) ^ 32 = 4294967296 := by decide
  refine ⟨appendData_empty s d, ?_, ?_, ?_, ?_⟩
  · intro ⟨h1, h2⟩
    exact ⟨appendData_direct s d h1 h2, ofNat_toNat_lt (by omega)⟩
  · intro ⟨h1, h2⟩
    exact ⟨_, appendData_pd1 s d h1 h2, by simp, by rw [leToNat_natToLEn]; exact Nat.mod_eq_of_lt (by omega)⟩
  · intro ⟨h1, h2⟩
    exact ⟨_, appendData_pd2 s d h1 h2, by simp, by rw [leToNat_natToLEn]; exact Nat.mod_eq_of_lt (by omega)⟩
  · intro h1
    exact ⟨_, appendData_pd4 s d h1, by simp, by rw [leToNat_natToLEn]; exact Nat.mod_eq_of_lt (by omega)⟩

/-- the built push is the reference shortest push of the wire format, and its overhead is 1/2/3/5 bytes -/
theorem C16_push_eq_spec (s d : Bytes) (h : d.length < 2 ^ 32) :
    appendData s d = s ++ Spec.ScriptBuild.minimalPush d ∧
    (appendData s d).length = s.length + d.length + Spec.ScriptBuild.overhead d.length := by
  have hp : (2 : Nat) ^ 32 = 4294967296 := by decide
  exact ⟨by rw [appendData_prefix, appendData_eq_spec d (by omega)], appendData_length s d⟩

/-- the data a push instruction leaves on the stack (OP_1..OP_16 / OP_1NEGATE are number opcodes, not
    push-opcode classes) -/
def pushed : Item → Option Bytes
  | .op b => if b = 0 then some [] else none
  | .push d => some d
  | .pd1 d => some d
  | .pd2 d => some d
  | .pd4 d => some d
  | .trunc _ => none

/-- no well-formed push instruction for the same data is shorter than the one `append_data` writes -/
theorem C16_push_is_shortest (it : Item) (d : Bytes) (hwf : it.wf = true) (hd : pushed it = some d) :
    (appendData [] d).length ≤ it.bytes.length := by
  rw [appendData_length]
  unfold Spec.ScriptBuild.overhead
  cases it with
  | op b =>
    simp only [pushed] at hd
    split at hd
    · cases hd; simp [Item.bytes]
    · cases hd
  | push x =>
    simp only [pushed, Option.some.injEq] at hd; subst hd
    simp only [Item.wf, Bool.and_eq_true, decide_eq_true_eq] at hwf
    simp only [Item.bytes, List.length_cons, List.length_nil]
    rw [if_pos (by omega)]; omega
  | pd1 x =>
    simp only [pushed, Option.some.injEq] at hd; subst hd
    simp only [Item.wf, decide_eq_true_eq] at hwf
    simp only [Item.bytes, List.length_cons, List.length_append, natToLEn_length, List.length_nil]
    repeat' split
    all_goals omega
  | pd2 x =>
    simp only [pushed, Option.some.injEq] at hd; subst hd
    simp only [Item.wf, decide_eq_true_eq] at hwf
    simp only [Item.bytes, List.length_cons, List.length_append, natToLEn_length, List.length_nil]
    repeat' split
    all_goals omega
  | pd4 x =>
    simp only [pushed, Option.some.injEq] at hd; subst hd
    simp only [Item.bytes, List.length_cons, List.length_append, natToLEn_length, List.length_nil]
    repeat' split
    all_goals omega
  | trunc r => simp [Item.wf] at hwf

/-- A push built for any data shorter than 2^32 bytes evaluates — whatever the checker, the hash functions
    and the flags — to exactly that data on the stack (empty alt stack, no error, no panic). -/
theorem C16_push_evaluates_to_data {σ : Type} (H : Hashes) (C : Checker σ) (c0 : σ) (flags : Nat) (d : Bytes)
    (h : d.length < 2 ^ 32) :
    coreEval H C c0 (appendData [] d) flags none none none none
      = .ok { stack := [d], alt := [], pos := none, chk := c0 } := by
  have hp : (2 : Nat) ^ 32 = 4294967296 := by decide
  exact coreEval_push H C c0 flags d (by omega)

/-- **Any number of pushes, at whatever offsets they land.**  The script built by appending the data of a list one after
    the other evaluates — whatever the checker, hash functions and flags — to exactly those data, the first at the bottom
    (head of the model's stack list = top), with an empty alt stack, no error and no panic.  The one-push theorem above is
    the case of a push at offset 0; here every later push starts at a non-zero offset (each of the four length classes). -/
theorem C16_pushes_evaluate_to_data {σ : Type} (H : Hashes) (C : Checker σ) (c0 : σ) (flags : Nat) (ds : List Bytes)
    (h : ∀ d ∈ ds, d.length < 2 ^ 32) :
    coreEval H C c0 (ds.foldl appendData []) flags none none none none
      = .ok { stack := ds.reverse, alt := [], pos := none, chk := c0 } := by
  have hp : (2 : Nat) ^ 32 = 4294967296 := by decide
  exact coreEval_pushes H C c0 flags ds (fun d hd => by have := h d hd; omega)

/-- A pushed number in the documented range `[-(2^31-1), 2^31-1]` decodes back to that number. -/
theorem C16_push_num {σ : Type} (H : Hashes) (C : Checker σ) (c0 : σ) (flags : Nat) (n : Int)
    (h : -(2 ^ 31 - 1) ≤ n ∧ n ≤ 2 ^ 31 - 1) :
    ∃ s t, appendNum [] n = .ok s ∧
      coreEval H C c0 s flags none none none none = .ok { stack := [t], alt := [], pos := none, chk := c0 } ∧
      decodeNum t = .ok n :=
  push_num H C c0 flags n (by omega)

/-- … and `append_num` is an error outside it (the only such `i32` is `i32::MIN`). -/
theorem C16_push_num_out_of_range (s : Bytes) (n : Int) (h : n < -(2 ^ 31 - 1) ∨ n > 2 ^ 31 - 1) :
    appendNum s n = .err "ScriptError" := by
  unfold appendNum
  rw [encodeNum_out_of_range n (by omega)]

/-! ## pay-to-public-key-hash helpers -/

/-- A lock script built for a 20-byte hash is the standard template, is recognised, yields that hash, and
    `check_lock_script_addr` accepts exactly that hash. -/
theorem C16_lock_recognised (h : Bytes) (hl : h.length = 20) :
    createLockScript h = Spec.ScriptBuild.p2pkhLock h ∧
    checkLockScript (createLockScript h) = true ∧
    extractPubkeyhash (createLockScript h) = .ok h ∧
    ∀ h' : Bytes, checkLockScriptAddr h' (createLockScript h) = .ok (decide (h = h')) := by
  obtain ⟨a, b, c⟩ := lock_recognised h hl
  refine ⟨?_, a, b, c⟩
  rw [createLockScript_eq h hl]
  simp [Spec.ScriptBuild.p2pkhLock]

/-- (repaired window) An unlock script built from any signature of 9..73 bytes — the length envelope of a
    DER signature plus the sighash byte — and any 33-byte key is `<sig> <key>`, is recognised, yields that
    key, and `check_unlock_script_addr` accepts exactly that key. -/
theorem C16_unlock_recognised (sig pk : Bytes) (hs : 9 ≤ sig.length ∧ sig.length ≤ 73) (hp : pk.length = 33) :
    createUnlockScript sig pk = Spec.ScriptBuild.p2pkhUnlock sig pk ∧
    checkUnlockScript (createUnlockScript sig pk) = true ∧
    extractPubkey (createUnlockScript sig pk) = .ok pk ∧
    ∀ pk' : Bytes, checkUnlockScriptAddr pk' (createUnlockScript sig pk) = .ok (decide (pk = pk')) := by
  obtain ⟨a, b, c⟩ := unlock_recognised sig pk hs.1 hs.2 hp
  refine ⟨?_, a, b, c⟩
  unfold createUnlockScript Spec.ScriptBuild.p2pkhUnlock
  rw [appendData_prefix, appendData_eq_spec sig (by omega), appendData_eq_spec pk (by omega)]

/-- the window the current tree accepts, probed by the harness on every run, is the DER envelope 9..73 -/
theorem C16_unlock_window_table : CG.Generated.C16_UNLOCK_WINDOW = (List.range 74).drop 9 := by decide

/-- witness of the defect repaired by `proposed_fixes/C16-unlock-script-window.patch`: with the pinned
    lower bound 71 every library-built unlock script whose signature has 70 bytes or fewer is rejected -/
theorem C16_unlock_pinned_rejects_short (sig pk : Bytes) (h : sig.length ≤ 70) :
    checkUnlockScriptPinned (createUnlockScript sig pk) = false ∧
    extractPubkeyW 71 (createUnlockScript sig pk) = .err "BadData" :=
  unlock_pinned_rejects sig pk h

/-- the recognisers never panic, on any bytes -/
theorem C16_recognisers_no_panic (lo : Nat) (pk s : Bytes) (p : String) :
    checkUnlockScriptAddrW lo pk s ≠ .panic p ∧ extractPubkeyW lo s ≠ .panic p :=
  ⟨addr_ne_panic lo pk s p, extract_ne_panic lo s p⟩

/-! ## text form -/

/-- obligations on the generated name tables: every printer name that the parser maps back to its byte is a
    clean token, the three OP_PUSHDATA names parse to 76/77/78, every parser key starts with `O` (so a
    `0x…` token is never a name) -/
theorem C16_name_tables : GoodTables pinned := goodTables_pinned

/-- every script is the encoding of the items the printer sees, and items are recovered from their encoding -/
theorem C16_text_items (s : Bytes) (items : List Item) (hwf : ∀ it ∈ items, it.wf = true) :
    encode (lex s) = s ∧ lex (encode items) = items :=
  ⟨encode_lex s, lex_encode items hwf⟩

/-- The text of a script parses back to the identical script (at character level: printer string, separator
    split, token decoding, pushdata counter) whenever the script satisfies `safe`: every push is complete,
    every opcode has a name in both tables, and no direct push is printed while the parser's "inside
    pushdata" counter — left at 1 by OP_PUSHDATA2 and at 3 by OP_PUSHDATA4, decremented per token — is
    positive. -/
theorem C16_text_roundtrip_partial (s : Bytes) (h : safe pinned 0 (lex s) = true) :
    parseString pinned (printString pinned s) = .ok s :=
  roundTrip_script goodTables_pinned s h

/-- in particular: all pushes complete, all opcodes named, no OP_PUSHDATA2/OP_PUSHDATA4 -/
theorem C16_text_roundtrip_no_pushdata24 (items : List Item)
    (h : ∀ it ∈ items, it.wf = true ∧
      match it with
      | .op b => Named pinned b = true
      | .push _ => True
      | .pd1 _ => True
      | _ => False) :
    parseString pinned (printString pinned (encode items)) = .ok (encode items) := by
  apply roundTrip_safe goodTables_pinned items (fun it hit => (h it hit).1)
  suffices ∀ k, k = 0 → safe pinned k items = true from this 0 rfl
  induction items with
  | nil => intro k _; rfl
  | cons it r ih =>
    intro k hk
    subst hk
    have hit := (h it (by simp)).2
    have hr := ih (fun x hx => h x (by simp [hx]))
    cases it with
    | op b => simp only [safe, Bool.and_eq_true]; exact ⟨hit, hr _ rfl⟩
    | push d => simp only [safe, Bool.and_eq_true]; exact ⟨rfl, hr _ rfl⟩
    | pd1 d => simp only [safe]; exact hr _ rfl
    | pd2 d => cases hit
    | pd4 d => cases hit
    | trunc x => cases hit

/-- the full statement of the property: every script of complete pushes and opcodes the interpreter
    executes round-trips -/
def C16_text_roundtrip_full : Prop :=
  ∀ items : List Item,
    (∀ it ∈ items, it.wf = true ∧ (∀ b, it = .op b → Model.Interp.decodeOp b ≠ .bad)) →
    parseString pinned (printString pinned (encode items)) = .ok (encode items)

/-- recorded defect `text-pushdata-token-count`: the parser skips 3 tokens after OP_PUSHDATA2 while the
    printer emits 2, so the push opcode of the following item is lost:
    `4d0300 010203 02 1234` → "OP_PUSHDATA2 0x0300 0x010203 0x1234" → `4d0300 010203 1234` -/
theorem C16_text_pushdata_token_count_witness :
    printString pinned [0x4d, 3, 0, 1, 2, 3, 2, 0x12, 0x34] = "OP_PUSHDATA2 0x0300 0x010203 0x1234".toList ∧
    parseString pinned (printString pinned [0x4d, 3, 0, 1, 2, 3, 2, 0x12, 0x34])
      = .ok [0x4d, 3, 0, 1, 2, 3, 0x12, 0x34] ∧
    -- with the counter matching the printer (2 tokens) the same script round-trips
    roundTrip { pinned with pd2 := 2, pd4 := 2 } [0x4d, 3, 0, 1, 2, 3, 2, 0x12, 0x34]
      = .ok [0x4d, 3, 0, 1, 2, 3, 2, 0x12, 0x34] := by
  refine ⟨by decide +kernel, by decide +kernel, by decide +kernel⟩

/-- recorded defect `text-unnamed-opcode`: OP_INVERT (131) has no name in the printer, is printed as a
    decimal number and parsed as a number push: `51 83` → "OP_1 131" → `51 02 83 00`.  The executed opcodes
    without a printer name are exactly INVERT, LSHIFT, RSHIFT, NOP1 and NOP4..NOP10. -/
theorem C16_text_unnamed_opcode_witness :
    printString pinned [0x51, 0x83] = "OP_1 131".toList ∧
    parseString pinned (printString pinned [0x51, 0x83]) = .ok [0x51, 0x02, 0x83, 0x00] ∧
    (List.range 256).filter (fun b => !(1 ≤ b && b ≤ 78) && Model.Interp.decodeOp (UInt8.ofNat b) != .bad
                                        && !(Named pinned (UInt8.ofNat b)))
      = [131, 152, 153, 176, 179, 180, 181, 182, 183, 184, 185] := by
  refine ⟨by decide +kernel, by decide +kernel, by decide +kernel⟩

theorem C16_text_roundtrip_full_false : ¬ C16_text_roundtrip_full := by
  intro h
  have := h [.op 0x51, .op 0x83] (by
    intro it hit
    simp only [List.mem_cons, List.not_mem_nil, or_false] at hit
    rcases hit with rfl | rfl
    · exact ⟨by decide, fun b hb => by cases hb; decide⟩
    · exact ⟨by decide, fun b hb => by cases hb; decide⟩)
  have e : encode [.op 0x51, .op 0x83] = [0x51, 0x83] := by decide
  rw [e, C16_text_unnamed_opcode_witness.2.1] at this
  exact absurd this (by decide)

/-! ## the hypotheses are satisfiable -/

example : ([] : Bytes).length < 2 ^ 32 := by decide
example : safe pinned 0 (lex [0x76, 0xa9, 0x14, 1, 2, 3, 4, 5, 6, 7, 8, 9, 10, 11, 12, 13, 14, 15, 16, 17, 18, 19, 20, 0x88, 0xac]) = true := by
  decide +kernel
example : safe pinned 0 (lex [0x4d, 1, 0, 7, 0x76, 0x4c, 1, 9, 0x4e, 0, 0, 0, 0, 0x51, 0x52, 0x53, 1, 0xff]) = true := by decide +kernel
example : printString pinned [0x76, 0xa9, 0x02, 0xab, 0xcd, 0x4c, 0x01, 0x07] = "OP_DUP OP_HASH160 0xabcd OP_PUSHDATA1 0x01 0x07".toList := by
  decide +kernel
example : (9 : Nat) ≤ (List.replicate 71 (0 : UInt8)).length ∧ (List.replicate 71 (0 : UInt8)).length ≤ 73 := by decide
example : checkUnlockScript (createUnlockScript (List.replicate 40 0x30) (List.replicate 33 2)) = true := by decide +kernel
example : checkUnlockScriptPinned (createUnlockScript (List.replicate 40 0x30) (List.replicate 33 2)) = false := by decide +kernel

/-- three pushes, the second a PUSHDATA1 push standing at offset 2 (a toy instance of the list theorem, evaluated) -/
example : (([[7], List.replicate 80 1, []] : List Bytes).foldl appendData []).length = 2 + 82 + 1 := by decide +kernel

end CG.Props.C16

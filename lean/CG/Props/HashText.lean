import CG.Model.HashText
/-!
# The text form of a hash — property theorems (registered under C19)

`Hash256::encode` / `decode` (`CG.Model.HashText`): round trip for every 32-byte hash, the displayed string
denotes the little-endian number of the hash (the reading C19's proof-of-work comparison uses), decoding accepts
exactly the 64-digit strings (either case) and never panics.
-/
namespace CG.Props.HashText
open CG CG.Model.HashText

theorem nibble_roundtrip : ∀ n : Fin 16, charNibble (nibbleChar n.val) = some n.val := by decide

theorem byte_roundtrip (b : UInt8) :
    charNibble (nibbleChar (b.toNat / 16)) = some (b.toNat / 16) ∧
    charNibble (nibbleChar (b.toNat % 16)) = some (b.toNat % 16) := by
  have h1 : b.toNat / 16 < 16 := by have := b.toNat_lt; omega
  have h2 : b.toNat % 16 < 16 := Nat.mod_lt _ (by omega)
  exact ⟨nibble_roundtrip ⟨_, h1⟩, nibble_roundtrip ⟨_, h2⟩⟩

theorem hexDecode_hexEncode (b : Bytes) : hexDecode (hexEncode b) = some b := by
  induction b with
  | nil => rfl
  | cons x r ih =>
    obtain ⟨h1, h2⟩ := byte_roundtrip x
    simp only [hexEncode, hexDecode, h1, h2, ih]
    congr 2
    have : x.toNat / 16 * 16 + x.toNat % 16 = x.toNat := by omega
    rw [this]; exact UInt8.ofNat_toNat

theorem hexEncode_length (b : Bytes) : (hexEncode b).length = 2 * b.length := by
  induction b with
  | nil => rfl
  | cons x r ih => simp [hexEncode, ih]; omega

/-- **Round trip**: every 32-byte hash is decoded back from its text form. -/
theorem C19_hash_text_roundtrip (h : Bytes) (h32 : h.length = 32) : decode (encode h) = .ok h := by
  simp [decode, encode, hexDecode_hexEncode, h32]

/-- the text form has 64 characters -/
theorem C19_hash_text_length (h : Bytes) (h32 : h.length = 32) : (encode h).length = 64 := by
  simp [encode, hexEncode_length, h32]

theorem hexDecode_length : ∀ (s : List Char) (b : Bytes), hexDecode s = some b → s.length = 2 * b.length
  | [], b, h => by simp [hexDecode] at h; subst h; rfl
  | [_], b, h => by simp [hexDecode] at h
  | a :: c :: r, b, h => by
    simp only [hexDecode] at h
    split at h
    · rename_i x y t hx hy ht
      cases h
      have := hexDecode_length r t ht
      simp [this]; omega
    · cases h

/-- **Decoding accepts exactly 64 hex digits and never panics**: a successful decode means the string had 64
    characters, and every other string is an error (`HexError` for a non-digit or an odd length, `BadArgument`
    for another even length). -/
theorem C19_hash_text_decode_total (s : List Char) :
    (∃ h, decode s = .ok h ∧ h.length = 32 ∧ s.length = 64) ∨ decode s = .err "HexError" ∨
    decode s = .err "BadArgument" := by
  unfold decode
  cases hd : hexDecode s with
  | none => exact Or.inr (Or.inl rfl)
  | some b =>
    by_cases hl : b.length = 32
    · left
      refine ⟨b.reverse, by simp [hl], by simp [hl], ?_⟩
      rw [hexDecode_length s b hd, hl]
    · right; right; simp [hl]

theorem foldl_hex (t : List Char) (acc : Nat) :
    t.foldl (fun acc c => acc * 16 + (charNibble c).getD 0) acc =
      acc * 16 ^ t.length + t.foldl (fun acc c => acc * 16 + (charNibble c).getD 0) 0 := by
  induction t generalizing acc with
  | nil => simp
  | cons c r ih =>
    simp only [List.foldl_cons, List.length_cons]
    rw [ih (acc * 16 + (charNibble c).getD 0), ih (0 * 16 + (charNibble c).getD 0)]
    rw [Nat.pow_succ]
    simp only [Nat.zero_mul, Nat.zero_add]
    rw [Nat.add_mul, Nat.mul_assoc, Nat.mul_comm 16 (16 ^ r.length)]
    omega

theorem hexNat_append (s t : List Char) :
    hexNat (s ++ t) = hexNat s * 16 ^ t.length + hexNat t := by
  unfold hexNat
  rw [List.foldl_append, foldl_hex]

theorem hexNat_two (b : UInt8) :
    hexNat [nibbleChar (b.toNat / 16), nibbleChar (b.toNat % 16)] = b.toNat := by
  obtain ⟨h1, h2⟩ := byte_roundtrip b
  simp [hexNat, h1, h2]; omega

theorem hexEncode_append (a b : Bytes) : hexEncode (a ++ b) = hexEncode a ++ hexEncode b := by
  induction a with
  | nil => rfl
  | cons x r ih => simp [hexEncode, ih]

/-- **The displayed string is the number**: read as a big-endian hex numeral, the text form of a hash denotes
    the little-endian number of its bytes — the number `BlockHeader::validate` compares with the target. -/
theorem C19_hash_text_is_le_number (h : Bytes) : hexNat (encode h) = leNat h := by
  unfold encode
  induction h with
  | nil => rfl
  | cons b r ih =>
    rw [List.reverse_cons, hexEncode_append, hexNat_append, ih]
    have : hexEncode [b] = [nibbleChar (b.toNat / 16), nibbleChar (b.toNat % 16)] := rfl
    rw [this, hexNat_two]
    simp [leNat]; omega

example : encode [0x6f, 0xe2, 0x8c] = ['8', 'c', 'e', '2', '6', 'f'] := by decide
example : decode ['0', 'G'] = .err "HexError" := by decide
example : decode ['0', '1'] = .err "BadArgument" := by decide

end CG.Props.HashText

import CG.Proofs.Framing
import CG.Generated.Tables
/-!
# C11 — Message reassembly is independent of transport fragmentation

Property theorems only.  Model: `CG.Model.AtomicReader` (`AtomicReader::read`, `read_exact`) and
`CG.Model.Framing` (`MessageHeader::read/validate/payload`, `Message::read/read_partial`, the
receive loop of `Peer::connect_internal`).  Reference: `CG.Spec.Reassembly` — what a receiver
handed the whole byte stream at once obtains; it has no reader, schedule or buffer.

The transport is a byte stream plus a per-call schedule (`0` = TimedOut/WouldBlock, otherwise the
number of bytes the call may return, end of stream when the bytes are used up), so the theorems
quantify over every fragmentation, every placement of timeouts and every end-of-stream offset.
The hash and the payload codecs are parameters (`Cfg.H`, `Cfg.decode`).  Unbounded in the number
of frames, their sizes and the length of the schedule.
-/
namespace CG.Props.C11
open CG CG.Model.AtomicReader CG.Model.Framing CG.Proofs.Framing
open CG.Spec.Reassembly (Frame expected streamOf StrictFramePrefix parseAll step)

variable {Msg : Type}

/-! ## The reader -/

/-- bytes handed to the caller by one `AtomicReader::read` -/
def delivered : AR → Bytes
  | .full bs => bs
  | _ => []

/-- **Reader invariant.** Whatever a read call returns and whatever the schedule, the bytes
    handed out followed by `retained ++ undelivered` afterwards are `retained ++ undelivered`
    before: nothing is dropped, duplicated or reordered inside the reader. -/
theorem C11_areader_inv (r : Rd) (n : Nat) (res : AR) (r' : Rd) (h : aread r n = (res, r')) :
    delivered res ++ pending r' = pending r := by
  cases res with
  | full bs => exact (aread_full h).2.1
  | timedOut => simpa [delivered] using (aread_timedOut h).1
  | disconnected => simpa [delivered] using (aread_disconnected h).1

/-- **All or nothing.** A read of `n` bytes either returns exactly the next `n` bytes of the
    unread stream and removes exactly those, or returns no bytes (TimedOut / NotConnected) and
    leaves the unread stream as it was; NotConnected only when fewer than `n` bytes are left
    and the transport is at end of stream. -/
theorem C11_read_all_or_nothing (r : Rd) (n : Nat) (res : AR) (r' : Rd) (h : aread r n = (res, r')) :
    (∃ bs, res = .full bs ∧ bs.length = n ∧ bs = (pending r).take n ∧ pending r' = (pending r).drop n) ∨
    (res = .timedOut ∧ pending r' = pending r) ∨
    (res = .disconnected ∧ pending r' = pending r ∧ (pending r).length < n) := by
  cases res with
  | full bs =>
    have ⟨a, b, _⟩ := aread_full h
    have ⟨c, d, _⟩ := split_take b a
    exact Or.inl ⟨bs, rfl, a, c.symm, d.symm⟩
  | timedOut => exact Or.inr (Or.inl ⟨rfl, (aread_timedOut h).1⟩)
  | disconnected =>
    have ⟨a, b, _⟩ := aread_disconnected h
    exact Or.inr (Or.inr ⟨rfl, a, b⟩)

/-- any sequence of read calls with request sizes `ns` -/
def areadMany (r : Rd) : List Nat → List AR × Rd
  | [] => ([], r)
  | n :: ns =>
    let (res, r') := aread r n
    let (rs, r'') := areadMany r' ns
    (res :: rs, r'')

/-- **Stream transparency.** Through any sequence of reads under any schedule, the bytes
    returned, in order, followed by what the reader still holds or has not yet received, are the
    stream. -/
theorem C11_stream_transparent (stream : Bytes) (sched : List Nat) (ns : List Nat) :
    ((areadMany (Rd.new ⟨stream, sched⟩) ns).1.flatMap delivered) ++
      pending (areadMany (Rd.new ⟨stream, sched⟩) ns).2 = stream := by
  have key : ∀ (ns : List Nat) (r : Rd),
      ((areadMany r ns).1.flatMap delivered) ++ pending (areadMany r ns).2 = pending r := by
    intro ns
    induction ns with
    | nil => intro r; simp [areadMany]
    | cons n ns ih =>
      intro r
      cases h : aread r n with
      | mk res r' =>
        have := C11_areader_inv r n res r' h
        simp only [areadMany, h, List.flatMap_cons, List.append_assoc]
        rw [ih r', this]
  simpa [pending, Rd.new] using key ns (Rd.new ⟨stream, sched⟩)

/-! ## The receive loop against contiguous delivery, for arbitrary streams -/

/-- **Refinement of contiguous delivery.** For every byte stream (valid, truncated or corrupted),
    every schedule and every number of passes, the messages the loop has emitted are a prefix of
    the messages a receiver given the whole stream at once obtains; and if the loop has stopped, it
    emitted exactly those messages and stopped with exactly that error. -/
theorem C11_refines_contiguous (c : Cfg Msg) (stream : Bytes) (sched : List Nat) (fuel : Nat) :
    (recvLoop c fuel (LoopState.init stream sched)).1 <+: (parseAll (toWire c) stream).1 ∧
    ∀ e, (recvLoop c fuel (LoopState.init stream sched)).2 = .stopped e →
      recvLoop c fuel (LoopState.init stream sched) =
        ((parseAll (toWire c) stream).1, .stopped (parseAll (toWire c) stream).2) := by
  have h := loop_refines c fuel (LoopState.init stream sched) _ _ rfl
  have e : refOf c (LoopState.init stream sched) = parseAll (toWire c) stream := by
    simp [refOf, LoopState.init, hdrOf, CG.Spec.Reassembly.parseFrom, pending, Rd.new]
  rw [e] at h
  refine ⟨h.1, ?_⟩
  intro e2 he
  have := h.2 e2 he
  rw [Prod.ext_iff]
  exact ⟨this.1, by rw [he, this.2]⟩

/-- **Termination.** The loop cannot wait for ever on a finite schedule: after more passes than
    schedule entries + stream bytes + messages it has stopped. -/
theorem C11_terminates (c : Cfg Msg) (stream : Bytes) (sched : List Nat) (fuel : Nat)
    (hf : sched.length + stream.length + (parseAll (toWire c) stream).1.length < fuel) :
    (recvLoop c fuel (LoopState.init stream sched)).2 ≠ .waiting := by
  apply loop_terminates
  have e : refOf c (LoopState.init stream sched) = parseAll (toWire c) stream := by
    simp [refOf, LoopState.init, hdrOf, CG.Spec.Reassembly.parseFrom, pending, Rd.new]
  rw [e]
  simpa [mu, LoopState.init, Rd.new] using hf

/-- **Fragmentation independence, any stream.** Two runs over the same bytes under any two
    schedules that have both stopped produced the same messages and the same final error —
    including streams that are truncated or corrupted. -/
theorem C11_independent_any_stream (c : Cfg Msg) (stream : Bytes) (s1 s2 : List Nat) (f1 f2 : Nat)
    (e1 e2 : String)
    (h1 : (recvLoop c f1 (LoopState.init stream s1)).2 = .stopped e1)
    (h2 : (recvLoop c f2 (LoopState.init stream s2)).2 = .stopped e2) :
    recvLoop c f1 (LoopState.init stream s1) = recvLoop c f2 (LoopState.init stream s2) := by
  rw [(C11_refines_contiguous c stream s1 f1).2 e1 h1, (C11_refines_contiguous c stream s2 f2).2 e2 h2]

/-! ## Streams of valid frames followed by a strict prefix of a frame -/

/-- **Prefix.** For every list of valid frames followed by a strict prefix of a frame, every
    schedule and every amount of fuel, the emitted messages are a prefix of the frames' messages
    in order: nothing lost, duplicated, reordered or corrupted, nothing from the incomplete tail. -/
theorem C11_prefix (c : Cfg Msg) (hw : (toWire c).WF) (frames : List Frame)
    (hv : ∀ f ∈ frames, Frame.Valid (toWire c) f) (tail : Bytes)
    (ht : StrictFramePrefix (toWire c) tail) (sched : List Nat) (fuel : Nat) :
    (recvLoop c fuel (LoopState.init (streamOf (toWire c) frames ++ tail) sched)).1
      <+: expected (toWire c) frames := by
  have h := (C11_refines_contiguous c (streamOf (toWire c) frames ++ tail) sched fuel).1
  rw [parseAll_frames hw frames hv tail, parseAll_stop (prefix_step hw ht)] at h
  simpa using h

/-- **Completeness.** With enough passes for the schedule (every finite schedule delivers the
    whole stream: when it is used up the transport hands over whatever is asked), the loop emits
    every frame's message and ends in `disconnected` at end of stream. -/
theorem C11_complete (c : Cfg Msg) (hw : (toWire c).WF) (frames : List Frame)
    (hv : ∀ f ∈ frames, Frame.Valid (toWire c) f) (tail : Bytes)
    (ht : StrictFramePrefix (toWire c) tail) (sched : List Nat) (fuel : Nat)
    (hf : sched.length + (streamOf (toWire c) frames ++ tail).length + frames.length < fuel) :
    recvLoop c fuel (LoopState.init (streamOf (toWire c) frames ++ tail) sched) =
      (expected (toWire c) frames, .stopped DISCONNECTED) := by
  have hp : parseAll (toWire c) (streamOf (toWire c) frames ++ tail) =
      (expected (toWire c) frames, DISCONNECTED) := by
    rw [parseAll_frames hw frames hv tail, parseAll_stop (prefix_step hw ht)]
    simp [DISCONNECTED, CG.Spec.Reassembly.DISCONNECTED]
  have ht2 := C11_terminates c (streamOf (toWire c) frames ++ tail) sched fuel
    (by rw [hp]; simpa [expected_length frames hv] using hf)
  cases hfin : (recvLoop c fuel (LoopState.init (streamOf (toWire c) frames ++ tail) sched)).2 with
  | waiting => exact absurd hfin ht2
  | stopped e =>
    rw [(C11_refines_contiguous c _ sched fuel).2 e hfin, hp]

/-- **End of stream is a disconnection, never a message.** On frames followed by an incomplete
    frame the loop can only be still waiting or have stopped with `NotConnected`; when it has
    stopped the emitted messages are exactly those of the complete frames. -/
theorem C11_eof_is_disconnect (c : Cfg Msg) (hw : (toWire c).WF) (frames : List Frame)
    (hv : ∀ f ∈ frames, Frame.Valid (toWire c) f) (tail : Bytes)
    (ht : StrictFramePrefix (toWire c) tail) (sched : List Nat) (fuel : Nat) :
    (recvLoop c fuel (LoopState.init (streamOf (toWire c) frames ++ tail) sched)).2 = .waiting ∨
    recvLoop c fuel (LoopState.init (streamOf (toWire c) frames ++ tail) sched) =
      (expected (toWire c) frames, .stopped DISCONNECTED) := by
  have hp : parseAll (toWire c) (streamOf (toWire c) frames ++ tail) =
      (expected (toWire c) frames, DISCONNECTED) := by
    rw [parseAll_frames hw frames hv tail, parseAll_stop (prefix_step hw ht)]
    simp [DISCONNECTED, CG.Spec.Reassembly.DISCONNECTED]
  cases hfin : (recvLoop c fuel (LoopState.init (streamOf (toWire c) frames ++ tail) sched)).2 with
  | waiting => exact Or.inl rfl
  | stopped e =>
    right
    rw [(C11_refines_contiguous c _ sched fuel).2 e hfin, hp]

/-- **Fragmentation independence.** Any two schedules (given enough passes each) yield the same
    messages in the same order and the same final state. -/
theorem C11_fragmentation_independent (c : Cfg Msg) (hw : (toWire c).WF) (frames : List Frame)
    (hv : ∀ f ∈ frames, Frame.Valid (toWire c) f) (tail : Bytes)
    (ht : StrictFramePrefix (toWire c) tail) (s1 s2 : List Nat) (f1 f2 : Nat)
    (h1 : s1.length + (streamOf (toWire c) frames ++ tail).length + frames.length < f1)
    (h2 : s2.length + (streamOf (toWire c) frames ++ tail).length + frames.length < f2) :
    recvLoop c f1 (LoopState.init (streamOf (toWire c) frames ++ tail) s1) =
    recvLoop c f2 (LoopState.init (streamOf (toWire c) frames ++ tail) s2) := by
  rw [C11_complete c hw frames hv tail ht s1 f1 h1, C11_complete c hw frames hv tail ht s2 f2 h2]

/-- **Error path.** If what follows the valid frames does not begin with a message (bad magic,
    oversize length, bad checksum, a payload the codec rejects, …: the reference stops there with
    `e`), the loop never emits anything beyond the valid frames, and when it stops it stops with
    that error. -/
theorem C11_stops_at_first_non_message (c : Cfg Msg) (hw : (toWire c).WF) (frames : List Frame)
    (hv : ∀ f ∈ frames, Frame.Valid (toWire c) f) (junk : Bytes) (e : String)
    (hj : step (toWire c) junk = .stop e) (sched : List Nat) (fuel : Nat) :
    (recvLoop c fuel (LoopState.init (streamOf (toWire c) frames ++ junk) sched)).1
      <+: expected (toWire c) frames ∧
    ∀ e', (recvLoop c fuel (LoopState.init (streamOf (toWire c) frames ++ junk) sched)).2 = .stopped e' →
      e' = e := by
  have h := C11_refines_contiguous c (streamOf (toWire c) frames ++ junk) sched fuel
  rw [parseAll_frames hw frames hv junk, parseAll_stop hj] at h
  refine ⟨by simpa using h.1, ?_⟩
  intro e' he
  have := h.2 e' he
  rw [Prod.ext_iff] at this
  simp only [he] at this
  exact Final.stopped.inj this.2

/-- **Frames built with a lawful codec.** If `decode c (encode m) = ok m` (the law proved for
    the real codecs under C05), the frames a sender builds from messages are valid and carry
    exactly those messages. -/
theorem C11_encoded_frames_valid (c : Cfg Msg) (cmdOf : Msg → Bytes) (encode : Msg → Bytes)
    (hk : ∀ m, c.kind (cmdOf m) = .payload) (hc : ∀ m, (cmdOf m).length = 12)
    (hs : ∀ m, (encode m).length ≤ c.maxPayload) (hmax : c.maxPayload < 2 ^ 32)
    (law : ∀ m, c.decode (cmdOf m) (encode m) = .ok m) (ms : List Msg) :
    (∀ f ∈ ms.map (fun m => (⟨cmdOf m, encode m⟩ : Frame)), Frame.Valid (toWire c) f) ∧
    expected (toWire c) (ms.map (fun m => (⟨cmdOf m, encode m⟩ : Frame))) = ms := by
  have hm : ∀ m, Frame.msg? (toWire c) ⟨cmdOf m, encode m⟩ = some m := by
    intro m
    simp [Frame.msg?, toWire, hk m, toKind, law m]
  constructor
  · intro f hf
    simp only [List.mem_map] at hf
    obtain ⟨m, _, rfl⟩ := hf
    exact ⟨hc m, by have := hs m; show (encode m).length < 2 ^ 32; omega, Or.inr (hs m), by simp [toWire, hk m, toKind], by simp [hm m]⟩
  · induction ms with
    | nil => simp [expected]
    | cons m ms ih =>
      simp only [expected, List.map_cons, List.filterMap_cons, hm m] at *
      rw [ih]

/-! ## Non-vacuity: the hypotheses are satisfiable, and the model computes -/

/-- a toy configuration: messages are (command, payload); the "hash" is a 4-byte length tag -/
def toyCfg : Cfg (Bytes × Bytes) :=
  { magic := [1, 2, 3, 4], maxPayload := 1000, blockCmd := List.replicate 12 9,
    H := fun p => [UInt8.ofNat p.length, 7, 7, 7],
    kind := fun c => if c = List.replicate 12 1 then .bare else if c = List.replicate 12 2 then .payload else .other,
    decode := fun c p => .ok (c, p), bare := fun c => (c, []), other := fun c => (c, []) }

def toyBare : Frame := ⟨List.replicate 12 1, []⟩
def toyPing : Frame := ⟨List.replicate 12 2, [10, 11, 12, 13, 14]⟩

example : (toWire toyCfg).WF := ⟨rfl, fun _ => by simp [toWire, toyCfg]⟩
example : Frame.Valid (toWire toyCfg) toyBare :=
  ⟨rfl, by simp [toyBare], Or.inr (by simp [toyBare]), fun _ => rfl, by decide⟩
example : Frame.Valid (toWire toyCfg) toyPing :=
  ⟨rfl, by simp [toyPing], Or.inr (by simp [toyPing, toWire, toyCfg]), by decide, by decide⟩
example : StrictFramePrefix (toWire toyCfg) ((toyPing.bytes (toWire toyCfg)).take 26) :=
  Or.inr ⟨toyPing, (toyPing.bytes (toWire toyCfg)).drop 26,
    ⟨rfl, by simp [toyPing], Or.inr (by simp [toyPing, toWire, toyCfg]), by decide, by decide⟩,
    by decide, List.take_append_drop _ _⟩

/-- two frames and 26 bytes of a third, delivered as 5 bytes, a timeout, 1 byte, a would-block,
    30, 2, 2 bytes, a timeout, then the rest: both messages, then `disconnected`. -/
example :
    recvLoop toyCfg 40
      (LoopState.init (streamOf (toWire toyCfg) [toyBare, toyPing] ++ (toyPing.bytes (toWire toyCfg)).take 26)
        [5, 0, 1, 0, 30, 2, 2, 0]) =
      ([(List.replicate 12 1, []), (List.replicate 12 2, [10, 11, 12, 13, 14])], .stopped DISCONNECTED) := by
  decide +kernel

/-! ## The constants regenerated from the tree on every run -/

/-- split a flat table into 12-byte commands -/
def chunks12 : Nat → List Nat → List (List Nat)
  | 0, _ => []
  | _, [] => []
  | fuel + 1, l => l.take 12 :: chunks12 fuel (l.drop 12)

def tableOk (l : List Nat) : Bool := l.length % 12 == 0 && l.all (· < 256)

/-- The header is 24 bytes in the current tree; the command tables read off `read_partial` are
    whole 12-byte commands, the payload-less and the payload-carrying commands are disjoint,
    `block` (exempt from the size limit) carries a payload, and the size limit fits the u32
    length field. -/
theorem C11_tables_wf :
    HEADER_SIZE = CG.Generated.C11_HEADER_SIZE ∧
    tableOk CG.Generated.C11_CMDS_PAYLOAD = true ∧ tableOk CG.Generated.C11_CMDS_BARE = true ∧
    CG.Generated.C11_CMD_BLOCK.length = 12 ∧
    (chunks12 100 CG.Generated.C11_CMDS_BARE).all
      (fun c => !(chunks12 100 CG.Generated.C11_CMDS_PAYLOAD).contains c) = true ∧
    (chunks12 100 CG.Generated.C11_CMDS_PAYLOAD).contains CG.Generated.C11_CMD_BLOCK = true ∧
    (chunks12 100 CG.Generated.C11_CMDS_BARE).length = 6 ∧
    CG.Generated.MAX_PAYLOAD_SIZE < 2 ^ 32 := by
  decide +kernel

end CG.Props.C11

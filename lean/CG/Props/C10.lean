import CG.Proofs.Mnemonic
import CG.Generated.Wordlists
import CG.Proofs.Wordlists.ChineseSimplified
import CG.Proofs.Wordlists.ChineseTraditional
import CG.Proofs.Wordlists.English
import CG.Proofs.Wordlists.French
import CG.Proofs.Wordlists.Italian
import CG.Proofs.Wordlists.Japanese
import CG.Proofs.Wordlists.Korean
import CG.Proofs.Wordlists.Spanish
/-!
# C10 — BIP-39 mnemonics round-trip and match the standard for every word list

Property theorems only.  Model: `CG.Model.Bits` (`util/bits.rs`), `CG.Model.Mnemonic`
(`wallet/mnemonic.rs`, with the repaired positional word lookup); specification: `CG.Spec.Bip39`;
word lists: `CG.Generated.Wordlists` (regenerated from `load_wordlist` on every run).
SHA-256 is the parameter `H` throughout; a word is its UTF-8 byte string.

`toBits b` is the bit string a `Bits` value stands for (first `len` bits of its bytes, MSB first);
`WF b` says `b` holds exactly the bytes it needs and the unused low bits of the last byte are zero.
-/
namespace CG.Props.C10
open CG CG.Model.Bits CG.Model.Mnemonic CG.Spec.Bip39 CG.Proofs.Mnemonic

/-! ## the byte-packed bit vector refines a bit list -/

/-- `from_slice(data, len)` is the first `len` bits of `data` (all of them if `len` is larger). -/
theorem C10_bits_from_slice (d : Bytes) (n : Nat) :
    toBits (fromSlice d n) = (bytesToBits d).take n ∧ (fromSlice d n).len = min (d.length * 8) n :=
  ⟨toBits_fromSlice d n, fromSlice_len d n⟩

/-- `append` is concatenation of bit strings (and never panics), for a well-formed `self` and any
    `other` that has the bytes its length promises; it preserves well-formedness. -/
theorem C10_bits_append (a b : Bits) (ha : WF a) (hb : b.len ≤ 8 * b.data.length) :
    ∃ r, append a b = .ok r ∧ toBits r = toBits a ++ toBits b ∧ r.len = a.len + b.len ∧
      (WF b → WF r) := by
  obtain ⟨r, h1, h2, h3, _, h5⟩ := append_spec a b ha hb
  exact ⟨r, h1, h3, h2, h5⟩

/-- `extract(i, len)` is the number written by bits `[i, i+len)`, for `len ≤ 64` and in range. -/
theorem C10_bits_extract (b : Bits) (i len : Nat) (hr : i + len ≤ b.len)
    (hb : b.len ≤ 8 * b.data.length) (h64 : len ≤ 64) :
    extract b i len = .ok (bitsToNat (((toBits b).drop i).take len)) := by
  rw [extract_toBits b i len hr hb, Nat.mod_eq_of_lt]
  refine Nat.lt_of_lt_of_le (bitsToNat_lt _) (Nat.pow_le_pow_right (by omega) ?_)
  simp; omega

/-- … and for any `len` it is that number modulo 2^64 (the `u64` accumulator drops high bits). -/
theorem C10_bits_extract_wrap (b : Bits) (i len : Nat) (hr : i + len ≤ b.len)
    (hb : b.len ≤ 8 * b.data.length) :
    extract b i len = .ok (bitsToNat (((toBits b).drop i).take len) % 2 ^ 64) :=
  extract_toBits b i len hr hb

example : WF Bits.new := wf_new
example : WF (fromSlice [0xab, 0xc0] 11) := by
  rw [show fromSlice [0xab, 0xc0] 11 = wordBits 0x55e by decide]; exact wf_wordBits _

/-! ## encoding is BIP-39 -/

/-- For every entropy whose length is a multiple of 4 bytes — any length the hash can supply
    `ENT/32` checksum bits for — any hash and any 2048-word list, `mnemonic_encode` returns the words
    at the BIP-39 indexes (entropy ++ first ENT/32 bits of the hash, in 11-bit big-endian groups). -/
theorem C10_encode_eq_spec (H : Bytes → Bytes) (e : Bytes) (wl : List Bytes)
    (hwl : wl.length = 2048) (h4 : e.length % 4 = 0) (hH : e.length / 4 ≤ 8 * (H e).length) :
    ∃ idx, encodeIdx H e = some idx ∧ idx.length = 3 * (e.length / 4) ∧ (∀ i ∈ idx, i < 2048) ∧
      mnemonicEncode H e wl = .ok (idx.map (fun i => wl.getD i [])) := by
  have hS := sentenceBits_length H e h4 hH
  obtain ⟨g1, g2, _⟩ := groups_spec 11 (by omega) (3 * (e.length / 4)) (sentenceBits H e).length
    (sentenceBits H e) hS (by omega)
  refine ⟨_, ?_, by simpa using g1, ?_, mnemonicEncode_spec H e wl hwl h4 hH⟩
  · unfold encodeIdx
    rw [if_neg (by omega), if_neg (by omega)]
  · intro i hi
    obtain ⟨g, hg, rfl⟩ := List.mem_map.mp hi
    have := bitsToNat_lt g
    rw [g2 g hg] at this; omega

example : ∃ e : Bytes, e.length % 4 = 0 ∧ e.length / 4 ≤ 8 * (List.replicate 32 (0 : UInt8)).length :=
  ⟨List.replicate 16 0, by decide⟩

/-! ## decoding inverts encoding -/

/-- `decode (encode e) = e` for every duplicate-free 2048-word list (position lookup needs nothing
    else), every entropy length that is a multiple of 4, any hash long enough. -/
theorem C10_decode_encode (H : Bytes → Bytes) (e : Bytes) (wl : List Bytes)
    (hwl : wl.length = 2048) (hn : wl.Nodup) (h4 : e.length % 4 = 0)
    (hH : ∀ x, e.length / 4 ≤ 8 * (H x).length) :
    ∃ ws, mnemonicEncode H e wl = .ok ws ∧ mnemonicDecode H ws wl = .ok e :=
  ⟨_, mnemonicEncode_spec H e wl hwl h4 (hH e), decode_encode H e wl hwl hn h4 hH⟩

/-- On sentences of `3k` words (`k ≤ 64`) `mnemonic_decode` *is* BIP-39 decoding: the entropy when
    every word is listed and the checksum matches, `BadArgument` otherwise — never a panic. -/
theorem C10_decode_eq_spec (H : Bytes → Bytes) (wl mn : List Bytes) (k : Nat)
    (hk : mn.length = 3 * k) (hk64 : k ≤ 64) (hH : ∀ x, k ≤ 8 * (H x).length) :
    mnemonicDecode H mn wl =
      match Spec.Bip39.decode H wl mn with
      | .entropy e => .ok e
      | _ => .err "BadArgument" :=
  decode_eq_spec H wl mn k hk hk64 hH

/-- A sentence whose checksum is wrong is rejected with an error. -/
theorem C10_bad_checksum_rejected (H : Bytes → Bytes) (wl mn : List Bytes) (k : Nat)
    (hk : mn.length = 3 * k) (hk64 : k ≤ 64) (hH : ∀ x, k ≤ 8 * (H x).length)
    (hbad : Spec.Bip39.decode H wl mn = .badChecksum) :
    mnemonicDecode H mn wl = .err "BadArgument" := by
  rw [decode_eq_spec H wl mn k hk hk64 hH, hbad]

/-- A sentence containing a word outside the list is rejected with an error — for every sentence
    length, list and hash. -/
theorem C10_bad_word_rejected (H : Bytes → Bytes) (wl mn : List Bytes)
    (hbad : ∃ w ∈ mn, w ∉ wl) : mnemonicDecode H mn wl = .err "BadArgument" := by
  obtain ⟨w, hw, hnot⟩ := hbad
  have : allSome (mn.map (indexOf · wl)) = none := by
    rw [allSome_none_iff]
    exact List.mem_map.mpr ⟨w, hw, indexOf_none.mpr hnot⟩
  simp only [mnemonicDecode, decLoop_err wl mn Bits.new this wf_new]

-- the hypotheses are satisfiable: a three-word sentence over a one-word list, with a hash whose
-- first bit is 1 (checksum wrong) or 0 (checksum right)
example : Spec.Bip39.decode (fun _ => List.replicate 32 0xff) [[97]] [[97], [97], [97]] = .badChecksum := by
  decide
example : Spec.Bip39.decode (fun _ => List.replicate 32 0) [[97]] [[97], [97], [97]] = .entropy [0, 0, 0, 0] := by
  decide
example : mnemonicDecode (fun _ => List.replicate 32 0xff) [[97], [97], [97]] [[97]] = .err "BadArgument" :=
  C10_bad_checksum_rejected _ _ _ 1 rfl (by decide) (by intro x; simp) (by decide)
example : ∃ w ∈ [[97], [98]], w ∉ ([[97]] : List Bytes) := ⟨[98], by decide, by decide⟩

/-- Conversely a sentence is accepted only with the entropy BIP-39 assigns to it. -/
theorem C10_accept_only_valid (H : Bytes → Bytes) (wl mn : List Bytes) (k : Nat) (e : Bytes)
    (hk : mn.length = 3 * k) (hk64 : k ≤ 64) (hH : ∀ x, k ≤ 8 * (H x).length)
    (hok : mnemonicDecode H mn wl = .ok e) : Spec.Bip39.decode H wl mn = .entropy e := by
  rw [decode_eq_spec H wl mn k hk hk64 hH] at hok
  split at hok
  · rename_i e' he; injection hok with h; rw [he, h]
  · cases hok

/-! ## the eight bundled word lists -/

open CG.Generated.Wordlists CG.Proofs.Wordlists in
/-- Each of the eight bundled lists has 2048 entries, pairwise distinct (kernel-evaluated checker
    `keysOk`, proved sound in `CG.Proofs.Wordlists`, on the lists generated from the current tree). -/
theorem C10_wordlists_ok : ∀ wl ∈ Generated.Wordlists.all, wl.length = 2048 ∧ wl.Nodup := by
  intro wl h
  simp only [Generated.Wordlists.all, List.mem_cons, List.mem_nil_iff, or_false] at h
  rcases h with rfl | rfl | rfl | rfl | rfl | rfl | rfl | rfl
  · exact keysOk_sound _ chineseSimplified_ok
  · exact keysOk_sound _ chineseTraditional_ok
  · exact keysOk_sound _ english_ok
  · exact keysOk_sound _ french_ok
  · exact keysOk_sound _ italian_ok
  · exact keysOk_sound _ japanese_ok
  · exact keysOk_sound _ korean_ok
  · exact keysOk_sound _ spanish_ok

open CG.Generated.Wordlists CG.Proofs.Wordlists in
/-- Why the pinned tree's `binary_search` lookup was wrong: five of the lists are not in byte order
    (the BIP-39 index order is the order of the file, not byte order).  The repaired lookup is by
    position and needs no order. -/
theorem C10_unsorted_lists :
    sortedBytes french = false ∧ sortedBytes spanish = false ∧ sortedBytes japanese = false ∧
    sortedBytes chineseSimplified = false ∧ sortedBytes chineseTraditional = false := by
  decide +kernel

/-- The headline: for each bundled list and every entropy of `4k ≤ 1024` bytes (in particular the
    BIP-39 lengths 16, 20, 24, 28, 32), with any 32-byte hash, encoding yields the BIP-39 sentence
    and decoding it returns the entropy. -/
theorem C10_roundtrip_bundled (H : Bytes → Bytes) (hH : ∀ x, (H x).length = 32)
    (wl : List Bytes) (hwl : wl ∈ Generated.Wordlists.all) (e : Bytes)
    (h4 : e.length % 4 = 0) (hlen : e.length ≤ 1024) :
    ∃ idx, encodeIdx H e = some idx ∧
      mnemonicEncode H e wl = .ok (idx.map (fun i => wl.getD i [])) ∧
      mnemonicDecode H (idx.map (fun i => wl.getD i [])) wl = .ok e := by
  obtain ⟨h2048, hnd⟩ := C10_wordlists_ok wl hwl
  have hH' : ∀ x, e.length / 4 ≤ 8 * (H x).length := by intro x; rw [hH x]; omega
  obtain ⟨idx, h1, _, _, h4'⟩ := C10_encode_eq_spec H e wl h2048 h4 (hH' e)
  obtain ⟨ws, h5, h6⟩ := C10_decode_encode H e wl h2048 hnd h4 hH'
  rw [h4'] at h5
  injection h5 with h5
  exact ⟨idx, h1, h4', by rw [h5]; exact h6⟩

/-- **Encoding is injective**: two entropies (lengths multiples of 4, any hash long enough) that encode
    to the same sentence over a duplicate-free 2048-word list are equal — no two seeds share a mnemonic. -/
theorem C10_encode_injective (H : Bytes → Bytes) (e1 e2 : Bytes) (wl : List Bytes)
    (hwl : wl.length = 2048) (hn : wl.Nodup) (h41 : e1.length % 4 = 0) (h42 : e2.length % 4 = 0)
    (hH1 : ∀ x, e1.length / 4 ≤ 8 * (H x).length) (hH2 : ∀ x, e2.length / 4 ≤ 8 * (H x).length)
    (ws : List Bytes) (h1 : mnemonicEncode H e1 wl = .ok ws) (h2 : mnemonicEncode H e2 wl = .ok ws) :
    e1 = e2 := by
  obtain ⟨w1, a1, b1⟩ := C10_decode_encode H e1 wl hwl hn h41 hH1
  obtain ⟨w2, a2, b2⟩ := C10_decode_encode H e2 wl hwl hn h42 hH2
  rw [h1] at a1; rw [h2] at a2
  injection a1 with a1; injection a2 with a2
  subst a1; subst a2
  rw [b1] at b2
  injection b2

end CG.Props.C10

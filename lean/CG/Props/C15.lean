import CG.Proofs.Writer
import CG.Generated.WriteSites
/-!
# C15 — Serialisation is correct for writers that accept partial writes

Property theorems only.  Model: `CG.Model.Writer` — a destination with a per-call acceptance
schedule (`Dest`; entry `k ≥ 1` = at most `k` bytes accepted by that call, entry `0` = the call
reports `Interrupted`, exhausted schedule = `tail`), ONE raw call (`Dest.write`), the standard
library's `write_all` loop (`writeAll`), and serialisers as lists of write operations
(`WOp.all b` = `write_all(b)?`, `WOp.raw b` = a bare `write(b)` whose count is dropped).

That every operation of every chain-gang serialiser is an `all` is what the correspondence run
establishes (each run replays every call trace through `runOps` and compares with the real code on
the same schedule); here it is the hypothesis `∀ op ∈ ops, op.isAll`.
-/
namespace CG.Props.C15
open CG CG.Model.Writer CG.Proofs.Writer

/-- **`write_all` delivers.**  For every schedule — any acceptance limits ≥ 1, fixed or varying per
    call, and any finite number of interrupted calls at any positions — and whatever the destination
    already holds, `write_all b` returns `Ok(())` and the destination has received exactly `b`,
    appended.  (A schedule is a finite list; afterwards the destination accepts requests in full.) -/
theorem C15_write_all_delivers (sched : List Nat) (held : Bytes) (log : List Nat) (b : Bytes) :
    ∃ d', writeAll { sched := sched, tail := .accept, buf := held, log := log } b = (.ok (), d') ∧
      d'.buf = held ++ b := by
  cases h : writeAll { sched := sched, tail := .accept, buf := held, log := log } b with
  | mk r d' =>
    have s := writeAll_spec _ b r d' h
    have hr : r = .ok () := s.accept_ok rfl
    subst hr
    exact ⟨d', rfl, s.ok_all rfl⟩

/-- **No success with bytes dropped, no panic, no hang** — on ANY destination, including one that
    fails hard (`BrokenPipe`) or returns `Ok(0)` for ever once its schedule is used up:
    `write_all` never runs out of fuel (the loop terminates within `sched.length + 1` iterations),
    what arrived is always a prefix of the request, and `Ok(())` implies the whole request arrived. -/
theorem C15_write_all_never_silently_drops (d : Dest) (b : Bytes) (r : Outcome Unit) (d' : Dest)
    (h : writeAll d b = (r, d')) :
    (∀ s, r ≠ .panic s) ∧ (∃ k, k ≤ b.length ∧ d'.buf = d.buf ++ b.take k) ∧
    (r = .ok () → d'.buf = d.buf ++ b) := by
  have s := writeAll_spec d b r d' h
  exact ⟨s.noPanic, s.pref, s.ok_all⟩

/-- Writing to a memory buffer (`Vec<u8>`: no schedule) stores the concatenation of the operation
    payloads — for any operations, bare `write`s included: this is the reference byte sequence. -/
theorem C15_memory_buffer (ops : List WOp) (held : Bytes) (log : List Nat) :
    ∃ d', runOps { buf := held, log := log } ops = (.ok (), d') ∧ d'.buf = held ++ flatten ops := by
  induction ops generalizing held log with
  | nil => exact ⟨_, rfl, by simp [flatten]⟩
  | cons op rest ih =>
    cases op with
    | all b =>
      obtain ⟨d1, h1, hb1⟩ := C15_write_all_delivers [] held log b
      have hd1 : d1 = { buf := d1.buf, log := d1.log } := by
        have s := writeAll_spec _ b _ d1 h1
        have ht := s.tail_eq
        have hs := s.sched_le
        cases d1 with
        | mk sc tl bf lg =>
          simp at ht hs
          subst ht; subst hs; rfl
      obtain ⟨d2, h2, hb2⟩ := ih d1.buf d1.log
      refine ⟨d2, ?_, ?_⟩
      · simp only [runOps, runOp]
        rw [h1]; simp only
        rw [hd1]; exact h2
      · rw [hb2, hb1]; simp [flatten, WOp.payload]
    | raw b =>
      obtain ⟨d2, h2, hb2⟩ := ih (held ++ b) (b.length :: log)
      refine ⟨d2, ?_, ?_⟩
      · simp only [runOps, runOp, Dest.write]
        exact h2
      · rw [hb2]; simp [flatten, WOp.payload]

/-- **Serialisers made of `write_all`s deliver.**  Under every schedule such a serialiser returns
    `Ok(())` and the destination has received exactly the concatenation of the operation payloads. -/
theorem C15_ops_deliver (ops : List WOp) (hall : ∀ op ∈ ops, op.isAll = true)
    (sched : List Nat) (held : Bytes) (log : List Nat) :
    ∃ d', runOps { sched := sched, tail := .accept, buf := held, log := log } ops = (.ok (), d') ∧
      d'.buf = held ++ flatten ops := by
  cases h : runOps { sched := sched, tail := .accept, buf := held, log := log } ops with
  | mk r d' =>
    obtain ⟨_, hok, hacc⟩ := runOps_all_spec ops hall _ r d' h
    have hr : r = .ok () := hacc rfl
    subst hr
    exact ⟨d', rfl, hok rfl⟩

/-- **Schedule independence** (the property): for a serialiser all of whose calls are `write_all`,
    writing through ANY partial-write schedule produces `Ok(())` and exactly the byte sequence that
    writing to a memory buffer produces. -/
theorem C15_schedule_independent (ops : List WOp) (hall : ∀ op ∈ ops, op.isAll = true)
    (sched : List Nat) :
    ∃ dl dm, runOps (limited sched) ops = (.ok (), dl) ∧ runOps memory ops = (.ok (), dm) ∧
      dl.buf = dm.buf ∧ dm.buf = flatten ops := by
  obtain ⟨dl, h1, hb1⟩ := C15_ops_deliver ops hall sched [] []
  obtain ⟨dm, h2, hb2⟩ := C15_memory_buffer ops [] []
  exact ⟨dl, dm, h1, h2, by rw [hb1, hb2], by simpa using hb2⟩

/-- **No write reports success while bytes were dropped** — on any destination (hard failures and
    `Ok(0)` included) a serialiser made of `write_all`s never panics, leaves a prefix of its bytes at
    the destination, and if it returns `Ok(())` every byte has arrived. -/
theorem C15_ok_means_delivered (ops : List WOp) (hall : ∀ op ∈ ops, op.isAll = true)
    (d : Dest) (r : Outcome Unit) (d' : Dest) (h : runOps d ops = (r, d')) :
    (∀ s, r ≠ .panic s) ∧
    (∃ k, k ≤ (flatten ops).length ∧ d'.buf = d.buf ++ (flatten ops).take k) ∧
    (r = .ok () → d'.buf = d.buf ++ flatten ops) := by
  obtain ⟨hp, hok, _⟩ := runOps_all_spec ops hall d r d' h
  exact ⟨(runOps_noPanic ops d r d' h).1, hp, hok⟩

/-- **Replaying a call trace.**  What the correspondence driver does on every case: the reference
    bytes `b` are cut at the observed call boundaries (`trace` = requested length of each call on an
    unlimited writer, summing to `b.length`), every call is taken to be a `write_all`, and the
    operations are run under the case's schedule.  The model then always predicts success with
    exactly `b` delivered — so a real serialiser that disagrees on some schedule has a call that is
    not a `write_all`. -/
theorem C15_trace_replay_delivers (trace : List Nat) (b : Bytes) (h : trace.sum = b.length)
    (sched : List Nat) :
    ∃ d', runOps (limited sched) (opsOfTrace trace b) = (.ok (), d') ∧ d'.buf = b := by
  obtain ⟨d', h1, h2⟩ := C15_ops_deliver (opsOfTrace trace b) (opsOfTrace_all trace b) sched [] []
  refine ⟨d', h1, ?_⟩
  rw [h2, flatten_opsOfTrace, h]; simp

/-- **A bare `write` can drop** (the defect pattern of `Hash256::write` in the pinned tree):
    32 bytes into a destination that takes 5 per call — success is reported, 5 bytes arrived. -/
theorem C15_raw_can_drop :
    ∃ d', runOps (limited [5]) [.raw (List.replicate 32 0xab)] = (.ok (), d') ∧
      d'.buf = List.replicate 5 0xab ∧ d'.buf ≠ flatten [.raw (List.replicate 32 0xab)] :=
  ⟨_, rfl, by decide, by decide⟩

/-- … and it is never safe: for EVERY payload of two or more bytes there is a schedule (first call
    takes one byte) under which a bare `write` reports success having delivered one byte only. -/
theorem C15_raw_never_safe (b : Bytes) (hb : 2 ≤ b.length) :
    ∃ d', runOps (limited [1]) [.raw b] = (.ok (), d') ∧ d'.buf = b.take 1 ∧
      d'.buf ≠ flatten [.raw b] := by
  refine ⟨_, rfl, ?_, ?_⟩
  · simp [limited]
  · simp only [limited, flatten, List.flatMap_cons, List.flatMap_nil, WOp.payload, List.append_nil]
    intro h
    have := congrArg List.length h
    simp at this
    omega

/-- … and an interrupted call, which `write_all` retries, makes a bare `write` fail although the
    destination would have taken every byte. -/
theorem C15_raw_fails_on_interrupt :
    (runOps (limited [0]) [.raw [1, 2, 3]]).1 = .err "IoInterrupted" ∧
    (runOps (limited [0]) [.all [1, 2, 3]]) = (.ok (), { buf := [1, 2, 3], log := [3, 3] }) := by
  constructor <;> rfl

/-! ### The hypothesis `∀ op ∈ ops, op.isAll`, read off the source

`CG.Generated.WriteSites.sites` is rewritten on every run from `/repo/src` (`checks/srcscan.py`): one entry
per method call made on an `io::Write` parameter in non-test code, with its kind (0 `write_all`,
1 byteorder integer write = `write_all` of a fixed array, 2 `write_fmt`, 3 `flush`, 4 a bare
`write`/`write_vectored`).  The serialisers of the crate are compositions of exactly these calls
(delegation to another `write(writer)` contributes that function's own sites). -/

/-- the write operation a source site of kind `k` performs on payload `b` -/
def siteOp (k : Nat) (b : Bytes) : WOp := if k = 4 then .raw b else .all b

/-- **No serialiser of the current tree makes a bare `write` call on its destination.** -/
theorem C15_source_has_no_bare_write : ∀ s ∈ Generated.WriteSites.sites, s.2.2 ≠ 4 := by decide

/-- … hence ANY sequence of calls drawn from the source's write sites, with any payloads, under ANY
    partial-write schedule, returns `Ok(())` having delivered exactly what a memory buffer receives. -/
theorem C15_source_sites_deliver (calls : List ((Nat × Nat × Nat) × Bytes))
    (hsrc : ∀ c ∈ calls, c.1 ∈ Generated.WriteSites.sites) (sched : List Nat) :
    let ops := calls.map (fun c => siteOp c.1.2.2 c.2)
    ∃ dl dm, runOps (limited sched) ops = (.ok (), dl) ∧ runOps memory ops = (.ok (), dm) ∧
      dl.buf = dm.buf ∧ dm.buf = flatten ops := by
  intro ops
  apply C15_schedule_independent
  intro op hop
  obtain ⟨c, hc, rfl⟩ := List.mem_map.mp hop
  have := C15_source_has_no_bare_write c.1 (hsrc c hc)
  simp [siteOp, this, WOp.isAll]

example : 0 < Generated.WriteSites.sites.length := by decide

/-! Non-vacuity: concrete schedules, with limits, interruptions and both kinds of tail. -/
example : (writeAll (limited [2, 0, 0, 1, 5]) [1, 2, 3, 4, 5, 6]).2.buf = [1, 2, 3, 4, 5, 6] := by decide
example : (writeAll (limited [2, 0, 0, 1, 5]) [1, 2, 3, 4, 5, 6]).2.log.reverse = [6, 4, 4, 4, 3] := by
  decide
example : (writeAll (limited [1, 1, 1]) [1, 2, 3, 4, 5, 6]).2.log.reverse = [6, 5, 4, 3] := by decide
example : writeAll (limited [2] .fail) [1, 2, 3] =
    (.err "IoBrokenPipe", { sched := [], tail := .fail, buf := [1, 2], log := [1, 3] }) := by decide
example : (writeAll (limited [2] .zero) [1, 2, 3]).1 = .err "IoWriteZero" := by decide
example : (runOps (limited [3, 0, 2]) [.all [1, 2], .all [], .all [3, 4, 5, 6]]).2.buf =
    [1, 2, 3, 4, 5, 6] := by decide
example : ∀ op ∈ opsOfTrace [4, 32, 4] (List.replicate 40 7), op.isAll = true := by decide
example : flatten (opsOfTrace [4, 32, 4] (List.replicate 40 7)) = List.replicate 40 7 := by decide

end CG.Props.C15

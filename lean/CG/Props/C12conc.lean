import CG.Proofs.PeerConc
import CG.Proofs.PeerRefine
/-!
# C12, concurrent part — the receive thread against local `send` / `disconnect` calls

Property theorems only.  Model: `CG.Model.PeerConc` (interleaving semantics of the connected phase at
the granularity of the shared accesses of `peer.rs`: flag load / swap, one `tcp_writer` critical
section, `shutdown`, the single-shot disconnected event); helper lemmas and invariants:
`CG.Proofs.PeerConc`.  Every theorem quantifies over ALL schedules (`List Nat` of thread ids, of any
length), any number of local threads with any programs, and any remote behaviour.

What the sequential model of `CG.Props.C12` linearised away is made exact here:

* the disconnected event is published at most once whoever calls `disconnect()` and however the
  calls interleave (`C12_conc_disconnected_at_most_once`);
* deliveries are taken in order from what arrived, each at most once (`C12_conc_deliveries_in_order`);
* if no local thread calls `disconnect()` and every message handed to `send` is serialisable — i.e.
  every disconnection is caused by the remote (close / malformed data) — then NOTHING is delivered
  after the disconnected event, under every interleaving with the local sends
  (`C12_conc_nothing_after_remote_disconnect`);
* with a local `disconnect()` racing the receive thread AT MOST ONE message can still be delivered
  after the event (`C12_conc_at_most_one_late_delivery`) and that bound is attained
  (`C12_conc_late_delivery_witness`, replayed on the real code through the H3 sync points);
* a `send` that starts after the flag was cleared returns `IllegalState` at once, and a local call waits
  only for the `tcp_writer` mutex, whose holder can always release it
  (`C12_conc_send_after_disconnect_is_error`, `C12_conc_local_calls_never_block`).
-/
namespace CG.Props.C12conc
open CG CG.Model.PeerConc CG.Proofs.PeerConc
open CG.Model.Peer (Output Msg Kind SendErr Wire delivered)

/-- **The disconnected event is published at most once** — any remote behaviour, any local programs
    (any mixture of `send` and `disconnect` calls on any number of threads), any schedule. -/
theorem C12_conc_disconnected_at_most_once (remote : List RemoteEv) (progs : List (List LOp))
    (sched : List Nat) : countDisc (run (init remote progs) sched).out ≤ 1 :=
  (run_inv1 _ sched (inv1_init remote progs)).cnt

/-- … and it is published only after the `connected` flag has been cleared, which is never set
    again: every `send` that starts afterwards is refused (see below). -/
theorem C12_conc_event_implies_flag_cleared (remote : List RemoteEv) (progs : List (List LOp))
    (sched : List Nat) :
    Output.emitDisconnected ∈ (run (init remote progs) sched).out →
      (run (init remote progs) sched).flag = false := by
  intro h
  have i := run_inv1 _ sched (inv1_init remote progs)
  exact i.firedFlag (i.fired.mpr h)

/-- **Ordered, at-most-once delivery under every interleaving**: what has been delivered, followed by
    the message the receive thread holds, followed by what the remote will still send, is a
    sub-sequence of the frames the remote sends — in particular the deliveries are. -/
theorem C12_conc_deliveries_in_order (remote : List RemoteEv) (progs : List (List LOp))
    (sched : List Nat) :
    (delivered (run (init remote progs) sched).out).Sublist (frames remote) := by
  have h := run_track (init remote progs) sched
  have h0 : track (init remote progs) = frames remote := by simp [track, init, delivered, pending]
  rw [h0] at h
  refine List.Sublist.trans ?_ h
  simp only [track, List.append_assoc]
  exact List.sublist_append_left _ _

/-- **Nothing is delivered after a remote-caused disconnection.**  If no local thread calls
    `disconnect()` and every message given to `send` is serialisable, then under EVERY interleaving of
    the receive thread with the local `send` calls no delivery follows the disconnected event. -/
theorem C12_conc_nothing_after_remote_disconnect (remote : List RemoteEv) (progs : List (List LOp))
    (hq : ∀ p ∈ progs, p.all quietOp = true) (sched : List Nat) :
    late (run (init remote progs) sched).out = 0 :=
  (run_invK _ sched (inv1_init remote progs) (invK_init remote progs hq)).late0

/-- **With local `disconnect()` calls in the race, at most one message is delivered after the
    event** — the one whose `connected` test (peer.rs:295) preceded the swap. -/
theorem C12_conc_at_most_one_late_delivery (remote : List RemoteEv) (progs : List (List LOp))
    (sched : List Nat) : late (run (init remote progs) sched).out ≤ 1 := by
  have h := (run_inv12 _ sched (inv1_init remote progs) (inv2_init remote progs)).2
  unfold Inv2 at h; omega

def witnessMsg : Msg := ⟨.plain, "inv", true⟩

/-- **The bound is attained**: one frame, one local thread calling `disconnect()`; the receive thread
    reads the frame and passes its flag test, the local thread runs `disconnect()` to the end, the
    receive thread then handles and publishes the message — after the disconnected event. -/
theorem C12_conc_late_delivery_witness :
    (run (init [.frame witnessMsg] [[.disconnect]]) [0, 0, 1, 1, 1, 1, 0, 0]).out =
      [.emitDisconnected, .deliver witnessMsg] ∧
    late (run (init [.frame witnessMsg] [[.disconnect]]) [0, 0, 1, 1, 1, 1, 0, 0]).out = 1 := by
  decide

/-- **A `send` that starts after the flag was cleared is refused at once** with `IllegalState`: one
    step, nothing written, no shared state changed. -/
theorem C12_conc_send_after_disconnect_is_error (s : St) (i : Nat) (m : Msg) (rest : List LOp)
    (hf : s.flag = false) (ht : s.locals[i]? = some ⟨.idle, .send m :: rest⟩) :
    step s (i + 1) = some { s with out := s.out ++ [.sendResult (some .illegalState)],
                                   locals := s.locals.set i ⟨.idle, rest⟩ } := by
  simp [step, ht, stepL, hf]

/-- **No local call blocks for good.**  In every reachable state a local thread that has not finished its
    program can take its next step, unless it waits for the `tcp_writer` mutex — and then the holder
    (a thread in the last step of `disconnect()`) can take ITS next step, which releases the mutex.
    `send` and `disconnect` contain no other wait; together with `C12_conc_send_after_disconnect_is_error`
    this is "later sends fail with an error instead of blocking". -/
theorem C12_conc_local_calls_never_block (remote : List RemoteEv) (progs : List (List LOp)) (sched : List Nat)
    (i : Nat) (t : LThread) (ht : (run (init remote progs) sched).locals[i]? = some t)
    (hbusy : t.pc ≠ .idle ∨ t.ops ≠ []) :
    (step (run (init remote progs) sched) (i + 1)).isSome = true ∨
    ∃ x, (run (init remote progs) sched).wlock = some x ∧ x ≠ i + 1 ∧
      (step (run (init remote progs) sched) x).isSome = true := by
  have hok := run_holderOk _ sched (holderOk_init remote progs)
  generalize run (init remote progs) sched = s at *
  cases hw : s.wlock with
  | none =>
    left
    have hL : (stepL s (i + 1) t).isSome = true := by
      obtain ⟨pc, ops⟩ := t
      cases pc with
      | idle =>
        cases ops with
        | nil => simp at hbusy
        | cons op rest =>
          cases op with
          | disconnect => simp [stepL]
          | send m => simp only [stepL]; split <;> rfl
      | write m => simp only [stepL, hw, Option.isSome_none, Bool.false_eq_true, if_false]; split <;> rfl
      | disc k ret =>
        simp only [stepL, discStep, hw, Option.isSome_none, Bool.false_eq_true, and_false, if_false]
        split
        · split <;> rfl
        · rfl
    simp only [step, ht]
    cases h : stepL s (i + 1) t with
    | none => simp [h] at hL
    | some p => rfl
  | some x =>
    by_cases hx : x = i + 1
    · left; subst hx; exact holder_can_step s hok _ hw
    · right; exact ⟨x, rfl, hx, holder_can_step s hok x hw⟩

/-- **The sequential model of `CG.Props.C12` is this model under atomic schedules.**  For every list of
    sequential events of the connected phase (remote frames, garbage, close; local sends and disconnects),
    the interleaving model — started after the handshake with the remote events in its queue and the local
    calls as the program of one local thread — run under the schedule in which every event's steps are
    contiguous (`atomicSched`) logs exactly the outputs of the sequential model: every theorem of
    `CG.Props.C12` about the connected phase is a statement about these schedules, and the theorems above
    say what the other schedules add. -/
theorem C12_conc_refines_sequential_model (filter : CG.Model.Peer.VersionInfo → Bool)
    (es : List CG.Model.Peer.Event) :
    (run (init (CG.Proofs.PeerRefine.remotes es) [CG.Proofs.PeerRefine.locals es])
        (CG.Proofs.PeerRefine.atomicSched filter CG.Proofs.PeerRefine.seqInit es)).out =
      (CG.Model.Peer.runFrom filter CG.Proofs.PeerRefine.seqInit es).2 := by
  obtain ⟨rem', h⟩ := CG.Proofs.PeerRefine.refines filter es _ CG.Proofs.PeerRefine.seqOk_init
    (CG.Proofs.PeerRefine.remotes es) [] (fun _ => rfl)
  have e0 : init (CG.Proofs.PeerRefine.remotes es) [CG.Proofs.PeerRefine.locals es] =
      CG.Proofs.PeerRefine.shape CG.Proofs.PeerRefine.seqInit (CG.Proofs.PeerRefine.remotes es) es [] := by
    simp [init, CG.Proofs.PeerRefine.shape, CG.Proofs.PeerRefine.seqInit]
  rw [e0, h]
  simp [CG.Proofs.PeerRefine.shape]

/-! Non-vacuity: the hypotheses of the quiet theorem are satisfiable and its conclusion is not
trivial (a remote close with a concurrent local send: the event is published, nothing follows). -/
example : ([[LOp.send witnessMsg], [LOp.send witnessMsg, LOp.send witnessMsg]] : List (List LOp)).all
    (fun p => p.all quietOp) = true := by decide
example : (run (init [.frame witnessMsg, .fail] [[.send witnessMsg]]) [0, 0, 1, 0, 0, 0, 1, 0, 0, 0, 0, 0]).out =
    [.deliver witnessMsg, .wrote (.msg witnessMsg), .sendResult none, .emitDisconnected] := by decide

end CG.Props.C12conc

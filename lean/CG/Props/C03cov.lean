import CG.Proofs.Coverage
/-!
# C03 (coverage clause) — the sighash coverage table is justified by the BIP-143 reference preimage

`checks/C03` decides every single-field mutation case with the hand-written table
`CG.Spec.SighashCoverage.covered ty m`.  This file proves that table against the reference preimage
`CG.Spec.Bip143.preimageOf` (FORKID path), for **every** type byte `ty : UInt8` — in particular the six
FORKID types `0x41 0x42 0x43 0xc1 0xc2 0xc3` (ALL / NONE / SINGLE, without / with ANYONECANPAY) — and for
**any** double-hash function `dsha`:

* a row `false` (not covered): the mutated request has the *same* preimage, hence the same digest, hence
  the signature stays valid (`C03_uncovered_fields_irrelevant`, no hypothesis on `dsha`);
* a row `true` about a transaction field: the mutated request has a *different* preimage, or `dsha` has
  a collision — and the colliding pair is named: `InnerCollision dsha nIn tx tx'` says two *different*
  byte strings with the same `dsha` value are the two transactions' serialised outpoints, or sequences,
  or outputs, or same-index outputs (what `hashPrevouts` / `hashSequence` / `hashOutputs` are taken of).
  Collision resistance of the double hash is the named assumption; injectivity of `dsha` is NOT assumed.
  (`C03_covered_fields_bind`, from `C02_preimage_injective`; needs `dsha` results of 32 bytes and fields
  in their wire ranges, `TxOk`.)  Naming the pair matters: a total function with 32-byte results has
  *some* collision by counting, so `… ∨ ∃ a b, a ≠ b ∧ dsha a = dsha b` alone would be vacuous;
  `InnerCollision.collision` gives that weaker form.

"Validation then fails" additionally needs ECDSA unforgeability for the new digest — outside the proof.

Definitions (`CG.Proofs.Coverage`): `Agree ty nIn tx tx'` (agreement on what `ty` commits to),
`Mut nIn tx amt m tx' amt'` (the named single-field mutations), `TxOk`, `InnerCollision`, `Collision`.

Rows of the table outside `C03_coverage_table_sound`, because they do not change the preimage of the
request but the signature / key it is checked with, or go through the locking script's own checks:
`key`, `sig_flip_r`, `sig_flip_s` (ECDSA verification), `sig_type` (the type byte appended to the
signature: it changes field 10 of the preimage — row `ty' ≠ ty` of `C03_covered_fields_bind` — and
which table column applies), `spent_script` (for P2PKH the script code is the spent script: row
`sc' ≠ sc` of `C03_covered_fields_bind`; the harness flips a byte of the key hash, so the spend already
fails `OP_EQUALVERIFY`).

Two preconditions the table leaves implicit and `Mut` states (the harness generator guarantees them):
`out_add` is uncovered for SINGLE only if the signed input already has an output at its index (otherwise
the added output *is* the same-index output); `out_remove_last` only if the removed output is not the
same-index one.
-/
namespace CG.Props.C03cov
open CG CG.Model.TxSer CG.Spec.Bip143 CG.Proofs.Bip143Inj CG.Proofs.Coverage
open CG.Spec.SighashCoverage (covered)

/-! ### the two general statements -/

/-- **agreement ⇒ same preimage**: two transactions that agree on the fields type `ty` commits to for
    input `nIn` have equal preimages — any hash function, script code, amount. -/
theorem C03_agree_preimage_eq (dsha : Bytes → Bytes) (ty : UInt8) (nIn : Nat) (tx tx' : Tx)
    (h : Agree ty nIn tx tx') (sc : Bytes) (amt : Int) :
    preimageOf dsha tx' nIn sc amt ty = preimageOf dsha tx nIn sc amt ty :=
  preimage_eq_of_agree dsha h sc amt

/-- **same preimage ⇒ agreement, or a collision**: the converse, up to a collision of `dsha` between
    corresponding inner-hash inputs (for SINGLE the same-index output must exist in both or in neither:
    a missing one hashes to 32 zero bytes, and a `dsha` value of 32 zero bytes is not a collision). -/
theorem C03_equal_preimage_agree_or_collision (dsha : Bytes → Bytes) (hl : ∀ b, (dsha b).length = 32)
    (tx tx' : Tx) (nIn : Nat) (sc sc' : Bytes) (amt amt' : Int) (ty ty' : UInt8)
    (ok : TxOk tx) (ok' : TxOk tx') (hin : nIn < tx.inputs.length) (hin' : nIn < tx'.inputs.length)
    (hsc : sc.length < 2 ^ 64) (hsc' : sc'.length < 2 ^ 64) (ha : InI64 amt) (ha' : InI64 amt')
    (hsame : isSingle ty = true → (tx'.outputs[nIn]?).isSome = (tx.outputs[nIn]?).isSome)
    (h : preimageOf dsha tx' nIn sc' amt' ty' = preimageOf dsha tx nIn sc amt ty) :
    InnerCollision dsha nIn tx tx' ∨ (sc' = sc ∧ amt' = amt ∧ ty' = ty ∧ Agree ty nIn tx tx') :=
  agree_or_collision dsha hl ok ok' hin hin' hsc hsc' ha ha' hsame h

/-! ### 1. uncovered fields -/

/-- **uncovered fields are irrelevant**: each change below leaves the preimage (hence the digest the
    signature is checked against) unchanged.  Any `dsha`, any script code, amount, type byte `ty`. -/
theorem C03_uncovered_fields_irrelevant (dsha : Bytes → Bytes) (tx : Tx) (nIn : Nat) (sc : Bytes) (amt : Int)
    (ty : UInt8) :
    -- an input's unlocking script: every type (even for `j = nIn`: unlocking scripts are not in the preimage)
    (∀ j i u, tx.inputs[j]? = some i →
      preimageOf dsha { tx with inputs := tx.inputs.set j { i with unlockScript := u } } nIn sc amt ty =
        preimageOf dsha tx nIn sc amt ty) ∧
    -- another input's sequence: ANYONECANPAY, or NONE, or SINGLE
    (∀ j i s, j ≠ nIn → tx.inputs[j]? = some i →
      (anyoneCanPay ty = true ∨ isNone ty = true ∨ isSingle ty = true) →
      preimageOf dsha { tx with inputs := tx.inputs.set j { i with sequence := s } } nIn sc amt ty =
        preimageOf dsha tx nIn sc amt ty) ∧
    -- another input's outpoint: ANYONECANPAY
    (∀ j i o, j ≠ nIn → tx.inputs[j]? = some i → anyoneCanPay ty = true →
      preimageOf dsha { tx with inputs := tx.inputs.set j { i with prevOutput := o } } nIn sc amt ty =
        preimageOf dsha tx nIn sc amt ty) ∧
    -- added inputs: ANYONECANPAY
    (∀ extra, nIn < tx.inputs.length → anyoneCanPay ty = true →
      preimageOf dsha { tx with inputs := tx.inputs ++ extra } nIn sc amt ty = preimageOf dsha tx nIn sc amt ty) ∧
    -- SINGLE: the output at another index (amount and script)
    (∀ j o', j ≠ nIn → isSingle ty = true →
      preimageOf dsha { tx with outputs := tx.outputs.set j o' } nIn sc amt ty = preimageOf dsha tx nIn sc amt ty) ∧
    -- SINGLE: added outputs, the signed input having an output at its index
    (∀ extra, nIn < tx.outputs.length → isSingle ty = true →
      preimageOf dsha { tx with outputs := tx.outputs ++ extra } nIn sc amt ty = preimageOf dsha tx nIn sc amt ty) ∧
    -- SINGLE: the last output removed, it not being the one at the signed input's index
    (nIn + 1 < tx.outputs.length → isSingle ty = true →
      preimageOf dsha { tx with outputs := tx.outputs.dropLast } nIn sc amt ty = preimageOf dsha tx nIn sc amt ty) ∧
    -- NONE: any change of the outputs whatsoever (amounts, scripts, added, removed)
    (∀ outs', isNone ty = true →
      preimageOf dsha { tx with outputs := outs' } nIn sc amt ty = preimageOf dsha tx nIn sc amt ty) := by
  refine ⟨?_, ?_, ?_, ?_, ?_, ?_, ?_, ?_⟩
  · intro j i u hi
    exact preimage_eq_of_agree dsha
      (agree_set_input ty nIn tx j i { i with unlockScript := u } hi (fun _ => rfl) (fun _ => rfl)) sc amt
  · intro j i s hj hi hty
    refine preimage_eq_of_agree dsha
      (agree_set_input ty nIn tx j i { i with sequence := s } hi (fun _ => rfl) ?_) sc amt
    rintro (h | ⟨hA, hS, hN⟩)
    · exact absurd h hj
    · rcases hty with h | h | h <;> simp_all
  · intro j i o hj hi hA
    refine preimage_eq_of_agree dsha
      (agree_set_input ty nIn tx j i { i with prevOutput := o } hi ?_ (fun _ => rfl)) sc amt
    rintro (h | h)
    · exact absurd h hj
    · rw [hA] at h; cases h
  · intro extra hin hA
    exact preimage_eq_of_agree dsha (agree_append_inputs ty nIn tx extra hin hA) sc amt
  · intro j o' hj hS
    refine preimage_eq_of_agree dsha (agree_outputs ty nIn tx _ ?_ ?_) sc amt
    · intro c; rw [hS] at c; cases c
    · intro _; exact List.getElem?_set_ne hj
  · intro extra hn hS
    refine preimage_eq_of_agree dsha (agree_outputs ty nIn tx _ ?_ ?_) sc amt
    · intro c; rw [hS] at c; cases c
    · intro _; exact List.getElem?_append_left hn
  · intro hn hS
    refine preimage_eq_of_agree dsha (agree_outputs ty nIn tx _ ?_ ?_) sc amt
    · intro c; rw [hS] at c; cases c
    · intro _; rw [List.getElem?_dropLast, if_pos (by omega)]
  · intro outs' hN
    refine preimage_eq_of_agree dsha (agree_outputs ty nIn tx _ ?_ ?_) sc amt
    · intro _ c; rw [hN] at c; cases c
    · intro hS; rw [isSingle_not_isNone hS] at hN; cases hN

/-! ### 2. covered fields -/

/-- **covered fields bind**: if two signing requests for an existing input `nIn` differ in a field the
    type commits to — version, lock time, this input's outpoint or sequence, the spent amount, the script
    code, the type byte; any outpoint without ANYONECANPAY; any sequence for ALL without ANYONECANPAY;
    the outputs for ALL; the same-index output for SINGLE — then their preimages differ, **or `dsha` has
    a collision** `a ≠ b ∧ dsha a = dsha b` where `a`, `b` are the two transactions' serialised outpoints /
    sequences / outputs / same-index outputs (`InnerCollision`).  (`C02_preimage_injective` for the ten fields + unique decodability of what the three
    inner hashes are taken of.)  `dsha` is any function with 32-byte results; fields in wire range. -/
theorem C03_covered_fields_bind (dsha : Bytes → Bytes) (hl : ∀ b, (dsha b).length = 32)
    (tx tx' : Tx) (nIn : Nat) (sc sc' : Bytes) (amt amt' : Int) (ty ty' : UInt8)
    (ok : TxOk tx) (ok' : TxOk tx') (hin : nIn < tx.inputs.length) (hin' : nIn < tx'.inputs.length)
    (hsc : sc.length < 2 ^ 64) (hsc' : sc'.length < 2 ^ 64) (ha : InI64 amt) (ha' : InI64 amt')
    (hdiff :
      tx'.version ≠ tx.version ∨
      tx'.lockTime ≠ tx.lockTime ∨
      (tx'.inputs[nIn]?).map (·.prevOutput) ≠ (tx.inputs[nIn]?).map (·.prevOutput) ∨
      (tx'.inputs[nIn]?).map (·.sequence) ≠ (tx.inputs[nIn]?).map (·.sequence) ∨
      amt' ≠ amt ∨
      sc' ≠ sc ∨
      ty' ≠ ty ∨
      (anyoneCanPay ty = false ∧ tx'.inputs.map (·.prevOutput) ≠ tx.inputs.map (·.prevOutput)) ∨
      (anyoneCanPay ty = false ∧ isSingle ty = false ∧ isNone ty = false ∧
        tx'.inputs.map (·.sequence) ≠ tx.inputs.map (·.sequence)) ∨
      (isSingle ty = false ∧ isNone ty = false ∧ tx'.outputs ≠ tx.outputs) ∨
      (isSingle ty = true ∧ ∃ o o', tx.outputs[nIn]? = some o ∧ tx'.outputs[nIn]? = some o' ∧ o' ≠ o)) :
    preimageOf dsha tx' nIn sc' amt' ty' ≠ preimageOf dsha tx nIn sc amt ty ∨ InnerCollision dsha nIn tx tx' := by
  by_cases he : preimageOf dsha tx' nIn sc' amt' ty' = preimageOf dsha tx nIn sc amt ty
  · rcases agreeCore_or_collision dsha hl ok ok' hin hin' hsc hsc' ha ha' he with c | ⟨e1, e2, e3, core, bo⟩
    · exact Or.inr c
    · exfalso
      rcases hdiff with d | d | d | d | d | d | d | ⟨hA, d⟩ | ⟨hA, hS, hN, d⟩ | ⟨hS, hN, d⟩ | ⟨hS, o, o', h1, h2, d⟩
      · exact d core.version
      · exact d core.lockTime
      · exact d core.selfPrev
      · exact d core.selfSeq
      · exact d e2
      · exact d e1
      · exact d e3
      · exact d (core.prevouts hA)
      · exact d (core.sequences hA hS hN)
      · exact d (core.outputsAll hS hN)
      · exact d (bo hS o o' h1 h2)
  · exact Or.inl he

/-! ### 3. the table -/

/-- **the coverage table is sound** w.r.t. the reference preimage, for the sixteen mutation names that
    concern the signing request (`none version locktime in_seq_self in_seq_other in_prev_self
    in_prev_other in_add out_amount_same out_amount_other out_script_same out_script_other out_add
    out_remove_last amount unlock_other`): a row `some false` ⇒ the mutated request has the same preimage;
    a row `some true` ⇒ a different preimage, or the named collision of `dsha`. -/
theorem C03_coverage_table_sound (dsha : Bytes → Bytes) (nIn : Nat) (tx tx' : Tx) (amt amt' : Int) (sc : Bytes)
    (ty : UInt8) (m : String) (hm : Mut nIn tx amt m tx' amt') (hin : nIn < tx.inputs.length) :
    (covered ty.toNat m = some false →
      preimageOf dsha tx' nIn sc amt' ty = preimageOf dsha tx nIn sc amt ty) ∧
    (covered ty.toNat m = some true →
      (∀ b, (dsha b).length = 32) → TxOk tx → TxOk tx' → InI64 amt → InI64 amt' → sc.length < 2 ^ 64 →
      preimageOf dsha tx' nIn sc amt' ty ≠ preimageOf dsha tx nIn sc amt ty ∨ InnerCollision dsha nIn tx tx') := by
  have U := C03_uncovered_fields_irrelevant dsha tx nIn sc amt ty
  obtain ⟨uUnlock, uSeq, uPrev, uInAdd, uOutOther, uOutAdd, uOutRem, uNone⟩ := U
  have B : ∀ (tx' : Tx) (amt' : Int), nIn < tx'.inputs.length → _ →
      (∀ b, (dsha b).length = 32) → TxOk tx → TxOk tx' → InI64 amt → InI64 amt' → sc.length < 2 ^ 64 →
      preimageOf dsha tx' nIn sc amt' ty ≠ preimageOf dsha tx nIn sc amt ty ∨ InnerCollision dsha nIn tx tx' :=
    fun tx' amt' hin' hdiff hl ok ok' ha ha' hsc =>
      C03_covered_fields_bind dsha hl tx tx' nIn sc sc amt amt' ty ty ok ok' hin hin' hsc hsc ha ha' hdiff
  have hAll : Spec.SighashCoverage.isAll ty.toNat = (!isSingle ty && !isNone ty) := table_isAll ty
  have hAcp : Spec.SighashCoverage.anyoneCanPay ty.toNat = anyoneCanPay ty := rfl
  have hSgl : decide (Spec.SighashCoverage.base ty.toNat = 3) = isSingle ty := rfl
  cases hm with
  | none => exact ⟨fun _ => rfl, fun c => (nomatch (c : some false = some true))⟩
  | version v h =>
    refine ⟨fun c => (nomatch (c : some true = some false)), fun _ => B _ _ hin (Or.inl h)⟩
  | locktime t h =>
    refine ⟨fun c => (nomatch (c : some true = some false)), fun _ => B _ _ hin (Or.inr (Or.inl h))⟩
  | in_seq_self i s hi h =>
    refine ⟨fun c => (nomatch (c : some true = some false)), fun _ => B _ _ (by simpa using hin) ?_⟩
    exact Or.inr (Or.inr (Or.inr (Or.inl (getElem?_set_map_ne (·.sequence) _ hi h))))
  | in_seq_other j i s hj hi h =>
    have hc : covered ty.toNat "in_seq_other" = some (!anyoneCanPay ty && (!isSingle ty && !isNone ty)) := by
      rw [← hAll]; rfl
    rw [hc]
    constructor
    · intro c
      exact uSeq j i s hj hi (b3_false c)
    · intro c
      have hb := b3_true c
      refine B _ _ (by simpa using hin) ?_
      iterate 8 right
      left
      exact ⟨hb.1, hb.2.1, hb.2.2, map_set_ne (·.sequence) _ hi h⟩
  | in_prev_self i o hi h =>
    refine ⟨fun c => (nomatch (c : some true = some false)), fun _ => B _ _ (by simpa using hin) ?_⟩
    exact Or.inr (Or.inr (Or.inl (getElem?_set_map_ne (·.prevOutput) _ hi h)))
  | in_prev_other j i o hj hi h =>
    have hc : covered ty.toNat "in_prev_other" = some (!anyoneCanPay ty) := rfl
    rw [hc]
    constructor
    · intro c
      exact uPrev j i o hj hi (b1_false c)
    · intro c
      have hA := b1_true c
      refine B _ _ (by simpa using hin) ?_
      iterate 7 right
      left
      exact ⟨hA, map_set_ne (·.prevOutput) _ hi h⟩
  | in_add x =>
    have hc : covered ty.toNat "in_add" = some (!anyoneCanPay ty) := rfl
    rw [hc]
    constructor
    · intro c
      exact uInAdd [x] hin (b1_false c)
    · intro c
      have hA := b1_true c
      refine B _ _ (by simp only [List.length_append]; omega) ?_
      iterate 7 right
      left
      refine ⟨hA, fun e => ?_⟩
      have := congrArg List.length e
      simp at this
  | out_amount_same o a ho h =>
    have hc : covered ty.toNat "out_amount_same" = some ((!isSingle ty && !isNone ty) || isSingle ty) := by
      rw [← hAll, ← hSgl]; rfl
    rw [hc]
    have hne : ({ o with satoshis := a } : TxOut) ≠ o := fun e => h (congrArg TxOut.satoshis e)
    constructor
    · intro c
      exact uNone _ (bSame_false c)
    · intro c
      rcases bSame_true c with hS | ⟨hS, hN⟩
      · refine B _ _ hin ?_
        iterate 10 right
        exact ⟨hS, o, _, ho, getElem?_set_of_some _ ho, hne⟩
      · refine B _ _ hin ?_
        iterate 9 right
        left
        exact ⟨hS, hN, set_ne_self _ ho hne⟩
  | out_amount_other j o a hj ho h =>
    have hc : covered ty.toNat "out_amount_other" = some (!isSingle ty && !isNone ty) := by
      rw [← hAll]; rfl
    rw [hc]
    have hne : ({ o with satoshis := a } : TxOut) ≠ o := fun e => h (congrArg TxOut.satoshis e)
    constructor
    · intro c
      rcases bAll_false c with hS | hN
      · exact uOutOther j _ hj hS
      · exact uNone _ hN
    · intro c
      have hb := bAll_true c
      refine B _ _ hin ?_
      iterate 9 right
      left
      exact ⟨hb.1, hb.2, set_ne_self _ ho hne⟩
  | out_script_same o s ho h =>
    have hc : covered ty.toNat "out_script_same" = some ((!isSingle ty && !isNone ty) || isSingle ty) := by
      rw [← hAll, ← hSgl]; rfl
    rw [hc]
    have hne : ({ o with lockScript := s } : TxOut) ≠ o := fun e => h (congrArg TxOut.lockScript e)
    constructor
    · intro c
      exact uNone _ (bSame_false c)
    · intro c
      rcases bSame_true c with hS | ⟨hS, hN⟩
      · refine B _ _ hin ?_
        iterate 10 right
        exact ⟨hS, o, _, ho, getElem?_set_of_some _ ho, hne⟩
      · refine B _ _ hin ?_
        iterate 9 right
        left
        exact ⟨hS, hN, set_ne_self _ ho hne⟩
  | out_script_other j o s hj ho h =>
    have hc : covered ty.toNat "out_script_other" = some (!isSingle ty && !isNone ty) := by
      rw [← hAll]; rfl
    rw [hc]
    have hne : ({ o with lockScript := s } : TxOut) ≠ o := fun e => h (congrArg TxOut.lockScript e)
    constructor
    · intro c
      rcases bAll_false c with hS | hN
      · exact uOutOther j _ hj hS
      · exact uNone _ hN
    · intro c
      have hb := bAll_true c
      refine B _ _ hin ?_
      iterate 9 right
      left
      exact ⟨hb.1, hb.2, set_ne_self _ ho hne⟩
  | out_add o hn =>
    have hc : covered ty.toNat "out_add" = some (!isSingle ty && !isNone ty) := by
      rw [← hAll]; rfl
    rw [hc]
    constructor
    · intro c
      rcases bAll_false c with hS | hN
      · exact uOutAdd [o] hn hS
      · exact uNone _ hN
    · intro c
      have hb := bAll_true c
      refine B _ _ hin ?_
      iterate 9 right
      left
      refine ⟨hb.1, hb.2, fun e => ?_⟩
      have := congrArg List.length e
      simp at this
  | out_remove_last hn =>
    have hc : covered ty.toNat "out_remove_last" = some (!isSingle ty && !isNone ty) := by
      rw [← hAll]; rfl
    rw [hc]
    constructor
    · intro c
      rcases bAll_false c with hS | hN
      · exact uOutRem hn hS
      · exact uNone _ hN
    · intro c
      have hb := bAll_true c
      refine B _ _ hin ?_
      iterate 9 right
      left
      refine ⟨hb.1, hb.2, fun e => ?_⟩
      have := congrArg List.length e
      simp only [List.length_dropLast] at this
      omega
  | amount a h =>
    refine ⟨fun c => (nomatch (c : some true = some false)), fun _ => B _ _ hin ?_⟩
    exact Or.inr (Or.inr (Or.inr (Or.inr (Or.inl h))))
  | unlock_other j i u hj hi h =>
    exact ⟨fun _ => uUnlock j i u hi, fun c => (nomatch (c : some false = some true))⟩

/-- every mutation name of `Mut` has a row in the table -/
theorem C03_mutation_names_in_table (nIn : Nat) (tx tx' : Tx) (amt amt' : Int) (m : String)
    (hm : Mut nIn tx amt m tx' amt') (ty : Nat) : (covered ty m).isSome = true := by
  cases hm <;> rfl

/-- the weaker, anonymous form of the alternative -/
theorem C03_inner_collision_is_collision (dsha : Bytes → Bytes) (nIn : Nat) (tx tx' : Tx)
    (h : InnerCollision dsha nIn tx tx') : ∃ a b : Bytes, a ≠ b ∧ dsha a = dsha b := h.collision

/-! ### non-vacuity: a 2-input 2-output transaction, input 0 signed -/

def exIn0 : TxIn := ⟨⟨List.replicate 32 7, 0⟩, [], 0xfffffff0⟩
def exIn1 : TxIn := ⟨⟨List.replicate 32 7, 1⟩, [], 0xfffffff1⟩
def exOut0 : TxOut := ⟨10, [0x51, 0x75, 0x51]⟩
def exOut1 : TxOut := ⟨11, [0x51, 0x75, 0x52]⟩
def exTx : Tx := { version := 2, inputs := [exIn0, exIn1], outputs := [exOut0, exOut1], lockTime := 17 }
def spare : OutPoint := ⟨List.replicate 32 7, 2⟩

/-- a toy function with 32-byte results (zero-pad, cut to 32 bytes) -/
def toyHash (b : Bytes) : Bytes := (b ++ List.replicate 32 0).take 32

example : ∀ b, (toyHash b).length = 32 := by intro b; simp [toyHash]
example : TxOk exTx := ⟨by decide, by decide, by decide, by unfold InI64; decide⟩
example : InI64 1000 ∧ InI64 999 ∧ ([0x76, 0xa9] : Bytes).length < 2 ^ 64 ∧ 0 < exTx.inputs.length := by
  unfold InI64; decide

-- every mutation is applicable to it
example : Mut 0 exTx 1000 "none" exTx 1000 := .none
example : ∃ t, Mut 0 exTx 1000 "version" t 1000 ∧ TxOk t := ⟨_, .version 3 (by decide), by decide, by decide, by decide, by unfold InI64; decide⟩
example : ∃ t, Mut 0 exTx 1000 "locktime" t 1000 := ⟨_, .locktime 18 (by decide)⟩
example : ∃ t, Mut 0 exTx 1000 "in_seq_self" t 1000 := ⟨_, .in_seq_self exIn0 5 rfl (by decide)⟩
example : ∃ t, Mut 0 exTx 1000 "in_seq_other" t 1000 := ⟨_, .in_seq_other 1 exIn1 5 (by decide) rfl (by decide)⟩
example : ∃ t, Mut 0 exTx 1000 "in_prev_self" t 1000 := ⟨_, .in_prev_self exIn0 spare rfl (by decide)⟩
example : ∃ t, Mut 0 exTx 1000 "in_prev_other" t 1000 ∧ TxOk t :=
  ⟨_, .in_prev_other 1 exIn1 spare (by decide) rfl (by decide), by decide, by decide, by decide, by unfold InI64; decide⟩
example : ∃ t, Mut 0 exTx 1000 "in_add" t 1000 := ⟨_, .in_add ⟨spare, [], 0xffffffff⟩⟩
example : ∃ t, Mut 0 exTx 1000 "out_amount_same" t 1000 := ⟨_, .out_amount_same exOut0 11 rfl (by decide)⟩
example : ∃ t, Mut 0 exTx 1000 "out_amount_other" t 1000 := ⟨_, .out_amount_other 1 exOut1 12 (by decide) rfl (by decide)⟩
example : ∃ t, Mut 0 exTx 1000 "out_script_same" t 1000 := ⟨_, .out_script_same exOut0 [0x51, 0x75, 0x51, 0x61] rfl (by decide)⟩
example : ∃ t, Mut 0 exTx 1000 "out_script_other" t 1000 :=
  ⟨_, .out_script_other 1 exOut1 [0x51, 0x75, 0x52, 0x61] (by decide) rfl (by decide)⟩
example : ∃ t, Mut 0 exTx 1000 "out_add" t 1000 := ⟨_, .out_add ⟨1, [0x51]⟩ (by decide)⟩
example : ∃ t, Mut 0 exTx 1000 "out_remove_last" t 1000 := ⟨_, .out_remove_last (by decide)⟩
example : Mut 0 exTx 1000 "amount" exTx 999 := .amount 999 (by decide)
example : ∃ t, Mut 0 exTx 1000 "unlock_other" t 1000 := ⟨_, .unlock_other 1 exIn1 [0x61] (by decide) rfl (by decide)⟩

-- both kinds of row occur among the six FORKID types
example : [0x41, 0x42, 0x43, 0xc1, 0xc2, 0xc3].map (fun t => covered t "in_seq_other") =
    [some true, some false, some false, some false, some false, some false] := by decide
example : [0x41, 0x42, 0x43, 0xc1, 0xc2, 0xc3].map (fun t => covered t "in_prev_other") =
    [some true, some true, some true, some false, some false, some false] := by decide
example : [0x41, 0x42, 0x43, 0xc1, 0xc2, 0xc3].map (fun t => covered t "out_amount_same") =
    [some true, some false, some true, some true, some false, some true] := by decide
example : [0x41, 0x42, 0x43, 0xc1, 0xc2, 0xc3].map (fun t => covered t "out_add") =
    [some true, some false, some false, some true, some false, some false] := by decide

-- the table theorem applied: ALL|ANYONECANPAY|FORKID does not commit to the other input's sequence …
example (dsha : Bytes → Bytes) (sc : Bytes) :
    preimageOf dsha { exTx with inputs := exTx.inputs.set 1 { exIn1 with sequence := 5 } } 0 sc 1000 0xc1 =
      preimageOf dsha exTx 0 sc 1000 0xc1 :=
  (C03_coverage_table_sound dsha 0 exTx _ 1000 1000 sc 0xc1 "in_seq_other"
    (.in_seq_other 1 exIn1 5 (by decide) rfl (by decide)) (by decide)).1 (by decide)

-- … ALL|FORKID does; with the toy function the first alternative (different preimages) is the one that holds
example : preimageOf toyHash { exTx with inputs := exTx.inputs.set 1 { exIn1 with sequence := 5 } } 0 [0x51] 1000 0x41 ≠
    preimageOf toyHash exTx 0 [0x51] 1000 0x41 := by decide
example : preimageOf toyHash { exTx with version := 3 } 0 [0x51] 1000 0x43 ≠ preimageOf toyHash exTx 0 [0x51] 1000 0x43 := by
  decide

end CG.Props.C03cov

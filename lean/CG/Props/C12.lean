import CG.Proofs.PeerRef
import CG.Props.C11
import CG.Generated.Tables
/-!
# C12 — Peer lifecycle: handshake, ordered delivery, exactly-once events

Property theorems only.  Model: `CG.Model.Peer` — `Peer::connect / connect_internal / handshake /
handle_message / send / disconnect` of `src/peer/peer.rs` as a state machine over events
`remoteFrame m | remoteGarbage k | remoteClose | remoteSilence | localSend m | localDisconnect`
with outputs `emitConnected | emitDisconnected | deliver m | wrote w | sendResult r`; `Single`
(`src/util/rx.rs`) enters only through its API semantics "the first value wins".  Reference:
`CG.Spec.PeerSpec` (a session cut at the end of the handshake and at the first terminating event).

Every theorem is by induction over ARBITRARY event lists (any length, any interleaving of remote
and local events); the `PeerFilter` is an arbitrary function.

Bytes to events.  What the remote does at byte level — segmentation, pacing, a frame cut short by
end of stream, bad magic, bad checksum, oversize length — reaches the peer only through the
receive loop, and C11 proves what that loop makes of any byte stream under any read schedule:
`C11_complete` / `C11_fragmentation_independent` (valid frames, then possibly an incomplete one,
then end of stream: exactly the frames' messages in order, then `NotConnected`),
`C11_stops_at_first_non_message` (nothing is emitted from the first non-message on, and the loop
stops with that error), `C11_eof_is_disconnect`.  `C12_bytes_lift_to_events` composes them with
the state machine.

What is partial (observed by the correspondence, not modelled):
* one event = one atomic step.  For a message the step is "read returns, the `connected` flag is
  tested (peer.rs:295), `handle_message`, publication".  A LOCAL `disconnect()` whose flag store
  (peer.rs:195) lands after that test is linearised AFTER the message, although on the real threads
  its disconnected event can be published before the message is.  Hence
  `C12_nothing_after_remote_disconnect` is claimed for remote-caused disconnection (which is what
  the property states); `C12_local_disconnect_linearised` says what the sequential model gives
  for a local one.
* thread scheduling, socket buffering, timeouts: the handshake's 3 s read timeout is the event
  `remoteSilence`; a read of the handshake that times out inside a message, `Message::Partial`
  during the handshake, write errors of a socket the remote has reset, and `TcpStream::connect`
  failing are not modelled.
* the handshake reads from the raw `TcpStream` with `read_exact` (no `AtomicReader`): that
  segmentation without a timeout does not matter there is the stream property of TCP, observed by
  the correspondence.
-/
namespace CG.Props.C12
open CG CG.Model.Peer CG.Spec.PeerSpec CG.Proofs.Peer

variable (f : VersionInfo → Bool)

/-! ## Handshake -/

/-- **Handshake order.** Of the outputs that belong to the handshake (`wrote version`,
    `wrote verack`, `wrote hsPing`, `emitConnected`) a session produces: first our version, and
    then — exactly when the remote's first two messages are a version the filter accepts followed
    by a verack — our verack, our ping and the connected event, in this order, once.  Local
    `send`/`disconnect` calls, whatever their number and position, do not change this. -/
theorem C12_handshake_order (evs : List Event) :
    (run f evs).2.filter isHs =
      .wrote .version ::
        (if handshakeCompletes f evs then [.wrote .verack, .wrote .hsPing, .emitConnected] else []) ∧
    handshakeCompletes f evs =
      (match remoteOnly evs with
       | .remoteFrame vm :: .remoteFrame am :: _ => acceptable f vm && isVerack am
       | _ => false) := by
  refine ⟨?_, handshakeCompletes_remoteOnly f evs⟩
  have := hs_run_version f evs init inv_init rfl
  simp only [run, List.filter_cons, isHs, if_true, this]

/-- **Connected exactly once, before any message.** In every session the connected event is
    published at most once, every delivery comes after it, and it is published exactly once when
    the handshake completes. -/
theorem C12_connected_once_before_any_message (evs : List Event) :
    List.count .emitConnected (run f evs).2 ≤ 1 ∧
    (∀ pre m post, (run f evs).2 = pre ++ .deliver m :: post → .emitConnected ∈ pre) ∧
    (handshakeCompletes f evs = true → List.count .emitConnected (run f evs).2 = 1) := by
  have h := (order_run f evs init inv_init).1
  have h' : okOrder (run f evs).2 false = true := by simpa [run, okOrder, init] using h
  refine ⟨(okOrder_spec _ h').1, (okOrder_spec _ h').2, ?_⟩
  intro hc
  have h1 := (C12_handshake_order f evs).1
  rw [hc] at h1
  have : List.count .emitConnected ((run f evs).2.filter isHs) = 1 := by rw [h1]; decide
  rw [List.count_filter (by rfl)] at this
  exact this

/-! ## Delivery -/

/-- **Every message exactly once, in arrival order.** Against a conforming remote — its messages
    are a version the filter accepts, a verack, then `ms`, of any kinds and number — and with any
    local `send` calls of writable messages interleaved anywhere, the messages delivered to the
    observers are exactly `ms`, in order; the peer is still connected and has not announced
    disconnection. -/
theorem C12_each_message_once_in_order (evs : List Event) (vm am : Msg) (ms : List Msg)
    (hv : acceptable f vm = true) (ha : isVerack am = true)
    (hr : remoteOnly evs = .remoteFrame vm :: .remoteFrame am :: ms.map .remoteFrame)
    (hl : ∀ e ∈ evs, benign e = true) :
    delivered (run f evs).2 = ms ∧ (run f evs).1.flag = true ∧
    List.count .emitDisconnected (run f evs).2 = 0 := by
  have h := version_run f evs init vm am ms inv_init rfl hv ha hr hl
  refine ⟨by simpa [run, delivered] using h.1, ?_, by simpa [run] using h.2.2.2⟩
  have := h.2.1
  simp only [live, Bool.and_eq_true] at this
  exact this.1.2

/-- … and for ANY session whatever (faults, local calls, anything): what is delivered is a
    subsequence of the messages that arrived — nothing invented, duplicated or reordered. -/
theorem C12_deliveries_are_arrivals_in_order (evs : List Event) :
    List.Sublist (delivered (run f evs).2) (evs.filterMap frameOf) := by
  simpa [run, delivered] using delivered_sublist f evs init

/-- **Ping is answered by pong with the same nonce.** In every session the pongs written are, in
    order, the nonces of the pings delivered: each ping is answered once, with its nonce, and no
    other pong is ever written. -/
theorem C12_ping_pong_same_nonce (evs : List Event) :
    pongs (run f evs).2 = (delivered (run f evs).2).filterMap pingNonce := by
  simpa [run, pongs, delivered] using pongs_run f evs init

/-- against a conforming remote: the pongs are the nonces of the remote's pings -/
theorem C12_ping_pong_conforming (evs : List Event) (vm am : Msg) (ms : List Msg)
    (hv : acceptable f vm = true) (ha : isVerack am = true)
    (hr : remoteOnly evs = .remoteFrame vm :: .remoteFrame am :: ms.map .remoteFrame)
    (hl : ∀ e ∈ evs, benign e = true) :
    pongs (run f evs).2 = ms.filterMap pingNonce := by
  rw [C12_ping_pong_same_nonce, (C12_each_message_once_in_order f evs vm am ms hv ha hr hl).1]

/-- **State reflects the announcements.** In every session `minfee()`, `sendheaders()`,
    `sendcmpct()` afterwards are what the delivered feefilter / sendheaders / sendcmpct messages
    announce (the last feefilter, any sendheaders, the last sendcmpct), starting from 0/false/false. -/
theorem C12_state_reflects_announcements (evs : List Event) :
    ((run f evs).1.minfee, (run f evs).1.sendheaders, (run f evs).1.sendcmpct) =
      annOf (delivered (run f evs).2) := by
  have := ann_run f evs init
  simpa [run, delivered, annState, annOf, init] using this

theorem C12_state_conforming (evs : List Event) (vm am : Msg) (ms : List Msg)
    (hv : acceptable f vm = true) (ha : isVerack am = true)
    (hr : remoteOnly evs = .remoteFrame vm :: .remoteFrame am :: ms.map .remoteFrame)
    (hl : ∀ e ∈ evs, benign e = true) :
    ((run f evs).1.minfee, (run f evs).1.sendheaders, (run f evs).1.sendcmpct) = annOf ms := by
  rw [C12_state_reflects_announcements, (C12_each_message_once_in_order f evs vm am ms hv ha hr hl).1]

/-! ## Disconnection -/

/-- the state in which event `e` of `pre ++ e :: post` arrives -/
abbrev stateAfter (pre : List Event) : State := (runFrom f init pre).1

/-- **Disconnected exactly once.** (i) In every session the disconnected event is published at most
    once (however many of remote close, garbage, local `disconnect()`, failing `send`, … occur).
    (ii) If the remote commits a fault — closes, sends something that is not a message (bad magic,
    bad checksum, oversize length, undecodable payload), stays silent through the handshake
    timeout, sends the wrong handshake message, or a version the filter rejects — it is published
    exactly once. -/
theorem C12_disconnect_exactly_once (evs : List Event) :
    List.count .emitDisconnected (run f evs).2 ≤ 1 ∧
    ∀ pre e post, evs = pre ++ e :: post → remoteFault f (stateAfter f pre) e = true →
      List.count .emitDisconnected (run f evs).2 = 1 := by
  have hc := disc_count_run f evs init
  have e0 : List.count .emitDisconnected (run f evs).2 = List.count .emitDisconnected (runFrom f init evs).2 := by
    simp [run]
  constructor
  · rw [e0]
    cases h : (runFrom f init evs).1.discFired <;> simp_all [init] <;> omega
  · intro pre e post he hf
    subst he
    have hinv := inv_runFrom f pre init inv_init
    have hq := (fault_step f _ e hinv hf).1
    have h1 := (after_quiet f pre post e init hq).2.1
    have : (runFrom f init (pre ++ e :: post)).1.discFired = true := by
      simp only [quiet, Bool.and_eq_true] at h1
      exact h1.1.2
    rw [e0]
    rw [this] at hc
    simpa [init] using hc

/-- the surface forms of (ii): a close or a non-message anywhere in the session … -/
theorem C12_disconnect_once_on_close_or_garbage (evs : List Event)
    (h : .remoteClose ∈ evs ∨ ∃ g, .remoteGarbage g ∈ evs) :
    List.count .emitDisconnected (run f evs).2 = 1 := by
  rcases h with h | ⟨g, h⟩
  · obtain ⟨pre, post, rfl⟩ := List.append_of_mem h
    exact (C12_disconnect_exactly_once f _).2 pre _ post rfl rfl
  · obtain ⟨pre, post, rfl⟩ := List.append_of_mem h
    exact (C12_disconnect_exactly_once f _).2 pre _ post rfl rfl

/-- … a first message that is not a version the filter accepts (verack before version, no version,
    filter rejection) … -/
theorem C12_disconnect_once_on_bad_version (evs : List Event) (m : Msg) (rest : List Event)
    (hr : nextRemote evs = some (.remoteFrame m, rest)) (hm : acceptable f m = false) :
    List.count .emitDisconnected (run f evs).2 = 1 := by
  obtain ⟨-, -, pre, he, hl⟩ := nextRemote_some hr
  refine (C12_disconnect_exactly_once f evs).2 pre _ rest he ?_
  have := (hs_locals_run f pre init inv_init rfl hl).1
  simp only [remoteFault, stateAfter]
  rw [this]
  simp [init, hm]

/-- … or a second message that is not a verack (a message between version and verack, a second
    version). -/
theorem C12_disconnect_once_on_bad_verack (evs : List Event) (vm m : Msg) (rest rest2 : List Event)
    (hr : nextRemote evs = some (.remoteFrame vm, rest)) (hv : acceptable f vm = true)
    (hr2 : nextRemote rest = some (.remoteFrame m, rest2)) (hm : isVerack m = false) :
    List.count .emitDisconnected (run f evs).2 = 1 := by
  obtain ⟨-, -, pre, he, hl⟩ := nextRemote_some hr
  obtain ⟨-, -, pre2, he2, hl2⟩ := nextRemote_some hr2
  have hev : evs = (pre ++ .remoteFrame vm :: pre2) ++ .remoteFrame m :: rest2 := by
    rw [he, he2]; simp
  refine (C12_disconnect_exactly_once f evs).2 _ _ rest2 hev ?_
  have h1 := (hs_locals_run f pre init inv_init rfl hl).1
  have hinv := inv_runFrom f pre init inv_init
  have h2 := version_step f _ vm hinv (by rw [h1]; rfl)
  simp only [hv, if_true] at h2
  have h3 := (hs_locals_run f pre2 (step f (runFrom f init pre).1 (.remoteFrame vm)).1 (inv_step f _ _ hinv)
    (by simp [inHandshake, h2.2.1]) hl2).1
  have : (stateAfter f (pre ++ .remoteFrame vm :: pre2)).phase = .awaitVerack := by
    simp only [stateAfter, runFrom_append, runFrom_cons]
    rw [h3, h2.2.1]
  simp only [remoteFault]
  rw [this]
  simp [hm]

/-- **Nothing after a remote-caused disconnection.** Once the remote has committed a fault, the
    rest of the session — whatever arrives, whatever is called — produces nothing but
    `IllegalState` results of `send` calls: no delivery, no second disconnected event, no connected
    event, no write.  The session up to and including the fault has published the disconnected
    event exactly once. -/
theorem C12_nothing_after_remote_disconnect (pre post : List Event) (e : Event)
    (hf : remoteFault f (stateAfter f pre) e = true) :
    (run f (pre ++ e :: post)).2 = (run f (pre ++ [e])).2 ++ sendErrs post ∧
    List.count .emitDisconnected (run f (pre ++ [e])).2 = 1 ∧
    delivered (sendErrs post) = [] ∧ wires (sendErrs post) = [] ∧
    List.count .emitDisconnected (sendErrs post) = 0 ∧ List.count .emitConnected (sendErrs post) = 0 ∧
    (run f (pre ++ e :: post)).1.flag = false := by
  have hinv := inv_runFrom f pre init inv_init
  have hq := (fault_step f _ e hinv hf).1
  have h1 := after_quiet f pre post e init hq
  have hs := sendErrs_silent post
  refine ⟨by simp [run, h1.1], (C12_disconnect_exactly_once f _).2 pre e [] rfl hf, hs.1, hs.2.1, hs.2.2.2.2.1,
    hs.2.2.2.1, ?_⟩
  have := h1.2.1
  simp only [quiet, Bool.and_eq_true, Bool.not_eq_true'] at this
  exact this.1.1

/-- **Later sends fail with an error.** After a fault of the remote every `send` call returns
    `Err(IllegalState)` — a result, not a panic and not a blocked call: the results of the whole
    session are those up to the fault followed by one `IllegalState` per later call. -/
theorem C12_send_after_disconnect_is_error (pre post : List Event) (e : Event)
    (hf : remoteFault f (stateAfter f pre) e = true) :
    sendResults (run f (pre ++ e :: post)).2 =
      sendResults (run f (pre ++ [e])).2 ++ List.replicate (sendCalls post) (some .illegalState) := by
  rw [(C12_nothing_after_remote_disconnect f pre post e hf).1, sendResults_append, sendErrs_sendResults]

/-- one `send` call after the fault, spelled out -/
theorem C12_send_after_disconnect_single (pre : List Event) (e : Event) (m : Msg)
    (hf : remoteFault f (stateAfter f pre) e = true) :
    (run f (pre ++ e :: [.localSend m])).2 = (run f (pre ++ [e])).2 ++ [.sendResult (some .illegalState)] := by
  rw [(C12_nothing_after_remote_disconnect f pre [.localSend m] e hf).1]
  rfl

/-- **Local termination, as the sequential model linearises it.** Once the handshake is over, a
    local `disconnect()` — or a `send` of a message that cannot be written, which disconnects — is
    followed by nothing but `IllegalState` send results: messages whose step comes later in the
    event list are not delivered.  (On the real threads a message whose flag test preceded the
    call can still be published after the disconnected event: that order is the one thing the
    model does not distinguish.) -/
theorem C12_local_disconnect_linearised (pre post : List Event) (e : Event)
    (hp : inHandshake (stateAfter f pre) = false) (ht : e = .localDisconnect ∨ ∃ m, e = .localSend m ∧ m.writable = false) :
    (run f (pre ++ e :: post)).2 = (run f (pre ++ [e])).2 ++ sendErrs post ∧
    List.count .emitDisconnected (run f (pre ++ e :: post)).2 = 1 := by
  have hinv := inv_runFrom f pre init inv_init
  have hterm : terminates e = true := by
    rcases ht with rfl | ⟨m, rfl, hm⟩
    · rfl
    · simp [terminates, hm]
  have hq := term_step f _ e hinv hp hterm
  have h1 := after_quiet f pre post e init hq
  refine ⟨by simp [run, h1.1], ?_⟩
  have hc := disc_count_run f (pre ++ e :: post) init
  have : (runFrom f init (pre ++ e :: post)).1.discFired = true := by
    have := h1.2.1
    simp only [quiet, Bool.and_eq_true] at this
    exact this.1.2
  rw [this] at hc
  simpa [run, init] using hc

/-! ## Bytes to events (C11) -/

section Bytes
open CG.Model.Framing CG.Proofs.Framing
open CG.Spec.Reassembly (Frame expected streamOf StrictFramePrefix)

/-- how a finished run of the receive loop reaches the state machine: its messages, then end of
    stream (`NotConnected`) or a non-message -/
def lift (r : List Msg × Final) : List Event :=
  r.1.map .remoteFrame ++
    (match r.2 with
     | .stopped e => if e = DISCONNECTED then [.remoteClose] else [.remoteGarbage .badPayload]
     | .waiting => [])

/-- **Segmentation and pacing do not matter.** For every list of valid frames followed by an
    incomplete frame (or nothing) and end of stream, under ANY read schedule (fragment sizes,
    timeouts) given enough passes, the receive loop hands the state machine exactly the frames'
    messages and then `remoteClose` (`C11_complete`); so two runs of the same session that differ only
    in how the remote's bytes were cut up and paced are the same run. -/
theorem C12_bytes_lift_to_events (c : Cfg Msg) (hw : (toWire c).WF) (frames : List Frame)
    (hv : ∀ fr ∈ frames, Frame.Valid (toWire c) fr) (tail : Bytes) (ht : StrictFramePrefix (toWire c) tail)
    (s1 s2 : List Nat) (f1 f2 : Nat)
    (h1 : s1.length + (streamOf (toWire c) frames ++ tail).length + frames.length < f1)
    (h2 : s2.length + (streamOf (toWire c) frames ++ tail).length + frames.length < f2)
    (pre : List Event) :
    lift (recvLoop c f1 (LoopState.init (streamOf (toWire c) frames ++ tail) s1)) =
      (expected (toWire c) frames).map .remoteFrame ++ [.remoteClose] ∧
    run f (pre ++ lift (recvLoop c f1 (LoopState.init (streamOf (toWire c) frames ++ tail) s1))) =
      run f (pre ++ lift (recvLoop c f2 (LoopState.init (streamOf (toWire c) frames ++ tail) s2))) := by
  rw [CG.Props.C11.C11_complete c hw frames hv tail ht s1 f1 h1, CG.Props.C11.C11_complete c hw frames hv tail ht s2 f2 h2]
  simp [lift]

/-- a stream that goes wrong (bad magic, oversize length, bad checksum, undecodable payload: the
    reference parse stops there with an error other than end of stream): when the loop has stopped
    it has handed over a prefix of the valid frames' messages — by `C11_refines_contiguous` all of
    them — and then a non-message; never anything from the bad frame on. -/
theorem C12_corrupt_bytes_lift_to_garbage (c : Cfg Msg) (hw : (toWire c).WF) (frames : List Frame)
    (hv : ∀ fr ∈ frames, Frame.Valid (toWire c) fr) (junk : Bytes) (e : String)
    (hj : CG.Spec.Reassembly.step (toWire c) junk = .stop e) (hne : e ≠ DISCONNECTED)
    (sched : List Nat) (fuel : Nat) (e' : String)
    (hs : (recvLoop c fuel (LoopState.init (streamOf (toWire c) frames ++ junk) sched)).2 = .stopped e') :
    ∃ ms, ms <+: expected (toWire c) frames ∧
      lift (recvLoop c fuel (LoopState.init (streamOf (toWire c) frames ++ junk) sched)) =
        ms.map .remoteFrame ++ [.remoteGarbage .badPayload] := by
  have h := CG.Props.C11.C11_stops_at_first_non_message c hw frames hv junk e hj sched fuel
  refine ⟨_, h.1, ?_⟩
  have he : e' = e := h.2 e' hs
  simp [lift, hs, he, hne]

end Bytes

/-! ## Model against the reference -/

/-- **The model refines the reference.** For every session in the reference's scope the whole
    observable log of the state machine — observer calls in order, what the remote receives in
    order, every `send` result, `connected()`, `minfee()`, `sendheaders()`, `sendcmpct()`, whether the
    socket was closed — is the log the cut-based reference `PeerSpec.expected` prescribes: connected
    once and first, every message up to the first terminating event once and in order, pongs with
    the pings' nonces, the announcements reflected, disconnected exactly once iff the session was
    terminated, nothing afterwards, `IllegalState` for every `send` outside the live part. -/
theorem C12_model_matches_reference (evs : List Event) (log : Log) (h : expected f evs = some log) :
    observe (run f evs) = log :=
  model_matches_reference f evs log h

/-- the reference's scope: it is defined for every session without a local `disconnect()` (and for
    those where the call comes after the handshake has ended, completed or broken) -/
theorem C12_reference_defined (evs : List Event) (h : hasLocalDisconnect evs = false) :
    (expected f evs).isSome = true := by
  have take_ok : ∀ n, hasLocalDisconnect (evs.take n) = false := by
    intro n
    cases hh : hasLocalDisconnect (evs.take n) with
    | false => rfl
    | true =>
      exfalso
      simp only [hasLocalDisconnect, List.any_eq_true] at hh
      obtain ⟨x, hx, hx2⟩ := hh
      have : hasLocalDisconnect evs = true := by
        simp only [hasLocalDisconnect, List.any_eq_true]
        exact ⟨x, List.mem_of_mem_take hx, hx2⟩
      rw [h] at this
      cases this
  unfold expected
  split
  · simp [handshakePart, take_ok]
  · split
    · simp [h]
    · unfold brokenPart
      split <;> simp [handshakePart, take_ok]

/-- the early-`disconnect()` behaviour of the code, recorded: a local `disconnect()` during the
    handshake publishes the disconnected event but does not stop the handshake (there is no
    socket to shut down yet): the peer then connects, publishes the connected event AFTER the
    disconnected one, delivers, and accepts `send`.  Outside the property's statement (its
    disconnection clauses are about remote-caused disconnection); `expected` answers `none`. -/
theorem C12_early_local_disconnect_witness (vm am m : Msg) (v : VersionInfo)
    (hv : vm.kind = .version v) (hf : f v = true) (ha : am.kind = .verack) (hm : m.kind = .plain) :
    (run f [.localDisconnect, .remoteFrame vm, .remoteFrame am, .remoteFrame m, .localSend m]).2 =
      [.wrote .version, .emitDisconnected, .wrote .verack, .wrote .hsPing, .emitConnected, .deliver m] ++
        (if m.writable then [.wrote (.msg m), .sendResult none] else [.sendResult (some .io)]) ∧
    expected f [.localDisconnect, .remoteFrame vm, .remoteFrame am, .remoteFrame m, .localSend m] = none := by
  obtain ⟨k, t, w⟩ := vm
  obtain ⟨k2, t2, w2⟩ := am
  obtain ⟨k3, t3, w3⟩ := m
  simp only at hv ha hm
  subst hv ha hm
  cases w3 <;>
  simp [run, runFrom, step, init, disconnect, hf, completeHandshake, onFrameConnected, handleMessage, send,
    expected, afterHandshake, versionAccepted, nextRemote, Event.isLocal, acceptable, isVerack,
    hasLocalDisconnect, handshakePart]

/-! ## The constants regenerated from the tree on every run -/

/-- the handshake has a read timeout (the event `remoteSilence`; the correspondence paces its
    sessions far below it), the magic is four bytes, and the filter's service mask is not empty -/
theorem C12_tables_wf :
    0 < CG.Generated.C12_HANDSHAKE_TIMEOUT_S ∧ CG.Generated.C12_MAGIC.length = 4 ∧
    0 < CG.Generated.C12_SERVICE_MASK ∧ 0 < CG.Generated.C12_MIN_PROTO := by
  decide

/-! ## Non-vacuity: the hypotheses are satisfiable, and the model computes -/

def okFilter : VersionInfo → Bool := fun v => decide (v.proto ≥ 70001)
def ver : Msg := ⟨.version ⟨70015, 37, 100, []⟩, "version", true⟩
def ack : Msg := ⟨.verack, "verack", true⟩
def ping7 : Msg := ⟨.ping 7, "ping7", true⟩
def fee : Msg := ⟨.feefilter 1000, "fee", true⟩
def inv1 : Msg := ⟨.plain, "inv", true⟩
def sh : Msg := ⟨.sendheaders, "sendheaders", true⟩

/-- a clean session with a local send in the middle, ended by the remote closing, then a send -/
example :
    (run okFilter [.remoteFrame ver, .localSend inv1, .remoteFrame ack, .remoteFrame ping7, .localSend inv1,
        .remoteFrame fee, .remoteFrame sh, .remoteClose, .remoteFrame inv1, .localSend inv1]).2 =
      [.wrote .version, .sendResult (some .illegalState), .wrote .verack, .wrote .hsPing, .emitConnected,
       .wrote (.pong 7), .deliver ping7, .wrote (.msg inv1), .sendResult none, .deliver fee, .deliver sh,
       .emitDisconnected, .sendResult (some .illegalState)] := by decide

example : acceptable okFilter ver = true ∧ isVerack ack = true := by decide
example : remoteOnly [.remoteFrame ver, .localSend inv1, .remoteFrame ack, .remoteFrame ping7] =
    .remoteFrame ver :: .remoteFrame ack :: [ping7].map .remoteFrame := by decide
example : ∀ e ∈ [Event.remoteFrame ver, .localSend inv1, .remoteFrame ack, .remoteFrame ping7], benign e = true := by decide
/-- verack before version is a fault in the initial state; bad magic is one anywhere -/
example : remoteFault okFilter (stateAfter okFilter []) (.remoteFrame ack) = true := by decide
example : remoteFault okFilter (stateAfter okFilter [.remoteFrame ver, .remoteFrame ack]) (.remoteGarbage .badMagic) = true := by decide
example : handshakeCompletes okFilter [.localSend inv1, .remoteFrame ver, .localDisconnect, .remoteFrame ack] = true := by decide
example : inHandshake (stateAfter okFilter [.remoteFrame ver, .remoteFrame ack]) = false := by decide

end CG.Props.C12

import CG.Proofs.ScriptNum
import CG.Model.Interp
import CG.Spec.ScriptSem
import CG.Generated.Tables
/-!
# C01 — Script evaluation agrees with reference stack-machine semantics

Property theorems only.  Model: `CG.Model.Interp` / `ScriptNum` / `Shift`; reference semantics:
`CG.Spec.ScriptSem`.  Hash functions and the checker are parameters.
-/
namespace CG.Props.C01
open CG CG.Model.ScriptNum CG.Model.Interp

/-- the opcode constants of the current tree (regenerated from `src/script/op_codes.rs` on every
    run, in the fixed name order of `harness/src/c01.rs::OP_NAMES`) are the BSV byte assignments
    the model's dispatch (`decodeOp`) and the reference semantics are keyed on.  `999` = the name is
    not defined in the source (`OP_NOP2`/`OP_NOP3` are the CLTV/CSV bytes 177/178). -/
def expectedOpcodes : List Nat :=
  [0, 0, 0, 76, 77, 78, 79, 81, 81, 82, 83, 84, 85, 86, 87, 88, 89, 90, 91, 92, 93, 94, 95, 96,
   97, 99, 100, 103, 104, 105, 106, 107, 108, 115, 116, 117, 118, 119, 120, 121, 122, 123, 124, 125,
   109, 110, 111, 112, 113, 114, 126, 127, 130, 132, 133, 134, 131, 152, 153, 135, 136,
   139, 140, 143, 144, 145, 146, 147, 148, 149, 141, 150, 142, 151, 154, 155, 156, 157, 158,
   159, 160, 161, 162, 163, 164, 165, 128, 129, 166, 167, 168, 169, 170,
   171, 172, 173, 174, 175, 177, 178,
   176, 179, 180, 181, 182, 183, 184, 185,
   80, 98, 101, 102, 137, 138, 999, 999, 255, 253]

theorem C01_opcode_table : CG.Generated.OPCODE_VALUES = expectedOpcodes := by decide

theorem C01_opcode_public_sample :
    CG.Generated.OPCODE_PUBLIC_SAMPLE = [147, 172, 99, 104, 128, 78, 106, 178] := by decide

/-- the dispatch maps each BSV opcode byte to its operation (spot obligations on every class) -/
theorem C01_dispatch :
    decodeOp 147 = .add ∧ decodeOp 148 = .sub ∧ decodeOp 149 = .mul ∧ decodeOp 150 = .div ∧
    decodeOp 151 = .mod_ ∧ decodeOp 152 = .lshift ∧ decodeOp 153 = .rshift ∧ decodeOp 128 = .num2bin ∧
    decodeOp 129 = .bin2num ∧ decodeOp 99 = .if_ ∧ decodeOp 100 = .notif ∧ decodeOp 103 = .else_ ∧
    decodeOp 104 = .endif ∧ decodeOp 106 = .return_ ∧ decodeOp 172 = .checksig ∧
    decodeOp 174 = .checkmultisig ∧ decodeOp 177 = .cltv ∧ decodeOp 178 = .csv ∧
    decodeOp 0 = .pushNum 0 ∧ decodeOp 79 = .pushNum (-1) ∧ decodeOp 96 = .pushNum 16 ∧
    decodeOp 75 = .push 75 ∧ decodeOp 76 = .pushdata1 ∧ decodeOp 80 = .bad ∧ decodeOp 186 = .bad := by
  decide

/-- `decode (encode z) = z` for every integer: arithmetic results carry their value exactly -/
theorem C01_num_roundtrip (z : Int) : decodeBig (encodeBig z) = z :=
  CG.Proofs.ScriptNum.decode_encode z

/-- a script is accepted exactly when it runs to completion and leaves a true value on top -/
theorem C01_verdict {σ : Type} (H : Hashes) (C : Checker σ) (c0 : σ) (script : Bytes) (flags : Nat) :
    Model.Interp.eval H C c0 script flags = .ok () ↔
      ∃ r, coreEval H C c0 script flags none none none none = .ok r ∧
        ∃ t rest, r.stack = t :: rest ∧ decodeBool t = true := by
  unfold Model.Interp.eval
  cases h : coreEval H C c0 script flags none none none none with
  | ok r =>
    obtain ⟨stack, alt, pos, chk⟩ := r
    cases stack with
    | nil => simp [scriptErr]
    | cons t rest =>
      by_cases hb : decodeBool t = true
      · simp [hb]
      · simp [hb, scriptErr]
  | err e => simp
  | panic p => simp

/-- OP_NUM2BIN as coded puts the sign bit into byte 0 instead of the last byte: for
    `OP_1NEGATE OP_2 OP_NUM2BIN` the library yields `81 00` (= +129) where the value-preserving
    result is `01 80`.  Recorded as known finding `num2bin-sign`. -/
theorem C01_num2bin_defect :
    Model.Interp.num2bin 2 [0x81] = .ok [0x81, 0x00] ∧
    Spec.ScriptSem.num2bin 2 [0x81] = .ok [0x01, 0x80] := by
  constructor <;> decide

example : decodeBig (encodeBig (-129)) = -129 := C01_num_roundtrip _
example : encodeBig 128 = [0x80, 0x00] := by
  simp [encodeBig, magBytes, natToLE]
example : encodeBig (-255) = [0xff, 0x80] := by
  simp [encodeBig, magBytes, natToLE]

end CG.Props.C01

import CG.Proofs.ScriptNum
import CG.Proofs.Shift
import CG.Proofs.InterpSpec
import CG.Proofs.InterpFlow
import CG.Model.Interp
import CG.Spec.ScriptSem
import CG.Generated.Tables
/-!
# C01 — Script evaluation agrees with reference stack-machine semantics

Property theorems only.  Model: `CG.Model.Interp` / `ScriptNum` / `Shift`; reference semantics:
`CG.Spec.ScriptSem`.  Hash functions and the checker are parameters.
-/
namespace CG.Props.C01
open CG CG.Model.ScriptNum CG.Model.Interp
open CG.Proofs.InterpSpec (specLib)
open CG.Proofs.InterpFlow (Prog Parses big FlowSem runFrom cont andThen endPos)

/-- the opcode constants of the current tree (regenerated from `src/script/op_codes.rs` on every
    run, in the fixed name order of `harness/src/c01.rs::OP_NAMES`) are the BSV byte assignments
    the model's dispatch (`decodeOp`) and the reference semantics are keyed on.  `999` = the name is
    not defined in the source (`OP_NOP2`/`OP_NOP3` are the CLTV/CSV bytes 177/178). -/
def expectedOpcodes : List Nat :=
  [0, 0, 0, 76, 77, 78, 79, 81, 81, 82, 83, 84, 85, 86, 87, 88, 89, 90, 91, 92, 93, 94, 95, 96,
   97, 99, 100, 103, 104, 105, 106, 107, 108, 115, 116, 117, 118, 119, 120, 121, 122, 123, 124, 125,
   109, 110, 111, 112, 113, 114, 126, 127, 130, 132, 133, 134, 131, 152, 153, 135, 136,
   139, 140, 143, 144, 145, 146, 147, 148, 149, 141, 150, 142, 151, 154, 155, 156, 157, 158,
   159, 160, 161, 162, 163, 164, 165, 128, 129, 166, 167, 168, 169, 170,
   171, 172, 173, 174, 175, 177, 178,
   176, 179, 180, 181, 182, 183, 184, 185,
   80, 98, 101, 102, 137, 138, 999, 999, 255, 253]

theorem C01_opcode_table : CG.Generated.OPCODE_VALUES = expectedOpcodes := by decide

theorem C01_opcode_public_sample :
    CG.Generated.OPCODE_PUBLIC_SAMPLE = [147, 172, 99, 104, 128, 78, 106, 178] := by decide

/-- the dispatch maps each BSV opcode byte to its operation (spot obligations on every class) -/
theorem C01_dispatch :
    decodeOp 147 = .add ∧ decodeOp 148 = .sub ∧ decodeOp 149 = .mul ∧ decodeOp 150 = .div ∧
    decodeOp 151 = .mod_ ∧ decodeOp 152 = .lshift ∧ decodeOp 153 = .rshift ∧ decodeOp 128 = .num2bin ∧
    decodeOp 129 = .bin2num ∧ decodeOp 99 = .if_ ∧ decodeOp 100 = .notif ∧ decodeOp 103 = .else_ ∧
    decodeOp 104 = .endif ∧ decodeOp 106 = .return_ ∧ decodeOp 172 = .checksig ∧
    decodeOp 174 = .checkmultisig ∧ decodeOp 177 = .cltv ∧ decodeOp 178 = .csv ∧
    decodeOp 0 = .pushNum 0 ∧ decodeOp 79 = .pushNum (-1) ∧ decodeOp 96 = .pushNum 16 ∧
    decodeOp 75 = .push 75 ∧ decodeOp 76 = .pushdata1 ∧ decodeOp 80 = .bad ∧ decodeOp 186 = .bad := by
  decide

/-- `decode (encode z) = z` for every integer: arithmetic results carry their value exactly -/
theorem C01_num_roundtrip (z : Int) : decodeBig (encodeBig z) = z :=
  CG.Proofs.ScriptNum.decode_encode z

/-- a script is accepted exactly when it runs to completion and leaves a true value on top -/
theorem C01_verdict {σ : Type} (H : Hashes) (C : Checker σ) (c0 : σ) (script : Bytes) (flags : Nat) :
    Model.Interp.eval H C c0 script flags = .ok () ↔
      ∃ r, coreEval H C c0 script flags none none none none = .ok r ∧
        ∃ t rest, r.stack = t :: rest ∧ decodeBool t = true := by
  unfold Model.Interp.eval
  cases h : coreEval H C c0 script flags none none none none with
  | ok r =>
    obtain ⟨stack, alt, pos, chk⟩ := r
    cases stack with
    | nil => simp [scriptErr]
    | cons t rest =>
      by_cases hb : decodeBool t = true
      · simp [hb]
      · simp [hb, scriptErr]
  | err e => simp
  | panic p => simp

/-- OP_NUM2BIN as coded puts the sign bit into byte 0 instead of the last byte: for
    `OP_1NEGATE OP_2 OP_NUM2BIN` the library yields `81 00` (= +129) where the value-preserving
    result is `01 80`.  Recorded as known finding `num2bin-sign`. -/
theorem C01_num2bin_defect :
    Model.Interp.num2bin 2 [0x81] = .ok [0x81, 0x00] ∧
    Spec.ScriptSem.num2bin 2 [0x81] = .ok [0x01, 0x80] := by
  constructor <;> decide

example : decodeBig (encodeBig (-129)) = -129 := C01_num_roundtrip _
example : encodeBig 128 = [0x80, 0x00] := by
  simp [encodeBig, magBytes, natToLE]
example : encodeBig (-255) = [0xff, 0x80] := by
  simp [encodeBig, magBytes, natToLE]

/-! ## 1. The byte-level number codec is the closed-form codec -/

/-- `decode_bigint` reads the numeric value: little-endian magnitude, sign in the top bit of the
    last byte (all lengths) -/
theorem C01_value_eq_spec (s : Bytes) : decodeBig s = Spec.ScriptSem.value s :=
  CG.Proofs.ScriptNum.decodeBig_eq_value s

/-- `encode_bigint` is the closed-form minimal encoding (all integers) -/
theorem C01_encode_eq_spec (z : Int) : encodeBig z = Spec.ScriptSem.encodeMin z :=
  CG.Proofs.ScriptNum.encodeBig_eq_encodeMin z

/-- every value pushed through `encode_bigint` (arithmetic, comparison, boolean, BIN2NUM results)
    is minimally encoded -/
theorem C01_results_minimal (z : Int) : Minimal (encodeBig z) :=
  CG.Proofs.ScriptNum.encodeBig_minimal z

/-- two minimal encodings of the same value are the same byte string -/
theorem C01_minimal_unique (s t : Bytes) (hs : Minimal s) (ht : Minimal t)
    (h : decodeBig s = decodeBig t) : s = t :=
  CG.Proofs.ScriptNum.minimal_unique s t hs ht h

/-- re-encoding the value of a minimal string gives it back -/
theorem C01_encode_decode_minimal (s : Bytes) (h : Minimal s) : encodeBig (decodeBig s) = s :=
  CG.Proofs.ScriptNum.encode_decode_of_minimal s h

/-- BIN2NUM (`encode_bigint ∘ decode_bigint`) yields THE minimal encoding of the operand's value:
    it is minimal, has the same value, and equals any other minimal string of that value -/
theorem C01_bin2num_canonical (s : Bytes) :
    Minimal (encodeBig (decodeBig s)) ∧ decodeBig (encodeBig (decodeBig s)) = decodeBig s ∧
      ∀ t, Minimal t → decodeBig t = decodeBig s → t = encodeBig (decodeBig s) :=
  ⟨C01_results_minimal _, C01_num_roundtrip _, fun t ht h =>
    C01_minimal_unique t _ ht (C01_results_minimal _) (h.trans (C01_num_roundtrip _).symm)⟩

/-- on operands of at most 4 bytes the `i32` decoder `decode_num` agrees with `decode_bigint` -/
theorem C01_small_num_agree (s : Bytes) (h : s.length ≤ 4) : decodeNum s = .ok (decodeBig s) :=
  CG.Proofs.ScriptNum.decodeNum_small s h

/-- on its whole domain the `i32` encoder `encode_num` agrees with `encode_bigint` -/
theorem C01_encodeNum_eq (v : Int) (h : v.natAbs ≤ 2 ^ 31 - 1) : encodeNum v = .ok (encodeBig v) :=
  CG.Proofs.ScriptNum.encodeNum_eq v (by simpa using h)

/-- `decode_bool` is "the numeric value is non-zero" (negative zero is false) -/
theorem C01_decodeBool_iff (s : Bytes) : decodeBool s = true ↔ decodeBig s ≠ 0 :=
  CG.Proofs.ScriptNum.decodeBool_iff s

theorem C01_decodeBool_eq_truthy (s : Bytes) : decodeBool s = Spec.ScriptSem.truthy s := by
  have h := C01_decodeBool_iff s
  rw [C01_value_eq_spec] at h
  unfold Spec.ScriptSem.truthy
  cases hb : decodeBool s
  · have : ¬ Spec.ScriptSem.value s ≠ 0 := fun hc => by rw [h.mpr hc] at hb; cases hb
    simp at this; simp [this]
  · have := h.mp hb; simp [this]

/-! ## 2. Shifts -/

/-- `lshift v n` (mask tables, carry into the previous byte) is the left shift of the big-endian
    number denoted by `v`, length preserved — every `v`, every `n` -/
theorem C01_lshift_spec (v : Bytes) (n : Nat) : Model.Shift.lshift v n = Spec.ScriptSem.shl v n :=
  CG.Proofs.Shift.lshift_eq_shl v n

theorem C01_rshift_spec (v : Bytes) (n : Nat) : Model.Shift.rshift v n = Spec.ScriptSem.shr v n :=
  CG.Proofs.Shift.rshift_eq_shr v n

/-- uniform numeric reading (no case split at the width) -/
theorem C01_lshift_value (v : Bytes) (n : Nat) :
    Spec.ScriptSem.beToNat (Model.Shift.lshift v n)
      = (Spec.ScriptSem.beToNat v * 2 ^ n) % 2 ^ (8 * v.length) ∧
    (Model.Shift.lshift v n).length = v.length :=
  ⟨CG.Proofs.Shift.beToNat_lshift v n, Model.Shift.lshift_length v n⟩

theorem C01_rshift_value (v : Bytes) (n : Nat) :
    Spec.ScriptSem.beToNat (Model.Shift.rshift v n) = Spec.ScriptSem.beToNat v / 2 ^ n ∧
    (Model.Shift.rshift v n).length = v.length :=
  ⟨CG.Proofs.Shift.beToNat_rshift v n, Model.Shift.rshift_length v n⟩

/-! ## 3. One step of the model = one step of the reference semantics -/

/-- every operation except NUM2BIN, every state, checker, hash functions, rule set.  (`pushNum n`
    is an operation only for the constants `-1 … 16`; `encode_num` rejects `|n| ≥ 2^31`, which the
    reference does not model, hence the range side condition.) -/
theorem C01_exec_eq_spec {σ : Type} (H : Hashes) (C : Checker σ) (pre : Bool) (script : Bytes)
    (i : Nat) (op : Op) (st : St σ) (hop : op ≠ .num2bin)
    (hpn : ∀ n, op = .pushNum n → n.natAbs ≤ 2 ^ 31 - 1) :
    Model.Interp.exec H C pre script i op st = Spec.ScriptSem.exec H C pre script i op st :=
  CG.Proofs.InterpSpec.exec_eq_spec H C pre script i op st hop
    (fun n h => by simpa using hpn n h)

/-- NUM2BIN as coded equals the reference for every requested size `m` when the operand is
    minimally encoded and non-negative (this includes the empty operand) -/
theorem C01_num2bin_eq_spec_partial (m : Int) (n : Bytes) (hmin : Minimal n) (hnn : 0 ≤ decodeBig n) :
    Model.Interp.num2bin m n = Spec.ScriptSem.num2bin m n := by
  apply CG.Proofs.InterpSpec.num2bin_eq_of_sign_clear m n _ (Or.inl hmin)
  intro l hl
  have hne : n ≠ [] := by intro hc; subst hc; simp at hl
  obtain ⟨init, d, rfl⟩ := CG.Proofs.ScriptNum.list_snoc_of_ne_nil n hne
  simp only [List.getLast?_append, List.getLast?_singleton, Option.some_or, Option.some.injEq] at hl
  subst hl
  have hv := CG.Proofs.InterpSpec.value_ne_zero_of_minimal _ hne hmin
  rw [← C01_value_eq_spec] at hv
  rw [CG.Proofs.ScriptNum.decodeBig_snoc] at hv hnn
  by_cases h : d.toNat ≥ 128
  · rw [if_pos h] at hv hnn; omega
  · omega

/-- also for non-minimal operands with a clear sign bit, as long as they fit the requested size -/
theorem C01_num2bin_eq_spec_partial' (m : Int) (n : Bytes)
    (hsign : ∀ l, n.getLast? = some l → l.toNat < 128) (hfit : (n.length : Int) ≤ m) :
    Model.Interp.num2bin m n = Spec.ScriptSem.num2bin m n :=
  CG.Proofs.InterpSpec.num2bin_eq_of_sign_clear m n hsign (Or.inr hfit)

/-- the full statement — false of the current code (known finding `num2bin-sign`) -/
def C01_num2bin_eq_spec_full : Prop :=
  ∀ (m : Int) (n : Bytes), Model.Interp.num2bin m n = Spec.ScriptSem.num2bin m n

theorem C01_num2bin_eq_spec_full_false : ¬ C01_num2bin_eq_spec_full := by
  intro h
  have h1 := h 2 [0x81]
  rw [C01_num2bin_defect.1, C01_num2bin_defect.2] at h1
  exact absurd h1 (by decide)

/-- per opcode BYTE: one model step equals one reference step, provided that — if the byte is
    OP_NUM2BIN — the operand under the size is minimally encoded and non-negative -/
theorem C01_step_eq_spec_partial {σ : Type} (H : Hashes) (C : Checker σ) (pre : Bool)
    (script : Bytes) (i : Nat) (b : UInt8) (st : St σ)
    (h : b = 128 → ∀ mb n r, st.stack = mb :: n :: r → Minimal n ∧ 0 ≤ decodeBig n) :
    Model.Interp.exec H C pre script i (decodeOp b) st
      = Spec.ScriptSem.exec H C pre script i (decodeOp b) st := by
  by_cases hb : decodeOp b = .num2bin
  · rw [hb]
    apply CG.Proofs.InterpSpec.exec_num2bin_eq
    intro mb n r hs
    obtain ⟨h1, h2⟩ := h (CG.Proofs.InterpSpec.decodeOp_num2bin b hb) mb n r hs
    exact C01_num2bin_eq_spec_partial _ n h1 h2
  · exact CG.Proofs.InterpSpec.exec_eq_spec H C pre script i _ st hb
      (fun n hn => Nat.le_trans (CG.Proofs.InterpSpec.decodeOp_pushNum b n hn) (by decide))

/-! ## 4. Whole runs -/

/-- the interpreter loop over the model's opcode semantics equals the loop over the reference
    semantics with the NUM2BIN arm taken from the library (`Proofs.InterpSpec.specLib`): every script,
    fuel, position, state, break offset -/
theorem C01_run_eq_spec_modulo_num2bin {σ : Type} (H : Hashes) (C : Checker σ) (pre : Bool)
    (script : Bytes) (breakAt : Option Nat) (fuel i : Nat) (st : St σ) :
    Model.Interp.run H C pre script breakAt fuel i st
      = runWith (specLib H C pre script) script breakAt fuel i st :=
  CG.Proofs.InterpSpec.runWith_congr _ _ script breakAt
    (fun i st => CG.Proofs.InterpSpec.exec_eq_specLib H C pre script i _ st) fuel i st

/-- hence `core_eval` is the reference evaluation with the library's NUM2BIN -/
theorem C01_coreEval_eq_spec_modulo_num2bin {σ : Type} (H : Hashes) (C : Checker σ) (c0 : σ)
    (script : Bytes) (flags : Nat) (startAt breakAt : Option Nat) (stack alt : Option Stack) :
    coreEval H C c0 script flags startAt breakAt stack alt =
      (let st0 : St σ := { stack := stack.getD [], alt := alt.getD [], branch := [], checkIndex := 0, chk := c0 }
       match runWith (specLib H C (flags % 2 = 1) script) script breakAt (script.length + 1)
          (startAt.getD 0) st0 with
       | .ok (st, i) => .ok { stack := st.stack, alt := st.alt, pos := breakAt.map (fun _ => i), chk := st.chk }
       | .err e => .err e
       | .panic p => .panic p) := by
  unfold coreEval
  simp only [C01_run_eq_spec_modulo_num2bin]
  rfl

/-- scripts that contain no byte `0x80` anywhere (so certainly never execute OP_NUM2BIN):
    the model's run IS the reference run -/
theorem C01_run_eq_spec_no_num2bin {σ : Type} (H : Hashes) (C : Checker σ) (pre : Bool)
    (script : Bytes) (hno : ∀ b ∈ script, b ≠ 128) (breakAt : Option Nat) (fuel i : Nat) (st : St σ) :
    Model.Interp.run H C pre script breakAt fuel i st
      = Spec.ScriptSem.run H C pre script breakAt fuel i st := by
  apply CG.Proofs.InterpSpec.runWith_congr
  intro i st
  apply C01_step_eq_spec_partial
  intro hb
  rcases CG.Proofs.InterpSpec.getD_mem_or_zero script i with hm | h0
  · exact absurd hb (hno _ hm)
  · rw [h0] at hb; exact absurd hb (by decide)

theorem C01_coreEval_eq_spec_no_num2bin {σ : Type} (H : Hashes) (C : Checker σ) (c0 : σ)
    (script : Bytes) (hno : ∀ b ∈ script, b ≠ 128) (flags : Nat) (startAt breakAt : Option Nat)
    (stack alt : Option Stack) :
    coreEval H C c0 script flags startAt breakAt stack alt
      = Spec.ScriptSem.coreEval H C c0 script flags startAt breakAt stack alt := by
  unfold coreEval Spec.ScriptSem.coreEval
  simp only [C01_run_eq_spec_no_num2bin H C _ script hno]
  rfl

/-- and the verdicts agree -/
theorem C01_eval_eq_spec_no_num2bin {σ : Type} (H : Hashes) (C : Checker σ) (c0 : σ)
    (script : Bytes) (hno : ∀ b ∈ script, b ≠ 128) (flags : Nat) :
    Model.Interp.eval H C c0 script flags = Spec.ScriptSem.eval H C c0 script flags := by
  unfold Model.Interp.eval Spec.ScriptSem.eval
  simp only [C01_coreEval_eq_spec_no_num2bin H C c0 script hno, C01_decodeBool_eq_truthy, scriptErr]
  rfl

/-- the full statement `C01_eval_eq_spec` of DESIGN.md — false of the current code, because of
    NUM2BIN only (see `C01_coreEval_eq_spec_modulo_num2bin`) -/
def C01_eval_eq_spec_full : Prop :=
  ∀ (σ : Type) (H : Hashes) (C : Checker σ) (c0 : σ) (script : Bytes) (flags : Nat),
    coreEval H C c0 script flags none none none none
      = Spec.ScriptSem.coreEval H C c0 script flags none none none none

/-- witness: `OP_1NEGATE OP_2 OP_NUM2BIN` leaves `81 00` where the reference leaves `01 80` -/
theorem C01_eval_eq_spec_full_false : ¬ C01_eval_eq_spec_full := by
  intro h
  have h0 := congrArg (Outcome.map (·.stack))
    (h Unit ⟨id, id, id, id, id⟩ ⟨fun c _ _ _ => (.ok true, c), fun _ _ => .ok true, fun _ _ => .ok true⟩ ()
      [0x4f, 0x52, 0x80] 0)
  have h1 : (coreEval ⟨id, id, id, id, id⟩
      (⟨fun c _ _ _ => (.ok true, c), fun _ _ => .ok true, fun _ _ => .ok true⟩ : Checker Unit) ()
      [0x4f, 0x52, 0x80] 0 none none none none).map (·.stack) = .ok [[0x81, 0x00]] := by decide +kernel
  have h2 : (Spec.ScriptSem.coreEval ⟨id, id, id, id, id⟩
      (⟨fun c _ _ _ => (.ok true, c), fun _ _ => .ok true, fun _ _ => .ok true⟩ : Checker Unit) ()
      [0x4f, 0x52, 0x80] 0 none none none none).map (·.stack) = .ok [[0x01, 0x80]] := by decide +kernel
  rw [h1, h2] at h0
  exact absurd h0 (by decide)

/-! ## 5. Structured control flow (stretch)

`Prog` is the shape of a well-nested script (plain instructions, `IF|NOTIF thn [ELSE els] ENDIF`);
`Parses script a T b` says the bytes `script[a..b)` are laid out as `T`; `big` is the big-step
semantics of the tree, which at a conditional pops the condition and runs exactly one arm
(`Proofs/InterpFlow.lean`). -/

/-- for every per-opcode semantics whose four flow opcodes act on the flag stack as in `core_eval`
    and whose other opcodes leave the flag stack alone: the flag machine (flag stack +
    `skip_branch`, canonical fuel) started at a block whose innermost flag is not `false` equals the
    big-step semantics of the block followed by the machine from the end of the block; a block that
    completes restores the flag stack -/
theorem C01_structured_flow {σ : Type} (ex : Nat → Op → St σ → Outcome (Bool × St σ))
    (script : Bytes) (hs : FlowSem ex) {a b : Nat} {T : Prog} (h : Parses script a T b)
    (st : St σ) (hnf : ∀ bs, st.branch ≠ false :: bs) :
    runWith ex script none (script.length + 1) a st = cont ex script b (big ex script T a st) ∧
      ∀ st' q, big ex script T a st = .ok (false, st', q) → st'.branch = st.branch :=
  CG.Proofs.InterpFlow.flow_main ex script hs h st hnf

/-- the model's and the reference's opcode semantics satisfy the two requirements -/
theorem C01_flowSem_model {σ : Type} (H : Hashes) (C : Checker σ) (pre : Bool) (script : Bytes) :
    FlowSem (Model.Interp.exec H C pre script) := CG.Proofs.InterpFlow.model_flowSem H C pre script

theorem C01_flowSem_spec {σ : Type} (H : Hashes) (C : Checker σ) (pre : Bool) (script : Bytes) :
    FlowSem (Spec.ScriptSem.exec H C pre script) := CG.Proofs.InterpFlow.spec_flowSem H C pre script

/-- whole runs of the model: a script whose tail from `a` parses as `T`, empty flag stack, the fuel
    `core_eval` uses — the loop returns what the big-step semantics of `T` returns (an OP_RETURN
    inside a conditional is the "ENDIF missing" error of `finish`) -/
theorem C01_structured_flow_model {σ : Type} (H : Hashes) (C : Checker σ) (pre : Bool)
    (script : Bytes) {a : Nat} {T : Prog} (h : Parses script a T script.length)
    (st : St σ) (hbr : st.branch = []) :
    Model.Interp.run H C pre script none (script.length + 1) a st =
      match big (Model.Interp.exec H C pre script) script T a st with
      | .ok (false, st', _) => .ok (st', script.length)
      | .ok (true, st', p) => finish st' p
      | .err e => .err e
      | .panic p => .panic p :=
  CG.Proofs.InterpFlow.run_structured _ script (C01_flowSem_model H C pre script) h st hbr

theorem C01_structured_flow_spec {σ : Type} (H : Hashes) (C : Checker σ) (pre : Bool)
    (script : Bytes) {a : Nat} {T : Prog} (h : Parses script a T script.length)
    (st : St σ) (hbr : st.branch = []) :
    Spec.ScriptSem.run H C pre script none (script.length + 1) a st =
      match big (Spec.ScriptSem.exec H C pre script) script T a st with
      | .ok (false, st', _) => .ok (st', script.length)
      | .ok (true, st', p) => finish st' p
      | .err e => .err e
      | .panic p => .panic p :=
  CG.Proofs.InterpFlow.run_structured _ script (C01_flowSem_spec H C pre script) h st hbr

/-- exactly one arm: with the condition `c` popped, the big-step semantics of a conditional is the
    semantics of `thn` (if `c ≠ neg`) or of `els` (otherwise) followed by the rest — the other arm
    does not occur -/
theorem C01_structured_one_arm {σ : Type} (ex : Nat → Op → St σ → Outcome (Bool × St σ))
    (script : Bytes) (neg hasElse : Bool) (thn els rest : Prog) (a : Nat) (st : St σ) (c : Bool)
    (r : Stack) (hp : popBool st.stack = .ok (c, r)) :
    big ex script (.cond neg hasElse thn els rest) a st =
      (let m := endPos script thn (a + 1)
       let e := if hasElse then endPos script els (m + 1) else m
       let st1 : St σ := { st with stack := r, branch := true :: st.branch }
       let k := fun st2 : St σ => big ex script rest (e + 1) { st2 with branch := st.branch }
       if c != neg then andThen (big ex script thn (a + 1) st1) k
       else andThen (big ex script els (m + 1) st1) k) := by
  simp only [big, hp]

/-! ## hypotheses are satisfiable -/

/-- `OP_1 OP_IF OP_2 OP_ELSE OP_3 OP_ENDIF OP_NOTIF 01 63 OP_ENDIF` parses (the pushed byte `63` is
    data, not an IF) -/
example : Parses [0x51, 0x63, 0x52, 0x67, 0x53, 0x68, 0x64, 0x01, 0x63, 0x68] 0
    (.op (.cond false true (.op .done) (.op .done) (.cond true false (.op .done) .done .done))) 10 := by
  refine .op 0 10 _ (by decide) (by decide) ?_
  refine .condElse 1 3 5 10 false _ _ _ (by decide) (by decide) ?_ (by decide) (by decide) ?_
    (by decide) (by decide) ?_
  · exact .op 2 3 _ (by decide) (by decide) (.done 3 (by decide))
  · exact .op 4 5 _ (by decide) (by decide) (.done 5 (by decide))
  · refine .condNoElse 6 9 10 true _ _ (by decide) (by decide) ?_ (by decide) (by decide)
      (.done 10 (by decide))
    exact .op 7 9 _ (by decide) (by decide) (.done 9 (by decide))

/-- … and its big-step evaluation takes the THEN arm of the first conditional (pushing 2) and
    neither arm of the second (NOTIF on a true value, no ELSE): empty stack at position 10 -/
example :
    (big (Model.Interp.exec ⟨id, id, id, id, id⟩
        (⟨fun c _ _ _ => (.ok true, c), fun _ _ => .ok true, fun _ _ => .ok true⟩ : Checker Unit) false
        [0x51, 0x63, 0x52, 0x67, 0x53, 0x68, 0x64, 0x01, 0x63, 0x68])
      [0x51, 0x63, 0x52, 0x67, 0x53, 0x68, 0x64, 0x01, 0x63, 0x68]
      (.op (.cond false true (.op .done) (.op .done) (.cond true false (.op .done) .done .done))) 0
      { stack := [], alt := [], branch := [], checkIndex := 0, chk := () }).map
        (fun r => (r.1, r.2.1.stack, r.2.1.branch, r.2.2))
      = .ok (false, [], [], 10) := by decide +kernel


example : Minimal [0xff, 0x80] ∧ ¬ Minimal [0x01, 0x00] ∧ ¬ Minimal [0x80] := by
  refine ⟨?_, ?_, ?_⟩ <;> simp [Minimal, clearSign] <;> decide
example : ([0x01, 0x02, 0x03] : Bytes).length ≤ 4 := by decide
example : (2147483647 : Int).natAbs ≤ 2 ^ 31 - 1 := by decide
example : Minimal [0x05] ∧ 0 ≤ decodeBig [0x05] := by
  constructor
  · simp [Minimal, clearSign]
  · decide
example : Model.Interp.num2bin 4 [0x05] = .ok [0x05, 0, 0, 0] := by decide
example : ∀ b ∈ ([0x51, 0x52, 0x93, 0x53, 0x87] : Bytes), b ≠ 128 := by decide
example : Model.Shift.lshift [0x01, 0x80] 1 = [0x03, 0x00] := by decide
example : Model.Shift.rshift [0x01, 0x80] 9 = [0x00, 0x00] := by decide

end CG.Props.C01

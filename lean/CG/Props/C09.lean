import CG.Proofs.Base58
/-!
# C09 — Base58Check text codecs round-trip, detect corruption, never panic

Property theorems only.  Model: `CG.Model.Base58` (the `base58` crate as big-endian base conversion
with a 132-byte buffer; `base58_checksum.rs`, `address/mod.rs`, the WIF functions, `ExtendedKey`).
The checksum hash `H` (`sha256d`), `hash160` and `SigningKey::from_slice` (`keyOf`) are parameters;
the only fact used about `H` is that it returns at least four bytes (it returns a `[u8; 32]`).
`decodeChk true …`, `xkeyDecode true …`, `addressToPublicKeyHash true …` are the repaired functions
(`proposed_fixes/C09-short-input-length-checks.patch`), `false` the pinned tree.

What is NOT proved: that a corrupted string fails the checksum.  `C09_accept_needs_checksum` and
`C09_corruption_changes_payload` reduce acceptance of a corrupted string to a coincidence of the
32-bit checksum on *different* bytes; the absence of such coincidences is a property of double
SHA-256 (and false of any 32-bit checksum for counting reasons), see
`C09_single_edit_rejected_full` / `C09_single_edit_rejected_partial`.
-/
namespace CG.Props.C09
open CG CG.Model.Base58 CG.Proofs.Base58

/-! ## Base58 itself -/

/-- decoding an encoding gives the bytes back — every byte string, leading zeros included -/
theorem C09_b58_roundtrip (b : Bytes) : decode58 (encode58 b) = some b := decode58_encode58 b

/-- distinct digit strings decode to distinct byte strings (`encode58` is a left inverse) -/
theorem C09_b58_injective (d1 d2 : List Nat) (b : Bytes) (h1 : decode58 d1 = some b)
    (h2 : decode58 d2 = some b) : d1 = d2 := by
  rw [← encode58_decode58 d1 b h1, ← encode58_decode58 d2 b h2]

/-- the same on strings, through the crate model: two strings that `from_base58` maps to the same
    bytes are equal — so a substitution, insertion, deletion or transposition that yields a
    different string changes the decoded bytes (or makes decoding fail). -/
theorem C09_b58_string_injective (s1 s2 : List Char) (b : Bytes) (h1 : fromBase58 s1 = .ok b)
    (h2 : fromBase58 s2 = .ok b) : s1 = s2 := fromBase58_inj s1 s2 b h1 h2

/-- `from_base58 (to_base58 b) = Ok(b)` for every byte string the crate's buffer holds -/
theorem C09_crate_roundtrip (b : Bytes) (h : b.length ≤ 132) : fromBase58 (toBase58 b) = .ok b :=
  fromBase58_toBase58 b h

/-! ## round trips -/

theorem C09_roundtrip_chk (r : Bool) (H : Bytes → Bytes) (hH : ∀ x, 4 ≤ (H x).length) (b : Bytes)
    (hb : b.length ≤ 128) : decodeChk r H (encodeChk H b) = .ok b :=
  decodeChk_encodeChk r H hH b (by simp [CAP]; omega)

theorem flags_differ (n : Net) : p2pkhFlag n ≠ p2shFlag n := by cases n <;> decide

/-- addresses: hash, type come back under the network used to encode (all 7 networks, both types) -/
theorem C09_roundtrip_addr (H : Bytes → Bytes) (hH : ∀ x, 4 ≤ (H x).length) (hash : Bytes)
    (hl : hash.length = 20) (t : AddrType) (n : Net) :
    addrDecode H (addrEncode H hash t n) n = .ok (hash, t) := by
  unfold addrDecode addrEncode
  have hc : ((H (addrFlag n t :: hash)).take 4).length = 4 := by
    have := hH (addrFlag n t :: hash); simp [List.length_take]; omega
  rw [fromBase58_toBase58 _ (by simp [hc, hl, CAP])]
  simp only [List.length_append, List.length_cons, hc, hl]
  rw [if_neg (by omega)]
  have e : 20 + 1 + 4 - 4 = (addrFlag n t :: hash).length := by simp [hl]
  rw [e, List.take_left', List.drop_left' rfl]
  · simp only [bne_self_eq_false, Bool.false_eq_true, if_false, List.length_cons, hl]
    cases t with
    | p2pkh => simp [addrFlag]
    | p2sh =>
      have hb : (p2shFlag n == p2pkhFlag n) = false := by
        rw [beq_eq_false_iff_ne]; exact fun h => flags_differ n h.symm
      simp [addrFlag, hb]
  · rfl

/-- address text is injective per network: two (hash, type) pairs with the same address string under
    one network are the same pair — no two payment destinations share an address -/
theorem C09_addr_encode_injective (H : Bytes → Bytes) (hH : ∀ x, 4 ≤ (H x).length) (h1 h2 : Bytes)
    (hl1 : h1.length = 20) (hl2 : h2.length = 20) (t1 t2 : AddrType) (n : Net)
    (he : addrEncode H h1 t1 n = addrEncode H h2 t2 n) : h1 = h2 ∧ t1 = t2 := by
  have a := C09_roundtrip_addr H hH h1 hl1 t1 n
  have b := C09_roundtrip_addr H hH h2 hl2 t2 n
  rw [he, b] at a
  injection a with a
  injection a with a1 a2
  exact ⟨a1.symm, a2.symm⟩

theorem wif_length (H : Bytes → Bytes) (hH : ∀ x, 4 ≤ (H x).length) (key : Bytes)
    (hk : key.length = 32) (pfx : UInt8) (hp : pfx = MAIN_PRIVATE_KEY ∨ pfx = TEST_PRIVATE_KEY) :
    (bytesToWif H key pfx).length = 52 := by
  unfold bytesToWif encodeChk toBase58
  rw [List.length_map]
  have hc := checksum4_length H hH (pfx :: (key ++ [1]))
  simp only [List.cons_append]
  rcases hp with rfl | rfl
  · apply encode58_length_of_head _ _ 51 (by decide)
    · simp only [List.length_append, hk, hc, List.length_cons, List.length_nil]; decide
    · simp only [List.length_append, hk, hc, List.length_cons, List.length_nil]; decide
  · apply encode58_length_of_head _ _ 51 (by decide)
    · simp only [List.length_append, hk, hc, List.length_cons, List.length_nil]; decide
    · simp only [List.length_append, hk, hc, List.length_cons, List.length_nil]; decide

/-- WIF: network and key come back (both key networks, every 32-byte key `from_slice` accepts) -/
theorem C09_roundtrip_wif (r : Bool) (H : Bytes → Bytes) (hH : ∀ x, 4 ≤ (H x).length)
    (keyOf : Bytes → Option Bytes) (key : Bytes) (hk : key.length = 32)
    (hv : keyOf key = some key) (n : Net) (pfx : UInt8) (hn : wifPrefix n = some pfx) :
    wifDecode r H keyOf (bytesToWif H key pfx) = .ok (n, key) := by
  have hp : pfx = MAIN_PRIVATE_KEY ∨ pfx = TEST_PRIVATE_KEY := by
    cases n <;> simp [wifPrefix] at hn <;> simp [hn]
  have hlen := wif_length H hH key hk pfx hp
  unfold wifDecode
  rw [hlen]
  unfold bytesToWif
  rw [decodeChk_encodeChk r H hH _ (by simp [hk, CAP])]
  have hlast : (pfx :: key ++ [1]).getLast? = some 1 := by
    exact List.getLast?_concat
  have hdl : (pfx :: key ++ [1]).length - 1 = (pfx :: key).length := by simp
  have htake : ((pfx :: key ++ [1]).take ((pfx :: key ++ [1]).length - 1)).drop 1 = key := by
    rw [hdl, List.take_left' rfl]; rfl
  simp only [hlast, htake]
  have h1 : (1 : Nat) ≤ (pfx :: key ++ [1]).length - 1 := by simp [hk]
  cases n <;> simp [wifPrefix] at hn
  · subst hn
    simp [hv]
  · subst hn
    have : (TEST_PRIVATE_KEY == MAIN_PRIVATE_KEY) = false := by decide
    simp [hv, this]

/-- extended keys: all 78 bytes come back, for every 78-byte key -/
theorem C09_roundtrip_xkey (r : Bool) (H : Bytes → Bytes) (hH : ∀ x, 4 ≤ (H x).length) (k : Bytes)
    (hk : k.length = 78) : xkeyDecode r H (xkeyEncode H k) = .ok k := by
  unfold xkeyDecode xkeyEncode
  have hc : ((H k).take 4).length = 4 := by
    have := hH k; simp [List.length_take]; omega
  rw [fromBase58_toBase58 _ (by simp [hc, hk, CAP])]
  have h78 : (k ++ (H k).take 4).take 78 = k := by rw [← hk]; exact List.take_left' rfl
  have hd78 : (k ++ (H k).take 4).drop 78 = (H k).take 4 := by rw [← hk]; exact List.drop_left' rfl
  simp only [List.length_append, hc, hk, h78, hd78]
  simp

theorem be32_version (v : Nat) (hv : v < 2 ^ 32) (rest : Bytes) :
    xkeyVersion (be32 v ++ rest) = v := by
  simp only [xkeyVersion, be32, List.cons_append, List.getD_cons_zero, List.getD_cons_succ,
    UInt8.toNat_ofNat']
  omega

/-- … and the network class and key type the constructors wrote come back -/
theorem C09_roundtrip_xkey_network_type (r : Bool) (H : Bytes → Bytes)
    (hH : ∀ x, 4 ≤ (H x).length) (n : Net) (t : XType) (depth : UInt8) (fp : Bytes) (index : Nat)
    (chain key k : Bytes) (hnew : xkeyNew n t depth fp index chain key = .ok k) :
    xkeyDecode r H (xkeyEncode H k) = .ok k ∧ xkeyNetwork k = .ok n.xclass ∧ xkeyType k = .ok t := by
  have main : ∀ keydata : Bytes, keydata.length = 33 → fp.length = 4 → chain.length = 32 →
      be32 (xkeyVersionFor n t) ++ [depth] ++ fp ++ be32 index ++ chain ++ keydata = k →
      xkeyDecode r H (xkeyEncode H k) = .ok k ∧ xkeyNetwork k = .ok n.xclass ∧
        xkeyType k = .ok t := by
    intro keydata hkd h1 h2 hk
    have hver : xkeyVersion k = xkeyVersionFor n t := by
      rw [← hk]
      simp only [List.append_assoc]
      exact be32_version _ (by cases n <;> cases t <;> decide) _
    refine ⟨C09_roundtrip_xkey r H hH k ?_, ?_, ?_⟩
    · rw [← hk]; simp [be32, h1, h2, hkd]
    · unfold xkeyNetwork
      simp only [hver]
      cases n <;> cases t <;> decide
    · unfold xkeyType
      simp only [hver]
      cases n <;> cases t <;> decide
  unfold xkeyNew at hnew
  by_cases h1 : fp.length = 4
  · by_cases h2 : chain.length = 32
    · cases t with
      | pub =>
        by_cases h3 : key.length = 33
        · simp [h1, h2, h3] at hnew
          exact main key h3 h1 h2 (by simpa using hnew)
        · simp [h1, h2, h3] at hnew
      | priv =>
        by_cases h3 : key.length = 32
        · simp [h1, h2, h3] at hnew
          exact main (0 :: key) (by simp [h3]) h1 h2 (by simpa using hnew)
        · simp [h1, h2, h3] at hnew
    · simp [h1, h2] at hnew
  · simp [h1] at hnew

/-- `public_key_to_address` produces an address that decodes to `hash160(pk)`, type P2PKH -/
theorem C09_roundtrip_pubkey_address (H H160 : Bytes → Bytes) (hH : ∀ x, 4 ≤ (H x).length)
    (h160 : ∀ x, (H160 x).length = 20) (pk : Bytes) (n : Net) (s : List Char)
    (h : publicKeyToAddress H H160 pk n = .ok s) :
    addrDecode H s n = .ok (H160 pk, .p2pkh) ∧
    addressToPublicKeyHash true H s = .ok (H160 pk) := by
  unfold publicKeyToAddress at h
  have key : ∀ p : UInt8, p = p2pkhFlag n → s = encodeChk H (p :: H160 pk) →
      addrDecode H s n = .ok (H160 pk, .p2pkh) ∧ addressToPublicKeyHash true H s = .ok (H160 pk) := by
    intro p hp hs
    subst hs
    constructor
    · have := C09_roundtrip_addr H hH (H160 pk) (h160 pk) .p2pkh n
      simpa [addrEncode, addrFlag, encodeChk, checksum4, hp] using this
    · unfold addressToPublicKeyHash
      rw [decodeChk_encodeChk true H hH _ (by simp [h160, CAP])]
      simp
  cases n <;> simp only at h
  · split at h
    · simp at h
    · injection h with h; exact key _ (by decide) h.symm
  · split at h
    · simp at h
    · injection h with h; exact key _ (by decide) h.symm
  all_goals simp at h

/-! ## acceptance needs the checksum -/

/-- A string is accepted only if its last four decoded bytes are the first four bytes of `H` of the
    rest (all four decoders).  Hence accepting a corrupted string — whose decoded bytes differ by
    `C09_b58_string_injective` — requires a coincidence of the 32-bit checksum. -/
theorem C09_accept_needs_checksum (r : Bool) (H : Bytes → Bytes) (hH : ∀ x, 4 ≤ (H x).length)
    (s : List Char) :
    (∀ p, decodeChk r H s = .ok p →
      ∃ cs, fromBase58 s = .ok (p ++ cs) ∧ cs.length = 4 ∧ cs = (H p).take 4) ∧
    (∀ n h t, addrDecode H s n = .ok (h, t) →
      ∃ cs, fromBase58 s = .ok (addrFlag n t :: h ++ cs) ∧ cs.length = 4 ∧
        cs = (H (addrFlag n t :: h)).take 4 ∧ h.length = 20) ∧
    (∀ keyOf n k, wifDecode r H keyOf s = .ok (n, k) →
      ∃ p cs, fromBase58 s = .ok (p ++ cs) ∧ cs.length = 4 ∧ cs = (H p).take 4) ∧
    (∀ k, xkeyDecode r H s = .ok k →
      ∃ cs, fromBase58 s = .ok (k ++ cs) ∧ cs.length = 4 ∧ cs = (H k).take 4 ∧ k.length = 78) := by
  refine ⟨fun p h => decodeChk_ok r H s p h, ?_, ?_, ?_⟩
  · intro n h t hd
    unfold addrDecode at hd
    cases hf : fromBase58 s with
    | err e => simp [hf] at hd
    | panic q => simp [hf] at hd
    | ok v =>
      simp only [hf] at hd
      split at hd
      · simp at hd
      · rename_i hlen
        split at hd
        · simp at hd
        · rename_i hcs
          simp only [bne_iff_ne, ne_eq, Decidable.not_not] at hcs
          have hv : v = v.take (v.length - 4) ++ v.drop (v.length - 4) :=
            (List.take_append_drop _ _).symm
          have hl4 : (v.drop (v.length - 4)).length = 4 := by simp; omega
          split at hd
          · simp at hd
          · rename_i tb rest hv0
            have fin : ∀ t', tb = addrFlag n t' → (tb :: rest).length = 21 → (rest, t') = (h, t) →
                ∃ cs, Outcome.ok v = Outcome.ok (addrFlag n t :: h ++ cs) ∧ cs.length = 4 ∧
                  cs = (H (addrFlag n t :: h)).take 4 ∧ h.length = 20 := by
              intro t' htb hl21 hpair
              injection hpair with e1 e2
              subst e1 e2 htb
              refine ⟨v.drop (v.length - 4), ?_, hl4, ?_, by simpa using hl21⟩
              · rw [← hv0, List.take_append_drop]
              · rw [hcs, hv0]
            rw [hv0] at hd
            split at hd
            · rename_i hpk
              split at hd
              · simp at hd
              · rename_i hl
                injection hd with hd
                exact fin .p2pkh (by simpa [addrFlag] using hpk) (by simpa using hl) hd
            · split at hd
              · rename_i hsh
                split at hd
                · simp at hd
                · rename_i hl
                  injection hd with hd
                  exact fin .p2sh (by simpa [addrFlag] using hsh) (by simpa using hl) hd
              · simp at hd
  · intro keyOf n k hd
    unfold wifDecode at hd
    cases hc : decodeChk r H s with
    | err e => simp [hc] at hd
    | panic q => simp [hc] at hd
    | ok p =>
      obtain ⟨cs, h1, h2, h3⟩ := decodeChk_ok r H s p hc
      exact ⟨p, cs, h1, h2, h3⟩
  · intro k hd
    unfold xkeyDecode at hd
    cases hf : fromBase58 s with
    | err e => simp [hf] at hd
    | panic q => simp [hf] at hd
    | ok v =>
      simp only [hf] at hd
      split at hd
      · simp at hd
      · split at hd
        · simp at hd
        · rename_i hlen
          split at hd
          · simp at hd
          · rename_i hcs
            simp only [bne_iff_ne, ne_eq, Decidable.not_not] at hcs
            injection hd with hd
            subst hd
            have h78 : (v.take 78).length = 78 := by simp; omega
            have hl4 : (v.drop 78).length = 4 := by
              rw [← hcs]
              have := hH (v.take 78)
              simp [List.length_take]; omega
            exact ⟨v.drop 78, by rw [List.take_append_drop], hl4, hcs.symm, h78⟩

/-- A corrupted string that is still accepted never yields the original payload: it decodes to a
    *different* payload that happens to carry its own valid checksum. -/
theorem C09_corruption_changes_payload (r : Bool) (H : Bytes → Bytes) (s s' : List Char)
    (p p' : Bytes) (hne : s' ≠ s) (h : decodeChk r H s = .ok p) (h' : decodeChk r H s' = .ok p') :
    p' ≠ p := by
  intro e
  subst e
  obtain ⟨cs, h1, _, h3⟩ := decodeChk_ok r H s p' h
  obtain ⟨cs', h1', _, h3'⟩ := decodeChk_ok r H s' p' h'
  rw [h3] at h1
  rw [h3'] at h1'
  exact hne (fromBase58_inj s' s _ h1' h1)

/-- the four kinds of single-character edit -/
inductive SingleEdit : List Char → List Char → Prop
  | subst (a b : List Char) (c d : Char) : SingleEdit (a ++ c :: b) (a ++ d :: b)
  | insert (a b : List Char) (d : Char) : SingleEdit (a ++ b) (a ++ d :: b)
  | delete (a b : List Char) (c : Char) : SingleEdit (a ++ c :: b) (a ++ b)
  | transpose (a b : List Char) (c d : Char) : SingleEdit (a ++ c :: d :: b) (a ++ d :: c :: b)

/-- FULL statement of "detects corruption" (not proved, and not provable for a 32-bit checksum in
    general: it asserts that no single edit of a valid string happens to be self-consistent). -/
def C09_single_edit_rejected_full (H : Bytes → Bytes) : Prop :=
  ∀ s s' p, decodeChk true H s = .ok p → SingleEdit s s' → s' ≠ s →
    ∃ e, decodeChk true H s' = .err e

/-- PARTIAL: every string other than the original (in particular every single edit) of at most 132
    characters is rejected with an error, PROVIDED the bytes it decodes to — which differ from the
    original's — are not themselves a payload followed by its own checksum. -/
theorem C09_single_edit_rejected_partial (H : Bytes → Bytes) (s s' : List Char) (p : Bytes)
    (_h : decodeChk true H s = .ok p) (_hne : s' ≠ s) (hlen : s'.length ≤ 132)
    (hnocoincidence : ∀ d, fromBase58 s' = .ok d → 4 ≤ d.length →
      (H (d.take (d.length - 4))).take 4 ≠ d.drop (d.length - 4)) :
    ∃ e, decodeChk true H s' = .err e := by
  unfold decodeChk
  cases hf : fromBase58 s' with
  | err e => exact ⟨e, rfl⟩
  | panic q => exact absurd hf (fromBase58_no_panic s' hlen q)
  | ok d =>
    simp only
    split
    · exact ⟨_, rfl⟩
    · rename_i hl
      have := hnocoincidence d hf (by omega)
      rw [if_pos (by simpa [checksum4] using this)]
      exact ⟨_, rfl⟩

/-! ## too short, wrong prefix -/

/-- strings that decode to fewer bytes than a checksum (plus the minimal payload) are errors -/
theorem C09_short_rejected (H : Bytes → Bytes) (keyOf : Bytes → Option Bytes) (s : List Char)
    (d : Bytes) (hd : fromBase58 s = .ok d) :
    (d.length < 4 → decodeChk true H s = .err "BadData" ∧
      wifDecode true H keyOf s = .err "BadData" ∧
      addressToPublicKeyHash true H s = .err "BadData") ∧
    (d.length < 6 → ∀ n, addrDecode H s n = .err "BadData") ∧
    (d.length ≠ 82 → xkeyDecode true H s = .err "BadArgument") := by
  refine ⟨fun h => ?_, fun h n => ?_, fun h => ?_⟩
  · have : decodeChk true H s = .err "BadData" := by simp [decodeChk, hd, h]
    simp [wifDecode, addressToPublicKeyHash, this]
  · simp [addrDecode, hd, h]
  · simp [xkeyDecode, hd, h]

/-- in particular every string of fewer than four characters is an error for every decoder -/
theorem C09_short_string_rejected (H : Bytes → Bytes) (keyOf : Bytes → Option Bytes)
    (s : List Char) (h : s.length < 4) (n : Net) :
    (∃ e, decodeChk true H s = .err e) ∧ (∃ e, addrDecode H s n = .err e) ∧
    (∃ e, wifDecode true H keyOf s = .err e) ∧ (∃ e, xkeyDecode true H s = .err e) ∧
    (∃ e, addressToPublicKeyHash true H s = .err e) := by
  cases hf : fromBase58 s with
  | err e =>
    have : decodeChk true H s = .err e := by simp [decodeChk, hf]
    exact ⟨⟨e, this⟩, ⟨e, by simp [addrDecode, hf]⟩, ⟨e, by simp [wifDecode, this]⟩,
      ⟨e, by simp [xkeyDecode, hf]⟩, ⟨e, by simp [addressToPublicKeyHash, this]⟩⟩
  | panic q => exact absurd hf (fromBase58_no_panic s (by simp [CAP]; omega) q)
  | ok d =>
    have hl := fromBase58_length s d hf
    obtain ⟨h1, h2, h3⟩ := C09_short_rejected H keyOf s d hf
    obtain ⟨a, b, c⟩ := h1 (by omega)
    exact ⟨⟨_, a⟩, ⟨_, h2 (by omega) n⟩, ⟨_, b⟩, ⟨_, h3 (by omega)⟩, ⟨_, c⟩⟩

/-- An address whose version byte is neither flag of the expected network is rejected; in
    particular an address encoded for network `n` is rejected under every network `n'` whose flags
    differ from the one used — e.g. every mainnet address under every testnet and vice versa. -/
theorem C09_wrong_prefix_rejected (H : Bytes → Bytes) (hH : ∀ x, 4 ≤ (H x).length) (hash : Bytes)
    (hl : hash.length = 20) (t : AddrType) (n n' : Net)
    (hdiff : addrFlag n t ≠ p2pkhFlag n' ∧ addrFlag n t ≠ p2shFlag n') :
    addrDecode H (addrEncode H hash t n) n' = .err "BadData" := by
  unfold addrDecode addrEncode
  have hc : ((H (addrFlag n t :: hash)).take 4).length = 4 := by
    have := hH (addrFlag n t :: hash); simp [List.length_take]; omega
  rw [fromBase58_toBase58 _ (by simp [hc, hl, CAP])]
  simp only [List.length_append, List.length_cons, hc, hl]
  rw [if_neg (by omega)]
  have e : 20 + 1 + 4 - 4 = (addrFlag n t :: hash).length := by simp [hl]
  rw [e, List.take_left' rfl, List.drop_left' rfl]
  simp [hdiff.1, hdiff.2]

/-- the two prefix classes of the seven networks are disjoint (kernel-checked on the generated table) -/
theorem C09_prefix_classes_disjoint (n n' : Net) (t : AddrType) (h : n.xclass ≠ n'.xclass) :
    addrFlag n t ≠ p2pkhFlag n' ∧ addrFlag n t ≠ p2shFlag n' := by
  cases n <;> cases n' <;> cases t <;> first | (exact absurd rfl h) | decide

/-- WIF with a prefix other than the two private-key bytes, and extended keys with an unknown
    version word, are errors (the latter when the network or type is asked for). -/
theorem C09_wrong_prefix_rejected_wif_xkey (r : Bool) (H : Bytes → Bytes)
    (keyOf : Bytes → Option Bytes) (s : List Char) (pfx : UInt8) (rest : Bytes)
    (hd : decodeChk r H s = .ok (pfx :: rest)) (h1 : pfx ≠ MAIN_PRIVATE_KEY)
    (h2 : pfx ≠ TEST_PRIVATE_KEY) : wifDecode r H keyOf s = .err "BadArgument" := by
  simp [wifDecode, hd, h1, h2]

theorem C09_unknown_xkey_version (k : Bytes)
    (h : xkeyVersion k ∉ [Generated.C09_XPUB_MAIN, Generated.C09_XPRV_MAIN,
      Generated.C09_XPUB_TEST, Generated.C09_XPRV_TEST]) :
    xkeyNetwork k = .err "BadData" ∧ xkeyType k = .err "BadData" := by
  simp only [List.mem_cons, List.not_mem_nil, or_false, not_or] at h
  simp [xkeyNetwork, xkeyType, h]

/-! ## never panics -/

/-- Every string of at most 132 characters — alphabet or not, ASCII or not — is mapped by every
    repaired decoder to `ok` or `err`, never to a panic; for any `H`, any `keyOf`, any network. -/
theorem C09_no_panic (H : Bytes → Bytes) (keyOf : Bytes → Option Bytes) (s : List Char)
    (hlen : s.length ≤ 132) (n : Net) (site : String) :
    decodeChk true H s ≠ .panic site ∧ addrDecode H s n ≠ .panic site ∧
    wifDecode true H keyOf s ≠ .panic site ∧ xkeyDecode true H s ≠ .panic site ∧
    addressToPublicKeyHash true H s ≠ .panic site := by
  have hf : ∀ q, fromBase58 s ≠ .panic q := fromBase58_no_panic s hlen
  have hchk : ∀ q, decodeChk true H s ≠ .panic q := by
    intro q
    unfold decodeChk
    cases h : fromBase58 s with
    | err e => simp
    | panic p => exact absurd h (hf p)
    | ok d =>
      simp only
      split
      · simp
      · split <;> simp
  refine ⟨hchk site, ?_, ?_, ?_, ?_⟩
  · unfold addrDecode
    cases h : fromBase58 s with
    | err e => simp
    | panic p => exact absurd h (hf p)
    | ok v =>
      simp only
      split
      · simp
      · rename_i hl
        split
        · simp
        · -- `v0` has at least two bytes: `v0[0]` is in range
          have hv0 : (v.take (v.length - 4)).length = v.length - 4 := by simp
          cases hv : v.take (v.length - 4) with
          | nil => rw [hv] at hv0; simp at hv0; omega
          | cons tb rest =>
            simp only
            split
            · split <;> simp
            · split
              · split <;> simp
              · simp
  · unfold wifDecode
    cases h : decodeChk true H s with
    | err e => simp
    | panic p => exact absurd h (hchk p)
    | ok d =>
      simp only
      cases hh : d.head? with
      | none => simp
      | some pfx =>
        simp only
        -- `d = pfx :: tl`
        cases d with
        | nil => simp at hh
        | cons x tl =>
          simp only [List.head?_cons, Option.some.injEq] at hh
          subst hh
          split
          · simp
          · rename_i net hnet
            have hx1 : x ≠ 1 := by
              intro h1; subst h1
              revert hnet
              have a : ((1 : UInt8) == MAIN_PRIVATE_KEY) = false := by decide
              have b : ((1 : UInt8) == TEST_PRIVATE_KEY) = false := by decide
              simp [a, b]
            cases hl : (x :: tl).getLast? with
            | none => simp
            | some lastByte =>
              simp only
              by_cases hc : (s.length == 52 && lastByte == 1) = true
              · simp only [hc, if_true]
                -- compressed: the last byte is 1 ≠ prefix, so there are at least two bytes
                have htl : tl ≠ [] := by
                  intro e; subst e
                  simp at hl; subst hl
                  simp at hc
                  exact hx1 hc.2
                have : 1 ≤ (x :: tl).length - 1 := by
                  cases tl with
                  | nil => exact absurd rfl htl
                  | cons y ys => simp
                simp only [this, if_true]
                split <;> simp
              · have hcf : (s.length == 52 && lastByte == 1) = false := by simpa using hc
                simp only [hcf, Bool.false_eq_true, if_false]
                cases keyOf (List.drop 1 (x :: tl)) <;> simp
  · unfold xkeyDecode
    cases h : fromBase58 s with
    | err e => simp
    | panic p => exact absurd h (hf p)
    | ok v =>
      simp only [Bool.true_and]
      split
      · simp
      · rename_i hl
        have : v.length = 82 := by simpa using hl
        rw [if_neg (by omega)]
        split <;> simp
  · unfold addressToPublicKeyHash
    cases h : decodeChk true H s with
    | err e => simp
    | panic p => exact absurd h (hchk p)
    | ok d => simp only; split <;> simp

/-- a string containing a character outside the alphabet is `Base58Error`, whatever its length -/
theorem C09_non_alphabet_is_error (H : Bytes → Bytes) (keyOf : Bytes → Option Bytes)
    (s : List Char) (n : Net) (h : ∃ c ∈ s, charDigit c = none) :
    decodeChk true H s = .err "Base58Error" ∧ addrDecode H s n = .err "Base58Error" ∧
    wifDecode true H keyOf s = .err "Base58Error" ∧ xkeyDecode true H s = .err "Base58Error" ∧
    addressToPublicKeyHash true H s = .err "Base58Error" := by
  have hd : digitsOf s = none := by
    obtain ⟨c, hc, hn⟩ := h
    induction s with
    | nil => simp at hc
    | cons x xs ih =>
      simp only [digitsOf]
      simp only [List.mem_cons] at hc
      rcases hc with rfl | hc
      · simp [hn]
      · rw [ih hc]; cases charDigit x <;> rfl
  have hf : fromBase58 s = .err "Base58Error" := by simp [fromBase58, hd]
  have hc : decodeChk true H s = .err "Base58Error" := by simp [decodeChk, hf]
  simp [hc, addrDecode, wifDecode, xkeyDecode, addressToPublicKeyHash, hf]

/-! ## the pinned tree, and the limit of the claim -/

/-- FULL statement of "never panics" for the pinned code — false: -/
def C09_no_panic_pinned_full (H : Bytes → Bytes) : Prop :=
  ∀ s site, s.length ≤ 132 → decodeChk false H s ≠ .panic site ∧ xkeyDecode false H s ≠ .panic site ∧
    addressToPublicKeyHash false H s ≠ .panic site

/-- the pinned code panics on `""`, `"1"`, `"11"`, `"111"`, `"2g"` (`len - 4` underflow; `from_wif`
    goes through the same line), `ExtendedKey::decode("1111")` (`v[..78]`), and
    `address_to_public_key_hash("3QJmnh")`-like inputs (an empty payload with a valid checksum). -/
theorem C09_pinned_panics (H : Bytes → Bytes) (keyOf : Bytes → Option Bytes) :
    decodeChk false H [] = .panic "base58_checksum.rs:decoded.len()-4" ∧
    decodeChk false H ['1'] = .panic "base58_checksum.rs:decoded.len()-4" ∧
    decodeChk false H ['1', '1'] = .panic "base58_checksum.rs:decoded.len()-4" ∧
    decodeChk false H ['1', '1', '1'] = .panic "base58_checksum.rs:decoded.len()-4" ∧
    decodeChk false H ['2', 'g'] = .panic "base58_checksum.rs:decoded.len()-4" ∧
    wifDecode false H keyOf ['2', 'g'] = .panic "base58_checksum.rs:decoded.len()-4" ∧
    xkeyDecode false H ['1', '1', '1', '1'] = .panic "extended_key.rs:v[..78]" := by
  have e0 : fromBase58 [] = .ok [] := by decide
  have e1 : fromBase58 ['1'] = .ok [0] := by decide
  have e2 : fromBase58 ['1', '1'] = .ok [0, 0] := by decide
  have e3 : fromBase58 ['1', '1', '1'] = .ok [0, 0, 0] := by decide
  have e4 : fromBase58 ['1', '1', '1', '1'] = .ok [0, 0, 0, 0] := by decide
  have e5 : fromBase58 ['2', 'g'] = .ok [97] := by decide
  have c5 : decodeChk false H ['2', 'g'] = .panic "base58_checksum.rs:decoded.len()-4" := by
    simp [decodeChk, e5]
  refine ⟨by simp [decodeChk, e0], by simp [decodeChk, e1], by simp [decodeChk, e2],
    by simp [decodeChk, e3], c5, by simp [wifDecode, c5], by simp [xkeyDecode, e4]⟩

theorem C09_no_panic_pinned_full_false (H : Bytes → Bytes) : ¬ C09_no_panic_pinned_full H := by
  intro h
  exact (h [] _ (by simp)).1 (C09_pinned_panics H (fun _ => none)).1

/-- `address_to_public_key_hash`: whenever a string carries a valid checksum over an EMPTY payload
    (`"3QJmnh"` is one for double SHA-256) the pinned `[1..]` slice panics; repaired: `BadData`. -/
theorem C09_pinned_empty_payload_panics (H : Bytes → Bytes) (s : List Char)
    (h : fromBase58 s = .ok ((H []).take 4)) (h4 : ((H []).take 4).length = 4) :
    addressToPublicKeyHash false H s = .panic "py_wallet.rs:decoded[1..]" ∧
    addressToPublicKeyHash true H s = .err "BadData" := by
  have : ∀ r, decodeChk r H s = .ok [] := by
    intro r
    simp [decodeChk, h, h4, checksum4]
  simp [addressToPublicKeyHash, this]

set_option maxRecDepth 8192 in
/-- Limit of the claim: the `base58` crate itself panics once the leading `'1'`s plus the
    significant bytes exceed its 132-byte buffer — e.g. 133 × `'1'` — through every decoder.
    (Outside the property's quantifier, strings of length 0-120; not repaired.) -/
theorem C09_crate_capacity_panic :
    fromBase58 (List.replicate 133 '1') = .panic "base58:from_base58:leading_zeros-zcount" ∧
    fromBase58 (List.replicate 132 '1') = .ok (List.replicate 132 0) := by
  constructor <;> decide

/-- the model's alphabet is the one the crate's encoder was observed to use on this run
    (`C09_ALPHABET` is regenerated from behaviour by `cgh tables`) -/
theorem C09_alphabet_matches_crate : Generated.C09_ALPHABET = (List.range 58).map digitCode := by
  decide

/-! ## non-vacuity -/

example : encode58 [0, 0, 97, 98, 99] = [0, 0, 32, 41, 11, 33] := by decide
example : toBase58 [0, 0, 97, 98, 99] = "11ZiCa".toList := by decide
example : fromBase58 "11ZiCa".toList = .ok [0, 0, 97, 98, 99] := by decide
example : fromBase58 "0".toList = .err "Base58Error" := by decide
example : fromBase58 "é".toList = .err "Base58Error" := by decide
example : ∃ H : Bytes → Bytes, ∀ x, 4 ≤ (H x).length := ⟨fun _ => [1, 2, 3, 4], by simp⟩
example : wifPrefix .bsvMain = some MAIN_PRIVATE_KEY ∧ wifPrefix .bsvTest = some TEST_PRIVATE_KEY :=
  ⟨rfl, rfl⟩
/-- with a toy checksum: a valid string, a transposition of it rejected, a too-short one rejected -/
example : decodeChk true (fun _ => [1, 2, 3, 4]) (encodeChk (fun _ => [1, 2, 3, 4]) [0, 7]) = .ok [0, 7] := by
  decide
example : encodeChk (fun _ => [1, 2, 3, 4]) [0, 7] = "1nqDUUT".toList := by decide
example : decodeChk true (fun _ => [1, 2, 3, 4]) "1nqDUTU".toList = .err "BadData" := by decide
example : decodeChk true (fun _ => [1, 2, 3, 4]) "2g".toList = .err "BadData" := by decide

end CG.Props.C09

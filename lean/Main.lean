import CG.Drv.All
/-!
Line-protocol driver: one request per line on stdin, one reply `model<TAB>spec[<TAB>sig]` per line.
Executable only; imports Model/Spec/Crypto/Drv (never Mathlib, never proofs).
-/
open CG.Drv

def handlers : List (String → List String → Option String) := allHandlers

def dispatch (line : String) : String :=
  match line.trimAscii.toString.splitOn " " with
  | [] => "bad-request\tbad-request"
  | op :: args =>
    match handlers.findSome? (fun h => h op args) with
    | some r => r
    | none => "unknown-op\tunknown-op"

partial def loop (h : IO.FS.Stream) (out : IO.FS.Stream) : IO Unit := do
  let line ← h.getLine
  if line.isEmpty then return ()
  out.putStrLn (dispatch line)
  loop h out

def main : IO Unit := do
  let out ← IO.getStdout
  loop (← IO.getStdin) out
  out.flush

#!/bin/bash
# usage: tools_seed_eval.sh <PID> <seed dir name e.g. c19>   (expects /tmp/seed_<x> worktree and /tmp/seed_<x>_out/)
# DEMO_FEATURES="--features verif-hooks" for demos that need the hooks
# 1. confirms the seeded change: lib tests pass, demo fails with it and passes without it (in the scratch worktree)
# 2. applies the patch to /repo, runs ./check PID (quick), reverts; prints the verdict
PID=$1; X=$2; WT=/tmp/seed_$X; OUT=/tmp/seed_${X}_out
export CARGO_TARGET_DIR=$WT/target CARGO_NET_OFFLINE=true
cd $WT || exit 2
[ -f tests/seeded_demo.rs ] || { mkdir -p tests; cp $OUT/seeded_demo.rs tests/ 2>/dev/null; }
echo "== lib tests with change:"; cargo test --offline --lib 2>&1 | grep "^test result" | head -1
echo "== demo with change (expect FAIL):"; cargo test --offline $DEMO_FEATURES --test seeded_demo 2>&1 | grep -E "^test result|panicked|error(\[|:)" | head -3
git apply -R $OUT/patch.diff || { echo "cannot revert patch"; exit 2; }
echo "== demo without change (expect ok):"; cargo test --offline $DEMO_FEATURES --test seeded_demo 2>&1 | grep -E "^test result|error(\[|:)" | head -2
git apply $OUT/patch.diff
cd /verif
git -C /repo apply $OUT/patch.diff || { echo "patch does not apply to /repo"; exit 2; }
echo "== ./check $PID with the change applied to /repo:"
./check $PID 2>&1 | tail -4 | cut -c1-300
echo "rc=$?"
git -C /repo checkout -- . 
git -C /repo status --short | head -3

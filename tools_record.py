#!/usr/bin/env python3
"""usage: tools_record.py fixed <PID> <commit> <what>   |   finding <PID> <sig> <replay> <what>"""
import json, sys
k = json.load(open('/verif/known_findings.json'))
if sys.argv[1] == 'fixed':
    k['fixed'].append({"property": sys.argv[2], "commit": sys.argv[3], "what": sys.argv[4]})
else:
    k['findings'].append({"property": sys.argv[2], "sig": sys.argv[3], "replay": sys.argv[4], "what": sys.argv[5]})
json.dump(k, open('/verif/known_findings.json', 'w'), indent=1)
